// Package c06: native ONT / ONG token contracts — supply conservation and authorization.
//
// The driver runs generated call histories against the real contracts through
// native.NativeService.NativeCall on a CacheDB over an in-memory store (one call = one
// transaction: fresh cache, committed only if the call returned no error), and a smaller number
// through a ledgerkit solo chain with signed transactions in blocks (ledger.go).
//
//   - correspondence: every history is one Coq case: network id, the stored start state and, per
//     call, the call, the implementation's outcome (return value or error class) and the decoded
//     storage of both contracts afterwards (decoded here from the raw records).  Corr/C06.v
//     replays Model/Token.v on it, with CalcUnbindOng instantiated by the C09 model.
//   - oracle (direct, on the implementation): per call, sum of balances of each token unchanged,
//     nothing negative, every decreased balance justified by a witness / the ONT contract's pool /
//     an equal decrease of the spender's allowance, every increased allowance witnessed, a failed
//     call leaves every stored byte of both contracts unchanged; balanceOf(V2)/allowance(V2)
//     answered by the contracts agree with the decoded records.
package c06

import (
	"encoding/json"
	"fmt"
	"math/big"
	"strings"

	"github.com/ontio/ontology/common"
	"github.com/ontio/ontology/common/config"

	_ "verif/harness/drivers/c09" // Gen/Unbind.v producer (Corr/C06.v instantiates CalcUnbindOng with Model/Unbind.v)

	"verif/harness/hx"
)

func init() { hx.Register("C06", Run) }

// ---------------------------------------------------------------- Coq printers

func coqAddr(a common.Address) string { return addrN(a).String() }
func coqAddrH(h string) string        { return coqAddr(addrOf(h)) }
func coqZ(v *big.Int) string          { return hx.CoqZBig(v) }

func coqState(d *dump) string {
	bal := func(l []balEnt) string {
		var s []string
		for _, e := range l {
			s = append(s, fmt.Sprintf("(%s, %s)", coqAddr(e.A), coqZ(e.V)))
		}
		return hx.CoqList(s)
	}
	al := func(l []allowEnt) string {
		var s []string
		for _, e := range l {
			s = append(s, fmt.Sprintf("((%s, %s), %s)", coqAddr(e.O), coqAddr(e.S), coqZ(e.V)))
		}
		return hx.CoqList(s)
	}
	return fmt.Sprintf("(mkState %s %s %s %s %s)", bal(d.Bal["ONT"]), bal(d.Bal["ONG"]), al(d.Allow["ONT"]), al(d.Allow["ONG"]), bal(d.Offs))
}

// coqDelta prints the records that differ between two dumps plus the per-family digests.
func coqDelta(before, after *dump) string {
	bl := func(b, a []balEnt) string {
		var s []string
		old := map[common.Address]*big.Int{}
		for _, e := range b {
			old[e.A] = e.V
		}
		now := map[common.Address]bool{}
		for _, e := range a {
			now[e.A] = true
			if o, ok := old[e.A]; !ok || o.Cmp(e.V) != 0 {
				s = append(s, fmt.Sprintf("B %s %s", coqAddr(e.A), coqZ(e.V)))
			}
		}
		for _, e := range b {
			if !now[e.A] {
				s = append(s, "BX "+coqAddr(e.A))
			}
		}
		return hx.CoqList(s)
	}
	al := func(b, a []allowEnt) string {
		var s []string
		type key struct{ o, s common.Address }
		old := map[key]*big.Int{}
		for _, e := range b {
			old[key{e.O, e.S}] = e.V
		}
		now := map[key]bool{}
		for _, e := range a {
			now[key{e.O, e.S}] = true
			if o, ok := old[key{e.O, e.S}]; !ok || o.Cmp(e.V) != 0 {
				s = append(s, fmt.Sprintf("A %s %s %s", coqAddr(e.O), coqAddr(e.S), coqZ(e.V)))
			}
		}
		for _, e := range b {
			if !now[key{e.O, e.S}] {
				s = append(s, fmt.Sprintf("AX %s %s", coqAddr(e.O), coqAddr(e.S)))
			}
		}
		return hx.CoqList(s)
	}
	var dg []string
	cnt := func(n int, sum *big.Int) { dg = append(dg, hx.CoqZ(int64(n)), coqZ(sum)) }
	asum := func(l []allowEnt) *big.Int {
		t := new(big.Int)
		for _, e := range l {
			t.Add(t, e.V)
		}
		return t
	}
	osum := new(big.Int)
	for _, e := range after.Offs {
		osum.Add(osum, e.V)
	}
	cnt(len(after.Bal["ONT"]), after.sum("ONT"))
	cnt(len(after.Bal["ONG"]), after.sum("ONG"))
	cnt(len(after.Allow["ONT"]), asum(after.Allow["ONT"]))
	cnt(len(after.Allow["ONG"]), asum(after.Allow["ONG"]))
	cnt(len(after.Offs), osum)
	return fmt.Sprintf("(Delta %s %s %s %s %s %s)", bl(before.Bal["ONT"], after.Bal["ONT"]), bl(before.Bal["ONG"], after.Bal["ONG"]),
		al(before.Allow["ONT"], after.Allow["ONT"]), al(before.Allow["ONG"], after.Allow["ONG"]), bl(before.Offs, after.Offs), hx.CoqList(dg))
}

func v2onAt(net, height uint32) (on bool, wrap bool) {
	withNet(net, func() {
		on = height >= config.GetAddDecimalsHeight()
		wrap = height <= config.GetUint64WrappingHeight()
	})
	return
}

func coqCall(net uint32, k *jCall) string {
	var sg []string
	for _, s := range k.Signers {
		sg = append(sg, coqAddrH(s))
	}
	var st []string
	for _, x := range k.callStack() {
		st = append(st, coqAddrH(x))
	}
	caller := hx.CoqList(st)
	on, wrap := v2onAt(net, k.Height)
	ctx := fmt.Sprintf("(mkCtx %s %s %s %s %s %s)", hx.CoqList(sg), caller, hx.CoqZ(int64(k.Time)), hx.CoqBool(k.PreExec), hx.CoqBool(on), hx.CoqBool(wrap))
	var op string
	switch k.Kind {
	case "transfer":
		var ts []string
		for _, s := range k.States {
			ts = append(ts, fmt.Sprintf("TS %s %s %s", coqAddrH(s.From), coqAddrH(s.To), coqZ(bigOf(s.Value))))
		}
		op = fmt.Sprintf("(Transfer %s %s)", hx.CoqBool(k.V2), hx.CoqList(ts))
	case "approve":
		op = fmt.Sprintf("(Approve %s %s %s %s)", hx.CoqBool(k.V2), coqAddrH(k.From), coqAddrH(k.To), coqZ(bigOf(k.Value)))
	default:
		op = fmt.Sprintf("(TransferFrom %s %s %s %s %s)", hx.CoqBool(k.V2), coqAddrH(k.Sender), coqAddrH(k.From), coqAddrH(k.To), coqZ(bigOf(k.Value)))
	}
	return fmt.Sprintf("(mkCall %s %s %s)", k.Tok, ctx, op)
}

// ---------------------------------------------------------------- oracle

func witnessed(k *jCall, a common.Address) bool {
	for _, s := range k.Signers {
		if addrOf(s) == a {
			return true
		}
	}
	// the contract half of CheckWitness: the IMMEDIATE caller of the token contract only
	st := k.callStack()
	return len(st) > 0 && addrOf(st[len(st)-1]) == a
}

type stepInfo struct {
	Index   int    `json:"index"`
	Call    *jCall `json:"call"`
	Outcome string `json:"outcome"`
}

// checkStep is the property stated directly on two decoded storage dumps of the implementation.
func checkStep(c *hx.Ctx, seq *jSeq, i int, k *jCall, failed bool, before, after *dump, rawSame bool, outcome string) {
	in := map[string]interface{}{"mode": seq.Mode, "net": seq.Net, "init": seq.Init, "calls": seq.Calls[:i+1]}
	got := func(extra interface{}) interface{} {
		return map[string]interface{}{"step": stepInfo{i, k, outcome}, "detail": extra}
	}
	if failed {
		if !rawSame {
			c.Fail("failed-call-changed-state", "a failed call must leave every balance and allowance untouched", in, got(nil), "stored records identical before and after")
		}
		return
	}
	for _, tok := range []string{"ONT", "ONG"} {
		if before.sum(tok).Cmp(after.sum(tok)) != 0 {
			c.Fail("supply-changed:"+tok, "sum of all balances of the token unchanged", in,
				got(map[string]string{"before": before.sum(tok).String(), "after": after.sum(tok).String()}), "equal sums")
		}
		for _, e := range after.Bal[tok] {
			if e.V.Sign() < 0 {
				c.Fail("negative-balance", "no balance becomes negative", in, got(hexOf(e.A)), ">= 0")
			}
		}
		for _, e := range after.Allow[tok] {
			if e.V.Sign() < 0 {
				c.Fail("negative-allowance", "no allowance becomes negative", in, got(hexOf(e.O)+"->"+hexOf(e.S)), ">= 0")
			}
		}
		// debits
		for _, e := range before.Bal[tok] {
			nb := after.bal(tok, e.A)
			if nb.Cmp(e.V) >= 0 {
				continue
			}
			dec := new(big.Int).Sub(e.V, nb)
			if witnessed(k, e.A) {
				continue
			}
			if k.Tok == "ONT" && tok == "ONG" && e.A == ontC {
				continue // the ONT contract pays accrued ONG out of its own balance
			}
			if k.Kind == "transferFrom" && tok == k.Tok && addrOf(k.From) == e.A {
				sender := addrOf(k.Sender)
				ab, aa := before.allow(tok, e.A, sender), after.allow(tok, e.A, sender)
				spenderOK := witnessed(k, sender) || (witnessed(k, ontC) && k.Sender == k.To && e.A == ontC)
				if spenderOK && aa.Sign() >= 0 && new(big.Int).Sub(ab, aa).Cmp(dec) == 0 {
					continue
				}
			}
			c.Fail("unauthorized-debit", "a debit needs the owner's witness or an equal decrease of an allowance it granted", in,
				got(map[string]interface{}{"token": tok, "account": hexOf(e.A), "decrease": dec.String(),
					"signers": k.Signers, "call_stack_below_token_contract": k.callStack()}), "debited account signed, or is the immediate caller of the token contract, or an equal allowance decrease")
		}
		// allowance increases
		for _, e := range after.Allow[tok] {
			if e.V.Cmp(before.allow(tok, e.O, e.S)) <= 0 {
				continue
			}
			if witnessed(k, e.O) || (k.Tok == "ONT" && tok == "ONG" && e.O == ontC) {
				continue
			}
			c.Fail("unauthorized-approve", "an allowance may rise only under its owner's witness", in,
				got(map[string]string{"token": tok, "owner": hexOf(e.O), "spender": hexOf(e.S)}), "owner witnessed")
		}
	}
	checkExact(c, in, got, k, seq.Net, before, after)
	// ONT calls never debit anybody's ONG but the pool
	if k.Tok == "ONT" {
		for _, e := range before.Bal["ONG"] {
			if e.A != ontC && after.bal("ONG", e.A).Cmp(e.V) < 0 {
				c.Fail("ont-call-debited-ong", "an ONT call moves ONG only out of the ONT contract's balance", in, got(hexOf(e.A)), "unchanged or increased")
			}
		}
	}
}

// checkExact: reference bookkeeping in exact integer arithmetic (base units) of what a successful
// call does to its own token: every movement debits and credits the same amount, approve stores
// exactly the amount, transferFrom lowers the allowance by exactly the amount.  The stored
// records (decoded by the independent decoder) must show exactly that.
func checkExact(c *hx.Ctx, in interface{}, got func(interface{}) interface{}, k *jCall, net uint32, before, after *dump) {
	tok := k.Tok
	_, wrap := v2onAt(net, k.Height)
	amount := func(s string) *big.Int {
		v := bigOf(s)
		if k.V2 {
			return v
		}
		if wrap && tok == "ONT" && k.Kind == "transfer" {
			v = new(big.Int).Mod(v, two64)
		}
		return new(big.Int).Mul(v, scale)
	}
	bal := map[common.Address]*big.Int{}
	getB := func(a common.Address) *big.Int {
		if v, ok := bal[a]; ok {
			return v
		}
		bal[a] = new(big.Int).Set(before.bal(tok, a))
		return bal[a]
	}
	type pk struct{ o, s common.Address }
	al := map[pk]*big.Int{}
	move := func(from, to common.Address, v *big.Int) {
		getB(from).Sub(getB(from), v)
		getB(to).Add(getB(to), v)
	}
	switch k.Kind {
	case "transfer":
		for _, st := range k.States {
			if v := amount(st.Value); v.Sign() != 0 {
				move(addrOf(st.From), addrOf(st.To), v)
			}
		}
	case "approve":
		al[pk{addrOf(k.From), addrOf(k.To)}] = amount(k.Value)
	default:
		if v := amount(k.Value); v.Sign() != 0 {
			o, sp := addrOf(k.From), addrOf(k.Sender)
			al[pk{o, sp}] = new(big.Int).Sub(before.allow(tok, o, sp), v)
			move(o, addrOf(k.To), v)
		}
	}
	for _, e := range before.Bal[tok] {
		getB(e.A)
	}
	for _, e := range after.Bal[tok] {
		getB(e.A)
	}
	for a, want := range bal {
		if have := after.bal(tok, a); have.Cmp(want) != 0 {
			c.Fail("balance:credit-differs-from-debit", "every movement debits and credits exactly its amount (base units)", in,
				got(map[string]string{"token": tok, "account": hexOf(a), "stored": have.String(), "missing": new(big.Int).Sub(want, have).String()}), want.String())
		}
	}
	for _, e := range before.Allow[tok] {
		if _, ok := al[pk{e.O, e.S}]; !ok {
			al[pk{e.O, e.S}] = e.V
		}
	}
	for _, e := range after.Allow[tok] {
		if _, ok := al[pk{e.O, e.S}]; !ok {
			al[pk{e.O, e.S}] = new(big.Int)
		}
	}
	for key, want := range al {
		if have := after.allow(tok, key.o, key.s); have.Cmp(want) != 0 {
			c.Fail("balance:allowance-differs", "approve stores exactly the amount, transferFrom lowers the allowance by exactly the amount", in,
				got(map[string]string{"token": tok, "owner": hexOf(key.o), "spender": hexOf(key.s), "stored": have.String()}), want.String())
		}
	}
}

// checkQueries: what the contracts answer for balanceOf(V2) / allowance(V2) is the decoded record.
func (w *world) checkQueries(seq *jSeq, i int, k *jCall, d *dump, accts []common.Address) {
	in := map[string]interface{}{"mode": seq.Mode, "net": seq.Net, "init": seq.Init, "calls": seq.Calls[:i+1]}
	bad := func(what string, got, want *big.Int) {
		w.c.Fail("query-disagrees", "balanceOf/allowance answers differ from the stored records", in,
			map[string]string{"query": what, "got": fmt.Sprint(got)}, want.String())
	}
	for _, tok := range []string{"ONT", "ONG"} {
		a := accts[w.c.Intn(len(accts))]
		b := accts[w.c.Intn(len(accts))]
		want := d.bal(tok, a)
		if got, err := w.query(tok, "balanceOfV2", k.Height, a); err != nil || got.Cmp(want) != 0 {
			bad(tok+".balanceOfV2 "+hexOf(a), got, want)
		}
		if got, err := w.query(tok, "balanceOf", k.Height, a); err != nil || got.Cmp(new(big.Int).Div(want, scale)) != 0 {
			bad(tok+".balanceOf "+hexOf(a), got, new(big.Int).Div(want, scale))
		}
		want = d.allow(tok, a, b)
		if got, err := w.query(tok, "allowanceV2", k.Height, a, b); err != nil || got.Cmp(want) != 0 {
			bad(tok+".allowanceV2 "+hexOf(a)+" "+hexOf(b), got, want)
		}
	}
}

// ---------------------------------------------------------------- one history

func sameRaw(a, b map[string]string) bool {
	if len(a) != len(b) {
		return false
	}
	for k, v := range a {
		if w, ok := b[k]; !ok || w != v {
			return false
		}
	}
	return true
}

func outcomeTerm(ret []byte, err error, panicked bool) (term, class string) {
	if err != nil {
		cl := classify(err, panicked)
		return "(RErr " + cl + ")", cl
	}
	if len(ret) == 1 && ret[0] == 1 {
		return "(ROk true)", "true"
	}
	return "(ROk false)", "false"
}

// runDirect executes a history on a fresh in-memory store. If g != nil the calls are generated
// on the fly (each from the current implementation state) and appended to seq.
func runDirect(c *hx.Ctx, seq *jSeq, g *sgen, nCalls int) {
	withNet(seq.Net, func() {
		w := newWorld(c)
		if g != nil {
			seq.Init = g.initState()
		}
		w.load(&seq.Init)
		d0, err := w.dump()
		if err != nil {
			c.Fail("store-undecodable", "stored records decode", seq, err.Error(), nil)
			return
		}
		var accts []common.Address
		seen := map[common.Address]bool{}
		addA := func(a common.Address) {
			if !seen[a] {
				seen[a] = true
				accts = append(accts, a)
			}
		}
		addA(ontC)
		addA(govC)
		for _, e := range d0.Bal["ONT"] {
			addA(e.A)
		}
		if g != nil {
			for _, a := range g.accts {
				addA(a)
			}
		}
		now := genesis + uint32(1000)
		if g != nil {
			now = genesis + g.offsetNear(config.GetOntHolderUnboundDeadline())
			nCalls = 6 + c.Intn(10)
		} else {
			nCalls = len(seq.Calls)
		}
		v2on := true
		if g != nil && seq.Net == config.NETWORK_ID_MAIN_NET && c.Intn(3) == 0 {
			v2on = false
		}
		var steps []string
		before := d0
		okCalls, moved := 0, false
		for i := 0; i < nCalls; i++ {
			if g != nil {
				seq.Calls = append(seq.Calls, g.next(before, &now, v2on))
			}
			k := &seq.Calls[i]
			rawBefore := w.raw()
			method, args := encodeArgs(k)
			ret, err, panicked := w.invoke(k, method, args, k.PreExec, true)
			after, derr := w.dump()
			if derr != nil {
				c.Fail("store-undecodable", "stored records decode", seq, derr.Error(), nil)
				return
			}
			term, class := outcomeTerm(ret, err, panicked)
			c.Count(fmt.Sprintf("op:%s.%s", k.Tok, method))
			c.Count("outcome:" + class)
			if class == "EOther" || class == "EOtherPanic" {
				c.Fail("unexpected-error:"+class, "every failure is one of the modelled error classes", seq, err.Error(), nil)
			}
			checkStep(c, seq, i, k, err != nil, before, after, sameRaw(rawBefore, w.raw()), class)
			if i%3 == 0 {
				w.checkQueries(seq, i, k, after, accts)
			}
			if err == nil {
				okCalls++
				if !sameRaw(rawBefore, w.raw()) {
					moved = true
				}
				if after.bal("ONG", ontC).Cmp(before.bal("ONG", ontC)) < 0 && k.Tok == "ONT" {
					c.Count("ong-paid-from-pool")
				}
				if k.Tok == "ONT" && len(after.Allow["ONG"]) > 0 && k.Kind != "approve" {
					for _, e := range after.Allow["ONG"] {
						if e.O == ontC && e.V.Cmp(before.allow("ONG", ontC, e.S)) > 0 {
							c.Count("ong-approved-by-ont")
							break
						}
					}
				}
			}
			steps = append(steps, fmt.Sprintf("Step %s %s %s", coqCall(seq.Net, k), term, coqDelta(before, after)))
			before = after
		}
		c.Count(fmt.Sprintf("net:%d", seq.Net))
		if okCalls >= 2 && moved {
			b, _ := json.Marshal(seq)
			c.Nontrivial(string(b))
		}
		c.Sample(map[string]interface{}{"net": seq.Net, "calls": len(seq.Calls), "first_call": seq.Calls[0], "ok_calls": okCalls})
		c.Case(fmt.Sprintf("CSeq %d %s %s %s", seq.Net, coqState(d0), "["+strings.Join(steps, ";\n   ")+"]", coqState(before)), seq)
	})
}

func newGen(c *hx.Ctx, net uint32) *sgen {
	g := &sgen{c: c, net: net, users: 3}
	// user addresses are small numbers (the contracts only compare addresses; small numerals keep
	// the case file quick to parse); the ledger-mode histories use real key-derived addresses.
	base := 16 + c.Intn(200)
	for i := 0; i < g.users; i++ {
		var a common.Address
		a[18], a[19] = byte((base+i)>>8), byte(base+i)
		g.accts = append(g.accts, a)
	}
	g.accts = append(g.accts, govC, ontC)
	return g
}

func Run(c *hx.Ctx) {
	c.CoqModule("Corr.C06")
	var in jSeq
	if c.ReplayInput(&in) {
		replay(c, &in)
		return
	}
	for _, raw := range c.CorpusInputs() {
		var s jSeq
		if json.Unmarshal(raw, &s) == nil && len(s.Calls) > 0 {
			replay(c, &s)
		}
	}
	probes(c)
	n := c.N(260, 2600)
	nets := []uint32{config.NETWORK_ID_POLARIS_NET, config.NETWORK_ID_MAIN_NET, config.NETWORK_ID_POLARIS_NET, config.NETWORK_ID_SOLO_NET}
	for i := 0; i < n; i++ {
		net := nets[i%len(nets)]
		var g *sgen
		withNet(net, func() { g = newGen(c, net) })
		seq := &jSeq{Mode: "direct", Net: net}
		runDirect(c, seq, g, 0)
	}
	runLedger(c, c.N(3, 12))
}

func replay(c *hx.Ctx, s *jSeq) {
	if s.Mode == "ledger" {
		c.Note("ledger-mode replay inputs are re-run in direct mode (same calls, same start state)")
	}
	cp := *s
	cp.Mode = "direct"
	runDirect(c, &cp, nil, 0)
}
