package c06

import "verif/harness/hx"

func runLedger(c *hx.Ctx, n int) {}

func probes(c *hx.Ctx) {}
