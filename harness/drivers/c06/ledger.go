package c06

// Cross-check through a real ledger (ledgerkit solo chain): the same kinds of calls as signed
// transactions, one per block, executed by the block executor (NeoVM entry script ->
// Ontology.Native.Invoke -> the token contract; witnesses = the transaction's signature
// addresses; calling contract = the address of the invocation script).  Storage is read through
// the state store (hook VerifStateOverlay) and decoded exactly as in direct mode; the outcome
// observed is success / failure of the transaction.

import (
	"fmt"
	"math/big"
	"path/filepath"
	"strings"

	"github.com/laizy/bigint"
	"github.com/ontio/ontology/account"
	"github.com/ontio/ontology/common"
	"github.com/ontio/ontology/common/config"
	"github.com/ontio/ontology/core/payload"
	"github.com/ontio/ontology/core/states"
	"github.com/ontio/ontology/core/types"
	"github.com/ontio/ontology/smartcontract/event"
	"github.com/ontio/ontology/smartcontract/service/native/ont"

	"verif/harness/hx"
	"verif/harness/ledgerkit"
)

func ntb(v *big.Int) states.NativeTokenBalance {
	return states.NativeTokenBalance{Balance: bigint.New(v)}
}

// ledgerParams builds the parameter list cmd/utils builds for the same call.
func ledgerParams(k *jCall) (method string, params []interface{}) {
	switch k.Kind {
	case "transfer":
		if k.V2 {
			var sts []*ont.TransferStateV2
			for _, s := range k.States {
				sts = append(sts, &ont.TransferStateV2{From: addrOf(s.From), To: addrOf(s.To), Value: ntb(bigOf(s.Value))})
			}
			return "transferV2", []interface{}{sts}
		}
		var sts []*ont.TransferState
		for _, s := range k.States {
			sts = append(sts, &ont.TransferState{From: addrOf(s.From), To: addrOf(s.To), Value: bigOf(s.Value).Uint64()})
		}
		return "transfer", []interface{}{sts}
	case "approve":
		if k.V2 {
			return "approveV2", []interface{}{&ont.TransferStateV2{From: addrOf(k.From), To: addrOf(k.To), Value: ntb(bigOf(k.Value))}}
		}
		return "approve", []interface{}{&ont.TransferState{From: addrOf(k.From), To: addrOf(k.To), Value: bigOf(k.Value).Uint64()}}
	default:
		if k.V2 {
			return "transferFromV2", []interface{}{&ont.TransferFromStateV2{Sender: addrOf(k.Sender),
				TransferStateV2: ont.TransferStateV2{From: addrOf(k.From), To: addrOf(k.To), Value: ntb(bigOf(k.Value))}}}
		}
		return "transferFrom", []interface{}{ont.NewTransferFromState(addrOf(k.Sender), addrOf(k.From), addrOf(k.To), bigOf(k.Value).Uint64())}
	}
}

// sane makes an amount one the client-side builders can carry (no decode errors in this mode).
func sane(v2 bool, s string) string {
	v := bigOf(s)
	if v.Sign() < 0 || (!v2 && v.Cmp(two64) >= 0) {
		return "1"
	}
	return s
}

type lworld struct {
	c    *hx.Ctx
	k    *ledgerkit.Kit
	keys map[common.Address]*account.Account
}

func (l *lworld) world() *world {
	return &world{c: l.c, overlay: l.k.Store().VerifStateOverlay()}
}

// exec adds one block holding the call as a transaction signed by k.Signers; fills in the
// context the chain gave it (time, height, calling script address).
func (l *lworld) exec(k *jCall) (ok bool, err error) {
	method, params := ledgerParams(k)
	mtx, err := l.k.NativeTx(contractOf(k.Tok), 0, 0, 20000000, method, params)
	if err != nil {
		return false, err
	}
	for _, s := range k.Signers {
		if err := ledgerkit.Sign(mtx, l.keys[addrOf(s)]); err != nil {
			return false, err
		}
	}
	tx, err := mtx.IntoImmutable()
	if err != nil {
		return false, err
	}
	k.Stack = []string{hexOf(common.AddressFromVmCode(tx.Payload.(*payload.InvokeCode).Code))}
	b, err := l.k.MakeBlock([]*types.Transaction{tx})
	if err != nil {
		return false, err
	}
	k.Time, k.Height = b.Header.Timestamp, b.Header.Height
	res, err := l.k.Ledger.ExecuteBlock(b)
	if err != nil {
		return false, err
	}
	if err := l.k.Ledger.AddBlock(b, nil, res.MerkleRoot); err != nil {
		return false, err
	}
	l.c.Eval()
	if len(res.Notify) != 1 {
		return false, fmt.Errorf("expected one execution record, got %d", len(res.Notify))
	}
	return res.Notify[0].State == event.CONTRACT_STATE_SUCCESS, nil
}

func runLedger(c *hx.Ctx, n int) {
	oldNet := config.DefConfig.P2PNode.NetworkId
	defer func() { config.DefConfig.P2PNode.NetworkId = oldNet }()
	kit, err := ledgerkit.New(filepath.Join(c.OutDir, "c06-ledger"))
	if err != nil {
		c.Fail("ledger-setup", "solo chain could not be created", nil, err.Error(), nil)
		return
	}
	defer kit.Close()
	l := &lworld{c: c, k: kit, keys: map[common.Address]*account.Account{kit.Acct.Address: kit.Acct}}
	g := &sgen{c: c, net: config.NETWORK_ID_SOLO_NET, users: 4}
	g.accts = append(g.accts, kit.Acct.Address)
	for i := 0; i < 3; i++ {
		a := account.NewAccount("")
		l.keys[a.Address] = a
		g.accts = append(g.accts, a.Address)
	}
	g.accts = append(g.accts, govC, ontC)
	// funding: the bookkeeper holds both supplies
	bk := hexOf(kit.Acct.Address)
	fund := func(tok string, to common.Address, v *big.Int) {
		k := &jCall{Tok: tok, Kind: "transfer", V2: true, Signers: []string{bk}, States: []jTS{{bk, hexOf(to), v.String()}}}
		if ok, err := l.exec(k); err != nil || !ok {
			c.Fail("ledger-setup", "funding transfer failed", k, fmt.Sprint(ok, err), nil)
		}
	}
	for _, a := range g.accts[1:] {
		fund("ONT", a, new(big.Int).Add(new(big.Int).Mul(big.NewInt(int64(10+c.Intn(1000))), scale), big.NewInt(int64(c.Intn(2)*c.Intn(1000000000)))))
		fund("ONG", a, new(big.Int).Add(new(big.Int).Mul(big.NewInt(int64(10+c.Intn(1000))), scale), big.NewInt(int64(c.Intn(1000000000)))))
	}
	for s := 0; s < n; s++ {
		seq := &jSeq{Mode: "ledger", Net: config.NETWORK_ID_SOLO_NET}
		before, err := l.world().dump()
		if err != nil {
			c.Fail("store-undecodable", "stored records decode", nil, err.Error(), nil)
			return
		}
		d0 := before
		seq.Init = stateOfDump(d0)
		var steps []string
		now := uint32(0)
		nCalls := 8 + c.Intn(5)
		okCalls := 0
		for i := 0; i < nCalls; i++ {
			k := g.next(before, &now, true)
			k.PreExec, k.Caller, k.Stack = false, "", nil
			for j := range k.States {
				k.States[j].Value = sane(k.V2, k.States[j].Value)
			}
			if k.Kind != "transfer" {
				k.Value = sane(k.V2, k.Value)
			}
			// only accounts we hold keys for can sign
			var sg []string
			for _, x := range k.Signers {
				if _, ok := l.keys[addrOf(x)]; ok {
					sg = append(sg, x)
				}
			}
			// mostly let the debited side (or the spender) sign, so that enough transactions succeed
			must := []string{k.From}
			if k.Kind == "transferFrom" {
				must = []string{k.Sender}
			}
			for _, st := range k.States {
				must = append(must, st.From)
			}
			for _, x := range must {
				if x == "" || c.Intn(5) == 0 {
					continue
				}
				if _, ok := l.keys[addrOf(x)]; ok && !strings.Contains(strings.Join(sg, ","), x) {
					sg = append(sg, x)
				}
			}
			if len(sg) == 0 {
				sg = []string{hexOf(g.accts[1+c.Intn(3)])}
			}
			k.Signers = sg
			rawBefore := l.world().raw()
			var ok bool
			var err error
			if p, msg := hx.Recover(func() { ok, err = l.exec(&k) }); p {
				seq.Calls = append(seq.Calls, k)
				c.Fail("panic:block-execution", "a token transaction must not crash the block executor", seq, msg, "transaction result")
				return
			}
			if err != nil {
				c.Fail("ledger-exec", "block with the transaction could not be executed/added", k, err.Error(), nil)
				return
			}
			seq.Calls = append(seq.Calls, k)
			w := l.world()
			after, derr := w.dump()
			if derr != nil {
				c.Fail("store-undecodable", "stored records decode", seq, derr.Error(), nil)
				return
			}
			term, class := "RSucc", "ledger-ok"
			if !ok {
				term, class = "RFail", "ledger-failed"
			} else {
				okCalls++
			}
			method, _ := ledgerParams(&k)
			c.Count(fmt.Sprintf("ledger-op:%s.%s", k.Tok, method))
			c.Count("outcome:" + class)
			checkStep(c, seq, i, &seq.Calls[i], !ok, before, after, sameRaw(rawBefore, w.raw()), class)
			steps = append(steps, fmt.Sprintf("Step %s %s %s", coqCall(seq.Net, &seq.Calls[i]), term, coqDelta(before, after)))
			before = after
		}
		c.Count("mode:ledger")
		if okCalls >= 2 {
			c.Nontrivial(fmt.Sprintf("ledger-%d-%d-%s", c.Seed, s, seq.Calls[0].Stack[0]))
		}
		c.Case(fmt.Sprintf("CSeq %d %s %s %s", seq.Net, coqState(d0), "["+strings.Join(steps, ";\n   ")+"]", coqState(before)), seq)
	}
}

func stateOfDump(d *dump) jState {
	st := jState{Bal: map[string][]jBal{}, Allow: map[string][]jAllow{}}
	for _, tok := range []string{"ONT", "ONG"} {
		for _, e := range d.Bal[tok] {
			st.Bal[tok] = append(st.Bal[tok], jBal{hexOf(e.A), e.V.String()})
		}
		for _, e := range d.Allow[tok] {
			st.Allow[tok] = append(st.Allow[tok], jAllow{hexOf(e.O), hexOf(e.S), e.V.String()})
		}
	}
	for _, e := range d.Offs {
		st.Offs = append(st.Offs, jBal{hexOf(e.A), e.V.String()})
	}
	return st
}
