package c06

// Translator part of C06: constants of the native token contracts, obtained by linking the real
// packages, written to coq/Gen/TokenConsts.v.  Model/Token.v is built on these definitions and
// Proofs/Token.v proves the facts the theorems need about them (V1 and V2 bounds agree, every
// bounded amount is storable without the MustToInteger64 panic).

import (
	"fmt"
	"math/big"

	"github.com/ontio/ontology/common"
	"github.com/ontio/ontology/common/constants"
	"github.com/ontio/ontology/core/states"
	nutils "github.com/ontio/ontology/smartcontract/service/native/utils"

	"verif/harness/gen"
)

// addrN is the model's encoding of an address: the 20 bytes read as a big-endian number.
func addrN(a common.Address) *big.Int { return new(big.Int).SetBytes(a[:]) }

func init() {
	gen.RegisterFile("TokenConsts.v", func(repo string) ([]byte, []string) {
		z := func(name string, v fmt.Stringer, comment string) gen.Const {
			return gen.Const{Name: name, Type: "Z", Value: "(" + v.String() + ")%Z", Comment: comment}
		}
		n := func(name string, a common.Address, comment string) gen.Const {
			return gen.Const{Name: name, Type: "N", Value: "(" + addrN(a).String() + ")%N", Comment: comment}
		}
		u := func(v uint64) *big.Int { return new(big.Int).SetUint64(v) }
		cs := []gen.Const{
			z("tk_scale", u(states.ScaleFactor), "core/states.ScaleFactor"),
			z("tk_ont_supply", u(constants.ONT_TOTAL_SUPPLY), "constants.ONT_TOTAL_SUPPLY"),
			z("tk_ont_supply_v2", u(constants.ONT_TOTAL_SUPPLY_V2), "constants.ONT_TOTAL_SUPPLY_V2"),
			z("tk_ong_supply", u(constants.ONG_TOTAL_SUPPLY), "constants.ONG_TOTAL_SUPPLY"),
			z("tk_ong_supply_v2", constants.ONG_TOTAL_SUPPLY_V2.BigInt(), "constants.ONG_TOTAL_SUPPLY_V2"),
			z("tk_genesis_ts", u(uint64(constants.GENESIS_BLOCK_TIMESTAMP)), "constants.GENESIS_BLOCK_TIMESTAMP"),
			n("tk_ont_addr", nutils.OntContractAddress, "native/utils.OntContractAddress (20 bytes, big-endian)"),
			n("tk_ong_addr", nutils.OngContractAddress, "native/utils.OngContractAddress"),
			n("tk_gov_addr", nutils.GovernanceContractAddress, "native/utils.GovernanceContractAddress"),
		}
		return gen.EmitConsts("", cs), nil
	})
}
