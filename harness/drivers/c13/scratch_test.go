package c13

import (
	"fmt"
	"math/big"
	"testing"

	"github.com/ontio/ontology/common"
	"github.com/ontio/ontology/vm/neovm"
	"github.com/ontio/ontology/vm/neovm/types"
)

func TestScratch(t *testing.T) {
	x := new(big.Int).Lsh(big.NewInt(1), 256)
	x.Sub(x, big.NewInt(1))
	bs := common.BigIntToNeoBytes(x)
	fmt.Println(len(bs))
	e := neovm.NewExecutor(nil, neovm.VmFeatureFlag{})
	v, _ := types.VmValueFromBytes(bs)
	e.EvalStack.Push(v)
	st, err := e.ExecuteOp(neovm.INVERT, e.Context)
	fmt.Println(st, err)
	top, _ := e.EvalStack.Peek(0)
	k, n := top.VerifKind()
	fmt.Println(k, n, len(n.Bytes()))
	st, err = e.ExecuteOp(neovm.SIZE, e.Context)
	top, _ = e.EvalStack.Peek(0)
	k, n = top.VerifKind()
	fmt.Println(st, err, k, n)
	// MinInt64 % -1
	a := types.IntValFromInt(-1 << 63)
	r, err := a.Mod(types.IntValFromInt(-1))
	fmt.Println(r.VerifParts())
	fmt.Println(err)
	r, err = a.Div(types.IntValFromInt(-1))
	fmt.Println(r.VerifParts())
}
