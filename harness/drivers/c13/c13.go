package c13

import "verif/harness/hx"

func init() { hx.Register("C13", Run) }

func Run(c *hx.Ctx) {
	c.CoqModule("Corr.C13")
}
