// Package c13: NeoVM integer opcodes (vm/neovm Executor.ExecuteOp, vm/neovm/types IntValue,
// github.com/JohnCGriffin/overflow).
//
// Implementation side of the correspondence: every integer opcode is run through the real
// Executor on stacks built from boundary-biased operands in every storage form (int64 field,
// big.Int, byte array, bool), the new top of the stack / the fault is recorded and re-computed by
// the Coq model (Corr/C13.v).  An exhaustive sweep of the boundary set squared is done per
// two-operand opcode; the IntValue methods are swept with explicitly chosen representations (also a
// big-stored value that fits an int64) and the four overflow functions on the int64 boundary set.
//
// Oracle (independent of the model, math/big as reference): exact result when operands and result
// are within the size bound, fault otherwise, same outcome for every storage form of equal integers.
package c13

import (
	"encoding/json"
	"fmt"
	"math/big"
	"strings"

	"github.com/JohnCGriffin/overflow"
	"github.com/ontio/ontology/common"
	"github.com/ontio/ontology/vm/neovm"
	"github.com/ontio/ontology/vm/neovm/constants"
	vmerrors "github.com/ontio/ontology/vm/neovm/errors"
	"github.com/ontio/ontology/vm/neovm/types"

	"verif/harness/hx"
)

func init() { hx.Register("C13", Run) }

// ---------- numbers ----------

var biCache = map[string]*big.Int{}

// bi parses a decimal integer (memoised; the results are never modified).
func bi(s string) *big.Int {
	if v, ok := biCache[s]; ok {
		return v
	}
	v, ok := new(big.Int).SetString(s, 10)
	if !ok {
		panic("bad integer " + s)
	}
	biCache[s] = v
	return v
}
func pow2(k uint) *big.Int { return new(big.Int).Lsh(big.NewInt(1), k) }
func add(a *big.Int, d int64) *big.Int { return new(big.Int).Add(a, big.NewInt(d)) }
func neg(a *big.Int) *big.Int         { return new(big.Int).Neg(a) }

// inBound is the reference form of the VM's size rule: the magnitude fits MAX_INT_SIZE bytes.
func inBound(v *big.Int) bool { return v.BitLen() <= 8*constants.MAX_INT_SIZE }

// zs prints an integer as a Coq Z term. Magnitudes of 60 bits or more are written as 60-bit limbs of
// primitive integers (zp/zn of Corr/C13.v): decimal Z literals of that size are very slow to read.
func zs(v *big.Int) string {
	if v.BitLen() < 60 {
		if v.Sign() < 0 {
			return "(" + v.String() + ")"
		}
		return v.String()
	}
	m := new(big.Int).Abs(v)
	mask := add(pow2(60), -1)
	var limbs []string
	for m.Sign() > 0 {
		limbs = append(limbs, new(big.Int).And(m, mask).String())
		m.Rsh(m, 60)
	}
	f := "zp"
	if v.Sign() < 0 {
		f = "zn"
	}
	return "(" + f + " [" + strings.Join(limbs, ";") + "]%uint63)"
}

// boundarySet: 0, +-1, +-2, shift counts, the int64 boundary, the multiplication boundary, the
// 32-byte bound in both senses (2^255: 32 magnitude bytes / 33 NeoBytes; 2^256-1: last admissible
// magnitude; 2^256, 2^256+1: 33 magnitude bytes).
func boundarySet() []*big.Int {
	var out []*big.Int
	for _, s := range []int64{0, 1, -1, 2, -2, 3, 7, 8, 63, 64, 255, 256, 257} {
		out = append(out, big.NewInt(s))
	}
	pm := func(v *big.Int) { out = append(out, v, neg(v)) }
	pm(pow2(31))
	out = append(out, pow2(32))
	pm(big.NewInt(3037000500))
	pm(pow2(62))
	pm(add(pow2(63), -1))
	pm(pow2(63))
	pm(add(pow2(63), 1))
	pm(add(pow2(64), -1))
	pm(pow2(64))
	pm(pow2(127))
	pm(pow2(128))
	pm(add(pow2(255), -1))
	pm(pow2(255))
	pm(add(pow2(255), 1))
	pm(add(pow2(256), -1))
	pm(pow2(256))
	pm(add(pow2(256), 1))
	return out
}

// ---------- stack items ----------

// item is a replayable stack item: the integer and the storage form.
// rep: "int" (integerType), "bigint" (bigintType, not normalised), "bytes" (NeoBytes byte array,
// Pad extra sign-extension bytes), "bool", "other" (an array).
type item struct {
	Z   string `json:"z"`
	Rep string `json:"rep"`
	Pad int    `json:"pad,omitempty"`
}

func (it item) val() *big.Int { return bi(it.Z) }

func neoBytes(v *big.Int, pad int) []byte {
	bs := common.BigIntToNeoBytes(v)
	ext := byte(0)
	if v.Sign() < 0 {
		ext = 0xff
	}
	for i := 0; i < pad; i++ {
		bs = append(bs, ext)
	}
	return bs
}

// build returns the VM value and the Coq term of the model item.
func (it item) build(c *hx.Ctx) (types.VmValue, string) {
	v := it.val()
	switch it.Rep {
	case "int":
		if !v.IsInt64() {
			panic("int item out of range")
		}
		return types.VmValueFromInt64(v.Int64()), "IInt " + zs(v)
	case "bigint":
		return types.VmValueFromIntValue(types.VerifIntValRaw(true, 0, v)), "IBigInt " + zs(v)
	case "bytes":
		bs := neoBytes(v, it.Pad)
		back := common.BigIntFromNeoBytes(bs)
		if back.Cmp(v) != 0 {
			c.Fail("neobytes:roundtrip", "BigIntFromNeoBytes(BigIntToNeoBytes(v)) differs from v (C21 territory, assumed by the C13 model)", it, back.String(), v.String())
		}
		vv, err := types.VmValueFromBytes(bs)
		if err != nil {
			panic(err)
		}
		return vv, "IBytes " + zs(back)
	case "bool":
		return types.VmValueFromBool(v.Sign() != 0), "IBool " + hx.CoqBool(v.Sign() != 0)
	case "other":
		return types.VmValueFromArrayVal(types.NewArrayValue()), "IOther"
	}
	panic("bad rep " + it.Rep)
}

// reps lists the storage forms available for an integer.
func reps(v *big.Int) []string {
	r := []string{"bigint", "bytes"}
	if v.IsInt64() {
		r = append([]string{"int"}, r...)
	}
	return r
}

// natural is the form the sweep records for the model: int64 field when possible, otherwise
// alternating byte array / big.Int.
func natural(v *big.Int, i int) item {
	if v.IsInt64() {
		return item{Z: v.String(), Rep: "int"}
	}
	if i%2 == 0 {
		return item{Z: v.String(), Rep: "bytes"}
	}
	return item{Z: v.String(), Rep: "bigint"}
}

// ---------- opcodes ----------

type opInfo struct {
	Name  string
	Code  neovm.OpCode
	Arity int
	Kind  string // un | bin | cmp | within | nz
}

var ops = []opInfo{
	{"INVERT", neovm.INVERT, 1, "un"}, {"AND", neovm.AND, 2, "bin"}, {"OR", neovm.OR, 2, "bin"}, {"XOR", neovm.XOR, 2, "bin"},
	{"INC", neovm.INC, 1, "un"}, {"DEC", neovm.DEC, 1, "un"}, {"SIGN", neovm.SIGN, 1, "un"}, {"NEGATE", neovm.NEGATE, 1, "un"},
	{"ABS", neovm.ABS, 1, "un"}, {"NZ", neovm.NZ, 1, "nz"},
	{"ADD", neovm.ADD, 2, "bin"}, {"SUB", neovm.SUB, 2, "bin"}, {"MUL", neovm.MUL, 2, "bin"}, {"DIV", neovm.DIV, 2, "bin"},
	{"MOD", neovm.MOD, 2, "bin"}, {"MAX", neovm.MAX, 2, "bin"}, {"MIN", neovm.MIN, 2, "bin"},
	{"SHL", neovm.SHL, 2, "bin"}, {"SHR", neovm.SHR, 2, "bin"},
	{"NUMEQUAL", neovm.NUMEQUAL, 2, "cmp"}, {"NUMNOTEQUAL", neovm.NUMNOTEQUAL, 2, "cmp"},
	{"LT", neovm.LT, 2, "cmp"}, {"GT", neovm.GT, 2, "cmp"}, {"LTE", neovm.LTE, 2, "cmp"}, {"GTE", neovm.GTE, 2, "cmp"},
	{"WITHIN", neovm.WITHIN, 3, "within"},
}

func opByName(n string) opInfo {
	for _, o := range ops {
		if o.Name == n {
			return o
		}
	}
	panic("unknown opcode " + n)
}

// ---------- running the implementation ----------

// outcome of one ExecuteOp (or one script run).
type outcome struct {
	Fault string   // Coq constructor of the fault, "" when none
	Msg   string   // original error text
	Kind  string   // int | bigint | bool | bytes | other
	Num   *big.Int // stored number for int/bigint/bool
	Depth int
	Panic string
}

func (o outcome) String() string {
	if o.Panic != "" {
		return "panic: " + o.Panic
	}
	if o.Fault != "" {
		return "fault " + o.Fault + " (" + o.Msg + ")"
	}
	return fmt.Sprintf("%s %v depth %d", o.Kind, o.Num, o.Depth)
}

func (o outcome) sameResult(p outcome) bool {
	if (o.Fault != "") != (p.Fault != "") || o.Panic != p.Panic {
		return false
	}
	if o.Fault != "" {
		return true
	}
	return o.Kind == p.Kind && o.Num != nil && p.Num != nil && o.Num.Cmp(p.Num) == 0
}

func faultName(err error) string {
	switch err {
	case vmerrors.ERR_OVER_MAX_BIGINTEGER_SIZE:
		return "ErrOverMaxBigIntegerSize"
	case vmerrors.ERR_SHIFT_BY_NEG:
		return "ErrShiftByNeg"
	case vmerrors.ERR_DIV_MOD_BY_ZERO:
		return "ErrDivModByZero"
	case vmerrors.ERR_BAD_TYPE:
		return "ErrBadType"
	case vmerrors.ERR_INDEX_OUT_OF_BOUND:
		return "ErrIndexOutOfBound"
	case vmerrors.ERR_OVER_STACK_LEN:
		return "ErrOverStackLen"
	}
	return "ErrUnexpected"
}

var shared *neovm.Executor

// sharedExecutor returns an Executor with an empty evaluation stack (one real Executor is reused:
// allocating two 2048-limit stacks per evaluation dominates the run time otherwise).
func sharedExecutor() *neovm.Executor {
	if shared == nil {
		shared = neovm.NewExecutor([]byte{0}, neovm.VmFeatureFlag{})
	}
	for shared.EvalStack.Count() > 0 {
		if _, err := shared.EvalStack.Pop(); err != nil {
			panic(err)
		}
	}
	return shared
}

// execOp pushes the items (given top first) and executes one opcode through Executor.ExecuteOp.
func execOp(c *hx.Ctx, op opInfo, topFirst []types.VmValue) outcome {
	c.Eval()
	var out outcome
	p, msg := hx.Recover(func() {
		e := sharedExecutor()
		for i := len(topFirst) - 1; i >= 0; i-- {
			if err := e.EvalStack.Push(topFirst[i]); err != nil {
				panic(err)
			}
		}
		state, err := e.ExecuteOp(op.Code, e.Context)
		if err != nil {
			out.Fault, out.Msg = faultName(err), err.Error()
			if state != neovm.FAULT {
				out.Msg += " (state not FAULT)"
				out.Fault = "ErrUnexpected"
			}
			return
		}
		out.Depth = e.EvalStack.Count()
		top, err := e.EvalStack.Peek(0)
		if err != nil {
			out.Kind = "empty"
			return
		}
		out.Kind, out.Num = top.VerifKind()
	})
	if p {
		out.Panic = msg
		shared = nil
	}
	return out
}

// execScript runs PUSH... <op> through Executor.Execute (operands as the script would push them).
func execScript(c *hx.Ctx, op opInfo, code []byte) outcome {
	c.Eval()
	var out outcome
	p, msg := hx.Recover(func() {
		e := neovm.NewExecutor(code, neovm.VmFeatureFlag{})
		err := e.Execute()
		if err != nil {
			out.Fault, out.Msg = faultName(err), err.Error()
			return
		}
		out.Depth = e.EvalStack.Count()
		top, err := e.EvalStack.Peek(0)
		if err != nil {
			out.Kind = "empty"
			return
		}
		out.Kind, out.Num = top.VerifKind()
	})
	if p {
		out.Panic = msg
	}
	return out
}

func coqObs(o outcome) (string, bool) {
	if o.Panic != "" || o.Fault == "ErrUnexpected" {
		return "", false
	}
	if o.Fault != "" {
		return "Err " + o.Fault, true
	}
	switch o.Kind {
	case "int":
		return fmt.Sprintf("Top (IInt %s) %d%%nat", zs(o.Num), o.Depth), true
	case "bigint":
		return fmt.Sprintf("Top (IBigInt %s) %d%%nat", zs(o.Num), o.Depth), true
	case "bool":
		return fmt.Sprintf("Top (IBool %s) %d%%nat", hx.CoqBool(o.Num.Sign() != 0), o.Depth), true
	}
	return "", false
}

func coqCell(o outcome) (string, bool) {
	if o.Panic != "" || o.Fault == "ErrUnexpected" {
		return "", false
	}
	if o.Fault != "" {
		switch o.Fault {
		case "ErrOverMaxBigIntegerSize":
			return "EO", true
		case "ErrShiftByNeg":
			return "ES", true
		case "ErrDivModByZero":
			return "EZ", true
		}
		return "RE " + o.Fault, true
	}
	if o.Depth != 1 {
		return "", false
	}
	switch o.Kind {
	case "int":
		return "RI " + zs(o.Num), true
	case "bigint":
		return "RB " + zs(o.Num), true
	case "bool":
		if o.Num.Sign() != 0 {
			return "RT", true
		}
		return "RF", true
	}
	return "", false
}

// ---------- reference semantics (math/big), the oracle ----------

type expect struct {
	Fault  bool
	IsBool bool
	B      bool
	V      *big.Int
}

func (e expect) String() string {
	if e.Fault {
		return "fault"
	}
	if e.IsBool {
		return fmt.Sprint(e.B)
	}
	return e.V.String()
}

var two64 = pow2(64)

func retInt(v *big.Int) expect {
	if !inBound(v) {
		return expect{Fault: true}
	}
	return expect{V: v}
}

// reference computes what the property demands for operands given by value (left..right order as
// pushed: args[0] deepest). ok[i] tells whether the i-th operand is an integer-like item at all.
func reference(op opInfo, args []*big.Int, isInt []bool) expect {
	if len(args) < op.Arity {
		return expect{Fault: true}
	}
	for _, k := range isInt {
		if !k {
			return expect{Fault: true}
		}
	}
	if op.Kind != "cmp" {
		for _, a := range args {
			if !inBound(a) {
				return expect{Fault: true}
			}
		}
	}
	z := new(big.Int)
	switch op.Kind {
	case "un":
		x := args[0]
		switch op.Name {
		case "INVERT":
			return retInt(z.Not(x))
		case "INC":
			return retInt(z.Add(x, big.NewInt(1)))
		case "DEC":
			return retInt(z.Sub(x, big.NewInt(1)))
		case "SIGN":
			return retInt(big.NewInt(int64(x.Sign())))
		case "NEGATE":
			return retInt(z.Neg(x))
		case "ABS":
			return retInt(z.Abs(x))
		}
	case "nz":
		return expect{IsBool: true, B: args[0].Sign() != 0}
	case "within":
		x, lo, hi := args[0], args[1], args[2]
		return expect{IsBool: true, B: lo.Cmp(x) <= 0 && x.Cmp(hi) < 0}
	case "cmp":
		cmp := args[0].Cmp(args[1])
		var b bool
		switch op.Name {
		case "NUMEQUAL":
			b = cmp == 0
		case "NUMNOTEQUAL":
			b = cmp != 0
		case "LT":
			b = cmp < 0
		case "GT":
			b = cmp > 0
		case "LTE":
			b = cmp <= 0
		case "GTE":
			b = cmp >= 0
		}
		return expect{IsBool: true, B: b}
	case "bin":
		x, y := args[0], args[1]
		switch op.Name {
		case "ADD":
			return retInt(z.Add(x, y))
		case "SUB":
			return retInt(z.Sub(x, y))
		case "MUL":
			return retInt(z.Mul(x, y))
		case "DIV":
			if y.Sign() == 0 {
				return expect{Fault: true}
			}
			return retInt(truncDiv(x, y))
		case "MOD":
			if y.Sign() == 0 {
				return expect{Fault: true}
			}
			q := truncDiv(x, y)
			return retInt(z.Sub(x, new(big.Int).Mul(q, y)))
		case "MAX":
			if x.Cmp(y) >= 0 {
				return retInt(x)
			}
			return retInt(y)
		case "MIN":
			if x.Cmp(y) <= 0 {
				return retInt(x)
			}
			return retInt(y)
		case "AND":
			return retInt(z.And(x, y))
		case "OR":
			return retInt(z.Or(x, y))
		case "XOR":
			return retInt(z.Xor(x, y))
		case "SHL":
			// bounds of the VM on the count: a uint64, and at most 8*MAX_INT_SIZE
			if y.Sign() < 0 || y.Cmp(two64) >= 0 || y.Cmp(big.NewInt(8*constants.MAX_INT_SIZE)) > 0 {
				return expect{Fault: true}
			}
			return retInt(z.Mul(x, pow2(uint(y.Int64()))))
		case "SHR":
			if y.Sign() < 0 || y.Cmp(two64) >= 0 {
				return expect{Fault: true}
			}
			// floor(x / 2^y); for y > 256 and |x| < 2^256 that is 0 or -1
			if y.Cmp(big.NewInt(4096)) > 0 {
				if x.Sign() < 0 {
					return retInt(big.NewInt(-1))
				}
				return retInt(big.NewInt(0))
			}
			return retInt(floorDiv(x, pow2(uint(y.Int64()))))
		}
	}
	panic("reference: " + op.Name)
}

// truncDiv: quotient truncated toward zero, computed from magnitudes (independent of big.Int.Quo).
func truncDiv(x, y *big.Int) *big.Int {
	q := new(big.Int).Div(new(big.Int).Abs(x), new(big.Int).Abs(y)) // Euclidean on non-negatives = floor
	if (x.Sign() < 0) != (y.Sign() < 0) {
		q.Neg(q)
	}
	return q
}

func floorDiv(x, p *big.Int) *big.Int { // p > 0: Euclidean division = floor
	return new(big.Int).Div(x, p)
}

var maxMag = add(pow2(8*constants.MAX_INT_SIZE), -1)
var minInt64 = neg(pow2(63))

// failClass names the class of a failing input.
func failClass(op opInfo, args []*big.Int, what string) string {
	lo := strings.ToLower(op.Name)
	if op.Name == "INVERT" && len(args) == 1 && args[0].Cmp(maxMag) == 0 && what == "missing-fault" {
		return "invert:result-exceeds-size-bound"
	}
	if (op.Name == "DIV" || op.Name == "MOD") && len(args) == 2 && args[0].Cmp(minInt64) == 0 && args[1].Cmp(big.NewInt(-1)) == 0 {
		return lo + ":minint64-by-minus1"
	}
	return lo + ":" + what
}

type execInput struct {
	Kind   string `json:"kind"` // exec | script | row | meth | methrow | ovrow
	Op     string `json:"op,omitempty"`
	Stack  []item `json:"stack,omitempty"` // top first
	A      *item  `json:"a,omitempty"`
	M      string `json:"m,omitempty"`
	MA     *mval  `json:"ma,omitempty"`
	MB     *mval  `json:"mb,omitempty"`
	F      string `json:"f,omitempty"`
	OA     string `json:"oa,omitempty"`
	Script string `json:"script,omitempty"`
}

// check compares an outcome with the reference; reports a failing input. Returns true when fine.
func check(c *hx.Ctx, op opInfo, in execInput, args []*big.Int, isInt []bool, got outcome) bool {
	want := reference(op, args, isInt)
	bad := func(what, clause string) bool {
		c.Fail(failClass(op, args, what), clause, in, got.String(), want.String())
		return false
	}
	if got.Panic != "" {
		return bad("panic", "executing an integer opcode panicked")
	}
	if got.Fault == "ErrUnexpected" {
		return bad("unexpected-error", "fault of a kind no integer opcode should produce, or error without FAULT state")
	}
	if want.Fault {
		if got.Fault == "" {
			return bad("missing-fault", "operands or result outside the VM's integer size bound (or invalid operands) must fault")
		}
		return true
	}
	if got.Fault != "" {
		return bad("spurious-fault", "operands and exact result fit the size bound: the opcode must return the exact result")
	}
	if want.IsBool {
		if got.Kind != "bool" || (got.Num.Sign() != 0) != want.B {
			return bad("wrong-result", "comparison result is not the exact one")
		}
		return true
	}
	if (got.Kind != "int" && got.Kind != "bigint") || got.Num.Cmp(want.V) != 0 {
		return bad("wrong-result", "result is not the mathematically exact one")
	}
	return true
}

// ---------- exec cases ----------

func nontrivialKey(op opInfo, st []item, got outcome) (string, bool) {
	lim := pow2(62)
	edge := got.Fault != ""
	for _, it := range st {
		if it.Rep == "other" || new(big.Int).Abs(it.val()).Cmp(lim) >= 0 {
			edge = true
		}
	}
	if got.Num != nil && new(big.Int).Abs(got.Num).Cmp(lim) >= 0 {
		edge = true
	}
	return fmt.Sprint(op.Name, st), edge
}

// doExec runs one opcode on a stack (top first), applies the oracle, emits the correspondence case.
func doExec(c *hx.Ctx, op opInfo, st []item, tag string) outcome {
	var vals []types.VmValue
	var terms []string
	for _, it := range st {
		v, t := it.build(c)
		vals = append(vals, v)
		terms = append(terms, t)
	}
	got := execOp(c, op, vals)
	in := execInput{Kind: "exec", Op: op.Name, Stack: st}
	// operands by value, deepest first
	var args []*big.Int
	var isInt []bool
	n := op.Arity
	if n > len(st) {
		n = len(st)
	}
	for i := n - 1; i >= 0; i-- {
		args = append(args, st[i].val())
		isInt = append(isInt, st[i].Rep != "other")
	}
	if len(st) < op.Arity {
		args = nil
		// an invalid top operand still decides the kind of fault; the reference only says "fault"
	}
	if len(st) < op.Arity {
		want := expect{Fault: true}
		if got.Fault == "" || got.Panic != "" {
			c.Fail(failClass(op, nil, "missing-fault"), "too few operands must fault", in, got.String(), want.String())
		}
	} else {
		check(c, op, in, args, isInt, got)
		if got.Fault == "" && got.Panic == "" && got.Depth != len(st)-op.Arity+1 {
			c.Fail(strings.ToLower(op.Name)+":stack-depth", "an opcode must replace its operands by one result", in, got.Depth, len(st)-op.Arity+1)
		}
	}
	c.Count("exec:" + tag)
	c.Count("op:" + op.Name)
	if got.Fault != "" {
		c.Count("outcome:" + got.Fault)
	} else {
		c.Count("outcome:" + got.Kind)
	}
	if key, edge := nontrivialKey(op, st, got); edge {
		c.Nontrivial(key)
	}
	if obs, ok := coqObs(got); ok {
		c.Case(fmt.Sprintf("CExec %s %s (%s)", op.Name, hx.CoqList(parens(terms)), obs), in)
	}
	return got
}

func parens(ts []string) []string {
	out := make([]string, len(ts))
	for i, t := range ts {
		out[i] = t
	}
	return out
}

// reprCheck: same operands by value in every storage form must give the same outcome.
func reprCheck(c *hx.Ctx, op opInfo, vals []*big.Int /* top first */, base outcome, baseSt []item) {
	n := len(vals)
	choice := make([][]string, n)
	total := 1
	for i, v := range vals {
		choice[i] = reps(v)
		if v.Sign() == 0 || v.Cmp(big.NewInt(1)) == 0 {
			choice[i] = append(choice[i], "bool")
		}
		total *= len(choice[i])
	}
	for k := 0; k < total; k++ {
		st := make([]item, n)
		vv := make([]types.VmValue, n)
		kk := k
		same := true
		for i := 0; i < n; i++ {
			r := choice[i][kk%len(choice[i])]
			kk /= len(choice[i])
			st[i] = item{Z: vals[i].String(), Rep: r}
			if r == "bytes" && c.Rng.Intn(4) == 0 {
				st[i].Pad = 1 + c.Rng.Intn(2)
			}
			if st[i] != baseSt[i] {
				same = false
			}
			vv[i], _ = st[i].build(c)
		}
		if same {
			continue
		}
		got := execOp(c, op, vv)
		c.Count("repr-variants")
		if !got.sameResult(base) {
			// NUMEQUAL & co. on bool vs int: same integer, must agree as well
			var args []*big.Int
			for i := n - 1; i >= 0; i-- {
				args = append(args, vals[i])
			}
			c.Fail(failClass(op, args, "repr-dependent"), "the result must not depend on how equal integers are stored",
				execInput{Kind: "exec", Op: op.Name, Stack: st}, got.String(), base.String()+" for "+fmt.Sprint(baseSt))
		}
	}
}

// ---------- sweeps ----------

func sweepItems(bs []*big.Int) []item {
	var xs []item
	for i, v := range bs {
		xs = append(xs, natural(v, i))
	}
	return xs
}

func doRow(c *hx.Ctx, op opInfo, a item, xs []item, xsName string, withRepr bool) {
	av, at := a.build(c)
	var cells []string
	okAll := true
	for _, b := range xs {
		bv, _ := b.build(c)
		got := execOp(c, op, []types.VmValue{bv, av})
		st := []item{b, a}
		in := execInput{Kind: "exec", Op: op.Name, Stack: st}
		check(c, op, in, []*big.Int{a.val(), b.val()}, []bool{true, true}, got)
		if withRepr {
			reprCheck(c, op, []*big.Int{b.val(), a.val()}, got, st)
		}
		c.Count("op:" + op.Name)
		if got.Fault != "" {
			c.Count("outcome:" + got.Fault)
		} else {
			c.Count("outcome:" + got.Kind)
		}
		if key, edge := nontrivialKey(op, st, got); edge {
			c.Nontrivial(key)
		}
		cell, ok := coqCell(got)
		if !ok {
			okAll = false
			cell = "RE ErrBadType"
		}
		cells = append(cells, cell)
	}
	c.Count("exec:sweep-row")
	if okAll {
		c.Case(fmt.Sprintf("CRow %s (%s) %s %s", op.Name, at, xsName, hx.CoqList(cells)),
			execInput{Kind: "row", Op: op.Name, A: &a})
	}
}

// ---------- IntValue methods with explicit representations ----------

type mval struct {
	Z   string `json:"z"`
	Big bool   `json:"big"`
}

func (m mval) build() (types.IntValue, string) {
	v := bi(m.Z)
	if m.Big {
		return types.VerifIntValRaw(true, 0, v), "Big " + zs(v)
	}
	return types.VerifIntValRaw(false, v.Int64(), nil), "Small " + zs(v)
}

var binMeths = []string{"Add", "Sub", "Mul", "Div", "Mod", "Max", "Min", "And", "Or", "Xor", "Lsh", "Rsh", "Cmp"}
var unMeths = []string{"Not", "Abs", "Sign", "IsZero"}

type mout struct {
	Term  string // Coq mres
	Fault bool
	V     *big.Int
	Panic string
}

func ivTerm(v types.IntValue) (string, *big.Int) {
	isbig, i, b := v.VerifParts()
	if isbig {
		return "MB " + zs(b), b
	}
	return "MS " + zs(big.NewInt(i)), big.NewInt(i)
}

func runMeth(c *hx.Ctx, m string, a, b types.IntValue) mout {
	c.Eval()
	var out mout
	p, msg := hx.Recover(func() {
		var r types.IntValue
		var err error
		switch m {
		case "Add":
			r, err = a.Add(b)
		case "Sub":
			r, err = a.Sub(b)
		case "Mul":
			r, err = a.Mul(b)
		case "Div":
			r, err = a.Div(b)
		case "Mod":
			r, err = a.Mod(b)
		case "Max":
			r, err = a.Max(b)
		case "Min":
			r, err = a.Min(b)
		case "And":
			r, err = a.And(b)
		case "Or":
			r, err = a.Or(b)
		case "Xor":
			r, err = a.Xor(b)
		case "Lsh":
			r, err = a.Lsh(b)
		case "Rsh":
			r, err = a.Rsh(b)
		case "Cmp":
			v := big.NewInt(int64(a.Cmp(b)))
			out.Term, out.V = "MZ "+zs(v), v
			return
		case "Not":
			r = a.Not()
		case "Abs":
			r = a.Abs()
		case "Sign":
			v := big.NewInt(int64(a.Sign()))
			out.Term, out.V = "MZ "+zs(v), v
			return
		case "IsZero":
			v := big.NewInt(0)
			if a.IsZero() {
				v = big.NewInt(1)
			}
			out.Term, out.V = "MZ "+zs(v), v
			return
		default:
			panic("bad method " + m)
		}
		if err != nil {
			out.Fault = true
			switch faultName(err) {
			case "ErrOverMaxBigIntegerSize":
				out.Term = "MO"
			case "ErrShiftByNeg":
				out.Term = "MSh"
			case "ErrDivModByZero":
				out.Term = "MDz"
			default:
				out.Term = "ME " + faultName(err)
			}
			return
		}
		out.Term, out.V = ivTerm(r)
	})
	if p {
		out.Panic = msg
	}
	return out
}

var methOp = map[string]string{"Add": "ADD", "Sub": "SUB", "Mul": "MUL", "Div": "DIV", "Mod": "MOD", "Max": "MAX", "Min": "MIN",
	"And": "AND", "Or": "OR", "Xor": "XOR", "Lsh": "SHL", "Rsh": "SHR", "Not": "INVERT", "Abs": "ABS", "Sign": "SIGN"}

// checkMeth: oracle for a method result (operands within the bound).
func checkMeth(c *hx.Ctx, m string, a, b mval, got mout) {
	in := execInput{Kind: "meth", M: m, MA: &a, MB: &b}
	if got.Panic != "" {
		c.Fail("method:"+strings.ToLower(m)+":panic", "an IntValue method panicked", in, got.Panic, nil)
		return
	}
	x, y := bi(a.Z), bi(b.Z)
	if !inBound(x) || !inBound(y) {
		return // methods rely on the caller's size check of operands
	}
	var want expect
	switch m {
	case "Cmp":
		want = expect{V: big.NewInt(int64(x.Cmp(y)))}
	case "IsZero":
		want = expect{V: big.NewInt(0)}
		if x.Sign() == 0 {
			want.V = big.NewInt(1)
		}
	case "Not":
		want = expect{V: new(big.Int).Not(x)} // Not applies no size rule (see the INVERT finding at executor level)
	case "Abs", "Sign":
		want = reference(opByName(methOp[m]), []*big.Int{x}, []bool{true})
	default:
		want = reference(opByName(methOp[m]), []*big.Int{x, y}, []bool{true, true})
	}
	lo := "method:" + strings.ToLower(m)
	if (m == "Div" || m == "Mod") && x.Cmp(minInt64) == 0 && y.Cmp(big.NewInt(-1)) == 0 {
		lo = strings.ToLower(m) + ":minint64-by-minus1"
		if want.Fault != got.Fault || (!want.Fault && got.V.Cmp(want.V) != 0) {
			c.Fail(lo, "MinInt64 / -1 and MinInt64 % -1 must give the exact results 2^63 and 0", in, got.Term, want.String())
		}
		return
	}
	if want.Fault != got.Fault {
		c.Fail(lo+":fault-mismatch", "a method must fault exactly when the exact result is outside the size bound (or the operation is undefined)", in, got.Term, want.String())
		return
	}
	if !want.Fault && got.V.Cmp(want.V) != 0 {
		c.Fail(lo+":wrong-result", "result is not the mathematically exact one", in, got.Term, want.String())
	}
}

// methSet: int64-range values in both encodings (Small, and Big holding the same integer), plus
// values only a big.Int can hold.
func methSet() []mval {
	var out []mval
	small := []*big.Int{big.NewInt(0), big.NewInt(1), big.NewInt(-1), big.NewInt(2), big.NewInt(63), big.NewInt(64),
		big.NewInt(257), pow2(32), big.NewInt(3037000500), big.NewInt(-3037000500), pow2(62),
		add(pow2(63), -1), neg(pow2(63)), add(neg(pow2(63)), 1)}
	for _, v := range small {
		out = append(out, mval{Z: v.String(), Big: false}, mval{Z: v.String(), Big: true})
	}
	for _, v := range []*big.Int{pow2(63), add(neg(pow2(63)), -1), pow2(255), add(pow2(256), -1)} {
		out = append(out, mval{Z: v.String(), Big: true})
	}
	return out
}

func doMethRow(c *hx.Ctx, m string, a mval, xs []mval, xsName string, seen map[string]string) {
	av, at := a.build()
	var cells []string
	ok := true
	for _, b := range xs {
		bv, _ := b.build()
		got := runMeth(c, m, av, bv)
		checkMeth(c, m, a, b, got)
		c.Count("meth:" + m)
		if got.Panic != "" {
			ok = false
			continue
		}
		// representation irrelevance: same values, other storage => same value / same fault
		key := m + "|" + a.Z + "|" + b.Z
		sig := "fault"
		if !got.Fault {
			sig = got.V.String()
		}
		if prev, dup := seen[key]; dup && prev != sig {
			bb := b
			c.Fail("method:"+strings.ToLower(m)+":repr-dependent", "the result must not depend on how equal integers are stored",
				execInput{Kind: "meth", M: m, MA: &a, MB: &bb}, sig, prev)
		}
		seen[key] = sig
		c.Nontrivial("m" + key + fmt.Sprint(a.Big, b.Big))
		cells = append(cells, got.Term)
	}
	if ok {
		c.Case(fmt.Sprintf("CMethRow Me%s (%s) %s %s", m, at, xsName, hx.CoqList(cells)), execInput{Kind: "methrow", M: m, MA: &a})
	}
}

func doMeth(c *hx.Ctx, m string, a, b mval) {
	av, at := a.build()
	bv, bt := b.build()
	got := runMeth(c, m, av, bv)
	checkMeth(c, m, a, b, got)
	c.Count("meth:" + m)
	if got.Panic == "" {
		c.Case(fmt.Sprintf("CMeth Me%s (%s) (%s) (%s)", m, at, bt, got.Term), execInput{Kind: "meth", M: m, MA: &a, MB: &b})
	}
}

// ---------- overflow package ----------

func ovSet() []int64 {
	const mx = int64(^uint64(0) >> 1)
	const mn = -mx - 1
	return []int64{0, 1, -1, 2, -2, 3, -3, 1 << 31, -(1 << 31), 1 << 32, 3037000499, 3037000500, -3037000500, 1 << 62, -(1 << 62),
		mx, mx - 1, mn, mn + 1, mx / 2, mn / 2, (mx / 3) + 1}
}

func doOvRow(c *hx.Ctx, f string, a int64, xs []int64, xsName string) {
	var cells []string
	for _, b := range xs {
		c.Eval()
		var r int64
		var ok bool
		var exact *big.Int
		A, B := big.NewInt(a), big.NewInt(b)
		switch f {
		case "Add":
			r, ok = overflow.Add64(a, b)
			exact = new(big.Int).Add(A, B)
		case "Sub":
			r, ok = overflow.Sub64(a, b)
			exact = new(big.Int).Sub(A, B)
		case "Mul":
			r, ok = overflow.Mul64(a, b)
			exact = new(big.Int).Mul(A, B)
		case "Div":
			r, ok = overflow.Div64(a, b)
			if b != 0 {
				exact = truncDiv(A, B)
			}
		}
		if ok && (exact == nil || exact.Cmp(big.NewInt(r)) != 0) {
			c.Fail("overflow:"+strings.ToLower(f)+"64-unsound", "a reported success must carry the exact result",
				execInput{Kind: "ovrow", F: f, OA: fmt.Sprint(a)}, fmt.Sprint(r, ok, " b=", b), fmt.Sprint(exact))
		}
		c.Count("overflow:" + f)
		cells = append(cells, fmt.Sprintf("(%s, %s)", zs(big.NewInt(r)), hx.CoqBool(ok)))
	}
	c.Case(fmt.Sprintf("COvRow Ov%s %s %s %s", f, zs(big.NewInt(a)), xsName, hx.CoqList(cells)), execInput{Kind: "ovrow", F: f, OA: fmt.Sprint(a)})
}

// ---------- random generation ----------

func genValue(c *hx.Ctx, bs []*big.Int) *big.Int {
	switch c.Intn(8) {
	case 0:
		return bs[c.Intn(len(bs))]
	case 1, 2:
		return add(bs[c.Intn(len(bs))], int64(c.Intn(7)-3))
	case 3:
		return big.NewInt(int64(c.Intn(41) - 20))
	case 4:
		return big.NewInt(int64(c.Intn(300)))
	case 5:
		k := []uint{8, 31, 32, 62, 63, 64, 65, 127, 128, 129, 254, 255, 256, 257, 300}[c.Intn(15)]
		v := add(pow2(k), int64(c.Intn(5)-2))
		if c.Intn(2) == 0 {
			v.Neg(v)
		}
		return v
	default:
		nb := 1 + c.Intn(40)
		if c.Intn(3) == 0 {
			nb = []int{8, 9, 31, 32, 33}[c.Intn(5)]
		}
		v := new(big.Int).SetBytes(c.Bytes(nb))
		if c.Intn(2) == 0 {
			v.Neg(v)
		}
		return v
	}
}

func genItem(c *hx.Ctx, bs []*big.Int) item {
	if c.Intn(25) == 0 {
		return item{Z: "0", Rep: "other"}
	}
	v := genValue(c, bs)
	rs := reps(v)
	if v.Sign() == 0 || v.Cmp(big.NewInt(1)) == 0 {
		rs = append(rs, "bool")
	}
	it := item{Z: v.String(), Rep: rs[c.Intn(len(rs))]}
	if it.Rep == "bytes" && c.Intn(5) == 0 {
		it.Pad = 1 + c.Intn(3)
	}
	return it
}

func pushCode(v *big.Int) ([]byte, bool) {
	if v.IsInt64() {
		i := v.Int64()
		if i == -1 {
			return []byte{byte(neovm.PUSHM1)}, true
		}
		if i == 0 {
			return []byte{byte(neovm.PUSH0)}, true
		}
		if i >= 1 && i <= 16 {
			return []byte{byte(neovm.PUSH1) + byte(i-1)}, true
		}
	}
	bs := common.BigIntToNeoBytes(v)
	if len(bs) == 0 || len(bs) > 75 {
		return nil, false
	}
	return append([]byte{byte(len(bs))}, bs...), true
}

// doScript: operands pushed by PUSHBYTESn / PUSHn, then the opcode, through Executor.Execute.
func doScript(c *hx.Ctx, op opInfo, vals []*big.Int /* deepest first */) {
	var code []byte
	var st []item // top first, as the model sees them
	for _, v := range vals {
		pc, ok := pushCode(v)
		if !ok {
			return
		}
		code = append(code, pc...)
		it := item{Z: v.String(), Rep: "bytes"}
		if len(pc) == 1 { // PUSHM1/PUSH0..PUSH16 push an int64
			it.Rep = "int"
		}
		st = append([]item{it}, st...)
	}
	code = append(code, byte(op.Code))
	got := execScript(c, op, code)
	in := execInput{Kind: "script", Op: op.Name, Stack: st, Script: hx.Hex(code)}
	isInt := make([]bool, len(vals))
	for i := range isInt {
		isInt[i] = true
	}
	check(c, op, in, vals, isInt, got)
	c.Count("exec:script")
	c.Count("op:" + op.Name)
	var terms []string
	for _, it := range st {
		_, t := it.build(c)
		terms = append(terms, t)
	}
	if key, edge := nontrivialKey(op, st, got); edge {
		c.Nontrivial("s" + key)
	}
	if obs, ok := coqObs(got); ok {
		c.Case(fmt.Sprintf("CExec %s %s (%s)", op.Name, hx.CoqList(terms), obs), in)
	}
}

// ---------- replay ----------

func replay(c *hx.Ctx, in execInput, bs []*big.Int) {
	switch in.Kind {
	case "exec":
		doExec(c, opByName(in.Op), in.Stack, "replay")
	case "script":
		op := opByName(in.Op)
		var vals []*big.Int
		for i := len(in.Stack) - 1; i >= 0; i-- {
			vals = append(vals, in.Stack[i].val())
		}
		doScript(c, op, vals)
	case "row":
		doRow(c, opByName(in.Op), *in.A, sweepItems(bs), "XS", true)
	case "meth":
		b := mval{Z: "0"}
		if in.MB != nil {
			b = *in.MB
		}
		doMeth(c, in.M, *in.MA, b)
	case "methrow":
		doMethRow(c, in.M, *in.MA, methSet(), "XSM", map[string]string{})
	case "ovrow":
		var a int64
		fmt.Sscan(in.OA, &a)
		doOvRow(c, in.F, a, ovSet(), "XSZ")
	default:
		panic("unknown replay kind " + in.Kind)
	}
}

// ---------- driver ----------

func Run(c *hx.Ctx) {
	c.CoqModule("Corr.C13")
	bs := boundarySet()
	xs := sweepItems(bs)
	ms := methSet()
	os := ovSet()

	// shared operand lists of the sweeps, defined once in cases.v
	var xt, mt, ot []string
	for _, it := range xs {
		_, t := it.build(c)
		xt = append(xt, t)
	}
	for _, m := range ms {
		_, t := m.build()
		mt = append(mt, t)
	}
	for _, o := range os {
		ot = append(ot, zs(big.NewInt(o)))
	}
	c.CoqHeader("From Coq Require Import Uint63.")
	c.CoqHeader("Open Scope Z_scope.")
	c.CoqHeader("Definition XS : list item := " + hx.CoqList(xt) + ".")
	c.CoqHeader("Definition XSM : list IntValue := " + hx.CoqList(mt) + ".")
	c.CoqHeader("Definition XSZ : list Z := " + hx.CoqList(ot) + ".")

	// 1. replay mode
	var rin execInput
	if c.ReplayInput(&rin) {
		replay(c, rin, bs)
		return
	}

	// 2. corpus (minimized past failures: the F5 witnesses, the INVERT witness)
	for _, raw := range c.CorpusInputs() {
		var in execInput
		if err := json.Unmarshal(raw, &in); err != nil {
			c.Note("corpus entry not understood: " + err.Error())
			continue
		}
		c.Count("corpus")
		replay(c, in, bs)
	}

	// 3. deterministic probes, independent of the corpus directory: the old F5 witnesses at both
	// levels and in every storage form, and the INVERT witness.
	mi := item{Z: minInt64.String(), Rep: "int"}
	m1 := item{Z: "-1", Rep: "int"}
	for _, opn := range []string{"DIV", "MOD"} {
		got := doExec(c, opByName(opn), []item{m1, mi}, "probe")
		reprCheck(c, opByName(opn), []*big.Int{big.NewInt(-1), minInt64}, got, []item{m1, mi})
		doScript(c, opByName(opn), []*big.Int{minInt64, big.NewInt(-1)})
	}
	for _, m := range []string{"Div", "Mod"} {
		for _, ab := range []bool{false, true} {
			for _, bb := range []bool{false, true} {
				doMeth(c, m, mval{Z: minInt64.String(), Big: ab}, mval{Z: "-1", Big: bb})
			}
		}
	}
	doExec(c, opByName("INVERT"), []item{{Z: maxMag.String(), Rep: "bytes"}}, "probe")
	doExec(c, opByName("INVERT"), []item{{Z: maxMag.String(), Rep: "bigint"}}, "probe")
	doScript(c, opByName("INVERT"), []*big.Int{maxMag})

	// 4. exhaustive sweep of the boundary set squared, every two-operand opcode, through ExecuteOp
	for _, op := range ops {
		if op.Arity != 2 {
			continue
		}
		for _, a := range xs {
			doRow(c, op, a, xs, "XS", true)
		}
	}
	// one-operand opcodes on the whole set in every storage form
	for _, op := range ops {
		if op.Arity != 1 {
			continue
		}
		for _, v := range bs {
			rs := reps(v)
			if v.Sign() == 0 || v.Cmp(big.NewInt(1)) == 0 {
				rs = append(rs, "bool")
			}
			var base outcome
			var baseSt []item
			for i, r := range rs {
				st := []item{{Z: v.String(), Rep: r}}
				got := doExec(c, op, st, "unary-sweep")
				if i == 0 {
					base, baseSt = got, st
				} else if !got.sameResult(base) {
					c.Fail(failClass(op, []*big.Int{v}, "repr-dependent"), "the result must not depend on how equal integers are stored",
						execInput{Kind: "exec", Op: op.Name, Stack: st}, got.String(), base.String()+" for "+fmt.Sprint(baseSt))
				}
			}
		}
	}
	// WITHIN on a small set cubed
	ws := []*big.Int{big.NewInt(0), big.NewInt(-1), big.NewInt(1), add(pow2(63), -1), pow2(63), neg(pow2(63)), add(neg(pow2(63)), -1), maxMag, pow2(256)}
	for _, x := range ws {
		for i, lo := range ws {
			for j, hi := range ws {
				st := []item{natural(hi, j), natural(lo, i), natural(x, i+j)}
				doExec(c, opByName("WITHIN"), st, "within-sweep")
			}
		}
	}

	// 5. IntValue methods, both representations of int64-range values, and the overflow package
	seen := map[string]string{}
	for _, m := range binMeths {
		for _, a := range ms {
			doMethRow(c, m, a, ms, "XSM", seen)
		}
	}
	for _, m := range unMeths {
		for _, a := range ms {
			doMeth(c, m, a, mval{Z: "0"})
		}
	}
	for _, f := range []string{"Add", "Sub", "Mul", "Div"} {
		for _, a := range os {
			doOvRow(c, f, a, os, "XSZ")
		}
	}

	// 6. random, boundary-biased stacks: any opcode, any storage form, underflow, non-integers,
	// extra items below the operands; a tenth as scripts through Executor.Execute.
	n := c.N(1500, 12000)
	for i := 0; i < n; i++ {
		op := ops[c.Intn(len(ops))]
		if c.Intn(10) == 0 {
			var vals []*big.Int
			for k := 0; k < op.Arity; k++ {
				vals = append(vals, genValue(c, bs))
			}
			doScript(c, op, vals)
			continue
		}
		depth := op.Arity
		switch c.Intn(12) {
		case 0:
			depth = c.Intn(op.Arity) // underflow
		case 1, 2, 3:
			depth += 1 + c.Intn(3)
		}
		var st []item
		for k := 0; k < depth; k++ {
			st = append(st, genItem(c, bs))
		}
		if op.Name == "SHL" || op.Name == "SHR" {
			if len(st) > 0 && c.Intn(3) != 0 {
				st[0] = item{Z: fmt.Sprint(c.Intn(300)), Rep: "int"}
			}
		}
		got := doExec(c, op, st, "random")
		if i < 6 {
			c.Sample(map[string]interface{}{"op": op.Name, "stack_top_first": st, "outcome": got.String()})
		}
		// representation irrelevance on the operands of this case
		if len(st) >= op.Arity && c.Intn(3) == 0 {
			okInts := true
			var vals []*big.Int
			for k := 0; k < op.Arity; k++ {
				if st[k].Rep == "other" {
					okInts = false
				}
				vals = append(vals, st[k].val())
			}
			if okInts {
				stOps := st[:op.Arity]
				base := got
				if len(st) > op.Arity {
					var vv []types.VmValue
					for _, it := range stOps {
						v, _ := it.build(c)
						vv = append(vv, v)
					}
					base = execOp(c, op, vv)
				}
				reprCheck(c, op, vals, base, stOps)
			}
		}
	}
}
