package c13

import (
	"bytes"
	"fmt"
	"math"

	"github.com/ontio/ontology/vm/neovm"
	"github.com/ontio/ontology/vm/neovm/constants"

	"verif/harness/gen"
)

// Sites: the integer expressions of int_value.go / executor.go that carry the size rule, the shift
// bounds and the constant operands of INC/DEC/SIGN/NEGATE/NZ. The locator also pins the comparison
// operator (cmp:>): replacing `>` by `>=` makes the site disappear and the tie fails closed.
var Sites = []gen.Site{
	{Name: "frombig_len", File: "vm/neovm/types/int_value.go", Func: "IntValFromBigInt", Loc: "cmp:>:lhs",
		Subst: map[string]string{"len(val.Bytes())": "maglen"}, Vars: []string{"maglen"}},
	{Name: "frombig_limit", File: "vm/neovm/types/int_value.go", Func: "IntValFromBigInt", Loc: "cmp:>:rhs",
		Subst: map[string]string{"constants.MAX_INT_SIZE": "MAX_INT_SIZE"}},
	{Name: "rsh_count", File: "vm/neovm/types/int_value.go", Func: "Rsh", Loc: "cmp:>:lhs",
		Subst: map[string]string{"val": "count"}, Vars: []string{"count"}},
	{Name: "rsh_limit", File: "vm/neovm/types/int_value.go", Func: "Rsh", Loc: "cmp:>:rhs",
		Subst: map[string]string{"constants.MAX_INT_SIZE": "MAX_INT_SIZE"}},
	{Name: "lsh_count", File: "vm/neovm/types/int_value.go", Func: "Lsh", Loc: "cmp:>:lhs",
		Subst: map[string]string{"val": "count"}, Vars: []string{"count"}},
	{Name: "lsh_limit", File: "vm/neovm/types/int_value.go", Func: "Lsh", Loc: "cmp:>:rhs",
		Subst: map[string]string{"constants.MAX_INT_SIZE": "MAX_INT_SIZE"}},
	{Name: "inc_step", File: "vm/neovm/executor.go", Func: "ExecuteOp", Loc: "callarg:IntValFromInt:0#0"},
	{Name: "dec_step", File: "vm/neovm/executor.go", Func: "ExecuteOp", Loc: "callarg:IntValFromInt:0#1"},
	{Name: "sign_base", File: "vm/neovm/executor.go", Func: "ExecuteOp", Loc: "callarg:IntValFromInt:0#2"},
	{Name: "sign_result", File: "vm/neovm/executor.go", Func: "ExecuteOp", Loc: "callarg:IntValFromInt:0#3",
		Subst: map[string]string{"cmp": "cmp"}, Vars: []string{"cmp"}},
	{Name: "negate_base", File: "vm/neovm/executor.go", Func: "ExecuteOp", Loc: "callarg:IntValFromInt:0#4"},
	{Name: "nz_base", File: "vm/neovm/executor.go", Func: "ExecuteOp", Loc: "callarg:IntValFromInt:0#5"},
}

func produceIntConsts(repo string) ([]byte, []string) {
	cs := []gen.Const{
		{Name: "MAX_INT_SIZE", Type: "Z", Value: fmt.Sprintf("(%d)%%Z", constants.MAX_INT_SIZE), Comment: "vm/neovm/constants.MAX_INT_SIZE"},
		{Name: "STACK_LIMIT", Type: "Z", Value: fmt.Sprintf("(%d)%%Z", neovm.STACK_LIMIT), Comment: "vm/neovm.STACK_LIMIT (limit of Executor.EvalStack)"},
		{Name: "MinInt64", Type: "Z", Value: fmt.Sprintf("(%d)%%Z", int64(math.MinInt64)), Comment: "math.MinInt64 (IntValue.Abs)"},
		{Name: "MaxInt64", Type: "Z", Value: fmt.Sprintf("(%d)%%Z", int64(math.MaxInt64)), Comment: "math.MaxInt64"},
	}
	var buf bytes.Buffer
	buf.Write(gen.EmitConsts("", cs))
	buf.WriteString("\n")
	var rs []gen.SiteResult
	var errs []string
	for _, s := range Sites {
		r := gen.TranslateSite(repo, s)
		if r.Err != "" {
			errs = append(errs, s.Name+": "+r.Err)
		}
		rs = append(rs, r)
	}
	buf.Write(gen.EmitSites("", rs))
	return buf.Bytes(), errs
}

func init() {
	gen.RegisterFile("IntConsts.v", produceIntConsts)
}
