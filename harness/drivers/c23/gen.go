// Package c23: signature scripts (core/program) and account addresses (core/types/address.go).
// This file: the constants and the integer formula the Coq model takes from the source.
package c23

import (
	"fmt"

	"github.com/ontio/ontology-crypto/keypair"
	"github.com/ontio/ontology/common/constants"
	"github.com/ontio/ontology/vm/neovm"

	"verif/harness/gen"
)

// bookkeeperSite is the threshold AddressFromBookkeepers passes to AddressFromMultiPubKeys.
var bookkeeperSite = gen.Site{Name: "bookkeepers_m", File: "core/types/address.go", Func: "AddressFromBookkeepers",
	Loc: "callarg:AddressFromMultiPubKeys:1", Subst: map[string]string{"len(bookkeepers)": "n"}, Vars: []string{"n"}}

func init() {
	gen.RegisterFile("ProgramConsts.v", func(repo string) ([]byte, []string) {
		n := func(name string, v uint64, c string) gen.Const {
			return gen.Const{Name: name, Type: "N", Value: fmt.Sprintf("%d%%N", v), Comment: c}
		}
		cs := []gen.Const{
			n("OP_PUSH0", uint64(neovm.PUSH0), "neovm.PUSH0"),
			n("OP_PUSHBYTES1", uint64(neovm.PUSHBYTES1), "neovm.PUSHBYTES1"),
			n("OP_PUSHBYTES75", uint64(neovm.PUSHBYTES75), "neovm.PUSHBYTES75"),
			n("OP_PUSHDATA1", uint64(neovm.PUSHDATA1), "neovm.PUSHDATA1"),
			n("OP_PUSHDATA2", uint64(neovm.PUSHDATA2), "neovm.PUSHDATA2"),
			n("OP_PUSHDATA4", uint64(neovm.PUSHDATA4), "neovm.PUSHDATA4"),
			n("OP_PUSH1", uint64(neovm.PUSH1), "neovm.PUSH1"),
			n("OP_PUSH16", uint64(neovm.PUSH16), "neovm.PUSH16"),
			n("OP_CHECKSIG", uint64(neovm.CHECKSIG), "neovm.CHECKSIG"),
			n("OP_CHECKMULTISIG", uint64(neovm.CHECKMULTISIG), "neovm.CHECKMULTISIG"),
			{Name: "MULTI_SIG_MAX_PUBKEY_SIZE", Type: "Z", Value: fmt.Sprintf("%d%%Z", constants.MULTI_SIG_MAX_PUBKEY_SIZE), Comment: "constants.MULTI_SIG_MAX_PUBKEY_SIZE"},
			n("PK_ECDSA", uint64(keypair.PK_ECDSA), "keypair.PK_ECDSA"),
			n("PK_SM2", uint64(keypair.PK_SM2), "keypair.PK_SM2"),
			n("PK_EDDSA", uint64(keypair.PK_EDDSA), "keypair.PK_EDDSA"),
			n("PK_ETHECDSA", uint64(keypair.PK_ETHECDSA), "keypair.PK_ETHECDSA"),
		}
		return gen.EmitConsts("", cs), nil
	})
	gen.RegisterFile("ProgramFormulas.v", gen.SitesProducer([]gen.Site{bookkeeperSite}))
}
