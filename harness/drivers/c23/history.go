package c23

// Call-history oracle: the address and script functions must be pure functions of the key SET
// they are given now.  Histories reuse one long-lived []keypair.PublicKey buffer per length
// (refilled in place with another key set, or with the same set in another order), interleaved
// with fresh-slice calls, exact repeats and calls of the other builders; every result is compared
// with the independent spec functions (specMultiAddr, specBookAddr, specPubAddr,
// specMultiScript) of the CURRENT key set.  A small concurrent variant runs four goroutines.

import (
	"bytes"
	"fmt"
	"strings"
	"sync"

	"github.com/ontio/ontology-crypto/keypair"

	"verif/harness/hx"
)

type histStep struct {
	Op   string   `json:"op"`          // multi | book | pub | progmulti | progpub
	Buf  int      `json:"buf"`         // id of the long-lived buffer the keys are written into in place; -1 = fresh slice
	Keys []string `json:"keys"`        // serialized keys, in the order they are written
	M    int64    `json:"m,omitempty"` // threshold (multi, progmulti)
	ks   []*key   `json:"-"`
}

type hist struct {
	bufs map[int][]keypair.PublicKey
}

func newHist() *hist { return &hist{bufs: map[int][]keypair.PublicKey{}} }

// slice returns the argument slice for a step: the long-lived buffer overwritten in place, or
// a fresh slice.
func (h *hist) slice(id int, ks []*key) []keypair.PublicKey {
	if id < 0 {
		return pubs(ks)
	}
	b, ok := h.bufs[id]
	if !ok || len(b) != len(ks) {
		b = make([]keypair.PublicKey, len(ks))
		h.bufs[id] = b
	}
	for i, k := range ks {
		b[i] = k.pub
	}
	return b
}

type histFail struct {
	class, clause string
	got, want     interface{}
}

// step runs one call on the implementation and compares with the spec of the step's own keys.
func (h *hist) step(st histStep) *histFail {
	ks := st.ks
	switch st.Op {
	case "multi":
		a, err, p, msg := safeAddrMulti(h.slice(st.Buf, ks), int(st.M))
		if p {
			return &histFail{"panic:AddressFromMultiPubKeys", "address derivation panicked", msg, "an address or an error"}
		}
		want, ok := specMultiAddr(ks, st.M)
		if ok != (err == nil) {
			return &histFail{"address-history-validity", "AddressFromMultiPubKeys accepts/rejects (m, n) differently from the valid region", fmt.Sprint(err), ok}
		}
		if ok && !bytes.Equal(a[:], want) {
			return &histFail{"address-history-dependent", "AddressFromMultiPubKeys does not return the address of the key set it was given (it depends on earlier calls)", a.ToHexString(), hx.Hex(want)}
		}
	case "book":
		a, err, p, msg := safeAddrBook(h.slice(st.Buf, ks))
		if p {
			return &histFail{"panic:AddressFromBookkeepers", "address derivation panicked", msg, "an address or an error"}
		}
		want, ok := specBookAddr(ks)
		if ok != (err == nil) {
			return &histFail{"address-history-validity", "AddressFromBookkeepers accepts/rejects the key count differently from the valid region", fmt.Sprint(err), ok}
		}
		if ok && !bytes.Equal(a[:], want) {
			return &histFail{"address-history-dependent", "AddressFromBookkeepers does not return the address of the key set it was given (it depends on earlier calls)", a.ToHexString(), hx.Hex(want)}
		}
	case "pub":
		a, p, msg := safeAddrPub(ks[0].pub)
		if p {
			return &histFail{"panic:AddressFromPubKey", "address derivation panicked", msg, "an address"}
		}
		if want := specPubAddr(ks[0]); !bytes.Equal(a[:], want) {
			return &histFail{"address-history-dependent", "AddressFromPubKey does not return the address of the key it was given", a.ToHexString(), hx.Hex(want)}
		}
	case "progmulti":
		pr, err, p, msg := safeProgMulti(h.slice(st.Buf, ks), int(st.M))
		if p {
			return &histFail{"panic:ProgramFromMultiPubKey", "building an m-of-n script panicked", msg, "a script or an error"}
		}
		ok := validParams(st.M, len(ks))
		if ok != (err == nil) {
			return &histFail{"address-history-validity", "ProgramFromMultiPubKey accepts/rejects (m, n) differently from the valid region", fmt.Sprint(err), ok}
		}
		if ok {
			if want := specMultiScript(ks, st.M); !bytes.Equal(pr, want) {
				return &histFail{"script-history-dependent", "ProgramFromMultiPubKey does not return the sorted m-of-n script of the key set it was given", hx.Hex(pr), hx.Hex(want)}
			}
		}
	case "progpub":
		pr, p, msg := safeProgPub(ks[0].pub)
		if p {
			return &histFail{"panic:ProgramFromPubKey", "building a single-key script panicked", msg, "a script"}
		}
		if want := append(specPush(nil, ks[0].ser), 0xac); !bytes.Equal(pr, want) {
			return &histFail{"script-history-dependent", "ProgramFromPubKey does not return the script of the key it was given", hx.Hex(pr), hx.Hex(want)}
		}
	}
	return nil
}

func mkStep(op string, buf int, ks []*key, m int64) histStep {
	return histStep{Op: op, Buf: buf, Keys: sers(ks), M: m, ks: append([]*key{}, ks...)}
}

// runSteps executes a history on fresh buffers; reports every failing step with the shortest
// suffix of the history (ending at that step) that still fails when run on its own.
func (d *drv) runSteps(steps []histStep, shrink bool) {
	c := d.c
	h := newHist()
	for i, st := range steps {
		c.Eval()
		c.Count("history-op:" + st.Op)
		if st.Buf >= 0 {
			c.Count("history-arg:reused-buffer")
		} else {
			c.Count("history-arg:fresh-slice")
		}
		f := h.step(st)
		if f == nil {
			continue
		}
		rep := steps[:i+1]
		if shrink {
			for k := 1; k <= 4 && k <= i; k++ {
				cand := steps[i+1-k : i+1]
				d.neutralCall()
				h2 := newHist()
				var f2 *histFail
				for _, s2 := range cand {
					f2 = h2.step(s2)
				}
				if f2 != nil && f2.class == f.class {
					rep = cand
					break
				}
			}
		}
		c.Fail(f.class, f.clause, input{Kind: "history", Steps: append([]histStep{}, rep...)},
			map[string]interface{}{"failing_step": len(rep) - 1, "got": f.got}, f.want)
	}
}

// neutralCall derives the address of an unrelated 9-key set (a length no history uses) from a
// fresh slice, so that a shrink candidate is judged on its own steps and not on whatever the
// main history left behind in the implementation.
func (d *drv) neutralCall() {
	var ks []*key
	for _, k := range d.p.keys {
		if !strings.Contains(k.kind, "sm2") && len(ks) < 9 {
			ks = append(ks, k)
		}
	}
	if len(ks) == 9 {
		safeAddrMulti(pubs(ks), 9)
	}
}

func (d *drv) subPool(noSM2 bool) []*key {
	if !noSM2 {
		return d.p.keys
	}
	var out []*key
	for _, k := range d.p.keys {
		if !strings.Contains(k.kind, "sm2") {
			out = append(out, k)
		}
	}
	return out
}

func (d *drv) pickFrom(sub []*key, n int) []*key {
	var out []*key
	if n <= len(sub) {
		perm := d.c.Rng.Perm(len(sub))
		for i := 0; i < n; i++ {
			out = append(out, sub[perm[i]])
		}
		return out
	}
	for i := 0; i < n; i++ {
		out = append(out, sub[d.c.Intn(len(sub))])
	}
	return out
}

// genHistory draws one history of the given length.
func (d *drv) genHistory(length int) []histStep {
	c := d.c
	sub := d.subPool(c.Intn(2) == 0)
	lens := []int{2 + c.Intn(3), []int{2, 3, 4, 7, 16}[c.Intn(5)]}
	cur := map[int][]*key{}
	lastM := map[int]int64{}
	randM := func(n int) int64 {
		switch c.Intn(10) {
		case 0:
			return 0
		case 1:
			return int64(n) + 1
		}
		return int64(1 + c.Intn(n))
	}
	var steps []histStep
	for len(steps) < length {
		n := lens[c.Intn(len(lens))]
		if _, ok := cur[n]; !ok {
			cur[n] = d.pickFrom(sub, n)
			lastM[n] = randM(n)
		}
		switch r := c.Intn(100); {
		case r < 35: // another key set written over the same buffer, usually the same threshold
			cur[n] = d.pickFrom(sub, n)
			if c.Intn(10) >= 7 {
				lastM[n] = randM(n)
			}
			op := "multi"
			if c.Intn(5) == 0 {
				op = "book"
			}
			steps = append(steps, mkStep(op, n, cur[n], lastM[n]))
		case r < 50: // the same set in another order, in place
			cur[n] = shuffled(c, cur[n])
			steps = append(steps, mkStep("multi", n, cur[n], lastM[n]))
		case r < 65: // fresh slice: the buffer's set in another order, or another set
			ks := shuffled(c, cur[n])
			if c.Intn(2) == 0 {
				ks = d.pickFrom(sub, n)
			}
			steps = append(steps, mkStep("multi", -1, ks, lastM[n]))
		case r < 75: // exact repeat
			if len(steps) > 0 {
				steps = append(steps, steps[len(steps)-1])
			}
		default: // the other builders in between
			switch c.Intn(5) {
			case 0:
				steps = append(steps, mkStep("pub", -1, d.pickFrom(sub, 1), 0))
			case 1:
				steps = append(steps, mkStep("progpub", -1, d.pickFrom(sub, 1), 0))
			case 2:
				cur[n] = d.pickFrom(sub, n)
				steps = append(steps, mkStep("progmulti", n, cur[n], lastM[n]))
			case 3:
				steps = append(steps, mkStep("progmulti", -1, d.pickFrom(sub, n), randM(n)))
			default:
				steps = append(steps, mkStep("book", -1, d.pickFrom(sub, 1+c.Intn(5)), 0))
			}
		}
	}
	return steps
}

// doHistories: the sequential histories, two fixed two-step probes per key kind, and the
// concurrent variant.
func (d *drv) doHistories() {
	c := d.c
	// fixed probe for every kind: same buffer, set A then set B, same threshold; then B permuted
	for _, ks := range kinds {
		var sub []*key
		for _, k := range d.p.keys {
			if strings.HasPrefix(k.kind, ks.name) {
				sub = append(sub, k)
			}
		}
		if len(sub) < 4 {
			continue
		}
		a, b := sub[:2], sub[2:4]
		d.runSteps([]histStep{mkStep("multi", 0, a, 1), mkStep("multi", 0, b, 1), mkStep("multi", 0, []*key{b[1], b[0]}, 1),
			mkStep("multi", -1, []*key{a[1], a[0]}, 1), mkStep("multi", 0, a, 2), mkStep("multi", 0, a, 2)}, true)
		c.Count("history:probe:" + ks.name)
	}
	for i, n := 0, c.N(40, 400); i < n; i++ {
		steps := d.genHistory(30)
		c.Nontrivial(fmt.Sprint("H", i, steps[0].Keys, steps[len(steps)-1].Keys))
		d.runSteps(steps, true)
		c.Count("history")
	}
	for i, n := 0, c.N(3, 20); i < n; i++ {
		var sets [][]*key
		var ms []int64
		sub := d.subPool(i%2 == 0)
		for g := 0; g < 4; g++ {
			sz := 2 + c.Intn(4)
			sets = append(sets, d.pickFrom(sub, sz))
			ms = append(ms, int64(1+c.Intn(sz)))
		}
		d.doConcurrent(sets, ms, i%3 == 0)
	}
}

// doConcurrent: four goroutines, each deriving the address of its own key set 40 times (from a
// long-lived buffer rewritten before each call, or from fresh slices).
func (d *drv) doConcurrent(sets [][]*key, ms []int64, reuse bool) {
	c := d.c
	in := input{Kind: "concurrent", M: 0}
	for i, s := range sets {
		in.Extra = append(in.Extra, append([]string{fmt.Sprint(ms[i])}, sers(s)...))
	}
	if reuse {
		in.Note = "reused-buffers"
	}
	type res struct {
		class string
		got   string
		g     int
	}
	out := make(chan res, len(sets)*2)
	var wg sync.WaitGroup
	for g := range sets {
		wg.Add(1)
		go func(g int) {
			defer wg.Done()
			defer func() {
				if r := recover(); r != nil {
					out <- res{"panic:AddressFromMultiPubKeys", fmt.Sprint(r), g}
				}
			}()
			want, _ := specMultiAddr(sets[g], ms[g])
			h := newHist()
			for it := 0; it < 40; it++ {
				id := -1
				if reuse {
					id = g
				}
				a, err, p, msg := safeAddrMulti(h.slice(id, sets[g]), int(ms[g]))
				if p {
					out <- res{"panic:AddressFromMultiPubKeys", msg, g}
					return
				}
				if err != nil || !bytes.Equal(a[:], want) {
					out <- res{"concurrent-wrong-address", fmt.Sprint(a.ToHexString(), err), g}
					return
				}
			}
		}(g)
	}
	wg.Wait()
	close(out)
	c.Eval()
	c.Count("history:concurrent")
	for r := range out {
		c.Fail(r.class, "concurrent address derivations for different key sets interfere", in,
			map[string]interface{}{"goroutine": r.g, "got": r.got}, "each goroutine gets the address of its own key set")
	}
}
