// Driver for C23: signature scripts parse back to their keys; multi-signature addresses do not
// depend on the key order; scripts with invalid thresholds or key counts are rejected.
//
// Correspondence cases (Corr/C23.v): ProgramBuilder call sequences, keypair.SortPublicKeys,
// ProgramFromPubKey, ProgramFromMultiPubKey, GetProgramInfo (built, hand-assembled, mutated and
// random scripts), GetParamInfo, ProgramFromParams, AddressFromPubKey, AddressFromMultiPubKeys,
// AddressFromBookkeepers.  Oracle (directly on the implementation): parse(build) = (sorted keys, m),
// same program and address for every ordering, invalid (m, n) rejected by builder, address
// functions and parser, every accepted script has valid (m, n), no panic on any byte string;
// plus the hypotheses the theorems make about keys (deserialize(serialize k) = k, keys that the
// sort order does not separate are the same key, short strings are not keys).
package c23

import (
	"bytes"
	"crypto/ecdsa"
	"crypto/sha256"
	"encoding/json"
	"fmt"
	"io"
	"math/big"
	"sort"
	"strings"

	ethcrypto "github.com/ethereum/go-ethereum/crypto"
	"github.com/ontio/ontology-crypto/ec"
	"github.com/ontio/ontology-crypto/keypair"
	"github.com/ontio/ontology/common"
	"github.com/ontio/ontology/core/program"
	"github.com/ontio/ontology/core/types"
	"github.com/ontio/ontology/vm/neovm"
	"golang.org/x/crypto/ed25519"
	"golang.org/x/crypto/ripemd160"

	"verif/harness/hx"
)

func init() { hx.Register("C23", Run) }

// ---------- keys ----------

type key struct {
	pub   keypair.PublicKey
	ty    uint64
	curve uint64 // curve label for ECDSA/SM2 keys, 0 otherwise (Less does not look at it)
	x, y  *big.Int
	ser   []byte
	name  string // Coq name when the key is in the pool
	kind  string
}

// keyOf projects a keypair.PublicKey to what the model's key record holds.
func keyOf(pub keypair.PublicKey) *key {
	k := &key{pub: pub, x: new(big.Int), y: new(big.Int)}
	switch t := pub.(type) {
	case *ec.PublicKey:
		k.ty = uint64(keypair.GetKeyType(pub))
		l, err := keypair.GetCurveLabel(t.Curve)
		if err != nil {
			panic(err)
		}
		k.curve = uint64(l)
		k.x, k.y = t.X, t.Y
		k.kind = fmt.Sprintf("ec-alg%d-curve%d", t.Algorithm, l)
	case ed25519.PublicKey:
		k.ty = uint64(keypair.PK_EDDSA)
		k.x = new(big.Int).SetBytes([]byte(t))
		k.kind = "ed25519"
	case *ec.EthereumPublicKey:
		k.ty = uint64(keypair.PK_ETHECDSA)
		k.x, k.y = t.X, t.Y
		k.kind = "eth-secp256k1"
	default:
		panic(fmt.Sprintf("unknown key type %T", pub))
	}
	k.ser = keypair.SerializePublicKey(pub)
	return k
}

func (k *key) rankLess(o *key) bool {
	if k.ty != o.ty {
		return k.ty < o.ty
	}
	if k.curve != o.curve {
		return k.curve < o.curve
	}
	if c := k.x.Cmp(o.x); c != 0 {
		return c < 0
	}
	return k.y.Cmp(o.y) < 0
}

func (k *key) rankEq(o *key) bool { return !k.rankLess(o) && !o.rankLess(k) }

func (k *key) coqFull() string {
	return fmt.Sprintf("(mkKey %d %d %s %s %s)", k.ty, k.curve, k.x.String(), k.y.String(), hx.CoqBytes(k.ser))
}

type pool struct {
	keys   []*key
	byName map[string]*key   // hex(ser)|ty -> pool key
	first  map[string][]*key // first 4 serialized bytes -> pool keys
}

func (p *pool) id(k *key) string {
	return fmt.Sprintf("%x|%d|%d|%s|%s", k.ser, k.ty, k.curve, k.x, k.y)
}

func (p *pool) add(k *key) *key {
	if q, ok := p.byName[p.id(k)]; ok {
		return q
	}
	k.name = fmt.Sprintf("pk%d", len(p.keys))
	p.keys = append(p.keys, k)
	p.byName[p.id(k)] = k
	if p.first == nil {
		p.first = map[string][]*key{}
	}
	if len(k.ser) >= 4 {
		p.first[string(k.ser[:4])] = append(p.first[string(k.ser[:4])], k)
	}
	return k
}

// coq prints a key by its pool name when it has one.
func (p *pool) coq(k *key) string {
	if q, ok := p.byName[p.id(k)]; ok {
		return q.name
	}
	return k.coqFull()
}

// cb prints a byte string as a Coq term of type bytes, writing every occurrence of a pool key's
// serialization as `pk_ser pkN` and every run of 12 or more equal bytes as `repeat` (same bytes,
// far fewer literals for coqc to elaborate).
func (p *pool) cb(b []byte) string {
	if len(b) < 12 {
		return hx.CoqBytes(b)
	}
	var segs []string
	lit := 0
	flush := func(end int) {
		if end > lit {
			segs = append(segs, hx.CoqBytes(b[lit:end]))
		}
	}
	for i := 0; i < len(b); {
		var hit *key
		if i+4 <= len(b) {
			for _, k := range p.first[string(b[i:i+4])] {
				if i+len(k.ser) <= len(b) && bytes.Equal(b[i:i+len(k.ser)], k.ser) {
					hit = k
					break
				}
			}
		}
		if hit != nil {
			flush(i)
			segs = append(segs, "pk_ser "+hit.name)
			i += len(hit.ser)
			lit = i
			continue
		}
		j := i
		for j < len(b) && b[j] == b[i] {
			j++
		}
		if j-i >= 12 {
			flush(i)
			segs = append(segs, fmt.Sprintf("repeat %d (N.to_nat %d)", b[i], j-i))
			i = j
			lit = i
			continue
		}
		i++
	}
	flush(len(b))
	if len(segs) == 1 {
		if !strings.HasPrefix(segs[0], "[") {
			return "(" + segs[0] + ")"
		}
		return segs[0]
	}
	return "(" + strings.Join(segs, " ++ ") + ")"
}

// data returns n bytes of test data: random when short, a run of one random byte (printed
// compactly) when long.
func (d *drv) data(n int) []byte {
	if n < 24 {
		return d.c.Bytes(n)
	}
	b := bytes.Repeat([]byte{byte(d.c.Intn(256))}, n)
	copy(b, d.c.Bytes(2))
	b[n-1] = byte(d.c.Intn(256))
	return b
}

func (p *pool) coqKeys(ks []*key) string {
	var s []string
	for _, k := range ks {
		s = append(s, p.coq(k))
	}
	return hx.CoqList(s)
}

func scalar(c *hx.Ctx, order *big.Int) []byte {
	n := (order.BitLen() + 7) / 8
	d := new(big.Int).SetBytes(c.Bytes(n + 8))
	d.Mod(d, new(big.Int).Sub(order, big.NewInt(1)))
	d.Add(d, big.NewInt(1))
	b := d.Bytes()
	out := make([]byte, n)
	copy(out[n-len(b):], b)
	return out
}

func ecKey(c *hx.Ctx, alg ec.ECAlgorithm, label byte) keypair.PublicKey {
	cv, err := keypair.GetCurve(label)
	if err != nil {
		panic(err)
	}
	x, y := cv.ScalarBaseMult(scalar(c, cv.Params().N))
	return &ec.PublicKey{Algorithm: alg, PublicKey: &ecdsa.PublicKey{Curve: cv, X: x, Y: y}}
}

func ethKey(c *hx.Ctx) keypair.PublicKey {
	cv := ethcrypto.S256()
	x, y := cv.ScalarBaseMult(scalar(c, cv.Params().N))
	return &ec.EthereumPublicKey{PublicKey: &ecdsa.PublicKey{Curve: cv, X: x, Y: y}}
}

func edKey(c *hx.Ctx) keypair.PublicKey {
	pk := ed25519.NewKeyFromSeed(c.Bytes(32)).Public().(ed25519.PublicKey)
	return pk
}

// negated returns the key with the same X and the other Y (the same serialization except for
// the parity byte): exercises the Y tie-break of the sort order.
func negated(pub keypair.PublicKey) keypair.PublicKey {
	neg := func(p *ecdsa.PublicKey) *ecdsa.PublicKey {
		y := new(big.Int).Sub(p.Curve.Params().P, p.Y)
		return &ecdsa.PublicKey{Curve: p.Curve, X: new(big.Int).Set(p.X), Y: y}
	}
	switch t := pub.(type) {
	case *ec.PublicKey:
		return &ec.PublicKey{Algorithm: t.Algorithm, PublicKey: neg(t.PublicKey)}
	case *ec.EthereumPublicKey:
		return &ec.EthereumPublicKey{PublicKey: neg(t.PublicKey)}
	}
	return pub
}

type kindSpec struct {
	name string
	gen  func(c *hx.Ctx) keypair.PublicKey
}

var kinds = []kindSpec{
	{"ecdsa-p224", func(c *hx.Ctx) keypair.PublicKey { return ecKey(c, ec.ECDSA, keypair.P224) }},
	{"ecdsa-p256", func(c *hx.Ctx) keypair.PublicKey { return ecKey(c, ec.ECDSA, keypair.P256) }},
	{"ecdsa-p384", func(c *hx.Ctx) keypair.PublicKey { return ecKey(c, ec.ECDSA, keypair.P384) }},
	{"ecdsa-p521", func(c *hx.Ctx) keypair.PublicKey { return ecKey(c, ec.ECDSA, keypair.P521) }},
	{"ecdsa-secp256k1", func(c *hx.Ctx) keypair.PublicKey { return ecKey(c, ec.ECDSA, keypair.SECP256K1) }},
	{"ecdsa-sm2p256v1", func(c *hx.Ctx) keypair.PublicKey { return ecKey(c, ec.ECDSA, keypair.SM2P256V1) }},
	{"sm2-sm2p256v1", func(c *hx.Ctx) keypair.PublicKey { return ecKey(c, ec.SM2, keypair.SM2P256V1) }},
	{"sm2-p256", func(c *hx.Ctx) keypair.PublicKey { return ecKey(c, ec.SM2, keypair.P256) }},
	{"ed25519", edKey},
	{"eth-secp256k1", ethKey},
}

func buildPool(c *hx.Ctx) *pool {
	p := &pool{byName: map[string]*key{}}
	per := c.N(4, 8)
	for _, ks := range kinds {
		for i := 0; i < per; i++ {
			k := p.add(keyOf(ks.gen(c)))
			k.kind = ks.name
			if i == 0 && ks.name != "ed25519" {
				n := p.add(keyOf(negated(k.pub)))
				n.kind = ks.name + "/negated"
			}
		}
	}
	// the same point under both EC algorithms
	base := p.keys[len(p.keys)/3].pub
	for _, k := range p.keys {
		if t, ok := k.pub.(*ec.PublicKey); ok && t.Algorithm == ec.ECDSA && k.curve == uint64(keypair.P256) {
			base = k.pub
			break
		}
	}
	if t, ok := base.(*ec.PublicKey); ok {
		tw := p.add(keyOf(&ec.PublicKey{Algorithm: ec.SM2, PublicKey: t.PublicKey}))
		tw.kind = "sm2-p256/same-point-as-ecdsa"
	}
	return p
}

// ---------- small helpers ----------

func hashH(prog []byte) []byte {
	t := sha256.Sum256(prog)
	md := ripemd160.New()
	md.Write(t[:])
	return md.Sum(nil)
}

func keth(b []byte) []byte { return ethcrypto.Keccak256(b)[12:] }

func (p *pool) coqTab(tab [][2][]byte) string {
	var s []string
	for _, e := range tab {
		s = append(s, fmt.Sprintf("(%s, %s)", p.cb(e[0]), hx.CoqBytes(e[1])))
	}
	return hx.CoqList(s)
}

func pubs(ks []*key) []keypair.PublicKey {
	out := make([]keypair.PublicKey, len(ks))
	for i, k := range ks {
		out[i] = k.pub
	}
	return out
}

func sers(ks []*key) []string {
	var out []string
	for _, k := range ks {
		out = append(out, hx.Hex(k.ser))
	}
	return out
}

func sameSers(a []*key, b []*key) bool {
	if len(a) != len(b) {
		return false
	}
	for i := range a {
		if !bytes.Equal(a[i].ser, b[i].ser) || !a[i].rankEq(b[i]) {
			return false
		}
	}
	return true
}

// specSorted: an independent statement of "sorted": the stable sort of the records by
// (type, curve, X, Y).
func specSorted(ks []*key) []*key {
	out := append([]*key{}, ks...)
	sort.SliceStable(out, func(i, j int) bool { return out[i].rankLess(out[j]) })
	return out
}

// validParams is the property's own statement of the valid region (key sets of size up to 16),
// deliberately not taken from the code's constant.
func validParams(m int64, n int) bool {
	return 1 <= m && m <= int64(n) && n >= 2 && n <= 16
}

func shuffled(c *hx.Ctx, ks []*key) []*key {
	out := append([]*key{}, ks...)
	c.Rng.Shuffle(len(out), func(i, j int) { out[i], out[j] = out[j], out[i] })
	return out
}

func errClass(err error) string {
	if err == nil {
		return ""
	}
	if err == io.ErrUnexpectedEOF {
		return "EUnexpectedEOF"
	}
	m := err.Error()
	switch {
	case m == "wrong program":
		return "EWrongProgram"
	case strings.HasPrefix(m, "unexpected opcode"):
		return "EUnexpectedOpcode"
	case strings.HasPrefix(m, "num not in range"):
		return "ENumRange"
	case strings.HasPrefix(m, "expected eof"):
		return "EExpectedEOF"
	case m == "missing pubkey length":
		return "EMissingLen"
	case strings.HasPrefix(m, "number of pubkeys unmarched"):
		return "EUnmatched"
	case m == "wrong multi-sig param":
		return "EWrongParam"
	case m == "unsupported program":
		return "EUnsupported"
	}
	return "EDeser"
}

// input is the replayable description of one driver step.
type input struct {
	Kind  string     `json:"kind"`
	Keys  []string   `json:"keys,omitempty"`  // serialized keys
	Keys2 []string   `json:"keys2,omitempty"` // a second ordering
	M     int64      `json:"m,omitempty"`
	N     int64      `json:"n,omitempty"`
	Prog  string     `json:"prog,omitempty"`
	Ops   []buildOp  `json:"ops,omitempty"`
	Sigs  []string   `json:"sigs,omitempty"`
	Note  string     `json:"note,omitempty"`
	Extra [][]string `json:"extra,omitempty"`
	Steps []histStep `json:"steps,omitempty"` // call history (history.go)
}

type buildOp struct {
	Op string `json:"op"` // num | bytes | op | rep (V repeated N times, printed as `repeat` in Coq)
	V  uint64 `json:"v,omitempty"`
	D  string `json:"d,omitempty"`
	N  int    `json:"n,omitempty"`
}

type drv struct {
	c *hx.Ctx
	p *pool
}

// ---------- guarded calls into the implementation ----------
// Every call into ontology goes through hx.Recover: a panic is an oracle failure with the input
// that caused it and never ends the run.

func safeAddrMulti(ks []keypair.PublicKey, m int) (a common.Address, err error, panicked bool, msg string) {
	panicked, msg = hx.Recover(func() { a, err = types.AddressFromMultiPubKeys(ks, m) })
	return
}

func safeAddrBook(ks []keypair.PublicKey) (a common.Address, err error, panicked bool, msg string) {
	panicked, msg = hx.Recover(func() { a, err = types.AddressFromBookkeepers(ks) })
	return
}

func safeAddrPub(k keypair.PublicKey) (a common.Address, panicked bool, msg string) {
	panicked, msg = hx.Recover(func() { a = types.AddressFromPubKey(k) })
	return
}

func safeProgPub(k keypair.PublicKey) (prog []byte, panicked bool, msg string) {
	panicked, msg = hx.Recover(func() { prog = append([]byte{}, program.ProgramFromPubKey(k)...) })
	return
}

func safeProgMulti(ks []keypair.PublicKey, m int) (prog []byte, err error, panicked bool, msg string) {
	panicked, msg = hx.Recover(func() {
		prog, err = program.ProgramFromMultiPubKey(ks, m)
		prog = append([]byte{}, prog...)
	})
	return
}

func safeParamInfo(prog []byte) (sigs [][]byte, err error, panicked bool, msg string) {
	panicked, msg = hx.Recover(func() { sigs, err = program.GetParamInfo(prog) })
	return
}

func safeDeser(b []byte) (pk keypair.PublicKey, err error, panicked bool, msg string) {
	panicked, msg = hx.Recover(func() { pk, err = keypair.DeserializePublicKey(b) })
	return
}

// guard is the backstop around a whole driver step: whatever still panics (driver or
// implementation) is reported with the step's input instead of killing the process.
func (d *drv) guard(class string, in interface{}, f func()) {
	if p, msg := hx.Recover(f); p {
		d.c.Fail("panic:"+class, "a driver step panicked", in, msg, "no panic")
	}
}

// ---------- independent statement of the scripts and addresses ----------
// Written from the script format (literal opcode values), not by calling the builder: push of
// 1..75 bytes = length byte + data, 76..255 = 0x4c len data; PUSH1..PUSH16 = 0x51..0x60;
// CHECKSIG = 0xac; CHECKMULTISIG = 0xae.

func specPush(out []byte, d []byte) []byte {
	switch {
	case len(d) <= 75:
		out = append(out, byte(len(d)))
	case len(d) < 256:
		out = append(out, 0x4c, byte(len(d)))
	default:
		out = append(out, 0x4d, byte(len(d)), byte(len(d)>>8))
	}
	return append(out, d...)
}

// specMultiScript: the m-of-n script of a key SET (valid m, n only): keys in sorted order.
func specMultiScript(ks []*key, m int64) []byte {
	out := []byte{byte(0x50 + m)}
	for _, k := range specSorted(ks) {
		out = specPush(out, k.ser)
	}
	return append(out, byte(0x50+len(ks)), 0xae)
}

// specMultiAddr: the address of the key set, order-free by construction; ok=false when (m, n) is invalid.
func specMultiAddr(ks []*key, m int64) ([]byte, bool) {
	if !validParams(m, len(ks)) {
		return nil, false
	}
	return hashH(specMultiScript(ks, m)), true
}

func specPubAddr(k *key) []byte {
	if k.ty == uint64(keypair.PK_ETHECDSA) {
		return keth(k.ser[2:])
	}
	return hashH(append(specPush(nil, k.ser), 0xac))
}

func specBookAddr(ks []*key) ([]byte, bool) {
	if len(ks) == 1 {
		return specPubAddr(ks[0]), true
	}
	n := len(ks)
	return specMultiAddr(ks, int64(n-(n-1)/3))
}

// ---------- ProgramBuilder ----------

func runBuilder(ops []buildOp) (out []byte, panicked bool) {
	panicked, _ = hx.Recover(func() {
		b := program.NewProgramBuilder()
		for _, o := range ops {
			switch o.Op {
			case "num":
				b.PushNum(uint16(o.V))
			case "bytes":
				b.PushBytes(hx.UnHex(o.D))
			case "rep":
				b.PushBytes(bytes.Repeat([]byte{byte(o.V)}, o.N))
			default:
				b.PushOpCode(neovm.OpCode(byte(o.V)))
			}
		}
		out = append([]byte{}, b.Finish()...)
	})
	return
}

// cbPlain: the compact printer without key names.
func cbPlain(b []byte) string { return (&pool{}).cb(b) }

func coqOps(ops []buildOp) string {
	var s []string
	for _, o := range ops {
		switch o.Op {
		case "num":
			s = append(s, fmt.Sprintf("BNum %d", o.V))
		case "bytes":
			s = append(s, "BBytes "+cbPlain(hx.UnHex(o.D)))
		case "rep":
			s = append(s, fmt.Sprintf("BBytes (repeat %d (N.to_nat %d))", byte(o.V), o.N))
		default:
			s = append(s, fmt.Sprintf("BOp %d", o.V))
		}
	}
	return hx.CoqList(s)
}

func (d *drv) doBuild(ops []buildOp) {
	c := d.c
	c.Eval()
	out, p := runBuilder(ops)
	c.Count("build")
	for _, o := range ops {
		c.Count("build-op:" + o.Op)
	}
	in := input{Kind: "build", Ops: ops}
	if len(ops) > 1 {
		c.Nontrivial(fmt.Sprint("b", ops))
	}
	if p {
		c.Count("build:panic")
		c.Case(fmt.Sprintf("CBuild %s None", coqOps(ops)), in)
		return
	}
	c.Case(fmt.Sprintf("CBuild %s (Some %s)", coqOps(ops), cbPlain(out)), in)
	// oracle: what the builder pushed is what GetParamInfo reads back, when only data was pushed
	onlyData := true
	var want [][]byte
	for _, o := range ops {
		if o.Op != "bytes" {
			onlyData = false
		} else {
			want = append(want, hx.UnHex(o.D))
		}
	}
	if onlyData {
		got, err, pp, pmsg := safeParamInfo(out)
		if pp {
			c.Fail("panic:GetParamInfo", "parsing a byte string panicked", in, pmsg, nil)
			return
		}
		ok := err == nil && len(got) == len(want)
		for i := 0; ok && i < len(want); i++ {
			ok = bytes.Equal(got[i], want[i])
		}
		if !ok {
			c.Fail("push-readback", "data pushed by the builder is not what the parser reads back", in, fmt.Sprint(err, len(got)), "the pushed strings")
		}
	}
}

// doBuildBig: PushBytes of n equal bytes followed by PushNum(v); the long run is written as
// `repeat` in the Coq terms (a 65536-element list literal overflows coqc's parser stack).
func (d *drv) doBuildBig(v byte, n int, num uint64) {
	c := d.c
	c.Eval()
	ops := []buildOp{{Op: "rep", V: uint64(v), N: n}, {Op: "num", V: num}}
	in := input{Kind: "buildbig", Ops: ops}
	out, p := runBuilder(ops)
	tail, _ := runBuilder(ops[1:])
	if p || len(out) < n+len(tail) {
		c.Fail("panic:ProgramBuilder", "pushing a long string panicked", in, nil, nil)
		return
	}
	hdr := out[:len(out)-n-len(tail)]
	rep := fmt.Sprintf("repeat %d (N.to_nat %d)", v, n)
	c.Count("build:big")
	c.Nontrivial(fmt.Sprint("b", ops))
	c.Case(fmt.Sprintf("CBuild %s (Some (%s ++ %s ++ %s))", coqOps(ops), hx.CoqBytes(hdr), rep, hx.CoqBytes(tail)), in)
	// the parser side: GetParamInfo over the push alone
	c.Eval()
	sigs, err, pp, pmsg := safeParamInfo(out[:len(hdr)+n])
	if pp {
		c.Fail("panic:GetParamInfo", "parsing a byte string panicked", in, pmsg, nil)
		return
	}
	if err != nil || len(sigs) != 1 || !bytes.Equal(sigs[0], out[len(hdr):len(hdr)+n]) {
		c.Fail("push-readback", "a long pushed string does not read back", in, fmt.Sprint(err, len(sigs)), "the pushed string")
		return
	}
	c.Case(fmt.Sprintf("CParam (%s ++ %s) (ParOk [%s])", hx.CoqBytes(hdr), rep, rep), in)
}

// ---------- sorting ----------

func (d *drv) doSort(ks []*key) {
	c := d.c
	c.Eval()
	in := input{Kind: "sort", Keys: sers(ks)}
	var sorted []*key
	p, msg := hx.Recover(func() {
		for _, pk := range keypair.SortPublicKeys(pubs(ks)) {
			sorted = append(sorted, keyOf(pk))
		}
	})
	if p {
		c.Fail("panic:SortPublicKeys", "sorting keys panicked", in, msg, nil)
		return
	}
	c.Count(fmt.Sprintf("sort:n<=%d", bucket(len(ks))))
	if len(ks) > 2 {
		c.Nontrivial("s" + strings.Join(in.Keys, ","))
	}
	if !sameSers(sorted, specSorted(ks)) {
		c.Fail("sort-order", "SortPublicKeys does not return the keys ordered by (type, curve, X, Y)", in, sers(sorted), sers(specSorted(ks)))
	}
	c.Case(fmt.Sprintf("CSort %s %s", d.p.coqKeys(ks), d.p.coqKeys(sorted)), in)
}

func bucket(n int) int {
	for _, b := range []int{0, 1, 2, 4, 8, 16, 32} {
		if n <= b {
			return b
		}
	}
	return 1 << 20
}

// ---------- GetProgramInfo ----------

// dtab lists the byte strings at push positions of the script that DeserializePublicKey accepts.
func (d *drv) dtab(prog []byte) (string, int) {
	seen := map[string]bool{}
	var items []string
	for i := range prog {
		code := prog[i]
		var start, l uint64
		switch {
		case code == byte(neovm.PUSHDATA4):
			if i+5 > len(prog) {
				continue
			}
			l = uint64(prog[i+1]) | uint64(prog[i+2])<<8 | uint64(prog[i+3])<<16 | uint64(prog[i+4])<<24
			start = uint64(i) + 5
		case code == byte(neovm.PUSHDATA2):
			if i+3 > len(prog) {
				continue
			}
			l = uint64(prog[i+1]) | uint64(prog[i+2])<<8
			start = uint64(i) + 3
		case code == byte(neovm.PUSHDATA1):
			if i+2 > len(prog) {
				continue
			}
			l = uint64(prog[i+1])
			start = uint64(i) + 2
		case code >= byte(neovm.PUSHBYTES1) && code <= byte(neovm.PUSHBYTES75):
			l = uint64(code) - uint64(neovm.PUSHBYTES1) + 1
			start = uint64(i) + 1
		default:
			continue
		}
		if start+l > uint64(len(prog)) || l <= 3 {
			continue
		}
		b := prog[start : start+l]
		if seen[string(b)] {
			continue
		}
		seen[string(b)] = true
		var pk keypair.PublicKey
		var err error
		p, _ := hx.Recover(func() { pk, err = keypair.DeserializePublicKey(b) })
		if p || err != nil || pk == nil {
			continue
		}
		var k *key
		if p2, _ := hx.Recover(func() { k = keyOf(pk) }); p2 {
			continue
		}
		items = append(items, fmt.Sprintf("(%s, %s)", d.p.cb(b), d.p.coq(k)))
	}
	return hx.CoqList(items), len(items)
}

type infoRes struct {
	keys []*key
	m    uint16
	err  string
	ok   bool
}

func getInfo(prog []byte) (r infoRes, panicked bool, msg string) {
	panicked, msg = hx.Recover(func() {
		info, err := program.GetProgramInfo(prog)
		if err != nil {
			r.err = errClass(err)
			return
		}
		r.ok = true
		r.m = info.M
		for _, pk := range info.PubKeys {
			r.keys = append(r.keys, keyOf(pk))
		}
	})
	return
}

// doInfo runs GetProgramInfo on any byte string: correspondence case + the oracle clauses that
// hold for every script.
func (d *drv) doInfo(prog []byte, kind string) infoRes {
	c := d.c
	c.Eval()
	in := input{Kind: "info", Prog: hx.Hex(prog), Note: kind}
	r, p, msg := getInfo(prog)
	if p {
		c.Fail("panic:GetProgramInfo", "parsing a byte string panicked", in, msg, "keys and threshold, or an error")
		return r
	}
	c.Count("info:" + kind)
	c.Count(fmt.Sprintf("info:len<=%d", bucketLen(len(prog))))
	tab, nt := d.dtab(prog)
	if r.ok {
		c.Count("info-result:ok")
		n := len(r.keys)
		last := prog[len(prog)-1]
		single := last == byte(neovm.CHECKSIG) && n == 1 && r.m == 1
		multi := last == byte(neovm.CHECKMULTISIG) && validParams(int64(r.m), n)
		if !single && !multi {
			c.Fail("accepted-bad-params", "a script with an invalid threshold or key count was accepted", in,
				map[string]interface{}{"m": r.m, "n": n}, "1 <= m <= n, 2 <= n <= 16 (or one key, m = 1, CHECKSIG)")
		}
		c.Case(fmt.Sprintf("CInfo %s %s (POk %s %d)", d.p.cb(prog), tab, d.p.coqKeys(r.keys), r.m), in)
	} else {
		c.Count("info-result:" + r.err)
		c.Case(fmt.Sprintf("CInfo %s %s (PErr %s)", d.p.cb(prog), tab, r.err), in)
	}
	if len(prog) > 3 && (nt > 0 || kind != "random") {
		c.Nontrivial("i" + in.Prog)
	}
	return r
}

func bucketLen(n int) int {
	for _, b := range []int{2, 8, 40, 80, 200, 400, 800} {
		if n <= b {
			return b
		}
	}
	return 1 << 20
}

// ---------- single-key programs ----------

func (d *drv) doSingle(k *key) {
	c := d.c
	c.Eval()
	in := input{Kind: "single", Keys: []string{hx.Hex(k.ser)}}
	var prog []byte
	p, msg := hx.Recover(func() { prog = program.ProgramFromPubKey(k.pub) })
	if p {
		c.Fail("panic:ProgramFromPubKey", "building a single-key script panicked", in, msg, nil)
		return
	}
	c.Count("single:" + k.kind)
	c.Nontrivial("1" + in.Keys[0])
	c.Sample(map[string]interface{}{"kind": "single:" + k.kind, "key": in.Keys[0], "program": hx.Hex(prog)})
	c.Case(fmt.Sprintf("CSingle %s (Some %s)", d.p.coq(k), d.p.cb(prog)), in)
	r := d.doInfo(prog, "built-single")
	if !(r.ok && r.m == 1 && len(r.keys) == 1 && sameSers(r.keys, []*key{k}) && keypair.ComparePublicKey(r.keys[0].pub, k.pub)) {
		c.Fail("parse-build-single", "the single-key script does not parse back to its key with threshold 1", in,
			map[string]interface{}{"ok": r.ok, "err": r.err, "m": r.m, "keys": sers(r.keys)}, "that key, m = 1")
	}
	d.doAddrPub(k)
}

// ---------- multi-key programs ----------

func buildMulti(ks []*key, m int) (prog []byte, err error, panicked bool, msg string) {
	panicked, msg = hx.Recover(func() {
		prog, err = program.ProgramFromMultiPubKey(pubs(ks), m)
		prog = append([]byte{}, prog...)
	})
	return
}

func (d *drv) doMulti(ks []*key, m int64) {
	c := d.c
	c.Eval()
	in := input{Kind: "multi", Keys: sers(ks), M: m}
	n := len(ks)
	prog, err, p, msg := buildMulti(ks, int(m))
	if p {
		c.Fail("panic:ProgramFromMultiPubKey", "building an m-of-n script panicked", in, msg, nil)
		return
	}
	c.Count(fmt.Sprintf("multi:n=%d", n))
	valid := validParams(m, n)
	if err != nil {
		c.Count("multi:rejected")
		c.Case(fmt.Sprintf("CMulti %s %s BErrParam", d.p.coqKeys(ks), hx.CoqZ(m)), in)
		if valid {
			c.Fail("build-rejects-valid", "valid (m, n) rejected by ProgramFromMultiPubKey", in, err.Error(), "a script")
		}
	} else {
		c.Count("multi:built")
		c.Case(fmt.Sprintf("CMulti %s %s (BOk %s)", d.p.coqKeys(ks), hx.CoqZ(m), d.p.cb(prog)), in)
		if !valid {
			c.Fail("bad-params-built", "ProgramFromMultiPubKey built a script for an invalid threshold or key count", in, hx.Hex(prog), "error")
		}
	}
	// the address function must agree with the builder on rejection
	d.doAddrMulti(ks, m, prog, err == nil)
	if err != nil {
		return
	}
	c.Nontrivial(fmt.Sprintf("m%d/%s", m, strings.Join(in.Keys, ",")))
	c.Sample(map[string]interface{}{"kind": "multi", "m": m, "keys": in.Keys, "program": hx.Hex(prog)})
	// parse(build keys m) = (sorted keys, m)
	r := d.doInfo(prog, "built-multi")
	want := specSorted(ks)
	if !(r.ok && int64(r.m) == m && sameSers(r.keys, want)) {
		c.Fail("parse-build-multi", "the m-of-n script does not parse back to the sorted keys and the threshold", in,
			map[string]interface{}{"ok": r.ok, "err": r.err, "m": r.m, "keys": sers(r.keys)}, map[string]interface{}{"m": m, "keys": sers(want)})
	}
	// every ordering gives the same script and the same address
	a0, e0, pa, pamsg := safeAddrMulti(pubs(ks), int(m))
	if pa {
		c.Fail("panic:AddressFromMultiPubKeys", "address derivation panicked", in, pamsg, nil)
		return
	}
	if want, ok := specMultiAddr(ks, m); !ok || e0 != nil || !bytes.Equal(a0[:], want) {
		c.Fail("wrong-address", "the multi-signature address is not the hash of the sorted m-of-n script", in, a0.ToHexString(), hx.Hex(want))
	}
	for t := 0; t < 3; t++ {
		var perm []*key
		switch t {
		case 0:
			perm = shuffled(c, ks)
		case 1:
			perm = append([]*key{}, ks...)
			for i, j := 0, len(perm)-1; i < j; i, j = i+1, j-1 {
				perm[i], perm[j] = perm[j], perm[i]
			}
		default:
			perm = specSorted(shuffled(c, ks))
		}
		c.Eval()
		in2 := input{Kind: "perm", Keys: sers(ks), Keys2: sers(perm), M: m}
		p2, e2, pp, pmsg := buildMulti(perm, int(m))
		if pp {
			c.Fail("panic:ProgramFromMultiPubKey", "building an m-of-n script panicked", in2, pmsg, nil)
			continue
		}
		a2, ea, pa2, pa2msg := safeAddrMulti(pubs(perm), int(m))
		if pa2 {
			c.Fail("panic:AddressFromMultiPubKeys", "address derivation panicked", in2, pa2msg, nil)
			continue
		}
		if e2 != nil || !bytes.Equal(p2, prog) || ea != nil || e0 != nil || a2 != a0 {
			c.Fail("address-order-dependent", "two orderings of the same key set give different scripts or addresses", in2,
				map[string]interface{}{"addr1": a0.ToHexString(), "addr2": a2.ToHexString(), "prog1": hx.Hex(prog), "prog2": hx.Hex(p2)}, "equal")
		}
		c.Count("perm")
		if t == 0 {
			c.Case(fmt.Sprintf("CMulti %s %s (BOk %s)", d.p.coqKeys(perm), hx.CoqZ(m), d.p.cb(p2)), in2)
		}
	}
}

// rawScript assembles PushNum(m) keys... PushNum(n) CHECKMULTISIG with the exported builder,
// without the builder's parameter test and without sorting.
// Returns nil if the builder panics.
func rawScript(m uint16, ks []*key, n uint16) (out []byte) {
	if p, _ := hx.Recover(func() {
		b := program.NewProgramBuilder()
		b.PushNum(m)
		for _, k := range ks {
			b.PushBytes(k.ser)
		}
		b.PushNum(n)
		b.PushOpCode(neovm.CHECKMULTISIG)
		out = append([]byte{}, b.Finish()...)
	}); p {
		return nil
	}
	return out
}

// doRaw: a hand-assembled script declaring (m, n) over the given keys in the given order.
func (d *drv) doRaw(m uint16, ks []*key, n uint16) {
	c := d.c
	prog := rawScript(m, ks, n)
	in := input{Kind: "raw", Keys: sers(ks), M: int64(m), N: int64(n)}
	if prog == nil {
		c.Fail("panic:ProgramBuilder", "assembling a script from serialized keys panicked", in, nil, nil)
		return
	}
	r := d.doInfo(prog, "raw")
	good := int(n) == len(ks) && validParams(int64(m), len(ks))
	c.Count(fmt.Sprintf("raw:declared-valid=%v", good))
	if good {
		if !(r.ok && r.m == m && sameSers(r.keys, ks)) {
			c.Fail("raw-valid-rejected", "a well-formed m-of-n script is not parsed to its keys and threshold", in,
				map[string]interface{}{"ok": r.ok, "err": r.err, "m": r.m, "keys": sers(r.keys)}, "keys in script order, m")
		}
	} else if r.ok {
		c.Fail("bad-params-accepted", "a script declaring an invalid threshold or key count was accepted", in,
			map[string]interface{}{"m": r.m, "keys": sers(r.keys)}, "error")
	}
}

// ---------- GetParamInfo ----------

func (d *drv) doParam(prog []byte, kind string) {
	c := d.c
	c.Eval()
	in := input{Kind: "param", Prog: hx.Hex(prog), Note: kind}
	var sigs [][]byte
	var err error
	p, msg := hx.Recover(func() { sigs, err = program.GetParamInfo(prog) })
	if p {
		c.Fail("panic:GetParamInfo", "parsing a byte string panicked", in, msg, "pushed strings, or an error")
		return
	}
	c.Count("param:" + kind)
	if len(prog) > 2 {
		c.Nontrivial("p" + in.Prog)
	}
	if err != nil {
		c.Count("param-result:" + errClass(err))
		c.Case(fmt.Sprintf("CParam %s (ParErr %s)", cbPlain(prog), errClass(err)), in)
		return
	}
	c.Count("param-result:ok")
	var s []string
	total := 0
	for _, x := range sigs {
		s = append(s, cbPlain(x))
		total += len(x)
	}
	if total > len(prog) {
		c.Fail("param-oob", "GetParamInfo returned more data than the script holds", in, total, len(prog))
	}
	c.Case(fmt.Sprintf("CParam %s (ParOk %s)", cbPlain(prog), hx.CoqList(s)), in)
}

func (d *drv) doParams(sigs [][]byte) {
	c := d.c
	c.Eval()
	var hs, cs []string
	for _, s := range sigs {
		hs = append(hs, hx.Hex(s))
		cs = append(cs, cbPlain(s))
	}
	in := input{Kind: "params", Sigs: hs}
	var prog []byte
	p, _ := hx.Recover(func() { prog = append([]byte{}, program.ProgramFromParams(sigs)...) })
	c.Count("params")
	if p {
		c.Case(fmt.Sprintf("CParams %s None", hx.CoqList(cs)), in)
		return
	}
	c.Nontrivial("P" + strings.Join(hs, ","))
	c.Case(fmt.Sprintf("CParams %s (Some %s)", hx.CoqList(cs), cbPlain(prog)), in)
	got, err, pp, pmsg := safeParamInfo(prog)
	if pp {
		c.Fail("panic:GetParamInfo", "parsing a byte string panicked", in, pmsg, nil)
		return
	}
	ok := err == nil && len(got) == len(sigs)
	for i := 0; ok && i < len(sigs); i++ {
		ok = bytes.Equal(got[i], sigs[i])
	}
	if !ok {
		c.Fail("push-readback", "ProgramFromParams does not read back through GetParamInfo", in, fmt.Sprint(err, len(got)), "the pushed strings")
	}
	d.doParam(prog, "built")
}

// ---------- addresses ----------

func (d *drv) doAddrPub(k *key) {
	c := d.c
	c.Eval()
	in := input{Kind: "addrpub", Keys: []string{hx.Hex(k.ser)}}
	var a common.Address
	p, msg := hx.Recover(func() { a = types.AddressFromPubKey(k.pub) })
	if p {
		c.Fail("panic:AddressFromPubKey", "address derivation panicked", in, msg, nil)
		return
	}
	prog, pp, pmsg := safeProgPub(k.pub)
	if pp {
		c.Fail("panic:ProgramFromPubKey", "building a single-key script panicked", in, pmsg, nil)
		return
	}
	if want := specPubAddr(k); !bytes.Equal(a[:], want) {
		c.Fail("wrong-address", "the single-key address is not the hash of the key's script", in, a.ToHexString(), hx.Hex(want))
	}
	htab := [][2][]byte{{prog, hashH(prog)}}
	ktab := [][2][]byte{}
	if len(k.ser) > 2 {
		ktab = append(ktab, [2][]byte{k.ser[2:], keth(k.ser[2:])})
	}
	c.Count("addrpub:" + k.kind)
	c.Case(fmt.Sprintf("CAddrPub %s %s %s (AOk %s)", d.p.coq(k), d.p.coqTab(htab), d.p.coqTab(ktab), hx.CoqBytes(a[:])), in)
}

func (d *drv) doAddrMulti(ks []*key, m int64, prog []byte, built bool) {
	c := d.c
	c.Eval()
	in := input{Kind: "addrmulti", Keys: sers(ks), M: m}
	var a common.Address
	var err error
	p, msg := hx.Recover(func() { a, err = types.AddressFromMultiPubKeys(pubs(ks), int(m)) })
	if p {
		c.Fail("panic:AddressFromMultiPubKeys", "address derivation panicked", in, msg, nil)
		return
	}
	if (err == nil) != built {
		c.Fail("address-builder-disagree", "AddressFromMultiPubKeys and ProgramFromMultiPubKey disagree on whether (m, n) is valid", in, fmt.Sprint(err), built)
	}
	var htab [][2][]byte
	if built {
		htab = append(htab, [2][]byte{prog, hashH(prog)})
		if len(ks) <= 8 && m >= 0 && m < 65536 {
			// decoy: the script over the keys in the given (unsorted) order, with its own hash
			raw := rawScript(uint16(m), ks, uint16(len(ks)))
			if raw != nil && !bytes.Equal(raw, prog) {
				htab = append(htab, [2][]byte{raw, hashH(raw)})
			}
		}
	}
	if err != nil {
		c.Count("addrmulti:rejected")
		c.Case(fmt.Sprintf("CAddrMulti %s %s %s AErrParam", d.p.coqKeys(ks), hx.CoqZ(m), d.p.coqTab(htab)), in)
		return
	}
	c.Count("addrmulti:ok")
	if built && !bytes.Equal(a[:], hashH(prog)) {
		c.Fail("address-not-script-hash", "the multi-signature address is not the hash of the m-of-n script", in, a.ToHexString(), hx.Hex(hashH(prog)))
	}
	c.Case(fmt.Sprintf("CAddrMulti %s %s %s (AOk %s)", d.p.coqKeys(ks), hx.CoqZ(m), d.p.coqTab(htab), hx.CoqBytes(a[:])), in)
}

func (d *drv) doAddrBook(ks []*key) {
	c := d.c
	c.Eval()
	in := input{Kind: "addrbook", Keys: sers(ks)}
	a, err, p, msg := safeAddrBook(pubs(ks))
	var htab, ktab [][2][]byte
	// hash table: the scripts for the thresholds next to two thirds (the model has to pick the right one)
	for m := len(ks)*2/3 - 1; m <= len(ks)*2/3+2; m++ {
		if pr, e, pp, _ := buildMulti(ks, m); e == nil && !pp {
			htab = append(htab, [2][]byte{pr, hashH(pr)})
		}
	}
	if len(ks) == 1 {
		if pr, pp, _ := safeProgPub(ks[0].pub); !pp {
			htab = append(htab, [2][]byte{pr, hashH(pr)})
		}
		ktab = append(ktab, [2][]byte{ks[0].ser[2:], keth(ks[0].ser[2:])})
	}
	c.Count(fmt.Sprintf("addrbook:n<=%d", bucket(len(ks))))
	c.Nontrivial("B" + strings.Join(in.Keys, ","))
	head := fmt.Sprintf("CAddrBook %s %s %s", d.p.coqKeys(ks), d.p.coqTab(htab), d.p.coqTab(ktab))
	switch {
	case p:
		c.Count("addrbook:panic")
		c.Fail("panic:AddressFromBookkeepers", "address derivation panicked", in, msg, nil)
		c.Case(head+" APanic", in)
	case err != nil:
		c.Case(head+" AErrParam", in)
	default:
		c.Case(fmt.Sprintf("%s (AOk %s)", head, hx.CoqBytes(a[:])), in)
		// order-free as well
		if want, ok := specBookAddr(ks); !ok || !bytes.Equal(a[:], want) {
			c.Fail("wrong-address", "the bookkeeper address is not the address of the two-thirds script of the key set", in, a.ToHexString(), hx.Hex(want))
		}
		if len(ks) > 1 {
			a2, e2, p2, m2 := safeAddrBook(pubs(shuffled(c, ks)))
			if p2 {
				c.Fail("panic:AddressFromBookkeepers", "address derivation panicked", in, m2, nil)
			} else if e2 != nil || a2 != a {
				c.Fail("address-order-dependent", "AddressFromBookkeepers depends on the key order", in, a2.ToHexString(), a.ToHexString())
			}
		}
	}
}

// ---------- hypotheses about keys that the theorems make ----------

func (d *drv) keyHypotheses() {
	c := d.c
	for _, k := range d.p.keys {
		c.Eval()
		in := input{Kind: "keyhyp", Keys: []string{hx.Hex(k.ser)}}
		pk, err, pp, pmsg := safeDeser(k.ser)
		if pp {
			c.Fail("panic:DeserializePublicKey", "deserializing a serialized key panicked", in, pmsg, nil)
			continue
		}
		if err != nil {
			c.Fail("key-roundtrip", "DeserializePublicKey(SerializePublicKey(k)) fails", in, err.Error(), "k")
			continue
		}
		k2 := keyOf(pk)
		if !bytes.Equal(k2.ser, k.ser) || !k2.rankEq(k) || !keypair.ComparePublicKey(pk, k.pub) {
			c.Fail("key-roundtrip", "DeserializePublicKey(SerializePublicKey(k)) is a different key", in, hx.Hex(k2.ser), hx.Hex(k.ser))
		}
		if len(k.ser) <= 3 || len(k.ser) > 75 {
			c.Note(fmt.Sprintf("serialization of %s has length %d", k.kind, len(k.ser)))
		}
		c.Count("keyhyp:roundtrip")
	}
	for i, a := range d.p.keys {
		for _, b := range d.p.keys[i+1:] {
			if a.rankEq(b) && !bytes.Equal(a.ser, b.ser) {
				c.Fail("key-canon", "two keys the sort order does not separate have different serializations",
					input{Kind: "keyhyp", Keys: []string{hx.Hex(a.ser), hx.Hex(b.ser)}}, nil, nil)
			}
		}
	}
	for i := 0; i < 64; i++ {
		b := c.Bytes(c.Intn(4))
		if len(b) > 0 && c.Intn(2) == 0 {
			b[0] = []byte{0x12, 0x13, 0x14, 0x15, 2, 3, 4}[c.Intn(7)]
		}
		var err error
		p, _ := hx.Recover(func() { _, err = keypair.DeserializePublicKey(b) })
		if p || err == nil {
			c.Fail("key-short", "a string of at most 3 bytes is accepted as a public key (or panics)", input{Kind: "keyhyp", Prog: hx.Hex(b)}, nil, "error")
		}
		c.Count("keyhyp:short")
	}
}

// ---------- generators ----------

func (d *drv) pick(n int, dup bool) []*key {
	c := d.c
	var out []*key
	mode := c.Intn(4)
	var sub []*key
	if mode == 0 { // one kind only
		kn := kinds[c.Intn(len(kinds))].name
		for _, k := range d.p.keys {
			if strings.HasPrefix(k.kind, kn) {
				sub = append(sub, k)
			}
		}
	}
	if len(sub) == 0 {
		sub = d.p.keys
	}
	if !dup && n <= len(sub) {
		perm := c.Rng.Perm(len(sub))
		for i := 0; i < n; i++ {
			out = append(out, sub[perm[i]])
		}
		return out
	}
	for i := 0; i < n; i++ {
		out = append(out, sub[c.Intn(len(sub))])
	}
	return out
}

func (d *drv) randNumBytes() []byte {
	c := d.c
	switch c.Intn(8) {
	case 0:
		return []byte{byte(c.Intn(256))}
	case 1:
		return []byte{byte(c.Intn(256)), byte(c.Intn(256))}
	case 2:
		return []byte{byte(c.Intn(256)), byte(c.Intn(256)), byte(c.Intn(3))}
	case 3: // low 64 bits small, high garbage: big.Int.Int64 wraps
		b := make([]byte, 9+c.Intn(3))
		b[0] = byte(c.Intn(20))
		for i := 8; i < len(b); i++ {
			b[i] = byte(c.Intn(256))
		}
		return b
	case 4:
		return common.BigIntToNeoBytes(big.NewInt(int64(c.Intn(70000)) - 100))
	case 5:
		b := c.Bytes(8)
		return b
	case 6: // big-endian small number with leading zeros
		return append(make([]byte, c.Intn(3)), byte(c.Intn(20)))
	default:
		return c.Bytes(1 + c.Intn(12))
	}
}

// crafted assembles a CHECKMULTISIG script from parts that may each be unusual.
func (d *drv) crafted() (out []byte) {
	if p, _ := hx.Recover(func() { out = d.crafted0() }); p || out == nil {
		return []byte{byte(neovm.PUSH1), byte(neovm.PUSH1), byte(neovm.CHECKMULTISIG)}
	}
	return out
}

func (d *drv) crafted0() []byte {
	c := d.c
	n := []int{0, 1, 2, 2, 3, 3, 4, 5, 2, 3, 6, 8, 16, 17}[c.Intn(14)]
	ks := d.pick(n, c.Intn(5) == 0)
	if c.Intn(2) == 0 {
		ks = specSorted(ks)
	}
	m := 1
	if n > 0 {
		m = 1 + c.Intn(n)
	}
	b := program.NewProgramBuilder()
	switch c.Intn(6) {
	case 0:
		b.PushBytes(d.randNumBytes())
	case 1:
		b.PushNum(uint16(c.Intn(20)))
	default:
		b.PushNum(uint16(m))
	}
	for _, k := range ks {
		ser := k.ser
		switch c.Intn(12) {
		case 0: // non-minimal push
			op := []neovm.OpCode{neovm.PUSHDATA1, neovm.PUSHDATA2, neovm.PUSHDATA4}[c.Intn(3)]
			b.PushOpCode(op)
			switch op {
			case neovm.PUSHDATA1:
				b.PushOpCode(neovm.OpCode(byte(len(ser))))
			case neovm.PUSHDATA2:
				b.PushOpCode(neovm.OpCode(byte(len(ser)))).PushOpCode(0)
			default:
				b.PushOpCode(neovm.OpCode(byte(len(ser)))).PushOpCode(0).PushOpCode(0).PushOpCode(0)
			}
			for _, x := range ser {
				b.PushOpCode(neovm.OpCode(x))
			}
			continue
		case 1: // another accepted encoding of the same key
			if t, ok := k.pub.(*ec.PublicKey); ok {
				l, _ := keypair.GetCurveLabel(t.Curve)
				tag := byte(keypair.PK_ECDSA)
				if t.Algorithm == ec.SM2 {
					tag = byte(keypair.PK_SM2)
				}
				ser = append([]byte{tag, l}, ec.EncodePublicKey(t.PublicKey, c.Intn(2) == 0)...)
			}
		case 2: // trailing bytes after the key
			ser = append(append([]byte{}, ser...), c.Bytes(1+c.Intn(3))...)
		case 3: // damaged key
			ser = append([]byte{}, ser...)
			ser[c.Intn(len(ser))] ^= byte(1 << uint(c.Intn(8)))
		}
		b.PushBytes(ser)
	}
	switch c.Intn(6) {
	case 0:
		b.PushBytes(d.randNumBytes())
	case 1:
		b.PushNum(uint16(c.Intn(20)))
	case 2: // count missing
	default:
		b.PushNum(uint16(n))
	}
	if c.Intn(10) == 0 {
		b.PushOpCode(neovm.OpCode(byte(c.Intn(256))))
	}
	b.PushOpCode(neovm.CHECKMULTISIG)
	if c.Intn(12) == 0 {
		b.PushOpCode(neovm.CHECKMULTISIG)
	}
	return append([]byte{}, b.Finish()...)
}

func (d *drv) mutate(prog []byte) []byte {
	c := d.c
	out := append([]byte{}, prog...)
	if len(out) == 0 {
		return []byte{byte(neovm.CHECKSIG)}
	}
	switch c.Intn(7) {
	case 0:
		out[c.Intn(len(out))] ^= byte(1 << uint(c.Intn(8)))
	case 1:
		out = out[:c.Intn(len(out))]
	case 2:
		i := c.Intn(len(out) + 1)
		out = append(out[:i:i], append([]byte{byte(c.Intn(256))}, out[i:]...)...)
	case 3:
		i := c.Intn(len(out))
		out = append(out[:i:i], out[i+1:]...)
	case 4:
		out[0] = []byte{0, 0x4c, 0x4d, 0x4e, 0x4f, 0x50, 0x51, 0x60, 0x61, 0xae, 0xac, 1, 75}[c.Intn(13)]
	case 5:
		out[len(out)-1] = []byte{byte(neovm.CHECKSIG), byte(neovm.CHECKMULTISIG), 0}[c.Intn(3)]
	default:
		out = append(out, byte(neovm.CHECKMULTISIG))
	}
	return out
}

func (d *drv) randomScript() []byte {
	c := d.c
	var out []byte
	for i, n := 0, c.Intn(8); i < n; i++ {
		switch c.Intn(6) {
		case 0:
			out = append(out, byte(c.Intn(256)))
		case 1:
			out = append(out, byte(0x51+c.Intn(16)))
		case 2:
			l := c.Intn(6)
			out = append(out, byte(l))
			out = append(out, c.Bytes(l)...)
		case 3:
			l := c.Intn(80)
			out = append(out, byte(neovm.PUSHDATA1), byte(l+c.Intn(2)*c.Intn(200)))
			out = append(out, c.Bytes(l)...)
		case 4:
			out = append(out, byte(neovm.PUSHDATA2+neovm.OpCode(c.Intn(2)*1)))
			out = append(out, c.Bytes(c.Intn(6))...)
		default:
			out = append(out, c.Bytes(c.Intn(5))...)
		}
	}
	out = append(out, []byte{byte(neovm.CHECKSIG), byte(neovm.CHECKMULTISIG), byte(c.Intn(256))}[c.Intn(3)])
	return out
}

func (d *drv) randBuildOps() []buildOp {
	c := d.c
	var ops []buildOp
	for i, n := 0, 1+c.Intn(4); i < n; i++ {
		switch c.Intn(3) {
		case 0:
			v := []uint64{0, 1, 2, 15, 16, 17, 18, 127, 128, 129, 255, 256, 257, 32767, 32768, 65535}[c.Intn(16)]
			if c.Intn(4) == 0 {
				v = uint64(c.Intn(65536))
			}
			ops = append(ops, buildOp{Op: "num", V: v})
		case 1:
			l := []int{0, 1, 2, 33, 35, 66, 74, 75, 76, 77, 254, 255, 256, 257, 300}[c.Intn(15)]
			if c.Intn(3) == 0 {
				l = 1 + c.Intn(90)
			}
			ops = append(ops, buildOp{Op: "bytes", D: hx.Hex(d.data(l))})
		default:
			ops = append(ops, buildOp{Op: "op", V: uint64(c.Intn(256))})
		}
	}
	return ops
}

func (d *drv) keysFromSers(ss []string) []*key {
	var out []*key
	for _, s := range ss {
		pk, err, pp, _ := safeDeser(hx.UnHex(s))
		if pp || err != nil {
			panic(fmt.Sprintf("replay: bad key %s: %v", s, err))
		}
		out = append(out, keyOf(pk))
	}
	return out
}

func (d *drv) replay(in input) {
	switch in.Kind {
	case "build":
		d.doBuild(in.Ops)
	case "buildbig":
		d.doBuildBig(byte(in.Ops[0].V), in.Ops[0].N, in.Ops[1].V)
	case "sort":
		d.doSort(d.keysFromSers(in.Keys))
	case "single":
		d.doSingle(d.keysFromSers(in.Keys)[0])
	case "multi", "addrmulti":
		d.doMulti(d.keysFromSers(in.Keys), in.M)
	case "perm":
		d.doMulti(d.keysFromSers(in.Keys), in.M)
		d.doMulti(d.keysFromSers(in.Keys2), in.M)
	case "raw":
		d.doRaw(uint16(in.M), d.keysFromSers(in.Keys), uint16(in.N))
	case "info":
		d.doInfo(hx.UnHex(in.Prog), "replay")
	case "param":
		d.doParam(hx.UnHex(in.Prog), "replay")
	case "params":
		var s [][]byte
		for _, x := range in.Sigs {
			s = append(s, hx.UnHex(x))
		}
		d.doParams(s)
	case "addrpub":
		d.doAddrPub(d.keysFromSers(in.Keys)[0])
	case "addrbook":
		d.doAddrBook(d.keysFromSers(in.Keys))
	case "keyhyp":
		d.keyHypotheses()
	case "history":
		for i := range in.Steps {
			in.Steps[i].ks = d.keysFromSers(in.Steps[i].Keys)
		}
		d.runSteps(in.Steps, false)
	case "concurrent":
		var sets [][]*key
		var ms []int64
		for _, e := range in.Extra {
			var m int64
			fmt.Sscan(e[0], &m)
			ms = append(ms, m)
			sets = append(sets, d.keysFromSers(e[1:]))
		}
		d.doConcurrent(sets, ms, in.Note == "reused-buffers")
	}
}

func Run(c *hx.Ctx) {
	c.CoqModule("Corr.C23")
	d := &drv{c: c}
	var rin input
	if c.ReplayInput(&rin) && rin.Kind != "" {
		d.p = &pool{byName: map[string]*key{}}
		d.guard("replay", input{Kind: "step", Note: "replay"}, func() { d.replay(rin) })
		return
	}
	d.p = buildPool(c)
	for _, k := range d.p.keys {
		c.CoqHeader(fmt.Sprintf("Definition %s : pubkey := %s.", k.name, k.coqFull()))
		c.Count("pool:" + k.kind)
	}
	for _, raw := range c.CorpusInputs() {
		var in input
		if json.Unmarshal(raw, &in) == nil && in.Kind != "" {
			d.guard("replay", input{Kind: "step", Note: "replay"}, func() { d.replay(in) })
		}
	}
	d.guard("keyHypotheses", input{Kind: "step", Note: "keyHypotheses"}, func() { d.keyHypotheses() })

	// 1. every key of the pool alone (all key types)
	for _, k := range d.p.keys {
		d.guard("doSingle", input{Kind: "step", Note: "doSingle"}, func() { d.doSingle(k) })
	}
	// 2. the builder
	for i, n := 0, c.N(120, 1200); i < n; i++ {
		d.guard("doBuild", input{Kind: "step", Note: "doBuild"}, func() { d.doBuild(d.randBuildOps()) })
	}
	d.guard("doBuildBig", input{Kind: "step", Note: "doBuildBig"}, func() { d.doBuildBig(byte(c.Intn(256)), 65535, uint64(c.Intn(65536))) })
	d.guard("doBuildBig", input{Kind: "step", Note: "doBuildBig"}, func() { d.doBuildBig(byte(c.Intn(256)), 65536+c.Intn(3), uint64(c.Intn(65536))) })
	// 3. sorting, including duplicates, twins and more than 16 keys
	for i, n := 0, c.N(100, 1000); i < n; i++ {
		sz := []int{0, 1, 2, 2, 3, 4, 5, 8, 12, 13, 16, 17, 24}[c.Intn(13)]
		d.guard("doSort", input{Kind: "step", Note: "doSort"}, func() { d.doSort(d.pick(sz, c.Intn(3) == 0)) })
	}
	// 4. m-of-n: all n in 0..18 with m around the boundaries, then random
	for n := 0; n <= 18; n++ {
		ks := d.pick(n, false)
		for _, m := range []int64{-1, 0, 1, int64(n) - 1, int64(n), int64(n) + 1, 65536 + 1, 65536 + int64(n)} {
			if n > 4 && n < 15 && m != 1 && m != int64(n) && m != 0 && c.Intn(3) != 0 {
				continue
			}
			d.guard("doMulti", input{Kind: "step", Note: "doMulti"}, func() { d.doMulti(ks, m) })
		}
	}
	for i, n := 0, c.N(70, 900); i < n; i++ {
		sz := 2 + c.Intn(15)
		d.guard("doMulti", input{Kind: "step", Note: "doMulti"}, func() { d.doMulti(d.pick(sz, c.Intn(6) == 0), int64(1+c.Intn(sz))) })
	}
	// 5. hand-assembled scripts declaring (m, n): the grid around the valid region, then random
	for n := 0; n <= 18; n++ {
		ks := d.pick(n, false)
		for _, m := range []int{0, 1, n, n + 1, 17} {
			if n > 4 && n < 15 && c.Intn(2) == 0 {
				continue
			}
			d.guard("doRaw", input{Kind: "step", Note: "doRaw"}, func() { d.doRaw(uint16(m), ks, uint16(n)) })
		}
	}
	for i, n := 0, c.N(60, 700); i < n; i++ {
		sz := c.Intn(19)
		ks := d.pick(sz, c.Intn(6) == 0)
		m := c.Intn(sz + 3)
		nn := sz
		if c.Intn(3) == 0 {
			nn = c.Intn(20)
		}
		if c.Intn(12) == 0 {
			m = []int{255, 256, 32768, 65535, 128}[c.Intn(5)]
		}
		d.guard("doRaw", input{Kind: "step", Note: "doRaw"}, func() { d.doRaw(uint16(m), ks, uint16(nn)) })
	}
	// 6. crafted, mutated and random scripts
	var valid [][]byte
	for i := 0; i < 12; i++ {
		sz := 2 + c.Intn(5)
		if pr, err, _, _ := buildMulti(d.pick(sz, false), 1+c.Intn(sz)); err == nil {
			valid = append(valid, pr)
		}
		if pr, pp, _ := safeProgPub(d.p.keys[c.Intn(len(d.p.keys))].pub); !pp {
			valid = append(valid, pr)
		}
	}
	for i, n := 0, c.N(330, 4500); i < n; i++ {
		switch i % 3 {
		case 0:
			d.guard("doInfo", input{Kind: "step", Note: "doInfo"}, func() { d.doInfo(d.crafted(), "crafted") })
		case 1:
			pr := d.mutate(valid[c.Intn(len(valid))])
			if c.Intn(4) == 0 {
				pr = d.mutate(pr)
			}
			d.guard("doInfo", input{Kind: "step", Note: "doInfo"}, func() { d.doInfo(pr, "mutated") })
		default:
			d.guard("doInfo", input{Kind: "step", Note: "doInfo"}, func() { d.doInfo(d.randomScript(), "random") })
		}
	}
	// 7. parameter scripts
	for i, n := 0, c.N(40, 400); i < n; i++ {
		var sigs [][]byte
		for j, k := 0, c.Intn(5); j < k; j++ {
			sigs = append(sigs, d.data([]int{0, 1, 64, 65, 75, 76, 255, 256, 300}[c.Intn(9)]))
		}
		d.guard("doParams", input{Kind: "step", Note: "doParams"}, func() { d.doParams(sigs) })
	}
	for i, n := 0, c.N(120, 1500); i < n; i++ {
		switch i % 3 {
		case 0:
			d.guard("doParam", input{Kind: "step", Note: "doParam"}, func() { d.doParam(d.randomScript(), "random") })
		case 1:
			var pr []byte
			hx.Recover(func() { pr = program.ProgramFromParams([][]byte{d.data(64), d.data(1 + c.Intn(80))}) })
			d.guard("doParam", input{Kind: "step", Note: "doParam"}, func() { d.doParam(d.mutate(pr), "mutated") })
		default:
			b := c.Bytes(c.Intn(12))
			if len(b) > 0 {
				b[0] = []byte{0x4c, 0x4d, 0x4e, 1, 2, 75}[c.Intn(6)]
			}
			d.guard("doParam", input{Kind: "step", Note: "doParam"}, func() { d.doParam(b, "random") })
		}
	}
	// 8. bookkeeper addresses
	for n := 0; n <= 18; n++ {
		d.guard("doAddrBook", input{Kind: "step", Note: "doAddrBook"}, func() { d.doAddrBook(d.pick(n, false)) })
		if n > 0 && n < 8 {
			d.guard("doAddrBook", input{Kind: "step", Note: "doAddrBook"}, func() { d.doAddrBook(d.pick(n, true)) })
		}
	}
	// 9. call histories: results must not depend on earlier calls or on slice reuse
	d.guard("doHistories", input{Kind: "step", Note: "doHistories"}, func() { d.doHistories() })
}
