package c15

import (
	"fmt"
	"strings"

	"github.com/ontio/ontology/common"
	"github.com/ontio/ontology/vm/neovm"

	"verif/harness/hx"
)

// Ins is one instruction of the modelled fragment (Model/VmMapExec.v: instr).
type Ins struct {
	Op string `json:"op"`
	Z  int64  `json:"z,omitempty"` // pushint: -1..16
	B  string `json:"b,omitempty"` // pushbytes: hex, 1..75 bytes
}

type Prog []Ins

func I(op string) Ins            { return Ins{Op: op} }
func PushInt(z int64) Ins        { return Ins{Op: "pushint", Z: z} }
func PushBytes(b []byte) Ins     { return Ins{Op: "pushbytes", B: hx.Hex(b)} }
func (p Prog) add(q ...Ins) Prog { return append(p, q...) }

var simpleOps = map[string]neovm.OpCode{
	"newmap": neovm.NEWMAP, "newarray": neovm.NEWARRAY, "dup": neovm.DUP, "swap": neovm.SWAP, "drop": neovm.DROP,
	"over": neovm.OVER, "pick": neovm.PICK, "toalt": neovm.TOALTSTACK, "fromalt": neovm.FROMALTSTACK,
	"dupfromalt": neovm.DUPFROMALTSTACK, "setitem": neovm.SETITEM, "append": neovm.APPEND, "pickitem": neovm.PICKITEM,
	"remove": neovm.REMOVE, "haskey": neovm.HASKEY, "keys": neovm.KEYS, "values": neovm.VALUES, "arraysize": neovm.ARRAYSIZE,
}

var coqOps = map[string]string{
	"newmap": "INewMap", "newarray": "INewArray", "dup": "IDup", "swap": "ISwap", "drop": "IDrop", "over": "IOver",
	"pick": "IPick", "toalt": "IToAlt", "fromalt": "IFromAlt", "dupfromalt": "IDupFromAlt", "setitem": "ISetItem",
	"append": "IAppend", "pickitem": "IPickItem", "remove": "IRemove", "haskey": "IHasKey", "keys": "IKeys",
	"values": "IValues", "arraysize": "IArraySize", "serialize": "ISerialize", "notify": "INotify", "put": "IPut",
}

const (
	sysSerialize  = "System.Runtime.Serialize"
	sysNotify     = "System.Runtime.Notify"
	sysGetContext = "System.Storage.GetContext"
	sysPut        = "System.Storage.Put"
)

func syscall(name string) []byte {
	sink := common.NewZeroCopySink(nil)
	sink.WriteByte(byte(neovm.SYSCALL))
	sink.WriteVarBytes([]byte(name))
	return sink.Bytes()
}

// Compile renders the program as NeoVM byte code.
func (p Prog) Compile() ([]byte, error) {
	var code []byte
	for _, in := range p {
		switch in.Op {
		case "pushint":
			switch {
			case in.Z == -1:
				code = append(code, byte(neovm.PUSHM1))
			case in.Z == 0:
				code = append(code, byte(neovm.PUSH0))
			case in.Z >= 1 && in.Z <= 16:
				code = append(code, byte(neovm.PUSH1)+byte(in.Z-1))
			default:
				return nil, fmt.Errorf("pushint %d not encodable", in.Z)
			}
		case "pushbytes":
			b := hx.UnHex(in.B)
			if len(b) < 1 || len(b) > 75 {
				return nil, fmt.Errorf("pushbytes of %d bytes not encodable", len(b))
			}
			code = append(code, byte(len(b)))
			code = append(code, b...)
		case "serialize":
			code = append(code, syscall(sysSerialize)...)
		case "notify":
			code = append(code, syscall(sysNotify)...)
		case "put":
			code = append(code, syscall(sysGetContext)...)
			code = append(code, syscall(sysPut)...)
		default:
			op, ok := simpleOps[in.Op]
			if !ok {
				return nil, fmt.Errorf("unknown op %q", in.Op)
			}
			code = append(code, byte(op))
		}
	}
	return code, nil
}

// Coq renders the program as a term of type [list instr].
func (p Prog) Coq() string {
	items := make([]string, len(p))
	for i, in := range p {
		switch in.Op {
		case "pushint":
			items[i] = "IPushInt " + hx.CoqZ(in.Z)
		case "pushbytes":
			items[i] = "IPushBytes " + hx.CoqBytes(hx.UnHex(in.B))
		default:
			items[i] = coqOps[in.Op]
		}
	}
	return "[" + strings.Join(items, "; ") + "]"
}

func (p Prog) String() string {
	parts := make([]string, len(p))
	for i, in := range p {
		switch in.Op {
		case "pushint":
			parts[i] = fmt.Sprintf("push%d", in.Z)
		case "pushbytes":
			parts[i] = "push0x" + in.B
		default:
			parts[i] = in.Op
		}
	}
	return strings.Join(parts, " ")
}

// ---------------------------------------------------------------- program building blocks

// wrapInArray: stack [x ..] -> [[x] ..] (a new one-element array holding the top value).
func wrapInArray() Prog {
	return Prog{PushInt(0), I("newarray"), I("toalt"), I("dupfromalt"), I("swap"), I("append"), I("fromalt")}
}

// chain: stack [x ..] -> a first-element chain of n nested one-element arrays around x.
func chain(n int) Prog {
	var p Prog
	for i := 0; i < n; i++ {
		p = p.add(wrapInArray()...)
	}
	return p
}

// setFromAlt: the container is on top of the alt stack, the value on top of the evaluation stack:
// container[key] = value (SETITEM wants item, index, value with the value on top).
func setFromAlt(key Ins) Prog {
	return Prog{I("dupfromalt"), I("swap"), key, I("swap"), I("setitem")}
}
