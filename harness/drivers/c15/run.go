package c15

import (
	"bytes"
	"encoding/json"
	"fmt"
	"math/big"
	"sort"
	"strings"

	"github.com/ontio/ontology/common"
	"github.com/ontio/ontology/core/payload"
	"github.com/ontio/ontology/core/states"
	scommon "github.com/ontio/ontology/core/store/common"
	"github.com/ontio/ontology/core/store/leveldbstore"
	"github.com/ontio/ontology/core/store/overlaydb"
	ctypes "github.com/ontio/ontology/core/types"
	"github.com/ontio/ontology/smartcontract"
	sneovm "github.com/ontio/ontology/smartcontract/service/neovm"
	"github.com/ontio/ontology/smartcontract/storage"
	vmtypes "github.com/ontio/ontology/vm/neovm/types"

	"verif/harness/hx"
)

// obsDepth = Model/VmMapExec.v: obs_depth
const obsDepth = 5

// OT is the observed shape of the returned value (Model/VmMapExec.v: otree).
type OT struct {
	K string  `json:"k"`           // int | big | bool | bytes | arr | map | other | cut
	V string  `json:"v,omitempty"` // decimal number, "true"/"false", hex bytes
	L []*OT   `json:"l,omitempty"`
	M []OTEnt `json:"m,omitempty"` // sorted by key image
}

type OTEnt struct {
	Img string `json:"img"` // GetMapKey of the stored key, hex
	Key *OT    `json:"key"`
	Val *OT    `json:"val"`
}

// NT is a notification payload: nested lists of hex strings.
type NT struct {
	S string `json:"s,omitempty"`
	L []*NT  `json:"l,omitempty"`
	A bool   `json:"a,omitempty"` // list (possibly empty)
}

// Outcome is what one invocation shows to its caller.
type Outcome struct {
	Fault  string      `json:"fault,omitempty"` // enum name (Model: fault), "" = halted normally
	Msg    string      `json:"msg,omitempty"`   // the raw error text
	Ret    *OT         `json:"ret,omitempty"`
	Notes  []*NT       `json:"notes,omitempty"`
	Writes [][2]string `json:"writes,omitempty"` // storage write set: (key, value) hex, sorted by key
	Panic  string      `json:"panic,omitempty"`
}

// Key identifies an outcome for the determinism oracle: everything the caller can see.
func (o Outcome) Key() string {
	b, _ := json.Marshal(o)
	return string(b)
}

func observePrim(v *vmtypes.VmValue) *OT {
	kind, num := v.VerifKind()
	switch kind {
	case "int":
		return &OT{K: "int", V: num.String()}
	case "bigint":
		return &OT{K: "big", V: num.String()}
	case "bool":
		return &OT{K: "bool", V: fmt.Sprint(num.Sign() != 0)}
	case "bytes":
		b, _ := v.AsBytes()
		return &OT{K: "bytes", V: hx.Hex(b)}
	}
	return nil
}

func observe(v *vmtypes.VmValue, fuel int) *OT {
	if fuel == 0 {
		return &OT{K: "cut"}
	}
	if p := observePrim(v); p != nil {
		return p
	}
	switch v.GetType() {
	case vmtypes.ArrayType:
		arr, _ := v.AsArrayValue()
		t := &OT{K: "arr"}
		for i := range arr.Data {
			t.L = append(t.L, observe(&arr.Data[i], fuel-1))
		}
		return t
	case vmtypes.MapType:
		mp, _ := v.AsMapValue()
		t := &OT{K: "map"}
		var keys []string
		for k := range mp.Data {
			keys = append(keys, k)
		}
		sort.Strings(keys)
		for _, k := range keys {
			e := mp.Data[k]
			t.M = append(t.M, OTEnt{Img: hx.Hex([]byte(k)), Key: observe(&e[0], 1), Val: observe(&e[1], fuel-1)})
		}
		return t
	}
	return &OT{K: "other"}
}

func observeNote(x interface{}) *NT {
	switch t := x.(type) {
	case string:
		return &NT{S: t}
	case []interface{}:
		n := &NT{A: true}
		for _, e := range t {
			n.L = append(n.L, observeNote(e))
		}
		return n
	case nil:
		return &NT{A: true}
	}
	return &NT{S: fmt.Sprintf("?%T", x)}
}

// faultName maps the error of Invoke to the model's fault enum.
func faultName(err error) string {
	s := err.Error()
	has := func(x string) bool { return strings.Contains(s, x) }
	switch {
	case has("can not serialize circular reference data"):
		return "FSer ECircular"
	case has("can not serialize length over the uplimit"):
		return "FSer ESize"
	case has("not support type: interopType"):
		return "FSer EInterop"
	case has("[ConvertTypes] Invalid Types") || has("over max parameters convert length"):
		return "FNotify"
	case has("Storage key to long"):
		return "FPutKeyLen"
	case has("APPEND error, unknown datatype"):
		return "FAppendType"
	case has("[REMOVE] not support datatype"):
		return "FRemoveType"
	case has("the index out of bound"):
		return "FIndex"
	case has("the count over the stack length"):
		return "FOverStack"
	case has("bad type"):
		return "FBadType"
	case has("bad value"):
		return "FBadValue"
	case has("map not contain key"):
		return "FMapNotExist"
	case has("the array over max size"):
		return "FArraySize"
	case has("the biginteger over max size"):
		return "FIntSize"
	case has("integer underflow"):
		return "FIntUnderflow"
	case has("the item over max size"):
		return "FItemSize"
	}
	return "?"
}

var gasTable = map[string]uint64{sneovm.STORAGE_PUT_NAME: 4000}

// baseStore is the (empty, never written: no overlay is committed into it) persistent store below
// every run's fresh overlay; creating a goleveldb instance per run would dominate the run time.
var baseStore *leveldbstore.LevelDBStore

type env struct {
	sc    *smartcontract.SmartContract
	ov    *overlaydb.OverlayDB
	cache *storage.CacheDB
}

// newEnv: fresh in-memory state in which the code itself is a deployed contract (StoragePut checks
// that), and a fresh SmartContract.
func newEnv(code []byte) *env {
	if baseStore == nil {
		baseStore = leveldbstore.NewMemLevelDBStore()
	}
	ov := overlaydb.NewOverlayDB(baseStore)
	cache := storage.NewCacheDB(ov)
	dc, err := payload.NewDeployCode(code, payload.NEOVM_TYPE, "c15", "1", "a", "e", "d")
	if err != nil {
		panic(err)
	}
	cache.PutContract(dc)
	cache.Commit()
	sc := &smartcontract.SmartContract{
		Config:   &smartcontract.Config{Time: 10, Height: 1 << 30, Tx: &ctypes.Transaction{}},
		Gas:      1 << 50,
		CacheDB:  cache,
		GasTable: gasTable,
	}
	return &env{sc: sc, ov: ov, cache: cache}
}

// invokeRaw runs the code in a fresh engine and returns the live value left on top of the stack.
func invokeRaw(code []byte) (v *vmtypes.VmValue, err error) {
	p, msg := hx.Recover(func() {
		e := newEnv(code)
		engine, err2 := e.sc.NewExecuteEngine(code, ctypes.InvokeNeo)
		if err2 != nil {
			panic(err2)
		}
		res, err2 := engine.Invoke()
		if err2 != nil {
			err = err2
			return
		}
		if res != nil {
			v = res.(*vmtypes.VmValue)
		}
	})
	if p {
		return nil, fmt.Errorf("panic: %s", msg)
	}
	return v, err
}

// RunOnce executes the byte code once in a fresh engine over a fresh (in-memory) state and reports
// what the caller sees.
func RunOnce(code []byte) (out Outcome) {
	p, msg := hx.Recover(func() {
		e := newEnv(code)
		engine, err := e.sc.NewExecuteEngine(code, ctypes.InvokeNeo)
		if err != nil {
			panic(err)
		}
		res, err := engine.Invoke()
		if err != nil {
			out.Fault, out.Msg = faultName(err), err.Error()
			return
		}
		if res != nil {
			out.Ret = observe(res.(*vmtypes.VmValue), obsDepth)
		}
		for _, n := range e.sc.Notifications {
			out.Notes = append(out.Notes, observeNote(n.States))
		}
		e.cache.Commit()
		addr := common.AddressFromVmCode(code)
		prefix := append([]byte{byte(scommon.ST_STORAGE)}, addr[:]...)
		e.ov.GetWriteSet().ForEach(func(key, val []byte) {
			if !bytes.HasPrefix(key, prefix) {
				return
			}
			v, err := states.GetValueFromRawStorageItem(val)
			if err != nil {
				panic(err)
			}
			out.Writes = append(out.Writes, [2]string{hx.Hex(key[len(prefix):]), hx.Hex(v)})
		})
		sort.Slice(out.Writes, func(i, j int) bool { return out.Writes[i][0] < out.Writes[j][0] })
	})
	if p {
		out = Outcome{Panic: msg}
	}
	return out
}

func jsonUnmarshal(raw []byte, v interface{}) error { return json.Unmarshal(raw, v) }

// ---------------------------------------------------------------- Coq rendering of an outcome

func coqPrimOT(t *OT) string {
	switch t.K {
	case "int":
		z, _ := new(big.Int).SetString(t.V, 10)
		return "PInt " + hx.CoqZBig(z)
	case "big":
		z, _ := new(big.Int).SetString(t.V, 10)
		return "PBig " + hx.CoqZBig(z)
	case "bool":
		return "PBool " + hx.CoqBool(t.V == "true")
	case "bytes":
		return "PBytes " + hx.CoqBytes(hx.UnHex(t.V))
	}
	return ""
}

func (t *OT) coq() string {
	switch t.K {
	case "int", "big", "bool", "bytes":
		return "OPrimT (" + coqPrimOT(t) + ")"
	case "arr":
		items := make([]string, len(t.L))
		for i, x := range t.L {
			items[i] = x.coq()
		}
		return "OArrT " + hx.CoqList(items)
	case "map":
		items := make([]string, len(t.M))
		for i, e := range t.M {
			items[i] = "(" + coqPrimOT(e.Key) + ", " + e.Val.coq() + ")"
		}
		return "OMapT " + hx.CoqList(items)
	case "cut":
		return "OCut"
	}
	return "OOther"
}

func (n *NT) coq() string {
	if n.A {
		items := make([]string, len(n.L))
		for i, x := range n.L {
			items[i] = x.coq()
		}
		return "NList " + hx.CoqList(items)
	}
	return "NStr " + hx.CoqBytes(hx.UnHex(n.S))
}

// coq renders the outcome as a term of type [outcome]; ok=false when it has no counterpart in the
// model (panic, unclassified error).
func (o Outcome) coq() (string, bool) {
	if o.Panic != "" || o.Fault == "?" {
		return "", false
	}
	if o.Fault != "" {
		return "OFault (" + o.Fault + ")", true
	}
	ret := "None"
	if o.Ret != nil {
		ret = "(Some (" + o.Ret.coq() + "))"
	}
	notes := make([]string, len(o.Notes))
	for i, n := range o.Notes {
		notes[i] = n.coq()
	}
	ws := make([]string, len(o.Writes))
	for i, w := range o.Writes {
		ws[i] = "(" + hx.CoqBytes(hx.UnHex(w[0])) + ", " + hx.CoqBytes(hx.UnHex(w[1])) + ")"
	}
	return "OHalt " + ret + " " + hx.CoqList(notes) + " " + hx.CoqList(ws), true
}
