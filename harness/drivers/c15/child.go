package c15

import (
	"bufio"
	"bytes"
	"context"
	"encoding/json"
	"fmt"
	"os"
	"os/exec"
	"time"

	"verif/harness/hx"
)

// Fresh processes: the harness binary re-executed with VERIF_C15_CHILD=1 reads a JSON list of byte
// codes (hex) on stdin, runs each once in a fresh engine and prints one outcome per line. Go seeds
// its map iteration randomisation per process, so this is the "same invocation on another node /
// after a restart" part of the property; the in-process repetitions cover "any number of times".

const childEnv = "VERIF_C15_CHILD"

func init() {
	if os.Getenv(childEnv) == "" {
		return
	}
	var codes []string
	if err := json.NewDecoder(bufio.NewReaderSize(os.Stdin, 1<<20)).Decode(&codes); err != nil {
		fmt.Fprintln(os.Stderr, "c15 child: bad input:", err)
		os.Exit(3)
	}
	w := bufio.NewWriter(os.Stdout)
	for _, c := range codes {
		b, _ := json.Marshal(RunOnce(hx.UnHex(c)))
		w.Write(b)
		w.WriteByte('\n')
	}
	w.Flush()
	os.Exit(0)
}

// runInChild runs every code once in ONE fresh process; nil on failure of the child.
func runInChild(codes [][]byte, timeout time.Duration) ([]Outcome, error) {
	self, err := os.Executable()
	if err != nil {
		return nil, err
	}
	hexes := make([]string, len(codes))
	for i, c := range codes {
		hexes[i] = hx.Hex(c)
	}
	in, _ := json.Marshal(hexes)
	ctx, cancel := context.WithTimeout(context.Background(), timeout)
	defer cancel()
	cmd := exec.CommandContext(ctx, self)
	cmd.Env = append(os.Environ(), childEnv+"=1")
	cmd.Stdin = bytes.NewReader(in)
	var stdout, stderr bytes.Buffer
	cmd.Stdout = &stdout
	cmd.Stderr = &stderr
	if err := cmd.Run(); err != nil {
		return nil, fmt.Errorf("child: %v: %s", err, stderr.String())
	}
	var out []Outcome
	sc := bufio.NewScanner(&stdout)
	sc.Buffer(make([]byte, 1<<20), 1<<26)
	for sc.Scan() {
		var o Outcome
		if err := json.Unmarshal(sc.Bytes(), &o); err != nil {
			return nil, err
		}
		out = append(out, o)
	}
	if len(out) != len(codes) {
		return nil, fmt.Errorf("child answered %d of %d", len(out), len(codes))
	}
	return out, nil
}
