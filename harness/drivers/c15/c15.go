package c15

import (
	"fmt"
	"os"

	_ "verif/harness/drivers/c14" // Gen/VmValueConsts.v producer (Model/VmMapOrder.v builds on Model/VmValue.v)
	"verif/harness/hx"
)

func init() { hx.Register("C15", Run) }

func witness(n int) Prog {
	p := Prog{PushInt(7)}
	p = p.add(chain(n)...)
	p = p.add(I("newmap"), I("toalt"))
	p = p.add(setFromAlt(PushInt(1))...)
	p = p.add(PushInt(0))
	p = p.add(setFromAlt(PushInt(2))...)
	p = p.add(I("fromalt"), I("serialize"))
	return p
}

func Run(c *hx.Ctx) {
	c.CoqModule("Corr.C15")
	for _, n := range []int{9, 10, 11} {
		p := witness(n)
		code, err := p.Compile()
		if err != nil {
			panic(err)
		}
		seen := map[string]int{}
		for i := 0; i < 64; i++ {
			seen[RunOnce(code).Key()]++
		}
		for k, v := range seen {
			fmt.Fprintln(os.Stderr, n, v, k)
		}
	}
	p := Prog{I("newmap"), I("dup"), PushInt(3), PushBytes([]byte{1, 2}), I("setitem"), I("dup"), PushBytes([]byte{9}), PushInt(5), I("setitem"),
		I("dup"), I("keys"), I("notify"), I("dup"), I("values"), I("notify"), I("dup"), I("serialize"), PushBytes([]byte("k")), I("put")}
	code, _ := p.Compile()
	o := RunOnce(code)
	fmt.Fprintln(os.Stderr, o.Key())
	s, _ := o.coq()
	fmt.Fprintln(os.Stderr, s)
}
