// Package c15: contract execution results do not depend on Go map iteration order.
//
// Programs of the modelled NeoVM fragment (Model/VmMapExec.v) are compiled to byte code and invoked
// through smartcontract.SmartContract / NeoVmService.Invoke, each `Repeats` times in fresh engines
// over fresh state (a subset additionally in fresh processes). ORACLE: all invocations of one
// program must show the same outcome (success/failure and error text, returned value,
// notifications, storage write set). CORRESPONDENCE: the distinct outcomes of every program go to
// Coq, which requires them to be possible in the model, and to be exactly the model's single
// outcome when the program is outside the finding class.
package c15

import (
	"fmt"
	"os"
	"sort"
	"time"

	"github.com/ontio/ontology/common/log"
	vmtypes "github.com/ontio/ontology/vm/neovm/types"

	_ "verif/harness/drivers/c14" // Gen/VmValueConsts.v producer (Model/VmMapOrder.v builds on Model/VmValue.v)
	"verif/harness/hx"
)

func init() {
	log.InitLog(log.FatalLog, os.Stderr) // ConvertNeoVmValueHexString logs every refused value
	hx.Register("C15", Run)
}

const (
	// in-process repetitions per program ("each run 64x in fresh engines")
	Repeats = 64
	// Coq-side bound on the nesting of Serialize (Model: fuel)
	coqFuel = 24
	// finding class of the unrepaired detector (F4), as listed in known_findings.d/C15.json
	classDetector = "maporder:cycle-detector-first-entry"
	classOther    = "maporder:other"
	// the program W15_prog of Props/C15.v
	witnessName = "witness-chain10"
)

// Input is one generated (or replayed) test input.
type Input struct {
	Kind string `json:"kind"` // run | stringify
	Name string `json:"name"` // generator family
	Prog Prog   `json:"prog"`
	// how Prog was generated, for a compact Coq case (Corr/C15.v expands the same generators):
	// BigN > 0: Prog = buildMap(BigN) ++ Tail; QuadR > 0: Prog = Head ++ QuadR x quadruple ++ Tail
	BigN  int  `json:"big_n,omitempty"`
	QuadR int  `json:"quad_r,omitempty"`
	Head  Prog `json:"head,omitempty"`
	Tail  Prog `json:"tail,omitempty"`
}

// buildMap = Corr/C15.v: build_map. A new map with n distinct 2-byte keys (key i = 7919*i mod 2^16,
// little endian), value i mod 16, left on the evaluation stack.
func buildMap(n int) Prog {
	p := Prog{I("newmap"), I("toalt")}
	for i := 0; i < n; i++ {
		k := (i * 7919) % 65536
		p = p.add(PushInt(int64(i % 16))).add(setFromAlt(PushBytes([]byte{byte(k % 256), byte(k / 256)}))...)
	}
	return p.add(I("fromalt"))
}

// quadruple = Corr/C15.v: quadruple. [x ..] -> [Serialize [x, x, x, x] ..]
func quadruple() Prog {
	p := Prog{I("dup"), I("dup"), I("dup"), PushInt(0), I("newarray"), I("toalt")}
	for i := 0; i < 4; i++ {
		p = p.add(appendFromAlt()...)
	}
	return p.add(I("fromalt"), I("serialize"))
}

func bigInput(n int, tail Prog) Input {
	return Input{Kind: "run", Name: fmt.Sprintf("big-map-%d", n), Prog: buildMap(n).add(tail...), BigN: n, Tail: tail}
}

func quadInput(name string, head Prog, r int, tail Prog) Input {
	p := append(Prog{}, head...)
	for i := 0; i < r; i++ {
		p = p.add(quadruple()...)
	}
	return Input{Kind: "run", Name: name, Prog: p.add(tail...), QuadR: r, Head: head, Tail: tail}
}

// ---------------------------------------------------------------- generators

type pgen struct{ c *hx.Ctx }

func (g *pgen) n(k int) int { return g.c.Intn(k) }

// prim: a primitive push.
func (g *pgen) prim() Ins {
	switch g.n(4) {
	case 0:
		return PushInt(int64(g.n(18)) - 1)
	case 1:
		return PushBytes(g.c.Bytes(1 + g.n(4)))
	case 2:
		return PushBytes([]byte{byte(g.n(3))})
	}
	return PushInt(int64(g.n(4)))
}

// key: map keys, biased to collisions of the key image (GetMapKey): PInt 1 / bytes 01, PInt 0 /
// empty image vs bytes 00, prefixes of one another (sort order), negative numbers (0xff..).
func (g *pgen) key() Ins {
	pool := []Ins{PushInt(0), PushInt(1), PushInt(2), PushInt(3), PushInt(16), PushInt(-1),
		PushBytes([]byte{1}), PushBytes([]byte{0}), PushBytes([]byte{2, 0}), PushBytes([]byte{2}), PushBytes([]byte{0xff}),
		PushBytes([]byte("a")), PushBytes([]byte("ab")), PushBytes([]byte("b")), PushBytes([]byte{0x80}), PushBytes([]byte{0x7f, 1})}
	if g.n(8) == 0 {
		return PushBytes(g.c.Bytes(1 + g.n(3)))
	}
	return pool[g.n(len(pool))]
}

func appendFromAlt() Prog { return Prog{I("dupfromalt"), I("swap"), I("append")} }

// value leaves one acyclic value on the evaluation stack (sub-values may be shared).
func (g *pgen) value(depth int) Prog {
	if depth <= 0 || g.n(10) < 3 {
		return Prog{g.prim()}
	}
	switch g.n(10) {
	case 0, 1, 2: // array built by APPEND
		p := Prog{PushInt(0), I("newarray"), I("toalt")}
		for i, n := 0, g.n(4); i < n; i++ {
			p = p.add(g.value(depth - 1)...).add(appendFromAlt()...)
		}
		return p.add(I("fromalt"))
	case 3: // NEWARRAY n (default elements), one element overwritten
		n := 1 + g.n(4)
		p := Prog{PushInt(int64(n)), I("newarray"), I("toalt")}
		p = p.add(g.value(depth - 1)...).add(setFromAlt(PushInt(int64(g.n(n))))...)
		return p.add(I("fromalt"))
	case 4: // the same object twice
		p := g.value(depth-1).add(I("dup"), PushInt(0), I("newarray"), I("toalt"))
		p = p.add(appendFromAlt()...).add(appendFromAlt()...)
		return p.add(I("fromalt"))
	default: // map
		p := Prog{I("newmap"), I("toalt")}
		for i, n := 0, g.n(5); i < n; i++ {
			p = p.add(g.value(depth - 1)...).add(setFromAlt(g.key())...)
		}
		return p.add(I("fromalt"))
	}
}

// mapValue leaves a map with n entries on the evaluation stack and returns the keys it used.
func (g *pgen) mapValue(n, depth int) (Prog, []Ins) {
	p := Prog{I("newmap"), I("toalt")}
	var keys []Ins
	for i := 0; i < n; i++ {
		k := g.key()
		keys = append(keys, k)
		p = p.add(g.value(depth)...).add(setFromAlt(k)...)
	}
	return p.add(I("fromalt")), keys
}

// ops: what a contract does with the container on top of the stack.
func (g *pgen) ops(keys []Ins) Prog {
	pick := func() Ins {
		if len(keys) > 0 && g.n(4) != 0 {
			return keys[g.n(len(keys))]
		}
		return g.key()
	}
	var p Prog
	for i, n := 0, 1+g.n(4); i < n; i++ {
		switch g.n(16) {
		case 0:
			p = p.add(I("dup"), I("keys"), I("notify"))
		case 1:
			p = p.add(I("dup"), I("values"), I("notify"))
		case 2:
			p = p.add(I("dup"), I("serialize"), I("notify"))
		case 3, 4:
			p = p.add(I("dup"), I("serialize"), PushBytes([]byte{byte('k' + g.n(2))}), I("put"))
		case 5:
			p = p.add(I("dup"), pick(), I("haskey"), I("notify"))
		case 6:
			p = p.add(I("dup"), pick(), I("pickitem"), I("notify"))
		case 7:
			p = p.add(I("dup"), pick(), I("remove"))
		case 8:
			p = p.add(I("dup"), pick(), g.prim(), I("setitem"))
		case 9:
			p = p.add(I("dup"), I("keys"), I("arraysize"), I("notify"))
		case 10:
			p = p.add(I("dup"), I("values"), I("serialize"), PushBytes([]byte("v")), I("put"))
		case 11:
			p = p.add(I("dup"), I("keys"), I("serialize"), PushBytes([]byte("q")), I("put"))
		case 12:
			p = p.add(I("dup"), I("values"), PushInt(0), I("pickitem"), I("notify"))
		case 13:
			p = p.add(I("dup"), I("arraysize"))
		case 14:
			p = p.add(I("dup"), I("dup"), pick(), I("swap"), I("setitem"), I("dup"), I("keys"), I("notify")) // m[k] = m, then KEYS
		default:
			p = p.add(I("dup"), I("keys"), I("swap"), I("values"), I("drop"))
		}
	}
	switch g.n(5) {
	case 0:
		p = p.add(I("keys"))
	case 1:
		p = p.add(I("values"))
	case 2:
		p = p.add(I("serialize"))
	}
	return p
}

func wrapInMap(key Ins) Prog {
	return Prog{I("newmap"), I("toalt")}.add(setFromAlt(key)...).add(I("fromalt"))
}

// deepValue: a primitive inside n nested one-element containers (first-element chain); links are
// arrays, or single-entry maps when mapsToo.
func (g *pgen) deepValue(n int, mapsToo bool) Prog {
	p := Prog{PushInt(7)}
	for i := 0; i < n; i++ {
		if mapsToo && g.n(3) == 0 {
			p = p.add(wrapInMap(g.key())...)
		} else {
			p = p.add(wrapInArray()...)
		}
	}
	return p
}

// ambiguous: a map with one deep value (chain of n containers) and `shallow` primitive values,
// entries inserted in the given position, optionally nested into an outer array (first or second
// position), then serialized and stored / notified.
func (g *pgen) ambiguous(n, shallow, deepPos int, outer int, mapsToo bool, tail int) Prog {
	p := Prog{I("newmap"), I("toalt")}
	used := map[string]bool{}
	fresh := func() Ins {
		for {
			k := g.key()
			code, _ := Prog{k}.Compile()
			// distinct key images are needed for distinct entries; distinct instructions are a cheap
			// approximation, PInt 1 / bytes 01 style collisions just make the map smaller
			if !used[string(code)] {
				used[string(code)] = true
				return k
			}
		}
	}
	for i := 0; i <= shallow; i++ {
		if i == deepPos {
			p = p.add(g.deepValue(n, mapsToo)...).add(setFromAlt(fresh())...)
		}
		if i < shallow {
			p = p.add(g.prim()).add(setFromAlt(fresh())...)
		}
	}
	p = p.add(I("fromalt"))
	switch outer {
	case 1: // [M]
		p = p.add(wrapInArray()...)
	case 2: // [5, M]
		p = p.add(PushInt(0), I("newarray"), I("toalt"), PushInt(5)).add(appendFromAlt()...).add(appendFromAlt()...).add(I("fromalt"))
	}
	switch tail {
	case 0:
		p = p.add(I("serialize"))
	case 1:
		p = p.add(I("serialize"), PushBytes([]byte("k")), I("put"))
	case 2:
		p = p.add(I("dup"), I("serialize"), I("notify"), I("keys"))
	}
	return p
}

// selfRef: a map that contains itself under one key next to `shallow` primitive entries.
func (g *pgen) selfRef(shallow, selfPos int, tail int) Prog {
	p := Prog{I("newmap"), I("toalt")}
	for i := 0; i <= shallow; i++ {
		if i == selfPos {
			p = p.add(I("dupfromalt")).add(setFromAlt(PushInt(int64(10 + i)))...)
		}
		if i < shallow {
			p = p.add(g.prim()).add(setFromAlt(PushInt(int64(i)))...)
		}
	}
	p = p.add(I("fromalt"))
	switch tail {
	case 0:
		p = p.add(I("serialize"))
	case 1:
		p = p.add(I("dup"), I("keys"), I("notify"), I("dup"), I("values"), I("arraysize"), I("notify"))
	case 2:
		p = p.add(I("dup"), I("values"), I("notify")) // Notify refuses maps
	case 3:
		p = p.add(I("dup"), PushInt(10), I("pickitem"), PushInt(10), I("haskey"), I("notify"), I("keys"))
	}
	return p
}

// observeAlt: one observation of the map that sits on top of the alt stack (the map stays there).
func (g *pgen) observeAlt(kind int, keys []Ins) Prog {
	pick := func() Ins {
		if len(keys) > 0 && g.n(5) != 0 {
			return keys[g.n(len(keys))]
		}
		return PushBytes([]byte{byte(g.n(256))})
	}
	switch kind % 9 {
	case 0:
		return Prog{I("dupfromalt"), I("keys"), I("notify")}
	case 1:
		return Prog{I("dupfromalt"), I("values"), I("notify")}
	case 2:
		return Prog{I("dupfromalt"), I("serialize"), I("notify")}
	case 3:
		return Prog{I("dupfromalt"), I("serialize"), PushBytes([]byte{byte('a' + g.n(3))}), I("put")}
	case 4:
		return Prog{I("dupfromalt"), pick(), I("haskey"), I("notify")}
	case 5:
		return Prog{I("dupfromalt"), pick(), I("pickitem"), I("notify")}
	case 6:
		return Prog{I("dupfromalt"), I("keys"), I("arraysize"), I("notify")}
	case 7:
		return Prog{I("dupfromalt"), I("values"), I("serialize"), PushBytes([]byte("v")), I("put")}
	}
	return Prog{I("dupfromalt"), I("keys"), I("serialize"), I("notify")}
}

// distinctKeys: n keys with pairwise distinct images whose byte order is unrelated to their
// position in the result (so that keys added later interleave with the earlier ones).
func (g *pgen) distinctKeys(n int) []Ins {
	seen := map[string]bool{}
	var out []Ins
	for len(out) < n {
		var b []byte
		switch g.n(4) {
		case 0:
			b = []byte{byte(0x10 * (1 + g.n(14))), byte(g.n(3))}
		default:
			b = []byte{byte(1 + g.n(250))}
		}
		if !seen[string(b)] {
			seen[string(b)] = true
			out = append(out, PushBytes(b))
		}
	}
	return out
}

// growThenObserve: the three-step shape on ONE map object: `early` keys, an observation, `late`
// more keys (no removal in between), observations again.
func (g *pgen) growThenObserve(early, late int) Prog {
	keys := g.distinctKeys(early + late)
	p := Prog{I("newmap"), I("toalt")}
	for _, k := range keys[:early] {
		p = p.add(g.prim()).add(setFromAlt(k)...)
	}
	p = p.add(g.observeAlt(g.n(4), keys[:early])...)
	for _, k := range keys[early:] {
		p = p.add(g.prim()).add(setFromAlt(k)...)
	}
	first := g.n(3)
	p = p.add(g.observeAlt(first, keys)...)
	for i, n := 0, g.n(3); i < n; i++ {
		p = p.add(g.observeAlt(g.n(9), keys)...)
	}
	p = p.add(I("fromalt"))
	switch g.n(4) {
	case 0:
		p = p.add(I("keys"))
	case 1:
		p = p.add(I("values"))
	case 2:
		p = p.add(I("serialize"))
	}
	return p
}

// lifecycle: one map object that grows, shrinks and is overwritten, observed between the phases.
func (g *pgen) lifecycle() Prog {
	pool := g.distinctKeys(4 + g.n(9))
	var live []Ins
	p := Prog{I("newmap"), I("toalt")}
	for ph, phases := 0, 2+g.n(5); ph < phases; ph++ {
		for i, n := 0, 1+g.n(4); i < n; i++ {
			switch {
			case len(live) > 0 && g.n(5) == 0: // remove a live key (or a missing one)
				j := g.n(len(live))
				p = p.add(I("dupfromalt"), live[j], I("remove"))
				live = append(live[:j:j], live[j+1:]...)
			case len(live) > 0 && g.n(6) == 0: // overwrite
				p = p.add(g.prim()).add(setFromAlt(live[g.n(len(live))])...)
			default:
				k := pool[g.n(len(pool))]
				p = p.add(g.prim()).add(setFromAlt(k)...)
				dup := false
				for _, l := range live {
					if l.B == k.B {
						dup = true
					}
				}
				if !dup {
					live = append(live, k)
				}
			}
		}
		for i, n := 0, 1+g.n(2); i < n; i++ {
			p = p.add(g.observeAlt(g.n(9), live)...)
		}
	}
	// the same object reached through a second reference: [m, m] and a nested holder
	switch g.n(4) {
	case 0:
		p = p.add(I("dupfromalt"), I("dupfromalt"), PushInt(0), I("newarray"), I("toalt")).add(appendFromAlt()...).add(appendFromAlt()...).add(I("fromalt"), I("serialize"), I("notify"))
	case 1:
		p = p.add(I("dupfromalt")).add(wrapInArray()...).add(I("serialize"), PushBytes([]byte("w")), I("put"))
	}
	p = p.add(I("fromalt"))
	if g.n(2) == 0 {
		p = p.add(I("keys"))
	}
	return p
}

// earlyKeys: mostly 2..5 keys before the first observation, sometimes 0 or 1.
func earlyKeys(g *pgen) int {
	if g.n(5) == 0 {
		return g.n(2)
	}
	return 2 + g.n(4)
}

var soupOps = []string{"newmap", "newarray", "dup", "swap", "drop", "over", "pick", "toalt", "fromalt", "dupfromalt",
	"setitem", "append", "pickitem", "remove", "haskey", "keys", "values", "arraysize", "notify", "put"}

// soup: a short random instruction sequence (mostly faults; no Serialize, so that a cycle that the
// detector misses - C14's finding - cannot send it into a 1 MiB deep recursion).
func (g *pgen) soup() Prog {
	var p Prog
	for i, n := 0, 1+g.n(12); i < n; i++ {
		switch g.n(3) {
		case 0:
			p = p.add(g.prim())
		default:
			p = p.add(I(soupOps[g.n(len(soupOps))]))
		}
	}
	return p
}

// ---------------------------------------------------------------- execution and oracle

type runSet struct {
	outs  []Outcome // distinct outcomes, in order of first appearance
	keys  []string
	count []int
}

func (r *runSet) add(o Outcome) {
	k := o.Key()
	for i := range r.keys {
		if r.keys[i] == k {
			r.count[i]++
			return
		}
	}
	r.outs = append(r.outs, o)
	r.keys = append(r.keys, k)
	r.count = append(r.count, 1)
}

// classOf: the known finding is "refused as circular in some runs, ONE other outcome in the rest"
// (the detector's verdict is the only thing that varies); any other variation is new.
func classOf(outs []Outcome) string {
	circ, rest := 0, 0
	for _, o := range outs {
		if o.Fault == "FSer ECircular" {
			circ++
		} else {
			rest++
		}
	}
	if circ >= 1 && rest == 1 {
		return classDetector
	}
	return classOther
}

type driver struct {
	c        *hx.Ctx
	inputs   []Input
	codes    [][]byte
	sets     []*runSet
	childSel []int // indices run in child processes as well
}

func (d *driver) add(in Input, child bool) {
	code, err := in.Prog.Compile()
	if err != nil {
		panic(fmt.Sprintf("%s: %v", in.Name, err))
	}
	d.inputs = append(d.inputs, in)
	d.codes = append(d.codes, code)
	d.sets = append(d.sets, &runSet{})
	if child {
		d.childSel = append(d.childSel, len(d.inputs)-1)
	}
}

func (d *driver) runAll(repeats, children int) {
	c := d.c
	// fresh processes first, concurrently with the in-process repetitions (starting an ontology
	// binary costs seconds: package initialisation of the wasm validator)
	type childRes struct {
		outs []Outcome
		err  error
	}
	var codes [][]byte
	for _, i := range d.childSel {
		codes = append(codes, d.codes[i])
	}
	var pending []chan childRes
	if len(codes) > 0 {
		for k := 0; k < children; k++ {
			ch := make(chan childRes, 1)
			pending = append(pending, ch)
			go func() {
				outs, err := runInChild(codes, 120*time.Second)
				ch <- childRes{outs, err}
			}()
		}
	}
	for i, in := range d.inputs {
		if in.Kind != "run" {
			continue
		}
		for k := 0; k < repeats; k++ {
			d.sets[i].add(RunOnce(d.codes[i]))
			c.Eval()
		}
		// the witness of the known finding is probed until both outcomes have shown (the rare
		// iteration order comes up about once in 8 runs)
		for k := 0; in.Name == witnessName && len(d.sets[i].outs) < 2 && k < 4096; k++ {
			d.sets[i].add(RunOnce(d.codes[i]))
			c.Eval()
		}
	}
	for _, ch := range pending {
		r := <-ch
		if r.err != nil {
			// infrastructure only (a crash of the implementation would already have taken this process
			// down during the in-process repetitions)
			c.Note("child process failed: " + r.err.Error())
			c.Count("child-process-failed")
			continue
		}
		for j, i := range d.childSel {
			d.sets[i].add(r.outs[j])
			c.Eval()
		}
		c.Count("child-processes")
	}
}

// maxShown: distinct outcomes written out per program (evidence, replay file, Coq case); the number
// of distinct outcomes is always given
const maxShown = 6

func describe(rs *runSet) []map[string]interface{} {
	var out []map[string]interface{}
	for i, o := range rs.outs {
		if i == maxShown {
			out = append(out, map[string]interface{}{"more_distinct_outcomes": len(rs.outs) - maxShown})
			break
		}
		out = append(out, map[string]interface{}{"runs": rs.count[i], "outcome": o})
	}
	return out
}

func (d *driver) judge() {
	c := d.c
	type pendingFail struct {
		class string
		in    Input
		got   interface{}
	}
	var fails []pendingFail
	defer func() {
		// shortest failing program first (hx keeps the first three inputs of a class)
		sort.SliceStable(fails, func(i, j int) bool { return len(fails[i].in.Prog) < len(fails[j].in.Prog) })
		for _, f := range fails {
			c.Fail(f.class, "same invocation on the same state: differing success/failure, return value, notifications or write set",
				f.in, f.got, "one outcome")
		}
	}()
	for i, in := range d.inputs {
		if in.Kind != "run" {
			continue
		}
		rs := d.sets[i]
		c.Count("family:" + in.Name)
		if len(in.Prog) < 300 {
			c.Count(fmt.Sprintf("proglen:%d0s", len(in.Prog)/10))
		} else {
			c.Count("proglen:300+")
		}
		for _, o := range rs.outs {
			switch {
			case o.Panic != "":
				c.Count("outcome:panic")
				c.Fail("panic:"+in.Name, "invocation panicked", in, o.Panic, nil)
			case o.Fault != "":
				c.Count("outcome:" + o.Fault)
			default:
				c.Count("outcome:halt")
				if len(o.Notes) > 0 {
					c.Count("halt-with:notifications")
				}
				if len(o.Writes) > 0 {
					c.Count("halt-with:writes")
				}
			}
			if o.Fault == "?" {
				c.Fail("unclassified-error", "error text outside the model's fault enum", in, o.Msg, nil)
			}
		}
		if len(rs.outs) > 1 {
			cl := classOf(rs.outs)
			c.Count("order-dependent:" + in.Name)
			fails = append(fails, pendingFail{cl, in, describe(rs)})
		}
		if len(in.Prog) >= 8 && (len(rs.outs) > 1 || rs.outs[0].Fault == "" || rs.outs[0].Fault == "FSer ECircular") {
			if len(in.Prog) < 300 {
				c.Nontrivial(in.Prog.String())
			} else {
				c.Nontrivial(fmt.Sprintf("%s/%d/%s", in.Name, in.QuadR, in.Tail.String()))
			}
		}
		// correspondence case
		var obs []string
		ok := true
		for k, o := range rs.outs {
			if k == maxShown { // more than one is already a disagreement outside the finding class
				break
			}
			s, good := o.coq()
			if !good {
				ok = false
				break
			}
			obs = append(obs, s)
		}
		if ok {
			term := fmt.Sprintf("CRun %d%%nat %s %s", coqFuel, in.Prog.Coq(), hx.CoqList(obs))
			desc := map[string]interface{}{"input": in, "observed": describe(rs)}
			switch {
			case in.BigN > 0:
				term = fmt.Sprintf("CRunBig %d%%nat %d %s %s", coqFuel, in.BigN, in.Tail.Coq(), hx.CoqList(obs))
			case in.QuadR > 0:
				term = fmt.Sprintf("CRunQuad %d%%nat %s %d %s %s", coqFuel, in.Head.Coq(), in.QuadR, in.Tail.Coq(), hx.CoqList(obs))
			}
			if in.BigN > 0 || in.QuadR > 0 {
				// the full instruction list is in the replay input only
				short := in
				short.Prog = nil
				desc = map[string]interface{}{"input": short, "generator": "Prog = buildMap(big_n) ++ tail, or head ++ quad_r x quadruple ++ tail", "observed_outcomes": len(rs.outs)}
			}
			c.Case(term, desc)
		}
	}
}

// stringifyCase: build the value in-process through the executor, call Stringify repeatedly.
func (d *driver) stringifyCase(in Input) {
	c := d.c
	code, err := in.Prog.Compile()
	if err != nil {
		panic(err)
	}
	seen := map[string]int{}
	var order []string
	for k := 0; k < Repeats; k++ {
		v, ok := returnedValue(code)
		c.Eval()
		if !ok {
			return
		}
		var res string
		p, msg := hx.Recover(func() {
			s, err := v.Stringify()
			if err != nil {
				res = "StrCircular"
			} else {
				res = "StrOk " + hx.CoqBytes([]byte(s))
			}
		})
		if p {
			c.Fail("panic:stringify", "Stringify panicked", in, msg, nil)
			return
		}
		if seen[res] == 0 {
			order = append(order, res)
		}
		seen[res]++
	}
	c.Count("family:stringify:" + in.Name)
	if len(order) > 1 {
		c.Count("order-dependent:stringify")
		cl := classOther
		if len(order) == 2 && seen["StrCircular"] > 0 {
			cl = classDetector
		}
		c.Fail(cl, "Stringify of the same value: differing results", in, order, "one result")
	}
	c.Case(fmt.Sprintf("CStringify %d%%nat %s %s", coqFuel, in.Prog.Coq(), hx.CoqList(order)),
		map[string]interface{}{"input": in, "observed": order})
}

// returnedValue runs the code and hands back the live value on top of the stack.
func returnedValue(code []byte) (*vmtypes.VmValue, bool) {
	v, err := invokeRaw(code)
	if err != nil || v == nil {
		return nil, false
	}
	return v, true
}

// ---------------------------------------------------------------- Run

func witnessProg(n int) Prog {
	p := Prog{PushInt(7)}.add(chain(n)...)
	p = p.add(I("newmap"), I("toalt")).add(setFromAlt(PushInt(1))...)
	p = p.add(PushInt(0)).add(setFromAlt(PushInt(2))...)
	return p.add(I("fromalt"), I("serialize"))
}

func Run(c *hx.Ctx) {
	c.CoqModule("Corr.C15")
	g := &pgen{c: c}
	d := &driver{c: c}

	// 1. replay
	var rin Input
	if c.ReplayInput(&rin) {
		if rin.Kind == "stringify" {
			d.stringifyCase(rin)
			return
		}
		d.add(rin, true)
		d.runAll(8*Repeats, 4)
		d.judge()
		return
	}
	// 2. corpus
	for _, raw := range c.CorpusInputs() {
		var in Input
		if jsonUnmarshal(raw, &in) == nil && len(in.Prog) > 0 {
			if in.Kind == "stringify" {
				d.stringifyCase(in)
			} else {
				d.add(in, true)
			}
		}
	}
	// 3a. the witness of Props/C15.v (W15_prog) and its neighbours, on every run
	for _, n := range []int{8, 9, 10, 11, 12} {
		d.add(Input{Kind: "run", Name: fmt.Sprintf("witness-chain%d", n), Prog: witnessProg(n)}, true)
	}
	// 3b. deep/shallow maps around the depth limit
	for _, n := range []int{8, 9, 10, 11} {
		for k := 0; k < c.N(6, 30); k++ {
			shallow := 1 + g.n(3)
			outer := g.n(3)
			nn := n
			if outer == 1 {
				nn = n - 1
			}
			in := Input{Kind: "run", Name: "deep-shallow-map", Prog: g.ambiguous(nn, shallow, g.n(shallow+1), outer, g.n(2) == 0, g.n(3))}
			d.add(in, k < 2)
		}
	}
	// 3c. self-referential maps
	for k := 0; k < c.N(16, 80); k++ {
		shallow := g.n(4)
		d.add(Input{Kind: "run", Name: "self-ref-map", Prog: g.selfRef(shallow, g.n(shallow+1), k%4)}, k < 4)
	}
	for _, p := range []Prog{
		{PushInt(0), I("newarray"), I("dup"), I("dup"), I("append"), I("serialize")},                      // a = [a]
		{PushInt(0), I("newarray"), I("dup"), I("dup"), I("append"), I("notify")},                         // Notify on a = [a]
		{PushInt(0), I("newarray"), I("dup"), I("dup"), I("append"), I("dup"), I("arraysize"), I("drop")}, // returned cyclic value
		{I("newmap"), I("dup"), I("dup"), PushInt(1), I("swap"), I("setitem"), I("serialize")},            // m = {1: m}
		{I("newmap"), I("dup"), I("dup"), PushInt(1), I("swap"), I("setitem")},                            // returned cyclic map
	} {
		d.add(Input{Kind: "run", Name: "self-ref-fixed", Prog: p}, true)
	}
	// 3d. generic map programs
	for k := 0; k < c.N(360, 4000); k++ {
		var p Prog
		var keys []Ins
		if g.n(3) == 0 {
			p = g.value(3)
		} else {
			p, keys = g.mapValue(g.n(6), 2)
		}
		p = p.add(g.ops(keys)...)
		d.add(Input{Kind: "run", Name: "generic-map", Prog: p}, k < 24)
	}
	// 3d'. one map object observed while it changes: early keys, observation, late keys (interleaving
	// in byte order with the early ones), observations again; and longer lifecycles with removals
	for k := 0; k < c.N(90, 900); k++ {
		d.add(Input{Kind: "run", Name: "grow-then-observe", Prog: g.growThenObserve(earlyKeys(g), 2+g.n(5))}, k < 12)
	}
	for k := 0; k < c.N(70, 700); k++ {
		d.add(Input{Kind: "run", Name: "map-lifecycle", Prog: g.lifecycle()}, k < 8)
	}
	// 3d''. size limits that interact with maps. SETITEM has no limit on the number of entries of a map;
	// KEYS / VALUES build an array (MAX_ARRAY_SIZE elements: one more and Append faults), Notify counts
	// elements (MAX_COUNT), Serialize has only the byte limit.
	k := PushBytes([]byte("k"))
	bigs := []Input{
		bigInput(1025, Prog{I("keys")}), bigInput(1025, Prog{I("values")}),
		bigInput(1024, Prog{I("keys")}), bigInput(1024, Prog{I("values")}),
		bigInput(1500, Prog{I("keys")}),
		bigInput(1025, Prog{I("serialize"), k, I("put")}),
	}
	if !c.Quick() {
		bigs = append(bigs,
			bigInput(1024, Prog{I("values"), I("serialize"), k, I("put")}),
			bigInput(1023, Prog{I("dup"), I("keys"), I("arraysize"), I("notify"), I("values"), I("notify")}),
			bigInput(1500, Prog{I("values")}), bigInput(1500, Prog{I("dup"), I("serialize"), k, I("put"), I("keys")}),
			bigInput(1024, Prog{I("keys"), I("notify")}))
		for _, n := range []int{1023, 1024, 1025, 1026, 1500, 2048} {
			bigs = append(bigs, bigInput(n, Prog{I("dup"), I("keys"), I("swap"), I("values")}), bigInput(n, Prog{I("keys"), I("notify")}),
				bigInput(n, Prog{I("values"), I("notify")}), bigInput(n, Prog{I("dup"), I("serialize"), I("notify"), I("values"), I("serialize"), k, I("put")}),
				bigInput(n, Prog{I("dup"), PushBytes([]byte{0, 0}), I("remove"), I("keys"), I("serialize"), k, I("put")}))
		}
	}
	for i, in := range bigs {
		d.add(in, i < 4)
	}
	// Serialize of a map whose encoding crosses MAX_BYTEARRAY_SIZE: x = 75 bytes, six times
	// x := Serialize([x,x,x,x]) (about 324 kB), then a map with 3 (fits) or 4 (over 1 MiB) entries x
	head := Prog{PushBytes(make([]byte, 75))}
	mapOf := func(n int) Prog {
		p := Prog{I("newmap"), I("toalt")}
		for i := 0; i < n; i++ {
			p = p.add(I("dup")).add(setFromAlt(PushInt(int64(i)))...)
		}
		return p.add(I("drop"), I("fromalt"))
	}
	d.add(quadInput("ser-size", head, 6, mapOf(3).add(I("dup"), I("serialize"), I("arraysize"), I("notify"), I("keys"))), true)
	d.add(quadInput("ser-size", head, 6, mapOf(4).add(I("serialize"))), true)
	if !c.Quick() {
		d.add(quadInput("ser-size", head, 6, mapOf(4).add(I("dup"), I("values"), I("arraysize"), I("notify"), I("serialize"), k, I("put"))), false)
		d.add(quadInput("ser-size", head, 7, Prog{I("arraysize")}), false)
	}
	// 3e. large maps: KEYS / VALUES at the array size limit (1024 / 1025 entries would need long
	// programs; the limit itself is exercised through NEWARRAY + APPEND on arrays)
	for _, n := range []int{16, 16} {
		p := Prog{I("newmap"), I("toalt")}
		for i := 0; i < n; i++ {
			p = p.add(PushInt(int64(i))).add(setFromAlt(PushBytes([]byte{byte(200 - 7*i), byte(i)}))...)
		}
		p = p.add(I("fromalt"), I("dup"), I("keys"), I("notify"), I("dup"), I("values"), I("notify"), I("serialize"), PushBytes([]byte("big")), I("put"))
		d.add(Input{Kind: "run", Name: "many-keys", Prog: p}, true)
	}
	// 3f. limits and conversions (boundary values)
	rep := func(in Ins, n int) Prog {
		var p Prog
		for i := 0; i < n; i++ {
			p = append(p, in)
		}
		return p
	}
	n1024, n1025 := PushBytes([]byte{0x00, 0x04}), PushBytes([]byte{0x01, 0x04})
	pair := Prog{PushInt(2), I("newarray")}
	for _, p := range []Prog{
		{n1024, I("newarray"), PushInt(1), I("append")}, // Append at MAX_ARRAY_SIZE
		{n1024, I("newarray"), I("arraysize")},          // 1024 elements
		{n1025, I("newarray")},                          // count > MAX_ARRAY_SIZE
		{PushInt(-1), I("newarray")},                    // count < 0
		{n1024, I("newarray"), I("notify")},             // count reaches MAX_COUNT exactly
		Prog{n1024, I("newarray"), I("toalt")}.add(pair...).add(setFromAlt(PushInt(0))...).add(I("fromalt"), I("notify")), // count > MAX_COUNT
		rep(PushInt(1), 2048),               // full evaluation stack
		rep(PushInt(1), 2049),               // ERR_OVER_STACK_LEN
		rep(PushInt(1), 2048).add(I("put")), // GetContext cannot push
		rep(PushInt(1), 2047).add(I("put")), // fits
		rep(PushInt(1), 2048).add(I("dup")), //
		rep(PushInt(1), 2048).add(I("toalt"), I("dupfromalt"), I("dupfromalt")),
		{PushInt(3), I("newarray"), PushBytes(append(make([]byte, 32), 1)), I("pickitem")},       // 33-byte index: over MAX_INT_SIZE
		{PushInt(3), I("newarray"), PushBytes([]byte{1, 0, 0, 0, 0, 0, 0, 0, 1}), I("pickitem")}, // not an int64
		{PushInt(3), I("newarray"), PushBytes([]byte{2, 0, 0, 0, 0, 0, 0, 0}), I("pickitem")},    // 8-byte index 2
		{PushInt(3), I("newarray"), PushBytes([]byte{0xff}), I("pickitem")},                      // -1
		{PushBytes([]byte("abc")), PushInt(1), I("pickitem")},                                    // byte of a byte string
		{PushBytes([]byte("abc")), PushInt(3), I("pickitem")},
		{PushInt(16), PushInt(0), I("pickitem")}, // byte of an integer
		{PushBytes([]byte("abc")), I("arraysize")}, {PushInt(0), I("arraysize")}, {I("newmap"), I("arraysize")},
		{PushInt(3), I("newarray"), I("dup"), PushInt(1), I("remove"), I("arraysize")},
		{PushInt(3), I("newarray"), PushInt(3), I("remove")},
		{PushInt(1), PushInt(2), PushInt(3), PushInt(2), I("pick")}, {PushInt(1), PushInt(1), I("pick")}, {PushInt(1), PushInt(-1), I("pick")},
		{I("newmap"), I("dup"), I("newmap"), PushInt(1), I("setitem")}, // a map as key
		{I("newmap"), I("newmap"), I("haskey")}, {I("newmap"), I("newmap"), I("remove")}, {I("newmap"), I("newmap"), I("pickitem")},
		{PushInt(1), I("append")}, {I("append")}, {PushInt(1), PushInt(1), I("append")}, {I("newmap"), PushInt(1), I("append")},
		{PushInt(1), I("keys")}, {PushInt(0), I("newarray"), I("values")}, {I("keys")},
		{PushInt(5), PushBytes([]byte("k")), I("put")}, {PushBytes([]byte("k")), I("put")}, {I("put")},
		{I("newmap"), PushBytes([]byte("k")), I("put")}, {PushInt(1), I("newmap"), I("put")},
		{PushBytes([]byte("v1")), PushBytes([]byte("k")), I("put"), PushBytes([]byte("v2")), PushBytes([]byte("k")), I("put"), PushInt(0), PushBytes([]byte("a")), I("put")}, // last write wins, sorted
		{PushInt(0), I("notify"), PushInt(-1), I("notify"), PushBytes([]byte{0}), I("notify"), I("newmap"), PushInt(0), I("haskey"), I("notify")},
		{I("serialize")}, {PushInt(0), I("serialize")}, {PushInt(-1), I("serialize")}, {PushInt(0), I("newarray"), I("serialize")}, {I("newmap"), I("serialize")},
	} {
		d.add(Input{Kind: "run", Name: "limits", Prog: p}, false)
	}
	// 3g. malformed stream
	for k := 0; k < c.N(200, 2500); k++ {
		d.add(Input{Kind: "run", Name: "soup", Prog: g.soup()}, false)
	}
	d.runAll(Repeats, c.N(3, 12))
	d.judge()

	// 4. Stringify (debug/testing only) on built values
	for _, n := range []int{9, 10, 11} {
		p := witnessProg(n)
		d.stringifyCase(Input{Kind: "stringify", Name: "witness", Prog: p[:len(p)-1]})
	}
	for k := 0; k < c.N(60, 400); k++ {
		var p Prog
		switch g.n(4) {
		case 0:
			p = g.ambiguous(7+g.n(5), 1+g.n(2), g.n(2), g.n(2), false, 3)
		default:
			p = g.value(3)
		}
		d.stringifyCase(Input{Kind: "stringify", Name: "value", Prog: p})
	}

	// samples for the evidence file
	for i, in := range d.inputs {
		if (i < 3 && len(in.Prog) < 300) || in.Name == "witness-chain10" {
			c.Sample(map[string]interface{}{"program": in.Prog.String(), "family": in.Name, "runs": describe(d.sets[i])})
		}
	}
	keys := make([]string, 0)
	for i, in := range d.inputs {
		if len(d.sets[i].outs) > 1 {
			keys = append(keys, in.Name)
		}
	}
	sort.Strings(keys)
	c.Note(fmt.Sprintf("programs: %d, each invoked %d times in fresh engines; %d of them also once in each of %d fresh processes; order-dependent programs: %d",
		len(d.inputs), Repeats, len(d.childSel), c.N(3, 12), len(keys)))
}
