package c15

import (
	"bytes"
	"fmt"
	"go/ast"
	"go/parser"
	"go/printer"
	"go/token"
	"path/filepath"
	"strings"

	"github.com/ontio/ontology/vm/neovm"
	"github.com/ontio/ontology/vm/neovm/types"

	"verif/harness/drivers/c02/mapscan"
	"verif/harness/gen"
)

// ScanTargets: the NeoVM execution path (the executor, its value types and the NeoVM service with
// its syscalls). Every `for .. range X` with X of map type found there goes into
// coq/Gen/VmMapRanges.v; Props/C15.v proves (vm_compute) that each one is matched by a
// permutation-invariance lemma or by the known finding.
var ScanTargets = []mapscan.Target{
	{Dir: "vm/neovm", Recursive: true},
	{Dir: "smartcontract/service/neovm"},
}

// Shapes of a range-over-map statement, decided on the AST:
//
//	collect-keys-sort : `for k := range M { X = append(X, k) }` immediately followed by
//	                    `sort.Strings(X)` (the loop only collects the keys; what the function goes
//	                    on with is the sorted slice)
//	return-first      : the first statement of the loop body is a `return` (only the entry the
//	                    runtime happens to produce first is looked at)
//	other             : anything else
const (
	ShapeCollectSort = "collect-keys-sort"
	ShapeReturnFirst = "return-first"
	ShapeOther       = "other"
)

type siteShape struct {
	mapscan.Site
	Shape string
}

func nodeText(fset *token.FileSet, n ast.Node) string {
	var b bytes.Buffer
	printer.Fprint(&b, fset, n)
	return b.String()
}

func funcName(fd *ast.FuncDecl) string {
	if fd.Recv == nil || len(fd.Recv.List) == 0 {
		return fd.Name.Name
	}
	t := fd.Recv.List[0].Type
	if st, ok := t.(*ast.StarExpr); ok {
		if id, ok := st.X.(*ast.Ident); ok {
			return "(*" + id.Name + ")." + fd.Name.Name
		}
	}
	if id, ok := t.(*ast.Ident); ok {
		return "(" + id.Name + ")." + fd.Name.Name
	}
	return fd.Name.Name
}

// shapeOf classifies the range statement number `occ` (among those of the function whose operand
// prints as `operand`) of function fn in file.
func shapeOf(repo, file, fn, operand string, occ int) (string, error) {
	fset := token.NewFileSet()
	f, err := parser.ParseFile(fset, filepath.Join(repo, file), nil, 0)
	if err != nil {
		return "", err
	}
	for _, d := range f.Decls {
		fd, ok := d.(*ast.FuncDecl)
		if !ok || fd.Body == nil || (funcName(fd) != fn && fd.Name.Name != fn) {
			continue
		}
		k := 0
		shape := ""
		var visit func(list []ast.Stmt)
		inspectBlock := func(list []ast.Stmt) {
			for i, s := range list {
				rs, ok := s.(*ast.RangeStmt)
				if !ok || nodeText(fset, rs.X) != operand {
					continue
				}
				if k == occ && shape == "" {
					var next ast.Stmt
					if i+1 < len(list) {
						next = list[i+1]
					}
					shape = classify(fset, rs, next)
				}
				k++
			}
		}
		visit = func(list []ast.Stmt) { inspectBlock(list) }
		// every statement list of the function, in source order (ast.Inspect is pre-order, the same
		// order mapscan numbers occurrences in)
		ast.Inspect(fd.Body, func(n ast.Node) bool {
			switch x := n.(type) {
			case *ast.BlockStmt:
				visit(x.List)
			case *ast.CaseClause:
				visit(x.Body)
			case *ast.CommClause:
				visit(x.Body)
			}
			return true
		})
		if shape == "" {
			return "", fmt.Errorf("range over %s #%d not found in %s", operand, occ, fn)
		}
		return shape, nil
	}
	return "", fmt.Errorf("function %s not found in %s", fn, file)
}

func classify(fset *token.FileSet, rs *ast.RangeStmt, next ast.Stmt) string {
	if len(rs.Body.List) >= 1 {
		if _, ok := rs.Body.List[0].(*ast.ReturnStmt); ok {
			return ShapeReturnFirst
		}
	}
	// for k := range M { X = append(X, k) } ; sort.Strings(X)
	key, ok := rs.Key.(*ast.Ident)
	if !ok || rs.Value != nil || len(rs.Body.List) != 1 || next == nil {
		return ShapeOther
	}
	as, ok := rs.Body.List[0].(*ast.AssignStmt)
	if !ok || as.Tok != token.ASSIGN || len(as.Lhs) != 1 || len(as.Rhs) != 1 {
		return ShapeOther
	}
	x, ok := as.Lhs[0].(*ast.Ident)
	if !ok {
		return ShapeOther
	}
	call, ok := as.Rhs[0].(*ast.CallExpr)
	if !ok || nodeText(fset, call.Fun) != "append" || len(call.Args) != 2 || call.Ellipsis != token.NoPos ||
		nodeText(fset, call.Args[0]) != x.Name || nodeText(fset, call.Args[1]) != key.Name {
		return ShapeOther
	}
	es, ok := next.(*ast.ExprStmt)
	if !ok {
		return ShapeOther
	}
	sc, ok := es.X.(*ast.CallExpr)
	if !ok || nodeText(fset, sc.Fun) != "sort.Strings" || len(sc.Args) != 1 || nodeText(fset, sc.Args[0]) != x.Name {
		return ShapeOther
	}
	return ShapeCollectSort
}

func scanSites(repo string) ([]siteShape, []string, *mapscan.Result) {
	res := mapscan.Scan(repo, ScanTargets)
	errs := append([]string{}, res.Errors...)
	var out []siteShape
	for _, s := range res.Sites {
		sh := ShapeOther
		if s.Kind == "map" {
			// ID = "range <operand>#<k>"
			id := strings.TrimPrefix(s.ID, "range ")
			i := strings.LastIndex(id, "#")
			var occ int
			fmt.Sscanf(id[i+1:], "%d", &occ)
			got, err := shapeOf(repo, s.File, s.Func, id[:i], occ)
			if err != nil {
				errs = append(errs, s.File+": "+err.Error())
			} else {
				sh = got
			}
		}
		out = append(out, siteShape{Site: s, Shape: sh})
	}
	return out, errs, res
}

func coqStr(s string) string { return `"` + strings.ReplaceAll(s, `"`, `""`) + `"` }

// storage key limit: `len(key) > 1024` in StoragePut
var putKeySite = gen.Site{Name: "vm_put_key_limit", File: "smartcontract/service/neovm/storage.go", Func: "StoragePut", Loc: "cmp:>:rhs"}

func produceRanges(repo string) ([]byte, []string) {
	sites, errs, res := scanSites(repo)
	var b bytes.Buffer
	b.WriteString("(* GENERATED by harness/drivers/c15 (go/parser + go/types over vm/neovm/** and smartcontract/service/neovm of\n")
	b.WriteString("   the current source; constants by linking the packages). Do not edit.\n")
	b.WriteString("   vm_map_ranges: every `for .. := range X` with X of map type (kind map; kind untyped = operand could\n")
	b.WriteString("   not be typed, listed and never dropped). Tuple = (file, function, line-independent id, kind, shape);\n")
	b.WriteString("   shape: collect-keys-sort = `for k := range M { X = append(X, k) }; sort.Strings(X)`,\n")
	b.WriteString("          return-first = the loop body starts with a return, other = anything else. *)\n")
	b.WriteString("From Coq Require Import String List ZArith.\nImport ListNotations.\nLocal Open Scope string_scope.\n\n")
	fmt.Fprintf(&b, "Definition vm_map_scan_complete : bool := %v.\n", len(errs) == 0)
	fmt.Fprintf(&b, "(* files scanned: see the check's evidence; not a definition, so that adding a file without a map range\n   does not rebuild the proofs *)\n\n")
	_ = res
	b.WriteString("Definition vm_map_ranges : list (string * string * string * string * string) := [\n")
	for i, s := range sites {
		sep := ";"
		if i == len(sites)-1 {
			sep = ""
		}
		fmt.Fprintf(&b, "  (%s, %s, %s, %s, %s)%s\n", coqStr(s.File), coqStr(s.Func), coqStr(s.ID), coqStr(s.Kind), coqStr(s.Shape), sep)
	}
	b.WriteString("].\n\n")
	z := func(v int64) string { return fmt.Sprintf("(%d)%%Z", v) }
	fmt.Fprintf(&b, "(* vm/neovm.STACK_LIMIT (NewValueStack(STACK_LIMIT) for both stacks) *)\nDefinition VM_STACK_LIMIT : Z := %s.\n", z(neovm.STACK_LIMIT))
	fmt.Fprintf(&b, "(* vm/neovm.MAX_ARRAY_SIZE (NEWARRAY: count > MAX_ARRAY_SIZE) *)\nDefinition VM_NEWARRAY_LIMIT : Z := %s.\n", z(neovm.MAX_ARRAY_SIZE))
	fmt.Fprintf(&b, "(* vm/neovm/types.MAX_NOTIFY_LENGTH *)\nDefinition VM_MAX_NOTIFY_LENGTH : Z := %s.\n", z(types.MAX_NOTIFY_LENGTH))
	r := gen.TranslateSite(repo, putKeySite)
	if r.Err != "" {
		errs = append(errs, putKeySite.Name+": "+r.Err)
	}
	b.WriteString("\n")
	b.Write(gen.EmitSites("", []gen.SiteResult{r}))
	return b.Bytes(), errs
}

func init() {
	gen.RegisterFile("VmMapRanges.v", produceRanges)
}
