package c16

// Hand-written verification scripts that REPEAT a public key (the builders never write these;
// GetProgramInfo accepts them).  The property demands the required number of DISTINCT keys and a
// payer that is the account of an attached script: a repeated key must not let one signer meet a
// threshold of two, and the account of the de-duplicated key set (or of the key alone) is a
// different account that did not sign.

import (
	"fmt"

	"github.com/ontio/ontology/common"

	"verif/harness/hx"
)

func distinctKeys(ks []*Key) []*Key {
	var out []*Key
	seen := map[string]bool{}
	for _, k := range ks {
		if !seen[k.id()] {
			seen[k.id()] = true
			out = append(out, k)
		}
	}
	return out
}

// DupKeys generates the repeated-key scripts.
func (d *Drv) DupKeys() {
	c := d.C
	type shape struct {
		name string
		keys []*Key
		m    int
		dup  *Key // the repeated key
	}
	var shapes []shape
	for r := 0; r < c.N(1, 4); r++ {
		k := d.PickKeys(3)
		a, b := k[0], k[1]
		shapes = append(shapes,
			shape{"A,A,B", []*Key{a, a, b}, 1, a}, shape{"A,A,B", []*Key{a, a, b}, 2, a}, shape{"A,A,B", []*Key{a, a, b}, 3, a},
			shape{"A,B,B", []*Key{a, b, b}, 2, b}, shape{"A,A", []*Key{a, a}, 1, a}, shape{"A,A", []*Key{a, a}, 2, a},
			shape{"A,A,A", []*Key{a, a, a}, 2, a}, shape{"A,A,A", []*Key{a, a, a}, 3, a})
	}
	// the repeated key at every position of a sorted 4-key list, and beyond position 8
	base := SpecSorted(d.PickKeys(4))
	for p := range base {
		ks := append(append([]*Key{}, base...), base[p])
		shapes = append(shapes, shape{fmt.Sprintf("4+dup@%d", p), ks, 2, base[p]})
	}
	big := SpecSorted(d.PickKeys(10))
	for _, p := range []int{0, 8, 9} {
		ks := append(append([]*Key{}, big...), big[p])
		shapes = append(shapes, shape{fmt.Sprintf("10+dup@%d", p), ks, 2, big[p]})
	}

	for _, sh := range shapes {
		keys := SpecSorted(sh.keys) // duplicates adjacent: the script as written is also what the sort gives
		dist := distinctKeys(keys)
		asWritten, ok := SpecAddress(keys, sh.m)
		if !ok {
			continue
		}
		payers := []struct {
			name string
			a    common.Address
		}{{"as-written", asWritten}}
		if dd, ok := SpecAddress(dist, sh.m); ok && len(dist) > 1 {
			payers = append(payers, struct {
				name string
				a    common.Address
			}{"deduplicated-set", dd})
		}
		single, _ := SpecAddress([]*Key{sh.dup}, 1)
		payers = append(payers, struct {
			name string
			a    common.Address
		}{"repeated-key-alone", single})

		type siglist struct {
			name    string
			signers []*Key
			same    bool
		}
		var lists []siglist
		if len(dist) >= sh.m {
			lists = append(lists, siglist{"distinct-signers", append([]*Key{}, dist[:sh.m]...), false})
		}
		if sh.m >= 2 {
			rep := make([]*Key, sh.m)
			for i := range rep {
				rep[i] = sh.dup
			}
			lists = append(lists, siglist{"one-signature-repeated", rep, true}, siglist{"one-signer-several-signatures", rep, false})
		}
		validRaw := ""
		for _, sl := range lists {
			for _, py := range payers {
				a := py.a
				pl := &Plan{U: d.RandUnsigned(), Payer: &a,
					Sets: []*SetPlan{{Keys: keys, M: sh.m, Unsorted: true, Signers: sl.signers}}}
				b := d.Assemble(pl)
				if sl.same {
					for i := range b.Sigs[0] {
						b.Sigs[0][i] = b.Sigs[0][0]
					}
					b.encode()
				}
				expect := "reject"
				switch {
				case sl.name == "distinct-signers" && py.name == "as-written":
					expect = "accept"
					validRaw = hx.Hex(b.Raw)
				case py.name == "as-written":
					expect = "" // one signer for a threshold of two: oracle O1 (M distinct keys) decides
				}
				d.DoTx(Input{Kind: fmt.Sprintf("dupkey:%d-of-[%s]:%s:payer-%s", sh.m, sh.name, sl.name, py.name), Expect: expect, Valid: validRaw},
					b.Raw, b.AllKeys())
			}
		}
	}
}
