package c16

// Systematic coverage of the used-key bookkeeping of VerifyMultiSignature and of the threshold the
// account of a set is derived from: for n in {2,3,8,9,10,15,16} and EVERY key position, sets whose
// signature list repeats one signer; twin keys; over-signed sets (more signatures than M).

import (
	"fmt"

	"github.com/ontio/ontology/core/types"

	"verif/harness/hx"
)

// SortedKeys orders keys as ProgramFromMultiPubKey does, so that the index in the returned
// slice is the key's position in the canonical script (= in the parsed key list).
func SortedKeys(ks []*Key) []*Key { return SpecSorted(ks) }

// DupSet is one (n, m) key set with a fixed signed content; Sigs[p] and Alt[p] are two different
// valid signatures of the key at position p.
type DupSet struct {
	N, M   int
	Keys   []*Key
	U      Unsigned
	Hash   []byte
	Verify []byte
	Sigs   [][]byte
	Alt    [][]byte
}

var dupSizes = []int{2, 3, 8, 9, 10, 15, 16}

// PrepareDup builds the sets and names their byte strings (must run before the first case).
func (d *Drv) PrepareDup() []*DupSet {
	var out []*DupSet
	pool := d.W.P
	for _, n := range dupSizes {
		keys := SortedKeys(d.PickKeys(n))
		for _, m := range []int{2, n} {
			if m == n && n == 2 {
				continue
			}
			sp := &SetPlan{Keys: keys, M: m}
			ds := &DupSet{N: n, M: m, Keys: keys, U: d.RandUnsigned(), Verify: sp.VerifyScript()}
			ds.U.Code = []byte{0x51}
			ds.U.Payer = sp.Address() // the multi-signature account pays
			ds.Hash = ds.U.Hash()
			pool.Blob(ds.Hash)
			pool.Blob(ds.U.Payer[:])
			pool.Blob(ds.Verify)
			pool.Blob(Hash160(ds.Verify))
			for _, k := range keys {
				s1 := d.W.SignWith(k, ds.Hash)
				ds.Sigs = append(ds.Sigs, s1)
				pool.Blob(s1)
				if m == 2 {
					s2 := d.W.SignWith(k, ds.Hash)
					ds.Alt = append(ds.Alt, s2)
					pool.Blob(s2)
				}
			}
			out = append(out, ds)
		}
	}
	return out
}

func (ds *DupSet) raw(sigs [][]byte) []byte {
	return RawTx(ds.U.Bytes(), []types.RawSig{{Invoke: invokeScript(sigs), Verify: ds.Verify}})
}

// RunDup: for every key position p, signature lists that repeat the signer at p.
func (d *Drv) RunDup(sets []*DupSet) {
	for _, ds := range sets {
		n := ds.N
		// the honest list first: accepted
		honest := ds.Sigs[n-ds.M:]
		d.DoTx(Input{Kind: fmt.Sprintf("dup:%d-of-%d:honest", ds.M, n), Expect: "accept"}, ds.raw(honest), ds.Keys)
		for p := 0; p < n; p++ {
			if ds.M == 2 {
				// the same signature twice, adjacent
				d.DoTx(Input{Kind: fmt.Sprintf("dup:2-of-%d:same-signature-twice", n), Expect: "reject", Pos: p, Valid: hx.Hex(ds.raw(honest))},
					ds.raw([][]byte{ds.Sigs[p], ds.Sigs[p]}), ds.Keys)
				// two different valid signatures of one signer
				d.DoTx(Input{Kind: fmt.Sprintf("dup:2-of-%d:one-signer-two-signatures", n), Expect: "reject", Pos: p, Valid: hx.Hex(ds.raw(honest))},
					ds.raw([][]byte{ds.Sigs[p], ds.Alt[p]}), ds.Keys)
			} else {
				// n-of-n: everyone signs, but the slot of another key carries position p's signature again
				q := (p + 1 + n/2) % n
				if q == p {
					q = (p + 1) % n
				}
				sigs := append([][]byte{}, ds.Sigs...)
				sigs[q] = ds.Sigs[p]
				d.DoTx(Input{Kind: fmt.Sprintf("dup:%d-of-%d:separated-duplicate", n, n), Expect: "reject", Pos: p, Valid: hx.Hex(ds.raw(honest))}, ds.raw(sigs), ds.Keys)
			}
		}
	}
	// twin keys (one signature verifies under two keys of the list) at positions below and above 8
	a := d.W.P.ByKind["ecdsa-sm2p256v1"][0]
	tw := d.W.P.ByKind["sm2-twin-of-ecdsa"][0]
	for _, pos := range [][3]int{{9, 0, 8}, {16, 8, 15}, {10, 9, 3}, {3, 0, 2}} {
		n, i, j := pos[0], pos[1], pos[2]
		var others []*Key
		for _, k := range d.PickKeys(n + 2) {
			if !k.SameSigner(a) && len(others) < n-2 {
				others = append(others, k)
			}
		}
		keys := make([]*Key, n)
		keys[i], keys[j] = a, tw
		o := 0
		for x := range keys {
			if keys[x] == nil {
				keys[x] = others[o]
				o++
			}
		}
		// a's one signature twice: matched by a, then by its twin (accepted by design: two key positions)
		d.One(fmt.Sprintf("dup:twin:2-of-%d:one-signature-two-keys", n), &Plan{U: d.RandUnsigned(),
			Sets: []*SetPlan{{Keys: keys, M: 2, Unsorted: true, Signers: []*Key{a, a}}}}, "")
		// three signatures of the same private key for a 3-of-n: only two positions can take them
		if n >= 3 {
			d.One(fmt.Sprintf("dup:twin:3-of-%d:one-signer-three-signatures", n), &Plan{U: d.RandUnsigned(),
				Sets: []*SetPlan{{Keys: keys, M: 3, Unsorted: true, Signers: []*Key{a, tw, a}}}}, "reject")
		}
	}
}

// OverSigned: canonical m-of-n sets carrying more signatures than M (the account is that of
// (keys, M), whatever the number of signatures supplied), paid by a separate single-key set or by
// the multi-signature account itself.
func (d *Drv) OverSigned(rounds int) {
	c := d.C
	for r := 0; r < rounds; r++ {
		for _, shape := range [][2]int{{2, 3}, {1, 2}, {2, 4}, {3, 5}, {1, 3}} {
			m, n := shape[0], shape[1]
			for _, surplus := range []string{"valid", "junk", "duplicate", "all-n"} {
				for _, payer := range []string{"single", "multisig"} {
					keys := d.PickKeys(n)
					signers := append([]*Key{}, keys[:m]...)
					switch surplus {
					case "valid":
						signers = append(signers, keys[m])
					case "duplicate":
						signers = append(signers, keys[m-1])
					case "all-n":
						signers = append([]*Key{}, keys...)
					}
					pl := &Plan{U: d.RandUnsigned(), Sets: []*SetPlan{{Keys: keys, M: m, Signers: signers}}}
					if payer == "single" {
						k := []*Key{d.foreignKey(keys)}
						pl.Sets = append(pl.Sets, &SetPlan{Keys: k, M: 1, Signers: k})
						pl.PayerSet = 1
					}
					b := d.Assemble(pl)
					if surplus == "junk" {
						b.Sigs[0] = append(b.Sigs[0], c.Bytes(64))
						b.encode()
					}
					d.DoTx(Input{Kind: fmt.Sprintf("oversigned:%d-of-%d:%s:payer-%s", m, n, surplus, payer), Expect: "accept"}, b.Raw, b.AllKeys())
				}
			}
		}
	}
}
