package c16

// Hostile key encodings.  ec.DecodePublicKey does not check that an UNCOMPRESSED point lies on
// its curve, and the crypto library's Verify never looks at the key's algorithm, so a signature
// blob of the other scheme tried against a forged key runs Go's generic curve code on an invalid
// point and panics.  core/signature must treat that as "does not verify" for every (signature,
// key) pair - in particular inside VerifyMultiSignature's scan, where the forged key is met first.
// Family: single and m-of-n scripts (the forged key FIRST, as written) with, per curve, the
// uncompressed genuine point, off-curve (X, Y+2) / (X, Y+6), the point (0, 0) and a compressed X
// that is not on the curve; signature lists with a blob of the other scheme first / rotated /
// garbage.  Acceptable only with M distinct keys holding signatures that verify under the key as
// parsed (a panic or an off-curve key never verifies).

import (
	"fmt"
	"math/big"
	"strings"

	"github.com/ontio/ontology-crypto/ec"
	"github.com/ontio/ontology-crypto/keypair"
	coresig "github.com/ontio/ontology/core/signature"
	"github.com/ontio/ontology/vm/neovm"

	"verif/harness/hx"
)

type hostileEnc struct {
	name string
	enc  []byte
}

func uncompressedXY(k *Key, x, y *big.Int) []byte {
	t := k.Pub.(*ec.PublicKey)
	l := (t.Curve.Params().BitSize + 7) >> 3
	out := []byte{byte(k.Ty), byte(k.Curve), 4}
	xb, yb := x.Bytes(), y.Bytes()
	if len(xb) > l || len(yb) > l {
		return nil
	}
	out = append(out, make([]byte, l-len(xb))...)
	out = append(out, xb...)
	out = append(out, make([]byte, l-len(yb))...)
	return append(out, yb...)
}

func hostileEncodings(k *Key, all bool) []hostileEnc {
	t := k.Pub.(*ec.PublicKey)
	two, six := big.NewInt(2), big.NewInt(6)
	out := []hostileEnc{
		{"uncompressed-genuine", uncompressedXY(k, t.X, t.Y)},
		{"off-curve-y+2", uncompressedXY(k, t.X, new(big.Int).Add(t.Y, two))},
	}
	if all {
		out = append(out, hostileEnc{"off-curve-y+6", uncompressedXY(k, t.X, new(big.Int).Add(t.Y, six))},
			hostileEnc{"zero-point", uncompressedXY(k, new(big.Int), new(big.Int))})
		// a compressed X with no point on the curve (DeserializePublicKey must refuse it)
		l := (t.Curve.Params().BitSize + 7) >> 3
		for d := int64(1); d < 64; d++ {
			x := new(big.Int).Add(t.X, big.NewInt(d))
			xb := x.Bytes()
			if len(xb) > l {
				break
			}
			enc := append([]byte{byte(k.Ty), byte(k.Curve), 2}, make([]byte, l-len(xb))...)
			enc = append(enc, xb...)
			var err error
			if p, _ := hx.Recover(func() { _, err = keypair.DeserializePublicKey(enc) }); !p && err != nil {
				out = append(out, hostileEnc{"compressed-non-residue", enc})
				break
			}
		}
	}
	var res []hostileEnc
	for _, e := range out {
		if e.enc != nil {
			res = append(res, e)
		}
	}
	return res
}

func parseKey(enc []byte) *Key {
	var k *Key
	hx.Recover(func() {
		if pk, err := keypair.DeserializePublicKey(enc); err == nil && pk != nil {
			k = KeyOf(pk)
		}
	})
	return k
}

func singleScriptOf(enc []byte) []byte {
	return append(specPushData(enc), byte(neovm.CHECKSIG))
}

// foreignBlob: a well-formed signature of the scheme that reaches the generic curve arithmetic for
// a forged key on this curve (ECDSA-scheme blob for sm2p256v1, SM2 blob for the NIST curves),
// made by a key that is not in the set, over the transaction hash.
func (d *Drv) foreignBlob(curve uint64, hash []byte) []byte {
	if curve == uint64(keypair.SM2P256V1) {
		return d.W.SignWith(d.KindKey("ecdsa-p256", 2), hash)
	}
	return d.W.SignWith(d.KindKey("sm2-sm2p256v1", 2), hash)
}

func mverrClass(err error) string {
	m := err.Error()
	switch {
	case m == "not enough signatures in multi-signature":
		return "VENotEnough"
	case m == "invalid signature data":
		return "VESigData"
	case m == "multi-signature verification failed":
		return "VEMulti"
	}
	return "VEAddr" // no such error site in VerifyMultiSignature: a mismatch
}

// DirectMulti calls core/signature.VerifyMultiSignature directly: correspondence case CMulti and
// the oracle "nil => the first m signatures verify under m distinct on-curve keys".
func (d *Drv) DirectMulti(in Input, hash []byte, keys []*Key, m int, sigs [][]byte) {
	c, w := d.C, d.W
	c.Eval()
	var err error
	panicked, msg := hx.Recover(func() { err = coresig.VerifyMultiSignature(hash, pubsOf(keys), m, sigs) })
	obs := "MONil"
	switch {
	case panicked:
		obs = "MOPanic"
		c.Fail("panic:VerifyMultiSignature", "VerifyMultiSignature panicked", in, msg, "an error")
	case err != nil:
		obs = "(MOErr " + mverrClass(err) + ")"
	}
	c.Count("direct-multi:" + strings.Trim(obs, "()"))
	if !panicked && err == nil && m >= 1 && m <= len(sigs) {
		ok := make([][]bool, m)
		for i := 0; i < m; i++ {
			ok[i] = make([]bool, len(keys))
			if sg, e := sDeserialize(sigs[i]); e == nil {
				for j, k := range keys {
					ok[i][j] = !k.OffCurve && realVerify(k.Pub, hash, sg) == "VTrue"
				}
			}
		}
		if got := maxMatching(ok, len(keys)); got < m {
			c.Fail("accepted-invalid:hostile-key:VerifyMultiSignature", "VerifyMultiSignature returned nil although fewer than m signatures verify under distinct on-curve keys", in,
				map[string]int{"distinct_verified": got, "m": m}, "an error")
		}
	}
	w.P.BeginCase()
	var sItems, wItems, sigItems []string
	seenS, seenW := map[string]bool{}, map[string]bool{}
	for _, sb := range sigs {
		w.P.Local(sb)
	}
	for _, k := range keys {
		if k.Weak && !seenW[k.id()] {
			seenW[k.id()] = true
			wItems = append(wItems, w.P.Coq(k))
		}
	}
	for _, sb := range sigs {
		sigItems = append(sigItems, w.P.CB(sb))
		if seenS[string(sb)] {
			continue
		}
		seenS[string(sb)] = true
		if a := w.Classify(sb, hash, keys, "h"); a.InTable {
			sItems = append(sItems, fmt.Sprintf("(%s, %s)", w.P.CB(sb), a.Coq))
		}
	}
	term := fmt.Sprintf("let h := %s in CMulti (mkTab [] %s %s [] []) h %s %s %s %s", w.P.CB(hash), hx.CoqList(wItems), hx.CoqList(sItems),
		w.P.CoqKeys(keys), hx.CoqZ(int64(m)), hx.CoqList(sigItems), obs)
	c.Case(w.P.WrapCase(term), in)
	w.P.BeginCase()
}

// Hostile generates the family.
func (d *Drv) Hostile() {
	c := d.C
	save := d.AbsBudget
	d.AbsBudget = 1
	defer func() { d.AbsBudget = save }()
	kinds := []string{"ecdsa-sm2p256v1", "sm2-sm2p256v1", "ecdsa-p256", "ecdsa-p224", "ecdsa-p384", "ecdsa-p521", "ecdsa-secp256k1"}
	for ki, kind := range kinds {
		k := d.KindKey(kind, 0)
		all := ki < 3 || !c.Quick()
		for _, he := range hostileEncodings(k, all) {
			forged := parseKey(he.enc) // nil: DeserializePublicKey refuses the encoding
			others := []*Key{}
			f1, f2 := d.KindKey("ecdsa-p256", 2), d.KindKey("sm2-sm2p256v1", 2) // the signers of the foreign blobs
			for _, o := range d.PickKeys(6) {
				if !o.SameSigner(k) && !o.SameSigner(f1) && !o.SameSigner(f2) && len(others) < 2 {
					others = append(others, o)
				}
			}
			g1, g2 := others[0], others[1]
			tag := fmt.Sprintf("hostile-key:%s:%s", kind, he.name)
			// --- single-key script ---
			if all {
				keys := []*Key{k}
				if forged != nil {
					keys = []*Key{forged}
				}
				pl := &Plan{U: d.RandUnsigned(), Sets: []*SetPlan{{Keys: keys, M: 1, Signers: []*Key{k}, Script: singleScriptOf(he.enc)}}}
				b := d.Assemble(pl)
				expect := "reject"
				if he.name == "uncompressed-genuine" {
					expect = "accept"
				}
				d.DoTx(Input{Kind: tag + ":single:own-signature", Expect: expect}, b.Raw, append(b.AllKeys(), k))
				b.Sigs[0] = [][]byte{d.foreignBlob(k.Curve, b.Hash)}
				b.encode()
				d.DoTx(Input{Kind: tag + ":single:other-scheme-blob", Expect: "reject"}, b.Raw, append(b.AllKeys(), k))
			}
			// --- m-of-3 script, the forged key first as written ---
			sers := [][]byte{he.enc, g1.Ser, g2.Ser}
			keys := []*Key{k, g1, g2}
			if forged != nil {
				keys = []*Key{forged, g1, g2}
			}
			for _, m := range []int{1, 2} {
				script := RawMultiScript(m, sers, 3)
				pl := &Plan{U: d.RandUnsigned(), Sets: []*SetPlan{{Keys: keys, M: m, Signers: []*Key{g1, g2}[:m], Script: script}}}
				b := d.Assemble(pl)
				honest := append([][]byte{}, b.Sigs[0]...)
				foreign := d.foreignBlob(k.Curve, b.Hash)
				lists := []struct {
					name   string
					sigs   [][]byte
					expect string
				}{
					{"honest", honest, "accept"},
					{"other-scheme-blob-first", append([][]byte{foreign}, honest[:m-1]...), "reject"},
					{"garbage-first", append([][]byte{c.Bytes(64)}, honest[:m-1]...), "reject"},
				}
				if m == 2 {
					lists = append(lists, struct {
						name   string
						sigs   [][]byte
						expect string
					}{"other-scheme-blob-rotated", [][]byte{honest[0], foreign}, "reject"})
				}
				for _, l := range lists {
					if c.Quick() && (l.name == "garbage-first" || (m == 1 && l.name == "honest")) {
						continue
					}
					expect := l.expect
					if forged == nil {
						expect = "reject" // the script does not parse
					}
					b.Sigs[0] = l.sigs
					b.encode()
					kindName := fmt.Sprintf("%s:%d-of-3:%s", tag, m, l.name)
					d.DoTx(Input{Kind: kindName, Expect: expect}, b.Raw, append(b.AllKeys(), k))
					if forged != nil && !d.NoCase {
						var hk, hs []string
						for _, x := range sers {
							hk = append(hk, hx.Hex(x))
						}
						for _, x := range l.sigs {
							hs = append(hs, hx.Hex(x))
						}
						d.DirectMulti(Input{Kind: "direct-multi:" + kindName, Keys: hk, Sigs: hs, Hash: hx.Hex(b.Hash), M: m}, b.Hash, keys, m, l.sigs)
					}
				}
			}
		}
	}
}

// replayDirect re-runs a recorded direct-multi case.
func (d *Drv) replayDirect(in Input) {
	var keys []*Key
	for _, hk := range in.Keys {
		k := parseKey(hx.UnHex(hk))
		if k == nil {
			return
		}
		keys = append(keys, k)
	}
	var sigs [][]byte
	for _, x := range in.Sigs {
		sigs = append(sigs, hx.UnHex(x))
	}
	d.DirectMulti(in, hx.UnHex(in.Hash), keys, in.M, sigs)
}
