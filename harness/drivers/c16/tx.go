package c16

// Raw transactions, one evaluation of the validator, the recorded tables and the Coq case.

import (
	"bytes"
	"crypto/sha256"
	"fmt"
	"io"
	"sort"
	"strings"

	ethcrypto "github.com/ethereum/go-ethereum/crypto"
	"github.com/ontio/ontology-crypto/keypair"
	s "github.com/ontio/ontology-crypto/signature"
	"github.com/ontio/ontology/common"
	"github.com/ontio/ontology/core/program"
	"github.com/ontio/ontology/core/types"
	"github.com/ontio/ontology/core/validation"
	ontErrors "github.com/ontio/ontology/errors"
	"github.com/ontio/ontology/vm/neovm"
	"golang.org/x/crypto/ripemd160"

	"verif/harness/hx"
)

// ---------- raw transactions ----------

// Unsigned is the signed content of an Ontology-format invoke transaction.
type Unsigned struct {
	TxType   byte
	Nonce    uint32
	GasPrice uint64
	GasLimit uint64
	Payer    common.Address
	Code     []byte
}

func (u *Unsigned) Bytes() []byte {
	sink := common.NewZeroCopySink(nil)
	sink.WriteByte(0)
	sink.WriteByte(u.TxType)
	sink.WriteUint32(u.Nonce)
	sink.WriteUint64(u.GasPrice)
	sink.WriteUint64(u.GasLimit)
	sink.WriteBytes(u.Payer[:])
	sink.WriteVarBytes(u.Code)
	sink.WriteVarUint(0)
	return sink.Bytes()
}

// Hash is the transaction hash the signatures are made over: sha256(sha256(unsigned bytes)).
func (u *Unsigned) Hash() []byte {
	h := sha256.Sum256(u.Bytes())
	h2 := sha256.Sum256(h[:])
	return h2[:]
}

// RawTx assembles unsigned bytes and signature section (no checks at all).
func RawTx(unsigned []byte, sigs []types.RawSig) []byte {
	sink := common.NewZeroCopySink(nil)
	sink.WriteBytes(unsigned)
	sink.WriteVarUint(uint64(len(sigs)))
	for _, g := range sigs {
		sink.WriteVarBytes(g.Invoke)
		sink.WriteVarBytes(g.Verify)
	}
	return sink.Bytes()
}

func Hash160(b []byte) []byte {
	t := sha256.Sum256(b)
	md := ripemd160.New()
	md.Write(t[:])
	return md.Sum(nil)
}

func Keth(b []byte) []byte { return ethcrypto.Keccak256(b)[12:] }

// ---------- one evaluation ----------

// Outcome is what the harness observes of one decoded transaction.
type Outcome struct {
	Tx       *types.Transaction
	Obs      string // Coq term of type obs
	Class    string // accept | eip | reject:<err> | panic
	Accepted bool
	Panicked bool
	PanicMsg string
	Addrs    []common.Address // tx.SignedAddr after an accepting run
	Code     string           // Coq term of type option N
}

func perrClass(err error) string {
	if err == io.ErrUnexpectedEOF {
		return "EUnexpectedEOF"
	}
	m := err.Error()
	switch {
	case m == "wrong program":
		return "EWrongProgram"
	case strings.HasPrefix(m, "unexpected opcode"):
		return "EUnexpectedOpcode"
	case strings.HasPrefix(m, "num not in range"):
		return "ENumRange"
	case strings.HasPrefix(m, "expected eof"):
		return "EExpectedEOF"
	case m == "missing pubkey length":
		return "EMissingLen"
	case strings.HasPrefix(m, "number of pubkeys unmarched"):
		return "EUnmatched"
	case m == "wrong multi-sig param":
		return "EWrongParam"
	case m == "unsupported program":
		return "EUnsupported"
	}
	return "EDeser"
}

// verrClass maps the error of checkTransactionSignatures to the model's error sites.
func verrClass(err error) string {
	m := err.Error()
	switch {
	case strings.HasPrefix(m, "transaction signature number"):
		return "VETooMany"
	case m == "wrong tx sig param length":
		return "VEParamLen"
	case m == "signature verification failed":
		return "VESingle"
	case m == "not enough signatures in multi-signature":
		return "VENotEnough"
	case m == "invalid signature data":
		return "VESigData"
	case m == "multi-signature verification failed":
		return "VEMulti"
	case strings.HasPrefix(m, "signature missing for payer"):
		return "VEPayer"
	}
	return "(VEGetSig " + perrClass(err) + ")"
}

func coqAddrs(p *Pool, as []common.Address) string {
	var items []string
	for _, a := range as {
		items = append(items, p.CB(a[:]))
	}
	return hx.CoqList(items)
}

// Evaluate decodes raw twice and runs checkTransactionSignatures (through the hook, for the
// error class and tx.SignedAddr) and VerifyTransaction (for the error code) on fresh copies.
// ok=false: the decoder refused the bytes.
func Evaluate(pl *Pool, raw []byte) (o Outcome, ok bool) {
	tx, err := types.TransactionFromRawBytes(append([]byte{}, raw...))
	if err != nil {
		return o, false
	}
	o.Tx = tx
	var cerr error
	p, msg := hx.Recover(func() { cerr = validation.VerifCheckTransactionSignatures(tx) })
	switch {
	case p:
		o.Panicked, o.PanicMsg, o.Obs, o.Class = true, msg, "OPanic", "panic"
	case cerr != nil:
		o.Obs = "(OReject " + verrClass(cerr) + ")"
		o.Class = "reject:" + strings.Trim(verrClass(cerr), "()")
	case tx.IsEipTx():
		o.Obs, o.Class, o.Accepted = "OEip", "eip", true
	default:
		o.Accepted = true
		o.Addrs = append([]common.Address{}, tx.SignedAddr...)
		sort.Slice(o.Addrs, func(i, j int) bool { return bytes.Compare(o.Addrs[i][:], o.Addrs[j][:]) < 0 })
		o.Obs, o.Class = "(OAccept "+coqAddrs(pl, o.Addrs)+")", "accept"
	}
	tx2, err := types.TransactionFromRawBytes(append([]byte{}, raw...))
	if err != nil {
		panic("second decode failed")
	}
	var code ontErrors.ErrCode
	p2, _ := hx.Recover(func() { code = validation.VerifyTransaction(tx2) })
	if p2 {
		o.Code = "None"
	} else {
		o.Code = fmt.Sprintf("(Some %d)", uint64(code))
	}
	return o, true
}

// ---------- script scanning ----------

// pushSegments lists the byte strings at push positions of a script (every offset is tried, so
// this over-approximates what any parse can read).
func pushSegments(prog []byte, minLen uint64) [][]byte {
	seen := map[string]bool{}
	var out [][]byte
	for i := range prog {
		code := prog[i]
		var start, l uint64
		switch {
		case code == byte(neovm.PUSHDATA4):
			if i+5 > len(prog) {
				continue
			}
			l = uint64(prog[i+1]) | uint64(prog[i+2])<<8 | uint64(prog[i+3])<<16 | uint64(prog[i+4])<<24
			start = uint64(i) + 5
		case code == byte(neovm.PUSHDATA2):
			if i+3 > len(prog) {
				continue
			}
			l = uint64(prog[i+1]) | uint64(prog[i+2])<<8
			start = uint64(i) + 3
		case code == byte(neovm.PUSHDATA1):
			if i+2 > len(prog) {
				continue
			}
			l = uint64(prog[i+1])
			start = uint64(i) + 2
		case code >= byte(neovm.PUSHBYTES1) && code <= byte(neovm.PUSHBYTES75):
			l = uint64(code) - uint64(neovm.PUSHBYTES1) + 1
			start = uint64(i) + 1
		default:
			continue
		}
		if start+l > uint64(len(prog)) || l < minLen {
			continue
		}
		b := prog[start : start+l]
		if !seen[string(b)] {
			seen[string(b)] = true
			out = append(out, b)
		}
	}
	return out
}

// linearPushes reads a script as a sequence of data pushes from offset 0 (the reading of
// GetParamInfo, written independently) and returns the pushed strings up to the first byte that
// is not a complete push.
func linearPushes(prog []byte) [][]byte {
	var out [][]byte
	i := uint64(0)
	n := uint64(len(prog))
	for i < n {
		code := prog[i]
		var l, hdr uint64
		switch {
		case code == byte(neovm.PUSHDATA4):
			if i+5 > n {
				return out
			}
			l, hdr = uint64(prog[i+1])|uint64(prog[i+2])<<8|uint64(prog[i+3])<<16|uint64(prog[i+4])<<24, 5
		case code == byte(neovm.PUSHDATA2):
			if i+3 > n {
				return out
			}
			l, hdr = uint64(prog[i+1])|uint64(prog[i+2])<<8, 3
		case code == byte(neovm.PUSHDATA1):
			if i+2 > n {
				return out
			}
			l, hdr = uint64(prog[i+1]), 2
		case code >= byte(neovm.PUSHBYTES1) && code <= byte(neovm.PUSHBYTES75):
			l, hdr = uint64(code)-uint64(neovm.PUSHBYTES1)+1, 1
		default:
			return out
		}
		if i+hdr+l > n {
			return out
		}
		out = append(out, prog[i+hdr:i+hdr+l])
		i += hdr + l
	}
	return out
}

// ---------- signatures ----------

// Prov is the provenance of a signature the harness made itself.
type Prov struct {
	Key *Key
	Msg []byte
}

// World holds what a run knows: the pool, the signatures it made, caches.
type World struct {
	C       *hx.Ctx
	P       *Pool
	Made    map[string]Prov   // serialized signature -> who signed what
	pcCache map[string]string // serialized signature -> Coq list of panic curves
	probes  map[byte]keypair.PublicKey
	AbsSeen map[string]bool
	AbsN    int
}

func NewWorld(c *hx.Ctx, p *Pool) *World {
	w := &World{C: c, P: p, Made: map[string]Prov{}, pcCache: map[string]string{}, probes: map[byte]keypair.PublicKey{}, AbsSeen: map[string]bool{}}
	for _, l := range []byte{keypair.P224, keypair.P256, keypair.P384, keypair.P521, keypair.SECP256K1, keypair.SM2P256V1} {
		w.probes[l] = OffCurveKey(l)
	}
	return w
}

// SignWith signs msg and records the provenance.
func (w *World) SignWith(k *Key, msg []byte) []byte {
	b := k.Sign(msg)
	w.Made[string(b)] = Prov{k, append([]byte{}, msg...)}
	return b
}

// realVerify is one call of the crypto library: "VTrue", "VFalse" or "VPanic".
func realVerify(pub keypair.PublicKey, msg []byte, sg *s.Signature) string {
	var ok bool
	if p, _ := hx.Recover(func() { ok = s.Verify(pub, msg, sg) }); p {
		return "VPanic"
	}
	if ok {
		return "VTrue"
	}
	return "VFalse"
}

// panicCurves probes on which curve labels Verify panics for an off-curve key with this
// signature (independent of the message: the range checks on (r, s) precede the arithmetic).
func (w *World) panicCurves(sb []byte, sg *s.Signature, msg []byte) string {
	if v, ok := w.pcCache[string(sb)]; ok {
		return v
	}
	var items []string
	for _, l := range []byte{keypair.P224, keypair.P256, keypair.P384, keypair.P521, keypair.SECP256K1, keypair.SM2P256V1} {
		if realVerify(w.probes[l], msg, sg) == "VPanic" {
			items = append(items, fmt.Sprint(l))
		}
	}
	v := hx.CoqList(items)
	w.pcCache[string(sb)] = v
	return v
}

// Abs is the abstract value of one signature byte string.
type Abs struct {
	InTable bool // signature.Deserialize accepts it
	Coq     string
	Signer  *Key   // SigOf
	Msg     []byte // SigOf
	Short   bool   // SigEthShort
	sg      *s.Signature
}

// Classify determines the abstract signature for sb: provenance when the harness made it, else a
// search over the candidate keys with the crypto library's Verify on the transaction hash.
func (w *World) Classify(sb []byte, hash []byte, cands []*Key, hashCoq string) Abs {
	sg, err := s.Deserialize(sb)
	if err != nil {
		return Abs{}
	}
	a := Abs{InTable: true, sg: sg}
	if v, ok := sg.Value.([]byte); ok && sg.Scheme == s.KECCAK256WithECDSA && len(v) < ethcrypto.RecoveryIDOffset {
		a.Short, a.Coq = true, "SigEthShort"
		return a
	}
	pc := w.panicCurves(sb, sg, hash)
	if pr, ok := w.Made[string(sb)]; ok {
		a.Signer, a.Msg = pr.Key, pr.Msg
	} else {
		for _, k := range cands {
			if !k.Weak && realVerify(k.Pub, hash, sg) == "VTrue" {
				a.Signer, a.Msg = k, hash
				break
			}
		}
	}
	if a.Signer != nil {
		m := w.P.CB(a.Msg)
		if bytes.Equal(a.Msg, hash) {
			m = hashCoq
		}
		a.Coq = fmt.Sprintf("SigOf %s %s %s", w.P.Coq(a.Signer), m, pc)
	} else {
		a.Coq = "SigJunk " + pc
	}
	return a
}

// ---------- tables and the case ----------

// SetView is the harness's own reading of one RawSig (through the implementation's parsers,
// whose correctness is C23's subject): used for the tables, the oracle and CAbs cases.
type SetView struct {
	Raw    types.RawSig
	Parsed bool
	Keys   []*Key
	M      int
	Sigs   [][]byte
}

func ViewSet(g types.RawSig) (v SetView) {
	v.Raw = g
	hx.Recover(func() {
		sigs, err := program.GetParamInfo(g.Invoke)
		if err != nil {
			return
		}
		info, err := program.GetProgramInfo(g.Verify)
		if err != nil {
			return
		}
		for _, pk := range info.PubKeys {
			v.Keys = append(v.Keys, KeyOf(pk))
		}
		v.M, v.Sigs, v.Parsed = int(info.M), sigs, true
	})
	return
}

// Tables renders the tables of Corr/SigTab.v for a decoded transaction and returns the abstract
// value of every signature string (by content).  extra: further candidate signers (the keys of
// the transaction a mutant was derived from).
func (w *World) Tables(tx *types.Transaction, extra []*Key, hashCoq string) (coq string, abs map[string]Abs, views []SetView) {
	hash := tx.Hash()
	var dItems, wItems, sItems, hItems, kItems []string
	seenD, seenS, seenH, seenK, seenW := map[string]bool{}, map[string]bool{}, map[string]bool{}, map[string]bool{}, map[string]bool{}
	var cands []*Key
	candSeen := map[string]bool{}
	addCand := func(k *Key) {
		if !candSeen[k.id()] {
			candSeen[k.id()] = true
			cands = append(cands, k)
		}
	}
	addH := func(in []byte) {
		if !seenH[string(in)] {
			seenH[string(in)] = true
			hItems = append(hItems, fmt.Sprintf("(%s, %s)", w.P.CB(in), w.P.CB(Hash160(in))))
		}
	}
	for _, g := range tx.Sigs {
		for _, b := range pushSegments(g.Verify, 4) {
			if seenD[string(b)] {
				continue
			}
			seenD[string(b)] = true
			var pk keypair.PublicKey
			var err error
			if p, _ := hx.Recover(func() { pk, err = keypair.DeserializePublicKey(b) }); p || err != nil || pk == nil {
				continue
			}
			var k *Key
			if p, _ := hx.Recover(func() { k = KeyOf(pk) }); p {
				continue
			}
			w.P.Local(b)
			dItems = append(dItems, fmt.Sprintf("(%s, %s)", w.P.CB(b), w.P.Coq(k)))
			if k.Weak && !seenW[k.id()] {
				seenW[k.id()] = true
				wItems = append(wItems, w.P.Coq(k))
			}
			addCand(k)
		}
		w.P.Local(g.Verify)
		addH(g.Verify) // the fallback of GetSignatureAddresses (C17)
	}
	for _, k := range extra {
		addCand(k)
	}
	abs = map[string]Abs{}
	for _, g := range tx.Sigs {
		v := ViewSet(g)
		views = append(views, v)
		for _, sb := range linearPushes(g.Invoke) {
			if seenS[string(sb)] {
				continue
			}
			seenS[string(sb)] = true
			a := w.Classify(sb, hash[:], cands, hashCoq)
			abs[string(sb)] = a
			if a.InTable {
				sItems = append(sItems, fmt.Sprintf("(%s, %s)", w.P.CB(sb), a.Coq))
			}
		}
		if !v.Parsed {
			continue
		}
		// inputs of the two address hashes the validator may compute for this set
		if len(v.Keys) == 1 {
			k := v.Keys[0]
			if k.Ty == uint64(keypair.PK_ETHECDSA) {
				if len(k.Ser) > 2 && !seenK[string(k.Ser[2:])] {
					seenK[string(k.Ser[2:])] = true
					kItems = append(kItems, fmt.Sprintf("(%s, %s)", hx.CoqBytes(k.Ser[2:]), hx.CoqBytes(Keth(k.Ser[2:]))))
				}
			} else {
				hx.Recover(func() { addH(program.ProgramFromPubKey(k.Pub)) })
				hx.Recover(func() { addH(SpecSingleScript(k)) })
			}
		} else {
			var pubs []keypair.PublicKey
			for _, k := range v.Keys {
				pubs = append(pubs, k.Pub)
			}
			hx.Recover(func() {
				if prog, err := program.ProgramFromMultiPubKey(pubs, v.M); err == nil {
					addH(prog)
				}
				if 1 <= v.M && v.M <= len(v.Keys) && len(v.Keys) <= 16 {
					addH(SpecMultiScript(v.M, v.Keys)) // the standard script (equal to the builder's on an unchanged tree)
				}
			})
		}
	}
	coq = fmt.Sprintf("(mkTab %s %s %s %s %s)", hx.CoqList(dItems), hx.CoqList(wItems), hx.CoqList(sItems), hx.CoqList(hItems), hx.CoqList(kItems))
	return
}

// VtxCoq renders the validator's input record for a decoded transaction.
func (w *World) VtxCoq(tx *types.Transaction, hashCoq string) string {
	var sigs []string
	for _, g := range tx.Sigs {
		sigs = append(sigs, fmt.Sprintf("mkRawSig %s %s", w.P.CB(g.Invoke), w.P.CB(g.Verify)))
	}
	return fmt.Sprintf("(mkVtx %s %s %s %s)", hx.CoqBool(tx.IsEipTx()), hashCoq, w.P.CB(tx.Payer[:]), hx.CoqList(sigs))
}

// EmitAbs emits CAbs cases (and checks on the Go side) for the (key, signature) pairs of the
// parsed sets: the crypto library's answer against the abstract signature the harness chose.
// At most `budget` new pairs per call.
func (w *World) EmitAbs(tx *types.Transaction, views []SetView, abs map[string]Abs, in interface{}, budget int) {
	hash := tx.Hash()
	for _, v := range views {
		if !v.Parsed {
			continue
		}
		for _, sb := range v.Sigs {
			a, ok := abs[string(sb)]
			if !ok || !a.InTable {
				continue
			}
			for _, k := range v.Keys {
				if budget <= 0 {
					return
				}
				key := k.id() + "|" + string(sb) + "|" + string(hash[:])
				if w.AbsSeen[key] {
					continue
				}
				w.AbsSeen[key] = true
				budget--
				real := realVerify(k.Pub, hash[:], a.sg)
				w.C.Eval()
				w.AbsN++
				w.C.Count("abs-verify:" + real)
				// Go-side statement of the two directions of the signature abstraction
				isSigner := a.Signer != nil && bytes.Equal(a.Msg, hash[:]) && k.SameSigner(a.Signer)
				if real == "VTrue" && !isSigner {
					w.C.Fail("sigmodel:verifies-for-unrelated-key", "a signature verified for a key/message it was not made with (the abstract signature model does not cover it)", in,
						map[string]interface{}{"key": hx.Hex(k.Ser), "sig": hx.Hex(sb)}, "false")
				}
				if real == "VFalse" && isSigner {
					w.C.Fail("sigmodel:own-signature-rejected", "a signature made by the key over this hash did not verify", in,
						map[string]interface{}{"key": hx.Hex(k.Ser), "sig": hx.Hex(sb)}, "true")
				}
				w.C.Case(fmt.Sprintf("(let h := %s in CAbs %s %s h (%s) %s)", w.P.CB(hash[:]), hx.CoqBool(k.Weak), w.P.Coq(k), a.Coq, real),
					map[string]interface{}{"kind": "abs", "key": hx.Hex(k.Ser), "sig": hx.Hex(sb), "hash": hx.Hex(hash[:])})
			}
		}
	}
}

// LinearPushes is linearPushes, for the C17 driver.
func LinearPushes(prog []byte) [][]byte { return linearPushes(prog) }

func sDeserialize(b []byte) (*s.Signature, error) { return s.Deserialize(b) }
