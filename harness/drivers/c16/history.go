package c16

// Object histories.  The property quantifies over every path by which a transaction reaches
// acceptance: VerifyTransaction takes a *types.Transaction, an object with cached state
// (tx.SignedAddr is filled lazily by GetSignatureAddresses WITHOUT verification, and by a
// successful validation), and the pool calls other methods on the object before validating it.
// Every generated transaction is therefore validated again in several histories of the object, and
// in each the oracle must hold: accepted => by an independent check on the object as it is at the
// time of the call (tx.Sigs, tx.Hash(), tx.Payer), every signature set parses, has valid
// parameters, its counted signatures verify under M distinct keys, and the payer is a signer.

import (
	"bytes"
	"fmt"
	"strings"

	s "github.com/ontio/ontology-crypto/signature"
	"github.com/ontio/ontology/common"
	"github.com/ontio/ontology/core/types"
	"github.com/ontio/ontology/core/validation"
	ontErrors "github.com/ontio/ontology/errors"
	"github.com/ontio/ontology/validator/stateless"
	vatypes "github.com/ontio/ontology/validator/types"

	"verif/harness/hx"
)

// specAccept is the property's own statement on the object as it is now (no validator code).
// dupOnly: the only failed clause is "M distinct KEYS" (a repeated key counted per position), the
// class O1 reports on the fresh object.
func (d *Drv) specAccept(tx *types.Transaction) (bool, string) {
	hash := tx.Hash()
	key := string(hash[:]) + "|" + string(tx.Payer[:])
	for _, g := range tx.Sigs {
		key += fmt.Sprintf("|%d:%s|%d:%s", len(g.Invoke), g.Invoke, len(g.Verify), g.Verify)
	}
	if v, ok := d.specCache[key]; ok {
		return v.ok, v.why
	}
	ok, why := specAcceptRaw(tx)
	if d.specCache == nil {
		d.specCache = map[string]specVerdict{}
	}
	d.specCache[key] = specVerdict{ok, why}
	return ok, why
}

type specVerdict struct {
	ok  bool
	why string
}

func specAcceptRaw(tx *types.Transaction) (bool, string) {
	if tx.IsEipTx() {
		return true, "eip155"
	}
	hash := tx.Hash()
	if len(tx.Sigs) > 16 {
		return false, "more than 16 sets"
	}
	signers := map[common.Address]bool{}
	dup := ""
	for si, g := range tx.Sigs {
		v := ViewSet(g)
		if !v.Parsed {
			return false, fmt.Sprintf("set %d does not parse", si)
		}
		n, m := len(v.Keys), v.M
		if !(1 <= m && m <= n && n <= 16 && len(v.Sigs) >= m) {
			return false, fmt.Sprintf("set %d: m=%d n=%d sigs=%d", si, m, n, len(v.Sigs))
		}
		ok := make([][]bool, m)
		for i := 0; i < m; i++ {
			ok[i] = make([]bool, n)
			sg, err := s.Deserialize(v.Sigs[i])
			if err != nil {
				continue
			}
			for j, k := range v.Keys {
				ok[i][j] = !k.OffCurve && realVerify(k.Pub, hash[:], sg) == "VTrue"
			}
		}
		if got := maxMatching(ok, n); got < m {
			return false, fmt.Sprintf("set %d: %d of %d counted signatures verify under distinct keys", si, got, m)
		}
		if okd, nd := byDistinctKey(ok, v.Keys); maxMatching(okd, nd) < m {
			dup = fmt.Sprintf("set %d: fewer than %d distinct keys signed (a repeated key is counted per position)", si, m)
		}
		addr, okA := SpecAddress(v.Keys, m)
		if !okA {
			return false, fmt.Sprintf("set %d has no address", si)
		}
		signers[addr] = true
	}
	if !signers[tx.Payer] {
		return false, "payer is not a signer"
	}
	if dup != "" {
		return false, dupMarker + dup
	}
	return true, ""
}

const dupMarker = "[duplicate-key] "

// verifyCode runs VerifyTransaction on the object; accepted = ErrNoError.
func verifyCode(tx *types.Transaction) (accepted, panicked bool, msg string) {
	var code ontErrors.ErrCode
	panicked, msg = hx.Recover(func() { code = validation.VerifyTransaction(tx) })
	return !panicked && code == ontErrors.ErrNoError, panicked, msg
}

var statelessPool *stateless.ValidatorPool

// poolVerify submits the object to the transaction pool's stateless validator (the worker pool
// txnpool/proc starts for every incoming transaction) and waits for its response.
func poolVerify(tx *types.Transaction) bool {
	if statelessPool == nil {
		statelessPool = stateless.NewValidatorPool(1)
	}
	ch := make(chan *vatypes.CheckResponse, 1)
	statelessPool.SubmitVerifyTask(tx, ch)
	rsp := <-ch
	return rsp.ErrCode == ontErrors.ErrNoError
}

type histInput struct {
	Input
	History string `json:"history"`
}

// Histories validates the transaction in several histories of the object.
func (d *Drv) Histories(in Input, raw []byte, fresh Outcome) {
	c := d.C
	if fresh.Panicked {
		return
	}
	decode := func(b []byte) *types.Transaction {
		tx, err := types.TransactionFromRawBytes(append([]byte{}, b...))
		if err != nil {
			return nil
		}
		return tx
	}
	check := func(name string, tx *types.Transaction, accepted, panicked bool, msg string, sameBytes bool) {
		c.Eval()
		c.Count("history:" + name)
		hin := histInput{in, name}
		if panicked {
			c.Fail("panic:history:"+name, "the validator panicked", hin, msg, "an error code")
			return
		}
		if accepted {
			if ok, why := d.specAccept(tx); !ok && strings.HasPrefix(why, dupMarker) {
				c.Count("history-duplicate-key-accepted:" + name) // the class O1 reports on the fresh object
			} else if !ok {
				c.Fail("accepted-invalid-in-history:"+name, "accepted although, on the object as it is at the time of the call, "+why, hin, "accepted", "rejected")
				return
			}
		}
		if sameBytes && accepted != fresh.Accepted {
			c.Fail("history-changes-verdict:"+name, "the same bytes get a different verdict after this history of the object", hin,
				map[string]bool{"accepted": accepted}, map[string]bool{"accepted": fresh.Accepted})
		}
	}
	// 1. GetSignatureAddresses first (fills tx.SignedAddr from the raw scripts, unverified)
	if tx := decode(raw); tx != nil {
		hx.Recover(func() { tx.GetSignatureAddresses() })
		a, p, m := verifyCode(tx)
		check("after-GetSignatureAddresses", tx, a, p, m, true)
	}
	// 2. Hash / ToArray first
	if tx := decode(raw); tx != nil {
		hx.Recover(func() { tx.Hash(); tx.ToArray(); tx.Hash() })
		a, p, m := verifyCode(tx)
		check("after-Hash-ToArray", tx, a, p, m, true)
	}
	// 3. verified twice in a row on one object
	if tx := decode(raw); tx != nil {
		verifyCode(tx)
		a, p, m := verifyCode(tx)
		check("verified-twice", tx, a, p, m, true)
	}
	// 4. the order of the pool's entry path (TxPoolService.handleTransaction): ToArray, Hash,
	// preExecCheck's GetSignatureAddresses, then the stateless validator's worker pool
	if len(raw) < 4000 {
		if tx := decode(raw); tx != nil {
			var acc bool
			p, msg := hx.Recover(func() {
				tx.ToArray()
				tx.Hash()
				tx.GetSignatureAddresses()
				acc = poolVerify(tx)
			})
			check("pool-entry-order", tx, acc, p, msg, true)
		}
	}
	// 5. an accepted object re-used: validated, then its payer / one signature changed in place
	if fresh.Accepted && !fresh.Tx.IsEipTx() {
		if tx := decode(raw); tx != nil {
			verifyCode(tx)
			tx.Payer[c.Intn(len(tx.Payer))] ^= byte(1 + c.Intn(255))
			a, p, m := verifyCode(tx)
			check("validated-then-payer-changed-in-place", tx, a, p, m, false)
		}
		if tx := decode(raw); tx != nil && len(tx.Sigs) > 0 && len(tx.Sigs[0].Invoke) > 8 {
			verifyCode(tx)
			inv := append([]byte{}, tx.Sigs[0].Invoke...)
			inv[len(inv)/2] ^= byte(1 + c.Intn(255))
			tx.Sigs[0].Invoke = inv
			a, p, m := verifyCode(tx)
			check("validated-then-signature-changed-in-place", tx, a, p, m, false)
		}
	}
	// 6. the object of a valid variant, validated, then changed in place to this variant's
	// signature section and payer (an object re-used after a successful validation)
	valid := in.Valid
	if valid == "" {
		valid = in.Base
	}
	if valid != "" && !bytes.Equal(hx.UnHex(valid), raw) {
		obj, variant := decode(hx.UnHex(valid)), decode(raw)
		if obj != nil && variant != nil {
			if a0, _, _ := verifyCode(obj); a0 {
				obj.Sigs = variant.Sigs
				obj.Payer = variant.Payer
				a, p, m := verifyCode(obj)
				check("reused-after-valid-then-mutated-in-place", obj, a, p, m, false)
				// ... and with the cached signer set of the unverified fallback on top
				obj2 := decode(hx.UnHex(valid))
				obj2.GetSignatureAddresses()
				obj2.Sigs = variant.Sigs
				obj2.Payer = variant.Payer
				a, p, m = verifyCode(obj2)
				check("fallback-cached-then-mutated-in-place", obj2, a, p, m, false)
			}
		}
	}
}
