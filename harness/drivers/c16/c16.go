// Driver for C16: only correctly signed transactions paid by a signer are accepted.
//
// Correspondence cases (Corr/C16.v): checkTransactionSignatures / VerifyTransaction on decoded
// transactions against Model/Sig.v run with recorded tables (key deserializer, abstract
// signatures, address hashes), plus one case per crypto-library Verify call that validates the
// abstract signature model itself.
//
// Oracle (directly on the implementation, independent of the model):
//
//	O1  every accepted Ontology-format transaction is justified: each signature set parses, has
//	    1 <= M <= N <= 16, its first M signatures can be matched to M distinct key positions under
//	    the crypto library's Verify over the transaction hash, the stored signer accounts are the
//	    addresses of the sets, and the payer is one of them;
//	O2  transactions that are invalid by construction (signature over another hash, by a foreign
//	    key, the same signature counted twice, too few signatures, junk, payer not a signer,
//	    signatures of another transaction ...) are rejected, valid ones are accepted;
//	O3  every single-byte change of the signed content of an accepted transaction, and every
//	    change of a counted signature after which the crypto library no longer verifies it under a
//	    key of its set, is rejected;
//	O4  the validator returns (no panic: any panic is a failing input, incl. the two classes
//	    repaired by c4422b91 whose witnesses are replayed first from corpus/C16), and
//	    VerifyTransaction's code is ErrNoError exactly when checkTransactionSignatures returned nil.
package c16

import (
	"bytes"
	"encoding/json"
	"fmt"
	"os"
	"strings"

	s "github.com/ontio/ontology-crypto/signature"
	"github.com/ontio/ontology/common"
	"github.com/ontio/ontology/common/log"
	"github.com/ontio/ontology/core/types"
	ontErrors "github.com/ontio/ontology/errors"

	"verif/harness/hx"
)

func init() { hx.Register("C16", Run) }

// Input is the replayable description of one driver step.
type Input struct {
	Kind   string `json:"kind"`
	Raw    string `json:"raw"`              // transaction bytes
	Expect string `json:"expect,omitempty"` // accept | reject | "" (only O1/O4 apply)
	Base   string `json:"base,omitempty"`   // for mutants: the accepted transaction they were derived from
	Valid  string `json:"valid,omitempty"`  // a valid variant of the same plan (for the object re-use history)
	Pos    int    `json:"pos,omitempty"`
	Note   string `json:"note,omitempty"`
	// direct calls of VerifyMultiSignature (kind direct-multi:*)
	Keys []string `json:"keys,omitempty"`
	Sigs []string `json:"sigs,omitempty"`
	Hash string   `json:"hash,omitempty"`
	M    int      `json:"m,omitempty"`
}

type Drv struct {
	C         *hx.Ctx
	W         *World
	AbsBudget int
	// hook for C17: called with every decoded transaction after the validator ran
	After func(in Input, raw []byte, o Outcome, tables string, hashCoq string, views []SetView)
	// NoCase suppresses the C16 correspondence cases and oracle (C17 reuses the generators)
	NoCase bool

	specCache map[string]specVerdict
}

func panicClass(msg string) string {
	switch {
	case strings.Contains(msg, "slice bounds out of range"):
		return "panic:eth-key-short-signature"
	case strings.Contains(msg, "invalid point"):
		return "panic:off-curve-key"
	}
	return "panic:other"
}

// maxMatching: can every row i (a counted signature) be matched to a distinct column j (a key
// position) with ok[i][j]?
func maxMatching(ok [][]bool, n int) int {
	matchCol := make([]int, n)
	for i := range matchCol {
		matchCol[i] = -1
	}
	var try func(i int, seen []bool) bool
	try = func(i int, seen []bool) bool {
		for j := 0; j < n; j++ {
			if ok[i][j] && !seen[j] {
				seen[j] = true
				if matchCol[j] < 0 || try(matchCol[j], seen) {
					matchCol[j] = i
					return true
				}
			}
		}
		return false
	}
	cnt := 0
	for i := range ok {
		if try(i, make([]bool, n)) {
			cnt++
		}
	}
	return cnt
}

// byDistinctKey merges the columns (key positions) that hold the same public key.
func byDistinctKey(ok [][]bool, keys []*Key) ([][]bool, int) {
	col := map[string]int{}
	idx := make([]int, len(keys))
	for j, k := range keys {
		id := fmt.Sprintf("%d|%x", k.Ty, k.Ser)
		if _, seen := col[id]; !seen {
			col[id] = len(col)
		}
		idx[j] = col[id]
	}
	out := make([][]bool, len(ok))
	for i := range ok {
		out[i] = make([]bool, len(col))
		for j := range ok[i] {
			if ok[i][j] {
				out[i][idx[j]] = true
			}
		}
	}
	return out, len(col)
}

// justify is oracle O1.
func (d *Drv) justify(in Input, o Outcome, views []SetView) {
	c := d.C
	tx := o.Tx
	hash := tx.Hash()
	if len(tx.Sigs) > 16 {
		c.Fail("accepted-too-many-sets", "more than 16 signature sets accepted", in, len(tx.Sigs), "<= 16")
	}
	want := map[common.Address]bool{}
	for si, v := range views {
		if !v.Parsed {
			c.Fail("accepted-unparsed-set", "accepted although a signature set does not parse", in, si, "rejected")
			return
		}
		n, m := len(v.Keys), v.M
		if !(1 <= m && m <= n && n <= 16 && len(v.Sigs) >= m) {
			c.Fail("accepted-bad-params", "accepted with an invalid threshold / key count / signature count", in,
				map[string]int{"set": si, "m": m, "n": n, "sigs": len(v.Sigs)}, "1 <= m <= n <= 16, sigs >= m")
			return
		}
		ok := make([][]bool, m)
		for i := 0; i < m; i++ {
			ok[i] = make([]bool, n)
			sg, err := s.Deserialize(v.Sigs[i])
			if err != nil {
				continue
			}
			for j, k := range v.Keys {
				c.Eval()
				ok[i][j] = !k.OffCurve && realVerify(k.Pub, hash[:], sg) == "VTrue"
			}
		}
		if got := maxMatching(ok, n); got < m {
			c.Fail("accepted-unverified", "accepted although the counted signatures do not verify under M distinct key positions of the set", in,
				map[string]int{"set": si, "distinct_verified": got, "m": m}, "rejected")
			return
		}
		// the property's own wording: M DISTINCT KEYS (a key repeated in the script is one key)
		if okd, nd := byDistinctKey(ok, v.Keys); maxMatching(okd, nd) < m {
			c.Fail("accepted-invalid:duplicate-key-counted-twice", "accepted although fewer than M distinct keys of the script have a valid signature: a public key repeated in the verification script is counted once per position", in,
				map[string]int{"set": si, "distinct_keys_with_valid_signature": maxMatching(okd, nd), "m": m, "keys_in_script": n, "distinct_keys_in_script": nd}, "rejected")
		}
		addr, okA := SpecAddress(v.Keys, m)
		if !okA {
			c.Fail("accepted-no-address", "accepted although the set has no address", in, si, "an address")
			return
		}
		want[addr] = true
	}
	got := map[common.Address]bool{}
	for _, a := range o.Addrs {
		got[a] = true
	}
	same := len(got) == len(want) && len(o.Addrs) == len(got)
	for a := range want {
		same = same && got[a]
	}
	if !same {
		c.Fail("signer-set-wrong", "tx.SignedAddr is not the set of addresses derived from the verified sets", in, len(got), len(want))
	}
	if !want[tx.Payer] {
		c.Fail("payer-not-signer", "accepted although the payer is not one of the signer accounts", in, tx.Payer.ToHexString(), "rejected")
	}
}

// DoTx runs one transaction: evaluation, correspondence case, oracle.
func (d *Drv) DoTx(in Input, raw []byte, extra []*Key) (o Outcome, decoded bool) {
	c := d.C
	c.Eval()
	in.Raw = hx.Hex(raw)
	o, decoded = Evaluate(d.W.P, raw)
	if !decoded {
		c.Count("decode-rejected:" + in.Kind)
		return
	}
	c.Count("outcome:" + o.Class)
	c.Count("kind:" + in.Kind)
	c.Count(fmt.Sprintf("sets:%d", len(o.Tx.Sigs)))
	hash := o.Tx.Hash()
	d.W.P.BeginCase()
	for _, g := range o.Tx.Sigs {
		for _, sb := range linearPushes(g.Invoke) {
			d.W.P.Local(sb)
		}
	}
	tables, abs, views := d.W.Tables(o.Tx, extra, "h")
	for _, v := range views {
		if v.Parsed {
			if len(v.Keys) == 1 {
				c.Count("set:single:" + kindOf(d.W.P, v.Keys[0]))
			} else {
				c.Count(fmt.Sprintf("set:%d-of-%d", v.M, len(v.Keys)))
			}
		} else {
			c.Count("set:unparsed")
		}
	}
	if d.After != nil {
		d.After(in, raw, o, tables, hx.CoqBytes(hash[:]), views)
	}
	if d.NoCase {
		return
	}
	c.Case(d.W.P.WrapCase(fmt.Sprintf("let h := %s in CCheck %s %s %s %s", d.W.P.CB(hash[:]), d.W.VtxCoq(o.Tx, "h"), tables, o.Obs, o.Code)), in)
	d.W.P.BeginCase()
	budget := d.AbsBudget
	if in.Base != "" {
		budget = 1
	}
	d.W.EmitAbs(o.Tx, views, abs, in, budget)

	// O4
	if o.Panicked {
		c.Fail(panicClass(o.PanicMsg), "the validator panicked instead of returning an error code", in, o.PanicMsg, "ErrVerifySignature")
	}
	okCode := fmt.Sprintf("(Some %d)", uint64(ontErrors.ErrNoError))
	badCode := fmt.Sprintf("(Some %d)", uint64(ontErrors.ErrVerifySignature))
	if !o.Panicked && ((o.Accepted && o.Code != okCode) || (!o.Accepted && o.Code != badCode)) {
		c.Fail("code-mismatch", "VerifyTransaction's error code does not reflect checkTransactionSignatures", in, o.Code, o.Class)
	}
	// O1
	if o.Accepted && !o.Tx.IsEipTx() {
		d.justify(in, o, views)
	}
	// O2 / O3
	switch in.Expect {
	case "reject":
		if o.Accepted {
			c.Fail("accepted-invalid:"+in.Kind, "a transaction that is invalid by construction was accepted", in, o.Class, "rejected")
		}
	case "accept":
		if !o.Accepted && !o.Panicked {
			c.Fail("valid-rejected:"+in.Kind, "a correctly signed transaction paid by a signer was rejected", in, o.Class, "accepted")
		}
	}
	if o.Accepted || strings.HasPrefix(o.Class, "reject:VE") && !strings.HasPrefix(o.Class, "reject:VEGetSig") {
		c.Nontrivial(in.Raw)
	}
	d.Histories(in, raw, o)
	if len(raw) < 400 {
		c.Sample(map[string]interface{}{"kind": in.Kind, "expect": in.Expect, "outcome": o.Class, "sets": len(o.Tx.Sigs), "len": len(raw)})
	}
	return
}

func kindOf(p *Pool, k *Key) string {
	if q := p.Find(k); q != nil {
		return q.Kind
	}
	return "other"
}

// stillVerifies: does the crypto library accept sb under some key of the set over this hash?
func stillVerifies(v SetView, sb []byte, hash []byte) bool {
	sg, err := s.Deserialize(sb)
	if err != nil {
		return false
	}
	for _, k := range v.Keys {
		if realVerify(k.Pub, hash, sg) == "VTrue" {
			return true
		}
	}
	return false
}

func (d *Drv) replay(in Input) {
	raw := hx.UnHex(in.Raw)
	var extra []*Key
	if in.Base != "" {
		if tx, err := types.TransactionFromRawBytes(hx.UnHex(in.Base)); err == nil {
			for _, g := range tx.Sigs {
				extra = append(extra, ViewSet(g).Keys...)
			}
		}
	}
	d.DoTx(in, raw, extra)
}

func Run(c *hx.Ctx) {
	log.InitLog(log.FatalLog, os.Stderr) // VerifyTransaction logs every rejection
	c.CoqModule("Corr.C16")
	d := &Drv{C: c, AbsBudget: 3}
	var rin Input
	if c.ReplayInput(&rin) {
		// a failing input, or the description of a correspondence case (the check replays the
		// first disagreeing cases through the oracle): transaction cases carry their bytes; the
		// CAbs cases (one crypto-library call) have no transaction to validate
		if rin.Raw != "" {
			d.W = NewWorld(c, NewPool())
			d.replay(rin)
		} else if len(rin.Keys) > 0 {
			d.W = NewWorld(c, NewPool())
			d.replayDirect(rin)
		}
		return
	}
	pool := BuildPool(c, c.N(3, 6))
	d.W = NewWorld(c, pool)
	for _, k := range pool.Keys {
		c.CoqHeader(fmt.Sprintf("Definition %s : pubkey := %s.", k.Name, k.CoqFull()))
		c.Count("pool:" + k.Kind)
	}
	bases := d.PrepareBases()
	dups := d.PrepareDup()
	for _, def := range pool.BlobDefs {
		c.CoqHeader(def)
	}
	for _, rawIn := range c.CorpusInputs() {
		var in Input
		if json.Unmarshal(rawIn, &in) == nil && in.Raw != "" {
			d.replay(in)
		}
	}
	d.RunDup(dups)
	d.OverSigned(1)
	d.DupKeys()
	d.Hostile()
	d.Generate(bases)
	if os.Getenv("C16_NOPAYER") == "" {
		d.UnsignedPayers()
	}
	c.Note(fmt.Sprintf("abstract-signature validation: %d crypto-library Verify calls compared with abs_verify", d.W.AbsN))
}

var _ = bytes.Equal
