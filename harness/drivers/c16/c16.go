package c16

import "verif/harness/hx"

func init() { hx.Register("C16", Run) }

func Run(c *hx.Ctx) {}
