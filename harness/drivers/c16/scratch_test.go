//go:build verif

package c16

import (
	"crypto/sha256"
	"fmt"
	"testing"

	"github.com/ontio/ontology-crypto/keypair"
	s "github.com/ontio/ontology-crypto/signature"
)

func TestScratch(t *testing.T) {
	h := sha256.Sum256([]byte("x"))
	for _, curve := range []byte{keypair.P224, keypair.P256, keypair.P384, keypair.P521, keypair.SM2P256V1, keypair.SECP256K1} {
		for _, ty := range []keypair.KeyType{keypair.PK_ECDSA, keypair.PK_SM2} {
			pri, pub, err := keypair.GenerateKeyPair(ty, curve)
			if err != nil {
				fmt.Println("gen", curve, ty, err)
				continue
			}
			ser := keypair.SerializePublicKey(pub)
			// uncompressed off-curve encoding
			var n int
			if ty == keypair.PK_ECDSA && curve == keypair.P256 {
				n = len(ser) - 1
			} else {
				n = len(ser) - 3
			}
			bad := []byte{byte(ty), curve, 4}
			bad = append(bad, ser[len(ser)-n:]...)
			y := make([]byte, n)
			y[n-1] = 5
			bad = append(bad, y...)
			pk, err := keypair.DeserializePublicKey(bad)
			if err != nil {
				fmt.Println("deser", curve, ty, err)
				continue
			}
			scheme := s.SHA256withECDSA
			if ty == keypair.PK_SM2 {
				scheme = s.SM3withSM2
			}
			sg, err := s.Sign(scheme, pri, h[:], nil)
			if err != nil {
				fmt.Println("sign", curve, ty, err)
				continue
			}
			func() {
				defer func() {
					if r := recover(); r != nil {
						fmt.Println("PANIC curve", curve, "type", ty, r)
					}
				}()
				fmt.Println("curve", curve, "type", ty, "verify off-curve:", s.Verify(pk, h[:], sg), "good:", s.Verify(pub, h[:], sg))
			}()
		}
	}
}
