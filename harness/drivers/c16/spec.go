package c16

// Spec-level encoders, written independently of core/program and core/types/address.go: the
// STANDARD signature scripts and account addresses as every wallet / SDK writes them.  The
// generators and the oracles use these, never the node's own builders, so a change that keeps the
// node's builder and parser mutually consistent but leaves the standard is still seen.
//
//	single key:  PUSH(key) CHECKSIG(0xAC)
//	m-of-n:      PUSHm key_1 .. key_n PUSHn CHECKMULTISIG(0xAE), keys in canonical compressed
//	             serialization, sorted by (key type, curve, X, Y); PUSH1..PUSH16 = 0x51..0x60
//	data push:   length byte 0x01..0x4B for 1..75 bytes, 0x4C len for 76..255
//	address:     RIPEMD160(SHA256(script)); single Ethereum-style key: Keccak256(X||Y)[12:]

import (
	"fmt"
	"sort"

	"github.com/ontio/ontology-crypto/keypair"
	"github.com/ontio/ontology/common"
)

func specPushData(d []byte) []byte {
	switch {
	case len(d) == 0:
		panic("spec: empty push")
	case len(d) <= 75:
		return append([]byte{byte(len(d))}, d...)
	case len(d) <= 255:
		return append([]byte{0x4c, byte(len(d))}, d...)
	}
	panic("spec: push longer than 255 bytes")
}

func specPushNum(v int) byte {
	if v < 1 || v > 16 {
		panic(fmt.Sprintf("spec: number push %d outside 1..16", v))
	}
	return byte(0x50 + v)
}

func specLess(a, b *Key) bool {
	if a.Ty != b.Ty {
		return a.Ty < b.Ty
	}
	if a.IsEC() && a.Curve != b.Curve {
		return a.Curve < b.Curve
	}
	if c := a.X.Cmp(b.X); c != 0 {
		return c < 0
	}
	return a.Y.Cmp(b.Y) < 0
}

// SpecSorted: the canonical key order (stable).
func SpecSorted(ks []*Key) []*Key {
	out := append([]*Key{}, ks...)
	sort.SliceStable(out, func(i, j int) bool { return specLess(out[i], out[j]) })
	return out
}

func SpecSingleScript(k *Key) []byte {
	return append(specPushData(k.Ser), 0xac)
}

// SpecMultiScript: the standard m-of-n script of a key set (any input order).
func SpecMultiScript(m int, keys []*Key) []byte {
	out := []byte{specPushNum(m)}
	for _, k := range SpecSorted(keys) {
		out = append(out, specPushData(k.Ser)...)
	}
	return append(out, specPushNum(len(keys)), 0xae)
}

// SpecAddress: the account of a parsed (keys, m) pair; ok=false outside 1<=m<=n, n<=16.
func SpecAddress(keys []*Key, m int) (a common.Address, ok bool) {
	n := len(keys)
	if n == 1 {
		k := keys[0]
		if k.Ty == uint64(keypair.PK_ETHECDSA) {
			if len(k.Ser) < 3 {
				return a, false
			}
			copy(a[:], Keth(k.Ser[2:]))
			return a, true
		}
		copy(a[:], Hash160(SpecSingleScript(k)))
		return a, true
	}
	if !(1 <= m && m <= n && n >= 2 && n <= 16) {
		return a, false
	}
	copy(a[:], Hash160(SpecMultiScript(m, keys)))
	return a, true
}
