package c16

// Unsigned SPECIAL payers x REPEATED signer accounts x 1..16 signature sets.
//
// The payer clause of the property ("... and the payer is among the signing accounts") is decided
// by a membership test on whatever container the validator collects the signer accounts in.  The
// containers that go wrong do so on values the random "payer-foreign" defect (20 random bytes) never
// draws, and only when the number of signature sets differs from the number of distinct accounts:
// a pre-sized slice whose unused tail holds the zero address, a sentinel, a truncated or hashed key.
// So, on every run, for every number of sets T in 1..16 one transaction structure in which ONE
// account is attached r times (r = 2, r = T and random 2..T; the account a single key for odd T, an
// m-of-n set for even T; the r attachments byte-identical or signed separately, for m-of-n also by
// different m-subsets; the other T-r sets random, all accounts pairwise different; set order
// shuffled), each structure with the payers
//
//	signer        one of the attached accounts                                  -> accepted, and
//	              tx.SignedAddr = the DISTINCT accounts (O1)
//	zero          the all-zero address (common.ADDRESS_EMPTY)                   -> rejected
//	ones          the all-0xff address                                          -> rejected
//	bitflip       the account of one attached set with ONE bit changed          -> rejected
//	other-scheme  the address the repeated set's key material has under another
//	              derivation: Ethereum key <-> script hash, secp256k1 point <->
//	              Keccak address, EC key in uncompressed encoding, Ed25519 key as
//	              1-of-1 CHECKMULTISIG, (keys, M') with M' != M for an m-of-n set  -> rejected
//
// plus the ECDSA/SM2 twin keys of one point (the other key's account pays, the signing key's set
// attached twice).  All of it is judged by the existing oracles: O1 (accepted => payer among the
// spec-level accounts of the sets, tx.SignedAddr = those accounts), O2 (expectation by
// construction), the object histories and the correspondence case.

import (
	"fmt"

	"github.com/ontio/ontology-crypto/keypair"
	"github.com/ontio/ontology/common"

	"verif/harness/hx"
)

// otherSchemeAddr: an address that belongs to the key material of the set under a derivation the
// validator does not use for it (nobody signed for that account).
func otherSchemeAddr(sp *SetPlan) (a common.Address, how string) {
	if len(sp.Keys) > 1 {
		n := len(sp.Keys)
		a, _ = SpecAddress(sp.Keys, sp.M%n+1)
		return a, "other-threshold"
	}
	k := sp.Keys[0]
	switch {
	case k.Ty == uint64(keypair.PK_ETHECDSA):
		copy(a[:], Hash160(SpecSingleScript(k)))
		return a, "eth-key-script-hash"
	case k.IsEC() && k.Curve == uint64(keypair.SECP256K1):
		xy := make([]byte, 64)
		k.X.FillBytes(xy[:32])
		k.Y.FillBytes(xy[32:])
		copy(a[:], Keth(xy))
		return a, "secp256k1-point-keccak"
	case k.IsEC():
		copy(a[:], Hash160(append(specPushData(UncompressedSer(k, false)), 0xac)))
		return a, "uncompressed-key-script-hash"
	}
	script := append([]byte{specPushNum(1)}, specPushData(k.Ser)...)
	copy(a[:], Hash160(append(script, specPushNum(1), 0xae)))
	return a, "one-of-one-multisig-script-hash"
}

// payerStructure is one list of signature sets with a repeated account.
type payerStructure struct {
	sets  []*SetPlan
	dupAt []int // indices of the attachments of the repeated account (one index when nothing repeats)
	same  bool  // the attachments carry byte-identical signature lists
	shape string
	note  string
}

func (d *Drv) payerStructure(T, r int, multi bool) *payerStructure {
	c := d.C
	ps := &payerStructure{same: r > 1 && c.Intn(2) == 0}
	var dup []*SetPlan
	if multi {
		n := 2 + c.Intn(3)
		m := 1 + c.Intn(n)
		keys := d.PickKeys(n)
		for i := 0; i < r; i++ {
			perm := c.Rng.Perm(n)
			var signers []*Key
			for _, j := range perm[:m] {
				signers = append(signers, keys[j])
			}
			dup = append(dup, &SetPlan{Keys: keys, M: m, Signers: signers})
		}
		ps.shape = fmt.Sprintf("%d-of-%d", m, n)
	} else {
		k := d.PickKeys(1)
		for i := 0; i < r; i++ {
			dup = append(dup, &SetPlan{Keys: k, M: 1, Signers: k})
		}
		ps.shape = "single:" + k[0].Kind
	}
	taken := map[common.Address]bool{dup[0].Address(): true}
	var others []*SetPlan
	for tries := 0; len(others) < T-r && tries < 400; tries++ {
		sp := d.RandSet(3)
		if a := sp.Address(); !taken[a] {
			taken[a] = true
			others = append(others, sp)
		}
	}
	all := append(append([]*SetPlan{}, dup...), others...)
	ps.sets = make([]*SetPlan, len(all))
	for i, p := range c.Rng.Perm(len(all)) {
		ps.sets[p] = all[i]
		if i < r {
			ps.dupAt = append(ps.dupAt, p)
		}
	}
	mode := "separately-signed"
	if ps.same {
		mode = "byte-identical"
	}
	ps.note = fmt.Sprintf("sets=%d repeated=%s x%d %s", len(all), ps.shape, r, mode)
	return ps
}

// build assembles the structure with the given payer.
func (d *Drv) payerBuild(ps *payerStructure, payer common.Address) *Built {
	pl := &Plan{U: d.RandUnsigned(), Payer: &payer}
	for _, sp := range ps.sets {
		cp := *sp
		pl.Sets = append(pl.Sets, &cp)
	}
	b := d.Assemble(pl)
	if ps.same {
		for _, i := range ps.dupAt[1:] {
			b.Sigs[i] = b.Sigs[ps.dupAt[0]]
		}
		b.encode()
	}
	return b
}

func (d *Drv) payerRun(ps *payerStructure, tag string) {
	c := d.C
	accounts := map[common.Address]bool{}
	for _, sp := range ps.sets {
		accounts[sp.Address()] = true
	}
	c.Count(fmt.Sprintf("unsigned-payer-structure:sets=%d", len(ps.sets)))
	c.Count(fmt.Sprintf("unsigned-payer-structure:repeated-x%d", len(ps.dupAt)))
	c.Count(fmt.Sprintf("unsigned-payer-structure:distinct-accounts=%d", len(accounts)))
	// control: one of the attached accounts pays
	signer := ps.sets[c.Intn(len(ps.sets))].Address()
	ctl := d.payerBuild(ps, signer)
	d.DoTx(Input{Kind: "unsigned-payer:control-signer-pays:" + tag, Expect: "accept", Note: ps.note}, ctl.Raw, ctl.AllKeys())
	valid := hx.Hex(ctl.Raw)

	var ones common.Address
	for i := range ones {
		ones[i] = 0xff
	}
	flipped := ps.sets[c.Intn(len(ps.sets))].Address()
	flipped[c.Intn(len(flipped))] ^= 1 << uint(c.Intn(8))
	other, how := otherSchemeAddr(ps.sets[ps.dupAt[0]])
	for _, pv := range []struct {
		name string
		a    common.Address
		how  string
	}{{"zero", common.ADDRESS_EMPTY, ""}, {"ones", ones, ""}, {"bitflip", flipped, ""}, {"other-scheme", other, " " + how}} {
		if accounts[pv.a] {
			c.Count("unsigned-payer-is-a-signer-after-all:" + pv.name)
			continue
		}
		b := d.payerBuild(ps, pv.a)
		d.DoTx(Input{Kind: "unsigned-payer:" + pv.name + ":" + tag, Expect: "reject", Note: ps.note + pv.how, Valid: valid}, b.Raw, b.AllKeys())
	}
}

// UnsignedPayers is the whole family (see the head of the file).
func (d *Drv) UnsignedPayers() {
	c := d.C
	save := d.AbsBudget
	d.AbsBudget = 1
	defer func() { d.AbsBudget = save }()
	for round, rounds := 0, c.N(1, 3); round < rounds; round++ {
		for T := 1; T <= 16; T++ {
			multi := T%2 == 0
			r := 1
			switch {
			case T == 1:
			case T <= 3:
				r = 2
			case T <= 5, T >= 15:
				r = T
			default:
				r = 2 + c.Intn(T-1)
			}
			tag := "nothing-repeated"
			if r > 1 && multi {
				tag = "m-of-n-set-repeated"
			} else if r > 1 {
				tag = "single-key-set-repeated"
			}
			d.payerRun(d.payerStructure(T, r, multi), tag)
		}
		// the ECDSA-typed and the SM2-typed key of ONE point: each verifies the other's signatures, but
		// they are two accounts; the set of one attached twice, the account of the other pays
		a := d.W.P.ByKind["ecdsa-sm2p256v1"][0]
		tw := d.W.P.ByKind["sm2-twin-of-ecdsa"][0]
		for _, pair := range [][2]*Key{{a, tw}, {tw, a}} {
			signerKey, payerKey := pair[0], pair[1]
			payer, _ := SpecAddress([]*Key{payerKey}, 1)
			sp := &SetPlan{Keys: []*Key{signerKey}, M: 1, Signers: []*Key{signerKey}}
			ps := &payerStructure{sets: []*SetPlan{sp, sp}, dupAt: []int{0, 1}, same: c.Intn(2) == 0,
				note: "sets=2 repeated=single:" + signerKey.Kind + " x2; payer = account of the same point typed " + payerKey.Kind}
			b := d.payerBuild(ps, payer)
			d.DoTx(Input{Kind: "unsigned-payer:twin-key-account:single-key-set-repeated", Expect: "reject", Note: ps.note}, b.Raw, b.AllKeys())
		}
	}
}
