package c16

// Keys with their private halves, the projection of a public key to the model's key record, and
// signing.  Exported: the C17 driver builds on the same pool.

import (
	"bytes"
	"crypto/ecdsa"
	"fmt"
	"math/big"
	"strings"

	ethcrypto "github.com/ethereum/go-ethereum/crypto"
	"github.com/ontio/ontology-crypto/ec"
	"github.com/ontio/ontology-crypto/keypair"
	s "github.com/ontio/ontology-crypto/signature"
	"golang.org/x/crypto/ed25519"

	"verif/harness/hx"
)

// Key is a public key projected to what Model/Program.v's pubkey record holds, plus (for pool
// keys) the private key and the signature scheme it signs with.
type Key struct {
	Pub      keypair.PublicKey
	Pri      keypair.PrivateKey
	Scheme   s.SignatureScheme
	Ty       uint64
	Curve    uint64 // curve label for ECDSA/SM2 keys, 0 otherwise
	X, Y     *big.Int
	Ser      []byte
	Weak     bool   // EC key whose point is not on its curve and on which the curve arithmetic panics
	OffCurve bool   // EC key whose point is not on its curve (incl. (0, 0))
	Name     string // Coq name when the key is in the pool
	Kind     string
}

// KeyOf projects a keypair.PublicKey (panics on an unknown dynamic type, like GetKeyType).
func KeyOf(pub keypair.PublicKey) *Key {
	k := &Key{Pub: pub, X: new(big.Int), Y: new(big.Int)}
	switch t := pub.(type) {
	case *ec.PublicKey:
		k.Ty = uint64(keypair.GetKeyType(pub))
		l, err := keypair.GetCurveLabel(t.Curve)
		if err != nil {
			panic(err)
		}
		k.Curve = uint64(l)
		k.X, k.Y = t.X, t.Y
		k.Kind = fmt.Sprintf("ec-alg%d-curve%d", t.Algorithm, l)
		k.OffCurve = !onCurve(t.PublicKey)
		// (0, 0) is not on the curve either, but Go's generic curve code takes it for the point at
		// infinity and does not panic: it is not a [weak] key of the model
		k.Weak = k.OffCurve && !(t.X.Sign() == 0 && t.Y.Sign() == 0)
	case ed25519.PublicKey:
		k.Ty = uint64(keypair.PK_EDDSA)
		k.X = new(big.Int).SetBytes([]byte(t))
		k.Kind = "ed25519"
	case *ec.EthereumPublicKey:
		k.Ty = uint64(keypair.PK_ETHECDSA)
		k.X, k.Y = t.X, t.Y
		k.Kind = "eth-secp256k1"
	default:
		panic(fmt.Sprintf("unknown key type %T", pub))
	}
	k.Ser = keypair.SerializePublicKey(pub)
	return k
}

func onCurve(p *ecdsa.PublicKey) (ok bool) {
	defer func() {
		if recover() != nil {
			ok = false
		}
	}()
	if p.X == nil || p.Y == nil || p.X.Sign() < 0 || p.Y.Sign() < 0 {
		return false
	}
	return p.Curve.IsOnCurve(p.X, p.Y)
}

func (k *Key) IsEC() bool {
	return k.Ty == uint64(keypair.PK_ECDSA) || k.Ty == uint64(keypair.PK_SM2)
}

// SameSigner mirrors Model/Sig.v same_signer (what the crypto library's Verify looks at).
func (k *Key) SameSigner(o *Key) bool {
	if k.IsEC() && o.IsEC() {
		return k.Curve == o.Curve && k.X.Cmp(o.X) == 0 && k.Y.Cmp(o.Y) == 0
	}
	return k.Ty == o.Ty && k.Curve == o.Curve && k.X.Cmp(o.X) == 0 && k.Y.Cmp(o.Y) == 0 && bytes.Equal(k.Ser, o.Ser)
}

func (k *Key) id() string {
	return fmt.Sprintf("%x|%d|%d|%s|%s", k.Ser, k.Ty, k.Curve, k.X, k.Y)
}

func (k *Key) CoqFull() string {
	return fmt.Sprintf("(mkKey %d %d %s %s %s)", k.Ty, k.Curve, k.X.String(), k.Y.String(), hx.CoqBytes(k.Ser))
}

// Pool is the set of named keys of a run, plus named byte strings.
type Pool struct {
	Keys     []*Key
	byID     map[string]*Key
	ByKind   map[string][]*Key
	blobs    map[string]string // named byte strings (global: defined in the header of the case file)
	BlobDefs []string          // their Coq definitions, in order
	local    map[string]string // named byte strings of the case being rendered (let-bound)
	localDef []string
	index    map[string][]named // first 4 bytes -> named strings (keys, global and local blobs)
	localIdx map[string][]named
}

type named struct {
	b    []byte
	term string
}

func NewPool() *Pool {
	return &Pool{byID: map[string]*Key{}, ByKind: map[string][]*Key{}, blobs: map[string]string{},
		local: map[string]string{}, index: map[string][]named{}, localIdx: map[string][]named{}}
}

// Blob names a byte string that many cases share (scripts, signatures, hashes of the
// transactions the mutants are derived from); it must be called before the first case is
// written, because the definitions go into the header of the case file.
func (p *Pool) Blob(b []byte) {
	if len(b) < 8 {
		return
	}
	if _, ok := p.blobs[string(b)]; ok {
		return
	}
	def := p.CB(b)
	name := fmt.Sprintf("bl%d", len(p.blobs))
	p.blobs[string(b)] = name
	p.BlobDefs = append(p.BlobDefs, fmt.Sprintf("Definition %s : bytes := %s.", name, def))
	p.index[string(b[:4])] = append(p.index[string(b[:4])], named{append([]byte{}, b...), name})
}

// BeginCase forgets the let-bound names of the previous case.
func (p *Pool) BeginCase() {
	p.local = map[string]string{}
	p.localDef = nil
	p.localIdx = map[string][]named{}
}

// Local let-binds a byte string for the case being rendered (strings of 16 bytes or more that
// occur several times in one case: a changed signature, key or script).
func (p *Pool) Local(b []byte) {
	if len(b) < 16 {
		return
	}
	if _, ok := p.blobs[string(b)]; ok {
		return
	}
	if _, ok := p.local[string(b)]; ok {
		return
	}
	def := p.CB(b)
	if !strings.Contains(def, "[") {
		return // already a name or a concatenation of names
	}
	name := fmt.Sprintf("x%d", len(p.local))
	p.local[string(b)] = name
	p.localDef = append(p.localDef, fmt.Sprintf("let %s := %s in ", name, def))
	p.localIdx[string(b[:4])] = append(p.localIdx[string(b[:4])], named{append([]byte{}, b...), name})
}

// WrapCase puts the let-bindings in front of a case term.
func (p *Pool) WrapCase(term string) string {
	return "(" + strings.Join(p.localDef, "") + term + ")"
}

func (p *Pool) Add(k *Key) *Key {
	if q, ok := p.byID[k.id()]; ok {
		return q
	}
	k.Name = fmt.Sprintf("pk%d", len(p.Keys))
	p.Keys = append(p.Keys, k)
	p.byID[k.id()] = k
	if len(k.Ser) >= 4 {
		p.index[string(k.Ser[:4])] = append(p.index[string(k.Ser[:4])], named{k.Ser, "pk_ser " + k.Name})
	}
	p.ByKind[k.Kind] = append(p.ByKind[k.Kind], k)
	return k
}

// Find returns the pool key equal to k (same record), or nil.
func (p *Pool) Find(k *Key) *Key { return p.byID[k.id()] }

// Coq prints a key by its pool name when it has one.
func (p *Pool) Coq(k *Key) string {
	if q, ok := p.byID[k.id()]; ok {
		return q.Name
	}
	return fmt.Sprintf("(mkKey %d %d %s %s %s)", k.Ty, k.Curve, k.X.String(), k.Y.String(), p.CB(k.Ser))
}

func (p *Pool) CoqKeys(ks []*Key) string {
	var out []string
	for _, k := range ks {
		out = append(out, p.Coq(k))
	}
	return hx.CoqList(out)
}

func (p *Pool) longest(b []byte, i int) (hit named, ok bool) {
	if i+4 > len(b) {
		return
	}
	f := string(b[i : i+4])
	for _, tab := range []map[string][]named{p.index, p.localIdx} {
		for _, e := range tab[f] {
			if len(e.b) > len(hit.b) && i+len(e.b) <= len(b) && bytes.Equal(b[i:i+len(e.b)], e.b) {
				hit, ok = e, true
			}
		}
	}
	return
}

// CB prints a byte string as a Coq term of type bytes, writing every occurrence of a named
// string (pool key serializations, global and let-bound byte strings) by its name and every run
// of 12 or more equal bytes as `repeat`.
func (p *Pool) CB(b []byte) string {
	if name, ok := p.blobs[string(b)]; ok {
		return name
	}
	if name, ok := p.local[string(b)]; ok {
		return name
	}
	if len(b) < 12 {
		return hx.CoqBytes(b)
	}
	var segs []string
	lit := 0
	flush := func(end int) {
		if end > lit {
			segs = append(segs, hx.CoqBytes(b[lit:end]))
		}
	}
	for i := 0; i < len(b); {
		if hit, ok := p.longest(b, i); ok {
			flush(i)
			segs = append(segs, hit.term)
			i += len(hit.b)
			lit = i
			continue
		}
		j := i
		for j < len(b) && b[j] == b[i] {
			j++
		}
		if j-i >= 12 {
			flush(i)
			segs = append(segs, fmt.Sprintf("repeat %d (N.to_nat %d)", b[i], j-i))
			i = j
			lit = i
			continue
		}
		i++
	}
	flush(len(b))
	if len(segs) == 0 {
		return "[]"
	}
	if len(segs) == 1 {
		if !strings.HasPrefix(segs[0], "[") && strings.Contains(segs[0], " ") {
			return "(" + segs[0] + ")"
		}
		return segs[0]
	}
	return "(" + strings.Join(segs, " ++ ") + ")"
}

// ---------- generation ----------

func scalar(c *hx.Ctx, order *big.Int) []byte {
	n := (order.BitLen() + 7) / 8
	d := new(big.Int).SetBytes(c.Bytes(n + 8))
	d.Mod(d, new(big.Int).Sub(order, big.NewInt(1)))
	d.Add(d, big.NewInt(1))
	b := d.Bytes()
	out := make([]byte, n)
	copy(out[n-len(b):], b)
	return out
}

func ecPair(c *hx.Ctx, alg ec.ECAlgorithm, label byte) (keypair.PrivateKey, keypair.PublicKey) {
	cv, err := keypair.GetCurve(label)
	if err != nil {
		panic(err)
	}
	d := scalar(c, cv.Params().N)
	x, y := cv.ScalarBaseMult(d)
	pri := &ec.PrivateKey{Algorithm: alg, PrivateKey: &ecdsa.PrivateKey{
		PublicKey: ecdsa.PublicKey{Curve: cv, X: x, Y: y}, D: new(big.Int).SetBytes(d)}}
	return pri, &ec.PublicKey{Algorithm: alg, PublicKey: &pri.PublicKey}
}

type kindSpec struct {
	name   string
	scheme s.SignatureScheme
	gen    func(c *hx.Ctx) (keypair.PrivateKey, keypair.PublicKey)
}

func ecKind(name string, alg ec.ECAlgorithm, label byte, scheme s.SignatureScheme) kindSpec {
	return kindSpec{name, scheme, func(c *hx.Ctx) (keypair.PrivateKey, keypair.PublicKey) { return ecPair(c, alg, label) }}
}

// Kinds: every key type and curve the crypto library signs with, each with a scheme whose
// serialized signature has a different shape (64 bytes without scheme byte, scheme byte + r|s of
// 56..132 bytes, compact 65-byte secp256k1, SM2 with its id terminator, Ed25519, Ethereum 65).
var Kinds = []kindSpec{
	ecKind("ecdsa-p224", ec.ECDSA, keypair.P224, s.SHA224withECDSA),
	ecKind("ecdsa-p256", ec.ECDSA, keypair.P256, s.SHA256withECDSA),
	ecKind("ecdsa-p256-sha3", ec.ECDSA, keypair.P256, s.SHA3_256withECDSA),
	ecKind("ecdsa-p384", ec.ECDSA, keypair.P384, s.SHA384withECDSA),
	ecKind("ecdsa-p521", ec.ECDSA, keypair.P521, s.SHA512withECDSA),
	ecKind("ecdsa-secp256k1", ec.ECDSA, keypair.SECP256K1, s.SHA256withECDSA),
	ecKind("ecdsa-sm2p256v1", ec.ECDSA, keypair.SM2P256V1, s.RIPEMD160withECDSA),
	ecKind("sm2-sm2p256v1", ec.SM2, keypair.SM2P256V1, s.SM3withSM2),
	{"ed25519", s.SHA512withEDDSA, func(c *hx.Ctx) (keypair.PrivateKey, keypair.PublicKey) {
		pri := ed25519.NewKeyFromSeed(c.Bytes(32))
		return pri, pri.Public().(ed25519.PublicKey)
	}},
	{"eth-secp256k1", s.KECCAK256WithECDSA, func(c *hx.Ctx) (keypair.PrivateKey, keypair.PublicKey) {
		cv := ethcrypto.S256()
		d := scalar(c, cv.Params().N)
		x, y := cv.ScalarBaseMult(d)
		pk := &ecdsa.PrivateKey{PublicKey: ecdsa.PublicKey{Curve: cv, X: x, Y: y}, D: new(big.Int).SetBytes(d)}
		return &ec.EthereumPrivateKey{PrivateKey: pk}, &ec.EthereumPublicKey{PublicKey: &pk.PublicKey}
	}},
}

// BuildPool draws `per` keys of every kind from the seed, plus one twin: the SM2-typed key with
// the point (and private key) of an ECDSA-typed sm2p256v1 key.
func BuildPool(c *hx.Ctx, per int) *Pool {
	p := NewPool()
	for _, ks := range Kinds {
		for i := 0; i < per; i++ {
			pri, pub := ks.gen(c)
			k := KeyOf(pub)
			k.Pri, k.Scheme, k.Kind = pri, ks.scheme, ks.name
			p.Add(k)
		}
	}
	base := p.ByKind["ecdsa-sm2p256v1"][0]
	bp := base.Pri.(*ec.PrivateKey)
	tpri := &ec.PrivateKey{Algorithm: ec.SM2, PrivateKey: bp.PrivateKey}
	tw := KeyOf(&ec.PublicKey{Algorithm: ec.SM2, PublicKey: &bp.PrivateKey.PublicKey})
	tw.Pri, tw.Scheme, tw.Kind = tpri, s.SM3withSM2, "sm2-twin-of-ecdsa"
	p.Add(tw)
	return p
}

// Sign makes a serialized signature of msg with the key's scheme.
func (k *Key) Sign(msg []byte) []byte {
	sg, err := s.Sign(k.Scheme, k.Pri, msg, nil)
	if err != nil {
		panic(fmt.Sprintf("sign with %s: %v", k.Kind, err))
	}
	b, err := s.Serialize(sg)
	if err != nil {
		panic(err)
	}
	return b
}

// OffCurveKey returns an ECDSA-typed key on the labelled curve whose point (1, 1) is not on it.
func OffCurveKey(label byte) keypair.PublicKey {
	cv, err := keypair.GetCurve(label)
	if err != nil {
		panic(err)
	}
	return &ec.PublicKey{Algorithm: ec.ECDSA, PublicKey: &ecdsa.PublicKey{Curve: cv, X: big.NewInt(1), Y: big.NewInt(1)}}
}

// UncompressedSer returns the uncompressed encoding DeserializePublicKey accepts for an EC key
// (type byte, curve label, 0x04, X, Y), optionally with a damaged Y (an off-curve point).
func UncompressedSer(k *Key, damageY bool) []byte {
	t := k.Pub.(*ec.PublicKey)
	enc := ec.EncodePublicKey(t.PublicKey, false)
	if damageY {
		enc[len(enc)-1] ^= 1
	}
	return append([]byte{byte(k.Ty), byte(k.Curve)}, enc...)
}
