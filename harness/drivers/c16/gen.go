// Package c16: the transaction signature validator (core/validation, core/signature).
// This file: what the Coq model takes from the source on every run.
//
//	Gen/SigConsts.v  constants printed from the linked packages (transaction type tag of the
//	                 EIP-155 format, the two error codes VerifyTransaction returns, the
//	                 signature-scheme tag and the slice bound behind the known crash).
//	Gen/SigGuards.v  the three integer guards of the validator, translated from the source text:
//	                 `lensig > TX_MAX_SIG_SIZE`, `kn > MULTI_SIG_MAX_PUBKEY_SIZE || sn < m ||
//	                 m > kn || m <= 0` (checkTransactionSignatures) and `len(sigs) < m`
//	                 (VerifyMultiSignature).  The translator accepts || && ! and comparisons of
//	                 identifiers, integer literals and the two named constants; anything else
//	                 yields `translator_broken_<name>` and the proofs no longer compile.
package c16

import (
	"fmt"
	"go/ast"
	"go/parser"
	"go/token"
	"os"
	"path/filepath"
	"strings"

	ethcrypto "github.com/ethereum/go-ethereum/crypto"
	s "github.com/ontio/ontology-crypto/signature"
	"github.com/ontio/ontology/common/constants"
	"github.com/ontio/ontology/core/types"
	ontErrors "github.com/ontio/ontology/errors"

	"verif/harness/gen"
)

func init() {
	gen.RegisterFile("SigConsts.v", func(repo string) ([]byte, []string) {
		n := func(name string, v uint64, c string) gen.Const {
			return gen.Const{Name: name, Type: "N", Value: fmt.Sprintf("%d%%N", v), Comment: c}
		}
		cs := []gen.Const{
			n("SIG_TX_EIP155", uint64(types.EIP155), "core/types.EIP155 (Transaction.IsEipTx)"),
			n("ERR_NO_ERROR", uint64(ontErrors.ErrNoError), "errors.ErrNoError"),
			n("ERR_VERIFY_SIGNATURE", uint64(ontErrors.ErrVerifySignature), "errors.ErrVerifySignature"),
			n("ERR_TRANSACTION_PAYLOAD", uint64(ontErrors.ErrTransactionPayload), "errors.ErrTransactionPayload"),
			n("SCHEME_KECCAK256_ECDSA", uint64(s.KECCAK256WithECDSA), "ontology-crypto/signature.KECCAK256WithECDSA"),
			n("ETH_RECOVERY_ID_OFFSET", uint64(ethcrypto.RecoveryIDOffset), "go-ethereum/crypto.RecoveryIDOffset: Verify slices sig[:this] for Ethereum keys"),
		}
		return gen.EmitConsts("", cs), nil
	})
	gen.RegisterFile("SigGuards.v", produceGuards)
}

type guardSite struct {
	name   string
	file   string
	fn     string
	marker string   // substring of the condition text that identifies the `if`
	params []string // Go identifiers that become the Coq parameters, in this order
	subst  map[string]string
}

var guardSites = []guardSite{
	{name: "too_many_sigs", file: "core/validation/transaction_validator.go", fn: "checkTransactionSignatures",
		marker: "TX_MAX_SIG_SIZE", params: []string{"lensig"}},
	{name: "sig_param_bad", file: "core/validation/transaction_validator.go", fn: "checkTransactionSignatures",
		marker: "MULTI_SIG_MAX_PUBKEY_SIZE", params: []string{"kn", "sn", "m"}},
	{name: "multi_not_enough", file: "core/signature/signature.go", fn: "VerifyMultiSignature",
		marker: "len(sigs)", params: []string{"nsigs", "m"}, subst: map[string]string{"len(sigs)": "nsigs"}},
}

var namedConsts = map[string]int64{
	"constants.TX_MAX_SIG_SIZE":           constants.TX_MAX_SIG_SIZE,
	"constants.MULTI_SIG_MAX_PUBKEY_SIZE": constants.MULTI_SIG_MAX_PUBKEY_SIZE,
}

func exprText(fset *token.FileSet, src []byte, e ast.Node) string {
	return string(src[fset.Position(e.Pos()).Offset:fset.Position(e.End()).Offset])
}

// boolToCoq translates a Go boolean expression over int operands to a Coq bool over Z.
func boolToCoq(fset *token.FileSet, src []byte, e ast.Expr, g guardSite) (string, error) {
	switch t := e.(type) {
	case *ast.ParenExpr:
		return boolToCoq(fset, src, t.X, g)
	case *ast.UnaryExpr:
		if t.Op == token.NOT {
			x, err := boolToCoq(fset, src, t.X, g)
			if err != nil {
				return "", err
			}
			return "(negb " + x + ")", nil
		}
	case *ast.BinaryExpr:
		switch t.Op {
		case token.LOR, token.LAND:
			a, err := boolToCoq(fset, src, t.X, g)
			if err != nil {
				return "", err
			}
			b, err := boolToCoq(fset, src, t.Y, g)
			if err != nil {
				return "", err
			}
			op := "||"
			if t.Op == token.LAND {
				op = "&&"
			}
			return "(" + a + " " + op + " " + b + ")", nil
		case token.LSS, token.LEQ, token.GTR, token.GEQ, token.EQL, token.NEQ:
			a, err := intToCoq(fset, src, t.X, g)
			if err != nil {
				return "", err
			}
			b, err := intToCoq(fset, src, t.Y, g)
			if err != nil {
				return "", err
			}
			switch t.Op {
			case token.LSS:
				return fmt.Sprintf("(%s <? %s)", a, b), nil
			case token.LEQ:
				return fmt.Sprintf("(%s <=? %s)", a, b), nil
			case token.GTR:
				return fmt.Sprintf("(%s <? %s)", b, a), nil
			case token.GEQ:
				return fmt.Sprintf("(%s <=? %s)", b, a), nil
			case token.EQL:
				return fmt.Sprintf("(%s =? %s)", a, b), nil
			default:
				return fmt.Sprintf("(negb (%s =? %s))", a, b), nil
			}
		}
	}
	return "", fmt.Errorf("unsupported boolean expression %q", exprText(fset, src, e))
}

func intToCoq(fset *token.FileSet, src []byte, e ast.Expr, g guardSite) (string, error) {
	txt := exprText(fset, src, e)
	if v, ok := g.subst[txt]; ok {
		return v, nil
	}
	if v, ok := namedConsts[txt]; ok {
		return fmt.Sprintf("%d", v), nil
	}
	switch t := e.(type) {
	case *ast.ParenExpr:
		return intToCoq(fset, src, t.X, g)
	case *ast.Ident:
		for _, p := range g.params {
			if p == t.Name {
				return p, nil
			}
		}
	case *ast.BasicLit:
		if t.Kind == token.INT {
			return t.Value, nil
		}
	case *ast.BinaryExpr:
		if t.Op == token.ADD || t.Op == token.SUB {
			a, err := intToCoq(fset, src, t.X, g)
			if err != nil {
				return "", err
			}
			b, err := intToCoq(fset, src, t.Y, g)
			if err != nil {
				return "", err
			}
			return fmt.Sprintf("(%s %s %s)", a, t.Op.String(), b), nil
		}
	}
	return "", fmt.Errorf("unsupported integer expression %q", txt)
}

func translateGuard(repo string, g guardSite) (def string, goText string, err error) {
	path := filepath.Join(repo, g.file)
	fset := token.NewFileSet()
	f, perr := parser.ParseFile(fset, path, nil, 0)
	if perr != nil {
		return "", "", perr
	}
	src, rerr := os.ReadFile(path)
	if rerr != nil {
		return "", "", rerr
	}
	var fd *ast.FuncDecl
	for _, d := range f.Decls {
		if x, ok := d.(*ast.FuncDecl); ok && x.Name.Name == g.fn && x.Recv == nil {
			fd = x
		}
	}
	if fd == nil {
		return "", "", fmt.Errorf("function %s not found in %s", g.fn, g.file)
	}
	var hits []*ast.IfStmt
	ast.Inspect(fd.Body, func(n ast.Node) bool {
		if is, ok := n.(*ast.IfStmt); ok && is.Init == nil && strings.Contains(exprText(fset, src, is.Cond), g.marker) {
			hits = append(hits, is)
		}
		return true
	})
	if len(hits) != 1 {
		return "", "", fmt.Errorf("%s: expected exactly one `if` mentioning %s in %s, found %d", g.name, g.marker, g.fn, len(hits))
	}
	// the guard must reject: its body ends in a return of a non-nil error
	body := hits[0].Body.List
	if len(body) == 0 {
		return "", "", fmt.Errorf("%s: empty guard body", g.name)
	}
	ret, ok := body[len(body)-1].(*ast.ReturnStmt)
	if !ok || len(ret.Results) != 1 || exprText(fset, src, ret.Results[0]) == "nil" {
		return "", "", fmt.Errorf("%s: guard body does not return an error", g.name)
	}
	goText = exprText(fset, src, hits[0].Cond)
	coq, terr := boolToCoq(fset, src, hits[0].Cond, g)
	if terr != nil {
		return "", goText, terr
	}
	var ps []string
	for _, p := range g.params {
		ps = append(ps, p)
	}
	def = fmt.Sprintf("Definition %s (%s : Z) : bool := %s.", g.name, strings.Join(ps, " "), coq)
	return def, goText, nil
}

func produceGuards(repo string) ([]byte, []string) {
	var b strings.Builder
	var errs []string
	b.WriteString("(* GENERATED by harness/drivers/c16/gen.go from /repo's current source on every run. Do not edit. *)\n")
	b.WriteString("From Coq Require Import ZArith Bool.\nLocal Open Scope Z_scope.\nLocal Open Scope bool_scope.\n\n")
	for _, g := range guardSites {
		def, goText, err := translateGuard(repo, g)
		fmt.Fprintf(&b, "(* %s : %s, func %s\n   Go: %s *)\n", g.name, g.file, g.fn, strings.ReplaceAll(goText, "*)", "* )"))
		if err != nil {
			errs = append(errs, g.name+": "+err.Error())
			fmt.Fprintf(&b, "Definition translator_broken_%s : unit := tt. (* %s *)\n\n", g.name, strings.ReplaceAll(err.Error(), "*)", "* )"))
			continue
		}
		b.WriteString(def + "\n\n")
	}
	// the decision structure of checkTransactionSignatures: where it returns nil / an error
	if shape, err := ctsReturnShape(repo); err != nil {
		errs = append(errs, "cts_return_shape: "+err.Error())
		fmt.Fprintf(&b, "Definition translator_broken_cts_return_shape : unit := tt. (* %s *)\n\n", strings.ReplaceAll(err.Error(), "*)", "* )"))
	} else {
		b.WriteString(shape)
	}
	// the recovering wrapper of the crypto library's Verify (repair c4422b91)
	if err := checkVerifyWrapper(repo); err != nil {
		errs = append(errs, "verify_wrapper: "+err.Error())
		fmt.Fprintf(&b, "Definition translator_broken_verify_wrapper : unit := tt. (* %s *)\n", strings.ReplaceAll(err.Error(), "*)", "* )"))
	} else {
		b.WriteString("(* core/signature/signature.go: func verify calls s.Verify under a deferred recover that sets its\n   result to false; Verify and VerifyMultiSignature call the library only through it. *)\n")
		b.WriteString("Definition verify_wrapper_recovers : bool := true.\n")
	}
	return []byte(b.String()), errs
}

// ctsReturnShape inventories the return statements of checkTransactionSignatures relative to its
// one loop over tx.Sigs: the guards of every `return nil` before the loop (the model has exactly
// one early accept: IsEipTx), the number of `return nil` inside and after the loop (0 and the
// final unconditional one) and the number of error returns before / inside / after the loop (the
// model's error sites: too many sets; GetSig, parameter length, single verification, multi
// verification, address; payer).  Proofs/Sig.v states the expected inventory, so an added early
// accept or a removed rejection breaks a proof obligation.
func ctsReturnShape(repo string) (string, error) {
	path := filepath.Join(repo, "core/validation/transaction_validator.go")
	fset := token.NewFileSet()
	f, err := parser.ParseFile(fset, path, nil, 0)
	if err != nil {
		return "", err
	}
	src, err := os.ReadFile(path)
	if err != nil {
		return "", err
	}
	var fd *ast.FuncDecl
	for _, d := range f.Decls {
		if x, ok := d.(*ast.FuncDecl); ok && x.Name.Name == "checkTransactionSignatures" && x.Recv == nil {
			fd = x
		}
	}
	if fd == nil {
		return "", fmt.Errorf("checkTransactionSignatures not found")
	}
	loopIdx := -1
	for i, st := range fd.Body.List {
		if rs, ok := st.(*ast.RangeStmt); ok && strings.Contains(exprText(fset, src, rs.X), "tx.Sigs") {
			if loopIdx >= 0 {
				return "", fmt.Errorf("more than one top-level loop over tx.Sigs")
			}
			loopIdx = i
		} else if _, ok := st.(*ast.ForStmt); ok {
			return "", fmt.Errorf("unexpected top-level for statement")
		}
	}
	if loopIdx < 0 {
		return "", fmt.Errorf("no top-level `for ... range tx.Sigs`")
	}
	// returns of one statement, with the condition of the innermost enclosing if
	type ret struct {
		isNil bool
		guard string
	}
	var collect func(n ast.Node, guard string, out *[]ret) error
	collect = func(n ast.Node, guard string, out *[]ret) error {
		switch t := n.(type) {
		case nil:
			return nil
		case *ast.ReturnStmt:
			if len(t.Results) != 1 {
				return fmt.Errorf("return with %d results", len(t.Results))
			}
			*out = append(*out, ret{exprText(fset, src, t.Results[0]) == "nil", guard})
		case *ast.BlockStmt:
			for _, st := range t.List {
				if err := collect(st, guard, out); err != nil {
					return err
				}
			}
		case *ast.IfStmt:
			g := exprText(fset, src, t.Cond)
			if err := collect(t.Body, g, out); err != nil {
				return err
			}
			if t.Else != nil {
				if err := collect(t.Else, "else of "+g, out); err != nil {
					return err
				}
			}
		case *ast.RangeStmt:
			return collect(t.Body, guard, out)
		case *ast.ForStmt:
			return collect(t.Body, guard, out)
		case *ast.SwitchStmt, *ast.TypeSwitchStmt, *ast.SelectStmt, *ast.LabeledStmt, *ast.GoStmt, *ast.DeferStmt:
			return fmt.Errorf("unsupported statement kind %T", n)
		}
		return nil
	}
	var before, in, after []ret
	for i, st := range fd.Body.List {
		dst := &before
		if i == loopIdx {
			dst = &in
		} else if i > loopIdx {
			dst = &after
		}
		if err := collect(st, "", dst); err != nil {
			return "", err
		}
	}
	last, ok := fd.Body.List[len(fd.Body.List)-1].(*ast.ReturnStmt)
	finalNil := ok && len(last.Results) == 1 && exprText(fset, src, last.Results[0]) == "nil"
	count := func(rs []ret, isNil bool) int {
		n := 0
		for _, r := range rs {
			if r.isNil == isNil {
				n++
			}
		}
		return n
	}
	var guards []string
	for _, r := range before {
		if r.isNil {
			guards = append(guards, fmt.Sprintf("%q%%string", r.guard))
		}
	}
	var b strings.Builder
	b.WriteString("(* checkTransactionSignatures: inventory of its return statements relative to `for _, sigdata := range tx.Sigs` *)\n")
	b.WriteString("Require Import Coq.Strings.String Coq.Lists.List.\n")
	fmt.Fprintf(&b, "Definition cts_accept_guards_before_loop : list string := (%s)%%list.\n", func() string {
		if len(guards) == 0 {
			return "nil"
		}
		return strings.Join(guards, " :: ") + " :: nil"
	}())
	fmt.Fprintf(&b, "Definition cts_accepts_in_loop : nat := %d%%nat.\n", count(in, true))
	fmt.Fprintf(&b, "Definition cts_accepts_after_loop : nat := %d%%nat.\n", count(after, true))
	fmt.Fprintf(&b, "Definition cts_final_return_is_unconditional_nil : bool := %v.\n", finalNil)
	fmt.Fprintf(&b, "Definition cts_rejects_before_loop : nat := %d%%nat.\n", count(before, false))
	fmt.Fprintf(&b, "Definition cts_rejects_in_loop : nat := %d%%nat.\n", count(in, false))
	fmt.Fprintf(&b, "Definition cts_rejects_after_loop : nat := %d%%nat.\n\n", count(after, false))
	return b.String(), nil
}

func isCall(n ast.Node, pkg, name string) bool {
	ce, ok := n.(*ast.CallExpr)
	if !ok {
		return false
	}
	if pkg == "" {
		id, ok := ce.Fun.(*ast.Ident)
		return ok && id.Name == name
	}
	se, ok := ce.Fun.(*ast.SelectorExpr)
	if !ok {
		return false
	}
	x, ok := se.X.(*ast.Ident)
	return ok && x.Name == pkg && se.Sel.Name == name
}

func countCalls(body ast.Node, pkg, name string) int {
	n := 0
	ast.Inspect(body, func(x ast.Node) bool {
		if x != nil && isCall(x, pkg, name) {
			n++
		}
		return true
	})
	return n
}

// checkVerifyWrapper reads the shape the model's [wverify] mirrors: `func verify(...) (ok bool)`
// whose body is a deferred function literal that calls recover() and assigns ok = false, followed
// by `return s.Verify(...)`; Verify and VerifyMultiSignature call verify and never s.Verify.
func checkVerifyWrapper(repo string) error {
	path := filepath.Join(repo, "core/signature/signature.go")
	fset := token.NewFileSet()
	f, err := parser.ParseFile(fset, path, nil, 0)
	if err != nil {
		return err
	}
	funcs := map[string]*ast.FuncDecl{}
	for _, d := range f.Decls {
		if x, ok := d.(*ast.FuncDecl); ok && x.Recv == nil {
			funcs[x.Name.Name] = x
		}
	}
	w := funcs["verify"]
	if w == nil {
		return fmt.Errorf("func verify (the recovering wrapper) not found")
	}
	res := w.Type.Results
	if res == nil || len(res.List) != 1 || len(res.List[0].Names) != 1 || res.List[0].Names[0].Name != "ok" {
		return fmt.Errorf("func verify: expected the single named result `ok bool`")
	}
	if len(w.Body.List) != 2 {
		return fmt.Errorf("func verify: expected `defer func(){...}()` followed by `return s.Verify(...)`")
	}
	df, ok := w.Body.List[0].(*ast.DeferStmt)
	if !ok {
		return fmt.Errorf("func verify: first statement is not a defer")
	}
	lit, ok := df.Call.Fun.(*ast.FuncLit)
	if !ok || countCalls(lit.Body, "", "recover") != 1 {
		return fmt.Errorf("func verify: the deferred function does not call recover()")
	}
	setsFalse := false
	ast.Inspect(lit.Body, func(x ast.Node) bool {
		if as, ok := x.(*ast.AssignStmt); ok && len(as.Lhs) == 1 && len(as.Rhs) == 1 {
			l, lok := as.Lhs[0].(*ast.Ident)
			r, rok := as.Rhs[0].(*ast.Ident)
			if lok && rok && l.Name == "ok" && r.Name == "false" {
				setsFalse = true
			}
		}
		return true
	})
	if !setsFalse {
		return fmt.Errorf("func verify: the deferred function does not set ok = false")
	}
	ret, ok := w.Body.List[1].(*ast.ReturnStmt)
	if !ok || len(ret.Results) != 1 || !isCall(ret.Results[0], "s", "Verify") {
		return fmt.Errorf("func verify: does not end in `return s.Verify(...)`")
	}
	for _, name := range []string{"Verify", "VerifyMultiSignature"} {
		fd := funcs[name]
		if fd == nil {
			return fmt.Errorf("func %s not found", name)
		}
		if countCalls(fd.Body, "s", "Verify") != 0 {
			return fmt.Errorf("func %s calls the crypto library's s.Verify directly (not through the recovering wrapper)", name)
		}
		if countCalls(fd.Body, "", "verify") != 1 {
			return fmt.Errorf("func %s: expected exactly one call of verify", name)
		}
	}
	return nil
}
