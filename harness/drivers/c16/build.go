package c16

// Generators: transactions built from plans (valid and invalid by construction), single-byte and
// structural mutations of small accepted transactions, and the regression probes of the two
// repaired crash classes.

import (
	"bytes"
	"fmt"
	"math/big"

	ethcommon "github.com/ethereum/go-ethereum/common"
	ethtypes "github.com/ethereum/go-ethereum/core/types"
	ethcrypto "github.com/ethereum/go-ethereum/crypto"
	"github.com/ontio/ontology-crypto/keypair"
	"github.com/ontio/ontology/common"
	"github.com/ontio/ontology/core/program"
	"github.com/ontio/ontology/core/types"
	"github.com/ontio/ontology/vm/neovm"

	"verif/harness/hx"
)

// SetPlan describes one signature set.
type SetPlan struct {
	Keys     []*Key // in script order for Unsorted, any order otherwise
	M        int
	Unsorted bool   // write the keys in the given order instead of the builder's sorted order
	Signers  []*Key // who signs, in this order
	Script   []byte // explicit verification script (overrides Keys/M)
}

// Plan describes a transaction.
type Plan struct {
	Sets     []*SetPlan
	PayerSet int
	Payer    *common.Address // explicit payer (overrides PayerSet)
	U        Unsigned
}

func pubsOf(ks []*Key) []keypair.PublicKey {
	out := make([]keypair.PublicKey, len(ks))
	for i, k := range ks {
		out[i] = k.Pub
	}
	return out
}

// RawMultiScript assembles PushNum(m) keys... PushNum(n) CHECKMULTISIG with the keys in the given
// order (no sorting, no parameter test).
func RawMultiScript(m int, keys [][]byte, n int) []byte {
	b := program.NewProgramBuilder()
	b.PushNum(uint16(m))
	for _, k := range keys {
		b.PushBytes(k)
	}
	b.PushNum(uint16(n))
	b.PushOpCode(neovm.CHECKMULTISIG)
	return b.Finish()
}

func (sp *SetPlan) VerifyScript() []byte {
	if sp.Script != nil {
		return sp.Script
	}
	if len(sp.Keys) == 1 {
		return SpecSingleScript(sp.Keys[0])
	}
	if sp.Unsorted {
		var sers [][]byte
		for _, k := range sp.Keys {
			sers = append(sers, k.Ser)
		}
		return RawMultiScript(sp.M, sers, len(sp.Keys))
	}
	return SpecMultiScript(sp.M, sp.Keys)
}

// Address is the standard account of the set's (keys, M) (spec-level, not the node's functions).
func (sp *SetPlan) Address() common.Address {
	a, ok := SpecAddress(sp.Keys, sp.M)
	if !ok {
		panic("no address for the set")
	}
	return a
}

func invokeScript(sigs [][]byte) []byte {
	b := program.NewProgramBuilder()
	for _, sg := range sigs {
		b.PushBytes(sg)
	}
	return b.Finish()
}

// Built is an assembled transaction with everything needed to derive defects and mutants.
type Built struct {
	Plan    *Plan
	Hash    []byte
	Sigs    [][][]byte // per set: honest signatures in Signers order
	RawSigs []types.RawSig
	Raw     []byte
}

// Assemble fixes the payer, computes the hash, signs, and encodes.
func (d *Drv) Assemble(pl *Plan) *Built {
	if pl.Payer != nil {
		pl.U.Payer = *pl.Payer
	} else if len(pl.Sets) > 0 {
		pl.U.Payer = pl.Sets[pl.PayerSet].Address()
	}
	b := &Built{Plan: pl, Hash: pl.U.Hash()}
	for _, sp := range pl.Sets {
		var sigs [][]byte
		for _, k := range sp.Signers {
			sigs = append(sigs, d.W.SignWith(k, b.Hash))
		}
		b.Sigs = append(b.Sigs, sigs)
	}
	b.encode()
	return b
}

func (b *Built) encode() {
	b.RawSigs = nil
	for i, sp := range b.Plan.Sets {
		b.RawSigs = append(b.RawSigs, types.RawSig{Invoke: invokeScript(b.Sigs[i]), Verify: sp.VerifyScript()})
	}
	b.Raw = RawTx(b.Plan.U.Bytes(), b.RawSigs)
}

func (b *Built) AllKeys() []*Key {
	var out []*Key
	for _, sp := range b.Plan.Sets {
		out = append(out, sp.Keys...)
	}
	return out
}

// ---------- random plans ----------

func (d *Drv) PickKeys(n int) []*Key {
	perm := d.C.Rng.Perm(len(d.W.P.Keys))
	var out []*Key
	for _, i := range perm {
		k := d.W.P.Keys[i]
		dup := false
		for _, o := range out {
			if o.SameSigner(k) {
				dup = true
			}
		}
		if !dup {
			out = append(out, k)
		}
		if len(out) == n {
			break
		}
	}
	return out
}

func (d *Drv) RandUnsigned() Unsigned {
	c := d.C
	ty := byte(types.InvokeNeo)
	if c.Intn(6) == 0 {
		ty = byte(types.InvokeWasm)
	}
	return Unsigned{TxType: ty, Nonce: uint32(c.Rng.Uint32()), GasPrice: uint64(c.Intn(5000)), GasLimit: uint64(20000 + c.Intn(100000)), Code: c.Bytes(1 + c.Intn(24))}
}

// randSet: single key or m-of-n; signers are a random m-subset in random order.
func (d *Drv) RandSet(maxN int) *SetPlan {
	c := d.C
	if maxN < 2 || c.Intn(2) == 0 {
		k := d.PickKeys(1)
		return &SetPlan{Keys: k, M: 1, Signers: k}
	}
	n := 2 + c.Intn(maxN-1)
	m := 1 + c.Intn(n)
	keys := d.PickKeys(n)
	perm := c.Rng.Perm(n)
	var signers []*Key
	for _, i := range perm[:m] {
		signers = append(signers, keys[i])
	}
	return &SetPlan{Keys: keys, M: m, Signers: signers}
}

func (d *Drv) RandPlan(nsets, maxN int) *Plan {
	pl := &Plan{U: d.RandUnsigned()}
	for i := 0; i < nsets; i++ {
		pl.Sets = append(pl.Sets, d.RandSet(maxN))
	}
	if nsets > 0 {
		pl.PayerSet = d.C.Intn(nsets)
	}
	return pl
}

func (d *Drv) foreignKey(keys []*Key) *Key {
	for {
		k := d.W.P.Keys[d.C.Intn(len(d.W.P.Keys))]
		ok := true
		for _, o := range keys {
			if o.SameSigner(k) {
				ok = false
			}
		}
		if ok {
			return k
		}
	}
}

// ---------- defects ----------

var defects = []string{"wrong-hash", "foreign-key", "dup-signature", "too-few", "junk", "undeserializable",
	"no-signatures", "payer-foreign", "payer-member-key", "other-tx-signatures", "junk-first",
	"extra-junk-after-m", "all-n-sign", "trailing-sigs-of-other-hash"}

// Defect applies one named defect to a freshly assembled valid plan; returns the bytes and the
// expectation ("" = the defect does not apply to this plan).
func (d *Drv) Defect(b *Built, name string) (raw []byte, expect string) {
	c := d.C
	pl := b.Plan
	var fit []int
	for i, x := range pl.Sets {
		switch name {
		case "dup-signature":
			if x.M >= 2 {
				fit = append(fit, i)
			}
		case "all-n-sign":
			if len(x.Keys) >= 2 && x.M < len(x.Keys) {
				fit = append(fit, i)
			}
		default:
			fit = append(fit, i)
		}
	}
	if len(fit) == 0 {
		return nil, ""
	}
	si := fit[c.Intn(len(fit))]
	sp := pl.Sets[si]
	sigs := append([][]byte{}, b.Sigs[si]...)
	j := c.Intn(sp.M)
	other := append([]byte{}, b.Hash...)
	other[c.Intn(len(other))] ^= byte(1 + c.Intn(255))
	expect = "reject"
	switch name {
	case "wrong-hash":
		sigs[j] = d.W.SignWith(sp.Signers[j], other)
	case "foreign-key":
		sigs[j] = d.W.SignWith(d.foreignKey(sp.Keys), b.Hash)
	case "dup-signature":
		if sp.M < 2 {
			return nil, ""
		}
		sigs[(j+1)%sp.M] = sigs[j]
	case "too-few":
		sigs = sigs[:sp.M-1]
	case "junk":
		sigs[j] = c.Bytes(64)
	case "undeserializable":
		sigs[j] = []byte{0x7f, byte(c.Intn(256)), 3}
	case "no-signatures":
		sigs = nil
	case "junk-first":
		sigs = append([][]byte{c.Bytes(64)}, sigs...)
	case "extra-junk-after-m":
		sigs = append(sigs, c.Bytes(64), []byte{0x7f, 1})
		expect = "accept"
	case "all-n-sign":
		if len(sp.Keys) < 2 {
			return nil, ""
		}
		sigs = nil
		for _, k := range sp.Keys {
			sigs = append(sigs, d.W.SignWith(k, b.Hash))
		}
		expect = "accept"
	case "trailing-sigs-of-other-hash":
		sigs = append(sigs, d.W.SignWith(sp.Signers[0], other))
		expect = "accept"
	case "payer-foreign":
		var a common.Address
		copy(a[:], c.Bytes(20))
		pl2 := *pl
		pl2.Payer = &a
		return d.Assemble(&pl2).Raw, "reject"
	case "payer-member-key":
		// the account of one member key of a multi-signature set did not sign
		var multi *SetPlan
		for _, x := range pl.Sets {
			if len(x.Keys) > 1 {
				multi = x
			}
		}
		if multi == nil {
			return nil, ""
		}
		a, _ := SpecAddress([]*Key{multi.Keys[c.Intn(len(multi.Keys))]}, 1)
		for _, x := range pl.Sets {
			if x.Address() == a {
				return nil, ""
			}
		}
		pl2 := *pl
		pl2.Payer = &a
		return d.Assemble(&pl2).Raw, "reject"
	case "other-tx-signatures":
		// the whole signature section of this transaction under different signed content
		pl2 := *pl
		pl2.U.Nonce++
		return RawTx(pl2.U.Bytes(), b.RawSigs), "reject"
	}
	var rs []types.RawSig
	for i, x := range pl.Sets {
		if i == si {
			rs = append(rs, types.RawSig{Invoke: invokeScript(sigs), Verify: x.VerifyScript()})
		} else {
			rs = append(rs, b.RawSigs[i])
		}
	}
	if len(sigs) == 0 {
		rs[si].Invoke = []byte{}
	}
	return RawTx(pl.U.Bytes(), rs), expect
}

// ---------- regions of an assembled transaction ----------

type region struct {
	start, end int
	kind       string // unsigned | count | len | push | sig | verify
	set, idx   int
}

func varLen(n int) int {
	switch {
	case n < 0xfd:
		return 1
	case n <= 0xffff:
		return 3
	}
	return 5
}

func pushHdr(n int) int {
	switch {
	case n <= 75:
		return 1
	case n < 0x100:
		return 2
	case n < 0x10000:
		return 3
	}
	return 5
}

func (b *Built) regions() []region {
	var rs []region
	pos := len(b.Plan.U.Bytes())
	rs = append(rs, region{0, pos, "unsigned", -1, -1})
	rs = append(rs, region{pos, pos + 1, "count", -1, -1})
	pos++
	for si, g := range b.RawSigs {
		l := varLen(len(g.Invoke))
		rs = append(rs, region{pos, pos + l, "len", si, -1})
		pos += l
		for i, sg := range b.Sigs[si] {
			h := pushHdr(len(sg))
			rs = append(rs, region{pos, pos + h, "push", si, i})
			pos += h
			rs = append(rs, region{pos, pos + len(sg), "sig", si, i})
			pos += len(sg)
		}
		l = varLen(len(g.Verify))
		rs = append(rs, region{pos, pos + l, "len", si, -1})
		pos += l
		rs = append(rs, region{pos, pos + len(g.Verify), "verify", si, -1})
		pos += len(g.Verify)
	}
	if pos != len(b.Raw) {
		panic(fmt.Sprintf("region map: %d != %d", pos, len(b.Raw)))
	}
	return rs
}

func regionAt(rs []region, p int) region {
	for _, r := range rs {
		if p >= r.start && p < r.end {
			return r
		}
	}
	return region{kind: "none"}
}

// byteMutants: for every `step`-th position of the accepted transaction b, `per` single-byte
// changes.  Expectation (O3): a change of the signed content must be rejected; a change inside a
// counted signature must be rejected unless the crypto library still verifies the changed
// signature under a key of its set.
func (d *Drv) byteMutants(b *Built, name string, step, per int) {
	c := d.C
	rs := b.regions()
	keys := b.AllKeys()
	for p := c.Intn(step); p < len(b.Raw); p += step {
		for t := 0; t < per; t++ {
			m := append([]byte{}, b.Raw...)
			x := byte(1 + c.Intn(255))
			if t == 1 {
				x = 1 << uint(c.Intn(8))
			}
			m[p] ^= x
			r := regionAt(rs, p)
			in := Input{Kind: "mut:" + name + ":" + r.kind, Base: hx.Hex(b.Raw), Pos: p}
			switch r.kind {
			case "unsigned":
				in.Expect = "reject"
			case "sig":
				sp := b.Plan.Sets[r.set]
				if r.idx < sp.M {
					sb := m[r.start:r.end]
					v := SetView{Keys: sp.Keys}
					if !stillVerifies(v, sb, b.Hash) {
						in.Expect = "reject"
					} else {
						c.Count("mut-neutral:" + name)
					}
				}
			}
			d.DoTx(in, m, keys)
		}
	}
}

// structural mutants of an accepted transaction (only O1/O4 apply unless stated).
func (d *Drv) structMutants(b *Built, name string, n int) {
	c := d.C
	keys := b.AllKeys()
	un := len(b.Plan.U.Bytes())
	for i := 0; i < n; i++ {
		raw := append([]byte{}, b.Raw...)
		in := Input{Kind: "struct:" + name, Base: hx.Hex(b.Raw)}
		switch c.Intn(8) {
		case 0: // delete one byte
			p := c.Intn(len(raw))
			raw = append(raw[:p], raw[p+1:]...)
			in.Note = fmt.Sprintf("delete@%d", p)
			if p < un {
				in.Expect = "reject"
			}
		case 1: // insert one byte
			p := c.Intn(len(raw) + 1)
			raw = append(raw[:p], append([]byte{byte(c.Intn(256))}, raw[p:]...)...)
			in.Note = fmt.Sprintf("insert@%d", p)
			if p < un {
				in.Expect = "reject"
			}
		case 2: // truncate
			raw = raw[:c.Intn(len(raw))]
			in.Note = "truncate"
			in.Expect = "reject"
		case 3: // reverse the order of the signature sets (same accounts: still valid)
			rs := append([]types.RawSig{}, b.RawSigs...)
			for l, r := 0, len(rs)-1; l < r; l, r = l+1, r-1 {
				rs[l], rs[r] = rs[r], rs[l]
			}
			raw = RawTx(b.Plan.U.Bytes(), rs)
			in.Note = "reverse-sets"
			in.Expect = "accept"
		case 4: // swap invocation and verification script of one set
			rs := append([]types.RawSig{}, b.RawSigs...)
			k := c.Intn(len(rs))
			rs[k].Invoke, rs[k].Verify = rs[k].Verify, rs[k].Invoke
			raw = RawTx(b.Plan.U.Bytes(), rs)
			in.Note = "swap-scripts"
			in.Expect = "reject"
		case 5: // drop the payer's set
			var rs []types.RawSig
			for k, g := range b.RawSigs {
				if k != b.Plan.PayerSet {
					rs = append(rs, g)
				}
			}
			raw = RawTx(b.Plan.U.Bytes(), rs)
			in.Note = "drop-payer-set"
			if b.Plan.Payer == nil {
				dup := false
				for k, sp := range b.Plan.Sets {
					if k != b.Plan.PayerSet && sp.Address() == b.Plan.Sets[b.Plan.PayerSet].Address() {
						dup = true
					}
				}
				if !dup {
					in.Expect = "reject"
				}
			}
		case 6: // duplicate one set (same account twice: still valid)
			rs := append([]types.RawSig{}, b.RawSigs...)
			if len(rs) >= 16 {
				continue
			}
			rs = append(rs, rs[c.Intn(len(rs))])
			raw = RawTx(b.Plan.U.Bytes(), rs)
			in.Note = "duplicate-set"
			in.Expect = "accept"
		case 7: // trailing bytes after the transaction (ignored by the decoder)
			raw = append(raw, c.Bytes(1+c.Intn(4))...)
			in.Note = "trailing-bytes"
			in.Expect = "accept"
		}
		d.DoTx(in, raw, keys)
	}
}

// ---------- the run ----------

func (d *Drv) One(kind string, pl *Plan, expect string) *Built {
	b := d.Assemble(pl)
	d.DoTx(Input{Kind: kind, Expect: expect}, b.Raw, b.AllKeys())
	return b
}

func (d *Drv) KindKey(kind string, i int) *Key {
	ks := d.W.P.ByKind[kind]
	return ks[i%len(ks)]
}

func (d *Drv) Single(k *Key) *Plan {
	return &Plan{U: d.RandUnsigned(), Sets: []*SetPlan{{Keys: []*Key{k}, M: 1, Signers: []*Key{k}}}}
}

// Probes rebuilds, with this run's keys, the witnesses of the two crash classes that C16 found and
// c4422b91 repaired (fixed byte strings of the same witnesses are in corpus/C16 and run first):
// the crypto library's Verify panics on them, the validator must answer with an error.
func (d *Drv) Probes() {
	// (a) Ethereum-style key, KECCAK-scheme signature cut to 10 bytes
	k := d.KindKey("eth-secp256k1", 0)
	b := d.Assemble(d.Single(k))
	b.Sigs[0][0] = b.Sigs[0][0][:10]
	b.encode()
	d.DoTx(Input{Kind: "probe:eth-key-short-signature", Expect: "reject"}, b.Raw, b.AllKeys())
	// (b) ECDSA key on sm2p256v1 in uncompressed form with a damaged Y, any in-range ECDSA signature
	w := d.KindKey("ecdsa-sm2p256v1", 0)
	ser := UncompressedSer(w, true)
	pb := program.NewProgramBuilder()
	pb.PushBytes(ser)
	pb.PushOpCode(neovm.CHECKSIG)
	pl := &Plan{U: d.RandUnsigned(), Sets: []*SetPlan{{Keys: []*Key{w}, M: 1, Signers: []*Key{w}, Script: pb.Finish()}}}
	d.One("probe:off-curve-key", pl, "reject")
	// the same key in uncompressed form with the right Y: accepted (alternative key encoding)
	pb2 := program.NewProgramBuilder()
	pb2.PushBytes(UncompressedSer(w, false))
	pb2.PushOpCode(neovm.CHECKSIG)
	pl2 := &Plan{U: d.RandUnsigned(), Sets: []*SetPlan{{Keys: []*Key{w}, M: 1, Signers: []*Key{w}, Script: pb2.Finish()}}}
	d.One("uncompressed-key", pl2, "accept")
	// (c), (d) the multi-signature analogues: the key that makes the library panic comes FIRST in a
	// 1-of-2 script as written, the panicking blob is the only signature
	g := d.KindKey("ecdsa-p384", 0)
	{
		sers := [][]byte{k.Ser, g.Ser}
		pl := &Plan{U: d.RandUnsigned(), Sets: []*SetPlan{{Keys: []*Key{k, g}, M: 1, Signers: []*Key{k}, Script: RawMultiScript(1, sers, 2)}}}
		b := d.Assemble(pl)
		b.Sigs[0][0] = b.Sigs[0][0][:10]
		b.encode()
		d.DoTx(Input{Kind: "probe:multisig-eth-key-short-signature", Expect: "reject"}, b.Raw, b.AllKeys())
	}
	{
		forged := parseKey(ser)
		sers := [][]byte{ser, g.Ser}
		pl := &Plan{U: d.RandUnsigned(), Sets: []*SetPlan{{Keys: []*Key{forged, g}, M: 1, Signers: []*Key{g}, Script: RawMultiScript(1, sers, 2)}}}
		b := d.Assemble(pl)
		b.Sigs[0] = [][]byte{d.foreignBlob(w.Curve, b.Hash)}
		b.encode()
		d.DoTx(Input{Kind: "probe:multisig-off-curve-key", Expect: "reject"}, b.Raw, append(b.AllKeys(), w))
	}
}

func (d *Drv) eip155() {
	c := d.C
	pk, err := ethcrypto.ToECDSA(scalar(c, ethcrypto.S256().Params().N))
	if err != nil {
		return
	}
	chain := big.NewInt(int64(1 + c.Intn(1000)))
	etx := ethtypes.NewTransaction(uint64(c.Intn(1000)), ethcommon.BytesToAddress(c.Bytes(20)), big.NewInt(int64(c.Intn(1000))),
		uint64(21000+c.Intn(1000)), new(big.Int).Mul(big.NewInt(int64(1+c.Intn(100))), big.NewInt(1000000000)), c.Bytes(c.Intn(8)))
	signed, err := ethtypes.SignTx(etx, ethtypes.NewEIP155Signer(chain), pk)
	if err != nil {
		return
	}
	tx, err := types.TransactionFromEIP155(signed)
	if err != nil {
		return
	}
	d.DoTx(Input{Kind: "eip155"}, tx.Raw, nil)
}

// Generate is the whole generated part of a run.
// Base is a small accepted transaction the mutants are derived from.
type Base struct {
	Name string
	B    *Built
	Step int
}

// PrepareBases assembles the base transactions and names their byte strings (before the first
// case is written, so that the many mutants can refer to the unchanged parts by name).
func (d *Drv) PrepareBases() []Base {
	p256 := d.KindKey("ecdsa-p256", 1)
	specs := []struct {
		name string
		pl   *Plan
		step int
	}{
		{"single-p256", d.Single(p256), 1},
		{"single-ed25519", d.Single(d.KindKey("ed25519", 1)), 3},
		{"single-eth", d.Single(d.KindKey("eth-secp256k1", 1)), 2},
		{"single-sm2", d.Single(d.KindKey("sm2-sm2p256v1", 1)), 3},
		{"single-secp256k1", d.Single(d.KindKey("ecdsa-secp256k1", 1)), 4},
		{"2-of-3", &Plan{U: d.RandUnsigned(), Sets: []*SetPlan{{Keys: []*Key{p256, d.KindKey("sm2-sm2p256v1", 2), d.KindKey("ecdsa-p224", 0)}, M: 2,
			Signers: []*Key{d.KindKey("ecdsa-p224", 0), p256}}}}, 2},
		{"two-sets", &Plan{U: d.RandUnsigned(), Sets: []*SetPlan{
			{Keys: []*Key{d.KindKey("ecdsa-p384", 0)}, M: 1, Signers: []*Key{d.KindKey("ecdsa-p384", 0)}},
			{Keys: []*Key{d.KindKey("ed25519", 0), d.KindKey("ecdsa-p256-sha3", 0)}, M: 1, Signers: []*Key{d.KindKey("ecdsa-p256-sha3", 0)}}}}, 3},
	}
	var out []Base
	pool := d.W.P
	for _, sp := range specs {
		sp.pl.U.Code = []byte{0x51}
		b := d.Assemble(sp.pl)
		pool.Blob(b.Hash)
		pool.Blob(b.Plan.U.Payer[:])
		for i, g := range b.RawSigs {
			for _, sg := range b.Sigs[i] {
				pool.Blob(sg)
			}
			pool.Blob(g.Invoke)
			pool.Blob(g.Verify)
			pool.Blob(Hash160(g.Verify))
			a := b.Plan.Sets[i].Address()
			pool.Blob(a[:])
		}
		out = append(out, Base{sp.name, b, sp.step})
	}
	return out
}

func (d *Drv) Generate(bases []Base) {
	c := d.C
	pool := d.W.P

	d.Probes()

	// 1. every pool key alone (all key types and signature shapes)
	for _, k := range pool.Keys {
		d.One("single:"+k.Kind, d.Single(k), "accept")
	}
	// 2. 1..16 signature sets, then random plans
	for n := 1; n <= 16; n++ {
		d.One("sets", d.RandPlan(n, 2+6/n), "accept")
	}
	for i, n := 0, c.N(24, 400); i < n; i++ {
		d.One("random-plan", d.RandPlan(1+c.Intn(4), 2+c.Intn(6)), "accept")
	}
	// 3. m-of-n on the boundary: every n in 2..16 with m in {1, n}, one 16-of-16 x 2 sets
	for n := 2; n <= 16; n++ {
		for _, m := range []int{1, n} {
			if n > 8 && m == n && c.Quick() && n != 16 {
				continue
			}
			keys := d.PickKeys(n)
			perm := c.Rng.Perm(n)
			var signers []*Key
			for _, i := range perm[:m] {
				signers = append(signers, keys[i])
			}
			d.One(fmt.Sprintf("m-of-n:%d-of-%d", m, n), &Plan{U: d.RandUnsigned(), Sets: []*SetPlan{{Keys: keys, M: m, Signers: signers}}}, "accept")
		}
	}
	// 4. special sets
	{
		// unsorted key order in the script (accepted; the address is that of the sorted script)
		keys := d.PickKeys(3)
		for _, order := range [][]int{{0, 1, 2}, {2, 1, 0}, {1, 2, 0}} {
			ks := []*Key{keys[order[0]], keys[order[1]], keys[order[2]]}
			d.One("unsorted-multisig", &Plan{U: d.RandUnsigned(), Sets: []*SetPlan{{Keys: ks, M: 2, Unsorted: true, Signers: ks[:2]}}}, "accept")
		}
		// twin keys: the ECDSA and the SM2 key of one point; the ECDSA signature verifies under both
		a := pool.ByKind["ecdsa-sm2p256v1"][0]
		tw := pool.ByKind["sm2-twin-of-ecdsa"][0]
		d.One("twin-keys", &Plan{U: d.RandUnsigned(), Sets: []*SetPlan{{Keys: []*Key{a, tw}, M: 2, Signers: []*Key{a, tw}}}}, "accept")
		d.One("twin-keys-one-signer-twice", &Plan{U: d.RandUnsigned(), Sets: []*SetPlan{{Keys: []*Key{a, tw}, M: 2, Unsorted: true, Signers: []*Key{a, a}}}}, "")
		d.One("twin-single-signed-by-twin", &Plan{U: d.RandUnsigned(), Sets: []*SetPlan{{Keys: []*Key{tw}, M: 1, Signers: []*Key{a}}}}, "")
		// the same key twice in one script
		k := d.PickKeys(2)
		d.One("duplicate-key-in-script", &Plan{U: d.RandUnsigned(), Sets: []*SetPlan{{Keys: []*Key{k[0], k[0], k[1]}, M: 2, Unsorted: true, Signers: []*Key{k[0], k[0]}}}}, "")
		// Ethereum-style keys inside a multi-signature set
		e := pool.ByKind["eth-secp256k1"]
		d.One("eth-in-multisig", &Plan{U: d.RandUnsigned(), Sets: []*SetPlan{{Keys: []*Key{e[0], e[1], k[1]}, M: 2, Signers: []*Key{e[1], e[0]}}}}, "accept")
		// no signature set at all; 17 sets (refused by the decoder)
		d.One("no-sets", &Plan{U: d.RandUnsigned()}, "reject")
		d.One("17-sets", d.RandPlan(17, 2), "")
		d.eip155()
	}
	// 5. invalid by construction
	for r, n := 0, c.N(4, 40); r < n; r++ {
		for _, name := range defects {
			pl := d.RandPlan(1+c.Intn(3), 2+c.Intn(4))
			{ // always one m-of-n set with 2 <= m < n, so that every defect applies
				n := 3 + c.Intn(3)
				m := 2 + c.Intn(n-2)
				keys := d.PickKeys(n)
				pl.Sets[c.Intn(len(pl.Sets))] = &SetPlan{Keys: keys, M: m, Signers: append([]*Key{}, keys[n-m:]...)}
			}
			b := d.Assemble(pl)
			raw, expect := d.Defect(b, name)
			if expect == "" {
				c.Count("defect-not-applicable:" + name)
				continue
			}
			d.DoTx(Input{Kind: "defect:" + name, Expect: expect, Valid: hx.Hex(b.Raw)}, raw, b.AllKeys())
		}
	}
	// 6. single-byte and structural mutations of small accepted transactions
	for _, bs := range bases {
		d.DoTx(Input{Kind: "base:" + bs.Name, Expect: "accept"}, bs.B.Raw, bs.B.AllKeys())
		step := bs.Step
		if !c.Quick() {
			step = 1
		}
		d.byteMutants(bs.B, bs.Name, step, c.N(1, 3))
		d.structMutants(bs.B, bs.Name, c.N(10, 60))
	}
	// 7. one large transaction: 16 sets, two of them 16-of-16
	{
		pl := d.RandPlan(16, 3)
		for _, i := range []int{3, 11} {
			keys := d.PickKeys(16)
			pl.Sets[i] = &SetPlan{Keys: keys, M: 16, Signers: append([]*Key{}, keys...)}
		}
		save := d.AbsBudget
		d.AbsBudget = 4
		d.One("large", pl, "accept")
		d.AbsBudget = save
	}
}

var _ = bytes.Equal
