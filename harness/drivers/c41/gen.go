package c41

// Translator part of C41: reads smartcontract/service/native/auth/{auth.go,param.go} with go/parser
// and writes coq/Gen/AuthConsts.v: the expiry given to admin-assigned tokens, the two level
// constants and every time/level comparison of getAuthToken, delegate and verifyToken as boolean
// functions over N.  Model/Auth.v is built from these definitions, Proofs/C41.v proves their
// meaning (e.g. [vt_token_expired e n = true <-> e < n]); a changed operator therefore changes the
// model and breaks the proof of the property theorem unless the change is harmless.
//
// Fails closed: a condition that is missing or outside the supported fragment is emitted as
// `translator_broken_<name>` and the dependent files no longer compile.

import (
	"bytes"
	"fmt"
	"go/ast"
	"go/parser"
	"go/printer"
	"go/token"
	"path/filepath"
	"strconv"
	"strings"
	"time"

	"verif/harness/gen"
)

const (
	authFile  = "smartcontract/service/native/auth/auth.go"
	paramFile = "smartcontract/service/native/auth/param.go"
)

func pr(fset *token.FileSet, n ast.Node) string {
	var b bytes.Buffer
	printer.Fprint(&b, fset, n)
	return b.String()
}

func findFn(f *ast.File, name, recv string) *ast.FuncDecl {
	for _, d := range f.Decls {
		fd, ok := d.(*ast.FuncDecl)
		if !ok || fd.Name.Name != name || fd.Body == nil {
			continue
		}
		if recv == "" && fd.Recv == nil {
			return fd
		}
		if recv != "" && fd.Recv != nil && len(fd.Recv.List) == 1 {
			var b bytes.Buffer
			printer.Fprint(&b, token.NewFileSet(), fd.Recv.List[0].Type)
			if strings.TrimPrefix(b.String(), "*") == recv {
				return fd
			}
		}
	}
	return nil
}

// intConst evaluates integer literal expressions with + - * << (used for 1<<32 and the like).
func intConst(e ast.Expr) (uint64, bool) {
	switch x := e.(type) {
	case *ast.ParenExpr:
		return intConst(x.X)
	case *ast.BasicLit:
		if x.Kind == token.INT {
			v, err := strconv.ParseUint(x.Value, 0, 64)
			return v, err == nil
		}
	case *ast.BinaryExpr:
		a, ok1 := intConst(x.X)
		b, ok2 := intConst(x.Y)
		if !ok1 || !ok2 {
			return 0, false
		}
		switch x.Op {
		case token.SHL:
			if b < 64 {
				return a << b, true
			}
		case token.ADD:
			return a + b, true
		case token.MUL:
			return a * b, true
		case token.SUB:
			if a >= b {
				return a - b, true
			}
		}
	}
	return 0, false
}

// boolCoq translates the fragment  && || ! < > <= >= == !=  over integer terms (substituted
// sub-expressions, literals, constant shifts, and + which wraps modulo 2^addWidth when addWidth>0).
func boolCoq(fset *token.FileSet, e ast.Expr, subst map[string]string, addWidth uint) (string, error) {
	if v, ok := subst[pr(fset, e)]; ok {
		return v, nil
	}
	if v, ok := intConst(e); ok {
		return fmt.Sprint(v), nil
	}
	switch x := e.(type) {
	case *ast.ParenExpr:
		return boolCoq(fset, x.X, subst, addWidth)
	case *ast.UnaryExpr:
		if x.Op == token.NOT {
			a, err := boolCoq(fset, x.X, subst, addWidth)
			if err != nil {
				return "", err
			}
			return "(negb " + a + ")", nil
		}
	case *ast.BinaryExpr:
		a, err := boolCoq(fset, x.X, subst, addWidth)
		if err != nil {
			return "", err
		}
		b, err := boolCoq(fset, x.Y, subst, addWidth)
		if err != nil {
			return "", err
		}
		switch x.Op {
		case token.LAND:
			return "(" + a + " && " + b + ")", nil
		case token.LOR:
			return "(" + a + " || " + b + ")", nil
		case token.LSS:
			return "(" + a + " <? " + b + ")", nil
		case token.GTR:
			return "(" + b + " <? " + a + ")", nil
		case token.LEQ:
			return "(" + a + " <=? " + b + ")", nil
		case token.GEQ:
			return "(" + b + " <=? " + a + ")", nil
		case token.EQL:
			return "(" + a + " =? " + b + ")", nil
		case token.NEQ:
			return "(negb (" + a + " =? " + b + "))", nil
		case token.ADD:
			if addWidth > 0 {
				return fmt.Sprintf("((%s + %s) mod %d)", a, b, uint64(1)<<addWidth), nil
			}
			return "(" + a + " + " + b + ")", nil
		}
	}
	return "", fmt.Errorf("unsupported expression %q", pr(fset, e))
}

// ifConds lists the conditions of all if statements of a function, in source order.
func ifConds(fd *ast.FuncDecl) []ast.Expr {
	var out []ast.Expr
	ast.Inspect(fd.Body, func(n ast.Node) bool {
		if s, ok := n.(*ast.IfStmt); ok {
			out = append(out, s.Cond)
		}
		return true
	})
	return out
}

type condSite struct {
	name     string
	file     string
	fn, recv string
	contains []string // the printed condition must contain all of these
	nth      int      // among the matching conditions
	// part selects a sub-expression: "" whole, "or:1" right operand of top-level ||, "and:1" right operand of top-level &&
	part     string
	subst    map[string]string
	params   string
	addWidth uint
}

var condSites = []condSite{
	{name: "vt_token_expired", file: authFile, fn: "verifyToken", contains: []string{"funcs == nil", "token.expireTime"}, part: "or:1",
		subst: map[string]string{"token.expireTime": "expire", "native.Time": "now"}, params: "(expire now : N)"},
	{name: "vt_deleg_expired", file: authFile, fn: "verifyToken", contains: []string{"funcs == nil", "s.expireTime"}, part: "or:1",
		subst: map[string]string{"s.expireTime": "expire", "native.Time": "now"}, params: "(expire now : N)"},
	{name: "gat_deleg_live", file: authFile, fn: "getAuthToken", contains: []string{"bytes.Compare(s.role, role) == 0", "s.expireTime"}, part: "and:1",
		subst: map[string]string{"s.expireTime": "expire", "native.Time": "now"}, params: "(now expire : N)"},
	{name: "del_overflow", file: authFile, fn: "delegate", contains: []string{"period+expireTime"},
		subst: map[string]string{"period": "period", "expireTime": "now"}, params: "(period now : N)", addWidth: 32},
	{name: "del_allowed", file: authFile, fn: "delegate", contains: []string{"fromExpireTime"},
		subst:  map[string]string{"level": "level", "fromLevel": "fromLevel", "expireTime": "expire", "fromExpireTime": "fromExpire"},
		params: "(level fromLevel expire fromExpire : N)"},
	{name: "del_param_too_large", file: paramFile, fn: "Deserialization", recv: "DelegateParam", contains: []string{"this.Period"},
		subst:  map[string]string{"level": "level", "this.Period": "period", "math.MaxInt8": "127", "math.MaxUint32": "4294967295"},
		params: "(level period : N)"},
	{name: "del_entry_too_large", file: authFile, fn: "Delegate", contains: []string{"param.Period", "param.Level"},
		subst: map[string]string{"param.Period": "period", "param.Level": "level"}, params: "(period level : N)"},
}

// sourceFuture evaluates the expiry given to admin-assigned tokens from the source text.
func sourceFuture(fset *token.FileSet, af *ast.File) (val uint32, desc, why string) {
	var args []ast.Expr
	for _, d := range af.Decls {
		gd, ok := d.(*ast.GenDecl)
		if !ok || gd.Tok != token.VAR {
			continue
		}
		for _, sp := range gd.Specs {
			vs := sp.(*ast.ValueSpec)
			for i, n := range vs.Names {
				if n.Name == "future" && i < len(vs.Values) {
					if ce, ok := vs.Values[i].(*ast.CallExpr); ok && pr(fset, ce.Fun) == "time.Date" {
						args = ce.Args
					}
				}
			}
		}
	}
	if len(args) != 8 || pr(fset, args[7]) != "time.UTC" {
		return 0, "", "var future = time.Date(..., time.UTC) not found"
	}
	var v [7]int
	for i := 0; i < 7; i++ {
		x, ok := intConst(args[i])
		if !ok {
			return 0, "", "non-literal argument of time.Date: " + pr(fset, args[i])
		}
		v[i] = int(x)
	}
	fd := findFn(af, "assignToRole", "")
	rhs := ""
	if fd != nil {
		ast.Inspect(fd.Body, func(n ast.Node) bool {
			if as, ok := n.(*ast.AssignStmt); ok && len(as.Lhs) == 1 && len(as.Rhs) == 1 && pr(fset, as.Lhs[0]) == "token.expireTime" {
				rhs = pr(fset, as.Rhs[0])
			}
			return true
		})
	}
	if rhs != "uint32(future.Unix())" {
		return 0, "", "assignToRole: token.expireTime = uint32(future.Unix()) not found, got " + rhs
	}
	t := time.Date(v[0], time.Month(v[1]), v[2], v[3], v[4], v[5], v[6], time.UTC)
	return uint32(t.Unix()), fmt.Sprintf("auth.go: future = %s; assignToRole: token.expireTime = %s", pr(fset, &ast.CallExpr{Fun: ast.NewIdent("time.Date"), Args: args}), rhs), ""
}

// FutureFromSource is what the driver's oracle uses as the end of validity of admin-assigned tokens.
func futureFromSource(repo string) (uint32, error) {
	fset := token.NewFileSet()
	f, err := parser.ParseFile(fset, filepath.Join(repo, authFile), nil, 0)
	if err != nil {
		return 0, err
	}
	v, _, why := sourceFuture(fset, f)
	if why != "" {
		return 0, fmt.Errorf("%s", why)
	}
	return v, nil
}

func produceAuthConsts(repo string) ([]byte, []string) {
	var b bytes.Buffer
	var errs []string
	fmt.Fprintf(&b, "(* GENERATED by harness/drivers/c41 from /repo's current source on every run. Do not edit. *)\nFrom Coq Require Import NArith Bool.\nLocal Open Scope N_scope.\nOpen Scope bool_scope.\n\n")
	broken := func(name, why string) {
		errs = append(errs, name+": "+why)
		fmt.Fprintf(&b, "Definition translator_broken_%s : unit := tt. (* %s *)\n", name, strings.ReplaceAll(why, "*)", "* )"))
	}
	fset := token.NewFileSet()
	files := map[string]*ast.File{}
	for _, p := range []string{authFile, paramFile} {
		f, err := parser.ParseFile(fset, filepath.Join(repo, p), nil, 0)
		if err != nil {
			broken("parse", err.Error())
			return b.Bytes(), errs
		}
		files[p] = f
	}
	af := files[authFile]

	// AUTH_FUTURE: var future = time.Date(y, m, d, h, mi, s, ns, time.UTC); token.expireTime = uint32(future.Unix())
	if v, desc, why := sourceFuture(fset, af); why != "" {
		broken("AUTH_FUTURE", why)
	} else {
		fmt.Fprintf(&b, "(* %s *)\nDefinition AUTH_FUTURE : N := %d.\n", desc, v)
	}

	// ADMIN_TOKEN_LEVEL: assignToRole: token.level = <lit>
	func() {
		fd := findFn(af, "assignToRole", "")
		found := false
		if fd != nil {
			ast.Inspect(fd.Body, func(n ast.Node) bool {
				if as, ok := n.(*ast.AssignStmt); ok && len(as.Lhs) == 1 && len(as.Rhs) == 1 && pr(fset, as.Lhs[0]) == "token.level" && !found {
					if v, ok := intConst(as.Rhs[0]); ok {
						fmt.Fprintf(&b, "(* assignToRole: token.level = %s *)\nDefinition ADMIN_TOKEN_LEVEL : N := %d.\n", pr(fset, as.Rhs[0]), v)
						found = true
					}
				}
				return true
			})
		}
		if !found {
			broken("ADMIN_TOKEN_LEVEL", "assignToRole: token.level = <literal> not found")
		}
	}()

	// DELEGATOR_LEVEL: delegate: if fromLevel == <lit>
	func() {
		fd := findFn(af, "delegate", "")
		found := false
		if fd != nil {
			for _, c := range ifConds(fd) {
				if be, ok := c.(*ast.BinaryExpr); ok && be.Op == token.EQL && pr(fset, be.X) == "fromLevel" && !found {
					if v, ok := intConst(be.Y); ok {
						fmt.Fprintf(&b, "(* delegate: if %s *)\nDefinition DELEGATOR_LEVEL : N := %d.\n", pr(fset, c), v)
						found = true
					}
				}
			}
		}
		if !found {
			broken("DELEGATOR_LEVEL", "delegate: if fromLevel == <literal> not found")
		}
	}()

	for _, s := range condSites {
		fd := findFn(files[s.file], s.fn, s.recv)
		if fd == nil {
			broken(s.name, "function "+s.fn+" not found in "+s.file)
			continue
		}
		var match []ast.Expr
		for _, c := range ifConds(fd) {
			txt := pr(fset, c)
			ok := true
			for _, sub := range s.contains {
				if !strings.Contains(txt, sub) {
					ok = false
				}
			}
			if ok {
				match = append(match, c)
			}
		}
		if len(match) != 1 {
			broken(s.name, fmt.Sprintf("%s: expected exactly one if-condition containing %v, found %d", s.fn, s.contains, len(match)))
			continue
		}
		e := match[0]
		whole := pr(fset, e)
		if s.part != "" {
			be, ok := e.(*ast.BinaryExpr)
			want := token.LOR
			if strings.HasPrefix(s.part, "and") {
				want = token.LAND
			}
			if !ok || be.Op != want {
				broken(s.name, "condition has an unexpected shape: "+whole)
				continue
			}
			e = be.Y
		}
		coq, err := boolCoq(fset, e, s.subst, s.addWidth)
		if err != nil {
			broken(s.name, err.Error()+" in "+whole)
			continue
		}
		fmt.Fprintf(&b, "(* %s: if %s *)\nDefinition %s %s : bool := %s.\n", s.fn, strings.ReplaceAll(whole, "*)", "* )"), s.name, s.params, coq)
	}
	return b.Bytes(), errs
}

func init() {
	gen.RegisterFile("AuthConsts.v", produceAuthConsts)
}
