package c41

// Histories around "the admin assigns a role to an identity that has NO token record at all and
// holds the role only through a running delegation".  assignToRole consults hasRole() only when a
// roleTokens record already exists; an identity without a record always receives the admin's token,
// so that after the delegation has expired or has been withdrawn verifyToken still confirms it.
// (The neighbouring case - the assignee already has a record, e.g. for another role - is the listed
// finding assign-skipped-live-delegation; the two are kept apart by the oracle, see denyClass.)
//
// Two deterministic probes (end by expiry, end by withdrawal) and a generated family run on every
// check; genHistory's scripted opening has the same shape as one of its variants.

// noRecordHistory: identity 3 has no token record in the contract; 1 delegates r0 to it for 100 s;
// while the delegation runs the admin assigns r0 to 3 (stored); the delegation expires (mode
// "expire") or is withdrawn by 1 (mode "withdraw"): 3 may still call f0, and as an admin-assigned
// holder it may itself delegate r0 to 4.
func noRecordHistory(mode string) *history {
	t := uint32(1700000000)
	ops := []opRec{
		{Kind: "init", A: 0, Now: t, KeyNo: 1},
		{Kind: "funcs", A: 0, Role: 0, Fns: []int{0}, Now: t + 1, KeyNo: 1, Signers: sign(0, 0)},
		{Kind: "ids", A: 0, Role: 0, Persons: []int{1}, Now: t + 2, KeyNo: 1, Signers: sign(0, 0)},
		{Kind: "verify", A: 3, Fn: 0, Now: t + 3, KeyNo: 1, Signers: sign(3, 0)},
		{Kind: "delegate", A: 1, B: 3, Role: 0, Period: 100, Level: 1, Now: t + 4, KeyNo: 1, Signers: sign(1, 0)},
		{Kind: "verify", A: 3, Fn: 0, Now: t + 5, KeyNo: 1, Signers: sign(3, 0)},
		{Kind: "ids", A: 0, Role: 0, Persons: []int{3}, Now: t + 6, KeyNo: 1, Signers: sign(0, 0)},
		{Kind: "verify", A: 3, Fn: 0, Now: t + 7, KeyNo: 1, Signers: sign(3, 0)},
	}
	end := t + 105
	if mode == "withdraw" {
		ops = append(ops,
			opRec{Kind: "withdraw", A: 1, B: 3, Role: 0, Now: t + 8, KeyNo: 1, Signers: sign(1, 0)},
			opRec{Kind: "verify", A: 3, Fn: 0, Now: t + 8, KeyNo: 1, Signers: sign(3, 0)},
			opRec{Kind: "verify", A: 3, Fn: 0, Now: t + 9, KeyNo: 1, Signers: sign(3, 0)})
		end = t + 10
	} else {
		ops = append(ops,
			opRec{Kind: "verify", A: 3, Fn: 0, Now: t + 104, KeyNo: 1, Signers: sign(3, 0)},
			opRec{Kind: "verify", A: 3, Fn: 0, Now: t + 105, KeyNo: 1, Signers: sign(3, 0)})
	}
	ops = append(ops,
		opRec{Kind: "delegate", A: 3, B: 4, Role: 0, Period: 50, Level: 1, Now: end + 1, KeyNo: 1, Signers: sign(3, 0)},
		opRec{Kind: "verify", A: 4, Fn: 0, Now: end + 2, KeyNo: 1, Signers: sign(4, 0)},
		opRec{Kind: "verify", A: 3, Fn: 0, Now: end + 1000, KeyNo: 1, Signers: sign(3, 0)})
	return &history{Tag: "probe:assign-no-record-during-delegation:" + mode, Ops: ops}
}

// stepper runs scripted operations online, each with a correct identity proof of its actor.
type stepper struct {
	r     *runner
	h     *history
	clock uint64
}

func (s *stepper) liveKey(i int) int {
	id := s.r.w.ids[i]
	var ks []int
	for k := range id.keys {
		if !id.revoked[k] {
			ks = append(ks, k)
		}
	}
	if len(ks) == 0 || !id.registered {
		return -1
	}
	return ks[s.r.c.Rng.Intn(len(ks))]
}

// do advances the clock by adv, executes o at that time and returns the implementation's result.
func (s *stepper) do(adv uint64, o opRec) string {
	w := s.r.w
	s.clock += adv
	if s.clock > maxU32 {
		s.clock = maxU32
	}
	o.Now = uint32(s.clock)
	o.KeyNo = 1
	if o.Kind != "init" {
		if k := s.liveKey(o.A); k >= 0 {
			o.KeyNo = uint64(k + 1)
			o.Signers = [][2]int{{o.A, k}}
		}
	}
	if s.h.Stub {
		o.Stub = make([]int, nIDs)
		for i := range o.Stub {
			o.Stub[i] = 2
			if w.proved(i, o.KeyNo, o.Signers) {
				o.Stub[i] = 0
			}
		}
	}
	s.h.Ops = append(s.h.Ops, o)
	s.r.exec(s.h, len(s.h.Ops)-1)
	return s.r.lastRes
}

// genNoRecordHistory: one history of the family.  mode 0: the delegation runs out; 1: its delegator
// withdraws it while it runs; 2: it runs out and is withdrawn afterwards.  Everything else (admin,
// delegator, delegate, contract, role incl. the binary and the empty one, function names, another
// role held by others, a record of the delegate in the OTHER contract, delegation level and period,
// the moment of the assignment relative to the delegation's start and expiry, the arrangement of
// the assignee list, what follows) is drawn from c.Rng.
func (r *runner) genNoRecordHistory(stub bool, mode int) *history {
	c := r.c
	rng := c.Rng
	h := &history{Stub: stub, Tag: "family:assign-no-record-during-delegation"}
	r.begin()
	s := &stepper{r: r, h: h}
	switch p := rng.Intn(20); {
	case p < 16:
		s.clock = 1700000000 + uint64(rng.Intn(1000))
	case p < 19:
		s.clock = uint64(future) - 700 + uint64(rng.Intn(100))
	default:
		s.clock = uint64(rng.Intn(3))
	}
	ci := 0
	if rng.Intn(4) == 0 {
		ci = 1
	}
	ad := rng.Intn(5)
	a := rng.Intn(5)                // delegator
	b := (a + 1 + rng.Intn(4)) % 5  // delegate: no token record in contract ci
	other := func(not ...int) int { // a regular identity outside not
		for {
			x := rng.Intn(5)
			ok := true
			for _, n := range not {
				ok = ok && x != n
			}
			if ok {
				return x
			}
		}
	}
	ro := rng.Intn(3)
	switch q := rng.Intn(16); {
	case q < 2:
		ro = 4 // binary role name
	case q == 2:
		ro = 3 // empty role: every assignment fails
	}
	ro2 := (ro%3 + 1 + rng.Intn(2)) % 3
	names := []int{0, 1, 2, 3, 5, 6, 7, 8, 9, 10} // non-empty function names
	fn := names[rng.Intn(len(names))]
	fl := []int{fn}
	if rng.Intn(3) == 0 {
		fl = append(fl, names[rng.Intn(len(names))])
	}
	foreign := names[rng.Intn(len(names))] // a name given to ro2 only (or to nobody)
	for foreign == fl[0] || foreign == fl[len(fl)-1] {
		foreign = names[rng.Intn(len(names))]
	}
	vf := func(adv uint64, who, f int) string { return s.do(adv, opRec{Kind: "verify", C: ci, A: who, Fn: f}) }

	s.do(0, opRec{Kind: "init", C: ci, A: ad})
	s.do(1, opRec{Kind: "funcs", C: ci, A: ad, Role: ro, Fns: fl})
	if rng.Intn(2) == 0 { // another role, held by somebody else
		s.do(1, opRec{Kind: "funcs", C: ci, A: ad, Role: ro2, Fns: []int{foreign}})
		s.do(1, opRec{Kind: "ids", C: ci, A: ad, Role: ro2, Persons: []int{other(b)}})
		c.Count("norecord:other-role-held-by-others")
	}
	if rng.Intn(3) == 0 { // the delegate has a token record, but in the other contract
		ad2 := rng.Intn(5)
		s.do(1, opRec{Kind: "init", C: 1 - ci, A: ad2})
		s.do(1, opRec{Kind: "ids", C: 1 - ci, A: ad2, Role: ro, Persons: []int{b}})
		c.Count("norecord:record-in-other-contract")
	}
	holders := []int{a}
	if rng.Intn(3) == 0 {
		holders = append(holders, other(a, b))
	}
	s.do(1, opRec{Kind: "ids", C: ci, A: ad, Role: ro, Persons: holders})
	if rng.Intn(2) == 0 {
		vf(1, b, fn)
	}
	// the delegation
	period := uint64(3 + rng.Intn(58))
	switch q := rng.Intn(10); {
	case q == 0:
		period = 1
	case q == 1:
		period = 2
	}
	level := uint64(1)
	if rng.Intn(8) == 0 {
		level = []uint64{0, 2, 3, 127, 128, 255, 256, 300}[rng.Intn(8)]
	}
	accepted := s.do(1, opRec{Kind: "delegate", C: ci, A: a, B: b, Role: ro, Period: period, Level: level}) == resTrue
	tdel := s.clock
	exp := tdel + period
	if accepted {
		c.Count("norecord:delegation:accepted")
	} else {
		c.Count("norecord:delegation:refused(level/role)")
	}
	if rng.Intn(2) == 0 && period > 1 {
		vf(1, b, fn)
	}
	// the admin's assignment: while the delegation runs (from its very second to its last running
	// second), at its expiry, or one second later
	var tas uint64
	switch q := rng.Intn(10); {
	case q < 5:
		lo := s.clock
		tas = lo + uint64(rng.Intn(int(exp-lo)))
		c.Count("norecord:assign-at:running")
	case q == 5:
		tas = s.clock
		c.Count("norecord:assign-at:running(same-second-as-previous-call)")
	case q < 8:
		tas = exp - 1
		c.Count("norecord:assign-at:last-running-second")
	case q == 8:
		tas = exp
		c.Count("norecord:assign-at:expiry")
	default:
		tas = exp + 1
		c.Count("norecord:assign-at:after-expiry")
	}
	y := other(b)
	persons := [][]int{{b}, {b}, {b, b}, {y, b}, {b, y}, {a, b}, {b, y, b}}[rng.Intn(7)]
	s.do(tas-s.clock, opRec{Kind: "ids", C: ci, A: ad, Role: ro, Persons: persons})
	if s.clock+1 < exp && rng.Intn(2) == 0 {
		vf(1, b, fn)
	}
	// the delegation ends
	switch mode {
	case 0:
		c.Count("norecord:end:expiry")
		if s.clock < exp {
			vf(exp-s.clock, b, fn) // at now = expire
		}
		vf(exp+1-s.clock, b, fn)
	case 1:
		c.Count("norecord:end:withdrawal")
		s.do(uint64(rng.Intn(2)), opRec{Kind: "withdraw", C: ci, A: a, B: b, Role: ro})
		vf(uint64(rng.Intn(2)), b, fn)
	default:
		c.Count("norecord:end:expiry-then-withdrawal")
		if s.clock <= exp {
			vf(exp+1-s.clock, b, fn)
		}
		s.do(uint64(1+rng.Intn(5)), opRec{Kind: "withdraw", C: ci, A: a, B: b, Role: ro})
		vf(1, b, fn)
	}
	vf(uint64(rng.Intn(40)), b, fl[len(fl)-1])
	vf(0, b, foreign)
	// afterwards: the assignee is an admin-assigned holder (it may delegate the role itself), its
	// former delegator cannot delegate the role to it again
	switch rng.Intn(4) {
	case 0:
		z := other(a, b)
		s.do(1, opRec{Kind: "delegate", C: ci, A: b, B: z, Role: ro, Period: uint64(2 + rng.Intn(20)), Level: 1})
		vf(1, z, fn)
	case 1:
		s.do(1, opRec{Kind: "delegate", C: ci, A: a, B: b, Role: ro, Period: uint64(2 + rng.Intn(20)), Level: 1})
		vf(1, b, fn)
	case 2:
		s.do(1, opRec{Kind: "ids", C: ci, A: ad, Role: ro, Persons: []int{b}}) // assigned once more
		vf(1, b, fn)
	}
	for _, o := range r.closingScript() {
		s.do(1, o)
	}
	vf(1, b, fn)
	r.finish(h, true)
	return h
}
