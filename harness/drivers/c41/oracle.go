package c41

// The oracle: a specification-level ledger, written from the property text and the contract's
// documented rules, NOT from Model/Auth.v.  It is a pure reference: it is advanced by its own
// verdict on every call (never by what the implementation answered), so that once the
// implementation diverges every later call and probe keeps showing the divergence.
//
//   admin                       who may assign (set once by the contract, moved by transfer)
//   fns[role]                   function names given to a role
//   named[id]                   roles the admin assigned to id (property text's reading)
//   stored[id]                  ... for which the contract keeps a token (assignment not skipped)
//   ledger[(from, to, role)]    delegations, with expiry; an accepted delegation to (to, role)
//                               replaces the earlier entry for (to, role) — it can only be
//                               accepted when that entry has run out — and only its delegator
//                               may withdraw it, live or expired
//
// "id may call f at time t" is derived from it: some role r with f in fns[r] is in stored[id]
// (until 2100-01-01 12:00 UTC) or there is an entry (_, id, r) with t <= expiry.

import (
	"fmt"
	"sort"

	"github.com/ontio/ontology/common"
	"github.com/ontio/ontology/smartcontract/service/native/auth"
	"github.com/ontio/ontology/smartcontract/service/native/utils"
	"github.com/ontio/ontology/smartcontract/storage"
)

type lkey struct{ from, to, role string }

type cspec struct {
	admin   *string
	fns     map[string]map[string]bool // role -> assigned function names
	named   map[string]map[string]bool // id -> roles named in an accepted admin assignment
	stored  map[string]map[string]bool // id -> roles for which the contract keeps a token
	ledger  map[lkey]uint64            // (delegator, delegate, role) -> expiry
	skipped map[string]bool            // id|role: accepted assignment that stored nothing
	norec   map[string]bool            // id|role: accepted assignment to an identity WITHOUT any token record while it held the role through a running delegation (the contract must store the token)
}

func newSpec() *cspec {
	return &cspec{fns: map[string]map[string]bool{}, named: map[string]map[string]bool{}, stored: map[string]map[string]bool{},
		ledger: map[lkey]uint64{}, skipped: map[string]bool{}, norec: map[string]bool{}}
}
func set2(m map[string]map[string]bool, a, b string) {
	if m[a] == nil {
		m[a] = map[string]bool{}
	}
	m[a][b] = true
}

// entry returns the delegation recorded for (to, role), if any.
func (s *cspec) entry(to, role string) (from string, exp uint64, ok bool) {
	for k, e := range s.ledger {
		if k.to == to && k.role == role {
			return k.from, e, true
		}
	}
	return "", 0, false
}

// running: the delegation counts as "holding the role" for delegate/withdraw/assign (strict).
func (s *cspec) running(id, r string, now uint64) bool {
	_, exp, ok := s.entry(id, r)
	return ok && now < exp
}
func (s *cspec) holds(id, r string, now uint64) bool { return s.stored[id][r] || s.running(id, r, now) }

// mayCall: text = with the property text's reading of "holds directly" (named by the admin),
// code = with what the contract stores; reason names the ground.
func (s *cspec) mayCall(id, fn string, now uint64) (text, code bool, reason string) {
	var rs []string
	for rr := range s.fns {
		rs = append(rs, rr)
	}
	sort.Strings(rs)
	for _, rr := range rs {
		if !s.fns[rr][fn] {
			continue
		}
		if now <= uint64(future) {
			if s.named[id][rr] {
				text = true
				reason = "direct"
			}
			if s.stored[id][rr] {
				code = true
			}
		}
		if _, exp, ok := s.entry(id, rr); ok && now <= exp {
			text, code = true, true
			if now == exp {
				reason = "delegation-at-expiry"
			} else {
				reason = "delegation"
			}
		}
	}
	return
}

// denyClass names the failure "verifyToken refuses a caller to whom the ledger gives a role with
// the function".  The listed finding (assign-skipped-live-delegation) is the case where the
// assignee ALREADY HAD a token record when the admin assigned the role during a running
// delegation; there the ledger itself does not store the role and this function is never reached.
// When every ground the ledger has for the call is an admin assignment made while the assignee had
// NO token record at all and held the role only through a running delegation, and the contract
// indeed keeps no token of that role for the assignee, the refusal is the class
// assign-skipped-no-record (the contract has to store the token in that case); any other refusal is
// deny:with-role.
func (r *runner) denyClass(ci int, id, fn string, now uint64) (class, clause string) {
	s := r.spec[ci]
	grounds, norec := 0, 0
	for rr, fs := range s.fns {
		if !fs[fn] {
			continue
		}
		if now <= uint64(future) && s.stored[id][rr] {
			grounds++
			if s.norec[id+"|"+rr] && !r.tokenKept(ci, id, rr) {
				norec++
			}
		}
		if _, exp, ok := s.entry(id, rr); ok && now <= exp {
			grounds++
		}
	}
	if grounds > 0 && grounds == norec {
		return "assign-skipped-no-record", "verifyToken refuses a caller to whom the admin assigned the role: the caller had no token record at all and held the role only through a running delegation when assignOntIDsToRole was accepted, so the contract had to store the admin's token (an identity without a token record always receives it), but it keeps none; after the delegation ended the caller is refused"
	}
	return "deny:with-role", "verifyToken refused (or failed for) a caller who proved its identity and holds a role with the function"
}

// tokenKept: does the contract's token record of id hold a token of the role (raw record, read
// without the package's decoders; an unreadable record counts as kept, so that it is not blamed on
// a skipped assignment).
func (r *runner) tokenKept(ci int, id, role string) bool {
	cache := storage.NewCacheDB(r.w.overlay)
	item, err := utils.GetStorageItem(cache, authKey(r.caddr[ci], 0x03, []byte(id)))
	if err != nil {
		return true
	}
	if item == nil {
		return false
	}
	d := &recReader{src: common.NewZeroCopySource(item.Value)}
	n := d.count(len(item.Value))
	for i := uint32(0); i < n && d.err == ""; i++ {
		ro := d.varBytes()
		d.u32()
		d.u8()
		if d.err == "" && string(ro) == role {
			return true
		}
	}
	return d.err != ""
}

func sigVerdict(v int) (string, bool) {
	switch v {
	case 0:
		return "", true
	case 1:
		return resFalse, false
	}
	return resErr, false
}

// expect is the specification's verdict on one call (result and, when not accepted, why).
func (r *runner) expect(sp *cspec, o *opRec, tbl []int) (string, string) {
	w := r.w
	idA, idB := w.ids[o.A], w.ids[o.B]
	sA, sB := string(idA.id), string(idB.id)
	sR := string(w.roles[o.Role])
	now := uint64(o.Now)
	adminIdx := -1
	if sp.admin != nil {
		for i, id := range w.ids {
			if string(id.id) == *sp.admin {
				adminIdx = i
			}
		}
	}
	switch o.Kind {
	case "init":
		switch {
		case o.NoCtx:
			return resErr, "no calling contract"
		case !idA.valid:
			return resErr, "admin id is not a valid ONT ID"
		case sp.admin != nil:
			return resFalse, "the admin is already set"
		}
		return resTrue, ""
	case "transfer":
		if !idB.valid {
			return resErr, "new admin id is not a valid ONT ID"
		}
		if sp.admin == nil || adminIdx < 0 {
			return resFalse, "no admin set"
		}
		if v, ok := sigVerdict(tbl[adminIdx]); !ok {
			return v, "the current admin did not prove its identity"
		}
		return resTrue, ""
	case "funcs", "ids":
		if len(sR) == 0 {
			return resErr, "empty role"
		}
		if o.Kind == "ids" {
			for _, p := range o.Persons {
				if !w.ids[p].valid {
					return resErr, "assignee is not a valid ONT ID"
				}
			}
		}
		if sp.admin == nil {
			return resErr, "no admin set"
		}
		if *sp.admin != sA {
			return resFalse, "caller is not the admin"
		}
		if v, ok := sigVerdict(tbl[o.A]); !ok {
			return v, "the admin did not prove its identity"
		}
		return resTrue, ""
	case "delegate":
		if o.Level > 127 || o.Period > maxU32 {
			return resErr, "level or period out of range"
		}
		if now+o.Period > maxU32 {
			return resErr, "expiry overflows uint32"
		}
		if v, ok := sigVerdict(tbl[o.A]); !ok {
			return v, "delegator did not prove its identity"
		}
		switch {
		case !idB.valid:
			return resErr, "delegate is not a valid ONT ID"
		case !sp.stored[sA][sR]:
			return resFalse, "delegator does not hold the role by admin assignment (level 2)"
		case sp.holds(sB, sR, now):
			return resFalse, "delegate already holds the role"
		case o.Level != 1:
			return resFalse, "delegated level must be below the delegator's level 2 and above 0"
		case now+o.Period >= uint64(future):
			return resFalse, "delegation must expire strictly before the delegator's own token"
		}
		return resTrue, ""
	case "withdraw":
		if v, ok := sigVerdict(tbl[o.A]); !ok {
			return v, "initiator did not prove its identity"
		}
		if !sp.holds(sA, sR, now) {
			return resFalse, "initiator does not hold the role"
		}
		if from, _, ok := sp.entry(sB, sR); !ok || from != sA {
			return resFalse, "initiator is not the delegator of a recorded delegation of this role to this delegate"
		}
		return resTrue, ""
	case "verify":
		if v, ok := sigVerdict(tbl[o.A]); !ok {
			return v, "caller did not prove its identity"
		}
		if _, code, _ := sp.mayCall(sA, w.fns[o.Fn], now); code {
			return resTrue, ""
		}
		return resFalse, "caller holds no role with the function"
	}
	panic("bad op kind " + o.Kind)
}

// apply advances the ledger by an accepted call.
func (r *runner) apply(sp *cspec, o *opRec) {
	w := r.w
	sA, sB := string(w.ids[o.A].id), string(w.ids[o.B].id)
	sR := string(w.roles[o.Role])
	now := uint64(o.Now)
	switch o.Kind {
	case "init":
		s := sA
		sp.admin = &s
	case "transfer":
		s := sB
		sp.admin = &s
	case "funcs":
		for _, f := range o.Fns {
			if w.fns[f] != "" {
				set2(sp.fns, sR, w.fns[f])
			}
		}
	case "ids":
		for _, p := range o.Persons {
			id := string(w.ids[p].id)
			set2(sp.named, id, sR)
			if len(sp.stored[id]) > 0 && !sp.stored[id][sR] && sp.running(id, sR, now) {
				// known finding (only when the assignee already has a token record): the contract
				// answers TRUE and stores nothing
				sp.skipped[id+"|"+sR] = true
				r.c.Count("assign:skipped-by-live-delegation")
				continue
			}
			if len(sp.stored[id]) == 0 && sp.running(id, sR, now) {
				// no token record yet: the token is stored although the role is held by delegation
				sp.norec[id+"|"+sR] = true
				r.c.Count("assign:no-record-during-live-delegation(stored)")
			}
			set2(sp.stored, id, sR)
		}
	case "delegate":
		for k := range sp.ledger {
			if k.to == sB && k.role == sR {
				delete(sp.ledger, k)
			}
		}
		sp.ledger[lkey{sA, sB, sR}] = now + o.Period
		r.expiries = append(r.expiries, now+o.Period)
		r.c.Count("delegation:accepted")
	case "withdraw":
		delete(sp.ledger, lkey{sA, sB, sR})
		r.c.Count("delegation:withdrawn")
	}
}

func (r *runner) upTo(h *history, idx int) *history {
	n := idx + 1
	if n > len(h.Ops) {
		n = len(h.Ops)
	}
	return &history{Stub: h.Stub, Tag: h.Tag, Ops: append([]opRec{}, h.Ops[:n]...)}
}

// oracle judges the call that was just executed and then probes verifyToken for every account
// and function name.
func (r *runner) oracle(h *history, idx int, tbl []int, res string) {
	o := &h.Ops[idx]
	sp := r.spec[o.C]
	w := r.w
	exp, why := r.expect(sp, o, tbl)
	in := func() interface{} { return map[string]interface{}{"history": r.upTo(h, idx), "step": idx} }
	if o.Kind == "verify" {
		sA := string(w.ids[o.A].id)
		text, code, reason := sp.mayCall(sA, w.fns[o.Fn], uint64(o.Now))
		proved := tbl[o.A] == 0
		got := res == resTrue
		switch {
		case got && !proved:
			r.c.Fail("grant:identity-not-proved", "verifyToken confirmed a call although the identity proof failed", in(), res, exp)
		case got && !text:
			r.c.Fail("grant:without-role", "verifyToken confirmed a call although the caller holds no role with that function (expired/withdrawn delegation, unassigned function or role)", in(), res, exp)
		case !got && proved && text && !code:
			r.c.Fail("assign-skipped-live-delegation", "verifyToken refuses a caller to whom the admin assigned the role: assignOntIDsToRole returned true but stored nothing because the caller held the role through a delegation at that moment", in(), res, resTrue)
		case !got && proved && code:
			class, clause := r.denyClass(o.C, sA, w.fns[o.Fn], uint64(o.Now))
			r.c.Fail(class, clause, in(), res, resTrue)
		case res != exp:
			r.c.Fail("result:verify", "verifyToken answered differently from the specification ("+why+")", in(), res, exp)
		}
		switch {
		case got:
			r.c.Count("verify:granted:" + reason)
		case res == resErr:
			r.c.Count("verify:error(identity-not-proved)")
		default:
			r.c.Count("verify:refused")
		}
		r.probeAll(h, idx, o.C, o.Now, nil)
		return
	}
	switch {
	case res == exp:
	case res == resTrue:
		r.c.Fail("unauthorized:"+o.Kind, "a state-changing operation was accepted without the authorisation the contract requires: "+why, in(), res, exp)
	case exp == resTrue && (o.Kind == "funcs" || o.Kind == "ids"):
		r.c.Fail("deny:admin-call", "an assignment by the admin, with a valid identity proof and well-formed arguments, was not accepted", in(), res, exp)
	case exp == resTrue && o.Kind == "withdraw":
		r.c.Fail("deny:withdraw-by-delegator", "the delegator of a recorded delegation, with a valid identity proof, could not withdraw it", in(), res, exp)
	case exp == resTrue:
		r.c.Fail("deny:"+o.Kind, "an authorised, well-formed call was not accepted", in(), res, exp)
	default:
		r.c.Fail("result:"+o.Kind, "the call answered differently from the specification ("+why+")", in(), res, exp)
	}
	if o.Kind == "init" && o.NoCtx {
		return
	}
	if exp == resTrue {
		r.apply(sp, o)
	}
	r.probeAll(h, idx, o.C, o.Now, nil)
}

// probeNames: every function name given to some role of the contract, plus one that is not.
func (r *runner) probeNames(sp *cspec) []int {
	var out []int
	extra := -1
	for i, f := range r.w.fns {
		if f == "" {
			continue
		}
		given := false
		for _, fs := range sp.fns {
			given = given || fs[f]
		}
		if given {
			out = append(out, i)
		} else if extra < 0 {
			extra = i
		}
	}
	if extra >= 0 {
		out = append(out, extra)
	}
	return out
}

// probeAll asks verifyToken, with a valid identity proof, for every registered account (or only
// [only]) and every probe name at time [now], and compares with the ledger.  Probes are calls of
// their own (verifyToken changes nothing); they are not part of the Coq case.
func (r *runner) probeAll(h *history, idx int, ci int, now uint32, only []int) {
	w := r.w
	sp := r.spec[ci]
	accts := only
	if accts == nil {
		accts = []int{0, 1, 2, 3, 4}
	}
	for _, a := range accts {
		id := w.ids[a]
		k := -1
		for j := range id.keys {
			if !id.revoked[j] {
				k = j
			}
		}
		if k < 0 || !id.registered {
			continue
		}
		for _, fi := range r.probeNames(sp) {
			fn := w.fns[fi]
			sink := common.NewZeroCopySink(nil)
			(&auth.VerifyTokenParam{ContractAddr: r.caddr[ci], Caller: id.id, Fn: fn, KeyNo: uint64(k + 1)}).Serialization(sink)
			w.stubOn = h.Stub
			w.stub = map[string]int{sigKey(id.id, uint64(k+1)): 0}
			ca := r.caddr[ci]
			ret, err := w.call(&ca, now, []common.Address{id.keys[k].Address}, utils.AuthContractAddress, "verifyToken", sink.Bytes())
			res := coqRes(ret, err)
			_, code, _ := sp.mayCall(string(id.id), fn, uint64(now))
			r.c.Count("probe:verifyToken")
			if (res == resTrue) == code && res != resErr {
				continue
			}
			in := map[string]interface{}{"history": r.upTo(h, idx), "step": idx,
				"probe": map[string]interface{}{"contract": ci, "account": a, "function": fn, "now": now, "keyno": k + 1}}
			if res == resTrue {
				r.c.Fail("grant:without-role", fmt.Sprintf("after step %d verifyToken confirms account %d for %q at time %d although it holds no role with that function (expired, withdrawn or foreign delegation, unassigned function or role)", idx, a, fn, now), in, res, resFalse)
			} else {
				want, class := resFalse, "deny:with-role"
				msg := fmt.Sprintf("after step %d verifyToken refuses (or fails for) account %d and %q at time %d although it proved its identity and the ledger gives it a role with that function", idx, a, fn, now)
				if code {
					want = resTrue
					if cl, _ := r.denyClass(ci, string(id.id), fn, uint64(now)); cl != class {
						class = cl
						msg = fmt.Sprintf("after step %d verifyToken refuses (or fails for) account %d and %q at time %d although the admin assigned it a role with that function in an accepted assignOntIDsToRole: the account had no token record at all and held the role only through a running delegation at that moment, so the token had to be stored (an identity without a token record always receives it); the delegation has ended since", idx, a, fn, now)
					}
				}
				r.c.Fail(class, msg, in, res, want)
			}
		}
	}
}

// sweepExpiries probes every recorded delegation at its expiry and one second later.
func (r *runner) sweepExpiries(h *history) {
	if len(h.Ops) == 0 {
		return
	}
	idx := len(h.Ops) - 1
	for ci := 0; ci < 2; ci++ {
		var ks []lkey
		for k := range r.spec[ci].ledger {
			ks = append(ks, k)
		}
		sort.Slice(ks, func(i, j int) bool { return ks[i].to+ks[i].role < ks[j].to+ks[j].role })
		for _, k := range ks {
			exp := r.spec[ci].ledger[k]
			for a, id := range r.w.ids {
				if string(id.id) != k.to {
					continue
				}
				for _, t := range []uint64{exp, exp + 1} {
					if t <= maxU32 {
						r.probeAll(h, idx, ci, uint32(t), []int{a})
					}
				}
			}
		}
	}
}
