// Package c41: role-based contract authorization (native auth contract).
//
// The driver runs generated histories of initContractAdmin / transfer / assignFuncsToRole /
// assignOntIDsToRole / delegate / withdraw / verifyToken through native.NativeService.NativeCall
// on a CacheDB over an in-memory store (the real parameter decoding, the real storage and, in
// "real" mode, the real ONT ID contract for the identity proof; in "stub" mode only
// verifySignature is replaced so that its three possible outcomes can be chosen per call).
//
//   - correspondence: every history becomes one Coq case: per step the time, the identity-proof
//     oracle, the operation, the implementation's result and the raw storage records it touched
//     (decoded here from the stored bytes, independently of the package's own decoders); a full
//     dump of both contracts' records ends the history.  Corr/C41.v replays Model/Auth.v on it.
//   - oracle: a reference bookkeeping of "who was assigned what by whom" kept from the accepted
//     operations only decides, for every verifyToken call, whether the property text allows the
//     call; every accepted state-changing operation is checked to have been authorised.
package c41

import (
	"bytes"
	"encoding/json"
	"fmt"
	"strings"

	"github.com/ontio/ontology-crypto/keypair"
	"github.com/ontio/ontology/account"
	"github.com/ontio/ontology/common"
	"github.com/ontio/ontology/core/store/leveldbstore"
	"github.com/ontio/ontology/core/store/overlaydb"
	"github.com/ontio/ontology/core/types"
	"github.com/ontio/ontology/smartcontract"
	sctx "github.com/ontio/ontology/smartcontract/context"
	"github.com/ontio/ontology/smartcontract/service/native"
	"github.com/ontio/ontology/smartcontract/service/native/auth"
	"github.com/ontio/ontology/smartcontract/service/native/ontid"
	"github.com/ontio/ontology/smartcontract/service/native/utils"
	"github.com/ontio/ontology/smartcontract/storage"

	"verif/harness/hx"
)

func init() { hx.Register("C41", Run) }

// future is the end of validity of admin-assigned tokens, read from auth.go at start (default: the
// value of the unchanged tree).
var future = uint32(4102488000)

const (
	maxU32   = uint64(1)<<32 - 1
	nIDs     = 7
	resTrue  = "RTrue"
	resFalse = "RFalse"
	resErr   = "RErr"
)

// ---------------------------------------------------------------- world

type ident struct {
	id         []byte
	keys       []*account.Account
	revoked    []bool
	registered bool
	valid      bool
}

type world struct {
	c       *hx.Ctx
	overlay *overlaydb.OverlayDB
	ids     []*ident
	roles   [][]byte
	fns     []string
	stubOn  bool
	stub    map[string]int // id|keyNo -> 0 ok, 1 false, 2 err (stub mode, current call)
}

func sigKey(id []byte, keyNo uint64) string { return fmt.Sprintf("%x|%d", id, keyNo) }

func (w *world) stubVerify(n *native.NativeService) ([]byte, error) {
	src := common.NewZeroCopySource(n.Input)
	id, err := utils.DecodeVarBytes(src)
	if err != nil {
		return utils.BYTE_FALSE, err
	}
	k, err := utils.DecodeVarUint(src)
	if err != nil {
		return utils.BYTE_FALSE, err
	}
	switch v, ok := w.stub[sigKey(id, k)]; {
	case ok && v == 0:
		return utils.BYTE_TRUE, nil
	case ok && v == 1:
		return utils.BYTE_FALSE, nil
	}
	return utils.BYTE_FALSE, fmt.Errorf("stub: verify signature failed")
}

// call runs one native call as its own transaction: a fresh cache over the committed store,
// committed only when the call did not fail (a failing native call aborts the transaction).
func (w *world) call(ctx *common.Address, now uint32, signers []common.Address, target common.Address, method string, args []byte) (ret []byte, err error) {
	cache := storage.NewCacheDB(w.overlay)
	tx := &types.Transaction{SignedAddr: signers}
	sc := &smartcontract.SmartContract{
		Config:  &smartcontract.Config{Time: now, Height: 0, Tx: tx},
		CacheDB: cache,
		Gas:     1 << 60,
	}
	if ctx != nil {
		sc.PushContext(&sctx.Context{ContractAddress: *ctx})
	}
	ns, e := sc.NewNativeService()
	if e != nil {
		return nil, e
	}
	panicked, msg := hx.Recover(func() { ret, err = ns.NativeCall(target, method, args) })
	if panicked {
		return nil, fmt.Errorf("PANIC: %s", msg)
	}
	if err == nil {
		cache.Commit()
	}
	w.c.Eval()
	return ret, err
}

func newWorld(c *hx.Ctx) *world {
	w := &world{c: c}
	w.overlay = overlaydb.NewOverlayDB(leveldbstore.NewMemLevelDBStore())
	auth.Init()
	native.Contracts[utils.OntIDContractAddress] = func(n *native.NativeService) {
		ontid.RegisterIDContract(n)
		if w.stubOn {
			n.Register("verifySignature", w.stubVerify)
		}
	}
	w.roles = [][]byte{[]byte("r0"), []byte("r1"), []byte("r2"), {}, []byte("role-with-a-longer-name\x00\xff")}
	w.fns = []string{"f0", "f1", "f2", "f3", "", "F0", "transfer", "approve", "f", "f00", "f0\x00"}
	nkeys := []int{1, 2, 2, 1, 1, 1, 0}
	for i := 0; i < nIDs; i++ {
		id := &ident{}
		if i == 6 {
			id.id = []byte("did:ont:not-a-valid-id")
		} else {
			s, err := account.CreateID(c.Bytes(32))
			if err != nil {
				panic(err)
			}
			id.id = []byte(s)
		}
		id.valid = account.VerifyID(string(id.id))
		for k := 0; k < nkeys[i]; k++ {
			id.keys = append(id.keys, account.NewAccount(""))
			id.revoked = append(id.revoked, false)
		}
		w.ids = append(w.ids, id)
	}
	// register ids 0..4 through the ONT ID contract; id 5 stays unregistered, id 6 is malformed
	for i := 0; i < 5; i++ {
		id := w.ids[i]
		sink := common.NewZeroCopySink(nil)
		sink.WriteVarBytes(id.id)
		sink.WriteVarBytes(keypair.SerializePublicKey(id.keys[0].PubKey()))
		if _, err := w.call(nil, 1, []common.Address{id.keys[0].Address}, utils.OntIDContractAddress, "regIDWithPublicKey", sink.Bytes()); err != nil {
			panic("regIDWithPublicKey: " + err.Error())
		}
		id.registered = true
		for k := 1; k < len(id.keys); k++ {
			sink := common.NewZeroCopySink(nil)
			sink.WriteVarBytes(id.id)
			sink.WriteVarBytes(keypair.SerializePublicKey(id.keys[k].PubKey()))
			sink.WriteVarBytes(keypair.SerializePublicKey(id.keys[0].PubKey()))
			if _, err := w.call(nil, 1, []common.Address{id.keys[0].Address}, utils.OntIDContractAddress, "addKey", sink.Bytes()); err != nil {
				panic("addKey: " + err.Error())
			}
		}
	}
	// id 2: key #1 revoked, key #2 live
	{
		id := w.ids[2]
		sink := common.NewZeroCopySink(nil)
		sink.WriteVarBytes(id.id)
		sink.WriteVarBytes(keypair.SerializePublicKey(id.keys[0].PubKey()))
		sink.WriteVarBytes(keypair.SerializePublicKey(id.keys[1].PubKey()))
		if _, err := w.call(nil, 1, []common.Address{id.keys[1].Address}, utils.OntIDContractAddress, "removeKey", sink.Bytes()); err != nil {
			panic("removeKey: " + err.Error())
		}
		id.revoked[0] = true
	}
	return w
}

// proved is the driver's own notion of "the identity proved control of its key #keyNo in this
// transaction": registered id, live key with that index (the ONT ID contract reads the index as
// uint32), and that key among the transaction's signers.
func (w *world) proved(i int, keyNo uint64, signers [][2]int) bool {
	id := w.ids[i]
	if !id.registered {
		return false
	}
	k := uint32(keyNo)
	if k < 1 || int(k) > len(id.keys) || id.revoked[k-1] {
		return false
	}
	for _, s := range signers {
		if s[0] == i && s[1] == int(k)-1 {
			return true
		}
	}
	return false
}

// ---------------------------------------------------------------- histories

type opRec struct {
	Kind    string   `json:"kind"` // init transfer funcs ids delegate withdraw verify
	C       int      `json:"c"`    // contract index (0/1)
	NoCtx   bool     `json:"noctx,omitempty"`
	A       int      `json:"a"` // admin / from / initiator / caller
	B       int      `json:"b"` // new admin / to / delegate
	Role    int      `json:"role"`
	Fns     []int    `json:"fns,omitempty"`
	Fn      int      `json:"fn"`
	Persons []int    `json:"persons,omitempty"`
	Period  uint64   `json:"period"`
	Level   uint64   `json:"level"`
	KeyNo   uint64   `json:"keyno"`
	Now     uint32   `json:"now"`
	Signers [][2]int `json:"signers,omitempty"` // (identity, key index)
	Stub    []int    `json:"stub,omitempty"`    // stub mode: outcome of verifySignature(id_i, KeyNo) for i = 0..nIDs-1
}

type history struct {
	Stub bool    `json:"stub"`
	Ops  []opRec `json:"ops"`
	Tag  string  `json:"tag,omitempty"`
}

type runner struct {
	w       *world
	c       *hx.Ctx
	caddr   [2]common.Address
	spec    [2]*cspec
	steps   []string
	stats   map[string]int
	lastRes string
	want    map[string]bool
	badKeys map[string]bool
	cur     *history // history being executed and the index of the current call
	curIdx  int
	// for the generator
	expiries []uint64
}

func (w *world) sigTable(o *opRec, stub bool) (tbl []int) {
	for i := 0; i < nIDs; i++ {
		if stub {
			tbl = append(tbl, o.Stub[i])
		} else if w.proved(i, o.KeyNo, o.Signers) {
			tbl = append(tbl, 0)
		} else {
			tbl = append(tbl, 2)
		}
	}
	return
}

func coqRes(ret []byte, err error) string {
	if err != nil {
		return resErr
	}
	if bytes.Equal(ret, utils.BYTE_TRUE) {
		return resTrue
	}
	return resFalse
}

// ---- raw storage readers (independent of the auth package's decoders)

func (r *runner) rawGet(key []byte) ([]byte, bool) {
	cache := storage.NewCacheDB(r.w.overlay)
	item, err := utils.GetStorageItem(cache, key)
	if err != nil {
		r.c.Fail("storage:malformed-record", "a stored value is not a storage item: "+err.Error(), r.cur, hx.Hex(key), nil)
		return nil, false
	}
	if item == nil {
		return nil, false
	}
	return item.Value, true
}

func authKey(c common.Address, prefix byte, suffix []byte) []byte {
	k := append([]byte{}, utils.AuthContractAddress[:]...)
	k = append(k, c[:]...)
	k = append(k, prefix)
	return append(k, suffix...)
}

// recReader decodes a stored record without ever panicking: the first problem is remembered and
// every later read yields zero values.
type recReader struct {
	src *common.ZeroCopySource
	err string
}

func (d *recReader) fail(msg string) {
	if d.err == "" {
		d.err = msg
	}
}
func (d *recReader) u32() uint32 {
	if d.err != "" {
		return 0
	}
	v, eof := d.src.NextUint32()
	if eof {
		d.fail("record ends inside a uint32")
		return 0
	}
	return v
}
func (d *recReader) u8() uint8 {
	if d.err != "" {
		return 0
	}
	v, eof := d.src.NextUint8()
	if eof {
		d.fail("record ends inside a uint8")
		return 0
	}
	return v
}
func (d *recReader) varBytes() []byte {
	if d.err != "" {
		return nil
	}
	v, _, irr, eof := d.src.NextVarBytes()
	if eof {
		d.fail("record ends inside a length-prefixed string (it announces more items than it holds)")
		return nil
	}
	if irr {
		d.fail("non-canonical length prefix")
		return nil
	}
	return v
}
func (d *recReader) token() string {
	role := d.varBytes()
	exp := d.u32()
	lvl := d.u8()
	return fmt.Sprintf("(mkTok %s %d %d)", hx.CoqBytes(role), exp, lvl)
}

// count reads the leading item count; an absurd count is a malformed record, not a reason to loop.
func (d *recReader) count(total int) uint32 {
	n := d.u32()
	if uint64(n) > uint64(total) {
		d.fail(fmt.Sprintf("record announces %d items in %d bytes", n, total))
		return 0
	}
	return n
}
func (d *recReader) end() {
	if d.err == "" && d.src.Len() != 0 {
		d.fail(fmt.Sprintf("%d trailing bytes", d.src.Len()))
	}
}

// malformed reports a stored record that does not parse back (once per key) and yields the
// observation that never matches the model.
func (r *runner) malformed(kind string, key, raw []byte, why string) string {
	if r.badKeys == nil {
		r.badKeys = map[string]bool{}
	}
	if !r.badKeys[string(key)] {
		r.badKeys[string(key)] = true
		var upto interface{}
		if r.cur != nil {
			n := r.curIdx + 1
			if n > len(r.cur.Ops) {
				n = len(r.cur.Ops)
			}
			upto = &history{Stub: r.cur.Stub, Tag: r.cur.Tag, Ops: append([]opRec{}, r.cur.Ops[:n]...)}
		}
		r.c.Fail("storage:malformed-record", "a stored auth record written by an accepted call does not parse back: "+kind+": "+why,
			upto, map[string]interface{}{"key": hx.Hex(key), "value": hx.Hex(raw)}, "a well-formed "+kind+" record")
	}
	r.c.Count("storage:malformed:" + kind)
	return "OBad"
}

func (r *runner) obsAdmin(ci int) string {
	v, ok := r.rawGet(authKey(r.caddr[ci], 0x01, nil))
	return fmt.Sprintf("(OAdmin %s %s)", r.cname(ci), hx.CoqOpt(ok, r.w.bname(v)))
}
func (r *runner) obsFuncs(ci, ri int) string {
	key := authKey(r.caddr[ci], 0x02, r.w.roles[ri])
	v, ok := r.rawGet(key)
	var items []string
	if ok {
		d := &recReader{src: common.NewZeroCopySource(v)}
		n := d.count(len(v))
		for i := uint32(0); i < n && d.err == ""; i++ {
			items = append(items, r.w.bname(d.varBytes()))
		}
		d.end()
		if d.err != "" {
			return r.malformed("roleFuncs", key, v, d.err)
		}
	}
	return fmt.Sprintf("(OFuncs %s ro%d %s)", r.cname(ci), ri, hx.CoqOpt(ok, hx.CoqList(items)))
}
func (r *runner) obsTokens(ci, ii int) string {
	key := authKey(r.caddr[ci], 0x03, r.w.ids[ii].id)
	v, ok := r.rawGet(key)
	var items []string
	if ok {
		d := &recReader{src: common.NewZeroCopySource(v)}
		n := d.count(len(v))
		for i := uint32(0); i < n && d.err == ""; i++ {
			items = append(items, d.token())
		}
		d.end()
		if d.err != "" {
			return r.malformed("roleTokens", key, v, d.err)
		}
	}
	return fmt.Sprintf("(OTokens %s i%d %s)", r.cname(ci), ii, hx.CoqOpt(ok, hx.CoqList(items)))
}
func (r *runner) obsDeleg(ci, ii int) string {
	key := authKey(r.caddr[ci], 0x04, r.w.ids[ii].id)
	v, ok := r.rawGet(key)
	var items []string
	if ok {
		d := &recReader{src: common.NewZeroCopySource(v)}
		n := d.count(len(v))
		for i := uint32(0); i < n && d.err == ""; i++ {
			root := d.varBytes()
			items = append(items, fmt.Sprintf("(mkDel %s %s)", r.w.bname(root), d.token()))
		}
		d.end()
		if d.err != "" {
			return r.malformed("Status", key, v, d.err)
		}
	}
	return fmt.Sprintf("(ODeleg %s i%d %s)", r.cname(ci), ii, hx.CoqOpt(ok, hx.CoqList(items)))
}

// bname prints a byte string, using the header names of the pool ids where possible.
func (w *world) bname(b []byte) string {
	for i, id := range w.ids {
		if bytes.Equal(id.id, b) {
			return fmt.Sprintf("i%d", i)
		}
	}
	return hx.CoqBytes(b)
}
func (r *runner) cname(ci int) string { return fmt.Sprintf("c%d", ci) }

func (r *runner) fullDump() []string {
	var obs []string
	for ci := 0; ci < 2; ci++ {
		obs = append(obs, r.obsAdmin(ci))
		for ri := range r.w.roles {
			obs = append(obs, r.obsFuncs(ci, ri))
		}
		for ii := range r.w.ids {
			obs = append(obs, r.obsTokens(ci, ii), r.obsDeleg(ci, ii))
		}
	}
	return obs
}

// scanKeys checks that every record under the auth contract's own prefix is one that the pools and
// the contracts of this run explain (all histories share the store, so the expected set grows).
func (r *runner) scanKeys(h *history) {
	if r.want == nil {
		r.want = map[string]bool{}
	}
	for ci := 0; ci < 2; ci++ {
		r.want[string(authKey(r.caddr[ci], 0x01, nil))] = true
		for _, ro := range r.w.roles {
			r.want[string(authKey(r.caddr[ci], 0x02, ro))] = true
		}
		for _, id := range r.w.ids {
			r.want[string(authKey(r.caddr[ci], 0x03, id.id))] = true
			r.want[string(authKey(r.caddr[ci], 0x04, id.id))] = true
		}
	}
	cache := storage.NewCacheDB(r.w.overlay)
	it := cache.NewIterator(utils.AuthContractAddress[:])
	for ok := it.First(); ok; ok = it.Next() {
		k := it.Key()
		if !r.want[string(k)] {
			r.c.Fail("storage:unexpected-key", "a record was written under a key no operation of the run addresses (contract, family, role/id)", h, hx.Hex(k), nil)
			r.want[string(k)] = true
		}
	}
	it.Release()
}

// ---- one operation

func (r *runner) exec(h *history, idx int) {
	o := &h.Ops[idx]
	w := r.w
	r.cur, r.curIdx = h, idx
	ci := o.C
	ca := r.caddr[ci]
	idA, idB := w.ids[o.A], w.ids[o.B]
	role := w.roles[o.Role]
	var signers []common.Address
	for _, s := range o.Signers {
		signers = append(signers, w.ids[s[0]].keys[s[1]].Address)
	}
	tbl := w.sigTable(o, h.Stub)
	w.stubOn = h.Stub
	w.stub = map[string]int{}
	if h.Stub {
		for i, v := range tbl {
			w.stub[sigKey(w.ids[i].id, o.KeyNo)] = v
		}
	}

	sink := common.NewZeroCopySink(nil)
	var method, coqOp string
	var obs []string
	ctx := &ca
	switch o.Kind {
	case "init":
		method = "initContractAdmin"
		(&auth.InitContractAdminParam{AdminOntID: idA.id}).Serialization(sink)
		coqOp = fmt.Sprintf("(OInit %s i%d)", r.cname(ci), o.A)
		if o.NoCtx {
			ctx = nil
		}
	case "transfer":
		method = "transfer"
		(&auth.TransferParam{ContractAddr: ca, NewAdminOntID: idB.id, KeyNo: o.KeyNo}).Serialization(sink)
		coqOp = fmt.Sprintf("(OTransfer %s i%d %d)", r.cname(ci), o.B, o.KeyNo)
	case "funcs":
		method = "assignFuncsToRole"
		var fns, cf []string
		for _, f := range o.Fns {
			fns = append(fns, w.fns[f])
			cf = append(cf, hx.CoqBytes([]byte(w.fns[f])))
		}
		(&auth.FuncsToRoleParam{ContractAddr: ca, AdminOntID: idA.id, Role: role, FuncNames: fns, KeyNo: o.KeyNo}).Serialization(sink)
		coqOp = fmt.Sprintf("(OAssignFuncs %s i%d ro%d %s %d)", r.cname(ci), o.A, o.Role, hx.CoqList(cf), o.KeyNo)
	case "ids":
		method = "assignOntIDsToRole"
		var ps [][]byte
		var cp []string
		for _, p := range o.Persons {
			ps = append(ps, w.ids[p].id)
			cp = append(cp, fmt.Sprintf("i%d", p))
		}
		(&auth.OntIDsToRoleParam{ContractAddr: ca, AdminOntID: idA.id, Role: role, Persons: ps, KeyNo: o.KeyNo}).Serialization(sink)
		coqOp = fmt.Sprintf("(OAssignIds %s i%d ro%d %s %d)", r.cname(ci), o.A, o.Role, hx.CoqList(cp), o.KeyNo)
	case "delegate":
		method = "delegate"
		(&auth.DelegateParam{ContractAddr: ca, From: idA.id, To: idB.id, Role: role, Period: o.Period, Level: o.Level, KeyNo: o.KeyNo}).Serialization(sink)
		coqOp = fmt.Sprintf("(ODelegate %s i%d i%d ro%d %d %d %d)", r.cname(ci), o.A, o.B, o.Role, o.Period, o.Level, o.KeyNo)
	case "withdraw":
		method = "withdraw"
		(&auth.WithdrawParam{ContractAddr: ca, Initiator: idA.id, Delegate: idB.id, Role: role, KeyNo: o.KeyNo}).Serialization(sink)
		coqOp = fmt.Sprintf("(OWithdraw %s i%d i%d ro%d %d)", r.cname(ci), o.A, o.B, o.Role, o.KeyNo)
	case "verify":
		method = "verifyToken"
		(&auth.VerifyTokenParam{ContractAddr: ca, Caller: idA.id, Fn: w.fns[o.Fn], KeyNo: o.KeyNo}).Serialization(sink)
		coqOp = fmt.Sprintf("(OVerify %s i%d %s %d)", r.cname(ci), o.A, hx.CoqBytes([]byte(w.fns[o.Fn])), o.KeyNo)
	default:
		panic("bad op kind " + o.Kind)
	}
	ret, err := w.call(ctx, o.Now, signers, utils.AuthContractAddress, method, sink.Bytes())
	res := coqRes(ret, err)
	r.lastRes = res
	if err != nil && strings.HasPrefix(err.Error(), "PANIC") {
		r.c.Fail("panic:"+o.Kind, "the native call panicked", h, err.Error(), nil)
	}
	r.stats[o.Kind+":"+res]++
	r.c.Count("op:" + o.Kind + ":" + res)
	if o.Now > future {
		r.c.Count("time:after-2100")
	}
	// ---- storage observations for the correspondence
	switch o.Kind {
	case "init", "transfer":
		obs = append(obs, r.obsAdmin(ci))
	case "funcs":
		obs = append(obs, r.obsFuncs(ci, o.Role))
	case "ids":
		seen := map[int]bool{}
		for _, p := range o.Persons {
			if !seen[p] {
				obs = append(obs, r.obsTokens(ci, p))
				seen[p] = true
			}
		}
	case "delegate", "withdraw":
		obs = append(obs, r.obsDeleg(ci, o.B))
	}
	// ---- oracle: the call's result against the specification ledger, then verifyToken for
	// every (account, function) against it
	r.oracle(h, idx, tbl, res)
	var sig []string
	for i, v := range tbl {
		if v != 2 {
			sig = append(sig, fmt.Sprintf("(i%d, %d, %s)", i, o.KeyNo, []string{"SigOk", "SigFalse", "SigErr"}[v]))
		}
	}
	if o.Kind == "init" && o.NoCtx {
		// no calling context: the model has no such case; the implementation must fail
		if res != resErr {
			r.c.Fail("init:no-calling-context", "initContractAdmin without a calling contract did not fail", h, res, resErr)
		}
		return
	}
	r.steps = append(r.steps, fmt.Sprintf("mkStep %d %s %s %s %s", o.Now, hx.CoqList(sig), coqOp, res, hx.CoqList(obs)))
}

func (r *runner) begin() {
	r.freshContracts()
	r.spec = [2]*cspec{newSpec(), newSpec()}
	r.steps = nil
	r.stats = map[string]int{}
	r.expiries = nil
}

// finish closes a history: storage-key scan, the Coq case, the non-triviality rule.
func (r *runner) finish(h *history, emit bool) {
	r.sweepExpiries(h)
	r.scanKeys(h)
	if emit && len(r.steps) > 0 {
		// the full dump belongs to the last recorded step
		var valid []string
		for i, id := range r.w.ids {
			if id.valid {
				valid = append(valid, fmt.Sprintf("i%d", i))
			}
		}
		var present []string
		for _, o := range r.fullDump() {
			if !strings.HasSuffix(o, " None)") {
				present = append(present, o)
			}
		}
		r.c.Case(fmt.Sprintf("(let c0 := %s in let c1 := %s in CHist %s [c0; c1] pool_roles pool_ids [\n  %s] %s)", hx.CoqBytes(r.caddr[0][:]), hx.CoqBytes(r.caddr[1][:]),
			hx.CoqList(valid), strings.Join(r.steps, ";\n  "), hx.CoqList(present)), h)
	}
	if r.stats["delegate:RTrue"] > 0 && r.stats["verify:RTrue"] > 0 && r.stats["verify:RFalse"]+r.stats["verify:RErr"] > 0 {
		b, _ := json.Marshal(h)
		r.c.Nontrivial(string(b))
	}
}

// runHistory replays a recorded history (replay file, corpus, deterministic probes).
func (r *runner) runHistory(h *history, emit bool) {
	r.begin()
	for i := range h.Ops {
		r.exec(h, i)
	}
	r.finish(h, emit)
}

// freshContracts gives the history its own two contract addresses (state is per contract, so
// histories on one store are independent).
func (r *runner) freshContracts() {
	for i := range r.caddr {
		copy(r.caddr[i][:], r.c.Bytes(20))
	}
}

// ---------------------------------------------------------------- deterministic probes

func sign(i, k int) [][2]int { return [][2]int{{i, k}} }

// findingHistory: the admin assigns role r0 to identity 3 while 3 holds r0 through a running
// delegation (and already has a token record for r1): assignOntIDsToRole returns true and
// stores nothing; when the delegation ends (or is withdrawn) identity 3 cannot call f0.
func findingHistory() *history {
	t := uint32(1700000000)
	return &history{Tag: "probe:assign-skipped-live-delegation", Ops: []opRec{
		{Kind: "init", A: 0, Now: t, KeyNo: 1},
		{Kind: "funcs", A: 0, Role: 0, Fns: []int{0}, Now: t + 1, KeyNo: 1, Signers: sign(0, 0)},
		{Kind: "ids", A: 0, Role: 0, Persons: []int{1}, Now: t + 2, KeyNo: 1, Signers: sign(0, 0)},
		{Kind: "ids", A: 0, Role: 1, Persons: []int{3}, Now: t + 3, KeyNo: 1, Signers: sign(0, 0)},
		{Kind: "delegate", A: 1, B: 3, Role: 0, Period: 100, Level: 1, Now: t + 4, KeyNo: 1, Signers: sign(1, 0)},
		{Kind: "verify", A: 3, Fn: 0, Now: t + 5, KeyNo: 1, Signers: sign(3, 0)},
		{Kind: "ids", A: 0, Role: 0, Persons: []int{3}, Now: t + 6, KeyNo: 1, Signers: sign(0, 0)},
		{Kind: "verify", A: 3, Fn: 0, Now: t + 104, KeyNo: 1, Signers: sign(3, 0)},
		{Kind: "verify", A: 3, Fn: 0, Now: t + 105, KeyNo: 1, Signers: sign(3, 0)},
	}}
}

// boundaryHistory: at now = expireTime verifyToken still confirms the delegate while getAuthToken
// (used by delegate/withdraw/assign) already treats the delegation as ended, so that at the same
// second another holder can delegate the role to the same identity.
func boundaryHistory() *history {
	t := uint32(1700000000)
	return &history{Tag: "probe:boundary-now-equals-expire", Ops: []opRec{
		{Kind: "init", A: 0, Now: t, KeyNo: 1},
		{Kind: "funcs", A: 0, Role: 0, Fns: []int{0}, Now: t + 1, KeyNo: 1, Signers: sign(0, 0)},
		{Kind: "ids", A: 0, Role: 0, Persons: []int{1, 4}, Now: t + 2, KeyNo: 1, Signers: sign(0, 0)},
		{Kind: "delegate", A: 1, B: 3, Role: 0, Period: 10, Level: 1, Now: t + 10, KeyNo: 1, Signers: sign(1, 0)},
		{Kind: "verify", A: 3, Fn: 0, Now: t + 19, KeyNo: 1, Signers: sign(3, 0)},
		{Kind: "verify", A: 3, Fn: 0, Now: t + 20, KeyNo: 1, Signers: sign(3, 0)},
		{Kind: "delegate", A: 4, B: 3, Role: 0, Period: 0, Level: 1, Now: t + 20, KeyNo: 1, Signers: sign(4, 0)},
		{Kind: "verify", A: 3, Fn: 0, Now: t + 20, KeyNo: 1, Signers: sign(3, 0)},
		{Kind: "verify", A: 3, Fn: 0, Now: t + 21, KeyNo: 1, Signers: sign(3, 0)},
	}}
}

func (r *runner) verifyResults(h *history) []string {
	var out []string
	for _, s := range r.steps {
		if strings.Contains(s, "(OVerify ") {
			for _, v := range []string{resTrue, resFalse, resErr} {
				if strings.Contains(s, ") "+v+" [") {
					out = append(out, v)
				}
			}
		}
	}
	return out
}

// ---------------------------------------------------------------- entry

func Run(c *hx.Ctx) {
	c.CoqModule("Corr.C41")
	if v, err := futureFromSource(c.Repo); err == nil {
		future = v
	} else {
		c.Note("could not read the admin-token expiry from auth.go (" + err.Error() + "); using 2100-01-01 12:00 UTC")
	}
	w := newWorld(c)
	for i, id := range w.ids {
		c.CoqHeader(fmt.Sprintf("Definition i%d : bytes := %s.", i, hx.CoqBytes(id.id)))
	}
	for i, ro := range w.roles {
		c.CoqHeader(fmt.Sprintf("Definition ro%d : bytes := %s.", i, hx.CoqBytes(ro)))
	}
	var pi, pr []string
	for i := range w.ids {
		pi = append(pi, fmt.Sprintf("i%d", i))
	}
	for i := range w.roles {
		pr = append(pr, fmt.Sprintf("ro%d", i))
	}
	c.CoqHeader("Definition pool_ids : list bytes := " + hx.CoqList(pi) + ".")
	c.CoqHeader("Definition pool_roles : list bytes := " + hx.CoqList(pr) + ".")
	r := &runner{w: w, c: c}

	var in history
	if c.ReplayInput(&struct {
		History *history `json:"history"`
	}{&in}) && len(in.Ops) > 0 {
		r.runHistory(&in, true)
		return
	}
	if c.ReplayInput(&in) && len(in.Ops) > 0 {
		r.runHistory(&in, true)
		return
	}
	for _, raw := range c.CorpusInputs() {
		var wrap struct {
			History *history `json:"history"`
		}
		var h history
		if json.Unmarshal(raw, &wrap) == nil && wrap.History != nil && len(wrap.History.Ops) > 0 {
			h = *wrap.History
		} else if json.Unmarshal(raw, &h) != nil || len(h.Ops) == 0 {
			continue
		}
		r.runHistory(&h, true)
		c.Count("history:corpus")
	}

	// deterministic probes
	fh := findingHistory()
	r.runHistory(fh, true)
	c.Sample(map[string]interface{}{"probe": fh.Tag, "verifyToken results": r.verifyResults(fh)})
	bh := boundaryHistory()
	r.runHistory(bh, true)
	vr := r.verifyResults(bh)
	c.Sample(map[string]interface{}{"probe": bh.Tag, "verifyToken results": vr, "second delegation at now=expire": r.stats["delegate:RTrue"] == 2})
	c.Note(fmt.Sprintf("observation (not a violation): verifyToken accepts a delegation at now = expireTime (results at expire-1, expire, expire (after re-delegation with period 0), expire+1: %v) while getAuthToken treats it as ended at that second (a second delegation of the same role to the same identity was accepted at now = expire: %v); Model/Auth.v follows the code, Props/C41.v c41_boundary_now_equals_expire states it", vr, r.stats["delegate:RTrue"] == 2))
	// an identity without any token record that holds the role through a running delegation is
	// given the admin's token all the same: it keeps the role when the delegation expires / is withdrawn
	for _, mode := range []string{"expire", "withdraw"} {
		nh := noRecordHistory(mode)
		r.runHistory(nh, true)
		c.Sample(map[string]interface{}{"probe": nh.Tag, "verifyToken results": r.verifyResults(nh)})
	}
	c.Note("admin-assigned ('permanent') tokens expire at 2100-01-01 12:00 UTC (uint32 4102488000): verifyToken refuses them afterwards; histories with times after that instant are generated and the theorem carries the bound")

	// the family "assignment to an identity without a token record during a running delegation":
	// ended by expiry, by withdrawal, by expiry followed by withdrawal, in turn
	for i, nf := 0, c.N(18, 180); i < nf; i++ {
		stub := i%4 == 3
		h := r.genNoRecordHistory(stub, i%3)
		c.Count("history:family:assign-no-record-during-delegation")
		if i == 0 {
			c.Sample(map[string]interface{}{"history": h, "results": r.stats})
		}
	}

	nh := c.N(120, 1500)
	for i := 0; i < nh; i++ {
		stub := i%4 == 3
		h := r.genHistory(stub)
		if stub {
			c.Count("history:stub-identity-oracle")
		} else {
			c.Count("history:real-ontid-contract")
		}
		c.Count(fmt.Sprintf("history:len:%d-%d", len(h.Ops)/10*10, len(h.Ops)/10*10+9))
		if i < 2 {
			c.Sample(map[string]interface{}{"history": h, "results": r.stats})
		}
	}
}
