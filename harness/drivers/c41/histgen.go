package c41

// Generator of histories.  Generation is online: every operation is executed as soon as it is
// drawn and the implementation's answer steers the following draws (who is admin, who holds what),
// so that most state-changing operations are accepted and the rest exercise the refusal and error
// paths.  All random choices come from c.Rng.

import "sort"

type gview struct {
	admin   int
	former  []int         // former admins
	holders map[int][]int // role -> ids named in accepted assignments
	delegs  [][3]int      // accepted delegations (from, to, role)
	funcs   map[int][]int // role -> function indices assigned
}

func newGview() *gview { return &gview{admin: -1, holders: map[int][]int{}, funcs: map[int][]int{}} }

func (r *runner) genHistory(stub bool) *history {
	c, w := r.c, r.w
	rng := c.Rng
	h := &history{Stub: stub}
	n := 14 + rng.Intn(26)
	var clock uint64
	switch p := rng.Intn(100); {
	case p < 84:
		clock = 1700000000 + uint64(rng.Intn(1000))
	case p < 92:
		clock = uint64(future) - 250 + uint64(rng.Intn(60))
	case p < 97:
		clock = 1<<32 - 300 + uint64(rng.Intn(60))
	default:
		clock = uint64(rng.Intn(3))
	}
	gv := [2]*gview{newGview(), newGview()}
	r.begin()
	regular := func() int { return rng.Intn(5) }
	anyID := func() int {
		if rng.Intn(10) == 0 {
			return 5 + rng.Intn(2)
		}
		return regular()
	}
	liveKey := func(i int) int { // index of a live key of identity i, or -1
		id := w.ids[i]
		var ks []int
		for k := range id.keys {
			if !id.revoked[k] {
				ks = append(ks, k)
			}
		}
		if len(ks) == 0 || !id.registered {
			return -1
		}
		return ks[rng.Intn(len(ks))]
	}
	roleWith := func(m map[int][]int, dflt int) int { // a role that has entries in m, if any
		var rs []int
		for k := 0; k < 3; k++ {
			if len(m[k]) > 0 {
				rs = append(rs, k)
			}
		}
		if len(rs) == 0 || rng.Intn(6) == 0 {
			return dflt
		}
		return rs[rng.Intn(len(rs))]
	}
	// scripted opening (most histories): admin, two roles with functions, two distinct holders of
	// r0 and one of r1.  Scripted calls marked exact run at clock+adv with a correct identity proof.
	type sop struct {
		op    opRec
		adv   uint64
		exact bool
	}
	var script []sop
	if rng.Intn(5) > 0 {
		a := regular()
		a1 := regular()
		a2 := (a1 + 1 + rng.Intn(4)) % 5
		b1 := regular()
		script = []sop{
			{op: opRec{Kind: "init", A: a}},
			{op: opRec{Kind: "funcs", A: a, Role: 0, Fns: []int{0, 1}}},
			{op: opRec{Kind: "funcs", A: a, Role: 1, Fns: []int{2}}},
			{op: opRec{Kind: "ids", A: a, Role: 0, Persons: []int{a1, a2}}},
			{op: opRec{Kind: "ids", A: a, Role: 1, Persons: []int{b1}}},
		}
		ex := func(adv uint64, o opRec) sop { return sop{op: o, adv: adv, exact: true} }
		// several delegators, one delegate: a1 delegates r0 to cc, the delegation runs out
		// un-withdrawn, a2 delegates r0 to cc, then the two delegators withdraw in some order
		switch sel := rng.Intn(4); {
		case sel < 2:
			cc := regular()
			for cc == a1 || cc == a2 {
				cc = regular()
			}
			p := uint64(3 + rng.Intn(18))
			del := func(adv uint64, from int, period uint64) sop {
				return ex(adv, opRec{Kind: "delegate", A: from, B: cc, Role: 0, Period: period, Level: 1})
			}
			wd := func(adv uint64, from int) sop { return ex(adv, opRec{Kind: "withdraw", A: from, B: cc, Role: 0}) }
			vf := func(adv uint64) sop { return ex(adv, opRec{Kind: "verify", A: cc, Fn: rng.Intn(2)}) }
			script = append(script, del(1, a1, p), vf(1), del(p+uint64(rng.Intn(4)), a2, 40+uint64(rng.Intn(20))), vf(1))
			switch rng.Intn(4) {
			case 0:
				script = append(script, wd(1+uint64(rng.Intn(3)), a1), vf(1), wd(1, a2), vf(1))
			case 1:
				script = append(script, wd(1+uint64(rng.Intn(3)), a2), vf(1), wd(1, a1), vf(1))
			case 2:
				script = append(script, wd(1+uint64(rng.Intn(3)), a1), vf(1))
			default:
				script = append(script, wd(1, a2), del(1, a1, 25), vf(1), wd(1, a2), vf(1), wd(1, a1), vf(1))
			}
		case sel == 2:
			// a holder of r0 delegates it to cc, who has no token record at all; while the delegation
			// runs the admin assigns r0 to cc (the token is stored: an identity without a record
			// always receives it); the delegation is withdrawn or runs out: cc keeps r0
			cc := regular()
			for cc == a1 || cc == a2 || cc == b1 {
				cc = regular()
			}
			p := uint64(2 + rng.Intn(20))
			from := []int{a1, a2}[rng.Intn(2)]
			vf := func(adv uint64) sop { return ex(adv, opRec{Kind: "verify", A: cc, Fn: rng.Intn(2)}) }
			script = append(script, ex(1, opRec{Kind: "delegate", A: from, B: cc, Role: 0, Period: p, Level: 1}))
			persons := [][]int{{cc}, {cc}, {cc, cc}, {a1, cc}, {cc, b1}}[rng.Intn(5)]
			// at a second in [start, expiry-1]
			script = append(script, ex(uint64(rng.Intn(int(p))), opRec{Kind: "ids", A: a, Role: 0, Persons: persons}), vf(0))
			switch rng.Intn(3) {
			case 0:
				script = append(script, ex(uint64(rng.Intn(2)), opRec{Kind: "withdraw", A: from, B: cc, Role: 0}), vf(uint64(rng.Intn(2))))
			case 1:
				script = append(script, vf(p), vf(1))
			default:
				script = append(script, vf(p+1), ex(1, opRec{Kind: "withdraw", A: from, B: cc, Role: 0}), vf(1))
			}
			c.Count("history:opening:assign-no-record-during-delegation")
		}
		if n < len(script)+6 {
			n = len(script) + 6
		}
	}
	closing := false
	for {
		if len(script) == 0 && len(h.Ops) >= n {
			if closing {
				break
			}
			closing = true
			for _, o := range r.closingScript() {
				script = append(script, sop{op: o, adv: 1, exact: true})
			}
			if len(script) == 0 {
				break
			}
		}
		// time: a mostly monotone clock with excursions to expiry boundaries, to the end of the
		// admin tokens' validity (2100) and slightly backwards
		exact := len(script) > 0 && script[0].exact
		if exact {
			clock += script[0].adv
		} else {
			clock += uint64(rng.Intn(25))
			if rng.Intn(12) == 0 {
				clock += uint64(rng.Intn(120))
			}
		}
		if clock > maxU32 {
			clock = maxU32 - uint64(rng.Intn(5))
		}
		now := clock
		switch p := rng.Intn(100); {
		case exact:
		case p < 14 && len(r.expiries) > 0:
			e := r.expiries[rng.Intn(len(r.expiries))]
			now = e + uint64(rng.Intn(3)) - 1
			if rng.Intn(2) == 0 && now > clock {
				clock = now
			}
		case p < 16:
			now = uint64(future) + uint64(rng.Intn(3)) - 1
		case p < 17:
			now = uint64(future) + 1000 + uint64(rng.Intn(1000))
		case p < 21 && now > 50:
			now -= uint64(rng.Intn(40))
		}
		if now > maxU32 {
			now = maxU32
		}
		ci := 0
		if rng.Intn(5) == 0 {
			ci = 1
		}
		var o opRec
		actor := -1 // the identity whose proof the operation needs
		if len(script) > 0 {
			o = script[0].op
			script = script[1:]
			ci = o.C
			actor = o.A
			if o.Kind == "init" {
				actor = -1
			}
		} else {
			g := gv[ci]
			o = opRec{Role: rng.Intn(3)}
			if rng.Intn(12) == 0 {
				o.Role = rng.Intn(len(w.roles))
			}
			p := rng.Intn(100)
			switch {
			case g.admin < 0 && p < 85 || p < 3:
				o.Kind = "init"
				o.A = regular()
				if rng.Intn(10) == 0 {
					o.A = anyID()
				}
				o.NoCtx = rng.Intn(25) == 0
			case p < 6:
				o.Kind = "transfer"
				o.B = anyID()
				actor = g.admin
			case p < 17:
				o.Kind = "funcs"
				o.A = g.admin
				if o.A < 0 || rng.Intn(10) == 0 {
					o.A = regular()
				} else if len(g.former) > 0 && rng.Intn(5) == 0 {
					o.A = g.former[rng.Intn(len(g.former))]
				}
				for k := rng.Intn(4); k >= 0; k-- {
					o.Fns = append(o.Fns, rng.Intn(len(w.fns)))
				}
				if rng.Intn(15) == 0 {
					o.Fns = nil
				}
				// duplicates inside one call in every arrangement (sorted, unsorted, adjacent,
				// separated), also against names the role already has, and names that are prefixes
				// of each other ("f" < "f0" < "f0\x00" < "f00")
				if rng.Intn(3) == 0 {
					a, b, x := rng.Intn(len(w.fns)), rng.Intn(len(w.fns)), rng.Intn(len(w.fns))
					if rng.Intn(3) == 0 {
						pre := []int{8, 0, 10, 9} // f, f0, f0\x00, f00
						a, b, x = pre[rng.Intn(4)], pre[rng.Intn(4)], pre[rng.Intn(4)]
					}
					if fs := g.funcs[o.Role]; len(fs) > 0 && rng.Intn(3) == 0 {
						x = fs[rng.Intn(len(fs))]
					}
					o.Fns = [][]int{{a, a}, {a, b, b}, {b, a, b}, {b, b, a}, {a, b, a}, {x, a, b, a}, {a, b, x, b, a}, {a, a, a}, {b, a, x, a}, {a, x, b, x}}[rng.Intn(10)]
				}
				actor = o.A
			case p < 30:
				o.Kind = "ids"
				o.A = g.admin
				if o.A < 0 || rng.Intn(10) == 0 {
					o.A = regular()
				} else if len(g.former) > 0 && rng.Intn(5) == 0 {
					o.A = g.former[rng.Intn(len(g.former))]
				}
				for k := rng.Intn(3); k >= 0; k-- {
					o.Persons = append(o.Persons, regular())
				}
				if rng.Intn(12) == 0 {
					o.Persons = append(o.Persons, anyID())
				}
				// the same ONT ID several times in one call: adjacent, separated, first/last
				if rng.Intn(4) == 0 {
					a, b, x := regular(), regular(), regular()
					o.Persons = [][]int{{a, a}, {a, b, b}, {b, a, b}, {b, b, a}, {a, b, a}, {x, a, b, a}, {a, a, a}, {a, b, x, b, a}}[rng.Intn(8)]
				}
				// bias towards the finding's precondition: assign a role to someone holding it by delegation
				if len(g.delegs) > 0 && rng.Intn(4) == 0 {
					d := g.delegs[rng.Intn(len(g.delegs))]
					o.Persons = []int{d[1]}
					o.Role = d[2]
				}
				actor = o.A
			case p < 56:
				o.Kind = "delegate"
				o.Role = roleWith(g.holders, o.Role)
				o.A = regular()
				if hs := g.holders[o.Role]; len(hs) > 0 && rng.Intn(6) > 0 {
					o.A = hs[rng.Intn(len(hs))]
				}
				o.B = anyID()
				// sometimes another holder of the role delegates to someone who already was a delegate
				if len(g.delegs) > 0 && rng.Intn(4) == 0 {
					d := g.delegs[rng.Intn(len(g.delegs))]
					o.B, o.Role = d[1], d[2]
					for _, x := range g.holders[o.Role] {
						if x != d[0] && rng.Intn(2) == 0 {
							o.A = x
						}
					}
				}
				// sometimes a delegate tries to hand its delegated role on
				if len(g.delegs) > 0 && rng.Intn(7) == 0 {
					d := g.delegs[rng.Intn(len(g.delegs))]
					o.A, o.Role = d[1], d[2]
				}
				o.Level = 1
				switch q := rng.Intn(24); {
				case q == 0:
					o.Level = 0
				case q == 1:
					o.Level = 2
				case q == 2:
					o.Level = []uint64{3, 127, 128, 255, 256, 300}[rng.Intn(6)]
				}
				o.Period = uint64(rng.Intn(60))
				switch q := rng.Intn(30); {
				case q == 0:
					o.Period = 0
				case q == 1 && now < uint64(future):
					o.Period = uint64(future) - now + uint64(rng.Intn(3)) - 1
				case q == 2:
					o.Period = maxU32 - now + uint64(rng.Intn(3)) - 1
				case q == 3:
					o.Period = []uint64{maxU32, maxU32 + 1, maxU32 + 2, 1 << 40}[rng.Intn(4)]
				case q == 4:
					o.Period = uint64(rng.Intn(100000))
				}
				actor = o.A
			case p < 64:
				o.Kind = "withdraw"
				o.A, o.B = regular(), regular()
				if len(g.delegs) > 0 && rng.Intn(6) > 0 {
					d := g.delegs[rng.Intn(len(g.delegs))]
					o.A, o.B, o.Role = d[0], d[1], d[2]
					// sometimes another holder of the role, or the delegate itself, asks for the withdrawal
					if hs := g.holders[o.Role]; len(hs) > 0 && rng.Intn(4) == 0 {
						o.A = hs[rng.Intn(len(hs))]
					} else if rng.Intn(12) == 0 {
						o.A = d[1]
					}
				}
				actor = o.A
			default:
				o.Kind = "verify"
				o.A = anyID()
				switch q := rng.Intn(10); {
				case q < 5 && len(g.delegs) > 0:
					d := g.delegs[rng.Intn(len(g.delegs))]
					o.A, o.Role = d[1], d[2]
				case q < 8:
					o.Role = roleWith(g.holders, o.Role)
					if hs := g.holders[o.Role]; len(hs) > 0 {
						o.A = hs[rng.Intn(len(hs))]
					}
				}
				o.Fn = rng.Intn(4)
				if fs := g.funcs[o.Role]; len(fs) > 0 && rng.Intn(4) > 0 {
					o.Fn = fs[rng.Intn(len(fs))]
				}
				if rng.Intn(10) == 0 {
					o.Fn = rng.Intn(len(w.fns))
				}
				actor = o.A
			}
		}
		o.C = ci
		o.Now = uint32(now)
		// identity proof: usually the right key of the actor signs and KeyNo names it
		o.KeyNo = 1
		if actor >= 0 {
			k := liveKey(actor)
			if k >= 0 {
				o.KeyNo = uint64(k + 1)
				if exact || rng.Intn(14) > 0 {
					o.Signers = append(o.Signers, [2]int{actor, k})
				}
			}
		}
		switch q := rng.Intn(50); {
		case exact:
		case q == 0:
			o.KeyNo = 0
		case q == 1:
			o.KeyNo += 1
		case q == 2:
			o.KeyNo += 1 << 32 // the ONT ID contract reads the index as uint32
		case q == 3:
			o.KeyNo = c.U64Boundary()
		case q == 4 && actor == 2:
			o.KeyNo = 1 // revoked key
			o.Signers = append(o.Signers, [2]int{2, 0})
		}
		if !exact && rng.Intn(6) == 0 { // an unrelated co-signer
			i := regular()
			o.Signers = append(o.Signers, [2]int{i, rng.Intn(len(w.ids[i].keys))})
		}
		if stub {
			o.Stub = make([]int, nIDs)
			for i := range o.Stub {
				o.Stub[i] = 2
				if w.proved(i, o.KeyNo, o.Signers) {
					o.Stub[i] = 0
				}
				switch q := rng.Intn(14); {
				case exact:
				case q == 0:
					o.Stub[i] = 1
				case q == 1:
					o.Stub[i] = 0
				}
			}
		}
		h.Ops = append(h.Ops, o)
		r.exec(h, len(h.Ops)-1)
		// update the generator view from what the implementation answered
		if r.lastRes == resTrue {
			g := gv[ci]
			switch o.Kind {
			case "init":
				g.admin = o.A
			case "transfer":
				g.former = append(g.former, g.admin)
				g.admin = o.B
			case "funcs":
				g.funcs[o.Role] = append(g.funcs[o.Role], o.Fns...)
			case "ids":
				g.holders[o.Role] = append(g.holders[o.Role], o.Persons...)
			case "delegate":
				g.delegs = append(g.delegs, [3]int{o.A, o.B, o.Role})
			}
		}
	}
	r.finish(h, true)
	return h
}

// closingScript: for every delegation the ledger still records, another holder of the role asks
// for its withdrawal (must be refused), then its delegator does (must be accepted).
func (r *runner) closingScript() (ops []opRec) {
	idx := map[string]int{}
	for i, id := range r.w.ids {
		idx[string(id.id)] = i
	}
	ridx := map[string]int{}
	for i, ro := range r.w.roles {
		ridx[string(ro)] = i
	}
	for ci := 0; ci < 2; ci++ {
		sp := r.spec[ci]
		var ks []lkey
		for k := range sp.ledger {
			ks = append(ks, k)
		}
		sort.Slice(ks, func(i, j int) bool { return ks[i].to+"|"+ks[i].role < ks[j].to+"|"+ks[j].role })
		for _, k := range ks {
			for i := 0; i < 5; i++ {
				x := string(r.w.ids[i].id)
				if x != k.from && sp.stored[x][k.role] {
					ops = append(ops, opRec{Kind: "withdraw", C: ci, A: i, B: idx[k.to], Role: ridx[k.role]})
					break
				}
			}
			ops = append(ops, opRec{Kind: "withdraw", C: ci, A: idx[k.from], B: idx[k.to], Role: ridx[k.role]})
		}
	}
	return
}
