// Package c29: VBFT participant selection (consensus/vbft: calcParticipantPeers, calcParticipant,
// getParticipantSelectionSeed), reached through the add-only hook file
// /repo/consensus/vbft/verif_hooks_c29.go (build tag verif).
//
//   - correspondence: each generated (seed, configuration) is run through calcParticipantPeers and the
//     three returned lists (or "panicked") are recorded; Coq re-computes Model.Participants on the same
//     input (Corr/C29.v). calcParticipant is compared separately for k around the 512 limit and tables of
//     many lengths (empty table = integer divide by zero).
//   - oracle (directly on the implementation, only for configurations inside the property's quantifier):
//     C+1 proposers, >= 2C+1 distinct endorsers, >= 2C+1 distinct committers, all members of the
//     configuration, no panic, same answer when run again, inputs not modified.
//   - hypothesis probes: the configurations that Props/C29.v uses to show each hypothesis is needed
//     (C = 0; N < 3C+1 as admitted by governance.CheckVBFTConfig; duplicate peer indices; position-table
//     entry that is no peer; fewer than C+1 peers) are replayed on the implementation on every run.
package c29

import (
	"crypto/sha512"
	"encoding/base64"
	"encoding/json"
	"fmt"
	"math"

	"github.com/ontio/ontology/consensus/vbft"

	"verif/harness/hx"
)

func init() { hx.Register("C29", Run) }

// selInput is the replayable input of one selection.
type selInput struct {
	Kind  string   `json:"kind"`
	N     uint32   `json:"n"`
	C     uint32   `json:"c"`
	Peers []uint32 `json:"peers"`
	Pos   []uint32 `json:"pos_table"`
	Vrf   string   `json:"vrf"` // 64 bytes, hex
}

type selOutput struct {
	Panicked   bool     `json:"panicked"`
	Panic      string   `json:"panic,omitempty"`
	Proposers  []uint32 `json:"proposers"`
	Endorsers  []uint32 `json:"endorsers"`
	Committers []uint32 `json:"committers"`
}

func vrfOf(in *selInput) (v [64]byte) {
	b := hx.UnHex(in.Vrf)
	copy(v[:], b)
	return
}

func runSel(in *selInput) (out selOutput) {
	chain := vbft.VerifC29ChainConfig(in.N, in.C, in.Peers, in.Pos)
	v := vrfOf(in)
	out.Panicked, out.Panic = hx.Recover(func() {
		out.Proposers, out.Endorsers, out.Committers = vbft.VerifC29CalcParticipantPeers(chain, v)
	})
	return
}

func distinct(l []uint32) bool {
	m := map[uint32]struct{}{}
	for _, x := range l {
		if _, ok := m[x]; ok {
			return false
		}
		m[x] = struct{}{}
	}
	return true
}

func countDistinct(l []uint32) int {
	m := map[uint32]struct{}{}
	for _, x := range l {
		m[x] = struct{}{}
	}
	return len(m)
}

// inQuantifier: the configurations the property speaks about (and the theorem's hypotheses):
// C >= 1, N >= 3C+1, N peers with distinct indices, every position-table entry is a peer index.
func inQuantifier(in *selInput) bool {
	if in.C < 1 || uint64(in.N) < 3*uint64(in.C)+1 || uint64(len(in.Peers)) != uint64(in.N) || !distinct(in.Peers) {
		return false
	}
	m := map[uint32]struct{}{}
	for _, p := range in.Peers {
		m[p] = struct{}{}
	}
	for _, x := range in.Pos {
		if _, ok := m[x]; !ok {
			return false
		}
	}
	return true
}

func eqU32(a, b []uint32) bool {
	if len(a) != len(b) {
		return false
	}
	for i := range a {
		if a[i] != b[i] {
			return false
		}
	}
	return true
}

// oracle checks the property's clauses on one implementation run of a configuration inside the
// quantifier.
func oracle(c *hx.Ctx, in *selInput, out *selOutput) {
	if out.Panicked {
		c.Fail("sel:panic", "selection panicked on a valid configuration", in, out.Panic, "three lists")
		return
	}
	cc := int(in.C)
	if len(out.Proposers) != cc+1 {
		c.Fail("sel:proposer-count", "a round has C+1 proposers", in, out, fmt.Sprintf("%d proposers", cc+1))
	}
	if !distinct(out.Proposers) {
		c.Fail("sel:proposers-dup", "proposers are distinct", in, out, "distinct proposers")
	}
	if len(out.Endorsers) < 2*cc+1 || countDistinct(out.Endorsers) < 2*cc+1 {
		c.Fail("sel:endorsers-short", "at least 2C+1 distinct endorsers", in, out, fmt.Sprintf(">= %d distinct endorsers", 2*cc+1))
	}
	if !distinct(out.Endorsers) {
		c.Fail("sel:endorsers-dup", "endorsers are distinct", in, out, "distinct endorsers")
	}
	if len(out.Committers) < 2*cc+1 || countDistinct(out.Committers) < 2*cc+1 {
		c.Fail("sel:committers-short", "at least 2C+1 distinct committers", in, out, fmt.Sprintf(">= %d distinct committers", 2*cc+1))
	}
	if !distinct(out.Committers) {
		c.Fail("sel:committers-dup", "committers are distinct", in, out, "distinct committers")
	}
	m := map[uint32]struct{}{}
	for _, p := range in.Peers {
		m[p] = struct{}{}
	}
	for _, l := range [][]uint32{out.Proposers, out.Endorsers, out.Committers} {
		for _, x := range l {
			if _, ok := m[x]; !ok {
				c.Fail("sel:non-member", "every selected participant is a member of the configuration", in, out, "members only")
				return
			}
		}
	}
	// determinism: same inputs, fresh objects, same answer; inputs left as they were
	peers0 := append([]uint32{}, in.Peers...)
	pos0 := append([]uint32{}, in.Pos...)
	out2 := runSel(in)
	c.Eval()
	if out2.Panicked || !eqU32(out.Proposers, out2.Proposers) || !eqU32(out.Endorsers, out2.Endorsers) || !eqU32(out.Committers, out2.Committers) {
		c.Fail("sel:nondeterministic", "selection is a function of the seed and configuration", in, []selOutput{*out, out2}, "equal results")
	}
	if !eqU32(peers0, in.Peers) || !eqU32(pos0, in.Pos) {
		c.Fail("sel:input-modified", "selection does not modify the configuration", in, nil, nil)
	}
}

func coqU32s(l []uint32) string {
	s := make([]string, len(l))
	for i, x := range l {
		s[i] = fmt.Sprint(x)
	}
	return hx.CoqList(s)
}

func (in *selInput) coq(out *selOutput) string {
	res := "None"
	if !out.Panicked {
		res = fmt.Sprintf("(Some (%s, %s, %s))", coqU32s(out.Proposers), coqU32s(out.Endorsers), coqU32s(out.Committers))
	}
	v := vrfOf(in)
	return fmt.Sprintf("(CSel %d %d %s %s %s %s)", in.N, in.C, coqU32s(in.Peers), coqU32s(in.Pos), hx.CoqBytes(v[:]), res)
}

// one runs one selection: implementation run, oracle when inside the quantifier, optional Coq case.
func one(c *hx.Ctx, in *selInput, withCase bool) selOutput {
	out := runSel(in)
	c.Eval()
	valid := inQuantifier(in)
	c.Count("kind:" + in.Kind)
	if valid {
		c.Count("config:valid")
		oracle(c, in, &out)
	} else {
		c.Count("config:outside-quantifier")
	}
	if out.Panicked {
		c.Count("outcome:panic")
	} else {
		d := countDistinct(in.Pos)
		switch {
		case d <= 3*int(in.C):
			c.Count("path:fill-from-peers (<=3C distinct in table)")
		case uint32(d) >= in.N:
			c.Count("path:table covers all N peers")
		default:
			c.Count("path:table has >3C and <N distinct")
		}
		if len(out.Endorsers) == 2*int(in.C)+1 {
			c.Count("endorsers:exactly 2C+1 (topped up or exact)")
		} else if len(out.Endorsers) > 2*int(in.C)+1 {
			c.Count("endorsers:more than 2C+1 (no top-up)")
		}
		if len(out.Committers) == 2*int(in.C)+1 {
			c.Count("committers:exactly 2C+1 (topped up or exact)")
		} else if len(out.Committers) > 2*int(in.C)+1 {
			c.Count("committers:more than 2C+1 (no top-up)")
		}
		c.Count(fmt.Sprintf("C:%s", bucket(int(in.C))))
		c.Count(fmt.Sprintf("tablelen:%s", bucket(len(in.Pos))))
	}
	if withCase {
		c.Case(in.coq(&out), map[string]interface{}{"input": in, "implementation": out})
	}
	if valid && len(in.Pos) > 1 {
		v := vrfOf(in)
		c.Nontrivial(fmt.Sprintf("%d/%d/%v/%v/%x", in.N, in.C, in.Peers, in.Pos, v[:8]))
	}
	return out
}

func bucket(n int) string {
	switch {
	case n == 0:
		return "0"
	case n <= 2:
		return "1-2"
	case n <= 8:
		return "3-8"
	case n <= 32:
		return "9-32"
	case n <= 128:
		return "33-128"
	case n <= 512:
		return "129-512"
	default:
		return ">512"
	}
}

// ---------- generators ----------

func genVrf(c *hx.Ctx) string {
	b := c.Bytes(64)
	switch c.Intn(12) {
	case 0:
		for i := range b {
			b[i] = 0
		}
	case 1:
		for i := range b {
			b[i] = 0xff
		}
	case 2:
		for i := range b {
			b[i] = 0
		}
		b[c.Intn(64)] = 1 << uint(c.Intn(8))
	case 3:
		x := byte(c.Intn(256))
		for i := range b {
			b[i] = x
		}
	}
	return hx.Hex(b)
}

// genPeers returns n distinct peer indices: dense 0..n-1, dense 1..n, or sparse (with the
// extreme values 0 and MaxUint32 now and then), in random order.
func genPeers(c *hx.Ctx, n int) []uint32 {
	out := make([]uint32, 0, n)
	switch c.Intn(4) {
	case 0:
		for i := 0; i < n; i++ {
			out = append(out, uint32(i))
		}
		return out
	case 1:
		for i := 1; i <= n; i++ {
			out = append(out, uint32(i))
		}
	default:
		seen := map[uint32]bool{}
		for len(out) < n {
			var x uint32
			switch c.Intn(10) {
			case 0:
				x = math.MaxUint32
			case 1:
				x = 0
			case 2:
				x = math.MaxUint32 - uint32(c.Intn(3))
			default:
				x = uint32(c.Rng.Int63()) >> uint(c.Intn(28))
			}
			if !seen[x] {
				seen[x] = true
				out = append(out, x)
			}
		}
	}
	c.Rng.Shuffle(len(out), func(i, j int) { out[i], out[j] = out[j], out[i] })
	return out
}

func genNC(c *hx.Ctx) (int, int) {
	n := 4 + c.Intn(37) // 4..40
	maxC := (n - 1) / 3
	cc := 1 + c.Intn(maxC)
	if c.Intn(3) == 0 {
		cc = maxC // tight: N in 3C+1..3C+3
	}
	return n, cc
}

// stakeTable: every peer holds at least one position (what GenesisChainConfig produces), shuffled.
func stakeTable(c *hx.Ctx, peers []uint32) []uint32 {
	var t []uint32
	maxRank := 1 + c.Intn(12)
	for _, p := range peers {
		r := 1 + c.Intn(maxRank)
		if c.Intn(8) == 0 {
			r += c.Intn(40) // a whale
		}
		for j := 0; j < r; j++ {
			t = append(t, p)
		}
	}
	c.Rng.Shuffle(len(t), func(i, j int) { t[i], t[j] = t[j], t[i] })
	return t
}

// skewedTable: only d distinct peers hold positions; length l.
func skewedTable(c *hx.Ctx, peers []uint32, d, l int) []uint32 {
	if d > len(peers) {
		d = len(peers)
	}
	if d < 1 {
		return nil
	}
	perm := c.Rng.Perm(len(peers))[:d]
	t := make([]uint32, 0, l)
	for i := 0; i < l; i++ {
		if i < d {
			t = append(t, peers[perm[i]])
		} else {
			t = append(t, peers[perm[c.Intn(d)]])
		}
	}
	c.Rng.Shuffle(len(t), func(i, j int) { t[i], t[j] = t[j], t[i] })
	return t
}

func genValid(c *hx.Ctx) *selInput {
	n, cc := genNC(c)
	peers := genPeers(c, n)
	in := &selInput{N: uint32(n), C: uint32(cc), Peers: peers, Vrf: genVrf(c)}
	switch c.Intn(10) {
	case 0, 1, 2:
		in.Kind = "stake-table"
		in.Pos = stakeTable(c, peers)
	case 3, 4:
		in.Kind = "skewed-few-distinct"
		d := 1 + c.Intn(3*cc+2)
		in.Pos = skewedTable(c, peers, d, d+c.Intn(60))
	case 5:
		in.Kind = "boundary-distinct-count"
		ds := []int{3 * cc, 3*cc + 1, 3*cc - 1, 5*cc + 3, 5*cc + 4, 5*cc + 5, n - 1, n, cc, cc + 1, cc + 2}
		d := ds[c.Intn(len(ds))]
		if d < 1 {
			d = 1
		}
		in.Pos = skewedTable(c, peers, d, d*(1+c.Intn(6)))
	case 6:
		in.Kind = "tiny-table"
		l := c.Intn(4)
		in.Pos = skewedTable(c, peers, 1+c.Intn(3), l)
		if l == 0 {
			in.Pos = nil
		}
	case 7:
		in.Kind = "power-of-two-table"
		l := 1 << uint(c.Intn(10))
		in.Pos = skewedTable(c, peers, 1+c.Intn(n), l)
	case 8:
		in.Kind = "long-table-over-512"
		// few distinct peers in a table longer than 512: the loop runs until calcParticipant's k limit
		in.Pos = skewedTable(c, peers, 1+c.Intn(n), 513+c.Intn(300))
	default:
		in.Kind = "uniform-4-per-peer"
		for _, p := range peers {
			for j := 0; j < 4; j++ {
				in.Pos = append(in.Pos, p)
			}
		}
	}
	return in
}

// genOutside: configurations outside the quantifier (model and implementation must still agree;
// the oracle is not applied).
func genOutside(c *hx.Ctx) *selInput {
	n, cc := genNC(c)
	peers := genPeers(c, n)
	in := &selInput{N: uint32(n), C: uint32(cc), Peers: peers, Vrf: genVrf(c)}
	in.Pos = stakeTable(c, peers)
	switch c.Intn(7) {
	case 0:
		in.Kind = "outside:C=0"
		in.C = 0
		if c.Intn(2) == 0 {
			in.N = 1
			in.Peers = peers[:1]
			in.Pos = skewedTable(c, in.Peers, 1, 1+c.Intn(3))
		}
	case 1:
		in.Kind = "outside:N<3C+1"
		k := 2*cc + 1 + c.Intn(cc) // 2C+1 .. 3C
		if k > n {
			k = n
		}
		in.N = uint32(k)
		in.Peers = peers[:k]
		in.Pos = stakeTable(c, in.Peers)
	case 2:
		in.Kind = "outside:duplicate-peer-indices"
		for i := 0; i < 1+c.Intn(n); i++ {
			in.Peers[c.Intn(n)] = in.Peers[c.Intn(n)]
		}
		in.Pos = skewedTable(c, in.Peers, 1+c.Intn(2), 1+c.Intn(8))
	case 3:
		in.Kind = "outside:table-entry-not-a-peer"
		for i := 0; i < 1+c.Intn(3); i++ {
			in.Pos[c.Intn(len(in.Pos))] = uint32(1000000 + c.Intn(5))
		}
	case 4:
		in.Kind = "outside:too-few-peers"
		k := c.Intn(cc + 2)
		in.Peers = peers[:k]
		if k == 0 || c.Intn(2) == 0 {
			in.Pos = nil
		} else {
			in.Pos = skewedTable(c, in.Peers, 1+c.Intn(k), 1+c.Intn(6))
		}
	case 5:
		in.Kind = "outside:N-field-differs-from-peer-count"
		if c.Intn(2) == 0 {
			in.N = uint32(c.Intn(n))
		} else {
			in.N = uint32(n + 1 + c.Intn(5))
		}
	default:
		in.Kind = "outside:maxuint32-table-entry"
		in.Pos[c.Intn(len(in.Pos))] = math.MaxUint32
	}
	return in
}

// probes: the witnesses of the necessity examples in Props/C29.v, replayed on every run.
func probes() []*selInput {
	zero := hx.Hex(make([]byte, 64))
	return []*selInput{
		{Kind: "probe:C=0,N=1", N: 1, C: 0, Peers: []uint32{0}, Pos: []uint32{0}, Vrf: zero},
		{Kind: "probe:N=7,C=3 (passes CheckVBFTConfig)", N: 7, C: 3, Peers: []uint32{0, 1, 2, 3, 4, 5, 6}, Pos: []uint32{0, 1, 2, 3, 4, 5, 6, 0}, Vrf: zero},
		{Kind: "probe:duplicate-peer-index", N: 4, C: 1, Peers: []uint32{0, 0, 1, 2}, Pos: []uint32{0}, Vrf: zero},
		{Kind: "probe:table-entry-not-a-peer", N: 4, C: 1, Peers: []uint32{0, 1, 2, 3}, Pos: []uint32{9}, Vrf: zero},
		{Kind: "probe:fewer-than-C+1-peers", N: 4, C: 1, Peers: []uint32{0}, Pos: []uint32{0}, Vrf: zero},
		{Kind: "probe:valid-N=4,C=1,one-table-peer", N: 4, C: 1, Peers: []uint32{0, 1, 2, 3}, Pos: []uint32{2}, Vrf: zero},
	}
}

// ---------- calcParticipant ----------

type partInput struct {
	Vrf   string   `json:"vrf"`
	Table []uint32 `json:"table"`
	K     uint32   `json:"k"`
}

func onePart(c *hx.Ctx, in *partInput, withCase bool) {
	var v [64]byte
	copy(v[:], hx.UnHex(in.Vrf))
	var r uint32
	panicked, msg := hx.Recover(func() { r = vbft.VerifC29CalcParticipant(v, in.Table, in.K) })
	c.Eval()
	switch {
	case panicked && len(in.Table) == 0 && in.K < 512:
		c.Count("part:empty-table-divide-by-zero")
	case panicked:
		c.Fail("part:panic", "calcParticipant panicked on a non-empty table", in, msg, nil)
	case in.K >= 512:
		c.Count("part:k>=512")
		if r != math.MaxUint32 {
			c.Fail("part:limit", "k >= 512 yields MaxUint32", in, r, uint32(math.MaxUint32))
		}
	default:
		c.Count("part:k<512")
		found := false
		for _, x := range in.Table {
			if x == r {
				found = true
				break
			}
		}
		if !found {
			c.Fail("part:not-in-table", "calcParticipant returns an entry of the position table", in, r, "an entry of the table")
		}
		var r2 uint32
		hx.Recover(func() { r2 = vbft.VerifC29CalcParticipant(v, in.Table, in.K) })
		if r2 != r {
			c.Fail("part:nondeterministic", "calcParticipant is a function", in, []uint32{r, r2}, nil)
		}
	}
	if withCase {
		res := "None"
		if !panicked {
			res = fmt.Sprintf("(Some %d)", r)
		}
		c.Case(fmt.Sprintf("(CPart %s %s %d %s)", hx.CoqBytes(v[:]), coqU32s(in.Table), in.K, res),
			map[string]interface{}{"input": in, "implementation": map[string]interface{}{"panicked": panicked, "value": r}})
	}
}

func genPart(c *hx.Ctx) *partInput {
	in := &partInput{Vrf: genVrf(c)}
	var l int
	switch c.Intn(8) {
	case 0:
		l = 0
	case 1:
		l = 1 + c.Intn(3)
	case 2:
		l = []int{255, 256, 257, 511, 512, 513}[c.Intn(6)]
	case 3:
		l = 1 << uint(c.Intn(9))
	default:
		l = 1 + c.Intn(120)
	}
	for i := 0; i < l; i++ {
		in.Table = append(in.Table, uint32(c.Intn(50)))
	}
	switch c.Intn(8) {
	case 0:
		in.K = uint32(504 + c.Intn(16))
	case 1:
		in.K = []uint32{0, 7, 8, 15, 503, 504, 511, 512, 513, 1 << 16, math.MaxUint32}[c.Intn(11)]
	default:
		in.K = uint32(c.Intn(512))
	}
	return in
}

// ---------- seed ----------

// seedOracle: getParticipantSelectionSeed is SHA-512 applied twice to the JSON object
// {"block_num":h+1,"prev_block_proposer":p,"vrf_value":base64(v)} — a function of (h, p, v) only.
func seedOracle(c *hx.Ctx, n int) {
	for i := 0; i < n; i++ {
		h := uint32(c.Rng.Int63())
		if c.Intn(4) == 0 {
			h = []uint32{0, 1, math.MaxUint32 - 1, math.MaxUint32}[c.Intn(4)]
		}
		p := uint32(c.Intn(64))
		if c.Intn(6) == 0 {
			p = math.MaxUint32
		}
		var v []byte
		if c.Intn(8) != 0 {
			v = c.Bytes(c.Intn(130))
		}
		got := vbft.VerifC29SelectionSeed(h, p, v)
		var vcopy []byte // same content, fresh object (nil stays nil: encoding/json prints nil as null, empty as "")
		if v != nil {
			vcopy = append([]byte{}, v...)
		}
		got2 := vbft.VerifC29SelectionSeed(h, p, vcopy)
		c.Eval()
		c.Count("seed:evaluations")
		vj := "null"
		if v != nil {
			vj = "\"" + base64.StdEncoding.EncodeToString(v) + "\""
		}
		js := fmt.Sprintf("{\"block_num\":%d,\"prev_block_proposer\":%d,\"vrf_value\":%s}", h+1, p, vj)
		t := sha512.Sum512([]byte(js))
		want := sha512.Sum512(t[:])
		in := map[string]interface{}{"seed_of": map[string]interface{}{"height": h, "proposer": p, "vrf_value": hx.Hex(v)}}
		if got != got2 {
			c.Fail("seed:nondeterministic", "the selection seed is a function of (height, proposer, vrf value)", in, []string{hx.Hex(got[:]), hx.Hex(got2[:])}, nil)
		}
		if got != want {
			c.Fail("seed:formula", "seed = SHA512(SHA512(json{block_num,prev_block_proposer,vrf_value}))", in, hx.Hex(got[:]), hx.Hex(want[:]))
		}
		if i < 1 {
			c.Sample(map[string]interface{}{"seed_input": js, "seed": hx.Hex(got[:])})
		}
	}
}

// ---------- driver ----------

func Run(c *hx.Ctx) {
	c.CoqModule("Corr.C29")

	// 1. replay
	var raw json.RawMessage
	if c.ReplayInput(&raw) {
		for _, in := range decodeReplay(raw) {
			switch v := in.(type) {
			case *selInput:
				out := one(c, v, true)
				c.Sample(map[string]interface{}{"replayed": v, "implementation": out})
			case *partInput:
				onePart(c, v, true)
			}
		}
		return
	}
	// 2. corpus
	for _, raw := range c.CorpusInputs() {
		for _, in := range decodeReplay(raw) {
			switch v := in.(type) {
			case *selInput:
				v.Kind = "corpus"
				one(c, v, true)
			case *partInput:
				onePart(c, v, true)
			}
		}
	}
	// 3. hypothesis probes (deterministic)
	for _, p := range probes() {
		out := one(c, p, true)
		c.Note(fmt.Sprintf("%s: N=%d C=%d peers=%v table=%v -> %s", p.Kind, p.N, p.C, p.Peers, p.Pos, describe(&out)))
	}
	// 4. generated selections with Coq cases
	nCases := c.N(350, 6000)
	for i := 0; i < nCases; i++ {
		var in *selInput
		if c.Intn(6) == 0 {
			in = genOutside(c)
		} else {
			in = genValid(c)
		}
		out := one(c, in, true)
		if i < 3 {
			c.Sample(map[string]interface{}{"input": in, "implementation": out})
		}
	}
	// 5. exhaustive small sweep, oracle only: every N in 4..40, every valid C, tables with every number
	// of distinct peers 1..N (that is where the exits and the fill-in paths switch), several seeds.
	seeds := c.N(2, 8)
	for n := 4; n <= 40; n++ {
		peers := make([]uint32, n)
		for i := range peers {
			peers[i] = uint32(i + 1)
		}
		for cc := 1; 3*cc+1 <= n; cc++ {
			for d := 0; d <= n; d++ {
				for s := 0; s < seeds; s++ {
					in := &selInput{Kind: "sweep", N: uint32(n), C: uint32(cc), Peers: peers, Vrf: genVrf(c)}
					if d > 0 {
						in.Pos = skewedTable(c, peers, d, d*(1+c.Intn(4)))
					}
					one(c, in, false)
				}
			}
		}
	}
	// 6. random oracle-only runs
	for i := 0; i < c.N(6000, 60000); i++ {
		one(c, genValid(c), false)
	}
	// 7. calcParticipant
	for i := 0; i < c.N(150, 2500); i++ {
		onePart(c, genPart(c), true)
	}
	for k := uint32(0); k < 520; k++ { // every k once, oracle only
		onePart(c, &partInput{Vrf: genVrf(c), Table: []uint32{3, 1, 4, 1, 5, 9, 2, 6, 5, 3, 5}, K: k}, false)
	}
	// 8. seed
	seedOracle(c, c.N(200, 2000))
}

func describe(o *selOutput) string {
	if o.Panicked {
		return "PANIC " + o.Panic
	}
	return fmt.Sprintf("proposers=%v endorsers=%v committers=%v", o.Proposers, o.Endorsers, o.Committers)
}

// decodeReplay accepts an oracle failure input (a selInput or partInput) or a correspondence
// case description ({"input": ..., "implementation": ...}).
func decodeReplay(raw json.RawMessage) []interface{} {
	var probe map[string]json.RawMessage
	if err := json.Unmarshal(raw, &probe); err != nil {
		return nil
	}
	if inner, ok := probe["input"]; ok {
		return decodeReplay(inner)
	}
	if _, ok := probe["seed_of"]; ok {
		return nil
	}
	if _, ok := probe["table"]; ok {
		var p partInput
		if json.Unmarshal(raw, &p) == nil {
			return []interface{}{&p}
		}
		return nil
	}
	var s selInput
	if json.Unmarshal(raw, &s) == nil && s.Vrf != "" {
		if s.Kind == "" {
			s.Kind = "replay"
		}
		return []interface{}{&s}
	}
	return nil
}
