package c29

import "verif/harness/gen"

const nodeUtils = "consensus/vbft/node_utils.go"

// Sites: the integer formulas of calcParticipantPeers / calcParticipant, translated from the
// source on every run into coq/Gen/ParticipantFormulas.v. Model/Participants.v is written over
// these definitions, so the C29 theorems are re-proved against the formulas as they stand now.
var Sites = []gen.Site{
	// calcParticipantPeers
	{Name: "sel_cap", File: nodeUtils, Func: "calcParticipantPeers", Loc: "cmp:>:rhs#0",
		Subst: map[string]string{"c": "c"}, Vars: []string{"c"}},
	{Name: "sel_exit_n", File: nodeUtils, Func: "calcParticipantPeers", Loc: "cmp:==:rhs#1",
		Subst: map[string]string{"chain.N": "n"}, Vars: []string{"n"}},
	{Name: "fill_enter", File: nodeUtils, Func: "calcParticipantPeers", Loc: "cmp:<=:rhs#0",
		Subst: map[string]string{"c": "c"}, Vars: []string{"c"}},
	{Name: "fill_break", File: nodeUtils, Func: "calcParticipantPeers", Loc: "cmp:>:rhs#1",
		Subst: map[string]string{"c": "c"}, Vars: []string{"c"}},
	{Name: "n_committer", File: nodeUtils, Func: "calcParticipantPeers", Loc: "assign:nCommitter",
		Subst: map[string]string{"c": "c"}, Vars: []string{"c"}},
	{Name: "n1_formula", File: nodeUtils, Func: "calcParticipantPeers", Loc: "assign:n1",
		Subst: map[string]string{"len(peers)": "l", "len(propsers)": "p"}, Vars: []string{"l", "p"}},
	// calcParticipant
	{Name: "cp_bidx", File: nodeUtils, Func: "calcParticipant", Loc: "assign:bIdx",
		Subst: map[string]string{"k": "k"}, Vars: []string{"k"}},
	{Name: "cp_bits1", File: nodeUtils, Func: "calcParticipant", Loc: "assign:bits1",
		Subst: map[string]string{"k": "k"}, Vars: []string{"k"}},
	{Name: "cp_bits2", File: nodeUtils, Func: "calcParticipant", Loc: "assign:bits2",
		Subst: map[string]string{"bits1": "bits1"}, Vars: []string{"bits1"}},
	{Name: "cp_klimit", File: nodeUtils, Func: "calcParticipant", Loc: "cmp:>=:rhs#0",
		Subst: map[string]string{}, Vars: nil},
	{Name: "cp_vcomb", File: nodeUtils, Func: "calcParticipant", Loc: "assign:v#0",
		Subst: map[string]string{"v1": "v1", "v2": "v2", "bits1": "bits1"}, Vars: []string{"v2", "bits1", "v1"}},
	{Name: "cp_vmod", File: nodeUtils, Func: "calcParticipant", Loc: "assign:v#1",
		Subst: map[string]string{"v": "v", "len(dposTable)": "n"}, Vars: []string{"v", "n"}},
}

func init() {
	gen.RegisterFile("ParticipantFormulas.v", gen.SitesProducer(Sites))
}
