package c26

import (
	"encoding/json"
	"fmt"
	"os"
	"strings"

	"github.com/ontio/ontology/merkle"

	"verif/harness/hx"
)

func jsonUnmarshal(raw json.RawMessage, v interface{}) error { return json.Unmarshal(raw, v) }

// ---------- verifier calls with expectation + Coq case ----------

// vi runs VerifyLeafHashInclusion; want: +1 must accept, -1 must reject, 0 no expectation.
func (d *drv) vi(in probe, leaf h256, idx uint32, proof []h256, root h256, size uint32, want int, emit bool) {
	c := d.c
	var err error
	c.Eval()
	p, msg := hx.Recover(func() { err = d.ver.VerifyLeafHashInclusion(leaf, idx, proof, root, size) })
	if p {
		c.Fail("panic:verify-inclusion", "VerifyLeafHashInclusion panicked", in, msg, "error or nil")
		return
	}
	kind := in.Mut
	if kind == "" {
		kind = "valid"
	}
	c.Count("incl:" + kind + ":" + vres(err))
	if want > 0 && err != nil {
		c.Fail("incl:valid-rejected", "a generated inclusion proof does not verify against the root of that size", in, err.Error(), "nil")
	}
	if want < 0 && err == nil {
		c.Fail("incl:mutant-accepted:"+in.Mut, "an altered "+in.Mut+" is accepted by VerifyLeafHashInclusion", in, "nil", "error")
	}
	if emit {
		c.Case(fmt.Sprintf("CVerIncl %s %d %s %s %d %s", d.r.hrefP(leaf), idx, d.r.hrefs(proof), d.r.hrefP(root), size, vres(err)), in)
	}
}

func (d *drv) vc(in probe, m, n uint32, old, new h256, proof []h256, want int, emit bool) {
	c := d.c
	var err error
	c.Eval()
	p, msg := hx.Recover(func() { err = d.ver.VerifyConsistency(m, n, old, new, proof) })
	if p {
		c.Fail("panic:verify-consistency", "VerifyConsistency panicked", in, msg, "error or nil")
		return
	}
	kind := in.Mut
	if kind == "" {
		kind = "valid"
	}
	c.Count("cons:" + kind + ":" + vres(err))
	if want > 0 && err != nil {
		c.Fail("cons:valid-rejected", "a generated consistency proof does not verify between the two roots", in, err.Error(), "nil")
	}
	if want < 0 && err == nil {
		c.Fail("cons:mutant-accepted:"+in.Mut, "an altered "+in.Mut+" is accepted by VerifyConsistency", in, "nil", "error")
	}
	if emit {
		c.Case(fmt.Sprintf("CVerCons %d %d %s %s %s %s", m, n, d.r.hrefP(old), d.r.hrefP(new), d.r.hrefs(proof), vres(err)), in)
	}
}

// safeIncl / safeCons call the generators and turn a panic into an error value.
func safeIncl(t *merkle.CompactMerkleTree, m, n uint32) (pr []h256, err error) {
	p, msg := hx.Recover(func() { pr, err = t.InclusionProof(m, n) })
	if p {
		return nil, fmt.Errorf("panic: %s", msg)
	}
	return
}

func safeCons(t *merkle.CompactMerkleTree, m, n uint32) (pr []h256, err error) {
	p, msg := hx.Recover(func() { pr = t.ConsistencyProof(m, n) })
	if p {
		return nil, fmt.Errorf("panic: %s", msg)
	}
	return
}

func without(p []h256, k int) []h256 {
	out := append([]h256(nil), p[:k]...)
	return append(out, p[k+1:]...)
}

func with(p []h256, k int, h h256) []h256 {
	out := append([]h256(nil), p...)
	out[k] = h
	return out
}

// inclOne: InclusionProof(m, n) on a tree of N >= n leaves: equals the RFC path, verifies, and
// every single alteration is rejected.
func (d *drv) inclOne(t *merkle.CompactMerkleTree, N, m, n int, emit, allIdx bool) {
	c := d.c
	r := d.r
	in := probe{Kind: "incl", N: N, M: uint32(m), Size: uint32(n)}
	var proof []h256
	var err error
	c.Eval()
	p, msg := hx.Recover(func() { proof, err = t.InclusionProof(uint32(m), uint32(n)) })
	if p || err != nil {
		c.Fail("incl:generation-failed", "InclusionProof failed for a leaf inside an available tree size", in, fmt.Sprint(msg, err), "proof")
		return
	}
	if want := r.path(m, 0, n); !eqHashes(proof, want) {
		c.Fail("incl:proof-ne-rfc", "InclusionProof differs from RFC 6962 PATH(m, D[n])", in, hexes(proof), hexes(want))
	}
	leaf, root := r.leaves[m], r.mth(0, n)
	c.Nontrivial(fmt.Sprintf("incl/%d/%d", m, n))
	c.Count(fmt.Sprintf("incl:size<=%d", bucket(n)))
	d.vi(in, leaf, uint32(m), proof, root, uint32(n), +1, emit)

	mut := func(kind string, k int, v uint32) probe {
		q := in
		q.Mut, q.K, q.V = kind, k, v
		return q
	}
	d.vi(mut("leaf", 0, 0), flip(leaf, m+n), uint32(m), proof, root, uint32(n), -1, emit)
	if n > 1 {
		o := (m + 1) % n
		d.vi(mut("leaf-other", o, 0), r.leaves[o], uint32(m), proof, root, uint32(n), -1, emit)
	}
	d.vi(mut("root", 0, 0), leaf, uint32(m), proof, flip(root, 3*m+n), uint32(n), -1, emit)
	d.vi(mut("root-other", 0, 0), leaf, uint32(m), proof, r.mth(0, n+1), uint32(n), -1, emit)
	if n > 1 {
		d.vi(mut("root-other", 1, 0), leaf, uint32(m), proof, r.mth(0, n-1), uint32(n), -1, emit)
	}
	for k := range proof {
		d.vi(mut("proof-element", k, 0), leaf, uint32(m), with(proof, k, flip(proof[k], k+m)), root, uint32(n), -1, emit)
		d.vi(mut("proof-element-leaf", k, 0), leaf, uint32(m), with(proof, k, leaf), root, uint32(n), -1, emit && k == 0)
		d.vi(mut("proof-drop", k, 0), leaf, uint32(m), without(proof, k), root, uint32(n), -1, emit)
	}
	if len(proof) > 1 && proof[0] != proof[1] {
		sw := with(with(proof, 0, proof[1]), 1, proof[0])
		d.vi(mut("proof-swap", 0, 0), leaf, uint32(m), sw, root, uint32(n), -1, emit)
	}
	d.vi(mut("proof-extra", len(proof), 0), leaf, uint32(m), append(append([]h256(nil), proof...), junkHash(m)), root, uint32(n), -1, emit)
	d.vi(mut("proof-extra-front", 0, 0), leaf, uint32(m), append([]h256{junkHash(n)}, proof...), root, uint32(n), -1, emit)
	// index
	idxs := map[int]bool{}
	if allIdx {
		for v := 0; v < n; v++ {
			idxs[v] = true
		}
	} else {
		for _, v := range []int{0, m - 2, m - 1, m + 1, m + 2, n - 1, c.Intn(n), c.Intn(n), c.Intn(n)} {
			if v >= 0 && v < n {
				idxs[v] = true
			}
		}
	}
	for v := 0; v < n; v++ {
		if idxs[v] && v != m {
			d.vi(mut("index", 0, uint32(v)), leaf, uint32(v), proof, root, uint32(n), -1, emit && (v == m+1 || v == m-1 || v == 0))
		}
	}
	d.vi(mut("index", 0, uint32(n)), leaf, uint32(n), proof, root, uint32(n), -1, emit)
	// size: rejected whenever the path shape changes
	shape := inclShape(uint64(m), uint64(n))
	sizes := []uint32{1 << 31, 1<<32 - 1, uint32(n) + 1<<20}
	for v := m + 1; v <= d.maxN+3; v++ {
		sizes = append(sizes, uint32(v))
	}
	for _, v := range sizes {
		if int(v) == n {
			continue
		}
		want := -1
		em := emit && (int(v) <= n+2 || v >= 1<<31)
		if inclShape(uint64(m), uint64(v)) == shape {
			want = 0
			c.Count("incl:size-same-shape(undetectable)")
		}
		d.vi(mut("size", 0, v), leaf, uint32(m), proof, root, v, want, em)
	}
	d.vi(mut("size", 0, uint32(m)), leaf, uint32(m), proof, root, uint32(m), -1, emit)
}

// consOne: ConsistencyProof(m, n), 1 <= m <= n.
func (d *drv) consOne(t *merkle.CompactMerkleTree, N, m, n int, emit, all bool) {
	c := d.c
	r := d.r
	in := probe{Kind: "cons", N: N, M: uint32(m), Size: uint32(n)}
	var proof []h256
	c.Eval()
	p, msg := hx.Recover(func() { proof = t.ConsistencyProof(uint32(m), uint32(n)) })
	if p {
		c.Fail("cons:generation-failed", "ConsistencyProof panicked for available sizes", in, msg, "proof")
		return
	}
	if want := r.proof(m, n); !eqHashes(proof, want) {
		c.Fail("cons:proof-ne-rfc", "ConsistencyProof differs from RFC 6962 PROOF(m, D[n])", in, hexes(proof), hexes(want))
	}
	old, new := r.mth(0, m), r.mth(0, n)
	c.Nontrivial(fmt.Sprintf("cons/%d/%d", m, n))
	c.Count(fmt.Sprintf("cons:size<=%d", bucket(n)))
	d.vc(in, uint32(m), uint32(n), old, new, proof, +1, emit)

	mut := func(kind string, k int, v uint32) probe {
		q := in
		q.Mut, q.K, q.V = kind, k, v
		return q
	}
	d.vc(mut("old-root", 0, 0), uint32(m), uint32(n), flip(old, m+n), new, proof, -1, emit)
	d.vc(mut("new-root", 0, 0), uint32(m), uint32(n), old, flip(new, m+2*n), proof, -1, emit)
	d.vc(mut("old-root-other", 0, 0), uint32(m), uint32(n), r.mth(0, m+1), new, proof, -1, emit)
	if m > 1 {
		d.vc(mut("old-root-other", 1, 0), uint32(m), uint32(n), r.mth(0, m-1), new, proof, -1, emit)
	}
	d.vc(mut("new-root-other", 0, 0), uint32(m), uint32(n), old, r.mth(0, n+1), proof, -1, emit)
	if n > 1 {
		d.vc(mut("new-root-other", 1, 0), uint32(m), uint32(n), old, r.mth(0, n-1), proof, -1, emit)
	}
	if m < n {
		d.vc(mut("roots-swapped", 0, 0), uint32(m), uint32(n), new, old, proof, -1, emit)
		d.vc(mut("old-root-is-new", 0, 0), uint32(m), uint32(n), new, new, proof, -1, emit)
	}
	for k := range proof {
		d.vc(mut("proof-element", k, 0), uint32(m), uint32(n), old, new, with(proof, k, flip(proof[k], k+n)), -1, emit)
		d.vc(mut("proof-drop", k, 0), uint32(m), uint32(n), old, new, without(proof, k), -1, emit)
	}
	if len(proof) > 1 && proof[0] != proof[1] {
		sw := with(with(proof, 0, proof[1]), 1, proof[0])
		d.vc(mut("proof-swap", 0, 0), uint32(m), uint32(n), old, new, sw, -1, emit)
	}
	d.vc(mut("proof-extra", len(proof), 0), uint32(m), uint32(n), old, new, append(append([]h256(nil), proof...), junkHash(m)), -1, emit)
	d.vc(mut("proof-extra-front", 0, 0), uint32(m), uint32(n), old, new, append([]h256{junkHash(n)}, proof...), -1, emit)
	// sizes: rejected whenever the shape of the computation changes
	shape := consShape(uint64(m), uint64(n))
	for v := 0; v <= d.maxN+3; v++ {
		if !all && v > 3 && v != m-1 && v != m+1 && v != n-1 && v != n+1 && c.Intn(8) != 0 {
			continue
		}
		if v != m {
			want := -1
			if v >= 1 && v <= n && consShape(uint64(v), uint64(n)) == shape {
				want = 0
				c.Count("cons:old-size-same-shape(undetectable)")
			}
			d.vc(mut("old-size", 0, uint32(v)), uint32(v), uint32(n), old, new, proof, want, emit && v <= m+1)
		}
		if v != n {
			want := -1
			if v >= m && consShape(uint64(m), uint64(v)) == shape {
				want = 0
				c.Count("cons:new-size-same-shape(undetectable)")
			}
			d.vc(mut("new-size", 0, uint32(v)), uint32(m), uint32(v), old, new, proof, want, emit && v >= n-1 && v <= n+2)
		}
	}
	for _, v := range []uint32{1 << 31, 1<<32 - 1} {
		d.vc(mut("new-size", 0, v), uint32(m), v, old, new, proof, -1, emit)
		d.vc(mut("old-size", 0, v), v, uint32(n), old, new, proof, -1, emit)
	}
}

// proofsCheck: every (leaf, size) and every (m, n) pair up to N, on one tree of N leaves and, for
// the sizes in [lo, N], also on the tree of exactly that size (proofs must not depend on later
// appends).
func (d *drv) proofsCheck(N int, store string) {
	c := d.c
	nv := c.N(8, 16) // all verifier cases up to this size go to Coq; above: a sample
	var st merkle.HashStore
	if store == "file" {
		var err error
		st, err = merkle.NewFileHashStore(d.filePath(), 0)
		if err != nil {
			panic(err)
		}
		defer st.Close()
	} else {
		st = merkle.NewMemHashStore()
	}
	// grow the tree and check, at every size n, the proofs for that size on the tree of exactly n
	// leaves; afterwards again on the full tree.
	t := merkle.NewTree(0, nil, st)
	for n := 1; n <= N; n++ {
		d.appendLeaf(t, n-1)
		for m := 0; m < n; m++ {
			pr, err := safeIncl(t, uint32(m), uint32(n))
			c.Eval()
			if err != nil || !eqHashes(pr, d.r.path(m, 0, n)) {
				c.Fail("incl:proof-ne-rfc", "InclusionProof on the tree of exactly n leaves differs from RFC 6962 PATH", probe{Kind: "incl", N: n, M: uint32(m), Size: uint32(n), Store: store}, fmt.Sprint(hexes(pr), err), nil)
			}
			cp, cerr := safeCons(t, uint32(m+1), uint32(n))
			c.Eval()
			if cerr != nil || !eqHashes(cp, d.r.proof(m+1, n)) {
				c.Fail("cons:proof-ne-rfc", "ConsistencyProof on the tree of exactly n leaves differs from RFC 6962 PROOF", probe{Kind: "cons", N: n, M: uint32(m + 1), Size: uint32(n), Store: store}, hexes(cp), nil)
			}
		}
		// unavailable sizes and bad parameters
		if _, err := safeIncl(t, uint32(n), uint32(n)); err == nil {
			c.Fail("incl:bad-params-accepted", "InclusionProof(m >= n) returned a proof", probe{Kind: "incl", N: n, M: uint32(n), Size: uint32(n)}, nil, nil)
		}
		if pr, err := safeIncl(t, 0, uint32(n+1)); err == nil || strings.HasPrefix(err.Error(), "panic") {
			c.Fail("incl:bad-params-accepted", "InclusionProof for a size not yet reached returned a proof (or crashed) instead of an error", probe{Kind: "incl", N: n, M: 0, Size: uint32(n + 1), Store: store}, fmt.Sprint(hexes(pr), err), "error: not available yet")
		}
		if pr, _ := safeCons(t, 1, uint32(n+1)); pr != nil {
			c.Fail("cons:bad-params-accepted", "ConsistencyProof for a size not yet reached returned a proof", probe{Kind: "cons", N: n, M: 1, Size: uint32(n + 1), Store: store}, hexes(pr), "nil")
		}
	}
	for n := 1; n <= N; n++ {
		for m := 0; m < n; m++ {
			emit := store == "mem" && (n <= nv || c.Intn(N*N/c.N(24, 80)+1) == 0)
			d.inclOne(t, N, m, n, emit, n <= 64 || c.Intn(16) == 0)
			emit = store == "mem" && (n <= nv || c.Intn(N*N/c.N(24, 80)+1) == 0)
			d.consOne(t, N, m+1, n, emit, n <= 64 || c.Intn(16) == 0)
		}
	}
	c.Count("proofs-check:" + store)
}

// genCases: the generators on a tree of n leaves against the model, exhaustively: every (m, k)
// including bad parameters, with a store and without.
func (d *drv) genCases(n int) {
	c := d.c
	r := d.r
	t := d.buildTree(n, merkle.NewMemHashStore())
	gres := func(pr []h256, err error, panicked bool) string {
		if panicked {
			return "GErr GStoreRead"
		}
		if err != nil {
			return "GErr " + gerr(err)
		}
		return "GOk " + r.hrefs(pr)
	}
	var incl, cons, mroot []string
	for k := 0; k <= n+1; k++ {
		for m := 0; m <= k+1 && m <= n; m++ {
			var pr []h256
			var err error
			p, _ := hx.Recover(func() { pr, err = t.InclusionProof(uint32(m), uint32(k)) })
			c.Eval()
			incl = append(incl, fmt.Sprintf("(%d, %d, %s)", m, k, gres(pr, err, p)))
			if m >= 1 {
				p, _ = hx.Recover(func() { pr = t.ConsistencyProof(uint32(m), uint32(k)) })
				c.Eval()
				cons = append(cons, fmt.Sprintf("(%d, %d, %s)", m, k, gres(pr, nil, p)))
			}
		}
		if k <= n {
			var h h256
			p, _ := hx.Recover(func() { h = t.VerifMerkleRoot(uint32(k)) })
			if p {
				mroot = append(mroot, fmt.Sprintf("(%d, GErr1 GFoldEmpty)", k))
			} else {
				mroot = append(mroot, fmt.Sprintf("(%d, GOk1 %s)", k, r.hrefP(h)))
			}
		}
	}
	c.Case(fmt.Sprintf("CGen %s true %s %s %s", hx.CoqNat(n), hx.CoqList(incl), hx.CoqList(cons), hx.CoqList(mroot)), probe{Kind: "gen", N: n})
	c.Count("gen-case:with-store")
	// without a store
	small := 9
	if small > n {
		small = n
	}
	t2 := d.buildTree(small, nil)
	incl, cons = nil, nil
	for k := 0; k <= small+1; k++ {
		for m := 0; m <= k+1; m++ {
			pr, err := t2.InclusionProof(uint32(m), uint32(k))
			incl = append(incl, fmt.Sprintf("(%d, %d, %s)", m, k, gres(pr, err, false)))
			cp := t2.ConsistencyProof(uint32(m), uint32(k))
			cons = append(cons, fmt.Sprintf("(%d, %d, %s)", m, k, gres(cp, nil, false)))
			if err == nil || cp != nil {
				c.Fail("gen:no-store", "a tree without a hash store produced a proof", probe{Kind: "gen", N: small}, nil, nil)
			}
		}
	}
	c.Case(fmt.Sprintf("CGen %s false %s %s []", hx.CoqNat(small), hx.CoqList(incl), hx.CoqList(cons)), probe{Kind: "gen", N: small})
	c.Count("gen-case:no-store")
}

// ---------- reload ----------

func readFileHashes(path string) []h256 {
	b, err := os.ReadFile(path)
	if err != nil {
		panic(err)
	}
	var out []h256
	for i := 0; i+32 <= len(b); i += 32 {
		var h h256
		copy(h[:], b[i:i+32])
		out = append(out, h)
	}
	return out
}

// reloadOne: file-backed tree with n leaves is persisted (Marshal = what the ledger stores under
// the tree key; the hash file), the file is optionally truncated by `trunc` hashes or extended
// by `extra` junk hashes (a file that ran ahead of the committed tree), reopened with tree size
// n, continued by `more` leaves.
func (d *drv) reloadOne(n, more, extra, trunc int, emit bool) {
	c := d.c
	r := d.r
	in := probe{Kind: "reload", N: n, More: more, Extra: extra, Trunc: trunc}
	path := d.filePath()
	st, err := merkle.NewFileHashStore(path, 0)
	if err != nil {
		panic(err)
	}
	t := d.buildTree(n, st)
	buf, _ := t.Marshal()
	hashesCopy := append([]h256(nil), t.Hashes()...)
	st.Close()
	fi, _ := os.Stat(path)
	if int(fi.Size()) != 32*storedNum(n) {
		c.Fail("store:layout", "hash file size is not 32*getStoredHashNum(n)", in, fi.Size(), 32*storedNum(n))
	}
	var extras []h256
	if trunc > 0 {
		if err := os.Truncate(path, fi.Size()-int64(32*trunc)); err != nil {
			panic(err)
		}
	}
	if extra > 0 {
		f, err := os.OpenFile(path, os.O_WRONLY|os.O_APPEND, 0o644)
		if err != nil {
			panic(err)
		}
		for i := 0; i < extra; i++ {
			h := junkHash(5000 + i)
			extras = append(extras, h)
			f.Write(h[:])
		}
		f.Close()
	}
	c.Eval()
	st2, err := merkle.NewFileHashStore(path, uint32(n))
	c.Count(fmt.Sprintf("reload:trunc=%v:extra=%v", trunc > 0, extra > 0))
	if err != nil {
		if trunc == 0 || trunc <= extra {
			c.Fail("reload:open-failed", "NewFileHashStore rejected a file that holds all stored hashes", in, err.Error(), "store")
		}
		if emit {
			c.Case(fmt.Sprintf("CReload %s %s %s %s None", hx.CoqNat(n), hx.CoqNat(more), r.hrefs(extras), hx.CoqNat(trunc)), in)
		}
		return
	}
	defer st2.Close()
	if trunc > extra {
		c.Fail("reload:short-file-accepted", "NewFileHashStore accepted a file shorter than getStoredHashNum(n) hashes", in, "store", "error")
		if emit {
			c.Case(fmt.Sprintf("CReload %s %s %s %s (Some (HE, [], [], []))", hx.CoqNat(n), hx.CoqNat(more), r.hrefs(extras), hx.CoqNat(trunc)), in)
		}
		return
	}
	var t2 *merkle.CompactMerkleTree
	if n%2 == 0 {
		t2 = merkle.NewTree(0, nil, st2)
		if err := t2.UnMarshal(buf); err != nil {
			c.Fail("reload:differs", "UnMarshal(Marshal(tree)) failed", in, err.Error(), nil)
			return
		}
	} else {
		t2 = merkle.NewTree(uint32(n), hashesCopy, st2)
	}
	if t2.Root() != r.mth(0, n) || t2.TreeSize() != uint32(n) || !eqHashes(t2.Hashes(), r.compact(n)) {
		c.Fail("reload:differs", "reloaded tree has a different root/size/hashes", in, hx.Hex(hashPtr(t2.Root())), hx.Hex(hashPtr(r.mth(0, n))))
	}
	check := func(t *merkle.CompactMerkleTree, size int, when string) {
		for k := 1; k <= size; k++ {
			for m := 0; m < k; m++ {
				pr, err := safeIncl(t, uint32(m), uint32(k))
				c.Eval()
				if err != nil || !eqHashes(pr, r.path(m, 0, k)) {
					q := in
					q.M, q.Size = uint32(m), uint32(k)
					c.Fail("reload:differs", "inclusion proof from the reloaded tree ("+when+") differs", q, hexes(pr), hexes(r.path(m, 0, k)))
				} else if err := d.ver.VerifyLeafHashInclusion(r.leaves[m], uint32(m), pr, r.mth(0, k), uint32(k)); err != nil {
					c.Fail("reload:differs", "inclusion proof from the reloaded tree ("+when+") does not verify", in, err.Error(), nil)
				}
				cp, cerr := safeCons(t, uint32(m+1), uint32(k))
				c.Eval()
				if cerr != nil || !eqHashes(cp, r.proof(m+1, k)) {
					q := in
					q.M, q.Size = uint32(m+1), uint32(k)
					c.Fail("reload:differs", "consistency proof from the reloaded tree ("+when+") differs", q, hexes(cp), hexes(r.proof(m+1, k)))
				}
			}
		}
	}
	// with trunc <= extra and trunc > 0 the file holds junk where stored hashes were: outside
	// the property (that is file corruption, C01); only used with trunc == 0 here.
	if trunc == 0 {
		check(t2, n, "before appending")
	}
	for i := n; i < n+more; i++ {
		d.appendLeaf(t2, i)
		if t2.Root() != r.mth(0, i+1) {
			c.Fail("reload:differs", "root after appending to the reloaded tree differs", in, nil, nil)
		}
	}
	if trunc == 0 {
		check(t2, n+more, "after appending")
	}
	file := readFileHashes(path)
	lay := r.layout(n + more)
	if trunc == 0 && (len(file) < len(lay) || !eqHashes(file[:len(lay)], lay)) {
		c.Fail("reload:differs", "hash file after reload+append is not the layout of the longer tree", in, len(file), len(lay))
	}
	c.Nontrivial(fmt.Sprintf("reload/%d/%d/%d/%d", n, more, extra, trunc))
	if emit && trunc == 0 {
		var proofs []string
		size := n + more
		for j := 0; j < 6 && size > 0; j++ {
			k := 1 + c.Intn(size)
			m := c.Intn(k)
			pr, err := safeIncl(t2, uint32(m), uint32(k))
			g := "GOk " + r.hrefs(pr)
			if err != nil {
				g = "GErr " + gerr(err)
			}
			proofs = append(proofs, fmt.Sprintf("(%d, %d, %s)", m, k, g))
		}
		c.Case(fmt.Sprintf("CReload %s %s %s %s (Some (%s, %s, %s, %s))", hx.CoqNat(n), hx.CoqNat(more), r.hrefs(extras), hx.CoqNat(trunc),
			r.href2(t2.Root()), r.hrefs(t2.Hashes()), r.hrefs(file), hx.CoqList(proofs)), in)
	}
}

func (r *ref) href2(h h256) string { return r.href(h) }

func (d *drv) reloadChecks() {
	c := d.c
	top := c.N(24, 48)
	for n := 0; n <= top; n++ {
		more := c.Intn(9)
		d.reloadOne(n, more, 0, 0, n <= 12 || n%5 == 0)
	}
	for i := 0; i < c.N(10, 30); i++ {
		n := 1 + c.Intn(top)
		d.reloadOne(n, c.Intn(12), 1+c.Intn(6), 0, true) // file ran ahead: junk beyond the committed size
	}
	for i := 0; i < c.N(6, 16); i++ {
		n := 1 + c.Intn(top)
		d.reloadOne(n, 2, 0, 1+c.Intn(storedNum(n)), true) // short file: must be refused
	}
}

// ---------- arbitrary verifier inputs ----------

func (d *drv) rawVerifier(count int) {
	c := d.c
	r := d.r
	pick := func() h256 {
		switch c.Intn(4) {
		case 0:
			return junkHash(c.Intn(5))
		case 1:
			return r.empty
		default:
			a := c.Intn(d.maxN)
			b := a + 1 + c.Intn(d.maxN-a)
			return r.mth(a, b)
		}
	}
	size := func() uint32 {
		switch c.Intn(4) {
		case 0:
			return uint32(c.U64Boundary())
		case 1:
			return uint32(c.Intn(6))
		default:
			return uint32(c.Intn(d.maxN + 4))
		}
	}
	for i := 0; i < count; i++ {
		var proof []h256
		for k := c.Intn(10) * c.Intn(5); k > 0; k-- {
			proof = append(proof, pick())
		}
		if i%2 == 0 {
			in := probe{Kind: "raw-incl", Mut: "raw"}
			d.vi(in, pick(), size(), proof, pick(), size(), 0, true)
		} else {
			in := probe{Kind: "raw-cons", Mut: "raw"}
			d.vc(in, size(), size(), pick(), pick(), proof, 0, true)
		}
	}
}

// edgeNotes records behaviour outside the property's quantifier that a reader should know.
func (d *drv) edgeNotes() {
	c := d.c
	t := d.buildTree(5, merkle.NewMemHashStore())
	p, msg := hx.Recover(func() { t.ConsistencyProof(0, 3) })
	if p {
		c.Note("observation (outside the property: RFC 6962 defines consistency proofs for 0 < m): ConsistencyProof(0, n) on a memory hash store panics (" + msg + "); on a file store it returns [EMPTY_HASH]; VerifyConsistency(0, n, hash_empty, root, anything) accepts")
	}
}
