// Package c26: the block-root merkle tree (merkle.CompactMerkleTree, TreeHasher, HashStore,
// MerkleVerifier).
//
// Oracle (directly on the implementation, independent RFC-6962 reference in ref.go): for every
// tree size up to the bound the incrementally maintained root equals the reference root and
// HashFullTree; every (leaf, size) inclusion proof and every (m, n) consistency proof equals the
// RFC proof and verifies; every single alteration of leaf, index, root, proof element, proof
// length, and every size alteration that changes the path shape, is rejected; the hash store has
// the post-order layout; a tree reloaded from its persisted (size, hashes) and hash file gives the
// same roots and proofs and continues identically.
//
// Correspondence: the same runs rendered as Corr.C26 cases (see coq/Corr/C26.v for the encoding).
package c26

import (
	"fmt"
	"math/bits"
	"os"
	"path/filepath"
	"strings"

	"github.com/ontio/ontology/merkle"

	"verif/harness/hx"
)

func init() {
	registerGen()
	hx.Register("C26", Run)
}

// probe is the replayable description of one check.
type probe struct {
	Kind  string `json:"kind"`            // build | incl | cons | gen | reload | pos | f8 | raw-incl | raw-cons
	N     int    `json:"n,omitempty"`     // leaves in the tree the proof is generated from
	M     uint32 `json:"m"`               // leaf index (incl) / old size (cons)
	Size  uint32 `json:"size"`            // tree size the proof is for
	Mut   string `json:"mut,omitempty"`   // mutation kind
	K     int    `json:"k,omitempty"`     // element index of the mutation
	V     uint32 `json:"v,omitempty"`     // altered index / size
	Store string `json:"store,omitempty"` // mem | file
	Extra int    `json:"extra,omitempty"` // reload: junk hashes appended to the file
	Trunc int    `json:"trunc,omitempty"` // reload: hashes cut from the file
	More  int    `json:"more,omitempty"`  // reload: leaves appended after reopening
}

type drv struct {
	c     *hx.Ctx
	r     *ref
	maxN  int
	dir   string
	ver   *merkle.MerkleVerifier
	nfile int
}

func vres(err error) string {
	if err == nil {
		return "VOk"
	}
	s := err.Error()
	switch {
	case strings.HasPrefix(s, "Wrong params"):
		return "VWrongParams"
	case strings.HasPrefix(s, "Proof too short"):
		return "VTooShort"
	case strings.HasPrefix(s, "Proof too long"):
		return "VTooLong"
	case strings.HasPrefix(s, "Constructed root hash differs"):
		return "VRootMismatch"
	case strings.HasPrefix(s, "Older tree has bigger size"):
		return "VOlderBigger"
	case strings.HasPrefix(s, "Inconsistency: different root hashes for the same tree size"):
		return "VSameSizeRoots"
	case strings.HasPrefix(s, "Inconsistency: first root hash is not the empty tree hash"):
		return "VEmptyOldRoot"
	case strings.HasPrefix(s, "Wrong proof length"):
		return "VWrongLength"
	case strings.HasPrefix(s, "Bad Merkle proof: second root hash does not match"):
		return "VNewRootMismatch"
	case strings.HasPrefix(s, "Inconsistency: first root hash does not match"):
		return "VOldRootMismatch"
	}
	return "VUnknown_" + strings.Map(func(r rune) rune {
		if r >= 'a' && r <= 'z' || r >= 'A' && r <= 'Z' {
			return r
		}
		return '_'
	}, s)
}

func gerr(err error) string {
	s := err.Error()
	switch s {
	case "wrong parameters":
		return "GWrongParams"
	case "not available yet":
		return "GNotAvailable"
	case "hash store not available":
		return "GNoStore"
	}
	return "GUnknown"
}

// buildTree appends leaves 0..n-1, alternating Append(data) and AppendHash(hash_leaf(data)).
func (d *drv) appendLeaf(t *merkle.CompactMerkleTree, i int) []h256 {
	d.c.Eval()
	if i%2 == 0 {
		return t.Append(leafData(i))
	}
	return t.AppendHash(d.r.leaves[i])
}

func (d *drv) buildTree(n int, store merkle.HashStore) *merkle.CompactMerkleTree {
	t := merkle.NewTree(0, nil, store)
	for i := 0; i < n; i++ {
		d.appendLeaf(t, i)
	}
	return t
}

func (d *drv) filePath() string {
	d.nfile++
	return filepath.Join(d.dir, fmt.Sprintf("hashes-%d.db", d.nfile))
}

func storedNum(n int) int { return 2*n - bits.OnesCount(uint(n)) }

func Run(c *hx.Ctx) {
	c.CoqModule("Corr.C26")
	d := &drv{c: c, ver: merkle.NewMerkleVerifier()}
	d.dir = filepath.Join(c.OutDir, "c26-files")
	if err := os.MkdirAll(d.dir, 0o755); err != nil {
		panic(err)
	}
	defer os.RemoveAll(d.dir)
	d.maxN = c.N(64, 300)

	var in probe
	if c.ReplayInput(&in) {
		n := in.N
		if int(in.Size) > n {
			n = int(in.Size)
		}
		if n < 8 {
			n = 8
		}
		if n > 2000 {
			n = 2000
		}
		d.maxN = n
		d.r = newRef(n + 8 + in.More)
		d.r.fillDict()
		d.replay(in)
		return
	}

	d.r = newRef(d.maxN + 8)
	d.r.fillDict()

	// corpus first (old defect witnesses, minimized failures)
	for _, raw := range c.CorpusInputs() {
		var p probe
		if jsonUnmarshal(raw, &p) == nil && p.N <= d.maxN && int(p.Size) <= d.maxN+8 {
			c.Count("corpus")
			d.replay(p)
		}
	}

	d.hasherCases()
	d.posCases()
	d.f8()
	d.buildCheck(d.maxN, c.N(64, 160))
	d.proofsCheck(d.maxN, "mem")
	d.proofsCheck(c.N(33, 70), "file")
	d.genCases(c.N(48, 100))
	d.reloadChecks()
	d.rawVerifier(c.N(150, 1500))
	d.edgeNotes()
}

func (d *drv) replay(p probe) {
	switch p.Kind {
	case "incl":
		t := d.treeFor(p.N, p.Store)
		d.inclOne(t, p.N, int(p.M), int(p.Size), true, true)
	case "cons":
		t := d.treeFor(p.N, p.Store)
		d.consOne(t, p.N, int(p.M), int(p.Size), true, true)
	case "build":
		d.buildCheck(p.N, p.N)
	case "gen":
		d.genCases(p.N)
	case "reload":
		d.reloadOne(p.N, p.More, p.Extra, p.Trunc, true)
	case "pos":
		d.posOne(p.V, true)
	case "f8":
		d.f8()
	default:
		d.f8()
		d.buildCheck(d.maxN, d.maxN)
		d.proofsCheck(d.maxN, "mem")
	}
}

func (d *drv) treeFor(n int, store string) *merkle.CompactMerkleTree {
	if store == "file" {
		st, err := merkle.NewFileHashStore(d.filePath(), 0)
		if err != nil {
			panic(err)
		}
		return d.buildTree(n, st)
	}
	return d.buildTree(n, merkle.NewMemHashStore())
}

// ---------- hasher ----------

func (d *drv) hasherCases() {
	c := d.c
	e := merkle.VerifHashEmpty()
	c.Case(fmt.Sprintf("CHash 2 [] [] %s", hx.CoqBytes(e[:])), probe{Kind: "hash"})
	for _, data := range [][]byte{nil, []byte("abc"), leafData(40), c.Bytes(60), c.Bytes(130)} {
		h := merkle.VerifHashLeaf(data)
		c.Eval()
		if h != refLeafHash(data) || h != merkle.HashLeaf(data) {
			c.Fail("hasher:leaf", "hash_leaf is not SHA-256(0x00 || data)", map[string]interface{}{"kind": "hash", "data": hx.Hex(data)}, hx.Hex(h[:]), nil)
		}
		c.Case(fmt.Sprintf("CHash 0 %s [] %s", hx.CoqBytes(data), hx.CoqBytes(h[:])), probe{Kind: "hash"})
	}
	for i := 0; i < 3; i++ {
		var l, r h256
		copy(l[:], c.Bytes(32))
		copy(r[:], c.Bytes(32))
		if i == 0 {
			l, r = h256{}, h256{}
		}
		h := merkle.VerifHashChildren(l, r)
		c.Eval()
		if h != refNode(l, r) || h != merkle.HashChildren(l, r) {
			c.Fail("hasher:children", "hash_children is not SHA-256(0x01 || l || r)", map[string]interface{}{"kind": "hash"}, hx.Hex(h[:]), nil)
		}
		c.Case(fmt.Sprintf("CHash 1 %s %s %s", hx.CoqBytes(l[:]), hx.CoqBytes(r[:]), hx.CoqBytes(h[:])), probe{Kind: "hash"})
	}
	// a small tree end to end with the real hasher: Append(data), Root() after each append
	n := 5
	t := merkle.NewTree(0, nil, merkle.NewMemHashStore())
	var ls, roots []string
	for i := 0; i < n; i++ {
		t.Append(leafData(i))
		c.Eval()
		rt := t.Root()
		ls = append(ls, hx.CoqBytes(leafData(i)))
		roots = append(roots, hx.CoqBytes(rt[:]))
	}
	c.Case(fmt.Sprintf("CShaTree %s %s", hx.CoqList(ls), hx.CoqList(roots)), probe{Kind: "hash"})
	c.Count("hasher-cases")
}

// ---------- store positions ----------

func u32s(v []uint32) string {
	var s []string
	for _, x := range v {
		s = append(s, fmt.Sprint(x))
	}
	return hx.CoqList(s)
}

func (d *drv) posOne(n uint32, emit bool) {
	c := d.c
	c.Eval()
	pos := merkle.VerifGetSubTreePos(n)
	sz := merkle.VerifGetSubTreeSize(n)
	num := merkle.VerifGetStoredHashNum(n)
	cb := merkle.VerifCountBit(n)
	hb := merkle.VerifHighBit(n)
	if n < 1<<31 {
		// oracle: position of the root of each perfect subtree, in post-order, 1-based
		var want []uint32
		acc := uint64(0)
		for bit := 31; bit >= 0; bit-- {
			if n&(1<<uint(bit)) != 0 {
				acc += 2<<uint(bit) - 1
				want = append(want, uint32(acc))
			}
		}
		ok := len(want) == len(pos) && uint64(num) == 2*uint64(n)-uint64(bits.OnesCount32(n))
		for i := range want {
			ok = ok && want[i] == pos[i]
		}
		if !ok {
			c.Fail("store:positions", "getSubTreePos/getStoredHashNum differ from the post-order layout", probe{Kind: "pos", V: n},
				map[string]interface{}{"pos": pos, "num": num}, map[string]interface{}{"pos": want})
		}
	}
	if emit {
		c.Case(fmt.Sprintf("CPos %d %s %s %d %s %d", n, u32s(pos), u32s(sz), num, hx.CoqNat(int(cb)), hb), probe{Kind: "pos", V: n})
	}
}

func (d *drv) posCases() {
	c := d.c
	for n := 0; n <= d.maxN+8; n++ {
		d.posOne(uint32(n), n <= 40 || n%7 == 0)
	}
	for _, n := range []uint32{1<<16 - 1, 1 << 16, 1<<31 - 1, 1 << 31, 1<<31 + 1, 1<<32 - 1, 1<<32 - 2, 0xAAAAAAAA, 0x55555555} {
		d.posOne(n, true)
	}
	for i := 0; i < 30; i++ {
		d.posOne(uint32(c.U64Boundary()), true)
	}
	// NewTree panics unless len(hashes) == countBit(size)
	for i := 0; i < 12; i++ {
		size := uint32(c.Intn(70))
		nh := bits.OnesCount32(size)
		if i%2 == 1 {
			nh = c.Intn(5)
		}
		p, _ := hx.Recover(func() { merkle.NewTree(size, make([]h256, nh), nil) })
		c.Eval()
		c.Case(fmt.Sprintf("CNewTree %d %s %s", size, hx.CoqNat(nh), hx.CoqBool(!p)), probe{Kind: "newtree", V: size, K: nh})
	}
	c.Count("pos-cases")
}

// ---------- F8 witnesses (VerifyConsistency early returns; repaired in /repo) ----------

func (d *drv) f8() {
	c := d.c
	r := d.r
	root5 := r.mth(0, 5)
	garbage := junkHash(77)
	c.Eval()
	if err := d.ver.VerifyConsistency(3, 5, root5, root5, nil); err == nil {
		c.Fail("cons:equal-roots-accepted", "VerifyConsistency(3,5,root5,root5,nil) accepted: an old root equal to the new root with different sizes",
			probe{Kind: "f8"}, "nil", "error")
	} else {
		c.Case(fmt.Sprintf("CVerCons 3 5 %s %s [] %s", r.hrefP(root5), r.hrefP(root5), vres(err)), probe{Kind: "f8"})
	}
	c.Eval()
	if err := d.ver.VerifyConsistency(0, 5, garbage, root5, nil); err == nil {
		c.Fail("cons:empty-old-any-root-accepted", "VerifyConsistency(0,5,garbage,root5,nil) accepted: any root for the empty old tree",
			probe{Kind: "f8"}, "nil", "error")
	} else {
		c.Case(fmt.Sprintf("CVerCons 0 5 %s %s [] %s", r.hrefP(garbage), r.hrefP(root5), vres(err)), probe{Kind: "f8"})
	}
	// the legitimate uses of the two early returns still verify
	if err := d.ver.VerifyConsistency(0, 5, r.empty, root5, nil); err != nil {
		c.Fail("cons:valid-rejected", "empty old tree with the empty-tree root rejected", probe{Kind: "f8"}, err.Error(), "nil")
	}
	if err := d.ver.VerifyConsistency(5, 5, root5, root5, nil); err != nil {
		c.Fail("cons:valid-rejected", "equal sizes, equal roots, empty proof rejected", probe{Kind: "f8"}, err.Error(), "nil")
	}
	c.Case(fmt.Sprintf("CVerCons 0 5 HE %s [] VOk", r.hrefP(root5)), probe{Kind: "f8"})
	c.Case(fmt.Sprintf("CVerCons 5 5 %s %s [] VOk", r.hrefP(root5), r.hrefP(root5)), probe{Kind: "f8"})
	c.Count("f8-witnesses")
}

// ---------- incremental build ----------

func (d *drv) buildCheck(n, coqN int) {
	c := d.c
	r := d.r
	st := merkle.NewMemHashStore()
	t := merkle.NewTree(0, nil, st)
	if t.Root() != r.empty {
		c.Fail("root:incremental-ne-full", "root of the empty tree is not hash_empty", probe{Kind: "build", N: 0}, nil, nil)
	}
	var steps []string
	hasher := merkle.TreeHasher{}
	for i := 0; i < n; i++ {
		old := append([]h256(nil), t.Hashes()...)
		audit := d.appendLeaf(t, i)
		size := i + 1
		in := probe{Kind: "build", N: size}
		root := t.Root()
		if root != r.mth(0, size) {
			c.Fail("root:incremental-ne-full", "Root() after appending differs from MTH of all leaves", in, hx.Hex(root[:]), hx.Hex(hashPtr(r.mth(0, size))))
		}
		if full := hasher.HashFullTreeWithLeafHash(r.leaves[:size]); full != root {
			c.Fail("root:incremental-ne-full", "Root() differs from HashFullTreeWithLeafHash", in, hx.Hex(root[:]), hx.Hex(full[:]))
		}
		if t.TreeSize() != uint32(size) || !eqHashes(t.Hashes(), r.compact(size)) {
			c.Fail("root:compact-hashes", "Hashes() are not the roots of the perfect subtrees", in, hexes(t.Hashes()), hexes(r.compact(size)))
		}
		// returned audit path = old hashes reversed
		rev := make([]h256, len(old))
		for k := range old {
			rev[len(old)-1-k] = old[k]
		}
		if !eqHashes(audit, rev) {
			c.Fail("root:append-audit", "AppendHash return value is not the previous compact hashes reversed", in, hexes(audit), hexes(rev))
		}
		new1 := t.GetRootWithNewLeaf(r.leaves[size])
		if new1 != r.mth(0, size+1) {
			c.Fail("root:with-new-leaf", "GetRootWithNewLeaf differs from the root after appending", in, hx.Hex(new1[:]), nil)
		}
		k := size % 5
		newk := t.GetRootWithNewLeaves(r.leaves[size : size+k])
		if newk != r.mth(0, size+k) {
			c.Fail("root:with-new-leaves", "GetRootWithNewLeaves differs from the root after appending", in, hx.Hex(newk[:]), nil)
		}
		if t.Root() != root || t.TreeSize() != uint32(size) {
			c.Fail("root:with-new-leaves", "GetRootWithNewLeaf(s) changed the tree", in, nil, nil)
		}
		// store layout
		if got := merkle.VerifGetStoredHashNum(uint32(size)); int(got) != storedNum(size) {
			c.Fail("store:positions", "getStoredHashNum", in, got, storedNum(size))
		}
		if mr := t.VerifMerkleRoot(uint32(size)); mr != root {
			c.Fail("store:layout", "merkleRoot(n) recomputed from the store differs from Root()", in, hx.Hex(mr[:]), hx.Hex(root[:]))
		}
		c.Count(fmt.Sprintf("build:size<=%d", bucket(size)))
		c.Nontrivial(fmt.Sprintf("build/%d", size))
		if size <= coqN {
			steps = append(steps, fmt.Sprintf("mk_step %s %s %s %s %s %s", r.hrefs(t.Hashes()), r.hrefP(root), r.hrefs(audit),
				r.hrefP(new1), hx.CoqNat(k), r.hrefP(newk)))
		}
	}
	want := r.layout(n)
	var got []h256
	p, msg := hx.Recover(func() {
		for i := range want {
			h, _ := st.GetHash(uint32(i))
			got = append(got, h)
		}
	})
	if p || !eqHashes(got, want) {
		c.Fail("store:layout", "hash store content is not the post-order layout of the complete subtrees", probe{Kind: "build", N: n}, msg, nil)
	}
	if coqN > n {
		coqN = n
	}
	c.Case(fmt.Sprintf("CBuild %s %s %s", hx.CoqNat(coqN), hx.CoqList(steps), r.hrefs(r.layoutOf(got, storedNum(coqN)))), probe{Kind: "build", N: coqN})
	c.Sample(map[string]interface{}{"kind": "build", "leaves": n, "root": hx.Hex(hashPtr(t.Root()))})
	// HashFullTree on its own
	for _, k := range []int{0, 1, 2, 3, 5, 8, 13, 31, 32, 33} {
		if k <= n {
			h := hasher.HashFullTreeWithLeafHash(r.leaves[:k])
			c.Case(fmt.Sprintf("CFull %s %s", hx.CoqNat(k), r.hrefP(h)), probe{Kind: "build", N: k})
		}
	}
}

func (r *ref) layoutOf(got []h256, n int) []h256 {
	if n > len(got) {
		n = len(got)
	}
	return got[:n]
}

func hashPtr(h h256) []byte { return h[:] }

func bucket(n int) int {
	for _, b := range []int{1, 2, 4, 8, 16, 32, 64, 128, 256, 512} {
		if n <= b {
			return b
		}
	}
	return 1 << 20
}
