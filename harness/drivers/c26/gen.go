package c26

// Gen/MerkleConsts.v: what the hasher and the store layout are in the source right now.
// Prefix bytes are read from the AST of TreeHasher.hash_leaf / hash_children (the first
// argument of their first append call must be a one-element []byte literal); everything else is
// obtained by calling the linked package.

import (
	"fmt"
	"go/ast"
	"go/parser"
	"go/token"
	"path/filepath"
	"strconv"
	"strings"

	"github.com/ontio/ontology/common"
	"github.com/ontio/ontology/merkle"

	"verif/harness/gen"
	"verif/harness/hx"
)

const genTableN = 130

func prefixByte(f *ast.File, method string) (int64, error) {
	for _, d := range f.Decls {
		fd, ok := d.(*ast.FuncDecl)
		if !ok || fd.Name.Name != method || fd.Recv == nil || fd.Body == nil {
			continue
		}
		var found *ast.CallExpr
		ast.Inspect(fd.Body, func(n ast.Node) bool {
			if ce, ok := n.(*ast.CallExpr); ok && found == nil {
				if id, ok := ce.Fun.(*ast.Ident); ok && id.Name == "append" {
					found = ce
				}
			}
			return true
		})
		if found == nil || len(found.Args) < 1 {
			return 0, fmt.Errorf("%s: no append call", method)
		}
		cl, ok := found.Args[0].(*ast.CompositeLit)
		if !ok || len(cl.Elts) != 1 {
			return 0, fmt.Errorf("%s: first append argument is not a one-element composite literal", method)
		}
		at, ok := cl.Type.(*ast.ArrayType)
		if !ok || at.Len != nil {
			return 0, fmt.Errorf("%s: literal is not a slice", method)
		}
		if id, ok := at.Elt.(*ast.Ident); !ok || id.Name != "byte" {
			return 0, fmt.Errorf("%s: literal is not []byte", method)
		}
		bl, ok := cl.Elts[0].(*ast.BasicLit)
		if !ok || bl.Kind != token.INT {
			return 0, fmt.Errorf("%s: prefix is not an integer literal", method)
		}
		return strconv.ParseInt(bl.Value, 0, 64)
	}
	return 0, fmt.Errorf("method %s not found", method)
}

func nlist(v []uint32) string {
	var s []string
	for _, x := range v {
		s = append(s, fmt.Sprintf("%d%%N", x))
	}
	return "[" + strings.Join(s, "; ") + "]"
}

func registerGen() {
	gen.RegisterFile("MerkleConsts.v", func(repo string) ([]byte, []string) {
		var errs []string
		fset := token.NewFileSet()
		f, err := parser.ParseFile(fset, filepath.Join(repo, "merkle", "merkle_hasher.go"), nil, 0)
		var lp, np int64 = -1, -1
		if err != nil {
			errs = append(errs, err.Error())
		} else {
			if lp, err = prefixByte(f, "hash_leaf"); err != nil {
				errs = append(errs, err.Error())
			}
			if np, err = prefixByte(f, "hash_children"); err != nil {
				errs = append(errs, err.Error())
			}
		}
		e := merkle.VerifHashEmpty()
		z := merkle.VerifHashChildren(common.Uint256{}, common.Uint256{})
		l := merkle.VerifHashLeaf([]byte("abc"))
		var pos, num []string
		for n := 0; n <= genTableN; n++ {
			pos = append(pos, nlist(merkle.VerifGetSubTreePos(uint32(n))))
			num = append(num, fmt.Sprintf("%d%%N", merkle.VerifGetStoredHashNum(uint32(n))))
		}
		cs := []gen.Const{
			{Name: "gen_leaf_prefix", Type: "N", Value: fmt.Sprintf("%d%%N", lp), Comment: "TreeHasher.hash_leaf: append([]byte{<this>}, data...)"},
			{Name: "gen_node_prefix", Type: "N", Value: fmt.Sprintf("%d%%N", np), Comment: "TreeHasher.hash_children: append([]byte{<this>}, left[:]...)"},
			{Name: "gen_uint256_size", Type: "nat", Value: fmt.Sprintf("%d%%nat", common.UINT256_SIZE), Comment: "common.UINT256_SIZE"},
			{Name: "gen_hash_empty", Type: "list N", Value: "(" + hx.CoqBytes(e[:]) + ")%N", Comment: "TreeHasher{}.hash_empty()"},
			{Name: "gen_hash_children_zero", Type: "list N", Value: "(" + hx.CoqBytes(z[:]) + ")%N", Comment: "TreeHasher{}.hash_children(EMPTY_HASH, EMPTY_HASH)"},
			{Name: "gen_hash_leaf_abc", Type: "list N", Value: "(" + hx.CoqBytes(l[:]) + ")%N", Comment: "TreeHasher{}.hash_leaf(\"abc\")"},
			{Name: "gen_table_n", Type: "nat", Value: fmt.Sprintf("%d%%nat", genTableN), Comment: "tables below cover tree sizes 0..gen_table_n"},
			{Name: "gen_sub_tree_pos", Type: "list (list N)", Value: "[" + strings.Join(pos, ";\n  ") + "]", Comment: "getSubTreePos(n) for n = 0..gen_table_n"},
			{Name: "gen_stored_hash_num", Type: "list N", Value: "[" + strings.Join(num, "; ") + "]", Comment: "getStoredHashNum(n) for n = 0..gen_table_n"},
		}
		return gen.EmitConsts("", cs), errs
	})
}
