package c26

// Independent reference for RFC 6962 (§2.1): tree hash, audit path, consistency proof, the
// post-order store layout and the "shape" of a verification (which decides whether a size change
// can be detected at all). Uses crypto/sha256 directly; nothing here calls the merkle package.

import (
	"crypto/sha256"
	"encoding/binary"
	"fmt"
	"math/bits"

	"github.com/ontio/ontology/common"
)

type h256 = common.Uint256

// leafData is a fixed function of the leaf index, so that a replay file needs only indices.
func leafData(i int) []byte {
	var b [8]byte
	binary.LittleEndian.PutUint64(b[:], uint64(i))
	s := sha256.Sum256(append([]byte("c26-leaf-"), b[:]...))
	return append([]byte(nil), s[:1+i%31]...)
}

func refLeafHash(data []byte) h256 { return sha256.Sum256(append([]byte{0}, data...)) }
func refNode(l, r h256) h256 {
	d := append([]byte{1}, l[:]...)
	d = append(d, r[:]...)
	return sha256.Sum256(d)
}

type ref struct {
	n      int
	leaves []h256
	memo   map[[2]int]h256
	dict   map[h256][2]int
	empty  h256
	junk   map[h256]int
}

func newRef(n int) *ref {
	r := &ref{n: n, memo: map[[2]int]h256{}, dict: map[h256][2]int{}, junk: map[h256]int{}}
	r.empty = sha256.Sum256(nil)
	for i := 0; i < n; i++ {
		r.leaves = append(r.leaves, refLeafHash(leafData(i)))
	}
	return r
}

// split: largest power of two strictly smaller than n (n >= 2)
func split(n int) int { return 1 << (bits.Len(uint(n-1)) - 1) }

// mth(a,b) = MTH(D[a:b])
func (r *ref) mth(a, b int) h256 {
	if a >= b {
		return r.empty
	}
	if b-a == 1 {
		return r.leaves[a]
	}
	k := [2]int{a, b}
	if v, ok := r.memo[k]; ok {
		return v
	}
	s := split(b - a)
	v := refNode(r.mth(a, a+s), r.mth(a+s, b))
	r.memo[k] = v
	return v
}

// fillDict registers every range hash so that implementation outputs can be named.
func (r *ref) fillDict() {
	for a := 0; a < r.n; a++ {
		for b := a + 1; b <= r.n; b++ {
			h := r.mth(a, b)
			if _, ok := r.dict[h]; !ok {
				r.dict[h] = [2]int{a, b}
			}
		}
	}
}

// PATH(m, D[a:b]) with m relative to a
func (r *ref) path(m, a, b int) []h256 {
	if b-a <= 1 {
		return nil
	}
	k := split(b - a)
	if m < k {
		return append(r.path(m, a, a+k), r.mth(a+k, b))
	}
	return append(r.path(m-k, a+k, b), r.mth(a, a+k))
}

// SUBPROOF(m, D[a:b], flag)
func (r *ref) subproof(m, a, b int, flag bool) []h256 {
	if m == b-a {
		if flag {
			return nil
		}
		return []h256{r.mth(a, b)}
	}
	k := split(b - a)
	if m <= k {
		return append(r.subproof(m, a, a+k, flag), r.mth(a+k, b))
	}
	return append(r.subproof(m-k, a+k, b, false), r.mth(a, a+k))
}

func (r *ref) proof(m, n int) []h256 { return r.subproof(m, 0, n, true) }

// layout(n): the hash store after n appends = post-order of all complete subtrees.
func (r *ref) layout(n int) []h256 {
	var out []h256
	for i := 0; i < n; i++ {
		out = append(out, r.leaves[i])
		w := 1
		for s := i; s%2 == 1; s >>= 1 {
			w *= 2
			out = append(out, r.mth(i+1-w, i+1))
		}
	}
	return out
}

// compact(n): roots of the perfect subtrees of D[0:n], largest first.
func (r *ref) compact(n int) []h256 {
	var out []h256
	a := 0
	for bit := 31; bit >= 0; bit-- {
		if n&(1<<uint(bit)) != 0 {
			out = append(out, r.mth(a, a+(1<<uint(bit))))
			a += 1 << uint(bit)
		}
	}
	return out
}

// inclShape: the sequence of sides on which an audit path element is combined for (idx, size);
// two (idx,size) pairs with the same shape compute the same function of (leaf, path), so no
// verifier can tell them apart from the root alone.
func inclShape(idx, size uint64) string {
	if size == 0 || idx >= size {
		return "invalid"
	}
	s := ""
	last := size - 1
	for last > 0 {
		if idx%2 == 1 {
			s += "L"
		} else if idx < last {
			s += "R"
		}
		idx /= 2
		last /= 2
	}
	return s
}

// consShape: same for consistency verification of (m, n), 0 < m < n.
func consShape(m, n uint64) string {
	if m == 0 || m > n {
		return "invalid"
	}
	if m == n {
		return "same"
	}
	node, last := m-1, n-1
	for node%2 == 1 {
		node /= 2
		last /= 2
	}
	s := "P"
	if node == 0 {
		s = "O"
	}
	for node != 0 {
		if node%2 == 1 {
			s += "B"
		} else if node < last {
			s += "N"
		}
		node /= 2
		last /= 2
	}
	for last != 0 {
		s += "U"
		last /= 2
	}
	return s
}

// ---------- rendering hashes as Corr.C26 hrefs ----------

func (r *ref) href(h h256) string {
	if h == r.empty {
		return "HE"
	}
	if h == (h256{}) {
		return "HZ"
	}
	if ab, ok := r.dict[h]; ok {
		return fmt.Sprintf("HR %d %d", ab[0], ab[1])
	}
	k, ok := r.junk[h]
	if !ok {
		k = len(r.junk)
		r.junk[h] = k
	}
	return fmt.Sprintf("HJ %d", k)
}

func (r *ref) hrefP(h h256) string { return "(" + r.href(h) + ")" }

func (r *ref) hrefs(hs []h256) string {
	s := "["
	for i, h := range hs {
		if i > 0 {
			s += "; "
		}
		s += r.href(h)
	}
	return s + "]"
}

func eqHashes(a, b []h256) bool {
	if len(a) != len(b) {
		return false
	}
	for i := range a {
		if a[i] != b[i] {
			return false
		}
	}
	return true
}

func hexes(hs []h256) []string {
	var out []string
	for _, h := range hs {
		out = append(out, fmt.Sprintf("%x", h[:4]))
	}
	return out
}

// junkHash returns a hash that is not in the dictionary: the k-th junk value.
func junkHash(k int) h256 {
	var b [8]byte
	binary.LittleEndian.PutUint64(b[:], uint64(k))
	return sha256.Sum256(append([]byte("c26-junk-"), b[:]...))
}

// flip returns h with one bit flipped.
func flip(h h256, bit int) h256 {
	h[(bit/8)%32] ^= 1 << uint(bit%8)
	return h
}
