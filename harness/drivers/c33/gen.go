package c33

import (
	"verif/harness/gen"
)

// Sites are the integer expressions of the anchored code the theorems depend on: the two sides of
// the 2/3 comparison and the signature count handed to VerifyMultiSignature in
// header_sync.VerifyHeader, and the length test and outer loop bound of
// signature.VerifyMultiSignature.  They are regenerated into coq/Gen/CrossHeader.v on every run;
// Model/CrossHeader.v uses them, so the theorems are re-proved against the source as it is now.
// The comparison operator itself is part of the locator (cmp:<): a changed operator breaks the tie.
var Sites = []gen.Site{
	{Name: "vh_count_lhs", File: "smartcontract/service/native/cross_chain/header_sync/utils.go", Func: "VerifyHeader", Loc: "cmp:<:lhs",
		Subst: map[string]string{"len(header.Bookkeepers)": "nb"}, Vars: []string{"nb"}},
	{Name: "vh_count_rhs", File: "smartcontract/service/native/cross_chain/header_sync/utils.go", Func: "VerifyHeader", Loc: "cmp:<:rhs",
		Subst: map[string]string{"len(consensusPeer.PeerMap)": "np"}, Vars: []string{"np"}},
	{Name: "vh_multisig_m", File: "smartcontract/service/native/cross_chain/header_sync/utils.go", Func: "VerifyHeader", Loc: "callarg:VerifyMultiSignature:2",
		Subst: map[string]string{"len(header.Bookkeepers)": "nb"}, Vars: []string{"nb"}},
	{Name: "ms_sigs_have", File: "core/signature/signature.go", Func: "VerifyMultiSignature", Loc: "cmp:<:lhs#0",
		Subst: map[string]string{"len(sigs)": "ns"}, Vars: []string{"ns"}},
	{Name: "ms_sigs_need", File: "core/signature/signature.go", Func: "VerifyMultiSignature", Loc: "cmp:<:rhs#0",
		Subst: map[string]string{"m": "m"}, Vars: []string{"m"}},
	{Name: "ms_outer_bound", File: "core/signature/signature.go", Func: "VerifyMultiSignature", Loc: "cmp:<:rhs#1",
		Subst: map[string]string{"m": "m"}, Vars: []string{"m"}},
	{Name: "ms_inner_bound", File: "core/signature/signature.go", Func: "VerifyMultiSignature", Loc: "cmp:<:rhs#2",
		Subst: map[string]string{"len(keys)": "n"}, Vars: []string{"n"}},
	{Name: "ms_mask_len", File: "core/signature/signature.go", Func: "VerifyMultiSignature", Loc: "callarg:make:1",
		Subst: map[string]string{"len(keys)": "n"}, Vars: []string{"n"}},
}

func init() {
	gen.RegisterFile("CrossHeader.v", gen.SitesProducer(Sites))
}
