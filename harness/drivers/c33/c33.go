// Package c33: cross-chain header sync — a side-chain header is accepted only with valid
// signatures of two thirds of the distinct consensus peers.
//
// Everything runs on the real contract: SyncGenesisHeader / SyncBlockHeader through
// native.NativeService.NativeCall on a CacheDB over an in-memory store (the operator role stored
// the way global_params stores it, consensus peers stored by SyncGenesisHeader / ProcessHeader
// themselves), headers serialized with the real Header codec and signed with real keys
// (ECDSA P-256, SM2, Ed25519).
//
//   - correspondence: CVerify = stored records (read back from raw storage) + header ->
//     header_sync.VerifyHeader's error class; CMulti = signature.VerifyMultiSignature with
//     arbitrary m; CSync = whole histories of contract calls with the final stored records.
//   - oracle (on the implementation, independent of the model): for every header the contract
//     accepts, the peers of the stored peer set that have a valid signature on the header hash in
//     header.SigData (checked with signature.Verify, peer by peer) must be at least two thirds of
//     the stored peer set.
package c33

import (
	"encoding/json"
	"fmt"
	"sort"

	"github.com/ontio/ontology-crypto/keypair"
	"github.com/ontio/ontology/common"
	vconfig "github.com/ontio/ontology/consensus/vbft/config"
	ccom "github.com/ontio/ontology/smartcontract/service/native/cross_chain/common"
	"github.com/ontio/ontology/smartcontract/service/native/cross_chain/header_sync"
	"github.com/ontio/ontology/smartcontract/service/native/utils"
	"github.com/ontio/ontology/smartcontract/storage"

	"verif/harness/hx"
)

func init() { hx.Register("C33", Run) }

// hostileEncs: bookkeeper key encodings a forger may put in a header (world.encodeKey).
var hostileEncs = []string{"uncompressed", "off+2", "off+6", "off+40", "off+1", "nonresidue", "zero", "infinity"}

const (
	classDup          = "crosschain-header:duplicate-bookkeeper"
	classUnder        = "crosschain-header:accepted-without-valid-quorum"
	classWrongEpoch   = "crosschain-header:wrong-epoch-peer-set"
	classValidRefused = "crosschain-header:valid-refused"
)

// replayCase is the replay-file input: a history of committed contract calls, then one header.
type replayCase struct {
	Setup []opSpec `json:"setup"`
	Probe *hdrSpec `json:"probe,omitempty"`
}

// ---------------------------------------------------------------- oracle

func hasDupKeys(keys []keypair.PublicKey) bool {
	seen := map[string]bool{}
	for _, k := range keys {
		id := vconfig.PubkeyID(k)
		if seen[id] {
			return true
		}
		seen[id] = true
	}
	return false
}

// governing is the independent specification of "the consensus peers of that chain" for a
// header: the peer set announced at the greatest stored key height strictly below the header's
// height (the rule the code documents), whatever the order of the stored list.
func (w *world) governing(chain uint64, height uint32) (*header_sync.ConsensusPeers, uint32, bool) {
	best := int64(-1)
	for _, v := range w.keyHeights(chain) {
		if v < height && int64(v) > best {
			best = int64(v)
		}
	}
	if best < 0 {
		return nil, 0, false
	}
	cp, found := w.peersAt(chain, uint32(best))
	return cp, uint32(best), found
}

// signersIn lists the members of one stored peer set that have, among hdr.SigData, a signature of
// the header hash that verifies under the member's GENUINE key object (the pool's own key object
// for pool peers; the library is called directly inside a recover).
func (w *world) signersIn(cp *header_sync.ConsensusPeers, hdr *ccom.Header) (signers []string) {
	hash := hdr.Hash()
	for id := range cp.PeerMap {
		var pk keypair.PublicKey
		if m, ok := w.byPeerID[id]; ok && m >= 1 && int(m) <= len(w.pool) {
			pk = w.pool[m-1].pub
		} else if k, err := vconfig.Pubkey(id); err == nil {
			pk = k
		} else {
			continue
		}
		for _, sg := range hdr.SigData {
			if ok, _ := guardedVerify(pk, hash[:], sg); ok {
				signers = append(signers, id[:8])
				break
			}
		}
	}
	sort.Strings(signers)
	return signers
}

// signingPeers counts, independently of VerifyHeader, the peers of the governing set that have a
// valid signature on the header hash among hdr.SigData.
func (w *world) signingPeers(hdr *ccom.Header) (signers []string, total int, ok bool) {
	cp, _, found := w.governing(hdr.ChainID, hdr.Height)
	if !found {
		return nil, 0, false
	}
	return w.signersIn(cp, hdr), len(cp.PeerMap), true
}

// otherEpochSatisfied: some OTHER stored peer set of the chain has two thirds of its members
// signing (the header would have been right for a superseded or not-yet-governing set).
func (w *world) otherEpochSatisfied(hdr *ccom.Header) (uint32, bool) {
	_, gov, _ := w.governing(hdr.ChainID, hdr.Height)
	for _, v := range w.keyHeights(hdr.ChainID) {
		if v == gov {
			continue
		}
		if cp, ok := w.peersAt(hdr.ChainID, v); ok && len(cp.PeerMap) > 0 && 3*len(w.signersIn(cp, hdr)) >= 2*len(cp.PeerMap) {
			return v, true
		}
	}
	return 0, false
}

// validlySigned: by the property's own terms the header must be accepted: a governing set exists,
// the bookkeepers are distinct members of it, they are at least two thirds of it, and the first
// len(bookkeepers) signatures are valid signatures of the header hash by pairwise distinct
// bookkeepers (one each).  (Props/C33.v c33_honest_accepted is the model-side counterpart.)
func (w *world) validlySigned(hdr *ccom.Header) bool {
	cp, _, ok := w.governing(hdr.ChainID, hdr.Height)
	if !ok || hasDupKeys(hdr.Bookkeepers) {
		return false
	}
	n := len(hdr.Bookkeepers)
	for _, k := range hdr.Bookkeepers {
		if _, in := cp.PeerMap[vconfig.PubkeyID(k)]; !in {
			return false
		}
		genuine := false
		for _, p := range w.pool {
			genuine = genuine || sameKey(k, p.pub)
		}
		if !genuine {
			return false
		}
	}
	if 3*n < 2*len(cp.PeerMap) || len(hdr.SigData) < n {
		return false
	}
	hash := hdr.Hash()
	used := map[int]bool{}
	for i := 0; i < n; i++ {
		hit := -1
		for j, k := range hdr.Bookkeepers {
			if ok, _ := guardedVerify(k, hash[:], hdr.SigData[i]); !used[j] && ok {
				hit = j
				break
			}
		}
		if hit < 0 {
			return false
		}
		used[hit] = true
	}
	return true
}

// checkAccepted is the property oracle for one header the contract accepted (state = the
// committed state the header was verified against).
func (w *world) checkAccepted(setup []opSpec, b *built, via string) {
	signers, total, ok := w.signingPeers(b.hdr)
	w.judge(setup, b, via, signers, total, ok)
}

// judge decides on a signer count taken in the state the header was verified against.
func (w *world) judge(setup []opSpec, b *built, via string, signers []string, total int, ok bool) {
	in := replayCase{Setup: setup, Probe: &b.spec}
	if !ok {
		w.c.Fail("crosschain-header:no-peer-set", "header accepted ("+via+") although no consensus peer set is stored below its height", in, "accepted", "refused")
		return
	}
	w.c.Count(fmt.Sprintf("accepted:signers=%d/peers=%d", len(signers), total))
	if 3*len(signers) < 2*total {
		class := classUnder
		got := map[string]interface{}{"signing_peers": signers, "peer_set_size": total, "bookkeepers_listed": len(b.hdr.Bookkeepers)}
		if hasDupKeys(b.hdr.Bookkeepers) {
			class = classDup
		} else if kh, yes := w.otherEpochSatisfied(b.hdr); yes {
			class = classWrongEpoch
			_, gov, _ := w.governing(b.hdr.ChainID, b.hdr.Height)
			got["governing_key_height"] = gov
			got["satisfied_key_height"] = kh
			got["stored_key_heights"] = w.keyHeights(b.hdr.ChainID)
		}
		w.c.Fail(class, "header accepted ("+via+") with valid signatures of fewer than two thirds of the distinct stored consensus peers",
			in, got, fmt.Sprintf("at least %d distinct signing peers of the governing set", (2*total+2)/3))
	}
}

// ---------------------------------------------------------------- running specs

// applyOp runs one committed contract call; returns the error class.
func (w *world) applyOp(op opSpec) (int, []*built) {
	var bs []*built
	for _, sp := range op.Headers {
		bs = append(bs, w.build(sp))
	}
	if op.Genesis {
		return errClass(w.call(header_sync.SYNC_GENESIS_HEADER, syncGenesisArgs(bs[0].raw), true)), bs
	}
	var raws [][]byte
	for _, b := range bs {
		raws = append(raws, b.raw)
	}
	return errClass(w.call(header_sync.SYNC_BLOCK_HEADER, syncBlockArgs(w.operator, raws), true)), bs
}

// probe evaluates one header against the committed state without committing: directly through
// header_sync.VerifyHeader (on the header decoded from its bytes) and through SyncBlockHeader.
func (w *world) probe(setup []opSpec, sp hdrSpec, kind string) {
	c := w.c
	b := w.build(sp)
	if b.decodeErr != nil {
		// a bookkeeper key encoding the codec refuses: the contract must refuse the header
		err := w.call(header_sync.SYNC_BLOCK_HEADER, syncBlockArgs(w.operator, [][]byte{b.raw}), false)
		c.Count("probe-undecodable:" + kind)
		if err == nil {
			c.Fail(classUnder, "SyncBlockHeader returned success for a header whose bytes do not decode", replayCase{Setup: setup, Probe: &sp}, "accepted", b.decodeErr.Error())
		} else if errClass(err) == 8 {
			c.Fail("crosschain-header:panic", "SyncBlockHeader panicked on an undecodable header", replayCase{Setup: setup, Probe: &sp}, err.Error(), "an error")
		}
		return
	}
	// (a) VerifyHeader on the decoded header
	hdr := b.hdr
	if len(hdr.Bookkeepers) != len(sp.Bks) || len(hdr.SigData) != len(sp.Sigs) {
		c.Fail("crosschain-header:codec-drops-entries", "Header codec changed the bookkeeper or signature list", replayCase{Setup: setup, Probe: &sp},
			[]int{len(hdr.Bookkeepers), len(hdr.SigData)}, []int{len(sp.Bks), len(sp.Sigs)})
	}
	cache := storage.NewCacheDB(w.overlay)
	ns := w.service(cache, nil)
	var verr error
	panicked, msg := hx.Recover(func() { verr = header_sync.VerifyHeader(ns, hdr) })
	c.Eval()
	if panicked {
		verr = fmt.Errorf("PANIC: %s", msg)
		c.Fail("crosschain-header:panic", "VerifyHeader panicked", replayCase{Setup: setup, Probe: &sp}, msg, "an error")
	}
	ca := errClass(verr)
	// (b) the real entry point, not committed; accepted = the header is in the call's cache after
	skipped := w.headerPresent(sp.Chain, sp.Height)
	cache2 := storage.NewCacheDB(w.overlay)
	ns2 := w.service(cache2, []common.Address{w.operator})
	var serr error
	panicked, msg = hx.Recover(func() {
		_, serr = ns2.NativeCall(utilsHeaderSync, header_sync.SYNC_BLOCK_HEADER, syncBlockArgs(w.operator, [][]byte{b.raw}))
	})
	c.Eval()
	if panicked {
		serr = fmt.Errorf("PANIC: %s", msg)
	}
	cb := errClass(serr)
	stored := false
	if serr == nil {
		if h2, e := header_sync.GetHeaderByHash(w.service(cache2, nil), sp.Chain, b.hash); e == nil && h2 != nil {
			stored = true
		}
	}
	if !skipped {
		agree := (ca == cb) || (ca == 0 && cb == 9)
		if !agree || (cb == 0 && !stored) {
			c.Fail("driver:verify-vs-sync", "VerifyHeader and SyncBlockHeader disagree on one header", replayCase{Setup: setup, Probe: &sp},
				map[string]interface{}{"verify": fmt.Sprint(verr), "sync": fmt.Sprint(serr), "stored": stored}, "same class")
		}
	}
	c.Count("probe:" + kind)
	c.Count(fmt.Sprintf("verify-class:%d", ca))
	if ca == 99 {
		c.Fail("driver:unknown-error", "unclassified VerifyHeader error", sp, fmt.Sprint(verr), nil)
	}
	if ca == 0 {
		w.checkAccepted(setup, b, "VerifyHeader")
	} else if w.validlySigned(hdr) {
		_, gov, _ := w.governing(sp.Chain, sp.Height)
		c.Fail(classValidRefused, "VerifyHeader refused a header signed by two thirds of the distinct governing peers",
			replayCase{Setup: setup, Probe: &sp}, map[string]interface{}{"error": fmt.Sprint(verr), "governing_key_height": gov, "stored_key_heights": w.keyHeights(sp.Chain)}, "accepted")
	}
	if cb == 0 && stored && !skipped && ca != 0 {
		w.checkAccepted(setup, b, "SyncBlockHeader")
	}
	kh, peers := w.coqStoreParts([]uint64{sp.Chain})
	term := fmt.Sprintf("CVerify (mkStore %s %s) %s %d", kh, peers, w.coqHeader(b), ca)
	c.Case(term, map[string]interface{}{"kind": kind, "probe": sp, "class": ca})
	if len(sp.Bks) >= 2 {
		c.Nontrivial(fmt.Sprintf("v|%s|%v|%v|%d", kh+peers, sp.Bks, sp.Sigs, sp.Height))
	}
}

var utilsHeaderSync = utils.HeaderSyncContractAddress

// ---------------------------------------------------------------- generators

func (w *world) shuffled(l []int) []int {
	out := append([]int{}, l...)
	w.c.Rng.Shuffle(len(out), func(i, j int) { out[i], out[j] = out[j], out[i] })
	return out
}

func okSigs(bks []int) []sigSpec {
	var out []sigSpec
	for _, k := range bks {
		out = append(out, sigSpec{Kind: "ok", Key: k})
	}
	return out
}

func keyPeers(peers []int) []int {
	seen := map[int]bool{}
	var out []int
	for _, p := range peers {
		if p < junkBase && !seen[p] {
			seen[p] = true
			out = append(out, p)
		}
	}
	return out
}

func distinct(peers []int) int {
	seen := map[int]bool{}
	for _, p := range peers {
		seen[p] = true
	}
	return len(seen)
}

// genPeerSet: 0..7 peers, mostly pool keys, sometimes a junk id, sometimes a repeated entry.
func (w *world) genPeerSet() []int {
	c := w.c
	n := []int{1, 2, 3, 4, 4, 5, 6, 7, 7, 0}[c.Intn(10)]
	perm := c.Rng.Perm(nKeys)
	var out []int
	for i := 0; i < n && i < nKeys; i++ {
		out = append(out, perm[i])
	}
	if c.Intn(5) == 0 {
		out = append(out, junkBase+c.Intn(3))
	}
	if len(out) > 0 && c.Intn(6) == 0 {
		out = append(out, out[c.Intn(len(out))])
	}
	return out
}

// genHeader makes one header spec against a (believed) peer set; the kind names the intent.
func (w *world) genHeader(chain uint64, height uint32, peers []int) (sp hdrSpec, kind string) {
	c := w.c
	kp := keyPeers(peers)
	total := distinct(peers)
	need := (2*total + 2) / 3
	sp = hdrSpec{Chain: chain, Height: height, Salt: c.Rng.Uint64()}
	pick := func(n int) []int {
		s := w.shuffled(kp)
		if n > len(s) {
			n = len(s)
		}
		return s[:n]
	}
	nonPeer := func() int {
		for _, k := range c.Rng.Perm(nKeys) {
			in := false
			for _, p := range kp {
				in = in || p == k
			}
			if !in {
				return k
			}
		}
		return c.Intn(nKeys)
	}
	defer func() {
		// hostile encodings of some bookkeeper keys (never in histories: allowHostile)
		if w.allowHostile && len(sp.Bks) > 0 && c.Intn(5) == 0 {
			sp.BkEnc = make([]string, len(sp.Bks))
			for n := 1 + c.Intn(2); n > 0; n-- {
				sp.BkEnc[c.Intn(len(sp.Bks))] = hostileEncs[c.Intn(len(hostileEncs))]
			}
		}
	}()
	kind = []string{"honest-all", "honest-min", "honest-sig-order", "too-few", "dup-one", "dup-some", "non-peer",
		"missing-sig", "bad-sig", "dup-sig", "extra-sigs", "garbage-first", "foreign-sig", "random", "honest-min", "dup-one", "extra-sigs-bad"}[c.Intn(17)]
	switch kind {
	case "honest-all":
		sp.Bks = pick(len(kp))
		sp.Sigs = okSigs(sp.Bks)
	case "honest-min":
		sp.Bks = pick(need)
		sp.Sigs = okSigs(sp.Bks)
	case "honest-sig-order":
		sp.Bks = pick(need + c.Intn(2))
		sp.Sigs = okSigs(w.shuffled(sp.Bks))
	case "too-few":
		n := need - 1
		if n < 0 {
			n = 0
		}
		sp.Bks = pick(n)
		sp.Sigs = okSigs(sp.Bks)
	case "dup-one": // one peer listed often enough, its signature repeated
		if len(kp) > 0 {
			k := kp[c.Intn(len(kp))]
			n := need + c.Intn(2)
			for i := 0; i < n; i++ {
				sp.Bks = append(sp.Bks, k)
			}
			sp.Sigs = okSigs(sp.Bks)
		}
	case "dup-some": // a few distinct peers, padded with repeats
		d := pick(1 + c.Intn(3))
		sp.Bks = append(sp.Bks, d...)
		for len(d) > 0 && len(sp.Bks) < need+c.Intn(2) {
			sp.Bks = append(sp.Bks, d[c.Intn(len(d))])
		}
		sp.Bks = w.shuffled(sp.Bks)
		sp.Sigs = okSigs(sp.Bks)
	case "non-peer":
		sp.Bks = append(pick(need), nonPeer())
		sp.Bks = w.shuffled(sp.Bks)
		sp.Sigs = okSigs(sp.Bks)
	case "missing-sig":
		sp.Bks = pick(need + c.Intn(2))
		sp.Sigs = okSigs(sp.Bks)
		if len(sp.Sigs) > 0 {
			i := c.Intn(len(sp.Sigs))
			sp.Sigs = append(sp.Sigs[:i:i], sp.Sigs[i+1:]...)
		}
	case "bad-sig":
		sp.Bks = pick(need + c.Intn(2))
		sp.Sigs = okSigs(sp.Bks)
		if len(sp.Sigs) > 0 {
			i := c.Intn(len(sp.Sigs))
			sp.Sigs[i].Kind = []string{"other", "corrupt", "garbage"}[c.Intn(3)]
		}
	case "dup-sig": // distinct bookkeepers, but one signature used twice
		sp.Bks = pick(need + c.Intn(2))
		sp.Sigs = okSigs(sp.Bks)
		if len(sp.Sigs) > 1 {
			i := c.Intn(len(sp.Sigs))
			j := (i + 1 + c.Intn(len(sp.Sigs)-1)) % len(sp.Sigs)
			sp.Sigs[i] = sp.Sigs[j]
		}
	case "extra-sigs":
		sp.Bks = pick(need + c.Intn(2))
		sp.Sigs = append(okSigs(sp.Bks), sigSpec{Kind: []string{"garbage", "ok", "corrupt"}[c.Intn(3)], Key: c.Intn(nKeys)})
	case "extra-sigs-bad": // more signatures than bookkeepers, one of the counted ones not valid
		sp.Bks = pick(need + c.Intn(2))
		sp.Sigs = okSigs(sp.Bks)
		if len(sp.Sigs) > 0 {
			sp.Sigs[c.Intn(len(sp.Sigs))].Kind = []string{"other", "corrupt"}[c.Intn(2)]
		}
		sp.Sigs = append(sp.Sigs, sigSpec{Kind: "ok", Key: c.Intn(nKeys)}, sigSpec{Kind: "ok", Key: c.Intn(nKeys)})
	case "garbage-first":
		sp.Bks = pick(need + c.Intn(2))
		sp.Sigs = append([]sigSpec{{Kind: "garbage", Key: c.Intn(4)}}, okSigs(sp.Bks)...)
	case "foreign-sig": // a valid signature on this header by a key that is not listed
		sp.Bks = pick(need + c.Intn(2))
		sp.Sigs = okSigs(sp.Bks)
		if len(sp.Sigs) > 0 {
			sp.Sigs[c.Intn(len(sp.Sigs))] = sigSpec{Kind: "ok", Key: nonPeer()}
		}
	default: // random
		for i := c.Intn(6); i > 0; i-- {
			sp.Bks = append(sp.Bks, c.Intn(nKeys))
		}
		for i := c.Intn(7); i > 0; i-- {
			sp.Sigs = append(sp.Sigs, sigSpec{Kind: []string{"ok", "ok", "ok", "other", "corrupt", "garbage"}[c.Intn(6)], Key: c.Intn(nKeys)})
		}
	}
	if c.Intn(8) == 0 {
		sp.HasPeers = true
		sp.Peers = w.genPeerSet()
	} else if c.Intn(25) == 0 {
		sp.BadPayload = true
	}
	return sp, kind
}

func genesisSpec(chain uint64, height uint32, peers []int, salt uint64) opSpec {
	return opSpec{Genesis: true, Headers: []hdrSpec{{Chain: chain, Height: height, Salt: salt, HasPeers: true, Peers: peers}}}
}

// ---------------------------------------------------------------- the deterministic F12 probe

// f12 replays the witness of Props/C33.v c33_refuted on the contract: 4 stored peers, one of
// them listed three times with its one signature copied three times, committed through
// SyncBlockHeader.
func f12(c *hx.Ctx, pool []*pkey) {
	w := newWorld(c, pool)
	setup := []opSpec{genesisSpec(1, 0, []int{0, 1, 2, 3}, 12)}
	if cl, _ := w.applyOp(setup[0]); cl != 0 {
		c.Fail("driver:genesis", "SyncGenesisHeader refused the witness genesis header", setup, cl, 0)
		return
	}
	sp := hdrSpec{Chain: 1, Height: 5, Salt: 33, Bks: []int{0, 0, 0}, Sigs: []sigSpec{{"ok", 0}, {"ok", 0}, {"ok", 0}}}
	// not committed: VerifyHeader + SyncBlockHeader, correspondence case, oracle
	w.probe(setup, sp, "f12-witness")
	// committed, with literally one signature copied three times
	b := w.build(sp)
	b.hdr.SigData = [][]byte{b.hdr.SigData[0], b.hdr.SigData[0], b.hdr.SigData[0]}
	sink := common.NewZeroCopySink(nil)
	b.hdr.Serialization(sink)
	b.raw = append([]byte{}, sink.Bytes()...)
	signers, total, ok := w.signingPeers(b.hdr)
	err := w.call(header_sync.SYNC_BLOCK_HEADER, syncBlockArgs(w.operator, [][]byte{b.raw}), true)
	stored := err == nil && w.headerPresent(1, 5)
	c.Count(fmt.Sprintf("f12-witness:accepted=%v", stored))
	c.Sample(map[string]interface{}{"f12_witness": sp, "one_signature_copied": true, "sync_error": fmt.Sprint(err), "header_stored": stored,
		"signing_peers": len(signers), "peer_set_size": total})
	if stored {
		w.judge(setup, b, "SyncBlockHeader committed", signers, total, ok)
	}
}

// ---------------------------------------------------------------- Run

func runReplay(c *hx.Ctx, pool []*pkey, rc replayCase) {
	w := newWorld(c, pool)
	for _, op := range rc.Setup {
		w.applyOp(op)
	}
	if rc.Probe != nil {
		w.probe(rc.Setup, *rc.Probe, "replay")
	}
}

func Run(c *hx.Ctx) {
	c.CoqModule("Corr.C33")
	pool := newPool()
	var rc replayCase
	if c.ReplayInput(&rc) && (rc.Probe != nil || len(rc.Setup) > 0) {
		runReplay(c, pool, rc)
		return
	}
	for _, raw := range c.CorpusInputs() {
		var r replayCase
		if json.Unmarshal(raw, &r) == nil && r.Probe != nil {
			runReplay(c, pool, r)
		}
	}
	f12(c, pool)
	boundary(c, pool)
	hostile(c, pool)
	nScen := c.N(45, 600)
	for i := 0; i < nScen; i++ {
		scenario(c, pool)
	}
	nEpochs := c.N(12, 150)
	for i := 0; i < nEpochs; i++ {
		epochs(c, pool, i)
	}
	nHist := c.N(40, 500)
	for i := 0; i < nHist; i++ {
		history(c, pool)
	}
	multiHostile(c, pool)
	nMulti := c.N(150, 3000)
	for i := 0; i < nMulti; i++ {
		multi(c, pool)
	}
}
