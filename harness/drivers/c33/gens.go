package c33

import (
	"fmt"

	"github.com/ontio/ontology-crypto/keypair"
	"github.com/ontio/ontology/core/signature"

	"verif/harness/hx"
)

// config is what the driver believes is stored (only used to aim the generators; every recorded
// observable is read back from the implementation).
type config struct {
	height uint32
	peers  []int
}

func peersBelow(cfgs []config, height uint32) []int {
	best := -1
	for i, c := range cfgs {
		if c.height < height && (best < 0 || c.height >= cfgs[best].height) {
			best = i
		}
	}
	if best < 0 {
		if len(cfgs) > 0 {
			return cfgs[0].peers
		}
		return nil
	}
	return cfgs[best].peers
}

func seq(n int) []int {
	var out []int
	for i := 0; i < n; i++ {
		out = append(out, i)
	}
	return out
}

// boundary: deterministic sweep of the 2/3 edge for every peer-set size 1..7: k distinct honest
// signers for every k, the one-peer-repeated header at the minimal accepted length, the key-height
// edge (height == key height, key height + 1), two configurations, the empty peer set.
func boundary(c *hx.Ctx, pool []*pkey) {
	for n := 1; n <= 7; n++ {
		w := newWorld(c, pool)
		setup := []opSpec{genesisSpec(1, 0, seq(n), uint64(n))}
		if cl, _ := w.applyOp(setup[0]); cl != 0 {
			c.Fail("driver:genesis", "SyncGenesisHeader refused a genesis header", setup, cl, 0)
			continue
		}
		for k := 0; k <= n; k++ {
			bks := seq(k)
			w.probe(setup, hdrSpec{Chain: 1, Height: 7, Salt: uint64(k), Bks: bks, Sigs: okSigs(bks)}, "boundary-honest")
		}
		need := (2*n + 2) / 3
		for _, k := range []int{need - 1, need} {
			var bks []int
			for i := 0; i < k; i++ {
				bks = append(bks, n-1)
			}
			w.probe(setup, hdrSpec{Chain: 1, Height: 8, Salt: uint64(k), Bks: bks, Sigs: okSigs(bks)}, "boundary-dup")
		}
		// all peers listed, one signature short / all signatures by one peer
		all := seq(n)
		if n >= 2 {
			w.probe(setup, hdrSpec{Chain: 1, Height: 9, Bks: all, Sigs: okSigs(all[:n-1])}, "boundary-short")
			var same []sigSpec
			for range all {
				same = append(same, sigSpec{"ok", 0})
			}
			w.probe(setup, hdrSpec{Chain: 1, Height: 9, Salt: 1, Bks: all, Sigs: same}, "boundary-one-signer")
		}
	}
	// key-height edges and two configurations
	w := newWorld(c, pool)
	setup := []opSpec{genesisSpec(2, 5, []int{0, 1, 2, 3}, 1), genesisSpec(2, 20, []int{4, 5, 6}, 2), genesisSpec(3, 0, []int{}, 3)}
	for _, op := range setup {
		w.applyOp(op)
	}
	old, neu := []int{0, 1, 2}, []int{4, 5, 6}
	for _, h := range []uint32{0, 4, 5, 6, 19, 20, 21, 4000000000} {
		w.probe(setup, hdrSpec{Chain: 2, Height: h, Bks: old, Sigs: okSigs(old)}, "boundary-height")
		w.probe(setup, hdrSpec{Chain: 2, Height: h, Salt: 1, Bks: neu, Sigs: okSigs(neu)}, "boundary-height")
	}
	w.probe(setup, hdrSpec{Chain: 9, Height: 6, Bks: old, Sigs: okSigs(old)}, "boundary-unknown-chain")
	w.probe(setup, hdrSpec{Chain: 3, Height: 1}, "boundary-empty-peer-set")
	w.probe(setup, hdrSpec{Chain: 3, Height: 1, Salt: 1, Bks: []int{0}, Sigs: okSigs([]int{0})}, "boundary-empty-peer-set")
}

// scenario: one or two stored configurations on a chain (plus one on another chain), then probes.
func scenario(c *hx.Ctx, pool []*pkey) {
	w := newWorld(c, pool)
	w.allowHostile = true
	chain := uint64(1 + c.Intn(3))
	var setup []opSpec
	var cfgs []config
	g := []uint32{0, 0, 3, 100}[c.Intn(4)]
	p := w.genPeerSet()
	setup = append(setup, genesisSpec(chain, g, p, c.Rng.Uint64()))
	cfgs = append(cfgs, config{g, p})
	if c.Intn(2) == 0 {
		g2 := g + uint32(1+c.Intn(20))
		p2 := w.genPeerSet()
		setup = append(setup, genesisSpec(chain, g2, p2, c.Rng.Uint64()))
		cfgs = append(cfgs, config{g2, p2})
		if c.Intn(2) == 0 { // the higher key height is stored first
			setup[0], setup[1] = setup[1], setup[0]
		}
	}
	if c.Intn(3) == 0 {
		setup = append(setup, genesisSpec(chain+1, 0, w.genPeerSet(), c.Rng.Uint64()))
	}
	for _, op := range setup {
		if cl, _ := w.applyOp(op); cl != 0 {
			c.Fail("driver:genesis", "SyncGenesisHeader refused a genesis header", setup, cl, 0)
			return
		}
	}
	for i := 0; i < 9; i++ {
		last := cfgs[len(cfgs)-1].height
		var h uint32
		switch c.Intn(8) {
		case 0:
			h = g // not above any key height when g is the lowest
		case 1:
			h = last
		case 2:
			h = last + 1
		default:
			h = g + 1 + uint32(c.Intn(40))
		}
		sp, kind := w.genHeader(chain, h, peersBelow(cfgs, h))
		if c.Intn(12) == 0 {
			sp.Chain = chain + 1
		}
		w.probe(setup, sp, kind)
	}
}

// history: committed contract calls (SyncGenesisHeader / SyncBlockHeader with 1..3 headers), each
// with its result class; afterwards the stored records of chains 1 and 2 and the presence of every
// header mentioned.  The oracle judges every accepted header against the signer count taken in
// the state before the call (headers following a configuration change inside one call are left
// to the correspondence).
func history(c *hx.Ctx, pool []*pkey) {
	w := newWorld(c, pool)
	cfgs := map[uint64][]config{}
	next := map[uint64]uint32{}
	var done []opSpec
	var ops []string
	type ch struct {
		chain  uint64
		height uint32
	}
	var mentioned []ch
	seen := map[ch]bool{}
	mention := func(chain uint64, h uint32) {
		if !seen[ch{chain, h}] {
			seen[ch{chain, h}] = true
			mentioned = append(mentioned, ch{chain, h})
		}
	}
	nOps := 3 + c.Intn(6)
	for i := 0; i < nOps; i++ {
		chain := uint64(1 + c.Intn(2))
		if i == 0 || len(cfgs[chain]) == 0 || c.Intn(9) == 0 {
			h := next[chain]
			if c.Intn(4) == 0 && len(cfgs[chain]) > 0 {
				h = cfgs[chain][c.Intn(len(cfgs[chain]))].height // the same key height again
			}
			op := genesisSpec(chain, h, w.genPeerSet(), c.Rng.Uint64())
			if c.Intn(10) == 0 {
				op.Headers[0].HasPeers = false
			}
			if c.Intn(15) == 0 {
				op.Headers[0].BadPayload = true
			}
			cl, bs := w.applyOp(op)
			c.Count(fmt.Sprintf("history-genesis:class=%d", cl))
			ops = append(ops, fmt.Sprintf("SGenesis %s %d %s", w.coqHeader(bs[0]), cl, w.khSnapshot([]uint64{1, 2})))
			mention(chain, h)
			if cl == 0 {
				if op.Headers[0].HasPeers {
					cfgs[chain] = append(cfgs[chain], config{h, op.Headers[0].Peers})
				}
				if h >= next[chain] {
					next[chain] = h + 1
				}
				done = append(done, op)
			}
			continue
		}
		op := opSpec{}
		nh := 1 + c.Intn(3)
		local := append([]config{}, cfgs[chain]...)
		for j := 0; j < nh; j++ {
			h := next[chain] + uint32(j)
			if c.Intn(4) == 0 {
				h += uint32(1 + c.Intn(20)) // leave a gap: a later call may fill it out of order
			}
			if c.Intn(5) == 0 && h > 0 {
				h = uint32(c.Intn(int(h))) // an old height: usually already stored (skipped)
			}
			var sp hdrSpec
			if c.Intn(3) != 0 { // mostly honest, so that histories make progress
				kp := keyPeers(peersBelow(local, h))
				need := (2*distinct(peersBelow(local, h)) + 2) / 3
				bks := w.shuffled(kp)
				if need < len(bks) && c.Intn(2) == 0 {
					bks = bks[:need]
				}
				sp = hdrSpec{Chain: chain, Height: h, Salt: c.Rng.Uint64(), Bks: bks, Sigs: okSigs(bks)}
				if c.Intn(4) == 0 {
					sp.HasPeers = true
					sp.Peers = w.genPeerSet()
				}
			} else {
				sp, _ = w.genHeader(chain, h, peersBelow(local, h))
			}
			if sp.HasPeers {
				local = append(local, config{h, sp.Peers})
			}
			op.Headers = append(op.Headers, sp)
		}
		// signer counts in the state before the call
		type pre struct {
			signers []string
			total   int
			ok      bool
			skip    bool
		}
		var pres []pre
		changed := false
		inOp := map[uint32]bool{}
		bsPre := []*built{}
		for _, sp := range op.Headers {
			b := w.build(sp)
			bsPre = append(bsPre, b)
			s, t, ok := w.signingPeers(b.hdr)
			pres = append(pres, pre{s, t, ok, changed || inOp[sp.Height] || w.headerPresent(sp.Chain, sp.Height)})
			inOp[sp.Height] = true
			if sp.HasPeers {
				changed = true
			}
		}
		// run exactly those headers (signatures are randomized: reuse the built bytes)
		var raws [][]byte
		var hs []string
		for _, b := range bsPre {
			raws = append(raws, b.raw)
			hs = append(hs, w.coqHeader(b))
			mention(b.spec.Chain, b.spec.Height)
		}
		mustAccept := len(bsPre) == 1 && !pres[0].skip && !bsPre[0].spec.BadPayload && w.validlySigned(bsPre[0].hdr)
		cl := errClass(w.call("syncBlockHeader", syncBlockArgs(w.operator, raws), true))
		c.Count(fmt.Sprintf("history-block:class=%d", cl))
		if mustAccept && cl != 0 {
			c.Fail(classValidRefused, "SyncBlockHeader refused a header signed by two thirds of the distinct governing peers",
				replayCase{Setup: done, Probe: &bsPre[0].spec}, cl, 0)
		}
		ops = append(ops, fmt.Sprintf("SBlock %s %d %s", hx.CoqList(hs), cl, w.khSnapshot([]uint64{1, 2})))
		if cl == 99 {
			c.Fail("driver:unknown-error", "unclassified SyncBlockHeader error", op, cl, nil)
		}
		if cl == 0 {
			for j, b := range bsPre {
				if !pres[j].skip {
					w.judge(done, b, "SyncBlockHeader committed", pres[j].signers, pres[j].total, pres[j].ok)
				}
				if b.spec.Height >= next[chain] {
					next[chain] = b.spec.Height + 1
				}
			}
			cfgs[chain] = local
			done = append(done, op)
		}
	}
	kh, peers := w.coqStoreParts([]uint64{1, 2})
	var pres []string
	for _, m := range mentioned {
		pres = append(pres, fmt.Sprintf("((%d, %d), %s)", m.chain, m.height, hx.CoqBool(w.headerPresent(m.chain, m.height))))
	}
	var opTerms []string
	for _, o := range ops {
		opTerms = append(opTerms, "("+o+")")
	}
	term := fmt.Sprintf("CSync %s %s %s %s", hx.CoqList(opTerms), kh, peers, hx.CoqList(pres))
	c.Case(term, map[string]interface{}{"kind": "history", "ops": len(ops)})
	c.Count(fmt.Sprintf("history:ops=%d", len(ops)))
	if len(ops) >= 3 {
		c.Nontrivial("h|" + term)
	}
}

// multi: signature.VerifyMultiSignature directly, with arbitrary m (the header path only uses
// m = len(keys)).
func multi(c *hx.Ctx, pool []*pkey) {
	w := &world{c: c, pool: pool}
	data := c.Bytes(32)
	other := append([]byte("other message "), data...)
	n := c.Intn(6)
	var keys []keypair.PublicKey
	var kt []string
	for i := 0; i < n; i++ {
		k := c.Intn(nKeys)
		if i > 0 && c.Intn(4) == 0 {
			k = c.Intn(nKeys) % (i + 1) // favour repeats
		}
		keys = append(keys, pool[k].pub)
		kt = append(kt, fmt.Sprintf("(BkKey %d)", pool[k].id))
	}
	m := c.Intn(n+4) - 1
	if c.Intn(3) == 0 {
		m = n
	}
	ns := c.Intn(n + 3)
	if c.Intn(2) == 0 && m >= 0 {
		ns = m + c.Intn(2)
	}
	var sigs [][]byte
	var st []string
	for i := 0; i < ns; i++ {
		k := pool[c.Intn(nKeys)]
		if n > 0 && c.Intn(3) != 0 {
			k = pool[0]
			for _, p := range pool {
				if keypair.ComparePublicKey(p.pub, keys[c.Intn(n)]) {
					k = p
				}
			}
		}
		var raw []byte
		switch c.Intn(10) {
		case 0:
			raw = k.sign(other)
		case 1:
			raw = k.sign(data)
			raw[len(raw)-3] ^= 0x40
		case 2:
			raw = [][]byte{{}, {0x01}, {0xee, 1, 2, 3, 4, 5}, {0x09, 1, 2, 3}}[c.Intn(4)]
		default:
			raw = k.sign(data)
		}
		if len(sigs) > 0 && c.Intn(6) == 0 {
			raw = sigs[c.Intn(len(sigs))] // the same signature bytes again
		}
		sigs = append(sigs, raw)
		t, _ := w.classifyRaw(data, other, raw)
		st = append(st, "("+t+")")
	}
	var err error
	panicked, msg := hx.Recover(func() { err = signature.VerifyMultiSignature(data, keys, m, sigs) })
	c.Eval()
	if panicked {
		err = fmt.Errorf("PANIC: %s", msg)
	}
	cl := errClass(err)
	c.Count(fmt.Sprintf("multi:class=%d", cl))
	c.Case(fmt.Sprintf("CMulti 1 %s %s %s %d", hx.CoqList(kt), hx.CoqZ(int64(m)), hx.CoqList(st), cl),
		map[string]interface{}{"kind": "multi", "n": n, "m": m, "sigs": ns, "class": cl})
	if n >= 2 && ns >= 2 {
		c.Nontrivial(fmt.Sprintf("m|%v|%d|%v", kt, m, st))
	}
}

// epochs: several peer-set changes on one chain.  Genesis announces P0 at height 0; K key headers
// (each carrying a new chain config) are delivered as separate SyncBlockHeader calls in ascending
// (order 0), descending (1) or shuffled (2) height order, each signed by two thirds of the set
// that governs its height in the state it is delivered to.  Then, for heights inside every epoch
// (just above the key height, in the middle, at the next key height, far above the last), headers
// signed by (a) the governing set, (b) a superseded set, (c) a set that governs only later are
// probed.  The oracle decides by the independent rule of world.governing; the whole delivery is
// also one CSync case with the stored KeyHeights read back after every call.
func epochs(c *hx.Ctx, pool []*pkey, order int) {
	w := newWorld(c, pool)
	chain := uint64(1 + c.Intn(2))
	K := 2 + c.Intn(2)
	perm := c.Rng.Perm(nKeys)
	at := func(i int) int { return perm[i%nKeys] }
	sets := [][]int{
		{at(0), at(1), at(2), at(3)},
		{at(4), at(5), at(6), at(7)},
		{at(2), at(3), at(4), at(5)},
		{at(6), at(7), at(0), at(1)},
	}
	heights := []uint32{0}
	for i := 1; i <= K; i++ {
		heights = append(heights, uint32(100*i+c.Intn(50)))
	}
	var done []opSpec
	var ops []string
	chains := []uint64{1, 2}
	g := genesisSpec(chain, 0, sets[0], c.Rng.Uint64())
	cl, bs := w.applyOp(g)
	ops = append(ops, fmt.Sprintf("SGenesis %s %d %s", w.coqHeader(bs[0]), cl, w.khSnapshot(chains)))
	if cl != 0 {
		c.Fail("driver:genesis", "SyncGenesisHeader refused a genesis header", g, cl, 0)
		return
	}
	done = append(done, g)
	believed := []config{{0, sets[0]}}
	var idx []int
	for i := 1; i <= K; i++ {
		idx = append(idx, i)
	}
	switch order % 3 {
	case 1:
		for i, j := 0, len(idx)-1; i < j; i, j = i+1, j-1 {
			idx[i], idx[j] = idx[j], idx[i]
		}
	case 2:
		c.Rng.Shuffle(len(idx), func(i, j int) { idx[i], idx[j] = idx[j], idx[i] })
	}
	c.Count(fmt.Sprintf("epochs:order=%s/K=%d", []string{"ascending", "descending", "shuffled"}[order%3], K))
	for _, i := range idx {
		gov := peersBelow(believed, heights[i])
		bks := w.shuffled(keyPeers(gov))
		if need := (2*distinct(gov) + 2) / 3; need < len(bks) && c.Intn(2) == 0 {
			bks = bks[:need]
		}
		sp := hdrSpec{Chain: chain, Height: heights[i], Salt: c.Rng.Uint64(), Bks: bks, Sigs: okSigs(bks), HasPeers: true, Peers: sets[i]}
		b := w.build(sp)
		signers, total, ok := w.signingPeers(b.hdr)
		must := w.validlySigned(b.hdr) && !w.headerPresent(chain, heights[i])
		cl := errClass(w.call("syncBlockHeader", syncBlockArgs(w.operator, [][]byte{b.raw}), true))
		ops = append(ops, fmt.Sprintf("SBlock %s %d %s", hx.CoqList([]string{w.coqHeader(b)}), cl, w.khSnapshot(chains)))
		c.Count(fmt.Sprintf("epochs-key-header:class=%d", cl))
		op := opSpec{Headers: []hdrSpec{sp}}
		if cl == 0 {
			w.judge(done, b, "SyncBlockHeader committed", signers, total, ok)
			believed = append(believed, config{heights[i], sets[i]})
			done = append(done, op)
		} else if must {
			c.Fail(classValidRefused, "SyncBlockHeader refused a key header signed by two thirds of the distinct governing peers",
				replayCase{Setup: done, Probe: &sp}, map[string]interface{}{"class": cl, "stored_key_heights": w.keyHeights(chain)}, "accepted")
		}
	}
	// probes inside every epoch
	for e := 0; e <= K; e++ {
		var hs []uint32
		if e < K {
			hs = []uint32{heights[e] + 1, (heights[e] + heights[e+1]) / 2, heights[e+1]}
		} else {
			hs = []uint32{heights[e] + 1, heights[e] + 1000 + uint32(c.Intn(100000))}
		}
		for _, h := range hs {
			signersOf := []struct {
				set  int
				kind string
			}{{e, "epoch-governing"}}
			if e > 0 {
				signersOf = append(signersOf, struct {
					set  int
					kind string
				}{c.Intn(e), "epoch-superseded"})
			}
			if e < K {
				signersOf = append(signersOf, struct {
					set  int
					kind string
				}{e + 1 + c.Intn(K-e), "epoch-future"})
			}
			for _, so := range signersOf {
				bks := w.shuffled(sets[so.set])
				if c.Intn(2) == 0 {
					bks = bks[:3]
				}
				sigs := okSigs(bks)
				if c.Intn(3) == 0 {
					sigs = okSigs(w.shuffled(bks))
				}
				w.probe(done, hdrSpec{Chain: chain, Height: h, Salt: c.Rng.Uint64(), Bks: bks, Sigs: sigs}, so.kind)
			}
		}
	}
	kh, peers := w.coqStoreParts(chains)
	var pres []string
	for _, h := range heights {
		pres = append(pres, fmt.Sprintf("((%d, %d), %s)", chain, h, hx.CoqBool(w.headerPresent(chain, h))))
	}
	var opTerms []string
	for _, o := range ops {
		opTerms = append(opTerms, "("+o+")")
	}
	term := fmt.Sprintf("CSync %s %s %s %s", hx.CoqList(opTerms), kh, peers, hx.CoqList(pres))
	c.Case(term, map[string]interface{}{"kind": "epochs", "order": order % 3, "key_headers": K})
	c.Nontrivial("e|" + term)
}

// hostile: deterministic sweep of bookkeeper key ENCODINGS.  All eight pool keys are the stored
// peer set; the header lists one elliptic-curve peer (P-256, P-384, SM2 in turn) in a hostile
// encoding plus five genuinely encoded peers (six of eight = two thirds), with five signature
// arrangements (see the loop).  A signature is tried against every unmarked key in list order, so
// an ECDSA-scheme blob reaches a forged SM2-curve key through Go's generic curve code.  Off-curve points with an even offset keep the genuine peer's id (X and the parity of
// Y), so they pass the membership test; SM2 off-curve points make the library's verify panic.
func hostile(c *hx.Ctx, pool []*pkey) {
	w := newWorld(c, pool)
	setup := []opSpec{genesisSpec(1, 0, seq(nKeys), 77)}
	if cl, _ := w.applyOp(setup[0]); cl != 0 {
		c.Fail("driver:genesis", "SyncGenesisHeader refused a genesis header", setup, cl, 0)
		return
	}
	salt := uint64(0)
	for _, target := range ecPoolKeys {
		bks := []int{target}
		for k := 0; len(bks) < 6; k++ {
			if k != target {
				bks = append(bks, k)
			}
		}
		for _, enc := range hostileEncs {
			for pos := 0; pos < 2; pos++ { // forged entry first / last
				order := append([]int{}, bks...)
				encs := make([]string, len(order))
				if pos == 1 {
					order[0], order[len(order)-1] = order[len(order)-1], order[0]
					encs[len(order)-1] = enc
				} else {
					encs[0] = enc
				}
				for mode := 0; mode < 5; mode++ {
					// 0: every listed peer's valid signature, in key order; 1: the same rotated by one (so
					// the first signature is tried against the first key before its own); 2: nobody
					// signed this header - well-formed signatures on another message, key order;
					// 3: those rotated by one; 4: a garbage blob first.
					var sigs []sigSpec
					for _, k := range order {
						if mode == 0 || mode == 1 || mode == 4 {
							sigs = append(sigs, sigSpec{"ok", k})
						} else {
							sigs = append(sigs, sigSpec{"other", k})
						}
					}
					if mode == 1 || mode == 3 {
						sigs = append(sigs[1:], sigs[0])
					}
					if mode == 4 {
						sigs[0] = sigSpec{"garbage", int(salt)}
					}
					salt++
					w.probe(setup, hdrSpec{Chain: 1, Height: 9, Salt: salt, Bks: order, BkEnc: encs, Sigs: sigs}, "hostile-"+enc)
				}
			}
		}
	}
}

// multiHostile: signature.VerifyMultiSignature called directly with key lists holding forged key
// objects (decoded from the hostile encodings).  Observable: nil / error class / panic.  The
// tie: when the library's verify panics or fails on a key, the function returns an error unless
// enough other keys verify (model: BkForged never verifies).
func multiHostile(c *hx.Ctx, pool []*pkey) {
	w := &world{c: c, pool: pool, byPeerID: map[string]uint64{}}
	for _, k := range pool {
		w.byPeerID[k.peerID] = k.id
	}
	data := c.Bytes(32)
	other := append([]byte("other message "), data...)
	n := 0
	for _, target := range ecPoolKeys {
		for _, enc := range hostileEncs {
			forged, err := keypair.DeserializePublicKey(w.encodeKey(target, enc))
			if err != nil {
				c.Count("multi-hostile:undecodable-" + enc)
				continue
			}
			for variant := 0; variant < 9; variant++ {
				n++
				var keys []keypair.PublicKey
				var sigs [][]byte
				m := 0
				switch variant {
				case 0: // the forged key alone, its owner's valid signature
					keys, sigs, m = []keypair.PublicKey{forged}, [][]byte{pool[target].sign(data)}, 1
				case 1: // the forged key alone, a well-formed blob on another message
					keys, sigs, m = []keypair.PublicKey{forged}, [][]byte{pool[target].sign(other)}, 1
				case 2: // forged first, two genuine keys signing, m = 3
					keys = []keypair.PublicKey{forged, pool[1].pub, pool[2].pub}
					sigs, m = [][]byte{pool[target].sign(other), pool[1].sign(data), pool[2].sign(data)}, 3
				case 3: // forged last, genuine signatures first, m = 3
					keys = []keypair.PublicKey{pool[1].pub, pool[2].pub, forged}
					sigs, m = [][]byte{pool[1].sign(data), pool[2].sign(data), pool[target].sign(data)}, 3
				case 4: // m = 2 of 3: the two genuine keys suffice, the forged one is never needed
					keys = []keypair.PublicKey{forged, pool[1].pub, pool[2].pub}
					sigs, m = [][]byte{pool[1].sign(data), pool[2].sign(data)}, 2
				case 5: // only forged keys (the same one twice), blobs of the right scheme
					keys = []keypair.PublicKey{forged, forged}
					sigs, m = [][]byte{pool[target].sign(other), pool[target].sign(data)}, 2
				case 6: // forged first; an ECDSA signature is tried against it before its own key
					keys = []keypair.PublicKey{forged, pool[1].pub, pool[2].pub}
					sigs, m = [][]byte{pool[1].sign(data), pool[2].sign(data), pool[target].sign(other)}, 3
				case 7: // the forged key alone, an ECDSA blob by another key
					keys, sigs, m = []keypair.PublicKey{forged}, [][]byte{pool[1].sign(data)}, 1
				default: // forged first, ECDSA blobs on another message only
					keys = []keypair.PublicKey{forged, pool[1].pub}
					sigs, m = [][]byte{pool[1].sign(other), pool[2].sign(other)}, 2
				}
				var kt, st []string
				for _, k := range keys {
					kt = append(kt, "("+w.coqBookkeeper(k, data, sigs)+")")
				}
				for _, raw := range sigs {
					t, _ := w.classifyRaw(data, other, raw)
					st = append(st, "("+t+")")
				}
				var verr error
				panicked, msg := hx.Recover(func() { verr = signature.VerifyMultiSignature(data, keys, m, sigs) })
				c.Eval()
				if panicked {
					verr = fmt.Errorf("PANIC: %s", msg)
					c.Fail("multisig:panic", "VerifyMultiSignature panicked on a malformed public key", map[string]interface{}{"key": pool[target].peerID, "encoding": enc, "variant": variant}, msg, "an error")
				}
				cl := errClass(verr)
				c.Count(fmt.Sprintf("multi-hostile:class=%d", cl))
				// oracle, independent of the model: nil needs m signatures verifying under pairwise
				// distinct key positions (checked with the library directly)
				if cl == 0 {
					used := map[int]bool{}
					good := 0
					for i := 0; i < m && i < len(sigs); i++ {
						for j, k := range keys {
							if ok, _ := guardedVerify(k, data, sigs[i]); ok && !used[j] {
								used[j] = true
								good++
								break
							}
						}
					}
					if good < m {
						c.Fail("multisig:accepted-without-valid-signatures", "VerifyMultiSignature returned nil although fewer than m signatures verify",
							map[string]interface{}{"key": pool[target].peerID, "encoding": enc, "variant": variant, "m": m}, fmt.Sprintf("%d verifying", good), fmt.Sprintf(">= %d", m))
					}
				}
				c.Case(fmt.Sprintf("CMulti 1 %s %s %s %d", hx.CoqList(kt), hx.CoqZ(int64(m)), hx.CoqList(st), cl),
					map[string]interface{}{"kind": "multi-hostile", "target": target, "encoding": enc, "variant": variant, "class": cl})
				c.Nontrivial(fmt.Sprintf("mh|%d|%s|%d", target, enc, variant))
			}
		}
	}
}
