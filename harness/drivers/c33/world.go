package c33

import (
	"bytes"
	"encoding/json"
	"fmt"
	"math/big"
	"sort"
	"strings"

	"github.com/ontio/ontology-crypto/ec"
	"github.com/ontio/ontology-crypto/keypair"
	s "github.com/ontio/ontology-crypto/signature"
	"github.com/ontio/ontology/common"
	vconfig "github.com/ontio/ontology/consensus/vbft/config"
	cstates "github.com/ontio/ontology/core/states"
	"github.com/ontio/ontology/core/store/leveldbstore"
	"github.com/ontio/ontology/core/store/overlaydb"
	"github.com/ontio/ontology/core/types"
	"github.com/ontio/ontology/smartcontract"
	"github.com/ontio/ontology/smartcontract/service/native"
	ccom "github.com/ontio/ontology/smartcontract/service/native/cross_chain/common"
	"github.com/ontio/ontology/smartcontract/service/native/cross_chain/header_sync"
	"github.com/ontio/ontology/smartcontract/service/native/global_params"
	"github.com/ontio/ontology/smartcontract/service/native/utils"
	"github.com/ontio/ontology/smartcontract/storage"
	"golang.org/x/crypto/ed25519"

	"verif/harness/hx"
)

// ---------------------------------------------------------------- key pool

// A pool key has the model id idx+1; the peer-id string of the key is vconfig.PubkeyID(pub).
type pkey struct {
	id     uint64
	pub    keypair.PublicKey
	priv   keypair.PrivateKey
	scheme s.SignatureScheme
	peerID string
}

const nKeys = 8

// junk peer ids (strings that are no public key) have the model ids junkBase+j.
const junkBase = 100

func junkPeerID(j int) string { return fmt.Sprintf("not-a-key-%d", j) }

// newPool: key types the header codec accepts, mixed: P-256 x4 (indices 0,1,2,7), P-384 (3),
// SM2 x2 (4,5), Ed25519 (6).
func newPool() []*pkey {
	var pool []*pkey
	add := func(t keypair.KeyType, opt interface{}, sc s.SignatureScheme) {
		priv, pub, err := keypair.GenerateKeyPair(t, opt)
		if err != nil {
			panic(err)
		}
		pool = append(pool, &pkey{id: uint64(len(pool) + 1), pub: pub, priv: priv, scheme: sc, peerID: vconfig.PubkeyID(pub)})
	}
	for i := 0; i < 3; i++ {
		add(keypair.PK_ECDSA, keypair.P256, s.SHA256withECDSA)
	}
	add(keypair.PK_ECDSA, keypair.P384, s.SHA384withECDSA)
	add(keypair.PK_SM2, keypair.SM2P256V1, s.SM3withSM2)
	add(keypair.PK_SM2, keypair.SM2P256V1, s.SM3withSM2)
	add(keypair.PK_EDDSA, keypair.ED25519, s.SHA512withEDDSA)
	add(keypair.PK_ECDSA, keypair.P256, s.SHA256withECDSA)
	return pool
}

// ecPoolKeys: one pool index per elliptic-curve key type (P-256, P-384, SM2).
var ecPoolKeys = []int{0, 3, 4}

// guardedVerify is the driver's own verification: the crypto library called directly (not
// core/signature), with a recover around it.  panicked reports a library panic.
func guardedVerify(pub keypair.PublicKey, data, raw []byte) (ok bool, panicked bool) {
	sg, err := s.Deserialize(raw)
	if err != nil {
		return false, false
	}
	defer func() {
		if r := recover(); r != nil {
			ok, panicked = false, true
		}
	}()
	return s.Verify(pub, data, sg), false
}

// sameKey: the same key object (type, algorithm, curve, X and Y) - keypair.ComparePublicKey looks
// at X only.
func sameKey(a, b keypair.PublicKey) bool {
	switch x := a.(type) {
	case *ec.PublicKey:
		y, ok := b.(*ec.PublicKey)
		return ok && x.Algorithm == y.Algorithm && x.Params().Name == y.Params().Name && x.X.Cmp(y.X) == 0 && x.Y.Cmp(y.Y) == 0
	case ed25519.PublicKey:
		y, ok := b.(ed25519.PublicKey)
		return ok && bytes.Equal(x, y)
	}
	return false
}

// Hostile encodings of pool key idx (what a header may carry in place of the standard compressed
// form).  enc: "" standard; "uncompressed" the genuine point, 04 X Y; "off+N" the point (X, Y+N):
// off the curve, same peer id when N is even; "nonresidue" a compressed form whose X has no Y;
// "zero" the point (0,0) uncompressed; "infinity" a 00 form.  Ed25519 keys only have the
// standard form.
func (w *world) encodeKey(idx int, enc string) []byte {
	std := keypair.SerializePublicKey(w.pool[idx].pub)
	pk, isEC := w.pool[idx].pub.(*ec.PublicKey)
	if enc == "" || !isEC {
		return std
	}
	L := (pk.Params().BitSize + 7) >> 3
	prefix := append([]byte{}, std[:len(std)-(1+L)]...)
	fixed := func(v *big.Int) []byte {
		b := v.Bytes()
		if len(b) > L {
			b = b[len(b)-L:]
		}
		return append(make([]byte, L-len(b)), b...)
	}
	switch {
	case enc == "uncompressed":
		return append(append(append(prefix, 0x04), fixed(pk.X)...), fixed(pk.Y)...)
	case strings.HasPrefix(enc, "off+"):
		var n int64
		fmt.Sscanf(enc[4:], "%d", &n)
		y := new(big.Int).Add(pk.Y, big.NewInt(n))
		return append(append(append(prefix, 0x04), fixed(pk.X)...), fixed(y)...)
	case enc == "nonresidue":
		x := new(big.Int).Set(pk.X)
		for i := 0; i < 64; i++ {
			x.Add(x, big.NewInt(1))
			cand := append(append(append([]byte{}, prefix...), 0x02), fixed(x)...)
			if _, err := keypair.DeserializePublicKey(cand); err != nil {
				return cand
			}
		}
		panic("no non-residue found")
	case enc == "zero":
		return append(append(prefix, 0x04), make([]byte, 2*L)...)
	case enc == "infinity":
		return append(append(prefix, 0x00), make([]byte, L)...)
	}
	panic("encoding " + enc)
}

func (k *pkey) sign(data []byte) []byte {
	sg, err := s.Sign(k.scheme, k.priv, data, nil)
	if err != nil {
		panic(err)
	}
	b, err := s.Serialize(sg)
	if err != nil {
		panic(err)
	}
	return b
}

// ---------------------------------------------------------------- specs (replayable)

// sigSpec: Kind "ok" (Key signs this header's hash), "other" (Key signs another message),
// "corrupt" (Key's signature on this hash with one value byte flipped: deserializes, verifies
// under no key), "garbage" (bytes s.Deserialize refuses).
type sigSpec struct {
	Kind string `json:"kind"`
	Key  int    `json:"key"`
}

// hdrSpec: Bks are pool indices (BkEnc: hostile encodings of those keys, see encodeKey); Peers (when HasPeers) is the new_chain_config peer list: pool
// indices, or junkBase+j for a junk id; BadPayload makes ConsensusPayload invalid JSON.
type hdrSpec struct {
	Chain      uint64    `json:"chain"`
	Height     uint32    `json:"height"`
	Salt       uint64    `json:"salt"`
	Bks        []int     `json:"bks"`
	BkEnc      []string  `json:"bk_enc,omitempty"` // per bookkeeper: how its key is encoded ("" = standard)
	Sigs       []sigSpec `json:"sigs"`
	HasPeers   bool      `json:"has_peers,omitempty"`
	Peers      []int     `json:"peers,omitempty"`
	BadPayload bool      `json:"bad_payload,omitempty"`
}

type opSpec struct {
	Genesis bool      `json:"genesis,omitempty"`
	Headers []hdrSpec `json:"headers"`
}

// ---------------------------------------------------------------- world

type world struct {
	allowHostile bool
	c            *hx.Ctx
	pool         []*pkey
	byPeerID     map[string]uint64
	overlay      *overlaydb.OverlayDB
	operator     common.Address
}

func newWorld(c *hx.Ctx, pool []*pkey) *world {
	w := &world{c: c, pool: pool, byPeerID: map[string]uint64{}}
	for _, k := range pool {
		w.byPeerID[k.peerID] = k.id
	}
	for j := 0; j < 8; j++ {
		w.byPeerID[junkPeerID(j)] = uint64(junkBase + j)
	}
	w.overlay = overlaydb.NewOverlayDB(leveldbstore.NewMemLevelDBStore())
	header_sync.InitHeaderSync()
	w.operator = types.AddressFromPubKey(pool[0].pub)
	// the operator of the global-params contract, stored the way global_params stores a role
	sink := common.NewZeroCopySink(nil)
	utils.EncodeAddress(sink, w.operator)
	item := &cstates.StorageItem{Value: sink.Bytes()}
	cache := storage.NewCacheDB(w.overlay)
	cache.Put(global_params.GenerateOperatorKey(utils.ParamContractAddress), item.ToArray())
	cache.Commit()
	return w
}

func (w *world) service(cache *storage.CacheDB, signers []common.Address) *native.NativeService {
	tx := &types.Transaction{SignedAddr: signers}
	sc := &smartcontract.SmartContract{
		Config:  &smartcontract.Config{Time: 1600000000, Height: 1, Tx: tx},
		CacheDB: cache,
		Gas:     1 << 60,
	}
	ns, err := sc.NewNativeService()
	if err != nil {
		panic(err)
	}
	return ns
}

// call runs one contract call as its own transaction (committed only on success).
func (w *world) call(method string, args []byte, commit bool) error {
	cache := storage.NewCacheDB(w.overlay)
	ns := w.service(cache, []common.Address{w.operator})
	var err error
	panicked, msg := hx.Recover(func() { _, err = ns.NativeCall(utils.HeaderSyncContractAddress, method, args) })
	w.c.Eval()
	if panicked {
		return fmt.Errorf("PANIC: %s", msg)
	}
	if err == nil && commit {
		cache.Commit()
	}
	return err
}

func peerIDOf(w *world, p int) string {
	if p >= junkBase {
		return junkPeerID(p - junkBase)
	}
	return w.pool[p].peerID
}

func modelPeer(p int) uint64 {
	if p >= junkBase {
		return uint64(p)
	}
	return uint64(p + 1)
}

// built is a header made from a spec, with everything the case term and the oracle need.  hdr is
// the header as the contract sees it: decoded from raw (nil when raw does not decode).
type built struct {
	spec      hdrSpec
	hdr       *ccom.Header
	raw       []byte
	hash      common.Uint256
	decodeErr error
}

func (w *world) build(sp hdrSpec) *built {
	h := &ccom.Header{Version: 0, ChainID: sp.Chain, Height: sp.Height, Timestamp: 1600000000 + sp.Height, ConsensusData: sp.Salt}
	switch {
	case sp.BadPayload:
		h.ConsensusPayload = []byte("{not json")
	default:
		info := &vconfig.VbftBlockInfo{Proposer: 0, LastConfigBlockNum: 0}
		if sp.HasPeers {
			cfg := &vconfig.ChainConfig{Version: 1, View: 1, N: uint32(len(sp.Peers)), C: uint32(len(sp.Peers) / 3)}
			for i, p := range sp.Peers {
				cfg.Peers = append(cfg.Peers, &vconfig.PeerConfig{Index: uint32(i + 1), ID: peerIDOf(w, p)})
			}
			info.NewChainConfig = cfg
		}
		b, err := json.Marshal(info)
		if err != nil {
			panic(err)
		}
		h.ConsensusPayload = b
	}
	hash := h.Hash()
	// the unsigned part as the codec writes it (a header without bookkeepers and signatures ends
	// with two zero counts), then the bookkeeper keys in the encodings the spec asks for
	us := common.NewZeroCopySink(nil)
	h.Serialization(us)
	unsigned := us.Bytes()[:len(us.Bytes())-2]
	sink := common.NewZeroCopySink(nil)
	sink.WriteBytes(unsigned)
	sink.WriteVarUint(uint64(len(sp.Bks)))
	for i, k := range sp.Bks {
		enc := ""
		if i < len(sp.BkEnc) {
			enc = sp.BkEnc[i]
		}
		sink.WriteVarBytes(w.encodeKey(k, enc))
	}
	other := append([]byte("other message "), hash[:]...)
	sink.WriteVarUint(uint64(len(sp.Sigs)))
	for _, sg := range sp.Sigs {
		var raw []byte
		switch sg.Kind {
		case "ok":
			raw = w.pool[sg.Key].sign(hash[:])
		case "other":
			raw = w.pool[sg.Key].sign(other)
		case "corrupt":
			raw = w.pool[sg.Key].sign(hash[:])
			raw[len(raw)-3] ^= 0x40
		case "garbage":
			raw = [][]byte{{}, {0x01}, {0xee, 1, 2, 3, 4, 5}, {0x09, 1, 2, 3}}[sg.Key%4]
		default:
			panic("sig kind " + sg.Kind)
		}
		sink.WriteVarBytes(raw)
	}
	raw := append([]byte{}, sink.Bytes()...)
	hdr, err := ccom.HeaderFromRawBytes(raw)
	if err != nil {
		hdr = nil
	}
	return &built{spec: sp, hdr: hdr, raw: raw, hash: hash, decodeErr: err}
}

// coqBookkeeper maps a decoded key object to the model's bkey: BkKey k when it is pool key k's
// genuine key object, BkForged pid otherwise (pid = the peer id its PubkeyID names, 250 when it
// names no known peer).  For a forged key the abstraction "no signature verifies under it" is
// checked against the case's own signatures with the library called directly.
func (w *world) coqBookkeeper(key keypair.PublicKey, data []byte, sigs [][]byte) string {
	for _, k := range w.pool {
		if sameKey(key, k.pub) {
			return fmt.Sprintf("BkKey %d", k.id)
		}
	}
	pid := uint64(250)
	panicked, _ := hx.Recover(func() {
		if v, ok := w.byPeerID[vconfig.PubkeyID(key)]; ok {
			pid = v
		}
	})
	if panicked {
		w.c.Count("forged-key:pubkeyid-panics")
	}
	for _, raw := range sigs {
		ok, pan := guardedVerify(key, data, raw)
		switch {
		case ok:
			w.c.Fail("abstraction:forged-key-verifies", "a signature verifies under a key object that is no genuine pool key", hx.Hex(keypair.SerializePublicKey(key)), "verifies", "does not verify")
		case pan:
			w.c.Count("forged-key:library-verify-panics")
		default:
			w.c.Count("forged-key:library-verify-false")
		}
	}
	return fmt.Sprintf("BkForged %d", pid)
}

// classifySig maps a real signature to the model's sigv by asking the real verifier: SigBad when
// s.Deserialize refuses it, SigOf k 1 when it verifies under pool key k for this header's hash
// (message 1), SigOf k 2 when under pool key k for the "other" message, SigOf 0 0 otherwise.
// More than one verifying pool key would break the abstraction: reported.
func (w *world) classifySig(b *built, raw []byte) (string, string) {
	return w.classifyRaw(b.hash[:], append([]byte("other message "), b.hash[:]...), raw)
}

func (w *world) classifyRaw(data, other, raw []byte) (string, string) {
	if _, err := s.Deserialize(raw); err != nil {
		return "SigBad", "bad"
	}
	found := ""
	for _, k := range w.pool {
		if ok, _ := guardedVerify(k.pub, data, raw); ok {
			if found != "" {
				w.c.Fail("abstraction:signature-two-keys", "one signature verifies under two pool keys", hx.Hex(raw), found, "one key")
			}
			found = fmt.Sprintf("SigOf %d 1", k.id)
		}
	}
	if found != "" {
		return found, "ok"
	}
	for _, k := range w.pool {
		if ok, _ := guardedVerify(k.pub, other, raw); ok {
			return fmt.Sprintf("SigOf %d 2", k.id), "other"
		}
	}
	return "SigOf 0 0", "corrupt"
}

func coqPayload(sp hdrSpec) string {
	switch {
	case sp.BadPayload:
		return "PBad"
	case sp.HasPeers:
		var ids []string
		for _, p := range sp.Peers {
			ids = append(ids, hx.CoqN(modelPeer(p)))
		}
		return "(PPeers " + hx.CoqList(ids) + ")"
	}
	return "PNone"
}

// coqHeader renders the model header; the signature terms come from classifySig (the real
// verifier), not from the spec; a disagreement with the spec's intent is a driver defect.
func (w *world) coqHeader(b *built) string {
	var bks, sigs []string
	for _, k := range b.hdr.Bookkeepers {
		bks = append(bks, "("+w.coqBookkeeper(k, b.hash[:], b.hdr.SigData)+")")
	}
	for i, raw := range b.hdr.SigData {
		t, kind := w.classifySig(b, raw)
		want := b.spec.Sigs[i].Kind
		if (want == "garbage") != (kind == "bad") || (want != "garbage" && want != kind) {
			w.c.Fail("driver:signature-mapping", "signature built as "+want+" classified as "+kind, b.spec, kind, want)
		}
		if kind == "ok" || kind == "other" {
			if t != fmt.Sprintf("SigOf %d %d", b.spec.Sigs[i].Key+1, map[string]int{"ok": 1, "other": 2}[kind]) {
				w.c.Fail("driver:signature-mapping", "signature verifies under an unexpected key", b.spec, t, b.spec.Sigs[i])
			}
		}
		sigs = append(sigs, "("+t+")")
	}
	return fmt.Sprintf("(mkHeader %d %d 1 %s %s %s)", b.spec.Chain, b.spec.Height, hx.CoqList(bks), hx.CoqList(sigs), coqPayload(b.spec))
}

// ---------------------------------------------------------------- reading the stored state back

type storedPeers struct {
	Chain  uint64
	Height uint32
	IDs    []string // peer-id strings of the stored PeerMap, sorted
}

func (w *world) keyHeights(chain uint64) []uint32 {
	cache := storage.NewCacheDB(w.overlay)
	ns := w.service(cache, nil)
	kh, err := header_sync.GetKeyHeights(ns, chain)
	if err != nil {
		panic(err)
	}
	return kh.HeightList
}

// peersAt decodes the stored ConsensusPeers record of (chain, height) from the raw storage.
func (w *world) peersAt(chain uint64, height uint32) (*header_sync.ConsensusPeers, bool) {
	cache := storage.NewCacheDB(w.overlay)
	cb, _ := utils.GetUint64Bytes(chain)
	hb, _ := utils.GetUint32Bytes(height)
	raw, err := cache.Get(utils.ConcatKey(utils.HeaderSyncContractAddress, []byte(header_sync.CONSENSUS_PEER), cb, hb))
	if err != nil {
		panic(err)
	}
	if raw == nil {
		return nil, false
	}
	val, err := cstates.GetValueFromRawStorageItem(raw)
	if err != nil {
		panic(err)
	}
	cp := &header_sync.ConsensusPeers{}
	if err := cp.Deserialization(common.NewZeroCopySource(val)); err != nil {
		panic(err)
	}
	return cp, true
}

func (w *world) headerPresent(chain uint64, height uint32) bool {
	cache := storage.NewCacheDB(w.overlay)
	ns := w.service(cache, nil)
	h, err := header_sync.GetHeaderByHeight(ns, chain, height)
	return err == nil && h != nil
}

func (w *world) modelIDs(cp *header_sync.ConsensusPeers) []string {
	var ids []uint64
	for id, p := range cp.PeerMap {
		if p.PeerPubkey != id {
			w.c.Fail("driver:peer-map-key", "PeerMap key differs from the peer's id", id, p.PeerPubkey, id)
		}
		m, ok := w.byPeerID[id]
		if !ok {
			panic("unknown peer id " + id)
		}
		ids = append(ids, m)
	}
	sort.Slice(ids, func(i, j int) bool { return ids[i] < ids[j] })
	var out []string
	for _, v := range ids {
		out = append(out, hx.CoqN(v))
	}
	return out
}

// coqStore renders the stored records of the given chains as the model's hstore parts.
func (w *world) coqStoreParts(chains []uint64) (kh string, peers string) {
	var khs, ps []string
	for _, ch := range chains {
		hl := w.keyHeights(ch)
		var hs []string
		seen := map[uint32]bool{}
		for _, h := range hl {
			hs = append(hs, hx.CoqN(uint64(h)))
			if seen[h] {
				continue
			}
			seen[h] = true
			if cp, ok := w.peersAt(ch, h); ok {
				ps = append(ps, fmt.Sprintf("((%d, %d), %s)", ch, h, hx.CoqList(w.modelIDs(cp))))
			}
		}
		if len(hl) > 0 {
			khs = append(khs, fmt.Sprintf("(%d, %s)", ch, hx.CoqList(hs)))
		}
	}
	return hx.CoqList(khs), hx.CoqList(ps)
}

// khSnapshot renders the stored KeyHeights lists of the given chains (stored order) as a Coq
// list of (chain, list) pairs.
func (w *world) khSnapshot(chains []uint64) string {
	var out []string
	for _, ch := range chains {
		var hs []string
		for _, h := range w.keyHeights(ch) {
			hs = append(hs, hx.CoqN(uint64(h)))
		}
		out = append(out, fmt.Sprintf("(%d, %s)", ch, hx.CoqList(hs)))
	}
	return hx.CoqList(out)
}

// ---------------------------------------------------------------- error classes

// errClass maps VerifyHeader / ProcessHeader / SyncBlockHeader / SyncGenesisHeader errors to the
// model's small enum (Corr/C33.v vh_code).
func errClass(err error) int {
	if err == nil {
		return 0
	}
	m := err.Error()
	switch {
	case strings.Contains(m, "PANIC"):
		return 8
	case strings.Contains(m, "findKeyHeight error"):
		return 1
	case strings.Contains(m, "get ConsensusPeer error"):
		return 2
	case strings.Contains(m, "must more than 2/3"):
		return 3
	case strings.Contains(m, "invalid pubkey error"):
		return 4
	case strings.Contains(m, "not enough signatures in multi-signature"):
		return 5
	case strings.Contains(m, "invalid signature data"):
		return 6
	case strings.Contains(m, "multi-signature verification failed"):
		return 7
	case strings.Contains(m, "unmarshal blockInfo error"):
		return 9
	}
	return 99
}

func syncGenesisArgs(raw []byte) []byte {
	p := &header_sync.SyncGenesisHeaderParam{GenesisHeader: raw}
	sink := common.NewZeroCopySink(nil)
	p.Serialization(sink)
	return sink.Bytes()
}

func syncBlockArgs(addr common.Address, raws [][]byte) []byte {
	p := &header_sync.SyncBlockHeaderParam{Address: addr, Headers: raws}
	sink := common.NewZeroCopySink(nil)
	p.Serialization(sink)
	return sink.Bytes()
}
