package c34

import (
	"fmt"
	"strings"

	"verif/harness/hx"
)

// Pool-level schedules: sequences of newBlockProposal / setProposalEndorsed / setProposalCommitted
// calls on the REAL BlockPool of a fresh node, for the proposals of the leader (0) and of the second
// proposer (1), block and empty block. ORACLE: after any successful commit mark every further
// setProposalCommitted for another (proposer, kind) returns an error, and the pool never holds two
// commit marks. The model (run_marks) must give the same results and marks.

func coqOptPK(p *uint32) string {
	if p == nil {
		return "None"
	}
	return fmt.Sprintf("(Some (%s, 0))", cN(*p))
}

func runMarks(c *hx.Ctx, w *world, calls []MarkCall, label string) {
	p := params4()
	if w.markProps[0] == nil {
		pn, err := newNetOnly(w, p, []uint32{0, 1})
		if err != nil {
			c.Note("cannot build network: " + err.Error())
			return
		}
		for i := 0; i < 2; i++ {
			d, err := pn.nodes[uint32(i)].BuildProposal()
			if err != nil {
				c.Note("build proposal: " + err.Error())
				return
			}
			w.markProps[i] = d
		}
		pn.close()
	}
	data := w.markProps
	nw, err := newNetOnly(w, p, []uint32{2})
	if err != nil {
		c.Note("cannot build network: " + err.Error())
		return
	}
	defer nw.close()
	nd := nw.nodes[2]
	c.Eval()
	var terms, oks []string
	var first *MarkCall
	sched := &Schedule{Label: label, Params: p, Marks: calls}
	for i, mc := range calls {
		if mc.Proposer > 1 {
			continue
		}
		var err error
		switch mc.Op {
		case "add":
			err = nd.PoolAddProposal(data[mc.Proposer])
			terms = append(terms, fmt.Sprintf("MkAdd %s 0", cN(mc.Proposer)))
		case "endorse":
			err = nd.PoolSetEndorsed(data[mc.Proposer], mc.ForEmpty)
			terms = append(terms, fmt.Sprintf("MkEndorse %s 0 %s", cN(mc.Proposer), hx.CoqBool(mc.ForEmpty)))
		case "commit":
			err = nd.PoolSetCommitted(data[mc.Proposer], mc.ForEmpty)
			terms = append(terms, fmt.Sprintf("MkCommit %s 0 %s", cN(mc.Proposer), hx.CoqBool(mc.ForEmpty)))
			if err == nil {
				if first == nil {
					f := mc
					first = &f
				} else if first.Proposer != mc.Proposer || first.ForEmpty != mc.ForEmpty {
					c.Count("pool:second-commit-accepted")
					c.Fail("safety:honest-node-two-commit-marks",
						"setProposalCommitted succeeded for another (proposer, kind) after a commit mark was set",
						sched, fmt.Sprintf("call %d %+v returned nil after %+v", i, mc, *first), "an error: one commit per height")
				}
			}
		default:
			continue
		}
		c.Count("pool:" + mc.Op)
		if err != nil {
			c.Count("pool:" + mc.Op + ":error")
		}
		oks = append(oks, hx.CoqBool(err == nil))
	}
	m := nd.Marks()
	if m.Committed != nil && m.CommittedEmpty != nil {
		c.Count("pool:two-commit-marks")
		c.Fail("safety:honest-node-two-commit-marks", "the pool holds a block commit mark and an empty-block commit mark for one height",
			sched, fmt.Sprintf("CommittedProposal of %d and CommittedEmptyProposal of %d", m.Committed.Proposer, m.CommittedEmpty.Proposer),
			"exactly one commit mark")
	}
	ref := func(p *uint32) string { return coqOptPK(p) }
	pp := func(has bool, v uint32) *uint32 {
		if !has {
			return nil
		}
		return &v
	}
	var en, ee, cb, ce *uint32
	if m.Endorsed != nil {
		en = pp(true, m.Endorsed.Proposer)
	}
	if m.EndorsedEmpty != nil {
		ee = pp(true, m.EndorsedEmpty.Proposer)
	}
	if m.Committed != nil {
		cb = pp(true, m.Committed.Proposer)
	}
	if m.CommittedEmpty != nil {
		ce = pp(true, m.CommittedEmpty.Proposer)
	}
	if first != nil {
		c.Nontrivial("marks|" + strings.Join(terms, ";"))
	}
	c.Case(fmt.Sprintf("CMarks %s %s %s %s %s %s", hx.CoqList(terms), hx.CoqList(oks), ref(en), ref(ee), ref(cb), ref(ce)),
		map[string]interface{}{"kind": "pool-marks", "calls": calls, "schedule": label})
}

// marksCases: every ordered pair of the eight mark calls, every ordered triple of the four commit
// calls, pairs without a candidate, and random longer mixes.
func marksCases(c *hx.Ctx, w *world) {
	var all, commits []MarkCall
	for _, op := range []string{"endorse", "commit"} {
		for p := uint32(0); p < 2; p++ {
			for _, e := range []bool{false, true} {
				mc := MarkCall{Op: op, Proposer: p, ForEmpty: e}
				all = append(all, mc)
				if op == "commit" {
					commits = append(commits, mc)
				}
			}
		}
	}
	adds := []MarkCall{{Op: "add", Proposer: 0}, {Op: "add", Proposer: 1}}
	for _, a := range all {
		for _, b := range all {
			runMarks(c, w, append(append([]MarkCall{}, adds...), a, b), "marks/pairs")
		}
	}
	for _, a := range commits {
		for _, b := range commits {
			for _, d := range commits {
				runMarks(c, w, append(append([]MarkCall{}, adds...), a, b, d), "marks/commit-triples")
			}
		}
		runMarks(c, w, []MarkCall{a, adds[0], a}, "marks/no-candidate")
	}
	for i := c.N(60, 600); i > 0; i-- {
		seq := append([]MarkCall{}, adds[:1+c.Intn(2)]...)
		for k := 3 + c.Intn(5); k > 0; k-- {
			seq = append(seq, all[c.Intn(len(all))])
		}
		runMarks(c, w, seq, "marks/random")
	}
}
