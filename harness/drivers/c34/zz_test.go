package c34

import (
	"fmt"
	"os"
	"testing"

	"github.com/ontio/ontology/common/log"
)

func TestWitness(t *testing.T) {
	log.InitLog(log.FatalLog, os.Stderr)
	w, err := newWorld()
	if err != nil {
		t.Fatal(err)
	}
	for k := 1; k <= 5; k++ {
		s, err := witness(w, k)
		if err != nil {
			t.Fatal(err)
		}
		nw, _ := newNet(w, s.Params)
		for _, e := range s.Events {
			nw.apply(e)
		}
		fmt.Println(s.Label, "sealed:", nw.sealedBlocks(), "errs:", nw.errs, "packets:", len(nw.net))
		for _, idx := range s.Params.Peers {
			fmt.Println("  signed", idx, nw.signed[idx])
		}
		nw.close()
	}
}
