package c34

import (
	"fmt"
	"strings"

	"github.com/ontio/ontology/common"
	"github.com/ontio/ontology/consensus/vbft"

	"verif/harness/hx"
)

// ---------- Coq printers ----------

func cN(v uint32) string { return hx.CoqN(uint64(v)) }

func (b mBlk) coq() string {
	return fmt.Sprintf("(mkBlk %s %d %s)", cN(b.P), b.K, hx.CoqBool(b.E))
}
func (sg mSig) coq() string { return fmt.Sprintf("(%s, %s)", cN(sg.Signer), sg.B.coq()) }

func (m mMsg) coq() string {
	switch m.Kind {
	case "proposal":
		return fmt.Sprintf("(MProposal %s %d %s)", cN(m.P), m.K, cN(m.Signer))
	case "endorse":
		return fmt.Sprintf("(MEndorse %s %s %s %s %s)", cN(m.Claimed), cN(m.P), hx.CoqBool(m.ForEmpty), m.H.coq(), m.S.coq())
	}
	var es []string
	for _, e := range m.Ends {
		es = append(es, fmt.Sprintf("(%s, %s)", cN(e.Idx), e.S.coq()))
	}
	return fmt.Sprintf("(MCommit %s %s %s %s %s %s)", cN(m.Claimed), cN(m.P), hx.CoqBool(m.ForEmpty), m.H.coq(), m.S.coq(), hx.CoqList(es))
}

func coqMsgs(l []mMsg) string {
	var it []string
	for _, m := range l {
		it = append(it, m.coq())
	}
	return hx.CoqList(it)
}

func coqNs(l []uint32) string {
	var it []string
	for _, v := range l {
		it = append(it, cN(v))
	}
	return hx.CoqList(it)
}

func (p Params) coq() string {
	return fmt.Sprintf("(mkParams %s %s %s %s %s %s %s)", cN(p.N), cN(p.C), coqNs(p.Peers), coqNs(p.Byz),
		coqNs(p.Proposers), coqNs(p.Endorsers), coqNs(p.Committers))
}

// ---------- running a schedule on the real nodes ----------

func (nw *netw) refPK(r *vbft.VerifC34Ref) (uint32, int) {
	b := nw.blkOf(r.Hash)
	return r.Proposer, b.K
}

func (nw *netw) marksTerm(nd *vbft.VerifC34Node) (string, *mBlk) {
	m := nd.Marks()
	opt := func(r *vbft.VerifC34Ref) string {
		if r == nil {
			return "None"
		}
		p, k := nw.refPK(r)
		return fmt.Sprintf("(Some (%s, %d))", cN(p), k)
	}
	com := opt(m.Committed) + " " + opt(m.CommittedEmpty)
	sealed := "None"
	var sb *mBlk
	if m.Sealed {
		b := nw.blkOf(m.SealedHash)
		sb = &b
		sealed = fmt.Sprintf("(Some %s)", b.coq())
	}
	return fmt.Sprintf("%s %s %s %s %s", opt(m.Endorsed), opt(m.EndorsedEmpty), com, hx.CoqBool(m.CommitDone), sealed), sb
}

// observe records the node's state after a local event; sent are the messages it handed to its
// send loop during the event.
func (nw *netw) observe(idx uint32, ev string, needOrd bool, sent []vbft.VerifC34Sent) {
	nd := nw.nodes[idx]
	o := nodeObs{Ev: ev, NeedOrd: needOrd}
	for _, sm := range sent {
		dup := false
		for _, pk := range nw.net {
			if pk.From == idx && string(pk.Data) == string(sm.Data) {
				dup = true // a proposer re-broadcasting its proposal
			}
		}
		if dup {
			continue
		}
		m, err := nw.abstract(sm.Data)
		if err != nil {
			nw.errs = append(nw.errs, "abstract sent: "+err.Error())
			continue
		}
		nw.net = append(nw.net, packet{From: idx, Data: sm.Data, M: m})
		nw.noteSigs(sm.Data, m)
		o.Outs = append(o.Outs, m)
	}
	o.Marks, _ = nw.marksTerm(nd)
	q, err := nd.Queue()
	if err != nil {
		nw.errs = append(nw.errs, "queue: "+err.Error())
	}
	for _, data := range q {
		m, err := nw.abstract(data)
		if err != nil {
			nw.errs = append(nw.errs, "abstract queue: "+err.Error())
			continue
		}
		o.Queue = append(o.Queue, m)
	}
	for _, a := range nd.Actions() {
		if a.Kind == "other" || a.Ref == nil {
			continue
		}
		p, k := nw.refPK(a.Ref)
		c := "ASeal"
		if a.Kind == "endorse" {
			c = "AEndorse"
		}
		o.Actions = append(o.Actions, fmt.Sprintf("%s %s %d %s", c, cN(p), k, hx.CoqBool(a.ForEmpty)))
	}
	nw.trace[idx] = append(nw.trace[idx], o)
	// ground truth of what this node's key signed
	note := func(sg mSig) {
		if sg.Signer != idx {
			return
		}
		for _, b := range nw.signed[idx] {
			if b == sg.B {
				return
			}
		}
		nw.signed[idx] = append(nw.signed[idx], sg.B)
	}
	for _, m := range append(append([]mMsg{}, o.Outs...), o.Queue...) {
		switch m.Kind {
		case "proposal":
			if m.Signer == idx {
				note(mSig{idx, mBlk{m.P, m.K, false}})
				note(mSig{idx, mBlk{m.P, m.K, true}})
			}
		default:
			note(m.S)
		}
	}
}

func (nw *netw) hashOf(r BlockRef) (common.Uint256, bool) {
	if r.Bogus > 0 {
		var h common.Uint256
		for i := range h {
			h[i] = byte(0xB0 + i)
		}
		h[0], h[1] = byte(r.Bogus), byte(r.Proposer)
		return h, true
	}
	h, ok := nw.hashes[mBlk{r.Proposer, r.Variant, r.Empty}]
	return h, ok
}

func (nw *netw) mkSig(sp SigSpec) ([]byte, bool) {
	switch {
	case sp.Key == -1:
		return nw.w.garbage, true
	case sp.Key == -2:
		b, ok := nw.seenSig[fmt.Sprintf("%d/%d/%d/%v", sp.Replay, sp.Block.Proposer, sp.Block.Variant, sp.Block.Empty)]
		return b, ok
	case sp.Key >= 0 && sp.Key < len(nw.p.Peers) && nw.isByz[nw.p.Peers[sp.Key]]:
		h, ok := nw.hashOf(sp.Block)
		if !ok {
			return nil, false
		}
		return nw.sign(sp.Key, h), true
	}
	return nil, false
}

// byzSend builds the faulty peer's message with real keys and puts it on the network.
func (nw *netw) byzSend(from uint32, bm *ByzMsg) bool {
	if !nw.isByz[from] {
		return false
	}
	var data []byte
	var err error
	switch bm.Kind {
	case "proposal":
		key := fmt.Sprintf("%d/%d", from, bm.Variant)
		d, ok := nw.props[key]
		if !ok {
			if bm.Variant != nw.nprops[from] {
				return false
			}
			d, err = nw.nodes[from].BuildProposal()
			if err != nil {
				nw.errs = append(nw.errs, "build proposal: "+err.Error())
				return false
			}
			if _, _, err = nw.registerProposal(d); err != nil {
				return false
			}
		}
		data = d
	case "endorse":
		h, ok := nw.hashOf(bm.Hash)
		sg, ok2 := nw.mkSig(bm.Sig)
		if !ok || !ok2 {
			return false
		}
		data, err = vbft.VerifC31EndorseMsg(bm.Claimed, bm.Proposer, blkNum, h, bm.ForEmpty, nil, sg)
	case "commit":
		h, ok := nw.hashOf(bm.Hash)
		sg, ok2 := nw.mkSig(bm.Sig)
		if !ok || !ok2 {
			return false
		}
		ends := map[uint32][]byte{}
		for _, e := range bm.Ends {
			b, ok := nw.mkSig(e.Sig)
			if !ok {
				return false
			}
			ends[e.Idx] = b
		}
		data, err = vbft.VerifC31CommitMsg(bm.Claimed, bm.Proposer, blkNum, h, bm.ForEmpty, nil, ends, sg)
	default:
		return false
	}
	if err != nil {
		nw.errs = append(nw.errs, "byz build: "+err.Error())
		return false
	}
	for _, pk := range nw.net {
		if pk.From == from && string(pk.Data) == string(data) {
			return true
		}
	}
	m, err := nw.abstract(data)
	if err != nil {
		nw.errs = append(nw.errs, "abstract byz: "+err.Error())
		return false
	}
	nw.net = append(nw.net, packet{From: from, Data: data, M: m})
	nw.noteSigs(data, m)
	return true
}

var timerNames = []string{"TPropose", "TEndorse", "TEndorseEmpty", "TCommit"}

// apply runs one event; false when the event is not applicable (it is then a no-op).
func (nw *netw) apply(e Event) bool {
	if e.Kind == "byz" {
		return e.Byz != nil && nw.byzSend(e.Node, e.Byz)
	}
	if !nw.honest(e.Node) {
		return false
	}
	nd := nw.nodes[e.Node]
	switch e.Kind {
	case "propose":
		if _, err := nd.Propose(); err != nil {
			nw.errs = append(nw.errs, "propose: "+err.Error())
		}
		sent, _ := nd.Drain()
		nw.observe(e.Node, "LPropose", false, sent)
	case "net":
		if e.Pkt < 0 || e.Pkt >= len(nw.net) {
			return false
		}
		pk := nw.net[e.Pkt]
		nd.StepNet(pk.From, pk.Data)
		sent, _ := nd.Drain()
		nw.observe(e.Node, "LNet", false, sent)
		tr := nw.trace[e.Node]
		m := pk.M
		tr[len(tr)-1].Net, tr[len(tr)-1].NetFrom = &m, pk.From
	case "proc":
		nd.StepProc()
		sent, _ := nd.Drain()
		nw.observe(e.Node, "LProc", true, sent)
	case "act":
		nd.StepAct()
		sent, _ := nd.Drain()
		nw.observe(e.Node, "LAct", false, sent)
	case "peek":
		if p, fe, ok := nd.PeekCommit(e.Timer); ok {
			nw.intent[e.Node] = &Late{Proposer: p, ForEmpty: fe}
		} else {
			delete(nw.intent, e.Node)
		}
	case "late":
		if e.Late == nil {
			return false
		}
		nd.CommitLate(e.Late.Proposer, e.Late.ForEmpty)
		sent, _ := nd.Drain()
		nw.observe(e.Node, fmt.Sprintf("LCommitLate %s %s", cN(e.Late.Proposer), hx.CoqBool(e.Late.ForEmpty)), false, sent)
	case "timer":
		if e.Timer < 0 || e.Timer > 3 {
			return false
		}
		nd.StepTimer(e.Timer)
		sent, _ := nd.Drain()
		nw.observe(e.Node, "LTimer "+timerNames[e.Timer], true, sent)
	default:
		return false
	}
	return true
}

// sealedBlocks: what every honest node sealed (ground truth by hash).
func (nw *netw) sealedBlocks() map[uint32]mBlk {
	out := map[uint32]mBlk{}
	for _, idx := range nw.p.Peers {
		if !nw.honest(idx) {
			continue
		}
		if _, sb := nw.marksTerm(nw.nodes[idx]); sb != nil {
			out[idx] = *sb
		}
	}
	return out
}

// msgTable assigns indices to the messages of one node's trace.
type msgTable struct {
	idx   map[string]int
	terms []string
}

func (t *msgTable) of(m mMsg) string {
	k := m.key()
	i, ok := t.idx[k]
	if !ok {
		i = len(t.terms)
		t.idx[k] = i
		t.terms = append(t.terms, m.coq())
	}
	return fmt.Sprintf("%d", i)
}

func (t *msgTable) list(l []mMsg) string {
	var it []string
	for _, m := range l {
		it = append(it, t.of(m))
	}
	return hx.CoqList(it)
}

func obsTerm(t *msgTable, o nodeObs) string {
	ev := "X" + o.Ev
	if o.Net != nil {
		ev = fmt.Sprintf("XLNet %s %s", cN(o.NetFrom), t.of(*o.Net))
	}
	return fmt.Sprintf("(%s, mkObs %s %s %s %s)", ev, t.list(o.Outs), o.Marks, t.list(o.Queue),
		"["+strings.Join(o.Actions, "; ")+"]")
}
