package c34

// The implementation side: a network of REAL VBFT nodes (consensus/vbft Server + BlockPool +
// MsgPool behind the add-only hook verif_hooks_c34.go) at one height, moved one event at a time by
// a replayable schedule; faulty peers inject messages built with real keys. Everything is observed
// through real serialization and real signature verification.

import (
	"fmt"
	"sort"

	"github.com/ontio/ontology-crypto/keypair"
	s "github.com/ontio/ontology-crypto/signature"
	"github.com/ontio/ontology/account"
	"github.com/ontio/ontology/common"
	"github.com/ontio/ontology/consensus/vbft"
	"github.com/ontio/ontology/core/signature"
)

const blkNum = 9
const garbSigner = 1000 // model index for signature bytes that verify under no consensus key
const bogusProposer = 4000

// ---------- replayable input ----------

type Params struct {
	N          uint32   `json:"n"`
	C          uint32   `json:"c"`
	Peers      []uint32 `json:"peers"`
	Byz        []uint32 `json:"byz"`
	Proposers  []uint32 `json:"proposers"`
	Endorsers  []uint32 `json:"endorsers"`
	Committers []uint32 `json:"committers"`
}

// BlockRef names a block: the block (or empty block) of the Variant-th proposal of Proposer.
// Bogus > 0 names a 32-byte value that is no block hash at all.
type BlockRef struct {
	Proposer uint32 `json:"p"`
	Variant  int    `json:"k"`
	Empty    bool   `json:"e"`
	Bogus    int    `json:"bogus,omitempty"`
}

// SigSpec: Key >= 0: signed now with the key of that peer (only faulty peers' keys are allowed);
// Key = -1: garbage bytes; Key = -2: replay the signature of peer Replay over Block seen on the
// network (skipped when none was seen).
type SigSpec struct {
	Key    int      `json:"key"`
	Replay uint32   `json:"replay,omitempty"`
	Block  BlockRef `json:"block"`
}

type EndSpec struct {
	Idx uint32  `json:"idx"`
	Sig SigSpec `json:"sig"`
}

// ByzMsg is a message a faulty peer sends.
type ByzMsg struct {
	Kind     string    `json:"kind"` // proposal | endorse | commit
	Variant  int       `json:"variant"`
	Claimed  uint32    `json:"claimed"`
	Proposer uint32    `json:"proposer"`
	ForEmpty bool      `json:"for_empty"`
	Hash     BlockRef  `json:"hash"`
	Sig      SigSpec   `json:"sig"`
	Ends     []EndSpec `json:"ends"`
}

// Event is one step of a schedule.
//   propose: honest Node makes its proposal
//   net:     packet number Pkt of the network (in sending order) reaches honest Node
//   proc:    Node's processMsgEvent takes one message from msgC
//   act:     Node's action loop takes one action
//   timer:   timeout Timer fires at Node (0 proposal, 1 endorse, 2 empty-endorse, 3 commit)
//   byz:     faulty Node sends Byz
type Event struct {
	Kind  string  `json:"kind"`
	Node  uint32  `json:"node"`
	Pkt   int     `json:"pkt,omitempty"`
	Timer int     `json:"timer,omitempty"`
	Byz   *ByzMsg `json:"byz,omitempty"`
	Late  *Late   `json:"late,omitempty"`
}

// Late: the rest of a commitBlock whose decision (Proposer, ForEmpty) and pre-check were made
// earlier by another loop of the node (event kind "late"; "peek" with Timer 1 or 2 makes the decision
// of the endorse / empty-endorse timeout handler now, read-only, for a later "late").
type Late struct {
	Proposer uint32 `json:"proposer"`
	ForEmpty bool   `json:"for_empty"`
}

// MarkCall is one call on the real BlockPool of a fresh node (pool-level schedules): add =
// newBlockProposal, endorse = setProposalEndorsed, commit = setProposalCommitted, for the proposal
// of Proposer (0 = the leader's, 1 = the second proposer's).
type MarkCall struct {
	Op       string `json:"op"`
	Proposer uint32 `json:"proposer"`
	ForEmpty bool   `json:"for_empty"`
}

type Schedule struct {
	Label  string  `json:"label"`
	Params Params  `json:"params"`
	Events []Event `json:"events"`
	Marks  []MarkCall `json:"marks,omitempty"`
}

// ---------- model-side terms ----------

type mBlk struct {
	P uint32
	K int
	E bool
}
type mSig struct {
	Signer uint32
	B      mBlk
}
type mEnd struct {
	Idx uint32
	S   mSig
}
type mMsg struct {
	Kind     string // proposal | endorse | commit
	P        uint32 // proposer
	K        int    // proposal: content id
	Signer   uint32 // proposal: who signed the header
	Claimed  uint32
	ForEmpty bool
	H        mBlk
	S        mSig
	Ends     []mEnd
}

func (m mMsg) key() string { return fmt.Sprintf("%+v", m) }

// ---------- the world: keys and ground truth ----------

type world struct {
	accts   []*account.Account
	garbage []byte
	nver    int
	vcache  map[string]bool
	prev    *vbft.Block
	markProps [2][]byte // the two proposals of the pool-level schedules
}

const maxPeers = 10

func newWorld() (*world, error) {
	vbft.VerifC34Init()
	w := &world{vcache: map[string]bool{}}
	for i := 0; i < maxPeers; i++ {
		w.accts = append(w.accts, account.NewAccount(""))
	}
	w.garbage = make([]byte, 65)
	for i := range w.garbage {
		w.garbage[i] = byte(41*i + 7)
	}
	prev, err := vbft.VerifC34PrevBlock(blkNum)
	if err != nil {
		return nil, err
	}
	w.prev = prev
	return w, nil
}

func (w *world) verifies(key int, h common.Uint256, sig []byte) bool {
	k := fmt.Sprintf("%d/%x/%x", key, h[:], sig)
	if v, ok := w.vcache[k]; ok {
		return v
	}
	w.nver++
	v := false
	if sg, err := s.Deserialize(sig); err == nil {
		v = s.Verify(w.accts[key].PublicKey, h[:], sg)
	}
	w.vcache[k] = v
	return v
}

// ---------- one network ----------

type packet struct {
	From uint32
	Data []byte
	M    mMsg
}

type nodeObs struct { // after one local event
	Ev      string // Coq levent without the iteration order
	Net     *mMsg  // LNet: the message and its sender
	NetFrom uint32
	NeedOrd bool
	Outs    []mMsg
	Marks   string // Coq term
	Queue   []mMsg
	Actions []string
}

type netw struct {
	w       *world
	p       Params
	pos     map[uint32]int
	isByz   map[uint32]bool
	nodes   map[uint32]*vbft.VerifC34Node // honest nodes and faulty ones (the latter only to build proposals)
	net     []packet
	blocks  map[common.Uint256]mBlk // hash -> block id
	hashes  map[mBlk]common.Uint256
	props   map[string][]byte // "p/k" -> serialized proposal
	nprops  map[uint32]int
	bogus   int
	seenSig map[string][]byte // "signer/p/k/e" -> bytes of a signature seen on the network
	sigCache map[string][]byte
	intent   map[uint32]*Late
	trace   map[uint32][]nodeObs
	signed  map[uint32][]mBlk // ground truth: blocks signed by each honest node's key (from its messages)
	errs    []string
}

func has(l []uint32, x uint32) bool {
	for _, y := range l {
		if y == x {
			return true
		}
	}
	return false
}

func newNet(w *world, p Params) (*netw, error) { return newNetOnly(w, p, nil) }

// newNetOnly builds only the nodes listed in only (nil: all).
func newNetOnly(w *world, p Params, only []uint32) (*netw, error) {
	if len(p.Peers) > maxPeers {
		return nil, fmt.Errorf("too many peers")
	}
	nw := &netw{w: w, p: p, pos: map[uint32]int{}, isByz: map[uint32]bool{}, nodes: map[uint32]*vbft.VerifC34Node{},
		blocks: map[common.Uint256]mBlk{}, hashes: map[mBlk]common.Uint256{}, props: map[string][]byte{}, nprops: map[uint32]int{},
		seenSig: map[string][]byte{}, sigCache: map[string][]byte{}, intent: map[uint32]*Late{}, trace: map[uint32][]nodeObs{}, signed: map[uint32][]mBlk{}}
	var pubs []keypair.PublicKey
	for i, idx := range p.Peers {
		nw.pos[idx] = i
		pubs = append(pubs, w.accts[i].PublicKey)
	}
	for _, b := range p.Byz {
		nw.isByz[b] = true
	}
	for i, idx := range p.Peers {
		if only != nil && !has(only, idx) {
			continue
		}
		nd, err := vbft.VerifC34NewNode(w.accts[i], idx, p.N, p.C, p.Peers, pubs, p.Proposers, p.Endorsers, p.Committers, blkNum, w.prev)
		if err != nil {
			return nil, err
		}
		nw.nodes[idx] = nd
	}
	return nw, nil
}

func (nw *netw) close() {
	for _, nd := range nw.nodes {
		nd.Close()
	}
}

func (nw *netw) honest(i uint32) bool { _, ok := nw.pos[i]; return ok && !nw.isByz[i] }

// registerProposal records the two block hashes of a proposal as (p, k, false/true).
func (nw *netw) registerProposal(data []byte) (uint32, int, error) {
	p, bh, eh, err := vbft.VerifC34ProposalInfo(data)
	if err != nil {
		return 0, 0, err
	}
	if b, ok := nw.blocks[bh]; ok {
		return b.P, b.K, nil
	}
	k := nw.nprops[p]
	nw.nprops[p] = k + 1
	nw.blocks[bh] = mBlk{p, k, false}
	nw.blocks[eh] = mBlk{p, k, true}
	nw.hashes[mBlk{p, k, false}] = bh
	nw.hashes[mBlk{p, k, true}] = eh
	nw.props[fmt.Sprintf("%d/%d", p, k)] = data
	return p, k, nil
}

func (nw *netw) blkOf(h common.Uint256) mBlk {
	if b, ok := nw.blocks[h]; ok {
		return b
	}
	nw.bogus++
	b := mBlk{bogusProposer + uint32(nw.bogus), 0, false}
	nw.blocks[h] = b
	nw.hashes[b] = h
	return b
}

// whoSigned is the ground truth for signature bytes: the consensus peer and known block under
// which they verify (over the hash the message carries first, then over every known hash).
func (nw *netw) whoSigned(sig []byte, first common.Uint256) mSig {
	try := func(h common.Uint256) (uint32, bool) {
		for i, idx := range nw.p.Peers {
			if nw.w.verifies(i, h, sig) {
				return idx, true
			}
		}
		return 0, false
	}
	if idx, ok := try(first); ok {
		return mSig{idx, nw.blkOf(first)}
	}
	var hs []common.Uint256
	for h := range nw.blocks {
		hs = append(hs, h)
	}
	sort.Slice(hs, func(i, j int) bool { return string(hs[i][:]) < string(hs[j][:]) })
	for _, h := range hs {
		if h == first {
			continue
		}
		if idx, ok := try(h); ok {
			return mSig{idx, nw.blocks[h]}
		}
	}
	return mSig{garbSigner, nw.blkOf(first)}
}

// abstract maps a serialized message to its model term.
func (nw *netw) abstract(data []byte) (mMsg, error) {
	v, err := vbft.VerifC34Decode(data)
	if err != nil {
		return mMsg{}, err
	}
	switch v.Type {
	case vbft.BlockProposalMessage:
		p, k, err := nw.registerProposal(data)
		if err != nil {
			return mMsg{}, err
		}
		sg := nw.whoSigned(v.ProposerSig, v.Hash)
		return mMsg{Kind: "proposal", P: p, K: k, Signer: sg.Signer}, nil
	case vbft.BlockEndorseMessage:
		return mMsg{Kind: "endorse", Claimed: v.Claimed, P: v.Proposer, ForEmpty: v.ForEmpty, H: nw.blkOf(v.Hash),
			S: nw.whoSigned(v.Sig, v.Hash)}, nil
	case vbft.BlockCommitMessage:
		m := mMsg{Kind: "commit", Claimed: v.Claimed, P: v.Proposer, ForEmpty: v.ForEmpty, H: nw.blkOf(v.Hash),
			S: nw.whoSigned(v.Sig, v.Hash)}
		var ks []uint32
		for k := range v.EndorsersSig {
			ks = append(ks, k)
		}
		sort.Slice(ks, func(i, j int) bool { return ks[i] < ks[j] })
		for _, k := range ks {
			m.Ends = append(m.Ends, mEnd{k, nw.whoSigned(v.EndorsersSig[k], v.Hash)})
		}
		return m, nil
	}
	return mMsg{}, fmt.Errorf("unexpected message type")
}

// noteSigs remembers the signature bytes a packet carries (for replay by faulty peers).
func (nw *netw) noteSigs(data []byte, m mMsg) {
	v, err := vbft.VerifC34Decode(data)
	if err != nil {
		return
	}
	put := func(sg mSig, b []byte) {
		k := fmt.Sprintf("%d/%d/%d/%v", sg.Signer, sg.B.P, sg.B.K, sg.B.E)
		if _, ok := nw.seenSig[k]; !ok {
			nw.seenSig[k] = b
		}
	}
	switch m.Kind {
	case "endorse", "commit":
		put(m.S, v.Sig)
		for _, e := range m.Ends {
			put(e.S, v.EndorsersSig[e.Idx])
		}
	}
}

func (nw *netw) sign(key int, h common.Uint256) []byte {
	k := fmt.Sprintf("%d/%x", key, h[:])
	if sg, ok := nw.sigCache[k]; ok {
		return sg
	}
	sg, err := signature.Sign(nw.w.accts[key], h[:])
	if err != nil {
		panic(err)
	}
	nw.sigCache[k] = sg
	return sg
}
