package c34

// The five schedules of the Coq refutations (Props/C34.v), built against the real nodes so that
// the packet numbers of the replayable form are the real ones. N = 4, C = 1, the participant
// configuration calcParticipantPeers yields for peers [0 1 2 3]: proposers [0 1], endorsers
// [2 1 3], committers [3 1 2].

func params4(byz ...uint32) Params {
	return Params{N: 4, C: 1, Peers: []uint32{0, 1, 2, 3}, Byz: byz,
		Proposers: []uint32{0, 1}, Endorsers: []uint32{2, 1, 3}, Committers: []uint32{3, 1, 2}}
}

type builder struct {
	nw  *netw
	evs []Event
}

func (b *builder) do(e Event) {
	b.nw.apply(e)
	b.evs = append(b.evs, e)
}
func (b *builder) propose(n uint32)    { b.do(Event{Kind: "propose", Node: n}) }
func (b *builder) proc(n uint32, k int) {
	for i := 0; i < k; i++ {
		b.do(Event{Kind: "proc", Node: n})
	}
}
func (b *builder) act(n uint32)          { b.do(Event{Kind: "act", Node: n}) }
func (b *builder) timer(n uint32, t int) { b.do(Event{Kind: "timer", Node: n, Timer: t}) }
func (b *builder) peek(n uint32, t int) { b.do(Event{Kind: "peek", Node: n, Timer: t}) }
func (b *builder) late(n uint32) {
	if in := b.nw.intent[n]; in != nil {
		l := *in
		b.do(Event{Kind: "late", Node: n, Late: &l})
	}
}
func (b *builder) byz(n uint32, m ByzMsg) {
	mm := m
	b.do(Event{Kind: "byz", Node: n, Byz: &mm})
}

// deliver the latest packet from `from` of the given kind naming proposer p with the given flag.
func (b *builder) deliver(to, from uint32, kind string, p uint32, empty bool) {
	idx := -1
	for i, pk := range b.nw.net {
		if pk.From == from && pk.M.Kind == kind && pk.M.P == p && (kind == "proposal" || pk.M.ForEmpty == empty) {
			idx = i
		}
	}
	b.do(Event{Kind: "net", Node: to, Pkt: idx})
}

// deliverK: same, for the k-th proposal of p
func (b *builder) deliverProposal(to, p uint32, k int) {
	idx := -1
	for i, pk := range b.nw.net {
		if pk.M.Kind == "proposal" && pk.M.P == p && pk.M.K == k {
			idx = i
		}
	}
	b.do(Event{Kind: "net", Node: to, Pkt: idx})
}

func ref(p uint32, k int, e bool) BlockRef { return BlockRef{Proposer: p, Variant: k, Empty: e} }

func own(key int, r BlockRef) SigSpec { return SigSpec{Key: key, Block: r} }
func garbage(r BlockRef) SigSpec      { return SigSpec{Key: -1, Block: r} }

// witness builds schedule number k (1..5) on a fresh network.
func witness(w *world, k int) (*Schedule, error) {
	var p Params
	switch k {
	case 1, 2, 5:
		p = params4(3)
	case 3:
		p = params4(0)
	default:
		p = params4()
	}
	nw, err := newNet(w, p)
	if err != nil {
		return nil, err
	}
	defer nw.close()
	b := &builder{nw: nw}
	label := ""
	switch k {
	case 1: // F10: forged EndorsersSig; 0 and 1 both propose, faulty 3 only sends commit messages
		label = "witness/unverified-endorsements"
		b.propose(0)
		b.proc(0, 1)
		b.propose(1)
		b.proc(1, 1)
		x0, x1 := ref(0, 0, false), ref(1, 0, false)
		b.byz(3, ByzMsg{Kind: "commit", Claimed: 3, Proposer: 0, Hash: x0, Sig: own(3, x0), Ends: []EndSpec{{1, garbage(x0)}, {2, garbage(x0)}}})
		b.byz(3, ByzMsg{Kind: "commit", Claimed: 3, Proposer: 1, Hash: x1, Sig: own(3, x1), Ends: []EndSpec{{0, garbage(x1)}, {2, garbage(x1)}}})
		b.deliver(0, 3, "commit", 0, false)
		b.proc(0, 1)
		b.act(0)
		b.deliver(1, 3, "commit", 1, false)
		b.proc(1, 1)
		b.act(1)
	case 2: // the proposer is counted twice: faulty 3 proposes and commits its own block
		label = "witness/proposer-counted-twice"
		b.propose(0)
		b.proc(0, 1)
		b.deliverProposal(1, 0, 0)
		b.proc(1, 3)
		x0, x3 := ref(0, 0, false), ref(3, 0, false)
		b.byz(3, ByzMsg{Kind: "commit", Claimed: 3, Proposer: 0, Hash: x0, Sig: own(3, x0)})
		b.deliver(1, 3, "commit", 0, false)
		b.proc(1, 1)
		b.act(1)
		b.byz(3, ByzMsg{Kind: "proposal", Variant: 0})
		b.deliverProposal(2, 3, 0)
		b.proc(2, 1)
		b.timer(2, 0)
		b.act(2)
		b.proc(2, 2)
		b.byz(3, ByzMsg{Kind: "commit", Claimed: 3, Proposer: 3, Hash: x3, Sig: own(3, x3)})
		b.deliver(2, 3, "commit", 3, false)
		b.proc(2, 1)
		b.act(2)
	case 3: // the faulty leader 0 signs two proposals; the pool never compares hashes
		label = "witness/proposer-equivocation"
		b.byz(0, ByzMsg{Kind: "proposal", Variant: 0})
		b.byz(0, ByzMsg{Kind: "proposal", Variant: 1})
		b.deliverProposal(1, 0, 0)
		b.proc(1, 3)
		b.deliverProposal(2, 0, 1)
		b.proc(2, 3)
		b.deliver(1, 2, "commit", 0, false)
		b.proc(1, 1)
		b.act(1)
		b.deliver(2, 1, "commit", 0, false)
		b.proc(2, 1)
		b.act(2)
	case 4: // NO faulty peer: leader 0 and second proposer 1 both propose; 2 commits X1 then endorses X0
		label = "witness/honest-cross-vote"
		b.propose(0)
		b.proc(0, 1)
		b.propose(1)
		b.proc(1, 1)
		b.deliverProposal(3, 1, 0)
		b.proc(3, 1)
		b.timer(3, 0)
		b.act(3)
		b.proc(3, 2)
		b.deliverProposal(2, 1, 0)
		b.deliver(2, 3, "endorse", 1, false)
		b.deliverProposal(2, 0, 0)
		b.proc(2, 5)
		b.act(2)
		b.deliverProposal(1, 0, 0)
		b.proc(1, 1)
		b.deliver(1, 2, "endorse", 0, false)
		b.proc(1, 1)
		b.deliver(0, 1, "commit", 0, false)
		b.proc(0, 1)
		b.act(0)
	case 5: // the for-empty verdict is a count over commit messages, not a quorum
		label = "witness/empty-flag"
		b.propose(0)
		b.proc(0, 1)
		b.deliverProposal(2, 0, 0)
		b.proc(2, 1)
		b.timer(2, 1)
		b.proc(2, 3)
		x0, x0e := ref(0, 0, false), ref(0, 0, true)
		b.byz(3, ByzMsg{Kind: "endorse", Claimed: 3, Proposer: 0, ForEmpty: true, Hash: x0e, Sig: own(3, x0e)})
		b.byz(3, ByzMsg{Kind: "commit", Claimed: 3, Proposer: 0, ForEmpty: true, Hash: x0e, Sig: own(3, x0e)})
		b.byz(3, ByzMsg{Kind: "commit", Claimed: 3, Proposer: 0, Hash: x0, Sig: own(3, x0)})
		b.deliverProposal(1, 0, 0)
		b.deliver(1, 3, "endorse", 0, true)
		b.deliver(1, 3, "commit", 0, true)
		b.deliver(1, 2, "endorse", 0, true)
		b.proc(1, 6)
		b.act(1)
		b.deliver(0, 2, "commit", 0, false)
		b.deliver(0, 3, "commit", 0, false)
		b.proc(0, 2)
		b.act(0)
	}
	return &Schedule{Label: label, Params: p, Events: b.evs}, nil
}

// probe builds deterministic schedules that are no violations but walk through pool rules the
// random generator seldom reaches (k = 1..3).
func probe(w *world, k int) (*Schedule, error) {
	if k == 4 {
		return probeCrossover(w)
	}
	if k == 5 {
		return probeRace(w)
	}
	p := params4(3)
	nw, err := newNet(w, p)
	if err != nil {
		return nil, err
	}
	defer nw.close()
	b := &builder{nw: nw}
	label := ""
	x0, x1 := ref(0, 0, false), ref(1, 0, false)
	x0e := ref(0, 0, true)
	b.propose(0)
	b.proc(0, 1)
	b.propose(1)
	b.proc(1, 1)
	b.deliverProposal(2, 1, 0) // the second proposer's first: no immediate endorsement
	b.deliverProposal(2, 0, 0)
	switch k {
	case 1: // an empty endorsement is sticky: later endorsements of the same endorser are ignored
		label = "probe/sticky-empty"
		b.byz(3, ByzMsg{Kind: "endorse", Claimed: 3, Proposer: 0, ForEmpty: true, Hash: x0e, Sig: own(3, x0e)})
		b.byz(3, ByzMsg{Kind: "endorse", Claimed: 3, Proposer: 1, Hash: x1, Sig: own(3, x1)})
		b.byz(3, ByzMsg{Kind: "endorse", Claimed: 3, Proposer: 0, Hash: x0, Sig: own(3, x0)})
		b.deliver(2, 3, "endorse", 0, true)
		b.deliver(2, 3, "endorse", 1, false)
		b.deliver(2, 3, "endorse", 0, false)
		b.proc(2, 7)
		b.act(2)
	case 2: // one committer, one commit: a second commit message with another hash is refused
		label = "probe/dup-commit"
		b.byz(3, ByzMsg{Kind: "commit", Claimed: 3, Proposer: 0, Hash: x0, Sig: own(3, x0)})
		b.byz(3, ByzMsg{Kind: "commit", Claimed: 3, Proposer: 1, Hash: x1, Sig: own(3, x1)})
		b.deliver(2, 3, "commit", 0, false)
		b.deliver(2, 3, "commit", 1, false)
		b.deliver(2, 3, "commit", 0, false)
		b.proc(2, 7)
		b.timer(2, 3)
		b.act(2)
	case 3: // one endorsement per proposer and endorser; several proposers per endorser are kept
		label = "probe/endorse-twice"
		b.byz(3, ByzMsg{Kind: "endorse", Claimed: 3, Proposer: 1, Hash: x1, Sig: own(3, x1)})
		b.byz(3, ByzMsg{Kind: "endorse", Claimed: 3, Proposer: 0, Hash: x0, Sig: own(3, x0)})
		b.deliver(2, 3, "endorse", 1, false)
		b.deliver(2, 3, "endorse", 0, false)
		b.deliver(2, 3, "endorse", 1, false)
		b.proc(2, 7)
		b.timer(2, 1)
		b.proc(2, 3)
		b.act(2)
	}
	return &Schedule{Label: label, Params: p, Events: b.evs}, nil
}

// probeCrossover: NO faulty peer, two proposals in one round, each gets one commitment, the
// commitments cross over. Leader 0 proposes A, its proposal reaches only 2, which endorses and
// commits A; second proposer 1 proposes B, which reaches only 3; 3's proposal timeout fires, it
// endorses and commits B. Then 2 gets B's proposal and 3's commitment, 3 gets A's proposal and 2's
// commitment. The tallies are per proposer (one committer each): nobody may seal.
func probeCrossover(w *world) (*Schedule, error) {
	p := params4()
	nw, err := newNet(w, p)
	if err != nil {
		return nil, err
	}
	defer nw.close()
	b := &builder{nw: nw}
	b.propose(0)
	b.proc(0, 1)
	b.propose(1)
	b.proc(1, 1)
	b.deliverProposal(2, 0, 0)
	b.proc(2, 3)
	b.deliverProposal(3, 1, 0)
	b.proc(3, 1)
	b.timer(3, 0)
	b.act(3)
	b.proc(3, 2)
	b.deliverProposal(2, 1, 0)
	b.deliver(2, 3, "commit", 1, false)
	b.proc(2, 2)
	b.act(2)
	b.deliverProposal(3, 0, 0)
	b.deliver(3, 2, "commit", 0, false)
	b.proc(3, 2)
	b.act(3)
	b.timer(2, 3)
	b.act(2)
	b.timer(3, 3)
	b.act(3)
	return &Schedule{Label: "probe/honest-two-proposals-crossover", Params: p, Events: b.evs}, nil
}

// probeRace: NO faulty peer; commitBlock's pre-check and the rest of commitBlock are not atomic.
// 1 and 3 endorse the leader's block, and (their endorse timeout firing before their own
// endorsement is processed) also its empty block, then commit the block. 2 receives the two empty
// endorsements before the proposal: its empty-endorse timeout handler decides to commit the EMPTY
// block and passes commitBlock's pre-check (peek); before it goes on, 2's message loop processes the
// two commitments of the block, sees the commit quorum and commits the BLOCK; then the timer loop
// runs the rest of its commitBlock (late). setProposalCommitted must refuse it: one commit per height.
func probeRace(w *world) (*Schedule, error) {
	p := params4()
	nw, err := newNet(w, p)
	if err != nil {
		return nil, err
	}
	defer nw.close()
	b := &builder{nw: nw}
	b.propose(0)
	b.proc(0, 1)
	for _, x := range []uint32{1, 3} {
		b.deliverProposal(x, 0, 0)
		b.proc(x, 1)
		b.timer(x, 1)
		b.proc(x, 3)
	}
	b.deliver(2, 1, "endorse", 0, true)
	b.deliver(2, 3, "endorse", 0, true)
	b.proc(2, 2)
	b.deliverProposal(2, 0, 0)
	b.peek(2, 2)
	b.deliver(2, 1, "commit", 0, false)
	b.deliver(2, 3, "commit", 0, false)
	b.proc(2, 4)
	b.late(2)
	b.proc(2, 3)
	b.act(2)
	return &Schedule{Label: "probe/commit-precheck-race", Params: p, Events: b.evs}, nil
}
