package c34

import (
	"fmt"

	"verif/harness/hx"
)

// roles gives the participant configuration calcParticipantPeers produces for a peer order pi
// (N = 4: C = 1; N = 7: C = 2), see node_utils.go.
func roles(pi []uint32) Params {
	n := uint32(len(pi))
	p := Params{N: n, C: (n - 1) / 3}
	for i := uint32(0); i < n; i++ {
		p.Peers = append(p.Peers, i)
	}
	if n == 4 {
		p.Proposers = []uint32{pi[0], pi[1]}
		p.Endorsers = []uint32{pi[2], pi[1], pi[3]}
		p.Committers = []uint32{pi[3], pi[1], pi[2]}
	} else {
		p.Proposers = []uint32{pi[0], pi[1], pi[2]}
		p.Endorsers = []uint32{pi[3], pi[4], pi[2], pi[6], pi[5]}
		p.Committers = []uint32{pi[5], pi[6], pi[1], pi[2], pi[4]}
	}
	return p
}

func perm(c *hx.Ctx, n int) []uint32 {
	out := make([]uint32, n)
	for i := range out {
		out[i] = uint32(i)
	}
	for i := n - 1; i > 0; i-- {
		j := c.Intn(i + 1)
		out[i], out[j] = out[j], out[i]
	}
	return out
}

// a faulty peer's next message, from what is on the network
func (r *runner) byzMsg(c *hx.Ctx, from uint32, mode string) *ByzMsg {
	nw := r.nw
	key := nw.pos[from]
	// blocks that exist
	var known []mBlk
	for b := range nw.hashes {
		if b.P < bogusProposer && !b.E {
			known = append(known, b)
		}
	}
	if len(known) == 0 || c.Intn(8) == 0 {
		v := nw.nprops[from]
		if v > 1 {
			v = c.Intn(2)
		}
		if mode == "no-equivocation" && v > 0 {
			v = 0
		}
		return &ByzMsg{Kind: "proposal", Variant: v}
	}
	// deterministic order for reproducibility
	for i := range known {
		for j := i + 1; j < len(known); j++ {
			a, b := known[i], known[j]
			if b.P < a.P || b.P == a.P && b.K < a.K {
				known[i], known[j] = b, a
			}
		}
	}
	t := known[c.Intn(len(known))]
	empty := mode != "no-empty" && c.Intn(5) == 0
	blk := BlockRef{Proposer: t.P, Variant: t.K, Empty: empty}
	m := &ByzMsg{Proposer: t.P, ForEmpty: empty, Hash: blk, Sig: own(key, blk), Claimed: from}
	if c.Intn(12) == 0 { // the message names another proposer than its hash
		m.Proposer = nw.p.Peers[c.Intn(len(nw.p.Peers))]
	}
	if c.Intn(10) == 0 && mode != "verified" { // claims to be somebody else
		m.Claimed = nw.p.Peers[c.Intn(len(nw.p.Peers))]
	}
	if c.Intn(25) == 0 && mode != "verified" {
		m.Hash = BlockRef{Proposer: t.P, Bogus: 1 + c.Intn(3)}
		m.Sig = own(key, m.Hash)
	}
	if c.Intn(3) == 0 {
		m.Kind = "endorse"
		return m
	}
	m.Kind = "commit"
	ne := c.Intn(4)
	if mode == "forge" {
		ne = 1 + c.Intn(int(nw.p.N))
	}
	seen := map[uint32]bool{}
	for i := 0; i < ne; i++ {
		idx := nw.p.Peers[c.Intn(len(nw.p.Peers))]
		if seen[idx] {
			continue
		}
		seen[idx] = true
		var sg SigSpec
		switch x := c.Intn(6); {
		case mode == "verified" || x < 2:
			sg = SigSpec{Key: -2, Replay: idx, Block: blk} // a genuine signature seen on the network
		case x < 4:
			sg = garbage(blk)
		default:
			sg = own(key, blk) // the faulty peer's own signature filed under another index
		}
		if mode == "verified" && idx == from {
			sg = own(key, blk)
		}
		m.Ends = append(m.Ends, EndSpec{idx, sg})
	}
	return m
}

// genAndRun generates schedule number i while running it (what can be delivered depends on what
// was sent) and then checks and records it.
func genAndRun(c *hx.Ctx, w *world, i int) {
	n := 4
	if i%9 == 8 {
		n = 7
	}
	p := roles(perm(c, n))
	modes := []string{"clean", "async", "partition", "byz", "byz", "forge", "verified", "no-equivocation", "no-empty", "byz-async", "partition", "async", "crossover", "crossover", "race", "race"}
	mode := modes[i%len(modes)]
	nbyz := 0
	switch mode {
	case "clean", "async", "partition", "crossover", "race":
	default:
		nbyz = 1 + c.Intn(int(p.C))
	}
	pp := perm(c, n)
	for k := 0; k < nbyz; k++ {
		p.Byz = append(p.Byz, pp[k])
	}
	if mode == "byz" && c.Intn(3) == 0 { // the leader is the faulty one
		p.Byz = []uint32{p.Proposers[0]}
	}
	r, err := newRunner(w, p)
	if err != nil {
		c.Note("cannot build network: " + err.Error())
		return
	}
	nw := r.nw
	var honest []uint32
	for _, idx := range p.Peers {
		if nw.honest(idx) {
			honest = append(honest, idx)
		}
	}
	if mode == "partition" {
		genPartition(c, r, honest, i)
		return
	}
	if mode == "crossover" {
		genCrossover(c, r, honest, i)
		return
	}
	if mode == "race" && n == 4 && i%2 == 0 {
		genRaceStructured(c, r, i)
		return
	}
	timers := mode == "race" || mode == "async" || mode == "byz-async" || mode == "byz" && c.Intn(2) == 0
	steps := 50 + c.Intn(70)
	if n == 7 {
		steps = 90 + c.Intn(60)
	}
	// the leader (when honest) usually proposes first
	if nw.honest(p.Proposers[0]) && c.Intn(8) > 0 {
		r.step(Event{Kind: "propose", Node: p.Proposers[0]})
	}
	for s := 0; s < steps; s++ {
		node := honest[c.Intn(len(honest))]
		if mode == "race" && c.Intn(100) < 25 {
			// the timer loop decides to commit and passes commitBlock's pre-check now; the rest of its
			// commitBlock runs later, after whatever the other loops do in between
			if nw.intent[node] == nil || c.Intn(3) == 0 {
				r.step(Event{Kind: "peek", Node: node, Timer: 1 + c.Intn(2)})
			} else if c.Intn(3) > 0 {
				// meanwhile the message loop goes on
				r.step(Event{Kind: "proc", Node: node})
			} else {
				r.step(Event{Kind: "late", Node: node})
				delete(nw.intent, node)
			}
			continue
		}
		switch x := c.Intn(100); {
		case x < 34:
			r.step(Event{Kind: "proc", Node: node})
		case x < 66:
			if len(nw.net) > 0 {
				k := c.Intn(len(nw.net))
				if c.Intn(3) > 0 { // prefer recent packets
					k = len(nw.net) - 1 - c.Intn(min(len(nw.net), 6))
				}
				if mode == "race" && nw.net[k].M.Kind == "proposal" && c.Intn(4) > 0 {
					// proposals arrive late: endorsements and commitments first
					for j := range nw.net {
						if nw.net[j].M.Kind != "proposal" && c.Intn(2) == 0 {
							k = j
						}
					}
				}
				r.step(Event{Kind: "net", Node: node, Pkt: k})
			}
		case x < 76:
			r.step(Event{Kind: "act", Node: node})
		case x < 80:
			if mode != "clean" && has(p.Proposers, node) && c.Intn(2) == 0 {
				r.step(Event{Kind: "propose", Node: node})
			}
		case x < 87:
			if timers {
				t := c.Intn(4)
				if mode == "no-empty" && (t == 1 || t == 2) {
					t = 0
				}
				r.step(Event{Kind: "timer", Node: node, Timer: t})
			}
		default:
			if len(p.Byz) > 0 {
				from := p.Byz[c.Intn(len(p.Byz))]
				if bm := r.byzMsg(c, from, mode); bm != nil {
					r.step(Event{Kind: "byz", Node: from, Byz: bm})
				}
			}
		}
	}
	// drain: let every node work off its queues a little, so that seals happen
	for round := 0; round < 3; round++ {
		for _, node := range honest {
			for k := 0; k < 4; k++ {
				r.step(Event{Kind: "proc", Node: node})
			}
			r.step(Event{Kind: "act", Node: node})
		}
	}
	r.finish(c, fmt.Sprintf("%s/%d", mode, i), i < 2)
}

func min(a, b int) int {
	if a < b {
		return a
	}
	return b
}

// genPartition: no faulty peer, the two first proposers both propose, and the network is split in
// two groups that only hear their own members (one group per proposal); inside a group everything
// is delivered and every handler runs; proposal and commit timeouts fire. Every side condition of
// the partial theorem holds in such a run, so no two nodes may seal different blocks.
func genPartition(c *hx.Ctx, r *runner, honest []uint32, i int) {
	nw := r.nw
	p := nw.p
	pa, pb := p.Proposers[0], p.Proposers[1]
	group := map[uint32]int{pa: 0, pb: 1}
	for _, n := range honest {
		if _, ok := group[n]; !ok {
			group[n] = c.Intn(2)
		}
	}
	r.step(Event{Kind: "propose", Node: pa})
	r.step(Event{Kind: "propose", Node: pb})
	delivered := map[string]bool{}
	steps := 120 + c.Intn(80)
	for s := 0; s < steps; s++ {
		node := honest[c.Intn(len(honest))]
		switch x := c.Intn(100); {
		case x < 40:
			r.step(Event{Kind: "proc", Node: node})
		case x < 75:
			// the oldest packet of the node's group it has not received yet
			for k, pk := range nw.net {
				key := fmt.Sprintf("%d/%d", node, k)
				if group[pk.From] == group[node] && pk.From != node && !delivered[key] {
					delivered[key] = true
					r.step(Event{Kind: "net", Node: node, Pkt: k})
					break
				}
			}
		case x < 85:
			r.step(Event{Kind: "act", Node: node})
		case x < 95:
			r.step(Event{Kind: "timer", Node: node, Timer: 0})
		default:
			r.step(Event{Kind: "timer", Node: node, Timer: 3})
		}
	}
	for round := 0; round < 3; round++ {
		for _, node := range honest {
			for k := 0; k < 4; k++ {
				r.step(Event{Kind: "proc", Node: node})
			}
			r.step(Event{Kind: "act", Node: node})
		}
	}
	r.finish(c, fmt.Sprintf("partition/%d", i), false)
}

// genCrossover: HONEST ONLY, adversarial delivery and timers. Two proposals in one round: the
// leader's proposal reaches only a subset, the second proposer's the rest (its back-off fired);
// each group endorses and commits what it saw (proposal timeouts fire); then everything crosses
// over, every node receiving the other group's proposals, endorsements and commitments in its own
// order (half of the nodes newest first), with commit timeouts in between.
func genCrossover(c *hx.Ctx, r *runner, honest []uint32, i int) {
	nw := r.nw
	p := nw.p
	pa, pb := p.Proposers[0], p.Proposers[1]
	group := map[uint32]int{pa: 0, pb: 1}
	for _, n := range honest {
		if _, ok := group[n]; !ok {
			group[n] = c.Intn(2)
		}
	}
	r.step(Event{Kind: "propose", Node: pa})
	r.step(Event{Kind: "propose", Node: pb})
	delivered := map[string]bool{}
	next := func(node uint32, cross, newestFirst bool) bool {
		idx := -1
		for k, pk := range nw.net {
			if pk.From == node || delivered[fmt.Sprintf("%d/%d", node, k)] {
				continue
			}
			if !cross && group[pk.From] != group[node] {
				continue
			}
			idx = k
			if !newestFirst {
				break
			}
		}
		if idx < 0 {
			return false
		}
		delivered[fmt.Sprintf("%d/%d", node, idx)] = true
		r.step(Event{Kind: "net", Node: node, Pkt: idx})
		return true
	}
	phase1 := 30 + c.Intn(90)
	for s := 0; s < phase1; s++ {
		node := honest[c.Intn(len(honest))]
		switch x := c.Intn(100); {
		case x < 40:
			r.step(Event{Kind: "proc", Node: node})
		case x < 72:
			next(node, false, false)
		case x < 84:
			r.step(Event{Kind: "act", Node: node})
		case x < 96:
			r.step(Event{Kind: "timer", Node: node, Timer: 0})
		default:
			r.step(Event{Kind: "timer", Node: node, Timer: 1 + c.Intn(3)})
		}
	}
	newest := map[uint32]bool{}
	for _, n := range honest {
		newest[n] = c.Intn(2) == 0
	}
	phase2 := 80 + c.Intn(80)
	for s := 0; s < phase2; s++ {
		node := honest[c.Intn(len(honest))]
		switch x := c.Intn(100); {
		case x < 40:
			r.step(Event{Kind: "proc", Node: node})
		case x < 76:
			next(node, true, newest[node])
		case x < 88:
			r.step(Event{Kind: "act", Node: node})
		case x < 94:
			r.step(Event{Kind: "timer", Node: node, Timer: 3})
		default:
			r.step(Event{Kind: "timer", Node: node, Timer: c.Intn(2)})
		}
	}
	for round := 0; round < 3; round++ {
		for _, node := range honest {
			for k := 0; k < 5; k++ {
				r.step(Event{Kind: "proc", Node: node})
			}
			r.step(Event{Kind: "timer", Node: node, Timer: 3})
			r.step(Event{Kind: "act", Node: node})
		}
	}
	r.finish(c, fmt.Sprintf("crossover/%d", i), false)
}

// genRaceStructured: HONEST ONLY, N = 4 under a random peer order. Two helpers endorse the leader's
// block and (their endorse timeout firing early) its empty block, then commit the block; the victim
// receives the empty endorsements before the proposal, so that its (empty-)endorse timeout handler
// decides for the empty block and passes commitBlock's pre-check; the message loop then sees the
// block's commit quorum and commits the block; then the timer loop's commitBlock goes on. Noise
// events are interleaved; which loop is first, and whether the late half runs at all, vary.
func genRaceStructured(c *hx.Ctx, r *runner, i int) {
	nw := r.nw
	p := nw.p
	leader := p.Proposers[0]
	victim, h1, h2 := p.Endorsers[0], p.Endorsers[1], p.Endorsers[2]
	if c.Intn(2) == 0 {
		victim, h2 = h2, victim
	}
	b := &builder{nw: nw}
	do := func(e Event) { r.step(e) }
	noise := func() {
		for c.Intn(3) == 0 {
			n := p.Peers[c.Intn(4)]
			switch c.Intn(3) {
			case 0:
				do(Event{Kind: "proc", Node: n})
			case 1:
				do(Event{Kind: "act", Node: n})
			default:
				do(Event{Kind: "timer", Node: n, Timer: 3})
			}
		}
	}
	find := func(from uint32, kind string, empty bool) int {
		idx := -1
		for k, pk := range b.nw.net {
			if pk.From == from && pk.M.Kind == kind && pk.M.P == leader && (kind == "proposal" || pk.M.ForEmpty == empty) {
				idx = k
			}
		}
		return idx
	}
	do(Event{Kind: "propose", Node: leader})
	do(Event{Kind: "proc", Node: leader})
	for _, x := range []uint32{h1, h2} {
		do(Event{Kind: "net", Node: x, Pkt: find(leader, "proposal", false)})
		do(Event{Kind: "proc", Node: x})
		do(Event{Kind: "timer", Node: x, Timer: 1})
		for k := 0; k < 3; k++ {
			do(Event{Kind: "proc", Node: x})
		}
		noise()
	}
	do(Event{Kind: "net", Node: victim, Pkt: find(h1, "endorse", true)})
	do(Event{Kind: "net", Node: victim, Pkt: find(h2, "endorse", true)})
	do(Event{Kind: "proc", Node: victim})
	do(Event{Kind: "proc", Node: victim})
	do(Event{Kind: "net", Node: victim, Pkt: find(leader, "proposal", false)})
	noise()
	timerFirst := c.Intn(4) == 0
	if timerFirst { // the timer loop runs its whole commit first, the message loop afterwards
		do(Event{Kind: "timer", Node: victim, Timer: 2})
	} else {
		do(Event{Kind: "peek", Node: victim, Timer: 1 + c.Intn(2)})
	}
	do(Event{Kind: "net", Node: victim, Pkt: find(h1, "commit", false)})
	do(Event{Kind: "net", Node: victim, Pkt: find(h2, "commit", false)})
	for k := 2 + c.Intn(4); k > 0; k-- {
		do(Event{Kind: "proc", Node: victim})
	}
	if !timerFirst && c.Intn(5) > 0 {
		do(Event{Kind: "late", Node: victim})
	}
	noise()
	// everything the victim sent reaches the others in some order
	for _, x := range []uint32{h1, h2, leader} {
		for k, pk := range nw.net {
			if pk.From == victim && c.Intn(4) > 0 {
				do(Event{Kind: "net", Node: x, Pkt: k})
			}
		}
	}
	for round := 0; round < 3; round++ {
		for _, node := range p.Peers {
			for k := 0; k < 5; k++ {
				do(Event{Kind: "proc", Node: node})
			}
			do(Event{Kind: "act", Node: node})
		}
	}
	r.finish(c, fmt.Sprintf("race/%d", i), false)
}
