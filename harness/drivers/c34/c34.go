// Package c34: "honest VBFT nodes never seal different blocks at the same height".
//
// The driver runs schedules (message deliveries in any order, with loss and duplication, handler
// and timeout events, messages of up to C faulty peers built with their real keys) on networks of
// REAL VBFT nodes — the real onConsensusMsg, processMsgEvent, processTimerEvent, endorseBlock,
// commitBlock, sealBlock and BlockPool, reached through the add-only hook
// consensus/vbft/verif_hooks_c34.go — and
//   * checks the property directly: the blocks sealed by honest nodes must be one block (plus the
//     local rules: one commitment, one endorsement per flag, a seal never changes);
//   * records, per node, every local event with what the node did as a Coq case for Corr/C34.v
//     (the model of Model/Vbft.v must reproduce it), together with the side conditions of the
//     partial safety theorem evaluated from real signature checks (Coq re-evaluates them on the
//     model's state: the finding classes are the theorem's hypotheses).
// The five witness schedules of the Coq refutations are replayed on the real nodes on every run.
package c34

import (
	"encoding/json"
	"fmt"
	"os"
	"strings"

	"github.com/ontio/ontology/common/log"
	"github.com/ontio/ontology/consensus/vbft"

	"verif/harness/hx"
)

func init() { hx.Register("C34", Run) }

// ---------- the theorem's side conditions, from ground truth ----------

func (nw *netw) inPeers(i uint32) bool { _, ok := nw.pos[i]; return ok }

func sigValid(sg mSig, who uint32, h mBlk, p uint32, e bool) bool {
	return sg.Signer == who && sg.B == h && h.P == p && h.E == e
}

func (nw *netw) opVerified(m mMsg) bool {
	switch m.Kind {
	case "proposal":
		return m.Signer == m.P && nw.inPeers(m.P)
	case "endorse":
		return sigValid(m.S, m.Claimed, m.H, m.P, m.ForEmpty) && nw.inPeers(m.Claimed) && nw.inPeers(m.P)
	}
	if !(sigValid(m.S, m.Claimed, m.H, m.P, m.ForEmpty) && nw.inPeers(m.Claimed) && nw.inPeers(m.P)) {
		return false
	}
	for _, e := range m.Ends {
		if !(sigValid(e.S, e.Idx, m.H, m.P, m.ForEmpty) && nw.inPeers(e.Idx)) {
			return false
		}
	}
	return true
}

func opNoDouble(m mMsg) bool {
	if m.Kind != "commit" {
		return true
	}
	if m.Claimed == m.P {
		return false
	}
	for _, e := range m.Ends {
		if e.Idx == m.P {
			return false
		}
	}
	return true
}

type hyps struct{ V, D, E, U bool }

func (nw *netw) nodeHyps(idx uint32, processed []mMsg) hyps {
	h := hyps{true, true, true, true}
	for _, m := range processed {
		if !nw.opVerified(m) {
			h.V = false
		}
		if !opNoDouble(m) {
			h.D = false
		}
		if m.Kind != "proposal" && m.ForEmpty {
			h.E = false
		}
	}
	for _, a := range nw.signed[idx] {
		for _, b := range nw.signed[idx] {
			if a.P != b.P || a.K != b.K {
				h.U = false
			}
		}
	}
	return h
}

// allSigned: every block signed by anybody (honest logs and every signature on the network).
func (nw *netw) allSigned() []mBlk {
	var out []mBlk
	seen := map[mBlk]bool{}
	add := func(b mBlk) {
		if !seen[b] {
			seen[b] = true
			out = append(out, b)
		}
	}
	for _, idx := range nw.p.Peers {
		if nw.honest(idx) {
			for _, b := range nw.signed[idx] {
				add(b)
			}
		}
	}
	for _, pk := range nw.net {
		switch pk.M.Kind {
		case "proposal":
			add(mBlk{pk.M.P, pk.M.K, false})
			add(mBlk{pk.M.P, pk.M.K, true})
		default:
			add(pk.M.S.B)
			for _, e := range pk.M.Ends {
				add(e.S.B)
			}
		}
	}
	return out
}

func noEquiv(l []mBlk) bool {
	for _, a := range l {
		for _, b := range l {
			if a.P == b.P && a.K != b.K {
				return false
			}
		}
	}
	return true
}

// ---------- why did two nodes seal different blocks? ----------

// support is what a sealing node's pool was given for the proposer it sealed: the peers NAMED as
// signers for that proposer (what the tallies count) and those among them whose signature really
// verifies under their key over a block of that proposer.
type support struct {
	keys1   map[uint32]bool // committers and listed endorsers of the accepted commit messages for p
	claimed map[uint32]bool // keys1, endorsers of non-empty endorsements for p, and p itself
	valid   map[uint32]bool
}

func (r *runner) supportOf(node, p uint32) support {
	nw := r.nw
	sp := support{keys1: map[uint32]bool{}, claimed: map[uint32]bool{p: true}, valid: map[uint32]bool{}}
	committers := map[uint32]bool{}
	for _, pk := range nw.net { // findBlockProposal also looks into the message pool
		if pk.M.Kind == "proposal" && pk.M.P == p && pk.M.Signer == p && nw.inPeers(p) {
			sp.valid[p] = true
		}
	}
	for _, m := range r.processed[node] {
		switch m.Kind {
		case "proposal":
			if m.P == p && m.Signer == p && nw.inPeers(p) {
				sp.valid[p] = true
			}
		case "endorse":
			if m.P != p {
				continue
			}
			if !m.ForEmpty {
				sp.claimed[m.Claimed] = true
			}
			if sigValid(m.S, m.Claimed, m.H, m.P, m.ForEmpty) && nw.inPeers(m.Claimed) {
				sp.valid[m.Claimed] = true
			}
		case "commit":
			if committers[m.Claimed] {
				continue // one committer, one commit: the pool refused it
			}
			committers[m.Claimed] = true
			if m.P != p {
				continue
			}
			sp.keys1[m.Claimed], sp.claimed[m.Claimed] = true, true
			if sigValid(m.S, m.Claimed, m.H, m.P, m.ForEmpty) && nw.inPeers(m.Claimed) {
				sp.valid[m.Claimed] = true
			}
			for _, e := range m.Ends {
				sp.keys1[e.Idx], sp.claimed[e.Idx] = true, true
				if sigValid(e.S, e.Idx, m.H, m.P, m.ForEmpty) && nw.inPeers(e.Idx) {
					sp.valid[e.Idx] = true
				}
			}
		}
	}
	return sp
}

// sealCause: "backed" (a quorum of peers with verifying signatures for the sealed proposer is in
// the pool), or the known cause for which the tally was short of that, or "" when nothing the
// node was given explains its seal.
func (r *runner) sealCause(node uint32, b mBlk) (string, support) {
	q := int(r.nw.p.N) - (int(r.nw.p.N)-1)/3
	sp := r.supportOf(node, b.P)
	switch {
	case len(sp.valid) >= q:
		return "backed", sp
	case sp.keys1[b.P] && len(sp.keys1)+1 >= q && len(sp.claimed) < q:
		return "safety:proposer-counted-twice", sp
	case len(sp.claimed) >= q && len(sp.claimed) > len(sp.valid):
		return "safety:unverified-intake", sp
	case sp.keys1[b.P] && len(sp.keys1)+1 >= q:
		return "safety:proposer-counted-twice", sp
	}
	return "", sp
}

// classify names the cause of a disagreement. A known finding class is assigned only on positive
// evidence of its cause at the disagreeing nodes themselves; everything else is unlisted.
func (r *runner) classify(sealed map[uint32]mBlk) (string, string) {
	nw := r.nw
	unlisted := "safety:outside-known-classes"
	if len(nw.p.Byz) == 0 {
		unlisted = "safety:honest-only-disagreement"
	}
	if len(r.twoCommits) > 0 {
		// not the documented double vote (proposal / endorsement / commitment for different proposals,
		// each kind once) and not the count-based empty flag: a node committed twice
		return "safety:honest-two-commits", r.twoCommits[0]
	}
	var nodes []uint32
	for _, idx := range nw.p.Peers {
		if _, ok := sealed[idx]; ok {
			nodes = append(nodes, idx)
		}
	}
	class, why := "", ""
	for _, a := range nodes {
		for _, b := range nodes {
			ba, bb := sealed[a], sealed[b]
			if a >= b || ba == bb {
				continue
			}
			ca, sa := r.sealCause(a, ba)
			cb, sb := r.sealCause(b, bb)
			pair := fmt.Sprintf("node %d sealed %v (%s; named %d, verifying %d), node %d sealed %v (%s; named %d, verifying %d)",
				a, ba, ca, len(sa.claimed), len(sa.valid), b, bb, cb, len(sb.claimed), len(sb.valid))
			cl := ""
			switch {
			case ca == "" || cb == "":
				return unlisted, pair + ": a seal that nothing in the node's pool explains"
			case ca != "backed":
				cl = ca
			case cb != "backed":
				cl = cb
			case ba.P == bb.P && ba.K != bb.K:
				cl = "safety:proposer-equivocation"
			case ba.P == bb.P && ba.K == bb.K:
				cl = "safety:empty-flag-not-quorum-backed"
			default:
				// two genuine quorums for different proposers: an honest peer must be in both
				for i := range sa.valid {
					if sb.valid[i] && nw.honest(i) {
						votedA, votedB := false, false
						for _, x := range nw.signed[i] {
							votedA = votedA || x.P == ba.P
							votedB = votedB || x.P == bb.P
						}
						if votedA && votedB {
							cl = "safety:honest-double-vote"
							pair += fmt.Sprintf("; honest peer %d signed for both proposers", i)
							break
						}
					}
				}
				if cl == "" {
					return unlisted, pair + ": two quorums without a common honest voter"
				}
			}
			if class == "" {
				class, why = cl, pair
			}
		}
	}
	if class == "" {
		return unlisted, "no disagreeing pair found"
	}
	return class, why
}

// ---------- running, checking and recording one schedule ----------

type runner struct {
	nw        *netw
	processed map[uint32][]mMsg
	sealedAt  map[uint32]mBlk
	evs       []Event
	localFail []string
	twoCommits []string
}

func newRunner(w *world, p Params) (*runner, error) {
	nw, err := newNet(w, p)
	if err != nil {
		return nil, err
	}
	return &runner{nw: nw, processed: map[uint32][]mMsg{}, sealedAt: map[uint32]mBlk{}}, nil
}

// step applies one event with the bookkeeping the checks need.
func (r *runner) step(e Event) bool {
	nw := r.nw
	if e.Kind == "late" && e.Late == nil { // generated: the decision the node's timer loop made at its last peek
		in := nw.intent[e.Node]
		if in == nil {
			return false
		}
		l := *in
		e.Late = &l
	}
	if e.Kind == "proc" && nw.honest(e.Node) {
		nd := nw.nodes[e.Node]
		if q, err := nd.Queue(); err == nil && len(q) > 0 && !nd.Marks().Sealed {
			if m, err := nw.abstract(q[0]); err == nil {
				r.processed[e.Node] = append(r.processed[e.Node], m)
			}
		}
	}
	ok := nw.apply(e)
	if ok {
		r.evs = append(r.evs, e)
	}
	if ok && e.Kind != "byz" && e.Kind != "peek" {
		// local rule: a seal never changes
		if _, sb := nw.marksTerm(nw.nodes[e.Node]); sb != nil {
			if old, had := r.sealedAt[e.Node]; had && old != *sb {
				r.localFail = append(r.localFail, fmt.Sprintf("node %d resealed %v -> %v", e.Node, old, *sb))
			}
			r.sealedAt[e.Node] = *sb
		} else if old, had := r.sealedAt[e.Node]; had {
			r.localFail = append(r.localFail, fmt.Sprintf("node %d lost its seal %v", e.Node, old))
		}
	}
	return ok
}

// localRules: per honest node, at most one commitment and one endorsement per flag were signed
// and sent or queued (from the node's own messages).
func (r *runner) localRules() {
	for _, idx := range r.nw.p.Peers {
		if !r.nw.honest(idx) {
			continue
		}
		commits, endNE, endE := map[string]bool{}, map[string]bool{}, map[string]bool{}
		for _, o := range r.nw.trace[idx] {
			for _, m := range append(append([]mMsg{}, o.Outs...), o.Queue...) {
				if m.Claimed != idx || m.S.Signer != idx {
					continue
				}
				switch {
				case m.Kind == "commit":
					commits[m.key()] = true
				case m.Kind == "endorse" && m.ForEmpty:
					endE[m.key()] = true
				case m.Kind == "endorse":
					endNE[m.key()] = true
				}
			}
		}
		if len(commits) > 1 {
			r.twoCommits = append(r.twoCommits, fmt.Sprintf("honest node %d signed %d different commitments at one height", idx, len(commits)))
		}
		if len(endNE) > 1 {
			r.localFail = append(r.localFail, fmt.Sprintf("node %d sent %d different non-empty endorsements", idx, len(endNE)))
		}
		if len(endE) > 1 {
			r.localFail = append(r.localFail, fmt.Sprintf("node %d sent %d different empty endorsements", idx, len(endE)))
		}
	}
}

func coqBlks(l []mBlk) string {
	var it []string
	for _, b := range l {
		it = append(it, b.coq())
	}
	return hx.CoqList(it)
}

// finish checks the property on what happened and emits the correspondence cases.
func (r *runner) finish(c *hx.Ctx, label string, sample bool) {
	nw := r.nw
	defer nw.close()
	sched := &Schedule{Label: label, Params: nw.p, Events: r.evs}
	c.Eval()
	for _, e := range nw.errs {
		c.Note("harness error in " + label + ": " + e)
		c.Count("harness-error")
	}
	c.Count(fmt.Sprintf("N:%d", nw.p.N))
	c.Count(fmt.Sprintf("faulty:%d", len(nw.p.Byz)))
	c.Count("label:" + strings.SplitN(label, "/", 2)[0])
	for _, e := range r.evs {
		c.Count("event:" + e.Kind)
	}
	c.Count(fmt.Sprintf("packets:%d0s", len(nw.net)/10))

	// side conditions
	all := hyps{true, true, true, true}
	nh := map[uint32]hyps{}
	for _, idx := range nw.p.Peers {
		if !nw.honest(idx) {
			continue
		}
		h := nw.nodeHyps(idx, r.processed[idx])
		nh[idx] = h
		all.V, all.D, all.E, all.U = all.V && h.V, all.D && h.D, all.E && h.E, all.U && h.U
	}
	blocks := nw.allSigned()
	q := noEquiv(blocks)
	hypAll := all.V && all.D && all.E && all.U && q
	if hypAll {
		c.Count("hyps:all-hold")
	}
	for name, v := range map[string]bool{"V": all.V, "D": all.D, "E": all.E, "U": all.U, "Q": q} {
		if !v {
			c.Count("hyps:not-" + name)
		}
	}

	// ORACLE: agreement of the sealed blocks of honest nodes
	r.localRules()
	sealed := nw.sealedBlocks()
	c.Count(fmt.Sprintf("sealed-nodes:%d", len(sealed)))
	distinct := map[mBlk]bool{}
	for _, b := range sealed {
		distinct[b] = true
	}
	got := map[string]interface{}{"sealed": fmt.Sprintf("%v", sealed), "verified_intake": all.V, "no_double_count": all.D,
		"empty_free": all.E, "single_vote": all.U, "no_equivocation": q}
	if len(distinct) > 1 {
		class, why := r.classify(sealed)
		got["evidence"] = why
		c.Count("disagreement:" + class)
		c.Fail(class, "two honest nodes sealed different blocks at one height", sched, got, "one sealed block per height")
	} else if len(sealed) > 1 {
		c.Count("agreement:several-sealed")
	}
	// ORACLE: an honest node never sends two commit messages with different hashes for one height
	for _, f := range r.twoCommits {
		c.Count("honest-two-commits")
		c.Fail("safety:honest-two-commits", "an honest node signed and sent two different commitments at one height", sched, f, "one commitment per node and height")
	}
	for _, f := range r.localFail {
		c.Count("local-rule-broken")
		c.Fail("local-rule:"+strings.Fields(f)[2], "a node broke a per-height rule (one commitment, one endorsement per flag, single seal)", sched, f, "none")
	}
	if len(sealed) > 0 {
		c.Nontrivial(fmt.Sprintf("%v|%v|%d", nw.p, sealed, len(nw.net)))
	}
	if sample {
		c.Sample(map[string]interface{}{"schedule": sched, "result": got})
	}

	// correspondence cases: one per honest node, one for the equivocation predicate
	for _, idx := range nw.p.Peers {
		if !nw.honest(idx) || len(nw.trace[idx]) == 0 {
			continue
		}
		var steps []string
		tbl := &msgTable{idx: map[string]int{}}
		for _, o := range nw.trace[idx] {
			steps = append(steps, obsTerm(tbl, o))
		}
		h := nh[idx]
		term := fmt.Sprintf("CNode %s %s %s %s %s %s %s %s %s", nw.p.coq(), cN(idx), hx.CoqList(tbl.terms), hx.CoqList(steps), coqBlks(nw.signed[idx]),
			hx.CoqBool(h.V), hx.CoqBool(h.D), hx.CoqBool(h.E), hx.CoqBool(h.U))
		c.Case(term, map[string]interface{}{"schedule": label, "node": idx, "events": len(steps), "params": nw.p})
	}
	c.Case(fmt.Sprintf("CBlocks %s %s", coqBlks(blocks), hx.CoqBool(q)), map[string]interface{}{"schedule": label, "kind": "no-equivocation"})
	// getCommitConsensus on the commit messages each node's pool accepted, in order
	for _, idx := range nw.p.Peers {
		if !nw.honest(idx) {
			continue
		}
		var specs []vbft.VerifC31CommitSpec
		seen := map[uint32]bool{}
		for _, m := range r.processed[idx] {
			if m.Kind != "commit" || seen[m.Claimed] {
				continue
			}
			seen[m.Claimed] = true
			sp := vbft.VerifC31CommitSpec{Committer: m.Claimed, Proposer: m.P, ForEmpty: m.ForEmpty}
			for _, e := range m.Ends {
				sp.Endorsers = append(sp.Endorsers, e.Idx)
			}
			specs = append(specs, sp)
		}
		if len(specs) > 0 {
			gccCase(c, specs, int(nw.p.C), int(nw.p.N), label)
		}
	}
}

// gccCase: one call of the real getCommitConsensus, recorded for the model.
func gccCase(c *hx.Ctx, specs []vbft.VerifC31CommitSpec, cc, n int, label string) {
	p, fe := vbft.VerifC31GetCommitConsensus(specs, cc, n)
	var terms []string
	props := map[uint32]bool{}
	for _, sp := range specs {
		props[sp.Proposer] = true
		var es []string
		for _, e := range sp.Endorsers {
			es = append(es, fmt.Sprintf("(%s, true)", cN(e)))
		}
		terms = append(terms, fmt.Sprintf("(mkCM %s %s 0 %s true %s)", cN(sp.Committer), cN(sp.Proposer), hx.CoqBool(sp.ForEmpty), hx.CoqList(es)))
	}
	c.Count(fmt.Sprintf("gcc:proposers:%d", len(props)))
	if p != 0xFFFFFFFF {
		c.Count("gcc:consensus")
	}
	c.Case(fmt.Sprintf("CGcc %s %s %s %s %s", hx.CoqZ(int64(cc)), hx.CoqZ(int64(n)), hx.CoqList(terms), cN(p), hx.CoqBool(fe)),
		map[string]interface{}{"schedule": label, "kind": "getCommitConsensus", "msgs": specs, "proposer": p, "for_empty": fe})
}

// gccProbes: commit-message sequences with two competing proposers, every order (the tally is
// per proposer: signers of different proposals must not be pooled).
func gccProbes(c *hx.Ctx, count int) {
	mk := func(cm, p uint32, ends ...uint32) vbft.VerifC31CommitSpec {
		return vbft.VerifC31CommitSpec{Committer: cm, Proposer: p, Endorsers: ends}
	}
	for _, seq := range [][]vbft.VerifC31CommitSpec{
		{mk(2, 0, 2), mk(3, 1, 3)}, {mk(3, 1, 3), mk(2, 0, 2)},
		{mk(2, 0), mk(3, 1)}, {mk(3, 1), mk(2, 0)},
		{mk(2, 0, 2), mk(3, 1, 3), mk(1, 0, 1)}, {mk(3, 1, 3), mk(2, 0, 2), mk(0, 1)},
	} {
		gccCase(c, seq, 1, 4, "probe/two-proposals-tally")
	}
	for k := 0; k < count; k++ {
		n := []int{4, 4, 7, 7, 10}[c.Intn(5)]
		cc := (n - 1) / 3
		var seq []vbft.VerifC31CommitSpec
		used := map[uint32]bool{}
		for j := 1 + c.Intn(n); j > 0; j-- {
			cm := uint32(c.Intn(n))
			if used[cm] {
				continue
			}
			used[cm] = true
			sp := mk(cm, uint32(c.Intn(2+c.Intn(2))))
			sp.ForEmpty = c.Intn(6) == 0
			seenE := map[uint32]bool{}
			for e := c.Intn(3); e > 0; e-- {
				x := uint32(c.Intn(n))
				if !seenE[x] {
					seenE[x] = true
					sp.Endorsers = append(sp.Endorsers, x)
				}
			}
			seq = append(seq, sp)
		}
		if len(seq) > 0 {
			gccCase(c, seq, cc, n, "gcc/random")
		}
	}
}

func runSchedule(c *hx.Ctx, w *world, s *Schedule, sample bool) {
	if len(s.Marks) > 0 {
		runMarks(c, w, s.Marks, s.Label)
		return
	}
	r, err := newRunner(w, s.Params)
	if err != nil {
		c.Note("cannot build network: " + err.Error())
		return
	}
	for _, e := range s.Events {
		r.step(e)
	}
	r.finish(c, s.Label, sample)
}

func Run(c *hx.Ctx) {
	c.CoqModule("Corr.C34")
	log.InitLog(log.FatalLog, os.Stderr) // the consensus code logs every step
	w, err := newWorld()
	if err != nil {
		c.Note("cannot build world: " + err.Error())
		return
	}
	// 1. replay mode
	var in Schedule
	if c.ReplayInput(&in) && len(in.Params.Peers) > 0 {
		runSchedule(c, w, &in, true)
		return
	}
	// 2. corpus
	for _, raw := range c.CorpusInputs() {
		var s Schedule
		if json.Unmarshal(raw, &s) == nil && len(s.Params.Peers) > 0 {
			runSchedule(c, w, &s, false)
		}
	}
	// 3. the witnesses of the Coq refutations, on the real nodes, on every run
	for k := 1; k <= 5; k++ {
		s, err := witness(w, k)
		if err != nil {
			c.Note("witness: " + err.Error())
			continue
		}
		runSchedule(c, w, s, true)
	}
	gccProbes(c, c.N(150, 1500))
	marksCases(c, w)
	for k := 1; k <= 5; k++ {
		s, err := probe(w, k)
		if err != nil {
			c.Note("probe: " + err.Error())
			continue
		}
		runSchedule(c, w, s, false)
	}
	// 4. generated schedules
	n := c.N(110, 1100)
	for i := 0; i < n; i++ {
		genAndRun(c, w, i)
	}
	c.Note(fmt.Sprintf("real signature verifications performed: %d", w.nver))
}
