package c20

import (
	"crypto/ecdsa"
	"crypto/ed25519"
	"crypto/elliptic"
	"crypto/sha256"
	"encoding/binary"
	"math/big"

	ethcommon "github.com/ethereum/go-ethereum/common"
	ethtypes "github.com/ethereum/go-ethereum/core/types"
	ethcrypto "github.com/ethereum/go-ethereum/crypto"
	"github.com/ontio/ontology-crypto/ec"
	"github.com/ontio/ontology-crypto/keypair"
	ontsig "github.com/ontio/ontology-crypto/signature"
	"github.com/ontio/ontology-crypto/sm2"
	"github.com/ontio/ontology/common"
	"github.com/ontio/ontology/common/constants"
	"github.com/ontio/ontology/core/payload"
	"github.com/ontio/ontology/core/types"
	"github.com/ontio/ontology/core/utils"

	"verif/harness/hx"
)

func sha256d(b []byte) []byte {
	t := sha256.Sum256(b)
	h := sha256.Sum256(t[:])
	return h[:]
}

// ---------- own merkle root (independent of common.ComputeMerkleRoot); records every node hashed ----------

type hashTab struct {
	keys [][]byte
	vals [][]byte
	seen map[string]bool
}

func newHashTab() *hashTab { return &hashTab{seen: map[string]bool{}} }

func (t *hashTab) h(x []byte) []byte {
	v := sha256d(x)
	if t != nil && !t.seen[string(x)] {
		t.seen[string(x)] = true
		t.keys = append(t.keys, append([]byte(nil), x...))
		t.vals = append(t.vals, v)
	}
	return v
}

func ownMerkle(t *hashTab, ids [][]byte) []byte {
	if len(ids) == 0 {
		return make([]byte, 32)
	}
	cur := ids
	for len(cur) != 1 {
		var next [][]byte
		for i := 0; i < len(cur); i += 2 {
			j := i + 1
			if j == len(cur) {
				j = i
			}
			next = append(next, t.h(append(append([]byte(nil), cur[i]...), cur[j]...)))
		}
		cur = next
	}
	return cur[0]
}

// ---------- keys ----------

type ecKey struct {
	curve elliptic.Curve
	x, y  *big.Int
	priv  *ecdsa.PrivateKey
}

func newECKey(c *hx.Ctx, curve elliptic.Curve) *ecKey {
	for {
		d := new(big.Int).SetBytes(c.Bytes(32))
		d.Mod(d, curve.Params().N)
		if d.Sign() == 0 {
			continue
		}
		x, y := curve.ScalarBaseMult(d.Bytes())
		return &ecKey{curve: curve, x: x, y: y, priv: &ecdsa.PrivateKey{D: d, PublicKey: ecdsa.PublicKey{Curve: curve, X: x, Y: y}}}
	}
}

func pad32(v *big.Int) []byte {
	b := v.Bytes()
	out := make([]byte, 32)
	copy(out[32-len(b):], b)
	return out
}

func (k *ecKey) compressed() []byte {
	p := byte(2)
	if k.y.Bit(0) == 1 {
		p = 3
	}
	return append([]byte{p}, pad32(k.x)...)
}

func (k *ecKey) uncompressed() []byte {
	return append(append([]byte{4}, pad32(k.x)...), pad32(k.y)...)
}

// keyVariant returns one encoding of a bookkeeper key and a label; canonical says whether the
// driver expects SerializePublicKey(DeserializePublicKey(enc)) == enc.
func keyVariant(c *hx.Ctx, kind int) (enc []byte, label string) {
	switch kind {
	case 0:
		return newECKey(c, elliptic.P256()).compressed(), "p256-compressed"
	case 1:
		k := newECKey(c, sm2.SM2P256V1())
		return append([]byte{byte(keypair.PK_SM2), keypair.SM2P256V1}, k.compressed()...), "sm2-compressed"
	case 2:
		seed := c.Bytes(32)
		pub := ed25519.NewKeyFromSeed(seed).Public().(ed25519.PublicKey)
		return append([]byte{byte(keypair.PK_EDDSA), keypair.ED25519}, pub...), "ed25519"
	case 3:
		for {
			k, err := ethcrypto.ToECDSA(c.Bytes(32))
			if err == nil {
				return append([]byte{byte(keypair.PK_ETHECDSA)}, ethcrypto.FromECDSAPub(&k.PublicKey)...), "eth-secp256k1"
			}
		}
	case 4:
		return newECKey(c, elliptic.P256()).uncompressed(), "p256-uncompressed"
	case 5:
		return append([]byte{byte(keypair.PK_ECDSA), keypair.P256}, newECKey(c, elliptic.P256()).compressed()...), "p256-labelled"
	case 6:
		return append(newECKey(c, elliptic.P256()).compressed(), c.Bytes(1+c.Intn(4))...), "p256-compressed-trailing"
	case 7:
		k := newECKey(c, elliptic.P256())
		u := k.uncompressed()
		u[64] ^= 1 // Y off the curve
		return u, "p256-uncompressed-offcurve"
	case 8:
		k := newECKey(c, sm2.SM2P256V1())
		return append([]byte{byte(keypair.PK_SM2), keypair.SM2P256V1}, k.uncompressed()...), "sm2-uncompressed"
	case 9:
		k := newECKey(c, elliptic.P224())
		p := byte(2)
		if k.y.Bit(0) == 1 {
			p = 3
		}
		xb := k.x.Bytes()
		x := make([]byte, 28)
		copy(x[28-len(xb):], xb)
		return append([]byte{byte(keypair.PK_ECDSA), keypair.P224, p}, x...), "p224-compressed"
	case 10:
		return c.Bytes(c.Intn(4)), "too-short"
	case 11:
		b := c.Bytes(33)
		b[0] = 0x99
		return b, "unknown-label"
	default:
		b := c.Bytes(33)
		b[0] = 2 + byte(c.Intn(2))
		return b, "p256-random-x"
	}
}

const nCanonicalKinds = 4
const nKeyKinds = 13

// parseKey: the behaviour of the key parser + serializer on one encoding (the per-case table).
func parseKey(enc []byte) (reser []byte, ok bool) {
	var pk keypair.PublicKey
	var err error
	if p, _ := hx.Recover(func() { pk, err = keypair.DeserializePublicKey(enc) }); p || err != nil {
		return nil, false
	}
	if p, _ := hx.Recover(func() { reser = keypair.SerializePublicKey(pk) }); p {
		return nil, false
	}
	return reser, true
}

// ---------- transactions ----------

func detSign(priv *ecdsa.PrivateKey, msg []byte) []byte {
	digest := sha256.Sum256(msg)
	n := priv.Curve.Params().N
	for ctr := 0; ; ctr++ {
		h := sha256.New()
		h.Write(priv.D.Bytes())
		h.Write(digest[:])
		h.Write([]byte{byte(ctr)})
		k := new(big.Int).SetBytes(h.Sum(nil))
		k.Mod(k, n)
		if k.Sign() == 0 {
			continue
		}
		x, _ := priv.Curve.ScalarBaseMult(k.Bytes())
		r := new(big.Int).Mod(x, n)
		if r.Sign() == 0 {
			continue
		}
		kinv := new(big.Int).ModInverse(k, n)
		s := new(big.Int).Mul(r, priv.D)
		s.Add(s, new(big.Int).SetBytes(digest[:]))
		s.Mul(s, kinv)
		s.Mod(s, n)
		if s.Sign() == 0 {
			continue
		}
		b, err := ontsig.Serialize(&ontsig.Signature{Scheme: ontsig.SHA256withECDSA, Value: &ontsig.DSASignature{R: r, S: s, Curve: priv.Curve}})
		if err != nil {
			panic(err)
		}
		return b
	}
}

type signer struct {
	k   *ecKey
	pub keypair.PublicKey
}

func newSigner(c *hx.Ctx) *signer {
	k := newECKey(c, elliptic.P256())
	return &signer{k: k, pub: &ec.PublicKey{Algorithm: ec.ECDSA, PublicKey: &k.priv.PublicKey}}
}

// genTx returns the raw bytes of one real transaction (invoke / native invoke / deploy / EIP-155).
func genTx(c *hx.Ctx, signers []*signer) (raw []byte, kind string) {
	s := signers[c.Intn(len(signers))]
	sign := func(m *types.MutableTransaction) []byte {
		m.Nonce = c.Rng.Uint32()
		m.GasPrice = uint64(c.Intn(5000))
		m.GasLimit = uint64(20000 + c.Intn(100000))
		m.Payer = types.AddressFromPubKey(s.pub)
		nsig := c.Intn(2)
		for i := 0; i < nsig; i++ {
			h := m.Hash()
			sg := signers[(i+c.Intn(len(signers)))%len(signers)]
			m.Sigs = append(m.Sigs, types.Sig{PubKeys: []keypair.PublicKey{sg.pub}, M: 1, SigData: [][]byte{detSign(sg.k.priv, h[:])}})
		}
		tx, err := m.IntoImmutable()
		if err != nil {
			panic(err)
		}
		return tx.ToArray()
	}
	switch c.Intn(5) {
	case 0:
		code, err := utils.BuildNativeInvokeCode(common.Address{0, 0, 0, 0, 0, 0, 0, 0, 0, 0, 0, 0, 0, 0, 0, 0, 0, 0, 0, 1}, 0, "balanceOf",
			[]interface{}{c.Bytes(20)})
		if err != nil {
			panic(err)
		}
		return sign(utils.NewInvokeTransaction(code)), "invoke-native"
	case 1:
		dc, err := payload.CreateDeployCode(c.Bytes(1+c.Intn(20)), uint32(c.Intn(2)), c.Bytes(c.Intn(6)), c.Bytes(c.Intn(4)), c.Bytes(c.Intn(6)), c.Bytes(c.Intn(6)), c.Bytes(c.Intn(8)))
		if err != nil {
			panic(err)
		}
		return sign(&types.MutableTransaction{TxType: types.Deploy, Payload: dc}), "deploy"
	case 2:
		for {
			k, err := ethcrypto.ToECDSA(c.Bytes(32))
			if err != nil {
				continue
			}
			to := ethcommon.BytesToAddress(c.Bytes(20))
			etx := ethtypes.NewTransaction(uint64(c.Intn(1000)), to, big.NewInt(int64(c.Intn(1<<30))), uint64(21000+c.Intn(100000)),
				new(big.Int).Mul(big.NewInt(int64(c.Intn(5000))), big.NewInt(constants.GWei)), c.Bytes(c.Intn(40)))
			signed, err := ethtypes.SignTx(etx, ethtypes.NewEIP155Signer(big.NewInt(int64(1+c.Intn(6000)))), k)
			if err != nil {
				panic(err)
			}
			tx, err := types.TransactionFromEIP155(signed)
			if err != nil {
				panic(err)
			}
			return tx.ToArray(), "eip155"
		}
	default:
		return sign(utils.NewInvokeTransaction(c.Bytes(1 + c.Intn(24)))), "invoke-neo"
	}
}

// ---------- byte-level block writer (independent of Header/Block.Serialization) ----------

type writer struct{ b []byte }

func (w *writer) u32(v uint32) { w.b = binary.LittleEndian.AppendUint32(w.b, v) }
func (w *writer) u64(v uint64) { w.b = binary.LittleEndian.AppendUint64(w.b, v) }
func (w *writer) raw(d []byte) { w.b = append(w.b, d...) }

// varuint with a forced form: 0 = minimal, 0xfd / 0xfe / 0xff = that prefix.
func (w *writer) varuint(v uint64, form byte) {
	if form == 0 {
		switch {
		case v < 0xfd:
			form = 1
		case v <= 0xffff:
			form = 0xfd
		case v <= 0xffffffff:
			form = 0xfe
		default:
			form = 0xff
		}
	}
	switch form {
	case 1:
		w.b = append(w.b, byte(v))
	case 0xfd:
		w.b = append(w.b, 0xfd)
		w.b = binary.LittleEndian.AppendUint16(w.b, uint16(v))
	case 0xfe:
		w.b = append(w.b, 0xfe)
		w.u32(uint32(v))
	default:
		w.b = append(w.b, 0xff)
		w.u64(v)
	}
}

func (w *writer) varbytes(d []byte) { w.varuint(uint64(len(d)), 0); w.raw(d) }

type spec struct {
	Version   uint32
	Prev      [32]byte
	Root      [32]byte
	BlockRoot [32]byte
	Timestamp uint32
	Height    uint32
	ConsData  uint64
	Payload   []byte
	NextBk    [20]byte
	Keys      [][]byte // raw encodings
	Sigs      [][]byte
	Txs       [][]byte // raw transactions

	// overrides for malformed inputs
	NKeys, NSigs         *uint64
	NKeysForm, NSigsForm byte
	PayloadForm          byte
	NTx                  *uint32
}

func (s *spec) clone() *spec {
	t := *s
	t.Payload = append([]byte(nil), s.Payload...)
	t.Keys = append([][]byte(nil), s.Keys...)
	t.Sigs = append([][]byte(nil), s.Sigs...)
	t.Txs = append([][]byte(nil), s.Txs...)
	return &t
}

func (s *spec) unsigned() []byte {
	w := &writer{}
	w.u32(s.Version)
	w.raw(s.Prev[:])
	w.raw(s.Root[:])
	w.raw(s.BlockRoot[:])
	w.u32(s.Timestamp)
	w.u32(s.Height)
	w.u64(s.ConsData)
	w.varuint(uint64(len(s.Payload)), s.PayloadForm)
	w.raw(s.Payload)
	w.raw(s.NextBk[:])
	return w.b
}

func (s *spec) header() []byte {
	w := &writer{b: s.unsigned()}
	n := uint64(len(s.Keys))
	if s.NKeys != nil {
		n = *s.NKeys
	}
	w.varuint(n, s.NKeysForm)
	for _, k := range s.Keys {
		w.varbytes(k)
	}
	m := uint64(len(s.Sigs))
	if s.NSigs != nil {
		m = *s.NSigs
	}
	w.varuint(m, s.NSigsForm)
	for _, g := range s.Sigs {
		w.varbytes(g)
	}
	return w.b
}

func (s *spec) block() []byte {
	w := &writer{b: s.header()}
	n := uint32(len(s.Txs))
	if s.NTx != nil {
		n = *s.NTx
	}
	w.u32(n)
	for _, t := range s.Txs {
		w.raw(t)
	}
	return w.b
}

// txHash: hash of a raw transaction as the implementation computes it.
func txHash(raw []byte) ([]byte, bool) {
	tx, err := types.TransactionFromRawBytes(append([]byte(nil), raw...))
	if err != nil {
		return nil, false
	}
	h := tx.Hash()
	return h[:], true
}

func (s *spec) setRoot() {
	var ids [][]byte
	for _, t := range s.Txs {
		if h, ok := txHash(t); ok {
			ids = append(ids, h)
		}
	}
	copy(s.Root[:], ownMerkle(nil, ids))
}

func genSpec(c *hx.Ctx, signers []*signer, ntx, nkeys, nsigs int) *spec {
	s := &spec{Version: uint32(c.Intn(2)), Timestamp: c.Rng.Uint32(), Height: uint32(c.Intn(1 << 20)), ConsData: c.Rng.Uint64(),
		Payload: c.Bytes(c.Intn(40))}
	if c.Intn(8) == 0 {
		s.Payload = c.Bytes(253 + c.Intn(60)) // 3-byte length prefix
	}
	copy(s.Prev[:], c.Bytes(32))
	copy(s.BlockRoot[:], c.Bytes(32))
	copy(s.NextBk[:], c.Bytes(20))
	for i := 0; i < nkeys; i++ {
		k, _ := keyVariant(c, c.Intn(nCanonicalKinds))
		s.Keys = append(s.Keys, k)
	}
	for i := 0; i < nsigs; i++ {
		s.Sigs = append(s.Sigs, c.Bytes(1+c.Intn(40)))
	}
	seen := map[string]bool{}
	for len(s.Txs) < ntx {
		raw, _ := genTx(c, signers)
		h, ok := txHash(raw)
		if !ok || seen[string(h)] {
			continue
		}
		seen[string(h)] = true
		s.Txs = append(s.Txs, raw)
	}
	s.setRoot()
	return s
}

// ---------- independent header scanner (positions and counts; no key parsing) ----------

type scan struct {
	ok          bool
	unsignedEnd int
	nkeys       uint64
	rawKeys     [][]byte
	nsigs       uint64
	hdrEnd      int
}

func readVaruint(b []byte, p int) (v uint64, np int, ok bool) {
	if p >= len(b) {
		return 0, p, false
	}
	fb := b[p]
	p++
	need := map[byte]int{0xfd: 2, 0xfe: 4, 0xff: 8}[fb]
	if need == 0 {
		return uint64(fb), p, true
	}
	if p+need > len(b) {
		return 0, p, false
	}
	var buf [8]byte
	copy(buf[:], b[p:p+need])
	v = binary.LittleEndian.Uint64(buf[:])
	p += need
	min := map[int]uint64{2: 0xfd, 4: 0x10000, 8: 0x100000000}[need]
	if v < min {
		return 0, p, false // irregular
	}
	return v, p, true
}

func readVarbytes(b []byte, p int) (d []byte, np int, ok bool) {
	n, p, ok := readVaruint(b, p)
	if !ok || n > uint64(len(b)-p) {
		return nil, p, false
	}
	return b[p : p+int(n)], p + int(n), true
}

func scanHeader(b []byte) (sc scan) {
	p := 4 + 96 + 4 + 4 + 8
	if p > len(b) {
		return
	}
	_, p, ok := readVarbytes(b, p)
	if !ok || p+20 > len(b) {
		return
	}
	p += 20
	sc.unsignedEnd = p
	n, p, ok := readVaruint(b, p)
	if !ok {
		return
	}
	sc.nkeys = n
	if n < 1<<63 {
		for i := uint64(0); i < n; i++ {
			var d []byte
			d, p, ok = readVarbytes(b, p)
			if !ok {
				return
			}
			sc.rawKeys = append(sc.rawKeys, d)
		}
	}
	m, p, ok := readVaruint(b, p)
	if !ok {
		return
	}
	sc.nsigs = m
	if m < 1<<63 {
		for i := uint64(0); i < m; i++ {
			_, p, ok = readVarbytes(b, p)
			if !ok {
				return
			}
		}
	}
	sc.hdrEnd = p
	sc.ok = true
	return
}
