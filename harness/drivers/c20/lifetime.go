package c20

import (
	"bytes"
	"fmt"
	"runtime"
	"sync"

	"github.com/ontio/ontology/core/types"

	"verif/harness/hx"
)

// Result-lifetime / history variants of the round-trip oracle.
//
// A single encode-decode-reencode-compare on one block cannot see an encoder whose result aliases
// memory that a later call reuses (both slices are the same memory), and decoding is zero-copy
// (tx.Raw points into the input), so such an encoder silently changes blocks that were decoded
// from its earlier results. Here a BATCH of blocks is encoded (descending, equal and mixed sizes);
// every returned slice is kept together with a private copy taken immediately, blocks are decoded
// from the KEPT slices, and only after the whole batch:
//   - every kept slice must still equal its copy              (class encode:result-aliased)
//   - every copy must equal the independent writer's bytes    (class encode:layout-differs)
//   - every decoded block must re-encode to its copy, keep its hash, its transaction hashes and
//     a transaction list matching TransactionsRoot            (class encode:result-aliased when a
//     kept slice changed, roundtrip:history otherwise)
// The same for Header.ToArray, Header.GetRawHeader and Transaction.ToArray, and a concurrent
// variant (4 goroutines encoding different blocks, each result compared with the private bytes).

const aliasClause = "a block decoded from bytes re-encodes to the same bytes (the bytes returned by ToArray stay what they were after later ToArray calls)"

type lifetimeInput struct {
	Kind   string   `json:"kind"` // lifetime
	Label  string   `json:"label"`
	List   []string `json:"list"`             // the batch, in order (independent writer's bytes)
	Block1 string   `json:"block1,omitempty"` // the block whose bytes changed
	Block2 string   `json:"block2,omitempty"` // the block encoded next
}

func clone(b []byte) []byte { return append([]byte(nil), b...) }

func lifetimeBatch(c *hx.Ctx, label string, raws [][]byte) {
	var hexes []string
	for _, r := range raws {
		hexes = append(hexes, hx.Hex(r))
	}
	mkIn := func(i int) lifetimeInput {
		in := lifetimeInput{Kind: "lifetime", Label: label, List: hexes, Block1: hexes[i]}
		if i+1 < len(hexes) {
			in.Block2 = hexes[i+1]
		}
		return in
	}
	// API blocks, each built from a private copy of its bytes
	var blks []*types.Block
	for _, r := range raws {
		b, err := types.BlockFromRawBytes(clone(r))
		if err != nil {
			c.Note("lifetime: batch member does not decode: " + err.Error())
			return
		}
		blks = append(blks, b)
	}
	n := len(blks)
	kept, copies := make([][]byte, n), make([][]byte, n)
	keptH, copiesH := make([][]byte, n), make([][]byte, n)
	keptR, copiesR := make([][]byte, n), make([][]byte, n)
	keptT, copiesT := make([][][]byte, n), make([][][]byte, n)
	dec := make([]*types.Block, n)
	decHash := make([][]byte, n)
	decIDs := make([][][]byte, n)
	p, msg := hx.Recover(func() {
		for i, b := range blks {
			c.Eval()
			kept[i] = b.ToArray()
			copies[i] = clone(kept[i])
			keptH[i] = b.Header.ToArray()
			copiesH[i] = clone(keptH[i])
			keptR[i] = b.Header.GetRawHeader().Payload
			copiesR[i] = clone(keptR[i])
			for _, tx := range b.Transactions {
				t := tx.ToArray()
				keptT[i] = append(keptT[i], t)
				copiesT[i] = append(copiesT[i], clone(t))
			}
			// decode from the KEPT slice (zero-copy: the block refers to that memory)
			d, err := types.BlockFromRawBytes(kept[i])
			if err != nil {
				c.Fail("valid:rejected", "a well-formed block decodes", mkIn(i), err.Error(), "accepted")
				continue
			}
			dec[i] = d
			h := d.Hash()
			decHash[i] = clone(h[:])
			for _, tx := range d.Transactions {
				th := tx.Hash()
				decIDs[i] = append(decIDs[i], clone(th[:]))
			}
		}
	})
	if p {
		c.Fail("panic:serialization", "no panic", mkIn(0), msg, "bytes")
		return
	}
	// after the whole batch: no implementation call before the kept slices are compared
	aliased := map[int]bool{}
	for i := 0; i < n; i++ {
		if !bytes.Equal(kept[i], copies[i]) {
			aliased[i] = true
			c.Fail("encode:result-aliased", aliasClause, mkIn(i), "Block.ToArray result changed after later calls: "+hx.Hex(kept[i]), hx.Hex(copies[i]))
		}
		if !bytes.Equal(keptH[i], copiesH[i]) {
			c.Fail("encode:result-aliased", aliasClause, mkIn(i), "Header.ToArray result changed after later calls: "+hx.Hex(keptH[i]), hx.Hex(copiesH[i]))
		}
		if !bytes.Equal(keptR[i], copiesR[i]) {
			c.Fail("encode:result-aliased", aliasClause, mkIn(i), "GetRawHeader().Payload changed after later calls: "+hx.Hex(keptR[i]), hx.Hex(copiesR[i]))
		}
		for j := range keptT[i] {
			if !bytes.Equal(keptT[i][j], copiesT[i][j]) {
				c.Fail("encode:result-aliased", aliasClause, mkIn(i), "Transaction.ToArray result changed after later calls: "+hx.Hex(keptT[i][j]), hx.Hex(copiesT[i][j]))
			}
		}
		if !bytes.Equal(copies[i], raws[i]) {
			c.Fail("encode:layout-differs", "Block.Serialization writes header fields, key list, signature list, count and transactions in order",
				mkIn(i), hx.Hex(copies[i]), hx.Hex(raws[i]))
		}
		sc := scanHeader(raws[i])
		if sc.ok && (!bytes.Equal(copiesH[i], raws[i][:sc.hdrEnd]) || !bytes.Equal(copiesR[i], raws[i][:sc.hdrEnd])) {
			c.Fail("encode:layout-differs", "Header.Serialization writes the unsigned fields, key list and signature list in order", mkIn(i), hx.Hex(copiesH[i]), hx.Hex(raws[i][:sc.hdrEnd]))
		}
	}
	// the decoded blocks, after the history
	for i := 0; i < n; i++ {
		d := dec[i]
		if d == nil {
			continue
		}
		class := "roundtrip:history"
		if aliased[i] {
			class = "encode:result-aliased"
		}
		var re []byte
		if p, msg := hx.Recover(func() { re = clone(d.ToArray()) }); p {
			c.Fail("panic:serialization", "no panic", mkIn(i), msg, "bytes")
			continue
		}
		if !bytes.Equal(re, copies[i]) {
			c.Fail(class, aliasClause, mkIn(i), "block decoded from the ToArray result re-encodes, after later ToArray calls, to "+hx.Hex(re), hx.Hex(copies[i]))
		}
		h := d.Hash()
		sc := scanHeader(raws[i])
		if !bytes.Equal(h[:], decHash[i]) || (sc.ok && !bytes.Equal(h[:], sha256d(raws[i][:sc.unsignedEnd]))) {
			c.Fail(class, "the block hash covers every header field except the signer list and signatures", mkIn(i), hx.Hex(h[:]), hx.Hex(decHash[i]))
		}
		var now [][]byte
		same := len(d.Transactions) == len(decIDs[i])
		for j, tx := range d.Transactions {
			th, ok := txHash(clone(tx.ToArray()))
			if !ok {
				th = nil
			}
			now = append(now, th)
			cached := tx.Hash()
			same = same && j < len(decIDs[i]) && bytes.Equal(th, decIDs[i][j]) && bytes.Equal(cached[:], decIDs[i][j])
		}
		if !same {
			c.Fail(class, "decoding binds the transaction list: the transactions of a decoded block keep the hashes they were accepted with", mkIn(i),
				"transaction bytes no longer hash to the recorded transaction hashes", "unchanged transactions")
		}
		if root := ownMerkle(nil, now); !bytes.Equal(root, d.Header.TransactionsRoot[:]) {
			c.Fail(class, "decoding rejects any block whose transaction list does not match the header's transaction root", mkIn(i),
				"held block's transactions have root "+hx.Hex(root), hx.Hex(d.Header.TransactionsRoot[:]))
		}
	}
	c.Count(fmt.Sprintf("lifetime:%s:batch=%d", label, n))
	c.Nontrivial("lifetime:" + label + hx.Hex(sha256d(bytes.Join(raws, nil))))
}

// lifetimeConcurrent: 4 goroutines encode different blocks repeatedly; each result is compared
// with the block's private bytes after yielding.
func lifetimeConcurrent(c *hx.Ctx, raws [][]byte) {
	if len(raws) > 4 {
		raws = raws[:4]
	}
	var hexes []string
	var blks []*types.Block
	for _, r := range raws {
		b, err := types.BlockFromRawBytes(clone(r))
		if err != nil {
			return
		}
		blks = append(blks, b)
		hexes = append(hexes, hx.Hex(r))
	}
	rounds := c.N(300, 3000)
	bad := make([]string, len(blks))
	var wg sync.WaitGroup
	for g := range blks {
		wg.Add(1)
		go func(g int) {
			defer wg.Done()
			defer func() {
				if r := recover(); r != nil && bad[g] == "" {
					bad[g] = "panic: " + fmt.Sprint(r)
				}
			}()
			for k := 0; k < rounds; k++ {
				out := blks[g].ToArray()
				hd := blks[g].Header.ToArray()
				runtime.Gosched()
				if !bytes.Equal(out, raws[g]) && bad[g] == "" {
					bad[g] = hx.Hex(out)
				}
				if !bytes.HasPrefix(raws[g], hd) && bad[g] == "" {
					bad[g] = hx.Hex(hd)
				}
			}
		}(g)
	}
	wg.Wait()
	c.Eval()
	c.Count("lifetime:concurrent")
	for g := range blks {
		if bad[g] != "" {
			in := lifetimeInput{Kind: "lifetime", Label: "concurrent", List: hexes, Block1: hexes[g], Block2: hexes[(g+1)%len(hexes)]}
			c.Fail("encode:result-aliased", aliasClause, in, "a concurrent ToArray call returned or later held "+bad[g], hexes[g])
		}
	}
}

// probeLifetime: deterministic batches on every run.
func probeLifetime(c *hx.Ctx, signers []*signer) {
	mk := func(ntxs []int) [][]byte {
		var raws [][]byte
		for _, n := range ntxs {
			raws = append(raws, genSpec(c, signers, n, c.Intn(3), c.Intn(3)).block())
		}
		return raws
	}
	desc := mk([]int{5, 4, 3, 2, 1, 0})
	lifetimeBatch(c, "descending", desc)
	// equal sizes: the same spec with one header field changed
	s := genSpec(c, signers, 2, 1, 1)
	t := s.clone()
	t.Height ^= 1
	u := s.clone()
	u.ConsData ^= 0xff
	lifetimeBatch(c, "equal-size", [][]byte{s.block(), t.block(), u.block()})
	mixed := mk([]int{2, 4, 1, 3, 0, 3, 1, 2})
	lifetimeBatch(c, "mixed", mixed)
	lifetimeConcurrent(c, mk([]int{3, 2, 2, 1}))
}
