package c20

import "verif/harness/hx"

func init() { hx.Register("C20", Run) }

func Run(c *hx.Ctx) {
	c.CoqModule("Corr.C20")
}
