// Package c20: block and header encoding (core/types/block.go, core/types/header.go,
// common/merkle_tree.go). Correspondence: recorded runs of Block/Header.Deserialization, ToArray,
// Hash and ComputeMerkleRoot against Model/BlockCodec.v. Oracles on the implementation: round trip
// on the consumed bytes, duplicate and root checks under reorder/duplicate/drop/modify mutations,
// hash coverage of every unsigned header field, key-encoding variants, hostile counts, and the
// inner-node/transaction ambiguity of the transaction root.
package c20

import (
	"bytes"
	"encoding/json"
	"fmt"

	"github.com/ontio/ontology-crypto/keypair"
	"github.com/ontio/ontology/common"
	"github.com/ontio/ontology/core/types"

	"verif/harness/hx"
)

func init() { hx.Register("C20", Run) }

func replayOne(c *hx.Ctx, in *input) {
	switch in.Kind {
	case "header":
		evalHeader(c, "replay", hx.UnHex(in.Hex))
	case "merkle":
		var ids [][]byte
		for _, h := range in.List {
			ids = append(ids, hx.UnHex(h))
		}
		evalMerkle(c, "replay", ids, len(ids) <= 8)
	case "confusion":
		probeInnerNode(c)
	case "lifetime":
		var raws [][]byte
		for _, h := range in.List {
			raws = append(raws, hx.UnHex(h))
		}
		lifetimeBatch(c, "replay", raws)
		lifetimeConcurrent(c, raws)
	default:
		evalBlock(c, "replay", hx.UnHex(in.Hex), false, true)
	}
}

func Run(c *hx.Ctx) {
	c.CoqModule("Corr.C20")
	var rin input
	if c.ReplayInput(&rin) {
		replayOne(c, &rin)
		return
	}
	for _, raw := range c.CorpusInputs() {
		var in input
		if json.Unmarshal(raw, &in) == nil {
			replayOne(c, &in)
		}
	}

	signers := []*signer{newSigner(c), newSigner(c), newSigner(c)}
	maxTx := c.N(6, 24)

	// deterministic probes of the known finding classes (every run)
	probeCounts(c, signers)
	probeKeys(c, signers)
	probeInnerNode(c)
	probeLifetime(c, signers)

	// G1/G2/G3: valid blocks and their mutations
	nBlocks := c.N(15, 300)
	realBudget := c.N(8, 60)
	for i := 0; i < nBlocks; i++ {
		ntx := i % (maxTx + 1)
		if i >= 2*(maxTx+1) {
			ntx = c.Intn(maxTx + 1)
		}
		s := genSpec(c, signers, ntx, c.Intn(5), c.Intn(4))
		b := s.block()
		real := realBudget > 0 && ntx <= 4
		if real {
			realBudget--
		}
		r := evalBlock(c, fmt.Sprintf("valid/ntx=%d", ntx), b, real, true)
		c.Nontrivial("valid:" + hx.Hex(r.hash))
		c.Count(fmt.Sprintf("valid:ntx=%d", ntx))
		if !r.ok {
			c.Fail("valid:rejected", "a well-formed block decodes", input{Kind: "block", Label: "valid", Hex: hx.Hex(b)}, fmt.Sprintf("err%d", r.code), "accepted")
			continue
		}
		if i < 3 {
			c.Sample(map[string]interface{}{"kind": "valid block", "ntx": ntx, "bytes": len(b), "hash": hx.Hex(r.hash)})
		}
		checkFields(c, s, b, r)
		apiRoundTrip(c, s, b)
		txMutations(c, s, signers, r, i)
		headerMutations(c, s, r, i)
		if i%3 == 0 {
			malformed(c, s, b)
		}
	}

	// G4: key-encoding variants inside otherwise valid blocks
	for i := 0; i < c.N(16, 130); i++ {
		s := genSpec(c, signers, c.Intn(2), 0, c.Intn(2))
		nk := 1 + c.Intn(3)
		lab := ""
		for j := 0; j < nk; j++ {
			k, l := keyVariant(c, (i+j*5)%nKeyKinds)
			s.Keys = append(s.Keys, k)
			lab += "," + l
		}
		r := evalBlock(c, "keys/"+lab[1:], s.block(), false, true)
		c.Nontrivial("keys:" + lab + fmt.Sprint(r.ok))
		c.Count(fmt.Sprintf("keys:accepted=%v", r.ok))
	}

	// G5: header-only inputs: valid, every truncation class, byte flips, garbage
	for i := 0; i < c.N(40, 400); i++ {
		s := genSpec(c, signers, 0, c.Intn(4), c.Intn(4))
		h := s.header()
		switch i % 5 {
		case 0:
			evalHeader(c, "header/valid", h)
		case 1:
			evalHeader(c, "header/truncated", h[:c.Intn(len(h))])
		case 2:
			m := append([]byte(nil), h...)
			m[c.Intn(len(m))] ^= byte(1 << uint(c.Intn(8)))
			evalHeader(c, "header/bitflip", m)
		case 3:
			m := append([]byte(nil), h...)
			ul := len(s.unsigned())
			m[ul+c.Intn(len(m)-ul)] = []byte{0xfd, 0xfe, 0xff, 0x00, 0x80}[c.Intn(5)]
			evalHeader(c, "header/varint-tag", m)
		default:
			evalHeader(c, "header/trailing", append(h, c.Bytes(1+c.Intn(8))...))
		}
	}

	// G7: merkle roots of arbitrary hash lists (duplicates allowed), 0..N
	for n := 0; n <= c.N(17, 40); n++ {
		var ids [][]byte
		for j := 0; j < n; j++ {
			if j > 0 && c.Intn(5) == 0 {
				ids = append(ids, ids[c.Intn(j)])
			} else {
				ids = append(ids, c.Bytes(32))
			}
		}
		evalMerkle(c, "merkle/random", ids, n <= 9)
		c.Nontrivial(fmt.Sprintf("merkle:%d", n))
	}
	merkleShapes(c)
}

// checkFields: the decoded header carries exactly the fields the input was written with.
func checkFields(c *hx.Ctx, s *spec, b []byte, r blockResult) {
	h := r.blk.Header
	ok := h.Version == s.Version && h.PrevBlockHash == common.Uint256(s.Prev) && h.TransactionsRoot == common.Uint256(s.Root) &&
		h.BlockRoot == common.Uint256(s.BlockRoot) && h.Timestamp == s.Timestamp && h.Height == s.Height && h.ConsensusData == s.ConsData &&
		bytes.Equal(h.ConsensusPayload, s.Payload) && h.NextBookkeeper == common.Address(s.NextBk) &&
		len(h.Bookkeepers) == len(s.Keys) && len(h.SigData) == len(s.Sigs) && len(r.blk.Transactions) == len(s.Txs)
	for i := range s.Sigs {
		ok = ok && i < len(h.SigData) && bytes.Equal(h.SigData[i], s.Sigs[i])
	}
	for i := range s.Txs {
		ok = ok && i < len(r.blk.Transactions) && bytes.Equal(r.blk.Transactions[i].ToArray(), s.Txs[i])
	}
	if !ok {
		c.Fail("decode:fields-differ", "decoding returns the fields that were encoded", input{Kind: "block", Label: "valid", Hex: hx.Hex(b)}, "decoded fields differ", "fields as written")
	}
}

// apiRoundTrip: the same block built through the types API serializes to the same bytes
// (ties Header/Block.Serialization to the independent writer).
func apiRoundTrip(c *hx.Ctx, s *spec, b []byte) {
	hd := &types.Header{Version: s.Version, PrevBlockHash: s.Prev, TransactionsRoot: s.Root, BlockRoot: s.BlockRoot, Timestamp: s.Timestamp,
		Height: s.Height, ConsensusData: s.ConsData, ConsensusPayload: s.Payload, NextBookkeeper: s.NextBk, SigData: s.Sigs}
	for _, k := range s.Keys {
		pk, err := keypair.DeserializePublicKey(k)
		if err != nil {
			return
		}
		hd.Bookkeepers = append(hd.Bookkeepers, pk)
	}
	blk := &types.Block{Header: hd}
	for _, t := range s.Txs {
		tx, err := types.TransactionFromRawBytes(append([]byte(nil), t...))
		if err != nil {
			return
		}
		blk.Transactions = append(blk.Transactions, tx)
	}
	c.Eval()
	var out []byte
	if p, msg := hx.Recover(func() { out = blk.ToArray() }); p {
		c.Fail("panic:serialization", "no panic", input{Kind: "block", Label: "api", Hex: hx.Hex(b)}, msg, "bytes")
		return
	}
	if !bytes.Equal(out, b) {
		c.Fail("encode:layout-differs", "Block.Serialization writes header fields, key list, signature list, count and transactions in order",
			input{Kind: "block", Label: "api", Hex: hx.Hex(b)}, hx.Hex(out), hx.Hex(b))
	}
	h := blk.Hash()
	if !bytes.Equal(h[:], sha256d(s.unsigned())) {
		c.Fail("hash:not-unsigned-header", "block hash is the double SHA-256 of exactly the unsigned header fields",
			input{Kind: "block", Label: "api", Hex: hx.Hex(b)}, hx.Hex(h[:]), hx.Hex(sha256d(s.unsigned())))
	}
	blk.RebuildMerkleRoot()
	if blk.Header.TransactionsRoot != common.Uint256(s.Root) {
		c.Fail("merkle:root-differs", "RebuildMerkleRoot gives the root of the transaction hashes", input{Kind: "block", Label: "api", Hex: hx.Hex(b)},
			hx.Hex(blk.Header.TransactionsRoot[:]), hx.Hex(s.Root[:]))
	}
}

func expectRejected(c *hx.Ctx, label, class, clause string, s *spec, emit bool) {
	b := s.block()
	r := evalBlock(c, label, b, false, emit)
	c.Nontrivial(label + hx.Hex(sha256d(b)))
	if r.ok {
		c.Fail(class, clause, input{Kind: "block", Label: label, Hex: hx.Hex(b)}, "accepted", "rejected")
	}
}

// txMutations: reorder / duplicate / drop / modify / count mutations of the transaction list.
func txMutations(c *hx.Ctx, s *spec, signers []*signer, r blockResult, round int) {
	n := len(s.Txs)
	// every mutation is evaluated on the implementation; in the quick tier one in three (rotating
	// with the block index) is also emitted as a correspondence case, to keep cases.v small
	k := 0
	emit := func() bool {
		k++
		return !c.Quick() || (k+round)%3 == 0
	}
	rootClause := "decoding rejects a block whose transaction list does not match the header's transaction root"
	dupClause := "decoding rejects a block that contains the same transaction twice"
	if n >= 2 {
		m := s.clone()
		i := c.Intn(n - 1)
		j := i + 1 + c.Intn(n-i-1)
		m.Txs[i], m.Txs[j] = m.Txs[j], m.Txs[i]
		expectRejected(c, "mut/reorder", "root:reorder-accepted", rootClause, m, emit())
	}
	if n >= 1 {
		// duplicate one transaction, old root
		m := s.clone()
		m.Txs = append(m.Txs, m.Txs[c.Intn(n)])
		expectRejected(c, "mut/dup-old-root", "dup:accepted", dupClause, m, emit())
		// duplicate with the root recomputed over the list with the duplicate: only the duplicate check stops it
		m = s.clone()
		i := c.Intn(n)
		m.Txs = append(m.Txs[:i+1], append([][]byte{m.Txs[i]}, m.Txs[i+1:]...)...)
		m.setRoot()
		expectRejected(c, "mut/dup-new-root", "dup:accepted", dupClause, m, emit())
		// drop
		m = s.clone()
		i = c.Intn(n)
		m.Txs = append(m.Txs[:i], m.Txs[i+1:]...)
		expectRejected(c, "mut/drop", "root:drop-accepted", rootClause, m, emit())
		// modify: replace by a different transaction
		m = s.clone()
		raw, _ := genTx(c, signers)
		m.Txs[c.Intn(n)] = raw
		expectRejected(c, "mut/modify", "root:modify-accepted", rootClause, m, emit())
	}
	if n%2 == 1 && n >= 1 {
		// the pairing rule duplicates an odd last element: [.., c] and [.., c, c] have the same root
		m := s.clone()
		m.Txs = append(m.Txs, m.Txs[n-1])
		b := m.block()
		if !bytes.Equal(ownMerkleOfTxs(m.Txs), s.Root[:]) && n >= 2 {
			c.Note("driver self-check: odd-duplication roots differ")
		}
		rr := evalBlock(c, "mut/dup-odd-last-same-root", b, false, emit())
		c.Count("dup-odd-last")
		if rr.ok {
			c.Fail("dup:accepted", dupClause, input{Kind: "block", Label: "mut/dup-odd-last-same-root", Hex: hx.Hex(b)}, "accepted", "rejected")
		}
	}
	// count field one more / one less than the list, and huge
	for _, d := range []int64{1, -1, 0xffffffff} {
		if d == -1 && n == 0 {
			continue
		}
		m := s.clone()
		v := uint32(int64(n) + d)
		if d == 0xffffffff {
			v = 0xffffffff
		}
		m.NTx = &v
		expectRejected(c, "mut/count", "root:count-accepted", rootClause, m, d != 1 && emit())
	}
	// transaction root itself changed
	m := s.clone()
	m.Root[c.Intn(32)] ^= byte(1 << uint(c.Intn(8)))
	expectRejected(c, "mut/root-field", "root:field-accepted", rootClause, m, emit())
}

func ownMerkleOfTxs(txs [][]byte) []byte {
	var ids [][]byte
	for _, t := range txs {
		if h, ok := txHash(t); ok {
			ids = append(ids, h)
		}
	}
	return ownMerkle(nil, ids)
}

// headerMutations: every unsigned field enters the hash; bookkeepers and signatures do not.
func headerMutations(c *hx.Ctx, s *spec, r blockResult, round int) {
	clause := "the block hash covers every header field except the signer list and signatures"
	type mut struct {
		name string
		f    func(m *spec)
	}
	flip := func(b []byte) { b[c.Intn(len(b))] ^= byte(1 << uint(c.Intn(8))) }
	muts := []mut{
		{"Version", func(m *spec) { m.Version ^= 1 << uint(c.Intn(32)) }},
		{"PrevBlockHash", func(m *spec) { flip(m.Prev[:]) }},
		{"BlockRoot", func(m *spec) { flip(m.BlockRoot[:]) }},
		{"Timestamp", func(m *spec) { m.Timestamp ^= 1 << uint(c.Intn(32)) }},
		{"Height", func(m *spec) { m.Height ^= 1 << uint(c.Intn(32)) }},
		{"ConsensusData", func(m *spec) { m.ConsData ^= 1 << uint(c.Intn(64)) }},
		{"ConsensusPayload", func(m *spec) {
			if len(m.Payload) == 0 || c.Intn(3) == 0 {
				m.Payload = append(m.Payload, byte(c.Intn(256)))
			} else {
				flip(m.Payload)
			}
		}},
		{"NextBookkeeper", func(m *spec) { flip(m.NextBk[:]) }},
	}
	pick := c.Intn(len(muts))
	for i, mu := range muts {
		m := s.clone()
		mu.f(m)
		b := m.block()
		rr := evalBlock(c, "hdr/"+mu.name, b, false, i == pick)
		c.Nontrivial("hdr:" + mu.name + hx.Hex(sha256d(b)))
		if !rr.ok {
			c.Fail("hash:field-mutation-rejected", "a change of an unsigned field other than the transaction root still decodes",
				input{Kind: "block", Label: "hdr/" + mu.name, Hex: hx.Hex(b)}, fmt.Sprintf("err%d", rr.code), "accepted")
			continue
		}
		if bytes.Equal(rr.hash, r.hash) {
			c.Fail("hash:field-not-covered:"+mu.name, clause, input{Kind: "block", Label: "hdr/" + mu.name, Hex: hx.Hex(b)}, hx.Hex(rr.hash), "a different hash")
		}
	}
	// transaction root with an empty list: the root field is covered too (block with 0 txs and root != 0 is rejected above);
	// signer list and signatures: hash unchanged
	m := s.clone()
	k, _ := keyVariant(c, c.Intn(nCanonicalKinds))
	m.Keys = append(m.Keys, k)
	m.Sigs = append(m.Sigs, c.Bytes(1+c.Intn(64)))
	if len(m.Sigs) > 1 && c.Intn(2) == 0 {
		m.Sigs = m.Sigs[1:]
	}
	b := m.block()
	rr := evalBlock(c, "hdr/signers", b, false, !c.Quick() || round%2 == 0)
	if rr.ok && !bytes.Equal(rr.hash, r.hash) {
		c.Fail("hash:covers-signers", clause, input{Kind: "block", Label: "hdr/signers", Hex: hx.Hex(b)}, hx.Hex(rr.hash), hx.Hex(r.hash))
	}
}

// malformed: truncations, bit flips, non-minimal counts.
func malformed(c *hx.Ctx, s *spec, b []byte) {
	evalBlock(c, "bad/truncated", b[:c.Intn(len(b))], false, true)
	m := append([]byte(nil), b...)
	m[c.Intn(len(m))] ^= byte(1 << uint(c.Intn(8)))
	evalBlock(c, "bad/bitflip", m, false, true)
	evalBlock(c, "bad/trailing", append(append([]byte(nil), b...), c.Bytes(1+c.Intn(6))...), false, true)
	t := s.clone()
	t.NKeysForm = []byte{0xfd, 0xfe, 0xff}[c.Intn(3)]
	evalBlock(c, "bad/nonminimal-key-count", t.block(), false, true)
	t = s.clone()
	t.NSigsForm = []byte{0xfd, 0xfe, 0xff}[c.Intn(3)]
	evalBlock(c, "bad/nonminimal-sig-count", t.block(), false, true)
	t = s.clone()
	t.PayloadForm = []byte{0xfd, 0xfe, 0xff}[c.Intn(3)]
	if len(t.Payload) >= 0xfd {
		t.PayloadForm = 0xfe
	}
	evalBlock(c, "bad/nonminimal-payload-length", t.block(), false, true)
	evalBlock(c, "bad/garbage", c.Bytes(c.Intn(200)), false, true)
}

// probeCounts: bookkeeper / signature counts at and above 2^63 (known finding class).
func probeCounts(c *hx.Ctx, signers []*signer) {
	for _, v := range []uint64{1 << 63, 1<<63 + 1, 0xffffffffffffffff, 1<<63 - 1, 1 << 32} {
		for which := 0; which < 2; which++ {
			s := genSpec(c, signers, 1, 0, 0)
			vv := v
			if which == 0 {
				s.NKeys = &vv
			} else {
				s.NSigs = &vv
			}
			evalBlock(c, fmt.Sprintf("count/%d/%x", which, v), s.block(), which == 0 && v == 1<<63, true)
			evalHeader(c, fmt.Sprintf("count-header/%d/%x", which, v), s.header())
			c.Nontrivial(fmt.Sprintf("count:%d:%x", which, v))
		}
	}
}

// probeKeys: every key-encoding variant once, alone in a block (known finding class for the
// accepted non-canonical ones).
func probeKeys(c *hx.Ctx, signers []*signer) {
	for kind := 0; kind < nKeyKinds; kind++ {
		s := genSpec(c, signers, 1, 0, 1)
		k, label := keyVariant(c, kind)
		s.Keys = [][]byte{k}
		r := evalBlock(c, "keyprobe/"+label, s.block(), false, true)
		re, ok := parseKey(k)
		c.Count(fmt.Sprintf("keyprobe:%s:accepted=%v:canonical=%v", label, ok, ok && bytes.Equal(re, k)))
		if ok != r.ok {
			c.Fail("keys:parser-disagrees", "a header decodes iff each bookkeeper key parses", input{Kind: "block", Hex: hx.Hex(s.block())}, r.ok, ok)
		}
		c.Nontrivial("keyprobe:" + label)
		if kind == 4 {
			c.Sample(map[string]interface{}{"kind": "non-canonical key accepted", "encoding": hx.Hex(k), "rewritten_as": hx.Hex(re)})
		}
	}
}

// probeInnerNode: two blocks with the same header (hence the same block hash) and different
// transaction lists, both accepted: [T1, T2] and [T3] where the 64 unsigned bytes of T3 are
// hash(T1) ++ hash(T2). Found by grinding nonces (about 2^15 + 2^16 double hashes).
func probeInnerNode(c *hx.Ctx) {
	mk := func(nonce uint32, tail byte) []byte {
		w := &writer{}
		w.b = append(w.b, 0, byte(types.InvokeNeo))
		w.u32(nonce)
		w.u64(0)
		w.u64(20000)
		w.raw(bytes.Repeat([]byte{0x20}, 20))
		w.varbytes([]byte{0x51, tail}) // PUSH1 + one byte
		w.b = append(w.b, 0)           // attributes
		return w.b
	}
	var t1u, t2u, a, bb []byte
	for n := uint32(0); n < 1<<24 && a == nil; n++ {
		u := mk(n, 0x61)
		h := sha256d(u)
		if h[0] == 0 && (h[1] == byte(types.InvokeNeo) || h[1] == byte(types.InvokeWasm)) {
			t1u, a = u, h
		}
	}
	for n := uint32(0); n < 1<<26 && bb == nil; n++ {
		u := mk(n, 0x62)
		h := sha256d(u)
		if h[10] == 20 && h[31] == 0 {
			t2u, bb = u, h
		}
	}
	if a == nil || bb == nil {
		c.Note("inner-node probe: grinding found no witness (unexpected)")
		return
	}
	t1 := append(append([]byte(nil), t1u...), 0) // no signatures
	t2 := append(append([]byte(nil), t2u...), 0)
	t3 := append(append(append([]byte(nil), a...), bb...), 0)
	s := &spec{Height: 1, Timestamp: 1, Txs: [][]byte{t1, t2}}
	copy(s.Root[:], sha256d(append(append([]byte(nil), a...), bb...)))
	s2 := s.clone()
	s2.Txs = [][]byte{t3}
	b1, b2 := s.block(), s2.block()
	r1 := evalBlock(c, "confusion/two-txs", b1, true, true)
	r2 := evalBlock(c, "confusion/one-64-byte-tx", b2, true, true)
	c.Count(fmt.Sprintf("confusion:accepted=%v,%v", r1.ok, r2.ok))
	in := map[string]string{"kind": "confusion", "block1": hx.Hex(b1), "block2": hx.Hex(b2)}
	if r1.ok && r2.ok && bytes.Equal(r1.hash, r2.hash) && len(r1.ids) != len(r2.ids) {
		c.Sample(map[string]interface{}{"kind": "same block hash, different transaction lists, both accepted", "hash": hx.Hex(r1.hash),
			"txs_block1": []string{hx.Hex(t1), hx.Hex(t2)}, "txs_block2": []string{hx.Hex(t3)}})
		c.Fail("binding:inner-node-as-transaction", "the block hash binds the transaction list", in,
			"two accepted blocks with hash "+hx.Hex(r1.hash)+" carry 2 and 1 transactions", "at most one transaction list per block hash")
	}
}

// merkleShapes: the confusions proved in Proofs/BlockMerkle.v, on the implementation.
func merkleShapes(c *hx.Ctx) {
	a, b, cc, d := c.Bytes(32), c.Bytes(32), c.Bytes(32), c.Bytes(32)
	evalMerkle(c, "merkle/abc", [][]byte{a, b, cc}, true)
	evalMerkle(c, "merkle/abcc", [][]byte{a, b, cc, cc}, true)
	evalMerkle(c, "merkle/abcd", [][]byte{a, b, cc, d}, true)
	evalMerkle(c, "merkle/inner", [][]byte{sha256d(append(append([]byte(nil), a...), b...)), sha256d(append(append([]byte(nil), cc...), d...))}, true)
	evalMerkle(c, "merkle/zero", [][]byte{make([]byte, 32)}, true)
}
