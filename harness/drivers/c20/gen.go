package c20

import (
	"bytes"
	"fmt"
	"go/ast"
	"go/parser"
	"go/printer"
	"go/token"
	"path/filepath"
	"strconv"
	"strings"

	"github.com/ontio/ontology/common"

	"verif/harness/gen"
)

// Translator for Gen/BlockLayout.v. It reads core/types/header.go with go/parser and prints
//
//   - gen_hdr_serializationUnsigned : the byte layout written by (*Header).serializationUnsigned,
//     one `wr_<Method> (h<Field> u)` per statement, in source order;
//   - gen_hdr_deserializationUnsigned : the reader (*Header).deserializationUnsigned, one
//     `rd_<Method>_<tests> s (fun <Field> s => …)` per read, where <tests> lists the flags tested by
//     the `if` statements that follow the read, in source order;
//   - gen_hdr_hash_preimage : which serializer (*Header).Hash feeds to the hash, and
//     gen_hdr_hash_rounds : how many sha256.Sum256 applications it makes;
//   - the width of Go's int (for the `i < int(n)` loop bound) and the hash size.
//
// It fails closed: a statement outside the recognised shapes yields `translator_broken_…` or a
// combinator name that Model/BlockCodecTypes.v does not define, so the file (and every theorem
// that depends on it) stops compiling.

func pr(fset *token.FileSet, n ast.Node) string {
	var b bytes.Buffer
	printer.Fprint(&b, fset, n)
	return strings.Join(strings.Fields(b.String()), " ")
}

func findMethod(f *ast.File, recv, name string) *ast.FuncDecl {
	for _, d := range f.Decls {
		fd, ok := d.(*ast.FuncDecl)
		if !ok || fd.Name.Name != name || fd.Recv == nil || len(fd.Recv.List) != 1 {
			continue
		}
		t := fd.Recv.List[0].Type
		if st, ok := t.(*ast.StarExpr); ok {
			t = st.X
		}
		if id, ok := t.(*ast.Ident); ok && id.Name == recv {
			return fd
		}
	}
	return nil
}

func recvName(fd *ast.FuncDecl) string {
	if len(fd.Recv.List[0].Names) == 1 {
		return fd.Recv.List[0].Names[0].Name
	}
	return "_"
}

// fieldOf recognises `<recv>.<Field>` and `<recv>.<Field>[:]`.
func fieldOf(e ast.Expr, recv string) (string, bool) {
	if sl, ok := e.(*ast.SliceExpr); ok && sl.Low == nil && sl.High == nil && sl.Max == nil {
		e = sl.X
	}
	sel, ok := e.(*ast.SelectorExpr)
	if !ok {
		return "", false
	}
	id, ok := sel.X.(*ast.Ident)
	if !ok || id.Name != recv {
		return "", false
	}
	return sel.Sel.Name, true
}

func methodCall(e ast.Expr, obj string) (method string, args []ast.Expr, ok bool) {
	ce, ok := e.(*ast.CallExpr)
	if !ok {
		return "", nil, false
	}
	sel, ok := ce.Fun.(*ast.SelectorExpr)
	if !ok {
		return "", nil, false
	}
	id, ok := sel.X.(*ast.Ident)
	if !ok || id.Name != obj {
		return "", nil, false
	}
	return sel.Sel.Name, ce.Args, true
}

var hdrFields = []string{"Version", "PrevBlockHash", "TransactionsRoot", "BlockRoot", "Timestamp", "Height",
	"ConsensusData", "ConsensusPayload", "NextBookkeeper"}

func translateSer(fset *token.FileSet, fd *ast.FuncDecl) (string, error) {
	recv := recvName(fd)
	if len(fd.Type.Params.List) != 1 || len(fd.Type.Params.List[0].Names) != 1 {
		return "", fmt.Errorf("unexpected parameters")
	}
	sink := fd.Type.Params.List[0].Names[0].Name
	var parts []string
	for _, st := range fd.Body.List {
		es, ok := st.(*ast.ExprStmt)
		if !ok {
			return "", fmt.Errorf("unsupported statement %q", pr(fset, st))
		}
		m, args, ok := methodCall(es.X, sink)
		if !ok || len(args) != 1 {
			return "", fmt.Errorf("unsupported statement %q", pr(fset, st))
		}
		f, ok := fieldOf(args[0], recv)
		if !ok {
			return "", fmt.Errorf("unsupported argument %q", pr(fset, args[0]))
		}
		parts = append(parts, fmt.Sprintf("wr_%s (h%s u)", m, f))
	}
	if len(parts) == 0 {
		return "[]", nil
	}
	return strings.Join(parts, " ++\n  "), nil
}

// translateDeser: sequence of `recv.F, flags… = source.NextX()` each followed by `if flag { return err }`.
func translateDeser(fset *token.FileSet, fd *ast.FuncDecl) (string, error) {
	recv := recvName(fd)
	if len(fd.Type.Params.List) != 1 || len(fd.Type.Params.List[0].Names) != 1 {
		return "", fmt.Errorf("unexpected parameters")
	}
	src := fd.Type.Params.List[0].Names[0].Name
	type step struct {
		method, field string
		flags         []string // names of the flag variables by result position
		tests         []string
	}
	var steps []*step
	var cur *step
	finalReturn := false
	for _, st := range fd.Body.List {
		switch x := st.(type) {
		case *ast.DeclStmt:
			// `var irregular, eof bool`
			continue
		case *ast.AssignStmt:
			if len(x.Rhs) != 1 {
				return "", fmt.Errorf("unsupported assignment %q", pr(fset, st))
			}
			m, args, ok := methodCall(x.Rhs[0], src)
			if !ok || len(args) != 0 {
				return "", fmt.Errorf("unsupported assignment %q", pr(fset, st))
			}
			f, ok := fieldOf(x.Lhs[0], recv)
			if !ok {
				return "", fmt.Errorf("unsupported target %q", pr(fset, x.Lhs[0]))
			}
			cur = &step{method: m, field: f}
			for _, l := range x.Lhs[1:] {
				cur.flags = append(cur.flags, pr(fset, l))
			}
			steps = append(steps, cur)
		case *ast.IfStmt:
			if cur == nil || x.Init != nil || x.Else != nil || len(x.Body.List) != 1 {
				return "", fmt.Errorf("unsupported if %q", pr(fset, st))
			}
			cond, ok := x.Cond.(*ast.Ident)
			if !ok {
				return "", fmt.Errorf("unsupported condition %q", pr(fset, x.Cond))
			}
			ret, ok := x.Body.List[0].(*ast.ReturnStmt)
			if !ok || len(ret.Results) != 1 {
				return "", fmt.Errorf("unsupported if body %q", pr(fset, st))
			}
			want := map[string]string{"eof": "io.ErrUnexpectedEOF", "irregular": "common.ErrIrregularData"}[cond.Name]
			if want == "" || pr(fset, ret.Results[0]) != want {
				return "", fmt.Errorf("flag %s returns %s", cond.Name, pr(fset, ret.Results[0]))
			}
			found := false
			for _, fl := range cur.flags {
				if fl == cond.Name {
					found = true
				}
			}
			if !found {
				return "", fmt.Errorf("flag %s tested but not assigned by %s", cond.Name, cur.method)
			}
			cur.tests = append(cur.tests, cond.Name)
		case *ast.ReturnStmt:
			if len(x.Results) != 1 || pr(fset, x.Results[0]) != "nil" {
				return "", fmt.Errorf("unsupported return %q", pr(fset, st))
			}
			finalReturn = true
		default:
			return "", fmt.Errorf("unsupported statement %q", pr(fset, st))
		}
	}
	if !finalReturn {
		return "", fmt.Errorf("no final return nil")
	}
	var b strings.Builder
	for _, s := range steps {
		// the position of each flag in the result tuple is part of the combinator's meaning
		name := "rd_" + s.method
		for _, t := range s.tests {
			name += "_" + t
		}
		// flag positions: NextVarBytes returns (data, size, irregular, eof); others (data, eof)
		pos := strings.Join(s.flags, ",")
		wantPos := map[string]string{"NextUint32": "eof", "NextUint64": "eof", "NextHash": "eof", "NextAddress": "eof",
			"NextVarBytes": "_,irregular,eof"}[s.method]
		if pos != wantPos {
			return "", fmt.Errorf("%s results bound to (%s), expected (%s)", s.method, pos, wantPos)
		}
		fmt.Fprintf(&b, "  %s s (fun %s s =>\n", name, s.field)
	}
	fmt.Fprintf(&b, "  inl (mkU %s, s)%s", strings.Join(hdrFields, " "), strings.Repeat(")", len(steps)))
	return b.String(), nil
}

func translateHash(fset *token.FileSet, fd *ast.FuncDecl) (ser string, rounds int, err error) {
	recv := recvName(fd)
	ast.Inspect(fd.Body, func(n ast.Node) bool {
		ce, ok := n.(*ast.CallExpr)
		if !ok {
			return true
		}
		if m, _, ok := methodCall(ce, recv); ok {
			if ser != "" {
				err = fmt.Errorf("more than one call on the receiver")
			}
			ser = m
		}
		if pr(fset, ce.Fun) == "sha256.Sum256" {
			rounds++
		}
		return true
	})
	if ser == "" && err == nil {
		err = fmt.Errorf("no serializer call found")
	}
	return
}

func produceLayout(repo string) ([]byte, []string) {
	var errs []string
	var b bytes.Buffer
	fmt.Fprintf(&b, "(* GENERATED by harness/drivers/c20 from core/types/header.go on every run. Do not edit. *)\n")
	fmt.Fprintf(&b, "From Coq Require Import List NArith.\nImport ListNotations.\nFrom Ont Require Import Lib.Bytes Model.Codec Model.BlockCodecTypes.\nLocal Open Scope N_scope.\n\n")
	fset := token.NewFileSet()
	f, err := parser.ParseFile(fset, filepath.Join(repo, "core/types/header.go"), nil, 0)
	if err != nil {
		errs = append(errs, err.Error())
		fmt.Fprintf(&b, "Definition translator_broken_header_go : unit := tt.\n")
		return b.Bytes(), errs
	}
	broken := func(site string, e error) {
		errs = append(errs, site+": "+e.Error())
		fmt.Fprintf(&b, "Definition translator_broken_%s : unit := tt. (* %s *)\n\n", site, strings.ReplaceAll(e.Error(), "*)", "* )"))
	}
	if fd := findMethod(f, "Header", "serializationUnsigned"); fd == nil {
		broken("serializationUnsigned", fmt.Errorf("method not found"))
	} else if body, err := translateSer(fset, fd); err != nil {
		broken("serializationUnsigned", err)
	} else {
		fmt.Fprintf(&b, "(* method Header.serializationUnsigned *)\nDefinition gen_hdr_serializationUnsigned (u : uhdr) : bytes :=\n  %s.\n\n", body)
	}
	if fd := findMethod(f, "Header", "deserializationUnsigned"); fd == nil {
		broken("deserializationUnsigned", fmt.Errorf("method not found"))
	} else if body, err := translateDeser(fset, fd); err != nil {
		broken("deserializationUnsigned", err)
	} else {
		fmt.Fprintf(&b, "(* method Header.deserializationUnsigned *)\nDefinition gen_hdr_deserializationUnsigned (s : source) : (uhdr * source) + derr :=\n%s.\n\n", body)
	}
	if fd := findMethod(f, "Header", "Hash"); fd == nil {
		broken("Hash", fmt.Errorf("method not found"))
	} else if ser, rounds, err := translateHash(fset, fd); err != nil {
		broken("Hash", err)
	} else {
		fmt.Fprintf(&b, "(* method Header.Hash: the serializer whose output is hashed, and the number of sha256.Sum256 applications *)\n")
		fmt.Fprintf(&b, "Definition gen_hdr_hash_preimage : uhdr -> bytes := gen_hdr_%s.\nDefinition gen_hdr_hash_rounds : nat := %d.\n\n", ser, rounds)
	}
	fmt.Fprintf(&b, "(* strconv.IntSize: width of Go's int on the platform the harness is built for (loop bound i < int(n)) *)\nDefinition GO_INT_BITS : N := %d.\n", strconv.IntSize)
	fmt.Fprintf(&b, "(* common.UINT256_SIZE: size of a transaction hash / merkle node *)\nDefinition HASH_SIZE : nat := %d.\n", common.UINT256_SIZE)
	return b.Bytes(), errs
}

func init() {
	gen.RegisterFile("BlockLayout.v", produceLayout)
}
