package c20

import (
	"bytes"
	"fmt"
	"io"
	"strings"

	"github.com/ontio/ontology/common"
	"github.com/ontio/ontology/core/types"

	"verif/harness/hx"
)

type input struct {
	Kind  string   `json:"kind"`  // block | header | merkle
	Label string   `json:"label"` // generator label
	Hex   string   `json:"hex,omitempty"`
	List  []string `json:"list,omitempty"`
}

func errCode(err error) int {
	switch {
	case err == io.ErrUnexpectedEOF:
		return 0
	case err == common.ErrIrregularData:
		return 1
	case err.Error() == "duplicated transaction in block":
		return 4
	case err.Error() == "mismatched transaction root":
		return 5
	default:
		return 2
	}
}

// ---------- per-case tables of the external functions ----------

func pkTable(keys [][]byte) string {
	var items []string
	seen := map[string]bool{}
	for _, k := range keys {
		if seen[string(k)] {
			continue
		}
		seen[string(k)] = true
		re, ok := parseKey(k)
		items = append(items, fmt.Sprintf("(%s, %s)", hx.CoqBytes(k), hx.CoqOpt(ok, hx.CoqBytes(re))))
	}
	return hx.CoqList(items)
}

type txEntry struct {
	remaining int
	ok        bool
	id        []byte
	n         int
	code      int
}

// txDecode: Transaction.Deserialization on the remaining bytes, then Hash().
func txDecode(c *hx.Ctx, rest []byte) txEntry {
	e := txEntry{remaining: len(rest)}
	var tx *types.Transaction
	var err error
	var src *common.ZeroCopySource
	p, msg := hx.Recover(func() {
		tx = new(types.Transaction)
		src = common.NewZeroCopySource(rest)
		err = tx.Deserialization(src)
	})
	if p {
		c.Fail("panic:tx-deserialization", "no panic", map[string]string{"kind": "tx", "hex": hx.Hex(rest)}, msg, "error")
		e.code = 2
		return e
	}
	if err != nil {
		e.code = errCode(err)
		if e.code > 2 {
			e.code = 2
		}
		return e
	}
	h := tx.Hash()
	e.ok, e.id, e.n = true, h[:], int(src.Pos())
	// modelling assumption of Model/BlockCodec.v: a decoded transaction is written back as the bytes consumed
	if re := tx.ToArray(); !bytes.Equal(re, rest[:e.n]) {
		c.Fail("tx:reencode-differs", "transaction re-serializes to the bytes it was decoded from",
			map[string]string{"kind": "tx", "hex": hx.Hex(rest[:e.n])}, hx.Hex(re), hx.Hex(rest[:e.n]))
	}
	return e
}

func txTable(es []txEntry) string {
	var items []string
	for _, e := range es {
		if e.ok {
			items = append(items, fmt.Sprintf("(%s, TxOk %s %s)", hx.CoqNat(e.remaining), hx.CoqBytes(e.id), hx.CoqNat(e.n)))
		} else {
			items = append(items, fmt.Sprintf("(%s, TxErr %d)", hx.CoqNat(e.remaining), e.code))
		}
	}
	return hx.CoqList(items)
}

// fingerprint: must agree with [fp] in coq/Corr/C20.v
func fingerprint(x []byte) (int, []byte) {
	cut := func(lo, n int) []byte {
		if lo > len(x) {
			lo = len(x)
		}
		hi := lo + n
		if hi > len(x) {
			hi = len(x)
		}
		return x[lo:hi]
	}
	last := len(x) - 4
	if last < 0 {
		last = 0
	}
	f := append([]byte(nil), cut(0, 4)...)
	f = append(f, cut(32, 4)...)
	f = append(f, cut(last, 4)...)
	return len(x), f
}

func hashTable(t *hashTab, real bool) string {
	if real {
		return "None"
	}
	var items []string
	for i := range t.keys {
		n, f := fingerprint(t.keys[i])
		items = append(items, fmt.Sprintf("(%s, %s, %s)", hx.CoqNat(n), hx.CoqBytes(f), hx.CoqBytes(t.vals[i])))
	}
	return "(Some " + hx.CoqList(items) + ")"
}

// ---------- one block input ----------

type blockResult struct {
	ok       bool
	code     int
	consumed int
	reenc    []byte
	hash     []byte
	ids      [][]byte
	blk      *types.Block
	panicked bool
}

func runBlock(c *hx.Ctx, b []byte) blockResult {
	var r blockResult
	var err error
	var src *common.ZeroCopySource
	blk := &types.Block{}
	c.Eval()
	p, msg := hx.Recover(func() {
		src = common.NewZeroCopySource(append([]byte(nil), b...))
		err = blk.Deserialization(src)
	})
	if p {
		r.panicked = true
		c.Fail("panic:block-deserialization", "no panic", input{Kind: "block", Hex: hx.Hex(b)}, msg, "error")
		return r
	}
	if err != nil {
		r.code = errCode(err)
		return r
	}
	r.ok, r.blk, r.consumed = true, blk, int(src.Pos())
	r.reenc = blk.ToArray()
	h := blk.Hash()
	r.hash = h[:]
	for _, tx := range blk.Transactions {
		th := tx.Hash()
		r.ids = append(r.ids, append([]byte(nil), th[:]...))
	}
	return r
}

func bresCoq(r blockResult, sc scan, b []byte) string {
	if !r.ok {
		return fmt.Sprintf("(BErr %d)", r.code)
	}
	var ids []string
	for _, id := range r.ids {
		ids = append(ids, hx.CoqBytes(id[:4]))
	}
	re := "None"
	if r.consumed > len(b) || !bytes.Equal(r.reenc, b[:r.consumed]) {
		re = "(Some " + hx.CoqBytes(r.reenc) + ")"
	}
	return fmt.Sprintf("(BOk %s %s %s %s %d %d)", hx.CoqNat(r.consumed), re, hx.CoqBytes(r.hash), hx.CoqList(ids), sc.nkeys, sc.nsigs)
}

// evalBlock runs one input through Block.Deserialization, applies the oracles that need no
// knowledge of how the input was made, and emits the correspondence case.
func evalBlock(c *hx.Ctx, label string, b []byte, realHash bool, emit bool) blockResult {
	in := input{Kind: "block", Label: label, Hex: hx.Hex(b)}
	r := runBlock(c, b)
	if r.panicked {
		return r
	}
	sc := scanHeader(b)
	ht := newHashTab()

	// tables for the model
	var txs []txEntry
	if sc.ok && sc.hdrEnd+4 <= len(b) {
		cnt := uint32(b[sc.hdrEnd]) | uint32(b[sc.hdrEnd+1])<<8 | uint32(b[sc.hdrEnd+2])<<16 | uint32(b[sc.hdrEnd+3])<<24
		p := sc.hdrEnd + 4
		all := true
		var ids [][]byte
		for i := uint32(0); i < cnt && i < 300; i++ {
			e := txDecode(c, b[p:])
			txs = append(txs, e)
			if !e.ok {
				all = false
				break
			}
			ids = append(ids, e.id)
			p += e.n
		}
		dup := false
		seenID := map[string]bool{}
		for _, id := range ids {
			dup = dup || seenID[string(id)]
			seenID[string(id)] = true
		}
		if all && !dup && cnt < 300 {
			ownMerkle(ht, ids)
		}
	}
	if sc.ok {
		ht.h(b[:sc.unsignedEnd])
	}

	if r.ok {
		c.Count("result:accepted")
		if !sc.ok {
			// the independent scanner accepts exactly the well-formed, minimally encoded headers
			c.Fail("canon:malformed-header-accepted", "a block decoded from bytes re-encodes to the same bytes (header counts and lengths minimally encoded, inside the input)", in, "accepted", "rejected")
		}
		// (1) round trip on the consumed bytes
		if sc.ok && !bytes.Equal(r.reenc, b[:r.consumed]) {
			class := "roundtrip:other"
			switch {
			case sc.nkeys >= 1<<63 || sc.nsigs >= 1<<63:
				class = "roundtrip:count-ge-2^63"
			default:
				for _, k := range sc.rawKeys {
					if re, ok := parseKey(k); ok && !bytes.Equal(re, k) {
						class = "roundtrip:noncanonical-bookkeeper-key"
					}
				}
			}
			c.Count("finding:" + class)
			c.Fail(class, "a block decoded from bytes re-encodes to the same bytes", in, hx.Hex(r.reenc), hx.Hex(b[:r.consumed]))
		}
		// (2) no duplicate, root matches (own merkle implementation)
		seen := map[string]bool{}
		for _, id := range r.ids {
			if seen[string(id)] {
				c.Fail("dup:accepted", "decoding rejects a block that contains the same transaction twice", in, "accepted", "rejected")
			}
			seen[string(id)] = true
		}
		if want := ownMerkle(nil, r.ids); !bytes.Equal(want, r.blk.Header.TransactionsRoot[:]) {
			c.Fail("root:mismatch-accepted", "decoding rejects a block whose transaction list does not match the header's root", in,
				hx.Hex(r.blk.Header.TransactionsRoot[:]), hx.Hex(want))
		}
		// (3) block hash = sha256d of the unsigned header bytes as they stand in the input
		if want := sha256d(b[:sc.unsignedEnd]); sc.ok && !bytes.Equal(want, r.hash) {
			c.Fail("hash:not-unsigned-header", "block hash is the double SHA-256 of exactly the unsigned header fields", in, hx.Hex(r.hash), hx.Hex(want))
		}
	} else {
		c.Count(fmt.Sprintf("result:err%d", r.code))
	}
	if emit {
		c.Case(fmt.Sprintf("CBlock %s %s %s %s %s", hx.CoqBytes(b), pkTable(sc.rawKeys), txTable(txs), hashTable(ht, realHash), bresCoq(r, sc, b)), in)
	}
	c.Count("gen:" + strings.SplitN(label, "/", 2)[0])
	return r
}

// evalHeader: Header.Deserialization + ToArray + Hash on a byte string.
func evalHeader(c *hx.Ctx, label string, b []byte) {
	in := input{Kind: "header", Label: label, Hex: hx.Hex(b)}
	var err error
	var src *common.ZeroCopySource
	hd := &types.Header{}
	c.Eval()
	p, msg := hx.Recover(func() {
		src = common.NewZeroCopySource(append([]byte(nil), b...))
		err = hd.Deserialization(src)
	})
	if p {
		c.Fail("panic:header-deserialization", "no panic", in, msg, "error")
		return
	}
	sc := scanHeader(b)
	ht := newHashTab()
	var r blockResult
	if err != nil {
		r.code = errCode(err)
		c.Count(fmt.Sprintf("header:err%d", r.code))
	} else {
		c.Count("header:accepted")
		if !sc.ok {
			c.Fail("canon:malformed-header-accepted", "a block decoded from bytes re-encodes to the same bytes (header counts and lengths minimally encoded, inside the input)", in, "accepted", "rejected")
		}
		h := hd.Hash()
		r.ok, r.consumed, r.reenc, r.hash = true, int(src.Pos()), hd.ToArray(), h[:]
		if sc.ok {
			ht.h(b[:sc.unsignedEnd])
		}
		if want := sha256d(b[:sc.unsignedEnd]); sc.ok && !bytes.Equal(want, r.hash) {
			c.Fail("hash:not-unsigned-header", "block hash is the double SHA-256 of exactly the unsigned header fields", in, hx.Hex(r.hash), hx.Hex(want))
		}
		if sc.ok && !bytes.Equal(r.reenc, b[:r.consumed]) {
			class := "roundtrip:other"
			if sc.nkeys >= 1<<63 || sc.nsigs >= 1<<63 {
				class = "roundtrip:count-ge-2^63"
			} else {
				for _, k := range sc.rawKeys {
					if re, ok := parseKey(k); ok && !bytes.Equal(re, k) {
						class = "roundtrip:noncanonical-bookkeeper-key"
					}
				}
			}
			c.Count("finding:" + class)
			c.Fail(class, "a block decoded from bytes re-encodes to the same bytes", in, hx.Hex(r.reenc), hx.Hex(b[:r.consumed]))
		}
	}
	c.Case(fmt.Sprintf("CHeader %s %s %s %s", hx.CoqBytes(b), pkTable(sc.rawKeys), hashTable(ht, false), bresCoq(r, sc, b)), in)
}

// evalMerkle: common.ComputeMerkleRoot against the own implementation and the model.
func evalMerkle(c *hx.Ctx, label string, ids [][]byte, realHash bool) {
	var hexes []string
	var coq []string
	work := make([]common.Uint256, len(ids))
	for i, id := range ids {
		copy(work[i][:], id)
		hexes = append(hexes, hx.Hex(id))
		coq = append(coq, hx.CoqBytes(id))
	}
	in := input{Kind: "merkle", Label: label, List: hexes}
	var root common.Uint256
	c.Eval()
	if p, msg := hx.Recover(func() { root = common.ComputeMerkleRoot(work) }); p {
		c.Fail("panic:merkle", "no panic", in, msg, "root")
		return
	}
	ht := newHashTab()
	want := ownMerkle(ht, ids)
	if !bytes.Equal(want, root[:]) {
		c.Fail("merkle:root-differs", "ComputeMerkleRoot pairs adjacent hashes, duplicating an odd last one, with double SHA-256", in, hx.Hex(root[:]), hx.Hex(want))
	}
	c.Count(fmt.Sprintf("merkle:len%d", len(ids)))
	c.Case(fmt.Sprintf("CMerkle %s %s %s", hx.CoqList(coq), hashTable(ht, realHash), hx.CoqBytes(root[:])), in)
}
