//go:build all || c14

package all

import _ "verif/harness/drivers/c14"
