//go:build all || c16

package all

import _ "verif/harness/drivers/c16"
