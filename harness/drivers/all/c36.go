//go:build all || c36

package all

import _ "verif/harness/drivers/c36"
