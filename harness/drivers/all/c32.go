//go:build all || c32

package all

import _ "verif/harness/drivers/c32"
