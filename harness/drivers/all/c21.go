//go:build all || c21

package all

import _ "verif/harness/drivers/c21"
