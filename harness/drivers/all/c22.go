//go:build all || c22

package all

import _ "verif/harness/drivers/c22"
