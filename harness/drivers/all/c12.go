//go:build all || c12

package all

import _ "verif/harness/drivers/c12"
