//go:build all || c31

package all

// c28 owns the producer of Gen/Thresholds.v, which the C31 theorems depend on: link it too, so a
// development build with only the c31 tag regenerates the thresholds from the source.
import (
	_ "verif/harness/drivers/c28"
	_ "verif/harness/drivers/c31"
)
