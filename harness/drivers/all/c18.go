//go:build all || c18

package all

import _ "verif/harness/drivers/c18"
