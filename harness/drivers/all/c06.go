//go:build all || c06

package all

import _ "verif/harness/drivers/c06"
