//go:build all || c35

package all

import _ "verif/harness/drivers/c35"
