//go:build all || c40

package all

import _ "verif/harness/drivers/c40"
