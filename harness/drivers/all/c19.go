//go:build all || c19

package all

import _ "verif/harness/drivers/c19"
