//go:build all || c17

package all

import _ "verif/harness/drivers/c17"
