//go:build all || c11

package all

import _ "verif/harness/drivers/c11"
