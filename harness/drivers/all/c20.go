//go:build all || c20

package all

import _ "verif/harness/drivers/c20"
