//go:build all || c30

package all

import _ "verif/harness/drivers/c30"
