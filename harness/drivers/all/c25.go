//go:build all || c25

package all

import _ "verif/harness/drivers/c25"
