//go:build all || c02

package all

import _ "verif/harness/drivers/c02"
