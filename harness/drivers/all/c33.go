//go:build all || c33

package all

import _ "verif/harness/drivers/c33"
