//go:build all || c26

package all

import _ "verif/harness/drivers/c26"
