//go:build all || c41

package all

import _ "verif/harness/drivers/c41"
