//go:build all || c38

package all

import _ "verif/harness/drivers/c38"
