//go:build all || c29

package all

import _ "verif/harness/drivers/c29"
