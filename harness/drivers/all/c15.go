//go:build all || c15

package all

import _ "verif/harness/drivers/c15"
