//go:build all || c01

package all

import _ "verif/harness/drivers/c01"
