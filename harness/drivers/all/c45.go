//go:build all || c45

package all

import _ "verif/harness/drivers/c45"
