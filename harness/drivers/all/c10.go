//go:build all || c10

package all

import _ "verif/harness/drivers/c10"
