//go:build all || c09

package all

import _ "verif/harness/drivers/c09"
