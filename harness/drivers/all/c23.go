//go:build all || c23

package all

import _ "verif/harness/drivers/c23"
