//go:build all || c08

package all

import _ "verif/harness/drivers/c08"
