//go:build all || c24

package all

import _ "verif/harness/drivers/c24"
