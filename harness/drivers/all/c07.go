//go:build all || c07

package all

import _ "verif/harness/drivers/c07"
