//go:build all || c05

package all

import _ "verif/harness/drivers/c05"
