//go:build all || c37

package all

import _ "verif/harness/drivers/c37"
