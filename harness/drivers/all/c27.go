//go:build all || c27

package all

import _ "verif/harness/drivers/c27"
