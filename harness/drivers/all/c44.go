//go:build all || c44

package all

import _ "verif/harness/drivers/c44"
