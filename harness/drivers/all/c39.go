//go:build all || c39

package all

import _ "verif/harness/drivers/c39"
