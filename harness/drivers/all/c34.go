//go:build all || c34

package all

// c28 owns the producer of Gen/Thresholds.v and c31 the producer of Gen/VbftIntake.v, which the
// C34 theorems depend on: link them too, so that a development build with only the c34 tag
// regenerates both from the source.
import (
	_ "verif/harness/drivers/c28"
	_ "verif/harness/drivers/c31"
	_ "verif/harness/drivers/c34"
)
