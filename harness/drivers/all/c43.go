//go:build all || c43

package all

import _ "verif/harness/drivers/c43"
