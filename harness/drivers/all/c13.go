//go:build all || c13

package all

import _ "verif/harness/drivers/c13"
