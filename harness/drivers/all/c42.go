//go:build all || c42

package all

import _ "verif/harness/drivers/c42"
