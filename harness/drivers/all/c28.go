//go:build all || c28

package all

import _ "verif/harness/drivers/c28"
