//go:build all || c04

package all

import _ "verif/harness/drivers/c04"
