// Package all links the per-property drivers selected by build tags (`all` or `cNN`).
package all
