//go:build all || c03

package all

import _ "verif/harness/drivers/c03"
