package c32

// c32.go: the driver. One VBFT ledger on disk; a chain of headers is grown through
// LedgerStoreImp.AddHeaders (each step possibly carrying a new chain configuration), and at every
// chain tip forged and honest candidate headers are run through the real verifyHeader
// (VerifC32VerifyHeader). Every call becomes a correspondence case (store snapshot, header,
// error code, peer map afterwards) and is judged by the direct oracle in oracle.go.

import (
	"encoding/json"
	"fmt"
	"math/rand"
	"path/filepath"
	"strings"

	"github.com/ontio/ontology/common"
	"github.com/ontio/ontology/core/payload"
	"github.com/ontio/ontology/core/signature"
	"github.com/ontio/ontology/core/types"

	"verif/harness/hx"
)

func init() { hx.Register("C32", Run) }

type pendingCase struct {
	term string
	desc interface{}
}

type run struct {
	c      *hx.Ctx
	e      *env
	defs   coqDefs
	st     string // name of the current store definition
	cases  []pendingCase
	opIdx  int // operations performed so far (the generator is deterministic in the seed)
	stopAt int // replay by regeneration: stop after this many operations (0 = no limit)
	abort  bool // block-sync family: the ledger no longer matches the shadow (after a reported failure)
}

// regen names a case by position in the deterministic generation (used for correspondence
// cases, whose full history would be large); oracle failures carry the full history instead.
type regen struct {
	Seed int64  `json:"seed"`
	Tier string `json:"tier"`
	Upto int    `json:"upto"`
}

type stopSignal struct{}

func (r *run) tick() {
	if r.stopAt > 0 && r.opIdx >= r.stopAt {
		panic(stopSignal{})
	}
	r.opIdx++
}

func (r *run) caseDesc(op string, sp hdrSpec) scenario {
	return scenario{Regen: &regen{Seed: r.c.Seed, Tier: r.c.Tier, Upto: r.opIdx}, Op: op, Header: sp}
}

func (r *run) full(op string, sp hdrSpec) scenario {
	return scenario{History: append([]step{}, r.e.history...), Op: op, Header: sp}
}

// scenario is the replayable failing input: the state-changing operations that led to the store,
// then the operation judged.
type scenario struct {
	Regen   *regen  `json:"regenerate,omitempty"`
	History []step  `json:"history,omitempty"`
	Op      string  `json:"op"`
	Header  hdrSpec `json:"header"`
}

func (r *run) emit(term string, desc interface{}) { r.cases = append(r.cases, pendingCase{term, desc}) }

// errCode projects an error of verifyHeader / AddHeaders / VerifyMultiSignature to the enum of Corr/C32.v.
func errCode(err error, panicked bool) string {
	if panicked {
		return "KPanic"
	}
	if err == nil {
		return "KOk"
	}
	m := err.Error()
	switch {
	case strings.Contains(m, "not equal next header height"):
		return "KWrongNextHeight"
	case strings.Contains(m, "cannot find pre header by blockHash"):
		return "KPrevMissing"
	case strings.Contains(m, "block height is incorrect"):
		return "KHeight"
	case strings.Contains(m, "block timestamp is incorrect"):
		return "KTime"
	case strings.Contains(m, "unmarshal blockInfo"):
		return "KPayload"
	case strings.Contains(m, "cannot find chain config header by height"):
		return "KCfgHeaderMissing"
	case strings.Contains(m, "cannot find newchainconfig header by height"):
		return "KNoNewCfg"
	case strings.Contains(m, "chainconfig height:") && strings.Contains(m, "not found"):
		return "KPeerMapMissing"
	case strings.Contains(m, "more than 6/7 len vbftPeerInfo"):
		return "KFewListed"
	case strings.Contains(m, "verify header error: invalid pubkey"):
		return "KNonMember"
	case strings.Contains(m, "verify header error height:"):
		return "KFewDistinct"
	case strings.Contains(m, "not enough signatures in multi-signature"):
		return "KSigNotEnough"
	case strings.Contains(m, "invalid signature data"):
		return "KSigBad"
	case strings.Contains(m, "multi-signature verification failed"):
		return "KSigFailed"
	}
	return "KOther"
}

// storeDef (re)defines the Coq store after the peer map changed without a header being added.
func (r *run) syncPeers() {
	now := r.e.observePeers()
	if !peersEqual(now, r.e.peers) {
		r.e.peers = now
		r.st = r.defs.add(fmt.Sprintf("with_peers %s %s", coqPeers(now), r.st))
	}
}

// doVerify runs verifyHeader on the header of spec against the current store.
func (r *run) doVerify(sp hdrSpec, tag string) (accepted bool) { return r.doVerifyVia(sp, tag, "verify") }

// doAddBlock offers a one-transaction block with this header and a wrong state root to
// Ledger.AddBlock: verifyHeader runs (and may write the peer map), then the block is refused.
func (r *run) doAddBlock(sp hdrSpec, tag string) (accepted bool) { return r.doVerifyVia(sp, tag, "addblock") }

func (r *run) doVerifyVia(sp hdrSpec, tag string, via string) (accepted bool) {
	c, e := r.c, r.e
	r.tick()
	h, m := e.build(&sp)
	if h == nil {
		c.Count("gen:header-wire-form-undecodable")
		return false
	}
	var err error
	var panicked bool
	var pmsg string
	if via == "addblock" {
		tx, terr := (&types.MutableTransaction{TxType: types.InvokeNeo, Nonce: 7, GasLimit: 20000,
			Payload: &payload.InvokeCode{Code: []byte{0x00}}}).IntoImmutable()
		if terr != nil {
			panic(terr)
		}
		blk := &types.Block{Header: h, Transactions: []*types.Transaction{tx}}
		var bogus common.Uint256
		for i := range bogus {
			bogus[i] = 0xee
		}
		panicked, pmsg = hx.Recover(func() { err = e.ldg.AddBlock(blk, nil, bogus) })
		if e.ldg.GetCurrentBlockHeight() != 0 {
			c.Fail("harness:addblock-saved", "the probe block was saved", sp, e.ldg.GetCurrentBlockHeight(), 0)
		}
		if err != nil && !strings.Contains(err.Error(), "verifyHeader error") {
			c.Note("AddBlock probe refused after verifyHeader: " + err.Error())
			err = nil // verifyHeader itself accepted
		} else if err == nil && !panicked {
			c.Fail("harness:addblock-saved", "the probe block was accepted", sp, "nil", "state merkle root mismatch")
		}
	} else {
		panicked, pmsg = hx.Recover(func() { err = e.store.VerifC32VerifyHeader(h) })
	}
	c.Eval()
	code := errCode(err, panicked)
	if panicked {
		c.Fail("panic:"+via, "a panic escaped "+via, r.full(via, sp), pmsg, "error or nil")
	}
	c.Count(via + ":" + code)
	c.Count("gen:" + tag)
	if code == "KOther" {
		c.Note("unmapped verifyHeader result: " + fmt.Sprint(err, pmsg))
	}
	before := r.st
	after := e.observePeers()
	sc := r.full(via, sp)
	r.emit(fmt.Sprintf("(CVerify %s %s %s %s)", before, coqHeader(m), code, coqPeers(after)), r.caseDesc(via, sp))
	r.classCase(before, &sp, m)
	r.oracle(&sp, h, m, err == nil && !panicked, sc)
	r.trackMap(after, err == nil && !panicked, sc)
	switch code {
	case "KOk", "KFewListed", "KNonMember", "KFewDistinct", "KSigNotEnough", "KSigBad", "KSigFailed":
		b, _ := json.Marshal(sp)
		c.Nontrivial(string(b))
	}
	if !peersEqual(after, e.peers) {
		e.history = append(e.history, step{Op: via, Spec: sp})
	}
	r.syncPeers()
	return err == nil && !panicked
}

// doAdd runs AddHeaders([h]) and, when accepted, extends the shadow chain.
func (r *run) doAdd(sp hdrSpec, tag string) (accepted bool) {
	c, e := r.c, r.e
	r.tick()
	h, m := e.build(&sp)
	if h == nil {
		c.Count("gen:header-wire-form-undecodable")
		return false
	}
	var err error
	panicked, pmsg := hx.Recover(func() { err = e.store.AddHeaders([]*types.Header{h}) })
	c.Eval()
	code := errCode(err, panicked)
	if panicked {
		c.Fail("panic:AddHeaders", "a panic escaped AddHeaders", r.full("add", sp), pmsg, "error or nil")
	}
	c.Count("add:" + code)
	c.Count("gen:" + tag)
	if code == "KOther" {
		c.Note("unmapped AddHeaders result: " + fmt.Sprint(err, pmsg))
	}
	before := r.st
	after := e.observePeers()
	tip := e.store.GetCurrentHeaderHeight()
	indexed := false
	if got, gerr := e.store.GetHeaderByHeight(sp.Height); gerr == nil && got != nil && got.Hash() == h.Hash() {
		indexed = true
	}
	sc := r.full("add", sp)
	r.emit(fmt.Sprintf("(CAdd %s %s %s %d %s %s)", before, coqHeader(m), code, tip, coqPeers(after), hx.CoqBool(indexed)), r.caseDesc("add", sp))
	if strings.HasPrefix(tag, "witness") {
		c.Sample(map[string]interface{}{"witness": tag, "scenario": sc, "AddHeaders": code, "current_header_height": tip})
	}
	r.classCase(before, &sp, m)
	ok := err == nil && !panicked
	r.oracle(&sp, h, m, ok, sc)
	r.trackMap(after, ok, sc)
	if ok {
		if int(sp.Height) != len(e.chain) {
			c.Fail("add:height-gap", "AddHeaders accepted a header that is not the next one", sc, tip, len(e.chain))
			return ok
		}
		e.chain = append(e.chain, &chainEnt{real: h, m: m})
		e.history = append(e.history, step{Op: "add", Spec: sp})
		e.peers = after
		r.st = r.defs.add(fmt.Sprintf("push_header %s %s %s", coqHeader(m), coqPeers(after), before))
	} else {
		r.syncPeers()
	}
	return ok
}

// trackMap compares vbftPeerInfoMap before and after one verifyHeader / AddHeaders / AddBlock call.
// ORACLE: a call in which verifyHeader REJECTED the header must leave the map unchanged (the map is
// what later headers are membership-checked against). Per height it records whether the current
// entry was written by an accepted or by a rejected call.
func (r *run) trackMap(after mPeers, accepted bool, sc scenario) {
	e := r.e
	var changed []uint32
	for h, x := range after {
		if y, ok := e.peers[h]; !ok || !sameSet(x, y) || len(x) != len(y) {
			changed = append(changed, h)
		}
	}
	for h := range e.peers {
		if _, ok := after[h]; !ok {
			changed = append(changed, h)
		}
	}
	if len(changed) == 0 {
		return
	}
	who := "accepted"
	if !accepted {
		who = "rejected"
		h := changed[0]
		r.c.Fail("peermap:changed-by-rejected-header",
			"a header REJECTED by verifyHeader changed vbftPeerInfoMap (the peer sets later headers are checked against)",
			sc, map[string]interface{}{"height": h, "entry_before": e.peers[h], "entry_after": after[h]}, "map unchanged")
	}
	for _, h := range changed {
		e.writer[h] = who
	}
}

// classCase ties the driver's classification (finding classes, governing height) to the Coq
// predicates of the partial theorem.
func (r *run) classCase(st string, sp *hdrSpec, m *mHeader) {
	cl := r.e.classify(sp, bkIDs(m.Bks))
	g, ok := r.e.govHeight(sp.Height)
	r.emit(fmt.Sprintf("(CClass %s %s %s %s %s %s %s)", st, coqHeader(m), hx.CoqBool(cl.stale), hx.CoqBool(cl.threshold),
		hx.CoqBool(cl.dup), hx.CoqBool(cl.overwritten), coqOptN(ok, g)), r.caseDesc("classify", *sp))
}

func Run(c *hx.Ctx) {
	c.CoqModule("Corr.C32")
	r := &run{c: c}
	defer func() {
		if r.e != nil {
			r.e.close()
		}
	}()
	var sc scenario
	if c.ReplayInput(&sc) && sc.Regen == nil && sc.Op != "" {
		r.replay(sc)
		r.flush()
		return
	}
	if sc.Regen != nil {
		c.Rng = rand.New(rand.NewSource(sc.Regen.Seed))
		c.Tier = sc.Regen.Tier
		r.stopAt = sc.Regen.Upto
		c.Note(fmt.Sprintf("replay by regeneration: seed %d, tier %s, first %d operations", sc.Regen.Seed, sc.Regen.Tier, sc.Regen.Upto))
	}
	defer r.flush()
	defer func() {
		if x := recover(); x != nil {
			if _, ok := x.(stopSignal); !ok {
				panic(x)
			}
		}
	}()
	for _, raw := range c.CorpusInputs() {
		var s2 scenario
		if json.Unmarshal(raw, &s2) == nil && s2.Op != "" {
			r.replay(s2)
		}
	}
	r.fresh("overwrite")
	r.witnessOverwrite()
	r.fresh("rejected-poison")
	r.probeRejectedPoison()
	r.fresh("forged-encoding")
	r.probeForgedEncoding()
	r.fresh("blocksync")
	r.blockSync(c.N(9, 30))
	r.abort = false
	// one chain in the quick tier, several independent ones (fresh ledger, fresh keys) in the thorough tier
	for chain := 0; chain < c.N(1, 8); chain++ {
		r.fresh("main")
		if chain == 0 {
			r.witnesses()
		}
		r.randomEpochs(c.N(36, 40), c.N(14, 20))
	}
	r.vmsCases(c.N(240, 2500))
}

func (r *run) fresh(name string) {
	if r.e != nil {
		r.e.close()
	}
	e, err := newEnv(filepath.Join(r.c.OutDir, "ledger-"+name+fmt.Sprint(r.defs.n)))
	if err != nil {
		panic(err)
	}
	r.e = e
	g := e.chain[0].m
	r.st = r.defs.add(fmt.Sprintf("mk_store [%s] [(0, %d)] %s 0", coqHeader(g), g.Hash, coqPeers(e.peers)))
}

func (r *run) flush() {
	r.c.CoqHeader(r.defs.b.String())
	for _, pc := range r.cases {
		r.c.Case(pc.term, pc.desc)
	}
}

// replay rebuilds the store of a scenario on a fresh ledger and repeats the judged operation.
func (r *run) replay(sc scenario) {
	r.fresh("replay")
	for _, st := range append(append([]step{}, sc.History...), step{Op: sc.Op, Spec: sc.Header}) {
		switch st.Op {
		case "add":
			r.doAdd(st.Spec, "replay")
		case "addblock":
			r.doAddBlock(st.Spec, "replay")
		case "block-AddBlock":
			r.doBlock(st.Spec, "AddBlock", "replay")
		case "block-SubmitBlock":
			r.doBlock(st.Spec, "SubmitBlock", "replay")
		default:
			r.doVerify(st.Spec, "replay")
		}
	}
}

// vmsCases: signature.VerifyMultiSignature alone (the mask algorithm), on key lists with repeats,
// mixed key types and hostile key encodings (decoded by types.HeaderFromRawBytes like a header's).
func (r *run) vmsCases(n int) {
	c, e := r.c, r.e
	encs := []string{"uncompressed", "off+2", "off+6", "off+40", "off+1", "zero"}
	mixed := []int{1, 2, 3, 4, 5, 6, 31, 32, 33, 34} // P-256 x6, SM2 x3, Ed25519
	for i := 0; i < n; i++ {
		nk := c.Intn(7)
		var keys []int
		for j := 0; j < nk; j++ {
			if j > 0 && c.Intn(4) == 0 {
				keys = append(keys, keys[c.Intn(j)])
			} else {
				keys = append(keys, mixed[c.Intn(len(mixed))])
			}
		}
		m := c.Intn(nk+3) - 1
		sp := hdrSpec{Height: 1, PrevHeight: 0, Time: 1, Bks: keys, Salt: uint64(1000000 + i)}
		ns := c.Intn(nk + 3)
		for j := 0; j < ns; j++ {
			sp.Sigs = append(sp.Sigs, r.randSig(keys, mixed, j))
		}
		tag := "plain"
		if nk > 0 && c.Intn(3) == 0 { // hostile encodings, the forged object first, a foreign-scheme blob first
			tag = "hostile"
			sp.Enc = make([]string, nk)
			sp.Enc[0] = encs[c.Intn(len(encs))]
			if nk > 1 && c.Intn(3) == 0 {
				sp.Enc[1+c.Intn(nk-1)] = encs[c.Intn(len(encs))]
			}
			if len(sp.Sigs) > 0 && c.Intn(2) == 0 {
				sp.Sigs[0] = r.foreignBlob(keys[0], mixed)
			}
			if m < 1 && c.Intn(2) == 0 {
				m = 1
			}
		}
		h, mh := e.build(&sp)
		if h == nil {
			c.Count("vms:key-wire-form-undecodable")
			continue
		}
		hash := h.Hash()
		var err error
		panicked, pmsg := hx.Recover(func() { err = signature.VerifyMultiSignature(hash[:], h.Bookkeepers, m, h.SigData) })
		c.Eval()
		code := errCode(err, panicked)
		c.Count("vms-" + tag + ":" + code)
		desc := map[string]interface{}{"vms": sp, "m": m}
		r.emit(fmt.Sprintf("(CVms %d %s %s %s %s)", mh.Hash, coqBks(mh.Bks), hx.CoqZ(int64(m)), coqSigs(mh.Sigs), code), desc)
		if panicked {
			c.Fail("panic:VerifyMultiSignature", "a panic escaped VerifyMultiSignature", desc, pmsg, "error or nil")
		}
		genuine := bkGenuine(mh.Bks)
		for j, b := range mh.Bks {
			if b.Forged {
				for _, raw := range h.SigData {
					if ok, _ := guardedVerify(h.Bookkeepers[j], hash[:], raw); ok {
						c.Fail("harness:forged-key-verifies", "a signature verifies under a key object that is no genuine pool key", desc, "verifies", "does not verify")
					}
				}
			}
		}
		if code == "KOk" && m > 0 {
			// oracle on the implementation: an accepting run has its first m signatures valid under
			// m distinct list positions holding GENUINE key objects (library called directly, guarded)
			if len(h.SigData) < m || !matchSlots(e, hash[:], genuine, h.SigData[:m]) {
				c.Fail("vms:accepted-without-valid-signatures", "VerifyMultiSignature returned nil although the first m signatures are not valid signatures of m distinct listed genuine keys",
					desc, "nil", fmt.Sprintf("error (m=%d)", m))
			}
			b, _ := json.Marshal(sp)
			c.Nontrivial("vms" + string(b))
		}
	}
}
