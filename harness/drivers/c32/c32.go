package c32

import "verif/harness/hx"

func init() { hx.Register("C32", Run) }

func Run(c *hx.Ctx) {}
