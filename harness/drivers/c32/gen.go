// Package c32: synced VBFT block headers carry signatures of more than C consensus peers.
// gen.go: the integer expressions of verifyHeader (VBFT branch) and VerifyMultiSignature that the
// Coq model (coq/Model/HeaderSync.v) takes from the current source on every run.
package c32

import (
	"verif/harness/gen"
)

const ledgerStoreFile = "core/store/ledgerstore/ledger_store.go"
const signatureFile = "core/signature/signature.go"

// Sites: every threshold, bound and comparison operand the acceptance decision depends on.
var Sites = []gen.Site{
	// m := len(vbftPeerInfo) - (len(vbftPeerInfo)*6)/7
	{Name: "hs_vbft_m", File: ledgerStoreFile, Func: "verifyHeader", Loc: "assign:m#0",
		Subst: map[string]string{"len(vbftPeerInfo)": "n"}, Vars: []string{"n"}},
	// if len(header.Bookkeepers) < m
	{Name: "hs_vbft_listed_lhs", File: ledgerStoreFile, Func: "verifyHeader", Loc: "cmp:<:lhs#0",
		Subst: map[string]string{"len(header.Bookkeepers)": "listed"}, Vars: []string{"listed"}},
	{Name: "hs_vbft_listed_rhs", File: ledgerStoreFile, Func: "verifyHeader", Loc: "cmp:<:rhs#0",
		Subst: map[string]string{"m": "m"}, Vars: []string{"m"}},
	// if uint32(len(usedPubKey)) < c+1
	{Name: "hs_vbft_distinct_lhs", File: ledgerStoreFile, Func: "verifyHeader", Loc: "cmp:<:lhs#1",
		Subst: map[string]string{"len(usedPubKey)": "d"}, Vars: []string{"d"}},
	{Name: "hs_vbft_distinct_rhs", File: ledgerStoreFile, Func: "verifyHeader", Loc: "cmp:<:rhs#1",
		Subst: map[string]string{"c": "c"}, Vars: []string{"c"}},
	// VerifyMultiSignature(hash[:], header.Bookkeepers, m, header.SigData): the third argument
	{Name: "hs_vbft_vms_m", File: ledgerStoreFile, Func: "verifyHeader", Loc: "callarg:VerifyMultiSignature:2",
		Subst: map[string]string{"m": "m"}, Vars: []string{"m"}},
	// VerifyMultiSignature: if len(sigs) < m ; for i := 0; i < m ; for j := 0; j < n (n := len(keys))
	{Name: "vms_enough_lhs", File: signatureFile, Func: "VerifyMultiSignature", Loc: "cmp:<:lhs#0",
		Subst: map[string]string{"len(sigs)": "nsigs"}, Vars: []string{"nsigs"}},
	{Name: "vms_enough_rhs", File: signatureFile, Func: "VerifyMultiSignature", Loc: "cmp:<:rhs#0",
		Subst: map[string]string{"m": "m"}, Vars: []string{"m"}},
	{Name: "vms_outer_bound", File: signatureFile, Func: "VerifyMultiSignature", Loc: "cmp:<:rhs#1",
		Subst: map[string]string{"m": "m"}, Vars: []string{"m"}},
	{Name: "vms_inner_bound", File: signatureFile, Func: "VerifyMultiSignature", Loc: "cmp:<:rhs#2",
		Subst: map[string]string{"len(keys)": "nkeys"}, Vars: []string{"nkeys"}},
	{Name: "vms_mask_len", File: signatureFile, Func: "VerifyMultiSignature", Loc: "callarg:make:1",
		Subst: map[string]string{"len(keys)": "nkeys"}, Vars: []string{"nkeys"}},
}

func init() {
	gen.RegisterFile("HeaderSyncGen.v", gen.SitesProducer(Sites))
}
