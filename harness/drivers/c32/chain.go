package c32

// chain.go: a VBFT-configured ledger on disk, the key pool, construction of real headers from
// specs, and the driver-side shadow of the store (headers by height, observed peer map).

import (
	"bytes"
	"crypto/sha256"
	"math/big"
	"encoding/hex"
	"encoding/json"
	"fmt"
	"os"
	"sort"
	"strings"

	"github.com/ontio/ontology-crypto/ec"
	"github.com/ontio/ontology-crypto/keypair"
	"golang.org/x/crypto/ed25519"
	s "github.com/ontio/ontology-crypto/signature"
	"github.com/ontio/ontology/common"
	"github.com/ontio/ontology/common/config"
	"github.com/ontio/ontology/common/log"
	vconfig "github.com/ontio/ontology/consensus/vbft/config"
	"github.com/ontio/ontology/core/genesis"
	"github.com/ontio/ontology/core/ledger"
	"github.com/ontio/ontology/core/signature"
	"github.com/ontio/ontology/core/store/ledgerstore"
	"github.com/ontio/ontology/core/types"
)

func init() {
	log.InitLog(log.FatalLog, os.Stderr) // verifyHeader logs every rejection at error level
}

type keyEnt struct {
	id     int
	priv   keypair.PrivateKey
	pub    keypair.PublicKey
	scheme s.SignatureScheme
	hexid  string
}

func (k *keyEnt) PrivKey() keypair.PrivateKey  { return k.priv }
func (k *keyEnt) PubKey() keypair.PublicKey    { return k.pub }
func (k *keyEnt) Scheme() s.SignatureScheme    { return k.scheme }

const poolSize = 36
const ghostBase = 1000

// sigSpec says how one SigData entry is made.
type sigSpec struct {
	Kind string `json:"kind"` // valid | othermsg | corrupt | undecodable | dup | blob (well-formed ECDSA-scheme bytes nobody signed)
	K    int    `json:"k,omitempty"`   // signing key id (valid, othermsg, corrupt)
	V    int    `json:"v,omitempty"`   // variant (undecodable), message salt (othermsg)
	D    int    `json:"d,omitempty"`   // index of the earlier entry to repeat (dup)
}

// hdrSpec determines a header up to key material (keys are named by pool id).
type hdrSpec struct {
	Height     uint32    `json:"height"`
	PrevHeight int       `json:"prev_height"` // height of the stored header whose hash is PrevBlockHash; -1: unknown hash
	PrevSalt   int       `json:"prev_salt,omitempty"`
	Time       uint32    `json:"time"`
	BadPayload bool      `json:"bad_payload,omitempty"`
	Last       uint32    `json:"last_config_block_num"`
	Cfg        *mCfg     `json:"new_chain_config,omitempty"`
	Bks        []int     `json:"bookkeepers"`
	Enc        []string  `json:"encodings,omitempty"` // per bookkeeper: "" standard | uncompressed | off+N | zero | infinity | nonresidue
	Sigs       []sigSpec `json:"sigs"`
	Salt       uint64    `json:"salt"` // ConsensusData, makes hashes distinct
	BlockRoot  bool      `json:"block_root,omitempty"` // carry the block merkle root a block at this height must have
}

type chainEnt struct {
	real *types.Header
	m    *mHeader
}

type step struct {
	Op   string  `json:"op"` // add | verify
	Spec hdrSpec `json:"header"`
}

type env struct {
	dir     string
	keys    []*keyEnt
	idOf    map[string]int
	ldg     *ledger.Ledger
	store   *ledgerstore.LedgerStoreImp
	hashID  map[common.Uint256]int
	nextID  int
	chain   []*chainEnt // index = height
	peers   mPeers      // vbftPeerInfoMap as last observed
	roots   map[uint32]common.Uint256 // block roots computed so far, by height (see hdrSpec.BlockRoot)
	writer  map[uint32]string // per height: was the current entry written by an "accepted" or a "rejected" verifyHeader call ("init": at load)
	history []step      // state-changing operations so far (replayable)
	vcache  map[string]bool
}

func (e *env) key(id int) *keyEnt { return e.keys[id-1] }

// idString: the peer id string a key id stands for in a chain config.
func (e *env) idString(id int) string {
	if id >= ghostBase {
		return strings.ToUpper(e.key(id - ghostBase).hexid) // PubkeyID is lower-case hex: never equal
	}
	return e.key(id).hexid
}

func (e *env) hid(h common.Uint256) int {
	if id, ok := e.hashID[h]; ok {
		return id
	}
	e.nextID++
	e.hashID[h] = e.nextID
	return e.nextID
}

func newKeys() []*keyEnt {
	var ks []*keyEnt
	for i := 0; i < poolSize; i++ {
		var priv keypair.PrivateKey
		var pub keypair.PublicKey
		var err error
		sch := s.SHA256withECDSA
		switch {
		case i >= 30 && i < 33:
			priv, pub, err = keypair.GenerateKeyPair(keypair.PK_SM2, keypair.SM2P256V1)
			sch = s.SM3withSM2
		case i >= 33:
			priv, pub, err = keypair.GenerateKeyPair(keypair.PK_EDDSA, keypair.ED25519)
			sch = s.SHA512withEDDSA
		default:
			priv, pub, err = keypair.GenerateKeyPair(keypair.PK_ECDSA, keypair.P256)
		}
		if err != nil {
			panic(err)
		}
		ks = append(ks, &keyEnt{id: i + 1, priv: priv, pub: pub, scheme: sch, hexid: vconfig.PubkeyID(pub)})
	}
	return ks
}

const vrfHex = "1c9810aa9822e511d5804a9c4db9dd08497c31087b0daafa34d768a3253441fa20515e2f30f81741102af0ca3cefc4818fef16adb825fbaa8cad78647f3afb590e"

// newEnv creates a fresh VBFT ledger (genesis configuration: pool keys 1..7, C = 2, as on
// Ontology's main net) in dir.
func newEnv(dir string) (*env, error) {
	if err := os.RemoveAll(dir); err != nil {
		return nil, err
	}
	e := &env{dir: dir, keys: newKeys(), idOf: map[string]int{}, hashID: map[common.Uint256]int{}, nextID: 99,
		vcache: map[string]bool{}, roots: map[uint32]common.Uint256{}}
	for _, k := range e.keys {
		e.idOf[k.hexid] = k.id
		up := strings.ToUpper(k.hexid)
		if up != k.hexid {
			e.idOf[up] = ghostBase + k.id
		}
	}
	var peers []*config.VBFTPeerStakeInfo
	var bookkeepers []keypair.PublicKey
	for i := 1; i <= 7; i++ {
		k := e.key(i)
		addr := types.AddressFromPubKey(k.pub)
		peers = append(peers, &config.VBFTPeerStakeInfo{Index: uint32(i), PeerPubkey: k.hexid,
			Address: addr.ToBase58(), InitPos: 10000})
		bookkeepers = append(bookkeepers, k.pub)
	}
	config.DefConfig.Genesis.ConsensusType = config.CONSENSUS_TYPE_VBFT
	config.DefConfig.Genesis.VBFT = &config.VBFTConfig{N: 7, C: 2, K: 7, L: 112, BlockMsgDelay: 10000, HashMsgDelay: 10000,
		PeerHandshakeTimeout: 10, MaxBlockChangeView: 3000, MinInitStake: 10000,
		AdminOntID: "did:ont:AZYsUWrzNYoXKjUNmMNwRZFHgdFceepDY8", VrfValue: vrfHex, VrfProof: vrfHex, Peers: peers}
	config.DefConfig.P2PNode.NetworkId = 3
	gb, err := genesis.BuildGenesisBlock(bookkeepers, config.DefConfig.Genesis)
	if err != nil {
		return nil, fmt.Errorf("genesis: %v", err)
	}
	l, err := ledger.InitLedger(dir, 0, bookkeepers, gb)
	if err != nil {
		return nil, fmt.Errorf("init ledger: %v", err)
	}
	ledger.DefLedger = l
	e.ldg = l
	e.store = l.GetStore().(*ledgerstore.LedgerStoreImp)
	// shadow of the genesis header
	gh, err := e.store.GetHeaderByHeight(0)
	if err != nil {
		return nil, err
	}
	info, err := vconfig.VbftBlock(gh)
	if err != nil || info.NewChainConfig == nil {
		return nil, fmt.Errorf("genesis header carries no chain config: %v", err)
	}
	cfg := &mCfg{C: info.NewChainConfig.C}
	for _, p := range info.NewChainConfig.Peers {
		cfg.Peers = append(cfg.Peers, e.idOf[p.ID])
	}
	e.hashID[common.Uint256{}] = 0
	m := &mHeader{Height: 0, Prev: 0, Time: gh.Timestamp, InfoOK: true, Last: info.LastConfigBlockNum, Cfg: cfg, Hash: e.hid(gh.Hash())}
	e.chain = []*chainEnt{{real: gh, m: m}}
	e.peers = e.observePeers()
	e.writer = map[uint32]string{}
	for h := range e.peers {
		e.writer[h] = "init"
	}
	return e, nil
}

func (e *env) close() {
	if e.ldg != nil {
		e.ldg.Close()
		e.ldg = nil
	}
}

// observePeers reads vbftPeerInfoMap through the exporter and maps the id strings to key ids.
func (e *env) observePeers() mPeers {
	out := mPeers{}
	for h, ids := range e.store.VerifC32PeerInfoMap() {
		var ks []int
		for _, id := range ids {
			k, ok := e.idOf[id]
			if !ok {
				k = 999999 // an id string the driver never produced
			}
			ks = append(ks, k)
		}
		sort.Ints(ks)
		out[h] = ks
	}
	return out
}

func (e *env) payload(sp *hdrSpec) []byte {
	if sp.BadPayload {
		return []byte("{\"leader\": not-json")
	}
	info := &vconfig.VbftBlockInfo{Proposer: 1, LastConfigBlockNum: sp.Last}
	if sp.Cfg != nil {
		cc := &vconfig.ChainConfig{Version: 1, View: 2, N: uint32(len(sp.Cfg.Peers)), C: sp.Cfg.C}
		for i, id := range sp.Cfg.Peers {
			cc.Peers = append(cc.Peers, &vconfig.PeerConfig{Index: uint32(i + 1), ID: e.idString(id)})
		}
		info.NewChainConfig = cc
	}
	b, err := json.Marshal(info)
	if err != nil {
		panic(err)
	}
	return b
}

// build makes the real header and its shadow from a spec.
func (e *env) build(sp *hdrSpec) (*types.Header, *mHeader) {
	var prev common.Uint256
	if sp.PrevHeight >= 0 && sp.PrevHeight < len(e.chain) {
		prev = e.chain[sp.PrevHeight].real.Hash()
	} else {
		prev = common.Uint256(sha256.Sum256([]byte(fmt.Sprintf("unknown-%d", sp.PrevSalt))))
	}
	h := &types.Header{Version: 0, PrevBlockHash: prev, Timestamp: sp.Time, Height: sp.Height,
		ConsensusData: sp.Salt, ConsensusPayload: e.payload(sp)}
	if sp.BlockRoot {
		root, ok := e.roots[sp.Height]
		if !ok && sp.Height == e.store.GetCurrentBlockHeight()+1 {
			root = e.store.GetBlockRootWithNewTxRoots(sp.Height, []common.Uint256{{}})
			e.roots[sp.Height] = root
		}
		h.BlockRoot = root
	}
	hash := h.Hash()
	m := &mHeader{Height: sp.Height, Prev: e.hid(prev), Time: sp.Time, InfoOK: !sp.BadPayload, Last: sp.Last,
		Cfg: sp.Cfg, Hash: e.hid(hash)}
	if sp.BadPayload {
		m.Cfg = nil
	}
	for i, ss := range sp.Sigs {
		var raw []byte
		var ms mSig
		switch ss.Kind {
		case "valid":
			raw = e.sign(ss.K, hash[:])
			ms = mSig{K: ss.K, Msg: m.Hash}
		case "othermsg":
			other := sha256.Sum256([]byte(fmt.Sprintf("other-%d-%d", sp.Salt, ss.V)))
			raw = e.sign(ss.K, other[:])
			ms = mSig{K: ss.K, Msg: e.hid(common.Uint256(other))}
		case "corrupt":
			raw = e.sign(ss.K, hash[:])
			raw[len(raw)-3] ^= 0x40
			ms = mSig{K: 0, Msg: 0}
		case "undecodable":
			switch ss.V % 4 {
			case 0:
				raw = []byte{}
			case 1:
				raw = []byte{0xee}
			case 2:
				raw = append([]byte{0xee}, e.sign(1, hash[:])...) // unknown scheme byte
			default:
				raw = e.sign(1, hash[:])[:40] // truncated
			}
			ms = mSig{Bad: true}
		case "dup":
			if ss.D < i {
				raw = append([]byte{}, h.SigData[ss.D]...)
				ms = m.Sigs[ss.D]
			} else {
				raw = []byte{}
				ms = mSig{Bad: true}
			}
		case "blob":
			raw = make([]byte, 65)
			raw[0] = byte(s.SHA256withECDSA)
			for j := 1; j < len(raw); j++ {
				raw[j] = byte(j*7 + ss.V)
			}
			ms = mSig{K: 0, Msg: 0}
		default:
			panic("sig kind " + ss.Kind)
		}
		// the abstraction of decodability is taken from the decoder itself
		if _, err := s.Deserialize(raw); err != nil {
			ms = mSig{Bad: true}
		} else if ms.Bad {
			ms = mSig{K: 0, Msg: 0}
		}
		h.SigData = append(h.SigData, raw)
		m.Sigs = append(m.Sigs, ms)
	}
	// bookkeepers: standard key objects, or - when an encoding is given - a header serialized by hand
	// around the real unsigned part and decoded by types.HeaderFromRawBytes, as a peer would receive it
	hostile := false
	for _, enc := range sp.Enc {
		if enc != "" {
			hostile = true
		}
	}
	if !hostile {
		for _, id := range sp.Bks {
			h.Bookkeepers = append(h.Bookkeepers, e.key(id).pub)
		}
	} else {
		un := common.NewZeroCopySink(nil)
		(&types.Header{Version: h.Version, PrevBlockHash: h.PrevBlockHash, TransactionsRoot: h.TransactionsRoot, BlockRoot: h.BlockRoot,
			Timestamp: h.Timestamp, Height: h.Height, ConsensusData: h.ConsensusData, ConsensusPayload: h.ConsensusPayload,
			NextBookkeeper: h.NextBookkeeper}).Serialization(un)
		raw := common.NewZeroCopySink(nil)
		raw.WriteBytes(un.Bytes()[:len(un.Bytes())-2])
		raw.WriteVarUint(uint64(len(sp.Bks)))
		for i, id := range sp.Bks {
			enc := ""
			if i < len(sp.Enc) {
				enc = sp.Enc[i]
			}
			raw.WriteVarBytes(e.encodeKey(id, enc))
		}
		raw.WriteVarUint(uint64(len(h.SigData)))
		for _, g := range h.SigData {
			raw.WriteVarBytes(g)
		}
		dec, err := types.HeaderFromRawBytes(raw.Bytes())
		if err != nil || dec.Hash() != hash {
			return nil, nil // the wire form does not decode: no header reaches the ledger
		}
		h = dec
	}
	for _, key := range h.Bookkeepers {
		m.Bks = append(m.Bks, e.classifyKey(key))
	}
	return h, m
}

// sameKey: the same key object (type, algorithm, curve, X and Y); keypair.ComparePublicKey looks at X only.
func sameKey(a, b keypair.PublicKey) bool {
	switch x := a.(type) {
	case *ec.PublicKey:
		y, ok := b.(*ec.PublicKey)
		return ok && x.Algorithm == y.Algorithm && x.Params().Name == y.Params().Name && x.X.Cmp(y.X) == 0 && x.Y.Cmp(y.Y) == 0
	case ed25519.PublicKey:
		y, ok := b.(ed25519.PublicKey)
		return ok && bytes.Equal(x, y)
	}
	return false
}

// classifyKey maps a decoded key object to the model's bkey.
func (e *env) classifyKey(key keypair.PublicKey) mBk {
	for _, k := range e.keys {
		if sameKey(key, k.pub) {
			return mBk{K: k.id}
		}
	}
	id := unknownID
	func() {
		defer func() { recover() }()
		if v, ok := e.idOf[vconfig.PubkeyID(key)]; ok && v < ghostBase {
			id = v
		}
	}()
	return mBk{K: id, Forged: true}
}

// guardedVerify: the crypto library called directly with a recover around it.
func guardedVerify(pub keypair.PublicKey, data, raw []byte) (ok bool, panicked bool) {
	sg, err := s.Deserialize(raw)
	if err != nil {
		return false, false
	}
	defer func() {
		if r := recover(); r != nil {
			ok, panicked = false, true
		}
	}()
	return s.Verify(pub, data, sg), false
}

// encodeKey: wire encodings of pool key id a header may carry in place of the standard compressed
// form. "uncompressed": the genuine point 04 X Y; "off+N": the point (X, Y+N), off the curve, same
// PubkeyID when N is even; "nonresidue": a compressed form whose X has no Y; "zero": (0,0);
// "infinity": a 00 form. Ed25519 keys only have the standard form.
func (e *env) encodeKey(id int, enc string) []byte {
	std := keypair.SerializePublicKey(e.key(id).pub)
	pk, isEC := e.key(id).pub.(*ec.PublicKey)
	if enc == "" || !isEC {
		return std
	}
	L := (pk.Params().BitSize + 7) >> 3
	prefix := append([]byte{}, std[:len(std)-(1+L)]...)
	fixed := func(v *big.Int) []byte {
		b := v.Bytes()
		if len(b) > L {
			b = b[len(b)-L:]
		}
		return append(make([]byte, L-len(b)), b...)
	}
	switch {
	case enc == "uncompressed":
		return append(append(append(prefix, 0x04), fixed(pk.X)...), fixed(pk.Y)...)
	case strings.HasPrefix(enc, "off+"):
		var n int64
		fmt.Sscanf(enc[4:], "%d", &n)
		y := new(big.Int).Add(pk.Y, big.NewInt(n))
		return append(append(append(prefix, 0x04), fixed(pk.X)...), fixed(y)...)
	case enc == "nonresidue":
		x := new(big.Int).Set(pk.X)
		for i := 0; i < 64; i++ {
			x.Add(x, big.NewInt(1))
			cand := append(append(append([]byte{}, prefix...), 0x02), fixed(x)...)
			if _, err := keypair.DeserializePublicKey(cand); err != nil {
				return cand
			}
		}
		return std
	case enc == "zero":
		return append(append(prefix, 0x04), make([]byte, 2*L)...)
	case enc == "infinity":
		return append(append(prefix, 0x00), make([]byte, L)...)
	}
	panic("encoding " + enc)
}

func (e *env) sign(id int, data []byte) []byte {
	sig, err := signature.Sign(e.key(id), data)
	if err != nil {
		panic(err)
	}
	return sig
}

// realVerify: does raw verify under pool key id for data (cached).
func (e *env) realVerify(id int, data []byte, raw []byte) bool {
	ck := fmt.Sprintf("%d/%s/%s", id, hex.EncodeToString(data), hex.EncodeToString(raw))
	if v, ok := e.vcache[ck]; ok {
		return v
	}
	ok, _ := guardedVerify(e.key(id).pub, data, raw) // the member's GENUINE key object, library called directly
	e.vcache[ck] = ok
	return ok
}

// ---- driver-side facts about the chain (independent of the Coq model) ----

// govHeight: the highest stored header below height that carries a chain configuration.
func (e *env) govHeight(height uint32) (uint32, bool) {
	for j := int(height) - 1; j >= 0; j-- {
		if j < len(e.chain) && e.chain[j].m.Cfg != nil {
			return uint32(j), true
		}
	}
	return 0, false
}

// claimedHeight: the configuration height the header's own payload (and its predecessor's)
// names — the rule of verifyHeader, used to generate mostly-valid inputs and to classify findings.
func (e *env) claimedHeight(sp *hdrSpec) (uint32, bool) {
	if sp.BadPayload || sp.PrevHeight < 0 || sp.PrevHeight >= len(e.chain) {
		return 0, false
	}
	if sp.Cfg != nil {
		p := e.chain[sp.PrevHeight].m
		if p.Cfg != nil {
			return p.Height, true
		}
		return p.Last, true
	}
	return sp.Last, true
}

func (e *env) cfgAt(height uint32) *mCfg {
	if int(height) < len(e.chain) {
		return e.chain[height].m.Cfg
	}
	return nil
}

func distinct(ids []int) []int {
	seen := map[int]bool{}
	var out []int
	for _, k := range ids {
		if !seen[k] {
			seen[k] = true
			out = append(out, k)
		}
	}
	return out
}

func contains(ids []int, k int) bool {
	for _, x := range ids {
		if x == k {
			return true
		}
	}
	return false
}
