package c32

// chain.go: a VBFT-configured ledger on disk, the key pool, construction of real headers from
// specs, and the driver-side shadow of the store (headers by height, observed peer map).

import (
	"crypto/sha256"
	"encoding/hex"
	"encoding/json"
	"fmt"
	"os"
	"sort"
	"strings"

	"github.com/ontio/ontology-crypto/keypair"
	s "github.com/ontio/ontology-crypto/signature"
	"github.com/ontio/ontology/common"
	"github.com/ontio/ontology/common/config"
	"github.com/ontio/ontology/common/log"
	vconfig "github.com/ontio/ontology/consensus/vbft/config"
	"github.com/ontio/ontology/core/genesis"
	"github.com/ontio/ontology/core/ledger"
	"github.com/ontio/ontology/core/signature"
	"github.com/ontio/ontology/core/store/ledgerstore"
	"github.com/ontio/ontology/core/types"
)

func init() {
	log.InitLog(log.FatalLog, os.Stderr) // verifyHeader logs every rejection at error level
}

type keyEnt struct {
	id     int
	priv   keypair.PrivateKey
	pub    keypair.PublicKey
	scheme s.SignatureScheme
	hexid  string
}

func (k *keyEnt) PrivKey() keypair.PrivateKey  { return k.priv }
func (k *keyEnt) PubKey() keypair.PublicKey    { return k.pub }
func (k *keyEnt) Scheme() s.SignatureScheme    { return k.scheme }

const poolSize = 36
const ghostBase = 1000

// sigSpec says how one SigData entry is made.
type sigSpec struct {
	Kind string `json:"kind"` // valid | othermsg | corrupt | undecodable | dup
	K    int    `json:"k,omitempty"`   // signing key id (valid, othermsg, corrupt)
	V    int    `json:"v,omitempty"`   // variant (undecodable), message salt (othermsg)
	D    int    `json:"d,omitempty"`   // index of the earlier entry to repeat (dup)
}

// hdrSpec determines a header up to key material (keys are named by pool id).
type hdrSpec struct {
	Height     uint32    `json:"height"`
	PrevHeight int       `json:"prev_height"` // height of the stored header whose hash is PrevBlockHash; -1: unknown hash
	PrevSalt   int       `json:"prev_salt,omitempty"`
	Time       uint32    `json:"time"`
	BadPayload bool      `json:"bad_payload,omitempty"`
	Last       uint32    `json:"last_config_block_num"`
	Cfg        *mCfg     `json:"new_chain_config,omitempty"`
	Bks        []int     `json:"bookkeepers"`
	Sigs       []sigSpec `json:"sigs"`
	Salt       uint64    `json:"salt"` // ConsensusData, makes hashes distinct
	BlockRoot  bool      `json:"block_root,omitempty"` // carry the block merkle root a block at this height must have
}

type chainEnt struct {
	real *types.Header
	m    *mHeader
}

type step struct {
	Op   string  `json:"op"` // add | verify
	Spec hdrSpec `json:"header"`
}

type env struct {
	dir     string
	keys    []*keyEnt
	idOf    map[string]int
	ldg     *ledger.Ledger
	store   *ledgerstore.LedgerStoreImp
	hashID  map[common.Uint256]int
	nextID  int
	chain   []*chainEnt // index = height
	peers   mPeers      // vbftPeerInfoMap as last observed
	roots   map[uint32]common.Uint256 // block roots computed so far, by height (see hdrSpec.BlockRoot)
	writer  map[uint32]string // per height: was the current entry written by an "accepted" or a "rejected" verifyHeader call ("init": at load)
	history []step      // state-changing operations so far (replayable)
	vcache  map[string]bool
}

func (e *env) key(id int) *keyEnt { return e.keys[id-1] }

// idString: the peer id string a key id stands for in a chain config.
func (e *env) idString(id int) string {
	if id >= ghostBase {
		return strings.ToUpper(e.key(id - ghostBase).hexid) // PubkeyID is lower-case hex: never equal
	}
	return e.key(id).hexid
}

func (e *env) hid(h common.Uint256) int {
	if id, ok := e.hashID[h]; ok {
		return id
	}
	e.nextID++
	e.hashID[h] = e.nextID
	return e.nextID
}

func newKeys() []*keyEnt {
	var ks []*keyEnt
	for i := 0; i < poolSize; i++ {
		var priv keypair.PrivateKey
		var pub keypair.PublicKey
		var err error
		sch := s.SHA256withECDSA
		switch {
		case i >= 30 && i < 33:
			priv, pub, err = keypair.GenerateKeyPair(keypair.PK_SM2, keypair.SM2P256V1)
			sch = s.SM3withSM2
		case i >= 33:
			priv, pub, err = keypair.GenerateKeyPair(keypair.PK_EDDSA, keypair.ED25519)
			sch = s.SHA512withEDDSA
		default:
			priv, pub, err = keypair.GenerateKeyPair(keypair.PK_ECDSA, keypair.P256)
		}
		if err != nil {
			panic(err)
		}
		ks = append(ks, &keyEnt{id: i + 1, priv: priv, pub: pub, scheme: sch, hexid: vconfig.PubkeyID(pub)})
	}
	return ks
}

const vrfHex = "1c9810aa9822e511d5804a9c4db9dd08497c31087b0daafa34d768a3253441fa20515e2f30f81741102af0ca3cefc4818fef16adb825fbaa8cad78647f3afb590e"

// newEnv creates a fresh VBFT ledger (genesis configuration: pool keys 1..7, C = 2, as on
// Ontology's main net) in dir.
func newEnv(dir string) (*env, error) {
	if err := os.RemoveAll(dir); err != nil {
		return nil, err
	}
	e := &env{dir: dir, keys: newKeys(), idOf: map[string]int{}, hashID: map[common.Uint256]int{}, nextID: 99,
		vcache: map[string]bool{}, roots: map[uint32]common.Uint256{}}
	for _, k := range e.keys {
		e.idOf[k.hexid] = k.id
		up := strings.ToUpper(k.hexid)
		if up != k.hexid {
			e.idOf[up] = ghostBase + k.id
		}
	}
	var peers []*config.VBFTPeerStakeInfo
	var bookkeepers []keypair.PublicKey
	for i := 1; i <= 7; i++ {
		k := e.key(i)
		addr := types.AddressFromPubKey(k.pub)
		peers = append(peers, &config.VBFTPeerStakeInfo{Index: uint32(i), PeerPubkey: k.hexid,
			Address: addr.ToBase58(), InitPos: 10000})
		bookkeepers = append(bookkeepers, k.pub)
	}
	config.DefConfig.Genesis.ConsensusType = config.CONSENSUS_TYPE_VBFT
	config.DefConfig.Genesis.VBFT = &config.VBFTConfig{N: 7, C: 2, K: 7, L: 112, BlockMsgDelay: 10000, HashMsgDelay: 10000,
		PeerHandshakeTimeout: 10, MaxBlockChangeView: 3000, MinInitStake: 10000,
		AdminOntID: "did:ont:AZYsUWrzNYoXKjUNmMNwRZFHgdFceepDY8", VrfValue: vrfHex, VrfProof: vrfHex, Peers: peers}
	config.DefConfig.P2PNode.NetworkId = 3
	gb, err := genesis.BuildGenesisBlock(bookkeepers, config.DefConfig.Genesis)
	if err != nil {
		return nil, fmt.Errorf("genesis: %v", err)
	}
	l, err := ledger.InitLedger(dir, 0, bookkeepers, gb)
	if err != nil {
		return nil, fmt.Errorf("init ledger: %v", err)
	}
	ledger.DefLedger = l
	e.ldg = l
	e.store = l.GetStore().(*ledgerstore.LedgerStoreImp)
	// shadow of the genesis header
	gh, err := e.store.GetHeaderByHeight(0)
	if err != nil {
		return nil, err
	}
	info, err := vconfig.VbftBlock(gh)
	if err != nil || info.NewChainConfig == nil {
		return nil, fmt.Errorf("genesis header carries no chain config: %v", err)
	}
	cfg := &mCfg{C: info.NewChainConfig.C}
	for _, p := range info.NewChainConfig.Peers {
		cfg.Peers = append(cfg.Peers, e.idOf[p.ID])
	}
	e.hashID[common.Uint256{}] = 0
	m := &mHeader{Height: 0, Prev: 0, Time: gh.Timestamp, InfoOK: true, Last: info.LastConfigBlockNum, Cfg: cfg, Hash: e.hid(gh.Hash())}
	e.chain = []*chainEnt{{real: gh, m: m}}
	e.peers = e.observePeers()
	e.writer = map[uint32]string{}
	for h := range e.peers {
		e.writer[h] = "init"
	}
	return e, nil
}

func (e *env) close() {
	if e.ldg != nil {
		e.ldg.Close()
		e.ldg = nil
	}
}

// observePeers reads vbftPeerInfoMap through the exporter and maps the id strings to key ids.
func (e *env) observePeers() mPeers {
	out := mPeers{}
	for h, ids := range e.store.VerifC32PeerInfoMap() {
		var ks []int
		for _, id := range ids {
			k, ok := e.idOf[id]
			if !ok {
				k = 999999 // an id string the driver never produced
			}
			ks = append(ks, k)
		}
		sort.Ints(ks)
		out[h] = ks
	}
	return out
}

func (e *env) payload(sp *hdrSpec) []byte {
	if sp.BadPayload {
		return []byte("{\"leader\": not-json")
	}
	info := &vconfig.VbftBlockInfo{Proposer: 1, LastConfigBlockNum: sp.Last}
	if sp.Cfg != nil {
		cc := &vconfig.ChainConfig{Version: 1, View: 2, N: uint32(len(sp.Cfg.Peers)), C: sp.Cfg.C}
		for i, id := range sp.Cfg.Peers {
			cc.Peers = append(cc.Peers, &vconfig.PeerConfig{Index: uint32(i + 1), ID: e.idString(id)})
		}
		info.NewChainConfig = cc
	}
	b, err := json.Marshal(info)
	if err != nil {
		panic(err)
	}
	return b
}

// build makes the real header and its shadow from a spec.
func (e *env) build(sp *hdrSpec) (*types.Header, *mHeader) {
	var prev common.Uint256
	if sp.PrevHeight >= 0 && sp.PrevHeight < len(e.chain) {
		prev = e.chain[sp.PrevHeight].real.Hash()
	} else {
		prev = common.Uint256(sha256.Sum256([]byte(fmt.Sprintf("unknown-%d", sp.PrevSalt))))
	}
	h := &types.Header{Version: 0, PrevBlockHash: prev, Timestamp: sp.Time, Height: sp.Height,
		ConsensusData: sp.Salt, ConsensusPayload: e.payload(sp)}
	if sp.BlockRoot {
		root, ok := e.roots[sp.Height]
		if !ok && sp.Height == e.store.GetCurrentBlockHeight()+1 {
			root = e.store.GetBlockRootWithNewTxRoots(sp.Height, []common.Uint256{{}})
			e.roots[sp.Height] = root
		}
		h.BlockRoot = root
	}
	hash := h.Hash()
	m := &mHeader{Height: sp.Height, Prev: e.hid(prev), Time: sp.Time, InfoOK: !sp.BadPayload, Last: sp.Last,
		Cfg: sp.Cfg, Bks: append([]int{}, sp.Bks...), Hash: e.hid(hash)}
	if sp.BadPayload {
		m.Cfg = nil
	}
	for _, id := range sp.Bks {
		h.Bookkeepers = append(h.Bookkeepers, e.key(id).pub)
	}
	for i, ss := range sp.Sigs {
		var raw []byte
		var ms mSig
		switch ss.Kind {
		case "valid":
			raw = e.sign(ss.K, hash[:])
			ms = mSig{K: ss.K, Msg: m.Hash}
		case "othermsg":
			other := sha256.Sum256([]byte(fmt.Sprintf("other-%d-%d", sp.Salt, ss.V)))
			raw = e.sign(ss.K, other[:])
			ms = mSig{K: ss.K, Msg: e.hid(common.Uint256(other))}
		case "corrupt":
			raw = e.sign(ss.K, hash[:])
			raw[len(raw)-3] ^= 0x40
			ms = mSig{K: 0, Msg: 0}
		case "undecodable":
			switch ss.V % 4 {
			case 0:
				raw = []byte{}
			case 1:
				raw = []byte{0xee}
			case 2:
				raw = append([]byte{0xee}, e.sign(1, hash[:])...) // unknown scheme byte
			default:
				raw = e.sign(1, hash[:])[:40] // truncated
			}
			ms = mSig{Bad: true}
		case "dup":
			if ss.D < i {
				raw = append([]byte{}, h.SigData[ss.D]...)
				ms = m.Sigs[ss.D]
			} else {
				raw = []byte{}
				ms = mSig{Bad: true}
			}
		default:
			panic("sig kind " + ss.Kind)
		}
		// the abstraction of decodability is taken from the decoder itself
		if _, err := s.Deserialize(raw); err != nil {
			ms = mSig{Bad: true}
		} else if ms.Bad {
			ms = mSig{K: 0, Msg: 0}
		}
		h.SigData = append(h.SigData, raw)
		m.Sigs = append(m.Sigs, ms)
	}
	return h, m
}

func (e *env) sign(id int, data []byte) []byte {
	sig, err := signature.Sign(e.key(id), data)
	if err != nil {
		panic(err)
	}
	return sig
}

// realVerify: does raw verify under pool key id for data (cached).
func (e *env) realVerify(id int, data []byte, raw []byte) bool {
	ck := fmt.Sprintf("%d/%s/%s", id, hex.EncodeToString(data), hex.EncodeToString(raw))
	if v, ok := e.vcache[ck]; ok {
		return v
	}
	ok := false
	func() {
		defer func() { recover() }()
		ok = signature.Verify(e.key(id).pub, data, raw) == nil
	}()
	e.vcache[ck] = ok
	return ok
}

// ---- driver-side facts about the chain (independent of the Coq model) ----

// govHeight: the highest stored header below height that carries a chain configuration.
func (e *env) govHeight(height uint32) (uint32, bool) {
	for j := int(height) - 1; j >= 0; j-- {
		if j < len(e.chain) && e.chain[j].m.Cfg != nil {
			return uint32(j), true
		}
	}
	return 0, false
}

// claimedHeight: the configuration height the header's own payload (and its predecessor's)
// names — the rule of verifyHeader, used to generate mostly-valid inputs and to classify findings.
func (e *env) claimedHeight(sp *hdrSpec) (uint32, bool) {
	if sp.BadPayload || sp.PrevHeight < 0 || sp.PrevHeight >= len(e.chain) {
		return 0, false
	}
	if sp.Cfg != nil {
		p := e.chain[sp.PrevHeight].m
		if p.Cfg != nil {
			return p.Height, true
		}
		return p.Last, true
	}
	return sp.Last, true
}

func (e *env) cfgAt(height uint32) *mCfg {
	if int(height) < len(e.chain) {
		return e.chain[height].m.Cfg
	}
	return nil
}

func distinct(ids []int) []int {
	seen := map[int]bool{}
	var out []int
	for _, k := range ids {
		if !seen[k] {
			seen[k] = true
			out = append(out, k)
		}
	}
	return out
}

func contains(ids []int, k int) bool {
	for _, x := range ids {
		if x == k {
			return true
		}
	}
	return false
}
