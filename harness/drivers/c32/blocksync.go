package c32

// blocksync.go: the block-sync history family. On its own ledger blocks are really persisted
// (empty blocks), so that every height is once "the next block height". For each height the genuine
// header (signed by all members of the governing configuration) is synced through AddHeaders and
// then variants of the SAME unsigned header (same hash - Header.Hash() does not cover Bookkeepers
// and SigData) with replaced bookkeepers/signatures are offered through AddBlock, ExecuteBlock +
// SubmitBlock and AddHeaders; every third height in the reverse order (forged blocks first, genuine
// block without prior header sync, then the variants again).
// ORACLE (independent of the model): a refused offer leaves block height, header height and the
// header returned for that height unchanged; whatever header ends up persisted (GetHeaderByHeight,
// GetBlockByHeight) carries valid signatures of more than C distinct members of the governing
// configuration, by real signature verification against the driver's own record of the chain.

import (
	"encoding/hex"
	"fmt"
	"strings"

	"github.com/ontio/ontology-crypto/keypair"
	"github.com/ontio/ontology/common"
	"github.com/ontio/ontology/core/store"
	"github.com/ontio/ontology/core/types"

	"verif/harness/hx"
)

func headerPrint(h *types.Header) string {
	if h == nil {
		return "none"
	}
	hash := h.Hash()
	s := hash.ToHexString() + "|"
	for _, k := range h.Bookkeepers {
		s += hex.EncodeToString(keypair.SerializePublicKey(k)) + ","
	}
	s += "|"
	for _, g := range h.SigData {
		s += hex.EncodeToString(g) + ","
	}
	return s
}

// specQuorum: does the header carry valid signatures of more than C distinct members of the
// configuration governing its height (driver's record of the chain, real verification)?
func (e *env) specQuorum(h *types.Header) (ok bool, signers []int, want uint64, gov uint32) {
	gov, gok := e.govHeight(h.Height)
	if !gok {
		return false, nil, 0, 0
	}
	cfg := e.cfgAt(gov)
	hash := h.Hash()
	for _, k := range distinct(cfg.Peers) {
		if k <= 0 || k > len(e.keys) {
			continue
		}
		for _, raw := range h.SigData {
			if e.realVerify(k, hash[:], raw) {
				signers = append(signers, k)
				break
			}
		}
	}
	want = uint64(cfg.C) + 1
	return uint64(len(signers)) >= want, signers, want, gov
}

func (e *env) keyIDs(keys []keypair.PublicKey) []int {
	var out []int
	for _, k := range keys {
		out = append(out, e.idOf[hex.EncodeToString(keypair.SerializePublicKey(k))])
	}
	return out
}

// doBlock offers an empty block with the header of spec through a block entry point.
func (r *run) doBlock(sp hdrSpec, entry, tag string) (advanced bool) {
	c, e := r.c, r.e
	r.tick()
	h, m := e.build(&sp)
	if h == nil {
		c.Count("gen:header-wire-form-undecodable")
		return false
	}
	blk := &types.Block{Header: h}
	curB, curH := e.store.GetCurrentBlockHeight(), e.store.GetCurrentHeaderHeight()
	atBefore, _ := e.store.GetHeaderByHeight(sp.Height)
	printBefore := headerPrint(atBefore)
	reached := sp.Height == curB+1
	var err error
	panicked, pmsg := hx.Recover(func() {
		switch entry {
		case "AddBlock":
			err = e.store.AddBlock(blk, nil, common.Uint256{})
		case "SubmitBlock":
			var res store.ExecuteResult
			res, err = e.store.ExecuteBlock(blk)
			if err != nil {
				reached = false
				return
			}
			err = e.store.SubmitBlock(blk, nil, res)
		default:
			panic("entry " + entry)
		}
	})
	c.Eval()
	if panicked {
		c.Fail("panic:"+entry, "a panic escaped "+entry, r.full("block-"+entry, sp), pmsg, "error or nil")
	}
	newB, newH := e.store.GetCurrentBlockHeight(), e.store.GetCurrentHeaderHeight()
	advanced = newB == curB+1 && newB == sp.Height
	verifyAccepted := reached && !panicked && !(err != nil && strings.Contains(err.Error(), "verifyHeader error"))
	code := "KOk"
	if !verifyAccepted {
		code = errCode(err, panicked)
	}
	c.Count("block-" + entry + ":" + map[bool]string{true: "persisted", false: "refused-or-noop"}[advanced])
	c.Count("gen:" + tag)
	after := e.observePeers()
	sc := r.full("block-"+entry, sp)
	before := r.st
	if reached {
		r.emit(fmt.Sprintf("(CVerify %s %s %s %s)", before, coqHeader(m), code, coqPeers(after)), r.caseDesc("block-"+entry, sp))
		r.classCase(before, &sp, m)
		r.oracle(&sp, h, m, verifyAccepted, sc)
	}
	r.trackMap(after, verifyAccepted, sc)
	atAfter, _ := e.store.GetHeaderByHeight(sp.Height)
	if advanced {
		// what is persisted must carry a quorum
		var blkHdr *types.Header
		if b, berr := e.store.GetBlockByHeight(sp.Height); berr == nil && b != nil {
			blkHdr = b.Header
		}
		for _, got := range []*types.Header{atAfter, blkHdr} {
			if got == nil {
				c.Fail("blocksync:persisted-header-missing", "block height advanced but no header/block is returned for the height", sc, "nil", "header")
				continue
			}
			if ok, signers, want, gov := e.specQuorum(got); !ok {
				c.Fail("blocksync:header-persisted-without-quorum",
					"a block was persisted whose header does not carry valid signatures of more than C distinct members of the governing configuration",
					sc, map[string]interface{}{"entry": entry, "error": fmt.Sprint(err), "persisted_bookkeepers": e.keyIDs(got.Bookkeepers), "persisted_sigs": len(got.SigData),
						"member_signers": signers, "governing_height": gov, "header_was_synced_before": atBefore != nil},
					fmt.Sprintf(">= %d distinct member signatures", want))
				r.abort = true
				break
			}
		}
		e.history = append(e.history, step{Op: "block-" + entry, Spec: sp})
		if int(sp.Height) == len(e.chain) { // no header sync before: the block brings its header
			e.chain = append(e.chain, &chainEnt{real: h, m: m})
			e.peers = after
			r.st = r.defs.add(fmt.Sprintf("push_header %s %s %s", coqHeader(m), coqPeers(after), before))
		} else {
			if int(sp.Height) < len(e.chain) && fmt.Sprint(e.chain[sp.Height].m.Bks) != fmt.Sprint(m.Bks) {
				r.abort = true // a variant replaced the synced header: the shadow no longer describes the ledger
			}
			r.syncPeers()
		}
		return true
	}
	// refused (or silently ignored): nothing may have changed
	if newB != curB || newH != curH || headerPrint(atAfter) != printBefore {
		c.Fail("blocksync:refused-offer-changed-state", "a block offer that did not advance the block height changed the heights or the header stored for its height",
			sc, map[string]interface{}{"entry": entry, "error": fmt.Sprint(err), "block_height": newB, "header_height": newH},
			map[string]interface{}{"block_height": curB, "header_height": curH})
		r.abort = true
	}
	if !peersEqual(after, e.peers) {
		e.history = append(e.history, step{Op: "block-" + entry, Spec: sp})
	}
	r.syncPeers()
	return false
}

// variants: the same unsigned header with replaced bookkeepers / signatures.
func (r *run) variants(sp hdrSpec) []struct {
	tag string
	sp  hdrSpec
} {
	e := r.e
	g, _ := e.claimedHeight(&sp)
	members := r.members(g)
	cfg := e.cfgAt(g)
	need := vbftM(len(e.peers[g]))
	var outsider int
	for k := 1; k <= poolSize; k++ {
		if !contains(e.peers[g], k) {
			outsider = k
			break
		}
	}
	mk := func(bks []int, sigs []sigSpec) hdrSpec {
		v := sp
		v.Bks, v.Sigs = bks, sigs
		return v
	}
	cplus := int(cfg.C) + 1
	if cplus > len(members) {
		cplus = len(members)
	}
	few := need - 1
	if few < 0 {
		few = 0
	}
	corrupt := make([]sigSpec, len(members))
	for i, k := range members {
		corrupt[i] = sigSpec{Kind: "corrupt", K: k}
	}
	return []struct {
		tag string
		sp  hdrSpec
	}{
		{"a-nonmember-signer", mk([]int{outsider}, validSigs([]int{outsider}))},
		{"b-fewer-than-threshold", mk(members[:cplus], validSigs(members[:few]))},
		{"c-duplicated-signer", mk([]int{members[0], members[0]}, []sigSpec{{Kind: "valid", K: members[0]}, {Kind: "dup", D: 0}})},
		{"d-empty", mk(nil, nil)},
		{"e-corrupted-signatures", mk(members, corrupt)},
	}
}

// blockSync runs the family over `heights` heights on the current (fresh) ledger.
func (r *run) blockSync(heights int) {
	c := r.c
	entries := []string{"AddBlock", "SubmitBlock"}
	for i := 0; i < heights && !r.abort; i++ {
		sp := r.next()
		sp.BlockRoot = true
		gov, _ := r.e.govHeight(sp.Height)
		sp.Last = gov
		if i == 0 || c.Intn(3) == 0 { // configurations without the threshold defect: m = n-6n/7 >= C+1
			n := 14 + c.Intn(3)
			perm := c.Rng.Perm(poolSize)
			cfg := &mCfg{C: uint32(1 + c.Intn(vbftM(n)-1))} // 1 <= C <= m-1
			for j := 0; j < n; j++ {
				cfg.Peers = append(cfg.Peers, perm[j]+1)
			}
			sp.Cfg = cfg
		}
		g, _ := r.e.claimedHeight(&sp)
		sp.Bks = r.members(g)
		sp.Sigs = validSigs(sp.Bks)
		vs := r.variants(sp)
		reverse := i%3 == 2
		if !reverse {
			if !r.doAdd(sp, "blocksync-genuine-header") {
				c.Note("blocksync: genuine header refused; family stopped")
				return
			}
			for j, v := range vs {
				if r.abort {
					return
				}
				r.doBlock(v.sp, entries[(i+j)%2], "blocksync-cached-"+v.tag)
				if j%2 == 0 && !r.abort {
					r.doAdd(v.sp, "blocksync-reoffer-header-"+v.tag)
				}
			}
			if r.abort {
				return
			}
			if !r.doBlock(sp, entries[i%2], "blocksync-genuine-block") {
				c.Note("blocksync: genuine block refused; family stopped")
				return
			}
		} else {
			for j, v := range vs {
				if r.abort {
					return
				}
				r.doBlock(v.sp, entries[(i+j)%2], "blocksync-uncached-"+v.tag)
			}
			if r.abort {
				return
			}
			if !r.doBlock(sp, entries[i%2], "blocksync-genuine-block-first") {
				c.Note("blocksync: genuine block (no header sync) refused; family stopped")
				return
			}
			for j, v := range vs {
				if r.abort {
					return
				}
				if j%2 == 0 {
					r.doAdd(v.sp, "blocksync-late-header-"+v.tag)
				} else {
					r.doBlock(v.sp, entries[j%2], "blocksync-late-block-"+v.tag)
				}
			}
		}
	}
}
