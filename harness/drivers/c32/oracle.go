package c32

// oracle.go: the direct property oracle on the implementation. Independent of the Coq model: it
// uses the driver's own record of the chain (which stored header carries which configuration),
// the exported peer map and real signature verification.

import (
	"fmt"

	"github.com/ontio/ontology/core/types"
)

type classes struct {
	stale, threshold, dup, overwritten bool
	claimed               uint32
	hasClaim              bool
}

// vbftM is the number of signatures verifyHeader asks for with n peers (n - 6n/7); the driver's
// copy is only used to classify findings and to generate mostly-valid inputs — the Coq side of
// every CClass case recomputes the class from the generated formula.
func vbftM(n int) int { return n - n*6/7 }

// classify mirrors the three finding-class predicates of Proofs/C32.v (checked per case by CClass).
func (e *env) classify(sp *hdrSpec, ids []int) classes {
	var cl classes
	cl.dup = len(distinct(ids)) != len(ids)
	g, ok := e.claimedHeight(sp)
	if !ok {
		return cl
	}
	cl.claimed, cl.hasClaim = g, true
	gov, gok := e.govHeight(sp.Height)
	cl.stale = !(gok && gov == g)
	peers, pok := e.peers[g]
	if cfg := e.cfgAt(g); pok && cfg != nil {
		cl.threshold = int64(vbftM(len(peers))) < int64(cfg.C)+1
		cl.overwritten = !sameSet(peers, cfg.Peers)
	}
	return cl
}

// oracle judges one verifyHeader / AddHeaders outcome.
func (r *run) oracle(sp *hdrSpec, h *types.Header, m *mHeader, accepted bool, sc scenario) {
	c, e := r.c, r.e
	hash := h.Hash()
	// (0) the signature abstraction used by the cases agrees with real verification, both ways
	ids := bkIDs(m.Bks)         // PubkeyID ids of the listed key objects
	genuine := bkGenuine(m.Bks) // per position: pool key whose GENUINE object is listed, or -1
	hostile := false
	for i, b := range m.Bks {
		if !b.Forged {
			continue
		}
		hostile = true
		// a forged key object: no signature of the header verifies under it (library called directly)
		for _, raw := range h.SigData {
			ok, pan := guardedVerify(h.Bookkeepers[i], hash[:], raw)
			if ok {
				c.Fail("harness:forged-key-verifies", "a signature verifies under a key object that is no genuine pool key", sc, "verifies", "does not verify")
			}
			if pan {
				c.Count("forged-key:library-verify-panics")
			} else {
				c.Count("forged-key:library-verify-false")
			}
		}
	}
	if accepted || hostile || c.Intn(8) == 0 {
		for i, raw := range h.SigData {
			for _, k := range distinct(genuine) {
				if k < 0 {
					continue
				}
				abs := !m.Sigs[i].Bad && m.Sigs[i].K == k && m.Sigs[i].Msg == m.Hash
				if real := e.realVerify(k, hash[:], raw); real != abs {
					c.Fail("harness:signature-abstraction", "abstract signature disagrees with signature.Verify", sc, real, abs)
				}
			}
		}
	}
	if !accepted || sp.Height == 0 {
		return
	}
	c.Count("oracle:accepted")
	cl := e.classify(sp, ids)
	if !cl.hasClaim {
		c.Fail("accept:no-config", "accepted although no configuration height is determined", sc, "accepted", "rejected")
		return
	}
	claimedPeers := e.peers[cl.claimed]
	claimedCfg := e.cfgAt(cl.claimed)
	if claimedCfg == nil {
		c.Fail("accept:no-config", "accepted against a height whose stored header carries no configuration", sc, "accepted", "rejected")
		return
	}
	n := len(claimedPeers)
	need := vbftM(n)
	// (1) every listed bookkeeper is a member of the consulted configuration
	for _, k := range ids {
		if !contains(claimedPeers, k) {
			c.Fail("accept:nonmember-listed", "accepted header lists a key that is not a peer of the consulted configuration", sc, k, claimedPeers)
			break
		}
	}
	// (2) at least C+1 distinct keys are listed
	if uint64(claimedCfg.C)+1 < 1<<32 && uint64(len(distinct(ids))) < uint64(claimedCfg.C)+1 {
		c.Fail("accept:few-distinct-listed", "accepted header lists fewer than C+1 distinct keys", sc, len(distinct(ids)), claimedCfg.C+1)
	}
	// (3) the first m signatures can be matched to m distinct list positions (real verification)
	if need > 0 {
		if len(h.SigData) < need || !matchSlots(e, hash[:], genuine, h.SigData[:need]) {
			c.Fail("accept:unsigned-slot", "accepted header whose first m signatures are not valid signatures of m distinct list positions", sc, "accepted", fmt.Sprintf("m=%d", need))
		}
	}
	// real signer set among the members of a configuration
	signers := func(cfg *mCfg) []int {
		var out []int
		for _, k := range distinct(cfg.Peers) {
			if k >= ghostBase || k <= 0 || k > len(e.keys) {
				continue
			}
			for _, raw := range h.SigData {
				if e.realVerify(k, hash[:], raw) {
					out = append(out, k)
					break
				}
			}
		}
		return out
	}
	// (4) some peer of the consulted peer set signed
	consultedSigners := signers(&mCfg{Peers: claimedPeers})
	if n > 0 && len(consultedSigners) == 0 {
		c.Fail("accept:no-member-signature", "accepted header without any valid signature of a member of the consulted configuration", sc, 0, ">=1")
	}
	// (4b) without repeated ids the m signature slots need m distinct GENUINE signers among the
	// consulted peers (verified with the members' genuine key objects, library called directly)
	if !cl.dup && len(consultedSigners) < need {
		c.Fail("accept:without-genuine-quorum", "accepted header with fewer genuine member signatures than the m slots verifyHeader asks for",
			sc, map[string]interface{}{"genuine_signers": consultedSigners, "listed": m.Bks}, fmt.Sprintf(">= %d", need))
	}
	// (5) THE PROPERTY: valid signatures of >= C+1 distinct members of the governing configuration
	gov, gok := e.govHeight(sp.Height)
	var have []int
	var want uint64
	if gok {
		gc := e.cfgAt(gov)
		have = signers(gc)
		want = uint64(gc.C) + 1
	}
	if !gok || uint64(len(have)) < want {
		class := "quorum:unclassified"
		switch {
		case cl.hasClaim && e.writer[cl.claimed] == "rejected":
			// never a known finding: the consulted peer set was put there by a header that
			// verifyHeader itself rejected
			class = "quorum:peer-set-written-by-rejected-header"
		case cl.overwritten:
			class = "quorum:peer-map-overwritten"
		case cl.stale:
			class = "quorum:stale-config-height"
		case cl.threshold:
			class = "quorum:threshold-below-c-plus-1"
		case cl.dup:
			class = "quorum:duplicate-bookkeeper"
		}
		c.Fail(class, "accepted header does not carry valid signatures of C+1 distinct members of the governing chain configuration",
			sc, map[string]interface{}{"signers": have, "governing_height": gov, "consulted_height": cl.claimed, "m": need},
			fmt.Sprintf(">= %d distinct member signatures", want))
		c.Count("oracle:" + class)
	} else {
		c.Count("oracle:quorum-present")
	}
}

// matchSlots: can the signatures be assigned to pairwise distinct positions of bks, each valid
// under the key at its position? (exact search; sizes are small)
func matchSlots(e *env, data []byte, bks []int, sigs [][]byte) bool {
	used := make([]bool, len(bks))
	var rec func(i int) bool
	rec = func(i int) bool {
		if i == len(sigs) {
			return true
		}
		tried := map[int]bool{}
		for j, k := range bks {
			if k < 0 || used[j] || tried[k] {
				continue
			}
			tried[k] = true
			if e.realVerify(k, data, sigs[i]) {
				used[j] = true
				if rec(i + 1) {
					return true
				}
				used[j] = false
			}
		}
		return false
	}
	return rec(0)
}

func sameSet(a, b []int) bool {
	for _, k := range a {
		if !contains(b, k) {
			return false
		}
	}
	for _, k := range b {
		if !contains(a, k) {
			return false
		}
	}
	return true
}
