package c32

// Shadow (driver-side) representation of keys, signatures, headers and the store, and their
// rendering as Coq terms of Model/HeaderSync.v (constructors of Corr/C32.v).

import (
	"fmt"
	"sort"
	"strings"

	"verif/harness/hx"
)

// mSig is the abstraction of one SigData entry: undecodable, or (signer key id, message id).
// Key id 0 = no key (decodable bytes that verify under nobody).
type mSig struct {
	Bad bool `json:"bad,omitempty"`
	K   int  `json:"k"`
	Msg int  `json:"msg"`
}

// mBk is a decoded bookkeeper key object: the genuine object of pool key K, or (Forged) some other
// object whose PubkeyID names key K (unknownID when it names nobody).
type mBk struct {
	K      int  `json:"k"`
	Forged bool `json:"forged,omitempty"`
}

const unknownID = 999998

func coqBks(bs []mBk) string {
	it := make([]string, len(bs))
	for i, b := range bs {
		if b.Forged {
			it[i] = fmt.Sprintf("BkForged %d", b.K)
		} else {
			it[i] = fmt.Sprintf("BkKey %d", b.K)
		}
	}
	return hx.CoqList(it)
}

// bkIDs: the PubkeyID ids of the listed key objects (what membership and the distinct count see).
func bkIDs(bs []mBk) []int {
	out := make([]int, len(bs))
	for i, b := range bs {
		out[i] = b.K
	}
	return out
}

// bkGenuine: per position the pool key whose genuine object is listed, or -1.
func bkGenuine(bs []mBk) []int {
	out := make([]int, len(bs))
	for i, b := range bs {
		out[i] = b.K
		if b.Forged {
			out[i] = -1
		}
	}
	return out
}

type mCfg struct {
	C     uint32 `json:"c"`
	Peers []int  `json:"peers"` // key ids in config order (may repeat; >= 1000: ids no key maps to)
}

type mHeader struct {
	Height uint32  `json:"height"`
	Prev   int     `json:"prev"` // hash id
	Time   uint32  `json:"time"`
	InfoOK bool    `json:"info_ok"`
	Last   uint32  `json:"last"`
	Cfg    *mCfg   `json:"cfg,omitempty"`
	Bks    []mBk   `json:"bks"`
	Sigs   []mSig  `json:"sigs"`
	Hash   int     `json:"hash"`
}

func coqKeys(ids []int) string {
	it := make([]string, len(ids))
	for i, k := range ids {
		it[i] = fmt.Sprintf("%d", k)
	}
	return hx.CoqList(it)
}

func coqSig(s mSig) string {
	if s.Bad {
		return "SBad"
	}
	return fmt.Sprintf("SBy %d %d", s.K, s.Msg)
}

func coqSigs(ss []mSig) string {
	it := make([]string, len(ss))
	for i, s := range ss {
		it[i] = coqSig(s)
	}
	return hx.CoqList(it)
}

func coqCfg(c *mCfg) string {
	if c == nil {
		return "None"
	}
	return fmt.Sprintf("(Some (mk_cfg %d %s))", c.C, coqKeys(c.Peers))
}

func coqHeader(h *mHeader) string {
	info := "None"
	if h.InfoOK {
		info = fmt.Sprintf("(Some (mk_info %d %s))", h.Last, coqCfg(h.Cfg))
	}
	return fmt.Sprintf("(mk_header %d %d %d %s %s %s %d)", h.Height, h.Prev, h.Time, info, coqBks(h.Bks), coqSigs(h.Sigs), h.Hash)
}

// peer map: height -> key ids (sorted)
type mPeers map[uint32][]int

func coqPeers(p mPeers) string {
	var hs []int
	for h := range p {
		hs = append(hs, int(h))
	}
	sort.Ints(hs)
	it := make([]string, 0, len(hs))
	for _, h := range hs {
		it = append(it, fmt.Sprintf("(%d, %s)", h, coqKeys(p[uint32(h)])))
	}
	return hx.CoqList(it)
}

func peersEqual(a, b mPeers) bool {
	if len(a) != len(b) {
		return false
	}
	for h, x := range a {
		y, ok := b[h]
		if !ok || len(x) != len(y) {
			return false
		}
		for i := range x {
			if x[i] != y[i] {
				return false
			}
		}
	}
	return true
}

// coqDefs accumulates the store-version definitions placed in the header of cases.v.
type coqDefs struct {
	b strings.Builder
	n int
}

func (d *coqDefs) add(body string) string {
	name := fmt.Sprintf("st%d", d.n)
	d.n++
	fmt.Fprintf(&d.b, "Definition %s : store := %s.\n", name, body)
	return name
}

func coqOptN(ok bool, v uint32) string {
	if !ok {
		return "None"
	}
	return fmt.Sprintf("(Some %d)", v)
}
