package c32

// generate.go: the deterministic witness probes of finding F11 and the random generators.

import (
	"math"
)

func seq(a, b int) []int {
	var out []int
	for i := a; i <= b; i++ {
		out = append(out, i)
	}
	return out
}

func validSigs(ids []int) []sigSpec {
	var out []sigSpec
	for _, k := range ids {
		out = append(out, sigSpec{Kind: "valid", K: k})
	}
	return out
}

func (r *run) tip() *mHeader { return r.e.chain[len(r.e.chain)-1].m }

// next returns the skeleton of a header extending the current tip.
func (r *run) next() hdrSpec {
	t := r.tip()
	return hdrSpec{Height: t.Height + 1, PrevHeight: int(t.Height), Time: t.Time + 1 + uint32(r.c.Intn(5)), Salt: r.c.Rng.Uint64()}
}

// witnesses: the three refutation witnesses of Props/C32.v, through LedgerStoreImp.AddHeaders on
// the real ledger (the genesis configuration is N=7, C=2 as on the main net). Runs on every check.
func (r *run) witnesses() {
	c := r.c
	// W1: N=7, C=2: three members listed, ONE valid signature.
	w1 := r.next()
	w1.Last, w1.Bks, w1.Sigs = 0, []int{1, 2, 3}, validSigs([]int{1})
	if !r.doAdd(w1, "witness-threshold") {
		c.Note("W1 (N=7,C=2, one signature) was rejected: the threshold finding is not reproduced on this tree")
		// keep the chain going with an honest header
		w1.Bks, w1.Sigs = seq(1, 7), validSigs(seq(1, 7))
		r.doAdd(w1, "honest")
	}
	// new configuration A: peers 8..21 (N=14), C=1, signed by all seven genesis members
	a := r.next()
	a.Last, a.Cfg = 0, &mCfg{C: 1, Peers: seq(8, 21)}
	a.Bks, a.Sigs = seq(1, 7), validSigs(seq(1, 7))
	if !r.doAdd(a, "honest-newcfg") {
		c.Note("configuration header A rejected; witness W2/W3 skipped")
		return
	}
	ha := a.Height
	// W2: m = 2 >= C+1 = 2, member 8 listed twice, its one signature sent twice.
	w2 := r.next()
	w2.Last, w2.Bks = ha, []int{8, 8, 9}
	w2.Sigs = []sigSpec{{Kind: "valid", K: 8}, {Kind: "dup", D: 0}}
	if !r.doAdd(w2, "witness-duplicate") {
		c.Note("W2 (duplicate bookkeeper) was rejected: the duplicate finding is not reproduced on this tree")
		w2.Bks, w2.Sigs = seq(8, 21), validSigs(seq(8, 21))
		r.doAdd(w2, "honest")
	}
	// new configuration B: peers 15..28 (N=14), C=1, signed by all members of A
	b := r.next()
	b.Last, b.Cfg = ha, &mCfg{C: 1, Peers: seq(15, 28)}
	b.Bks, b.Sigs = seq(8, 21), validSigs(seq(8, 21))
	if !r.doAdd(b, "honest-newcfg") {
		c.Note("configuration header B rejected; witness W3 skipped")
		return
	}
	// W3: names configuration A (height ha) although B governs; signed by 8 and 9, members of A only.
	w3 := r.next()
	w3.Last, w3.Bks, w3.Sigs = ha, []int{8, 9}, validSigs([]int{8, 9})
	if !r.doAdd(w3, "witness-stale") {
		c.Note("W3 (stale configuration height) was rejected: the stale-configuration finding is not reproduced on this tree")
		w3.Last, w3.Bks, w3.Sigs = b.Height, seq(15, 28), validSigs(seq(15, 28))
		r.doAdd(w3, "honest")
	}
}

// witnessOverwrite (W4): on a fresh ledger, the indexed header 1 carries configuration A (peers
// 8..21, C=1). A block for height 1 with a FORGED header (three genesis members listed, one
// signature) carrying the configuration {peers 22..35} is offered to Ledger.AddBlock with a wrong
// state root: the block is refused, but verifyHeader has already replaced vbftPeerInfoMap[1].
// A header at height 2 listing and signed by 22 and 23 (no members of A) is then accepted.
func (r *run) witnessOverwrite() {
	c := r.c
	a := r.next()
	a.Last, a.Cfg = 0, &mCfg{C: 1, Peers: seq(8, 21)}
	a.Bks, a.Sigs = seq(1, 7), validSigs(seq(1, 7))
	if !r.doAdd(a, "honest-newcfg") {
		c.Note("W4: configuration header rejected; probe skipped")
		return
	}
	f := a
	f.Salt++
	f.Cfg = &mCfg{C: 0, Peers: seq(22, 35)}
	f.Bks, f.Sigs = []int{1, 2, 3}, validSigs([]int{1})
	if !r.doAddBlock(f, "witness-overwrite-addblock") {
		c.Note("W4: the forged block header was rejected by verifyHeader; the overwrite finding is not reproduced on this tree")
		return
	}
	w4 := r.next()
	w4.Last, w4.Bks, w4.Sigs = a.Height, []int{22, 23}, validSigs([]int{22, 23})
	if !r.doAdd(w4, "witness-overwrite") {
		c.Note("W4: header signed by the injected peer set was rejected")
	}
}

// probeRejectedPoison (deterministic, every run; must NOT fail on a correct tree): indexed header H
// announces configuration A and is accepted through AddHeaders; a forged block at the same height H
// announcing an attacker peer set (22..35), listed and signed by attacker keys only, is offered to
// Ledger.AddBlock - verifyHeader rejects it (non-members) and the map must not change; a forged header
// H+1 with last_config_block_num = H, listed and signed by attacker keys only, must then be rejected.
func (r *run) probeRejectedPoison() {
	c := r.c
	a := r.next()
	a.Last, a.Cfg = 0, &mCfg{C: 1, Peers: seq(8, 21)}
	a.Bks, a.Sigs = seq(1, 7), validSigs(seq(1, 7))
	if !r.doAdd(a, "honest-newcfg") {
		c.Note("rejected-poison probe: configuration header rejected; probe skipped")
		return
	}
	f := a
	f.Salt++
	f.Cfg = &mCfg{C: 0, Peers: seq(22, 35)}
	f.Bks, f.Sigs = []int{22, 23}, validSigs([]int{22, 23})
	if r.doAddBlock(f, "probe-rejected-poison-addblock") {
		c.Fail("accept:attacker-signed-block-header", "a block header listed and signed only by non-members was accepted by verifyHeader", r.full("addblock", f), "accepted", "rejected")
	}
	p := r.next()
	p.Last, p.Bks, p.Sigs = a.Height, []int{22, 23}, validSigs([]int{22, 23})
	r.doAdd(p, "probe-rejected-poison-header") // judged by the oracle (nonmember / quorum / map clauses)
}

// foreignBlob: a well-formed signature blob of ANOTHER scheme than the one key id uses (the crypto
// library does not check that a signature's scheme fits the key's algorithm).
func (r *run) foreignBlob(id int, members []int) sigSpec {
	isSM2 := func(k int) bool { return k >= 31 && k <= 33 }
	if isSM2(id) {
		if r.c.Intn(2) == 0 {
			return sigSpec{Kind: "blob", V: r.c.Intn(50)}
		}
		for _, k := range members {
			if k <= 30 {
				return sigSpec{Kind: "othermsg", K: k, V: r.c.Intn(1000)}
			}
		}
		return sigSpec{Kind: "blob", V: 1}
	}
	return sigSpec{Kind: "othermsg", K: 31 + r.c.Intn(3), V: r.c.Intn(1000)} // an SM2 blob
}

// hostileEncode rewrites a candidate so that some listed bookkeepers come in a hostile wire
// encoding; often the forged object is put first and a foreign-scheme blob (or garbage) first
// among the signatures, so that the first verification trial pairs them.
func (r *run) hostileEncode(sp *hdrSpec, members []int) {
	c := r.c
	if len(sp.Bks) == 0 {
		return
	}
	encs := []string{"uncompressed", "off+2", "off+2", "off+6", "off+40", "off+1", "zero", "nonresidue", "infinity"}
	sp.Enc = make([]string, len(sp.Bks))
	at := c.Intn(len(sp.Bks))
	if c.Intn(2) == 0 { // the forged object first
		sp.Bks[0], sp.Bks[at] = sp.Bks[at], sp.Bks[0]
		at = 0
	}
	sp.Enc[at] = encs[c.Intn(len(encs))]
	if len(sp.Bks) > 1 && c.Intn(3) == 0 {
		sp.Enc[c.Intn(len(sp.Bks))] = encs[c.Intn(len(encs))]
	}
	switch c.Intn(4) {
	case 0: // every signature a foreign-scheme blob / garbage
		for i := range sp.Sigs {
			sp.Sigs[i] = r.foreignBlob(sp.Bks[at], members)
		}
		if len(sp.Sigs) == 0 {
			sp.Sigs = []sigSpec{r.foreignBlob(sp.Bks[at], members)}
		}
	case 1: // a foreign-scheme blob first, the rest as generated
		sp.Sigs = append([]sigSpec{r.foreignBlob(sp.Bks[at], members)}, sp.Sigs...)
		for i := range sp.Sigs {
			if sp.Sigs[i].Kind == "dup" {
				sp.Sigs[i].D++
			}
		}
	case 2: // garbage first
		sp.Sigs = append([]sigSpec{{Kind: "corrupt", K: sp.Bks[at]}}, sp.Sigs...)
		for i := range sp.Sigs {
			if sp.Sigs[i].Kind == "dup" {
				sp.Sigs[i].D++
			}
		}
	}
}

// probeForgedEncoding (deterministic, every run; nothing here may be accepted on a correct tree):
// headers whose bookkeepers carry a member's identity in a forged key object (uncompressed wire
// form with an off-curve Y of the same parity) and whose signatures nobody made.
func (r *run) probeForgedEncoding() {
	c := r.c
	try := func(sp hdrSpec, tag string) {
		if r.doVerify(sp, tag) {
			c.Note("forged-encoding probe accepted by verifyHeader: " + tag)
		}
		if r.doAdd(sp, tag+"-AddHeaders") {
			c.Note("forged-encoding probe accepted by AddHeaders: " + tag)
		}
	}
	// genesis configuration (N=7, C=2, all P-256): three members listed, the first as (X, Y+2);
	// the only signature is an SM2-scheme blob made by a non-member
	g := r.next()
	g.Last, g.Bks, g.Enc = 0, []int{1, 2, 3}, []string{"off+2", "", ""}
	g.Sigs = []sigSpec{{Kind: "valid", K: 31}}
	try(g, "probe-forged-p256-sm2-blob")
	g2 := g
	g2.Salt++
	g2.Sigs = []sigSpec{{Kind: "blob", V: 3}, {Kind: "blob", V: 4}, {Kind: "blob", V: 5}}
	try(g2, "probe-forged-p256-ecdsa-garbage")
	// a configuration of mixed key types: SM2 members 31 and 32, P-256 members, an Ed25519 member
	a := r.next()
	a.Last, a.Cfg = 0, &mCfg{C: 1, Peers: []int{31, 1, 2, 3, 32, 4, 5, 6, 34, 7, 8, 9, 10, 11}}
	a.Bks, a.Sigs = seq(1, 7), validSigs(seq(1, 7))
	if !r.doAdd(a, "honest-newcfg-mixed-keys") {
		c.Note("forged-encoding probe: mixed-key configuration refused; rest skipped")
		return
	}
	for i, enc := range []string{"off+2", "off+6", "off+40", "uncompressed", "off+1", "zero"} {
		f := r.next()
		f.Salt += uint64(i)
		f.Last, f.Bks, f.Enc = a.Height, []int{31, 1}, []string{enc, ""}
		f.Sigs = []sigSpec{{Kind: "blob", V: 1}, {Kind: "blob", V: 2}} // ECDSA-scheme blobs meet the SM2-curve object first
		try(f, "probe-forged-sm2-"+enc+"-ecdsa-blobs")
	}
	f := r.next()
	f.Last, f.Bks, f.Enc = a.Height, []int{1, 31}, []string{"off+2", ""}
	f.Sigs = []sigSpec{{Kind: "othermsg", K: 32, V: 1}, {Kind: "othermsg", K: 32, V: 2}} // SM2 blobs meet the off-curve P-256 object first
	try(f, "probe-forged-p256-sm2-blobs")
	// control: the uncompressed GENUINE encodings with real signatures are accepted
	ok := r.next()
	ok.Last, ok.Bks, ok.Enc = a.Height, []int{31, 1, 34}, []string{"uncompressed", "uncompressed", ""}
	ok.Sigs = validSigs([]int{31, 1})
	if !r.doVerify(ok, "control-uncompressed-genuine") {
		c.Note("control: a header with uncompressed genuine keys and valid signatures was refused")
	}
}

// satisfiable: can pool keys produce an accepted header against the configuration at height g?
func (r *run) satisfiable(g uint32) bool {
	cfg := r.e.cfgAt(g)
	peers, ok := r.e.peers[g]
	if cfg == nil || !ok {
		return false
	}
	real := 0
	for _, k := range peers {
		if k < ghostBase {
			real++
		}
	}
	return real >= vbftM(len(peers)) && uint64(real) >= uint64(cfg.C)+1
}

func (r *run) members(g uint32) []int {
	var out []int
	for _, k := range r.e.peers[g] {
		if k < ghostBase {
			out = append(out, k)
		}
	}
	return out
}

// lastGood: the most recent configuration height a pool-signed header can satisfy.
func (r *run) lastGood() uint32 {
	for j := len(r.e.chain) - 1; j >= 0; j-- {
		if r.e.chain[j].m.Cfg != nil && r.satisfiable(uint32(j)) {
			return uint32(j)
		}
	}
	return 0
}

func (r *run) randCfg() *mCfg {
	c := r.c
	sizes := []int{1, 2, 3, 4, 4, 5, 6, 7, 7, 7, 8, 10, 13, 14, 14, 15, 16}
	n := sizes[c.Intn(len(sizes))]
	perm := c.Rng.Perm(poolSize)
	var peers []int
	for i := 0; i < n; i++ {
		peers = append(peers, perm[i]+1)
	}
	switch c.Intn(10) {
	case 0: // a repeated id entry
		peers = append(peers, peers[c.Intn(len(peers))])
	case 1: // an id string no key maps to
		peers[c.Intn(len(peers))] = ghostBase + 1 + c.Intn(poolSize)
	}
	cc := uint32((n - 1) / 3)
	switch c.Intn(12) {
	case 0:
		cc = 0
	case 1:
		cc = uint32(n)
	case 2:
		cc = uint32(n + 3)
	case 3:
		cc = math.MaxUint32
	case 4:
		cc = uint32(c.Intn(n + 1))
	case 5:
		if vbftM(n) > 0 {
			cc = uint32(vbftM(n) - 1) // threshold not short
		}
	}
	return &mCfg{C: cc, Peers: peers}
}

func (r *run) randSig(listed []int, members []int, i int) sigSpec {
	c := r.c
	pick := func(l []int) int {
		if len(l) == 0 {
			return 1 + c.Intn(poolSize)
		}
		return l[c.Intn(len(l))]
	}
	switch c.Intn(12) {
	case 0:
		return sigSpec{Kind: "othermsg", K: pick(listed), V: c.Intn(1000)}
	case 1:
		return sigSpec{Kind: "corrupt", K: pick(listed)}
	case 2:
		return sigSpec{Kind: "undecodable", V: c.Intn(4)}
	case 3, 4:
		if i > 0 {
			return sigSpec{Kind: "dup", D: c.Intn(i)}
		}
		return sigSpec{Kind: "valid", K: pick(listed)}
	case 5:
		return sigSpec{Kind: "valid", K: pick(members)} // possibly an unlisted member
	case 6:
		return sigSpec{Kind: "valid", K: 1 + c.Intn(poolSize)} // anybody
	}
	return sigSpec{Kind: "valid", K: pick(listed)}
}

// candidate: one test header for the current store; tag names the generator branch.
func (r *run) candidate() (hdrSpec, string) {
	c, e := r.c, r.e
	sp := r.next()
	tag := "structured"
	// which stored header it builds on
	switch c.Intn(20) {
	case 0:
		sp.PrevHeight, sp.PrevSalt, tag = -1, c.Intn(1000), "unknown-prev"
	case 1, 2:
		j := c.Intn(len(e.chain))
		sp.PrevHeight, sp.Height, sp.Time = j, e.chain[j].m.Height+1, e.chain[j].m.Time+1
	case 3:
		sp.Height += uint32(c.Intn(3)) - 1 // wrong height (or 0)
		tag = "wrong-height"
	case 4:
		sp.Time = r.tip().Time - uint32(c.Intn(2)) // not later than the predecessor
		tag = "old-timestamp"
	}
	// payload
	gov, _ := e.govHeight(sp.Height)
	sp.Last = gov
	switch c.Intn(20) {
	case 0:
		sp.BadPayload, tag = true, "bad-payload"
	case 1, 2, 3:
		sp.Cfg = r.randCfg()
		sp.Last = uint32(c.Intn(len(e.chain) + 2))
	case 4, 5, 6: // another stored configuration height
		var hs []uint32
		for j, ce := range e.chain {
			if ce.m.Cfg != nil {
				hs = append(hs, uint32(j))
			}
		}
		sp.Last = hs[c.Intn(len(hs))]
	case 7:
		sp.Last = uint32(c.Intn(len(e.chain) + 3)) // any height: no config there, or no header
	}
	g, ok := e.claimedHeight(&sp)
	var members []int
	need, cc := 1, 0
	if ok {
		members = r.members(g)
		need = vbftM(len(e.peers[g]))
		if cfg := e.cfgAt(g); cfg != nil && cfg.C < 64 {
			cc = int(cfg.C)
		}
	}
	// bookkeepers: distinct members, count between the two thresholds and everything
	perm := c.Rng.Perm(len(members))
	nb := 0
	switch c.Intn(6) {
	case 0:
		nb = need
	case 1:
		nb = cc + 1
	case 2:
		nb = len(members)
	case 3:
		nb = need - 1 + c.Intn(3)
	default:
		lo := need
		if cc+1 > lo {
			lo = cc + 1
		}
		nb = lo + c.Intn(3)
	}
	if nb > len(members) {
		nb = len(members)
	}
	if nb < 0 {
		nb = 0
	}
	for i := 0; i < nb; i++ {
		sp.Bks = append(sp.Bks, members[perm[i]])
	}
	switch c.Intn(10) {
	case 0, 1: // a key listed twice (or more)
		if len(sp.Bks) > 0 {
			k := sp.Bks[c.Intn(len(sp.Bks))]
			at := c.Intn(len(sp.Bks) + 1)
			sp.Bks = append(sp.Bks[:at], append([]int{k}, sp.Bks[at:]...)...)
			if c.Intn(3) == 0 {
				sp.Bks = append(sp.Bks, k)
			}
			tag = "duplicate-listed"
		}
	case 2: // a non-member
		sp.Bks = append(sp.Bks, 1+c.Intn(poolSize))
		tag = "maybe-nonmember"
	case 3: // only copies of one key
		if len(sp.Bks) > 0 {
			k := sp.Bks[0]
			for i := range sp.Bks {
				sp.Bks[i] = k
			}
			tag = "one-key-repeated"
		}
	}
	// signatures: valid ones of the first listed keys, then mutations
	ns := 0
	switch c.Intn(6) {
	case 0:
		ns = need
	case 1:
		ns = need - 1
	case 2:
		ns = len(sp.Bks)
	case 3:
		ns = cc + 1
	default:
		ns = need + c.Intn(3)
	}
	if ns < 0 {
		ns = 0
	}
	for i := 0; i < ns; i++ {
		if i < len(sp.Bks) {
			sp.Sigs = append(sp.Sigs, sigSpec{Kind: "valid", K: sp.Bks[i]})
		} else {
			sp.Sigs = append(sp.Sigs, r.randSig(sp.Bks, members, i))
		}
	}
	nm := 0
	switch c.Intn(5) {
	case 0:
		nm = 1
	case 1:
		nm = 1 + c.Intn(2)
	}
	for i := 0; i < nm && len(sp.Sigs) > 0; i++ {
		j := c.Intn(len(sp.Sigs))
		sp.Sigs[j] = r.randSig(sp.Bks, members, j)
		if tag == "structured" {
			tag = "mutated-signature"
		}
	}
	if c.Intn(7) == 0 && len(sp.Bks) > 0 {
		r.hostileEncode(&sp, members)
		tag = "hostile-encoding"
	} else if c.Intn(4) == 0 {
		c.Rng.Shuffle(len(sp.Sigs), func(i, j int) {
			if sp.Sigs[i].Kind != "dup" && sp.Sigs[j].Kind != "dup" {
				sp.Sigs[i], sp.Sigs[j] = sp.Sigs[j], sp.Sigs[i]
			}
		})
	}
	return sp, tag
}

// honest: the next header as an honest quorum would produce it (all pool members of the
// configuration it must name sign), optionally carrying a new configuration.
func (r *run) honest(withCfg bool) hdrSpec {
	e := r.e
	sp := r.next()
	gov, _ := e.govHeight(sp.Height)
	if withCfg {
		sp.Cfg = r.randCfg()
		sp.Last = gov
		if g, ok := e.claimedHeight(&sp); !ok || !r.satisfiable(g) {
			sp.Cfg = nil
		}
	}
	if sp.Cfg == nil {
		sp.Last = gov
		if !r.satisfiable(gov) {
			sp.Last = r.lastGood() // the only way on: name an older configuration (finding class stale)
		}
	}
	g, _ := e.claimedHeight(&sp)
	sp.Bks = r.members(g)
	sp.Sigs = validSigs(sp.Bks)
	return sp
}

// randomEpochs grows the chain by `epochs` headers; at every tip `perTip` candidates are verified.
func (r *run) randomEpochs(epochs, perTip int) {
	c := r.c
	for ep := 0; ep < epochs; ep++ {
		for i := 0; i < perTip; i++ {
			sp, tag := r.candidate()
			r.doVerify(sp, tag)
		}
		// sometimes try to add a forged or misplaced header first
		if c.Intn(4) == 0 {
			sp, tag := r.candidate()
			if c.Intn(3) == 0 {
				sp.Height++
			}
			r.doAdd(sp, "add-"+tag)
		}
		if int(r.tip().Height)+1 == len(r.e.chain) { // (always) extend honestly
			sp := r.honest(c.Intn(10) < 6)
			if !r.doAdd(sp, "honest") {
				c.Note("honest header rejected at height " + string(rune('0'+sp.Height%10)))
				sp2 := r.honest(false)
				sp2.Last = r.lastGood()
				sp2.Bks = r.members(sp2.Last)
				sp2.Sigs = validSigs(sp2.Bks)
				if !r.doAdd(sp2, "honest-fallback") {
					c.Note("chain cannot be extended; stopping the random part early")
					return
				}
			}
		}
	}
}
