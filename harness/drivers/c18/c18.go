// Package c18: primitive binary codec (common.ZeroCopySource / ZeroCopySink, common/serialization).
// Correspondence: random read scripts over random and structured byte strings, and write scripts
// read back; oracle: round trip, canonical varuint, offsets within bounds, no panic.
package c18

import (
	"bytes"
	"fmt"
	"strings"

	"github.com/ontio/ontology/common"
	"github.com/ontio/ontology/common/serialization"

	"os"
	"path/filepath"
	"regexp"
	"strconv"
	"verif/harness/gen"
	"verif/harness/hx"
)

func init() {
	gen.RegisterFile("CodecConsts.v", func(repo string) ([]byte, []string) {
		cs := []gen.Const{
			{Name: "UINT16_SIZE", Type: "nat", Value: fmt.Sprint(common.UINT16_SIZE), Comment: "common.UINT16_SIZE"},
			{Name: "UINT32_SIZE", Type: "nat", Value: fmt.Sprint(common.UINT32_SIZE), Comment: "common.UINT32_SIZE"},
			{Name: "UINT64_SIZE", Type: "nat", Value: fmt.Sprint(common.UINT64_SIZE), Comment: "common.UINT64_SIZE"},
			{Name: "UINT256_SIZE", Type: "nat", Value: fmt.Sprint(common.UINT256_SIZE), Comment: "common.UINT256_SIZE"},
			{Name: "ADDR_LEN", Type: "nat", Value: fmt.Sprint(common.ADDR_LEN), Comment: "common.ADDR_LEN"},
			{Name: "I128_SIZE", Type: "nat", Value: fmt.Sprint(common.I128_SIZE), Comment: "common.I128_SIZE"},
		}
		return gen.EmitConsts("", cs), nil
	})
	hx.Register("C18", Run)
}

type rop struct {
	Op string `json:"op"`
	N  uint64 `json:"n,omitempty"`
}

var ropNames = []string{"RByte", "RBool", "RU16", "RU32", "RU64", "RI16", "RI32", "RI64", "RVarUint", "RVarBytes",
	"RAddr", "RHash", "RI128", "RBytes", "RSkip", "RReadVarUint", "RReadVarBytes"}

type readCase struct {
	Buf string `json:"buf"`
	Ops []rop  `json:"ops"`
}

// runRead runs a read script on the implementation; returns Coq result terms and checks the
// safety clause (offset monotone and within bounds, returned data within the buffer).
func runRead(c *hx.Ctx, buf []byte, ops []rop) (coq []string, panicked bool, msg string) {
	src := common.NewZeroCopySource(buf)
	panicked, msg = hx.Recover(func() {
		for _, o := range ops {
			before := src.Pos()
			var r string
			switch o.Op {
			case "RByte":
				v, e := src.NextByte()
				r = fmt.Sprintf("VNum %d %s", v, hx.CoqBool(e))
			case "RBool":
				b, i, e := src.NextBool()
				r = fmt.Sprintf("VBool %s %s %s", hx.CoqBool(b), hx.CoqBool(i), hx.CoqBool(e))
			case "RU16":
				v, e := src.NextUint16()
				r = fmt.Sprintf("VNum %d %s", v, hx.CoqBool(e))
			case "RU32":
				v, e := src.NextUint32()
				r = fmt.Sprintf("VNum %d %s", v, hx.CoqBool(e))
			case "RU64":
				v, e := src.NextUint64()
				r = fmt.Sprintf("VNum %d %s", v, hx.CoqBool(e))
			case "RI16":
				v, e := src.NextInt16()
				r = fmt.Sprintf("VInt %s %s", hx.CoqZ(int64(v)), hx.CoqBool(e))
			case "RI32":
				v, e := src.NextInt32()
				r = fmt.Sprintf("VInt %s %s", hx.CoqZ(int64(v)), hx.CoqBool(e))
			case "RI64":
				v, e := src.NextInt64()
				r = fmt.Sprintf("VInt %s %s", hx.CoqZ(v), hx.CoqBool(e))
			case "RVarUint":
				v, sz, i, e := src.NextVarUint()
				r = fmt.Sprintf("VVarUint %d %d %s %s", v, sz, hx.CoqBool(i), hx.CoqBool(e))
				if !e {
					// oracle: irregular iff the consumed bytes are not the writer's encoding of v
					sink := common.NewZeroCopySink(nil)
					sink.WriteVarUint(v)
					consumed := buf[before:src.Pos()]
					canonical := bytes.Equal(consumed, sink.Bytes())
					if canonical == i {
						c.Fail("varuint-canonicity", "non-minimal variable-length integer not reported as irregular (or minimal one reported)",
							map[string]interface{}{"buf": hx.Hex(buf), "ops": ops, "at": before}, map[string]interface{}{"irregular": i, "value": v, "consumed": hx.Hex(consumed)}, "irregular == (consumed != WriteVarUint(value))")
					}
				}
			case "RVarBytes":
				d, sz, i, e := src.NextVarBytes()
				r = fmt.Sprintf("VVarBytes %s %d %s %s", hx.CoqBytes(d), sz, hx.CoqBool(i), hx.CoqBool(e))
				if !e {
					canonOracle(c, buf, ops, before, src.Pos(), i, func(s *common.ZeroCopySink) { s.WriteVarBytes(d) }, "NextVarBytes")
				}
			case "RAddr":
				d, e := src.NextAddress()
				r = fmt.Sprintf("VBytes %s %s", hx.CoqBytes(d[:]), hx.CoqBool(e))
			case "RHash":
				d, e := src.NextHash()
				r = fmt.Sprintf("VBytes %s %s", hx.CoqBytes(d[:]), hx.CoqBool(e))
			case "RI128":
				d, e := src.NextI128()
				r = fmt.Sprintf("VBytes %s %s", hx.CoqBytes(d[:]), hx.CoqBool(e))
			case "RBytes":
				d, e := src.NextBytes(o.N)
				r = fmt.Sprintf("VBytes %s %s", hx.CoqBytes(d), hx.CoqBool(e))
				if uint64(len(d)) > o.N {
					c.Fail("read-oob", "NextBytes returned more than requested", map[string]interface{}{"buf": hx.Hex(buf), "ops": ops}, len(d), o.N)
				}
			case "RSkip":
				e := src.Skip(o.N)
				r = fmt.Sprintf("VEofOnly %s", hx.CoqBool(e))
			case "RReadVarUint":
				v, err := src.ReadVarUint()
				r = errOr(err, fmt.Sprintf("VOkNum %d", v))
				if err == nil {
					canonOracle(c, buf, ops, before, src.Pos(), false, func(s *common.ZeroCopySink) { s.WriteVarUint(v) }, "ReadVarUint")
				}
			case "RReadVarBytes":
				d, err := src.ReadVarBytes()
				r = errOr(err, fmt.Sprintf("VOkBytes %s", hx.CoqBytes(d)))
				if err == nil {
					canonOracle(c, buf, ops, before, src.Pos(), false, func(s *common.ZeroCopySink) { s.WriteVarBytes(d) }, "ReadVarBytes")
				}
			default:
				panic("bad op " + o.Op)
			}
			after := src.Pos()
			if after < before || after > uint64(len(buf)) {
				c.Fail("read-oob", "offset left the buffer or moved backwards",
					map[string]interface{}{"buf": hx.Hex(buf), "ops": ops}, map[string]interface{}{"before": before, "after": after, "len": len(buf)}, "before <= after <= len")
			}
			coq = append(coq, fmt.Sprintf("(%s, %d)", r, after))
		}
	})
	return
}

// canonOracle: a value was returned (no eof) with the given irregular flag; the flag must be set
// exactly when the consumed bytes are not what the writer produces for that value.
func canonOracle(c *hx.Ctx, buf []byte, ops []rop, before, after uint64, irregular bool, write func(*common.ZeroCopySink), what string) {
	sink := common.NewZeroCopySink(nil)
	write(sink)
	consumed := buf[before:after]
	canonical := bytes.Equal(consumed, sink.Bytes())
	if canonical == irregular {
		c.Fail("varuint-canonicity", what+": non-minimal variable-length integer not reported as irregular (or a minimal one reported)",
			map[string]interface{}{"buf": hx.Hex(buf), "ops": ops, "at": before},
			map[string]interface{}{"irregular": irregular, "consumed": hx.Hex(consumed), "writer_encoding": hx.Hex(sink.Bytes())},
			"irregular == (consumed != writer's encoding of the returned value)")
	}
}

func errOr(err error, ok string) string {
	if err == nil {
		return ok
	}
	if err == common.ErrIrregularData {
		return "VErr EIrregular"
	}
	return "VErr EEof"
}

func coqRop(o rop) string {
	if o.Op == "RBytes" || o.Op == "RSkip" {
		return fmt.Sprintf("%s %d", o.Op, o.N)
	}
	return o.Op
}

func coqRops(ops []rop) string {
	var s []string
	for _, o := range ops {
		s = append(s, coqRop(o))
	}
	return hx.CoqList(s)
}

func doRead(c *hx.Ctx, buf []byte, ops []rop, kind string) {
	c.Eval()
	res, p, msg := runRead(c, buf, ops)
	in := readCase{Buf: hx.Hex(buf), Ops: ops}
	if p {
		c.Fail("panic:source", "reading a byte string panicked", in, msg, "value or eof/irregular indication")
		return
	}
	c.Count("read:" + kind)
	c.Count(fmt.Sprintf("read:len<=%d", bucket(len(buf))))
	if len(ops) > 1 && len(buf) > 0 {
		c.Nontrivial("r" + in.Buf + fmt.Sprint(ops))
	}
	c.Sample(map[string]interface{}{"kind": "read:" + kind, "buf": in.Buf, "ops": ops})
	c.Case(fmt.Sprintf("CRead %s %s %s", hx.CoqBytes(buf), coqRops(ops), hx.CoqList(res)), in)
}

func bucket(n int) int {
	for _, b := range []int{0, 1, 8, 32, 128, 512} {
		if n <= b {
			return b
		}
	}
	return 1 << 20
}

func randRops(c *hx.Ctx, n int, bufLen int) []rop {
	var ops []rop
	for i := 0; i < n; i++ {
		name := ropNames[c.Intn(len(ropNames))]
		o := rop{Op: name}
		if name == "RBytes" || name == "RSkip" {
			switch c.Intn(5) {
			case 0:
				o.N = uint64(c.Intn(4))
			case 1:
				o.N = uint64(c.Intn(bufLen + 2))
			case 2:
				o.N = c.U64Boundary()
			case 3:
				o.N = ^uint64(0) - uint64(c.Intn(bufLen+2))
			default:
				o.N = uint64(c.Intn(40))
			}
		}
		ops = append(ops, o)
	}
	return ops
}

type wop struct {
	Op string `json:"op"`
	N  uint64 `json:"n,omitempty"`
	Z  int64  `json:"z,omitempty"`
	B  bool   `json:"b,omitempty"`
	D  string `json:"d,omitempty"`
}

func randWop(c *hx.Ctx) wop {
	switch c.Intn(11) {
	case 0:
		return wop{Op: "WU8", N: uint64(c.Intn(256))}
	case 1:
		return wop{Op: "WBool", B: c.Intn(2) == 0}
	case 2:
		return wop{Op: "WU16", N: c.U64Boundary() & 0xffff}
	case 3:
		return wop{Op: "WU32", N: c.U64Boundary() & 0xffffffff}
	case 4:
		return wop{Op: "WU64", N: c.U64Boundary()}
	case 5:
		return wop{Op: "WI16", Z: int64(int16(c.U64Boundary()))}
	case 6:
		return wop{Op: "WI32", Z: int64(int32(c.U64Boundary()))}
	case 7:
		return wop{Op: "WI64", Z: int64(c.U64Boundary())}
	case 8:
		return wop{Op: "WVarUint", N: c.U64Boundary()}
	case 9:
		n := []int{0, 1, 5, 252, 253, 254, 300, 70000}[c.Intn(8)]
		if n > 300 && c.Intn(4) != 0 {
			n = c.Intn(40)
		}
		return wop{Op: "WVarBytes", D: hx.Hex(c.Bytes(n))}
	default:
		return wop{Op: "WRaw", D: hx.Hex(c.Bytes([]int{1, 16, 20, 32}[c.Intn(4)]))}
	}
}

func coqWop(o wop) string {
	switch o.Op {
	case "WBool":
		return "WBool " + hx.CoqBool(o.B)
	case "WI16", "WI32", "WI64":
		return o.Op + " " + hx.CoqZ(o.Z)
	case "WVarBytes", "WRaw":
		return o.Op + " " + hx.CoqBytes(hx.UnHex(o.D))
	default:
		return fmt.Sprintf("%s %d", o.Op, o.N)
	}
}

// applyWops runs a write script on sink; sizes are the values returned by the var-length writers.
func applyWops(sink *common.ZeroCopySink, ops []wop) (sizes []uint64, panicked bool, msg string) {
	panicked, msg = hx.Recover(func() {
		for _, o := range ops {
			switch o.Op {
			case "WU8":
				sink.WriteUint8(uint8(o.N))
			case "WBool":
				sink.WriteBool(o.B)
			case "WU16":
				sink.WriteUint16(uint16(o.N))
			case "WU32":
				sink.WriteUint32(uint32(o.N))
			case "WU64":
				sink.WriteUint64(o.N)
			case "WI16":
				sink.WriteInt16(int16(o.Z))
			case "WI32":
				sink.WriteInt32(int32(o.Z))
			case "WI64":
				sink.WriteInt64(o.Z)
			case "WVarUint":
				sizes = append(sizes, sink.WriteVarUint(o.N))
			case "WVarBytes":
				sizes = append(sizes, sink.WriteVarBytes(hx.UnHex(o.D)))
			case "WRaw":
				sink.WriteBytes(hx.UnHex(o.D))
			}
		}
	})
	return
}

// sinkHistories: what a write script produces must not depend on what the sink (or the buffer it
// was built over) held before: a sink reused after Reset, a sink over a used buffer, a sink whose
// earlier output was backed up over, and a second run on the same sink all give the bytes a fresh
// sink gives. (NextBytes re-slices into spare capacity, which is zero only when freshly allocated.)
func sinkHistories(c *hx.Ctx, ops []wop, fresh []byte) {
	n := len(fresh) + 64
	dirty := func(b byte) []byte {
		d := make([]byte, n)
		for i := range d {
			d[i] = b
		}
		return d
	}
	variants := []struct {
		name string
		mk   func() *common.ZeroCopySink
	}{
		{"reset-after-ff-fill", func() *common.ZeroCopySink {
			s := common.NewZeroCopySink(nil)
			s.WriteBytes(dirty(0xff))
			s.Reset()
			return s
		}},
		{"over-used-buffer", func() *common.ZeroCopySink { return common.NewZeroCopySink(dirty(0xab)[:0]) }},
		{"backup-over-output", func() *common.ZeroCopySink {
			s := common.NewZeroCopySink(nil)
			s.WriteBytes(dirty(0x01))
			s.BackUp(uint64(n))
			return s
		}},
		{"second-run-after-reset", func() *common.ZeroCopySink {
			s := common.NewZeroCopySink(nil)
			applyWops(s, ops)
			inv := make([]byte, len(s.Bytes()))
			for i, b := range s.Bytes() {
				inv[i] = ^b
			}
			s.Reset()
			s.WriteBytes(inv) // leave the complement of the expected output in the spare capacity
			s.Reset()
			return s
		}},
	}
	for _, v := range variants {
		c.Eval()
		c.Count("sink-history:" + v.name)
		s := v.mk()
		_, p, msg := applyWops(s, ops)
		if p {
			c.Fail("panic:sink", "writing panicked on a reused sink ("+v.name+")", map[string]interface{}{"wops": ops, "history": v.name}, msg, nil)
			continue
		}
		if !bytes.Equal(s.Bytes(), fresh) {
			c.Fail("sink:history-dependent", "the bytes a write script produces do not depend on what the sink held before",
				map[string]interface{}{"wops": ops, "history": v.name}, hx.Hex(s.Bytes()), hx.Hex(fresh))
		}
	}
}

// doWrite runs a write script on the sink, then reads everything back with the matching reads.
func doWrite(c *hx.Ctx, ops []wop) {
	c.Eval()
	sink := common.NewZeroCopySink(nil)
	sizes, p, msg := applyWops(sink, ops)
	if p {
		c.Fail("panic:sink", "writing panicked", ops, msg, nil)
		return
	}
	out := append([]byte{}, sink.Bytes()...)
	sinkHistories(c, ops, out)
	// oracle: read back
	src := common.NewZeroCopySource(out)
	ok := true
	why := ""
	p, msg = hx.Recover(func() {
		si := 0
		for i, o := range ops {
			bad := func(f string, a ...interface{}) {
				if ok {
					ok = false
					why = fmt.Sprintf("op %d %s: ", i, o.Op) + fmt.Sprintf(f, a...)
				}
			}
			switch o.Op {
			case "WU8":
				v, e := src.NextUint8()
				if e || uint64(v) != o.N {
					bad("got %d eof=%v", v, e)
				}
			case "WBool":
				v, irr, e := src.NextBool()
				if e || irr || v != o.B {
					bad("got %v irr=%v eof=%v", v, irr, e)
				}
			case "WU16":
				v, e := src.NextUint16()
				if e || uint64(v) != o.N {
					bad("got %d eof=%v", v, e)
				}
			case "WU32":
				v, e := src.NextUint32()
				if e || uint64(v) != o.N {
					bad("got %d eof=%v", v, e)
				}
			case "WU64":
				v, e := src.NextUint64()
				if e || v != o.N {
					bad("got %d eof=%v", v, e)
				}
			case "WI16":
				v, e := src.NextInt16()
				if e || int64(v) != o.Z {
					bad("got %d eof=%v", v, e)
				}
			case "WI32":
				v, e := src.NextInt32()
				if e || int64(v) != o.Z {
					bad("got %d eof=%v", v, e)
				}
			case "WI64":
				v, e := src.NextInt64()
				if e || v != o.Z {
					bad("got %d eof=%v", v, e)
				}
			case "WVarUint":
				v, sz, irr, e := src.NextVarUint()
				if e || irr || v != o.N || sz != sizes[si] {
					bad("got %d size=%d (written %d) irr=%v eof=%v", v, sz, sizes[si], irr, e)
				}
				si++
			case "WVarBytes":
				d, sz, irr, e := src.NextVarBytes()
				if e || irr || !bytes.Equal(d, hx.UnHex(o.D)) || sz != sizes[si] {
					bad("got %x size=%d (written %d) irr=%v eof=%v", d, sz, sizes[si], irr, e)
				}
				si++
			case "WRaw":
				w := hx.UnHex(o.D)
				d, e := src.NextBytes(uint64(len(w)))
				if e || !bytes.Equal(d, w) {
					bad("got %x eof=%v", d, e)
				}
			}
		}
		if src.Len() != 0 {
			ok = false
			why += " trailing bytes"
		}
	})
	if p {
		c.Fail("panic:source", "reading back panicked", ops, msg, nil)
		return
	}
	if !ok {
		c.Fail("roundtrip", "a written value does not read back identically", map[string]interface{}{"wops": ops}, why, "identical value, no eof, not irregular, same size")
	}
	var ws []string
	for _, o := range ops {
		ws = append(ws, coqWop(o))
		c.Count("write:" + o.Op)
	}
	var szs []string
	for _, s := range sizes {
		szs = append(szs, fmt.Sprint(s))
	}
	if len(ops) > 1 {
		c.Nontrivial("w" + fmt.Sprint(ops))
	}
	c.Sample(map[string]interface{}{"kind": "write", "ops": ops, "bytes": hx.Hex(out)})
	c.Case(fmt.Sprintf("CWrite %s %s %s", hx.CoqList(ws), hx.CoqBytes(out), hx.CoqList(szs)), map[string]interface{}{"wops": ops})
}

// serialization.* (io.Reader based)
func doSer(c *hx.Ctx, buf []byte, maxint uint64) {
	c.Eval()
	in := map[string]interface{}{"ser_buf": hx.Hex(buf), "maxint": maxint}
	var r1, r2 string
	p, msg := hx.Recover(func() {
		rd := bytes.NewReader(buf)
		v, err := serialization.ReadVarUint(rd, maxint)
		if err != nil {
			if err == serialization.ErrRange {
				r1 = "SRange"
			} else {
				r1 = "SEof"
			}
		} else {
			r1 = fmt.Sprintf("SNum %d %d", v, rd.Len())
		}
		rd = bytes.NewReader(buf)
		d, err := serialization.ReadVarBytes(rd)
		if err != nil {
			r2 = "SEof"
		} else {
			r2 = fmt.Sprintf("SBytes %s %d", hx.CoqBytes(d), rd.Len())
		}
	})
	if p {
		c.Fail("panic:serialization", "serialization reader panicked", in, msg, nil)
		return
	}
	c.Count("ser:" + strings.Fields(r1)[0] + "/" + strings.Fields(r2)[0])
	if len(buf) > 1 {
		c.Nontrivial("s" + hx.Hex(buf) + fmt.Sprint(maxint))
	}
	c.Case(fmt.Sprintf("CSer %s %d (%s) (%s)", hx.CoqBytes(buf), maxint, r1, r2), in)
}

func doSerWrite(c *hx.Ctx, v uint64, d []byte) {
	c.Eval()
	var b1, b2 bytes.Buffer
	serialization.WriteVarUint(&b1, v)
	serialization.WriteVarBytes(&b2, d)
	rv, err := serialization.ReadVarUint(bytes.NewReader(b1.Bytes()), 0)
	if err != nil || rv != v || serialization.GetVarUintSize(v) != b1.Len() {
		c.Fail("roundtrip", "serialization.WriteVarUint does not read back", map[string]interface{}{"v": v}, fmt.Sprint(rv, err), v)
	}
	rd, err := serialization.ReadVarBytes(bytes.NewReader(b2.Bytes()))
	if err != nil || !bytes.Equal(rd, d) {
		c.Fail("roundtrip", "serialization.WriteVarBytes does not read back", map[string]interface{}{"d": hx.Hex(d)}, fmt.Sprint(hx.Hex(rd), err), hx.Hex(d))
	}
	c.Count("serwrite")
	c.Nontrivial(fmt.Sprintf("sw%d/%x", v, d))
	c.Case(fmt.Sprintf("CSerWrite %d %s %s %s", v, hx.CoqBytes(d), hx.CoqBytes(b1.Bytes()), hx.CoqBytes(b2.Bytes())), map[string]interface{}{"v": v, "d": hx.Hex(d)})
}

// serSizeBounds reads the size thresholds of the io.Reader codec from its source (integer literals and
// products of literals such as 2*1024*1024 in common/serialization/serialize.go), so that a boundary a
// change introduces gets probed as well.
func serSizeBounds(c *hx.Ctx) []int {
	seen := map[int]bool{}
	var out []int
	add := func(v int) {
		if v >= 1<<12 && v <= 1<<24 && !seen[v] {
			seen[v] = true
			out = append(out, v)
		}
	}
	add(2 * 1024 * 1024)
	src, err := os.ReadFile(filepath.Join(c.Repo, "common/serialization/serialize.go"))
	if err == nil {
		for _, m := range regexp.MustCompile(`\b\d+(?:\s*\*\s*\d+)*\b`).FindAllString(string(src), -1) {
			v := 1
			for _, f := range regexp.MustCompile(`\d+`).FindAllString(m, -1) {
				n, e := strconv.Atoi(f)
				if e != nil || n == 0 || v > 1<<24 {
					v = 0
					break
				}
				v *= n
			}
			add(v)
		}
	}
	return out
}

// doSerBig: byte strings and strings around the codec's size thresholds must read back identically
// (oracle only: lists of millions of bytes are not evaluated in Coq).
func doSerBig(c *hx.Ctx) {
	for _, b := range serSizeBounds(c) {
		for _, n := range []int{b - 1, b, b + 1, b + b/2} {
			c.Eval()
			c.Count(fmt.Sprintf("serbig:%d", b))
			d := make([]byte, n)
			for i := range d {
				d[i] = byte(i*131 + 7)
			}
			var w bytes.Buffer
			serialization.WriteVarBytes(&w, d)
			var rd []byte
			var err error
			p, msg := hx.Recover(func() { rd, err = serialization.ReadVarBytes(bytes.NewReader(w.Bytes())) })
			if p {
				c.Fail("panic:serialization", "ReadVarBytes panicked", map[string]interface{}{"ser_big_len": n}, msg, nil)
				continue
			}
			if err != nil || !bytes.Equal(rd, d) {
				c.Fail("roundtrip:large", "a byte string written by serialization.WriteVarBytes reads back identically, whatever its length",
					map[string]interface{}{"ser_big_len": n}, fmt.Sprintf("read back %d bytes, err=%v", len(rd), err), fmt.Sprintf("%d identical bytes", n))
			}
			var w2 bytes.Buffer
			serialization.WriteString(&w2, string(d))
			var rs string
			p, msg = hx.Recover(func() { rs, err = serialization.ReadString(bytes.NewReader(w2.Bytes())) })
			if p {
				c.Fail("panic:serialization", "ReadString panicked", map[string]interface{}{"ser_big_len": n}, msg, nil)
				continue
			}
			if err != nil || rs != string(d) {
				c.Fail("roundtrip:large", "a string written by serialization.WriteString reads back identically, whatever its length",
					map[string]interface{}{"ser_big_len": n, "string": true}, fmt.Sprintf("read back %d bytes, err=%v", len(rs), err), fmt.Sprintf("%d identical bytes", n))
			}
			// the zero-copy codec at the same sizes
			sink := common.NewZeroCopySink(nil)
			sink.WriteVarBytes(d)
			src := common.NewZeroCopySource(sink.Bytes())
			zd, _, irr, eof := src.NextVarBytes()
			if eof || irr || !bytes.Equal(zd, d) || src.Len() != 0 {
				c.Fail("roundtrip:large", "a byte string written by ZeroCopySink.WriteVarBytes reads back identically, whatever its length",
					map[string]interface{}{"ser_big_len": n, "zero_copy": true}, fmt.Sprintf("read back %d bytes irr=%v eof=%v", len(zd), irr, eof), fmt.Sprintf("%d identical bytes", n))
			}
		}
	}
}

// structured buffer: a sequence of valid encodings, possibly truncated or with a non-minimal varuint
func structuredBuf(c *hx.Ctx) ([]byte, []rop) {
	sink := common.NewZeroCopySink(nil)
	var ops []rop
	n := 1 + c.Intn(6)
	for i := 0; i < n; i++ {
		switch c.Intn(8) {
		case 0:
			sink.WriteVarUint(c.U64Boundary())
			ops = append(ops, rop{Op: []string{"RVarUint", "RReadVarUint"}[c.Intn(2)]})
		case 1: // non-minimal varuint
			v := c.U64Boundary()
			switch c.Intn(3) {
			case 0:
				sink.WriteByte(0xfd)
				sink.WriteUint16(uint16(v))
			case 1:
				sink.WriteByte(0xfe)
				sink.WriteUint32(uint32(v))
			default:
				sink.WriteByte(0xff)
				sink.WriteUint64(v)
			}
			ops = append(ops, rop{Op: []string{"RVarUint", "RReadVarUint", "RVarBytes"}[c.Intn(3)]})
		case 2:
			sink.WriteVarBytes(c.Bytes(c.Intn(40)))
			ops = append(ops, rop{Op: []string{"RVarBytes", "RReadVarBytes"}[c.Intn(2)]})
		case 3:
			sink.WriteBool(c.Intn(2) == 0)
			if c.Intn(4) == 0 {
				sink.BackUp(1)
				sink.WriteByte(byte(2 + c.Intn(254)))
			}
			ops = append(ops, rop{Op: "RBool"})
		case 4:
			sink.WriteUint64(c.U64Boundary())
			ops = append(ops, rop{Op: []string{"RU64", "RI64"}[c.Intn(2)]})
		case 5:
			sink.WriteUint32(uint32(c.U64Boundary()))
			ops = append(ops, rop{Op: []string{"RU32", "RI32"}[c.Intn(2)]})
		case 6:
			sink.WriteBytes(c.Bytes(20))
			ops = append(ops, rop{Op: "RAddr"})
		default:
			sink.WriteBytes(c.Bytes(32))
			ops = append(ops, rop{Op: "RHash"})
		}
	}
	b := append([]byte{}, sink.Bytes()...)
	if c.Intn(3) == 0 && len(b) > 0 {
		b = b[:c.Intn(len(b))]
	}
	return b, ops
}

func Run(c *hx.Ctx) {
	c.CoqModule("Corr.C18")
	var rc readCase
	if c.ReplayInput(&rc) && rc.Buf != "" {
		doRead(c, hx.UnHex(rc.Buf), rc.Ops, "replay")
		return
	}
	var wc struct {
		Wops []wop `json:"wops"`
	}
	if c.ReplayInput(&wc) && len(wc.Wops) > 0 {
		doWrite(c, wc.Wops)
		return
	}
	doSerBig(c)
	// deterministic sink-history probes: a false bool / zero bytes written where a used sink holds
	// non-zero bytes
	doWrite(c, []wop{{Op: "WBool", B: false}, {Op: "WBool", B: false}})
	doWrite(c, []wop{{Op: "WU8", N: 0}, {Op: "WBool", B: false}, {Op: "WU64", N: 0}, {Op: "WVarUint", N: 0}, {Op: "WVarBytes", D: ""}})
	for _, raw := range c.CorpusInputs() {
		var r readCase
		if jsonUnmarshal(raw, &r) == nil && len(r.Ops) > 0 {
			doRead(c, hx.UnHex(r.Buf), r.Ops, "corpus")
		}
	}
	// deterministic boundary sweep: every prefix form x every size-class boundary value
	bvals := []uint64{0, 1, 0xfc, 0xfd, 0xfe, 0xff, 0x100, 0xfffe, 0xffff, 0x10000, 0x10001, 0xfffffffe, 0xffffffff,
		0x100000000, 0x100000001, 0x7fffffffffffffff, 0xffffffffffffffff}
	for _, v := range bvals {
		for form := 0; form < 3; form++ {
			sink := common.NewZeroCopySink(nil)
			switch form {
			case 0:
				if v > 0xffff {
					continue
				}
				sink.WriteByte(0xfd)
				sink.WriteUint16(uint16(v))
			case 1:
				if v > 0xffffffff {
					continue
				}
				sink.WriteByte(0xfe)
				sink.WriteUint32(uint32(v))
			default:
				sink.WriteByte(0xff)
				sink.WriteUint64(v)
			}
			sink.WriteBytes([]byte{1, 2, 3})
			b := append([]byte{}, sink.Bytes()...)
			for _, op := range []string{"RVarUint", "RReadVarUint", "RVarBytes", "RReadVarBytes"} {
				doRead(c, b, []rop{{Op: op}, {Op: "RByte"}}, "boundary")
			}
		}
	}
	n := c.N(1500, 12000)
	for i := 0; i < n; i++ {
		switch {
		case i%4 == 0:
			b := c.Bytes([]int{0, 1, 2, 3, 5, 9, 12, 33, 64}[c.Intn(9)])
			// bias first bytes towards varuint tags
			if len(b) > 0 && c.Intn(2) == 0 {
				b[0] = []byte{0xfc, 0xfd, 0xfe, 0xff, 0, 1, 2}[c.Intn(7)]
			}
			doRead(c, b, randRops(c, 1+c.Intn(6), len(b)), "random")
		case i%4 == 1:
			b, ops := structuredBuf(c)
			if c.Intn(4) == 0 {
				ops = append(ops, randRops(c, 2, len(b))...)
			}
			doRead(c, b, ops, "structured")
		case i%4 == 2:
			var ops []wop
			for k := 0; k < 1+c.Intn(6); k++ {
				ops = append(ops, randWop(c))
			}
			doWrite(c, ops)
		default:
			if i%8 == 3 {
				b := c.Bytes(c.Intn(12))
				if len(b) > 0 && c.Intn(2) == 0 {
					b[0] = []byte{0xfc, 0xfd, 0xfe, 0xff, 3}[c.Intn(5)]
				}
				doSer(c, b, []uint64{0, 0, 0xff, 0xffff, 10}[c.Intn(5)])
			} else {
				doSerWrite(c, c.U64Boundary(), c.Bytes(c.Intn(300)))
			}
		}
	}
}
