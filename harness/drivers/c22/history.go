package c22

// Object-history variants of the oracle. The property speaks about addresses (20 bytes) and
// strings, so every codec call must equal a pure function of its argument's bytes, whatever the
// Address variable held before and whatever was encoded or decoded earlier in the process
// (memo tables, caches keyed by something other than the 20 bytes, reused buffers, stale result
// variables). Each mode below runs a SEQUENCE of addresses (or strings) through one long-lived
// object and compares every call with the spec functions of this package (specEncode, specHex,
// specDecode), which use only math/big, crypto/sha256 and encoding/hex.
//
//   reuse-copy       one *Address, refilled with copy() before every call
//   reuse-assign     one Address variable, assigned a new array value before every call
//   range-loop       for _, a := range addrs { a.ToBase58() } (go 1.17 module: one shared variable)
//   deserialization  one Address refilled by Address.Deserialization from one ZeroCopySource
//   slice-in-place   elements of one []Address encoded, overwritten in place, encoded again
//   repeat           the same variable encoded twice without change, and after a change-and-restore
//   long-lived       one *Address of the driver reused across ALL probeAddr/probeHexAddr calls of a run
//   decode-reuse     one result variable receiving AddressFromBase58 / AddressFromHexString results
//
// A failing step is reported with the prefix of the sequence up to that step (replayable:
// kind "hist"/"dhist"/"hhist") and names the earlier address whose encoding was returned.

import (
	"bytes"
	"encoding/hex"
	"fmt"
	"strings"

	"github.com/ontio/ontology/common"

	"verif/harness/hx"
)

func specEncode(a []byte) string { return refEncode(refPayload(23, a)) }

func specHex(a []byte) string {
	rev := make([]byte, len(a))
	for i := range a {
		rev[len(a)-1-i] = a[i]
	}
	return hex.EncodeToString(rev)
}

// specDecode: s is accepted iff it is the encoding of the 20 bytes found in it.
func specDecode(s string) ([]byte, bool) {
	if s == "" || len(s) > 2048 {
		return nil, false
	}
	buf, ok := refDecode(s)
	if !ok || len(buf) != 25 || buf[0] != 23 {
		return nil, false
	}
	a := append([]byte{}, buf[1:21]...)
	if specEncode(a) != s {
		return nil, false
	}
	return a, true
}

func specHexDecode(s string) ([]byte, bool) {
	b, err := hex.DecodeString(s)
	if err != nil || len(b) != 20 {
		return nil, false
	}
	rev := make([]byte, 20)
	for i := range b {
		rev[19-i] = b[i]
	}
	return rev, true
}

func catHex(seq [][]byte) string {
	var sb strings.Builder
	for _, a := range seq {
		sb.WriteString(hx.Hex(a))
	}
	return sb.String()
}

func splitAddrs(b []byte) [][]byte {
	var out [][]byte
	for i := 0; i+20 <= len(b); i += 20 {
		out = append(out, append([]byte{}, b[i:i+20]...))
	}
	return out
}

// whose: which earlier element of seq has this encoding (for the report)
func whose(enc string, seq [][]byte) interface{} {
	for k, x := range seq {
		if specEncode(x) == enc {
			return map[string]interface{}{"step": k, "addr": hx.Hex(x)}
		}
	}
	if a, ok := specDecode(enc); ok {
		return map[string]interface{}{"step": "not in this sequence", "addr": hx.Hex(a)}
	}
	return "not the encoding of any address"
}

// checkEnc: one step of an encode history. p currently holds want; seq[:i+1] is what the object
// held so far (seq[i] == want).
func (d *drv) checkEnc(p *common.Address, seq [][]byte, i int, mode string) bool {
	c := d.c
	want := seq[i]
	in := input{Kind: "hist", S: catHex(seq[:i+1]), Note: mode}
	var enc, hs string
	var back common.Address
	var err error
	c.Eval()
	pn, msg := hx.Recover(func() {
		enc = p.ToBase58()
		hs = p.ToHexString()
		back, err = common.AddressFromBase58(enc)
	})
	if pn {
		c.Fail("b58:panic", "ToBase58/ToHexString/AddressFromBase58 panicked on a reused Address object", in, msg, "no panic")
		return false
	}
	c.Count("hist:" + mode)
	ok := true
	if !bytes.Equal(p[:], want) {
		c.Fail("b58:mutates-receiver", "encoding changed the bytes of the address", in, hx.Hex(p[:]), hx.Hex(want))
		ok = false
	}
	if spec := specEncode(want); enc != spec {
		prev := ""
		if i > 0 {
			prev = hx.Hex(seq[i-1])
		}
		c.Fail("b58:history-dependent", "ToBase58 of an address depends on what the Address object held or encoded before (it is not a function of the 20 bytes)", in,
			map[string]interface{}{"address": hx.Hex(want), "returned": enc, "returned_is_encoding_of": whose(enc, seq[:i+1]), "previous_content": prev, "mode": mode},
			spec)
		ok = false
	}
	if err != nil || !bytes.Equal(back[:], want) {
		c.Fail("b58:roundtrip", "an address does not decode from its own base58 encoding (encode on a reused Address object, then decode)", in,
			map[string]interface{}{"address": hx.Hex(want), "encoded": enc, "err": fmt.Sprint(err), "decoded": hx.Hex(back[:]), "mode": mode},
			"AddressFromBase58(a.ToBase58()) == a")
		ok = false
	}
	if hs != specHex(want) {
		c.Fail("hex:history-dependent", "ToHexString of an address depends on the history of the Address object", in,
			map[string]interface{}{"address": hx.Hex(want), "returned": hs, "mode": mode}, specHex(want))
		ok = false
	}
	if i > 0 {
		c.Nontrivial("hist" + mode + in.S)
	}
	if d.wantCase("hist") {
		c.Case(fmt.Sprintf("CTo %s %s %s", hx.CoqBytes(want), tableFor(want), hx.CoqBytes([]byte(enc))), in)
		c.Case(fmt.Sprintf("CHexTo %s %s", hx.CoqBytes(want), hx.CoqBytes([]byte(hs))), in)
	}
	return ok
}

func arr(a []byte) (x common.Address) { copy(x[:], a); return }

// history runs seq through one object in the given mode.
func (d *drv) history(seq [][]byte, mode string) {
	if len(seq) == 0 {
		return
	}
	switch mode {
	case "reuse-copy":
		p := new(common.Address)
		for i := range seq {
			copy(p[:], seq[i])
			if !d.checkEnc(p, seq, i, mode) {
				return
			}
		}
	case "reuse-assign":
		var a common.Address
		for i := range seq {
			a = arr(seq[i])
			if !d.checkEnc(&a, seq, i, mode) {
				return
			}
		}
	case "range-loop":
		addrs := make([]common.Address, len(seq))
		for i := range seq {
			addrs[i] = arr(seq[i])
		}
		i := 0
		for _, a := range addrs { // one variable `a` for all iterations under this module's go 1.17
			if !d.checkEnc(&a, seq, i, mode) {
				return
			}
			i++
		}
	case "deserialization":
		sink := common.NewZeroCopySink(nil)
		for i := range seq {
			sink.WriteAddress(arr(seq[i]))
		}
		src := common.NewZeroCopySource(sink.Bytes())
		var a common.Address
		for i := range seq {
			if err := a.Deserialization(src); err != nil {
				return
			}
			if !d.checkEnc(&a, seq, i, mode) {
				return
			}
		}
	case "slice-in-place":
		// first half of seq fills the slice, second half overwrites it element by element
		h := (len(seq) + 1) / 2
		addrs := make([]common.Address, h)
		for i := 0; i < len(seq); i++ {
			addrs[i%h] = arr(seq[i])
			if !d.checkEnc(&addrs[i%h], seq, i, mode) {
				return
			}
		}
	case "repeat":
		// x, x, y, x on one variable: seq is expected to be of that form (built by histories())
		var a common.Address
		for i := range seq {
			if i == 0 || !bytes.Equal(seq[i], seq[i-1]) {
				a = arr(seq[i])
			}
			if !d.checkEnc(&a, seq, i, mode) {
				return
			}
		}
	default: // unknown mode in a replay file: treat as reuse-copy
		d.history(seq, "reuse-copy")
	}
}

var histModes = []string{"reuse-copy", "reuse-assign", "range-loop", "deserialization", "slice-in-place", "repeat"}

// histories: random sequences in every mode, interleaved with fresh-variable probes.
func (d *drv) histories(n int) {
	c := d.c
	for k := 0; k < n; k++ {
		mode := histModes[k%len(histModes)]
		l := 2 + c.Intn(9)
		var seq [][]byte
		if mode == "repeat" {
			x, y := d.randAddr(), d.randAddr()
			seq = [][]byte{x, x, y, y, x}
		} else {
			for i := 0; i < l; i++ {
				a := d.randAddr()
				if i > 0 && c.Intn(5) == 0 { // differs from the previous one in one bit only
					a = append([]byte{}, seq[i-1]...)
					a[c.Intn(20)] ^= byte(1 << uint(c.Intn(8)))
				}
				if i > 1 && c.Intn(6) == 0 { // an earlier value comes back
					a = seq[c.Intn(i)]
				}
				seq = append(seq, a)
			}
		}
		d.history(seq, mode)
		// interleave: the fresh-variable path on an address of the sequence just run
		d.probeAddr(seq[c.Intn(len(seq))], "fresh-after-history", false)
	}
}

// ---- the long-lived object of the whole run ----

func (d *drv) longLived(a []byte) {
	if d.long == nil {
		d.long = new(common.Address)
	}
	d.longSeen++
	// keep the report replayable and small: first value ever held, the previous few, the current
	if len(d.longHist) >= 6 {
		d.longHist = append(d.longHist[:1], d.longHist[len(d.longHist)-4:]...)
	}
	d.longHist = append(d.longHist, append([]byte{}, a...))
	copy(d.long[:], a)
	d.checkEnc(d.long, d.longHist, len(d.longHist)-1, "long-lived")
}

// ---- decode histories ----

// checkDec: s decoded into the long-lived result variable r; compared with the spec and with the
// result of the same call into a fresh variable.
func (d *drv) decodeReuse(strs []string, mode string) {
	c := d.c
	var r common.Address // one result variable for the whole sequence
	var err error
	for i, s := range strs {
		var l []string
		for _, t := range strs[:i+1] {
			l = append(l, hx.Hex([]byte(t)))
		}
		in := input{Kind: "dhist", L: l, Note: mode}
		c.Eval()
		pn, msg := hx.Recover(func() { r, err = common.AddressFromBase58(s) })
		if pn {
			c.Fail("b58:panic", "AddressFromBase58 panicked", in, msg, "an address or an error")
			return
		}
		c.Count("dhist:" + mode)
		want, ok := specDecode(s)
		switch {
		case ok && (err != nil || !bytes.Equal(r[:], want)):
			c.Fail("b58:decode-history-dependent", "a canonical encoding is rejected or decoded to another address after earlier decodes", in,
				map[string]interface{}{"string": s, "err": fmt.Sprint(err), "decoded": hx.Hex(r[:])}, hx.Hex(want))
			return
		case !ok && err == nil:
			c.Fail("b58:accepts-noncanonical", "a string that is not the canonical encoding of any address is accepted (after earlier decodes)", in,
				map[string]interface{}{"string": s, "decoded": hx.Hex(r[:])}, "error")
			return
		case !ok && r != common.ADDRESS_EMPTY:
			c.Fail("b58:error-with-value", "an error is returned together with a non-empty (stale) address", in, hx.Hex(r[:]), "ADDRESS_EMPTY")
			return
		}
		if i > 0 {
			c.Nontrivial("dhist" + strings.Join(l, ":"))
		}
	}
}

func (d *drv) hexDecodeReuse(strs []string) {
	c := d.c
	var r common.Address
	var err error
	for i, s := range strs {
		var l []string
		for _, t := range strs[:i+1] {
			l = append(l, hx.Hex([]byte(t)))
		}
		in := input{Kind: "hhist", L: l}
		c.Eval()
		pn, msg := hx.Recover(func() { r, err = common.AddressFromHexString(s) })
		if pn {
			c.Fail("hex:panic", "AddressFromHexString panicked", in, msg, "an address or an error")
			return
		}
		c.Count("hhist")
		want, ok := specHexDecode(s)
		if ok != (err == nil) || (ok && !bytes.Equal(r[:], want)) || (!ok && r != common.ADDRESS_EMPTY) {
			c.Fail("hex:decode-history-dependent", "AddressFromHexString differs from the pure hex decoding after earlier decodes", in,
				map[string]interface{}{"string": s, "err": fmt.Sprint(err), "decoded": hx.Hex(r[:])}, map[string]interface{}{"ok": ok, "addr": hx.Hex(want)})
			return
		}
	}
}

func (d *drv) decodeHistories(n int) {
	c := d.c
	for k := 0; k < n; k++ {
		var strs, hexs []string
		l := 3 + c.Intn(8)
		for i := 0; i < l; i++ {
			a := d.randAddr()
			s := specEncode(a)
			hs := specHex(a)
			switch c.Intn(6) {
			case 0: // corrupted
				b := []byte(s)
				j := 1 + c.Intn(len(b)-1)
				b[j] = alphabet[(strings.IndexByte(alphabet, b[j])+1+c.Intn(57))%58]
				s = string(b)
				hs = hs[:39]
			case 1: // an extra leading '1' / an upper-case hex string
				s = "1" + s
				hs = strings.ToUpper(hs)
			case 2: // the previous string again
				if i > 0 {
					s, hs = strs[i-1], hexs[i-1]
				}
			case 3:
				s, hs = "", "zz"
			}
			strs = append(strs, s)
			hexs = append(hexs, hs)
		}
		d.decodeReuse(strs, "decode-reuse")
		d.hexDecodeReuse(hexs)
	}
}
