// Package c22: textual address encodings of common/address.go (base58 with version byte and
// double-SHA-256 checksum, reversed hex).
//
// Correspondence: Address.ToBase58 / AddressFromBase58 / ToHexString / AddressFromHexString /
// AddressParseFromBytes, base58.BitcoinEncoding.Encode/Decode and the math/big conversions, on
// random and boundary addresses, single-character edits of valid strings, structured corruptions
// (other version byte, other checksum, other payload length, extra leading '1's), random strings
// over the alphabet and outside it, and strings around the 2048-character guard.
//
// Oracle (on the implementation only): every address decodes from its own encoding; whatever
// AddressFromBase58 accepts re-encodes to exactly the accepted string; no edit of enc(a) decodes
// to a; encodings have 34 characters and start with 'A'; hex round trip and canonicity; no panic.
package c22

import (
	"bytes"
	"crypto/sha256"
	"encoding/hex"
	"encoding/json"
	"fmt"
	"math/big"
	"strings"

	base58 "github.com/itchyny/base58-go"
	"github.com/ontio/ontology/common"

	"verif/harness/hx"
)

func init() { hx.Register("C22", Run) }

const alphabet = "123456789ABCDEFGHJKLMNPQRSTUVWXYZabcdefghijkmnopqrstuvwxyz"

// input is the replayable description of one probe.
type input struct {
	Kind string   `json:"kind"` // b58 | addr | hex | hexaddr | parse | enc | dec | big | bigstr | hist | dhist | hhist | conc
	S    string   `json:"s"`    // hex of the bytes of the string / address / buffer (hist: concatenated 20-byte addresses)
	L    []string `json:"l,omitempty"` // dhist/hhist: the sequence of strings (hex of their bytes)
	Note string   `json:"note,omitempty"`
}

type drv struct {
	c       *hx.Ctx
	caseCap map[string]int // remaining Coq cases per kind (the oracle always runs)

	// object history (history.go): one Address object and one result variable reused across all
	// probes of a run
	long     *common.Address
	longHist [][]byte
	longSeen int
	res      common.Address
	nfail    int // failures reported by the concurrent rounds
}

func (d *drv) wantCase(kind string) bool {
	if n, ok := d.caseCap[kind]; ok {
		if n <= 0 {
			return false
		}
		d.caseCap[kind] = n - 1
	}
	return true
}

// ---------- independent helpers (do not use the code under test) ----------

// refEncode is a textbook base-58 conversion of a byte string read as a big-endian number, with no
// special treatment of leading zero bytes (the scheme of address.go drops them as well).
func refEncode(payload []byte) string {
	n := new(big.Int).SetBytes(payload)
	if n.Sign() == 0 {
		return ""
	}
	var out []byte
	r := big.NewInt(58)
	m := new(big.Int)
	for n.Sign() > 0 {
		n.DivMod(n, r, m)
		out = append(out, alphabet[m.Int64()])
	}
	for i, j := 0, len(out)-1; i < j; i, j = i+1, j-1 {
		out[i], out[j] = out[j], out[i]
	}
	return string(out)
}

// refDecode: value of s in base 58 as big-endian bytes; ok=false if a character is foreign.
func refDecode(s string) ([]byte, bool) {
	n := new(big.Int)
	r := big.NewInt(58)
	for i := 0; i < len(s); i++ {
		k := strings.IndexByte(alphabet, s[i])
		if k < 0 {
			return nil, false
		}
		n.Mul(n, r)
		n.Add(n, big.NewInt(int64(k)))
	}
	return n.Bytes(), true
}

func sum(b []byte) []byte { h := sha256.Sum256(b); return h[:] }

func refPayload(ver byte, a []byte) []byte {
	data := append([]byte{ver}, a...)
	chk := sum(sum(data))
	return append(data, chk[:4]...)
}

// table of the hash values a decode of s (or an encode of a) can ask for: H(23::a) and H(H(23::a)).
func tableFor(addrs ...[]byte) string {
	var items []string
	seen := map[string]bool{}
	for _, a := range addrs {
		data := append([]byte{23}, a...)
		if seen[string(data)] {
			continue
		}
		seen[string(data)] = true
		h1 := sum(data)
		h2 := sum(h1)
		items = append(items, fmt.Sprintf("(%s, %s)", hx.CoqBytes(data), hx.CoqBytes(h1)),
			fmt.Sprintf("(%s, %s)", hx.CoqBytes(h1), hx.CoqBytes(h2)))
	}
	return hx.CoqList(items)
}

// candidate address a decode of s would re-encode, computed independently
func candidate(s string) [][]byte {
	buf, ok := refDecode(s)
	if !ok || len(buf) < 2 {
		return nil
	}
	hi := 21
	if len(buf) < hi {
		hi = len(buf)
	}
	return [][]byte{append([]byte{}, buf[1:hi]...)}
}

func errEnum(err error) string {
	m := err.Error()
	switch {
	case m == "invalid address":
		return "AErr EInvalid"
	case strings.HasPrefix(m, "invalid character"):
		return "AErr EBadChar"
	case m == "wrong encoded address":
		return "AErr EWrong"
	case strings.Contains(m, "AddressParseFromBytes"):
		return "AErr EParseLen"
	case strings.Contains(m, "decode encoded verify failed"):
		return "AErr EVerify"
	}
	return "AUnknownErr"
}

// ---------- probes ----------

// probeAddr: encode, decode back, shape (oracle + cases).
func (d *drv) probeAddr(a []byte, note string, sha bool) string {
	c := d.c
	in := input{Kind: "addr", S: hx.Hex(a), Note: note}
	var addr common.Address
	copy(addr[:], a)
	var enc string
	var back common.Address
	var err error
	c.Eval()
	p, msg := hx.Recover(func() {
		enc = addr.ToBase58()
		back, err = common.AddressFromBase58(enc)
	})
	if p {
		c.Fail("b58:panic", "ToBase58/AddressFromBase58 panicked on an address", in, msg, "no panic")
		return ""
	}
	c.Count("addr:" + note)
	if err != nil || back != addr {
		c.Fail("b58:roundtrip", "an address does not decode from its own base58 encoding", in,
			map[string]interface{}{"encoded": enc, "err": fmt.Sprint(err), "decoded": hx.Hex(back[:])}, "AddressFromBase58(a.ToBase58()) == a")
	}
	if len(enc) != 34 || enc[0] != 'A' {
		c.Fail("b58:shape", "an encoded address is not 34 characters starting with 'A'", in, enc, "34 characters, first 'A'")
	}
	if want := refEncode(refPayload(23, a)); enc != want {
		c.Fail("b58:encoding", "ToBase58 is not base58(23 || address || sha256d[0:4])", in, enc, want)
	}
	d.longLived(a) // the same address through the run's long-lived Address object
	c.Nontrivial("addr" + in.S)
	c.Sample(map[string]interface{}{"kind": "addr:" + note, "addr": in.S, "base58": enc})
	if sha {
		if d.wantCase("sha") {
			c.Case(fmt.Sprintf("CToSha %s %s", hx.CoqBytes(a), hx.CoqBytes([]byte(enc))), in)
		}
	} else if d.wantCase("to") {
		c.Case(fmt.Sprintf("CTo %s %s %s", hx.CoqBytes(a), tableFor(a), hx.CoqBytes([]byte(enc))), in)
	}
	return enc
}

// probeStr: AddressFromBase58 on an arbitrary string. orig (may be nil) is the address whose
// encoding s was derived from by a corruption: s must then not decode to orig.
func (d *drv) probeStr(s string, kind string, orig []byte, sha bool) {
	c := d.c
	in := input{Kind: "b58", S: hx.Hex([]byte(s)), Note: kind}
	var got common.Address
	var err error
	c.Eval()
	p, msg := hx.Recover(func() { got, err = common.AddressFromBase58(s) })
	if p {
		c.Fail("b58:panic", "AddressFromBase58 panicked", in, msg, "an address or an error")
		return
	}
	c.Count("str:" + kind)
	d.specAndReuse(s, in, got, err)
	var res string
	if err == nil {
		c.Count("str-result:accepted")
		res = "AOk " + hx.CoqBytes(got[:])
		// canonical: what is accepted is exactly the encoding of the result
		var re string
		hx.Recover(func() { re = got.ToBase58() })
		if re != s || refEncode(refPayload(23, got[:])) != s {
			c.Fail("b58:accepts-noncanonical", "a string that is not the canonical encoding of any address is accepted", in,
				map[string]interface{}{"decoded": hx.Hex(got[:]), "canonical": re}, "error")
		}
		if orig != nil && bytes.Equal(orig, got[:]) {
			c.Fail("b58:accepts-corrupted", "a corrupted encoding decodes to the original address", in,
				map[string]interface{}{"decoded": hx.Hex(got[:])}, "error")
		}
	} else {
		res = errEnum(err)
		c.Count("str-result:" + strings.TrimPrefix(res, "AErr "))
		if got != common.ADDRESS_EMPTY {
			c.Fail("b58:error-with-value", "an error is returned together with a non-empty address", in, hx.Hex(got[:]), "ADDRESS_EMPTY")
		}
	}
	if len(s) > 0 && len(s) < 60 {
		c.Nontrivial("str" + in.S)
	}
	if len(s) < 60 {
		c.Sample(map[string]interface{}{"kind": "str:" + kind, "string": s, "result": res})
	}
	if sha {
		if d.wantCase("sha") {
			c.Case(fmt.Sprintf("CFromSha %s (%s)", hx.CoqBytes([]byte(s)), res), in)
		}
		return
	}
	if d.wantCase(kind) {
		c.Case(fmt.Sprintf("CFrom %s %s (%s)", hx.CoqBytes([]byte(s)), tableFor(candidate(s)...), res), in)
	}
}

func hexErrEnum(err error) string {
	if err == hex.ErrLength {
		return "HErr HErrLength"
	}
	if e, ok := err.(hex.InvalidByteError); ok {
		return fmt.Sprintf("HErr (HErrChar %d)", byte(e))
	}
	if strings.Contains(err.Error(), "AddressParseFromBytes") {
		return "HErr HParseLen"
	}
	return "HUnknownErr"
}

func (d *drv) probeHexAddr(a []byte) string {
	c := d.c
	in := input{Kind: "hexaddr", S: hx.Hex(a)}
	var addr, back common.Address
	copy(addr[:], a)
	var hs string
	var err error
	c.Eval()
	p, msg := hx.Recover(func() {
		hs = addr.ToHexString()
		back, err = common.AddressFromHexString(hs)
	})
	if p {
		c.Fail("hex:panic", "ToHexString/AddressFromHexString panicked", in, msg, "no panic")
		return ""
	}
	c.Count("hexaddr")
	if err != nil || back != addr {
		c.Fail("hex:roundtrip", "an address does not decode from its own hex string", in,
			map[string]interface{}{"hex": hs, "err": fmt.Sprint(err), "decoded": hx.Hex(back[:])}, "AddressFromHexString(a.ToHexString()) == a")
	}
	rev := make([]byte, len(a))
	for i := range a {
		rev[len(a)-1-i] = a[i]
	}
	if hs != hex.EncodeToString(rev) {
		c.Fail("hex:encoding", "ToHexString is not the lower-case hex of the reversed address", in, hs, hex.EncodeToString(rev))
	}
	if d.wantCase("hexto") {
		c.Case(fmt.Sprintf("CHexTo %s %s", hx.CoqBytes(a), hx.CoqBytes([]byte(hs))), in)
	}
	return hs
}

func (d *drv) probeHexStr(s string, kind string) {
	c := d.c
	in := input{Kind: "hex", S: hx.Hex([]byte(s)), Note: kind}
	var got common.Address
	var err error
	c.Eval()
	p, msg := hx.Recover(func() { got, err = common.AddressFromHexString(s) })
	if p {
		c.Fail("hex:panic", "AddressFromHexString panicked", in, msg, "an address or an error")
		return
	}
	c.Count("hexstr:" + kind)
	var res string
	if err == nil {
		res = "HOk " + hx.CoqBytes(got[:])
		if got.ToHexString() != strings.ToLower(s) || len(s) != 40 {
			c.Fail("hex:accepts-noncanonical", "a string that is not the 40-digit hex of the address is accepted", in,
				map[string]interface{}{"decoded": hx.Hex(got[:]), "canonical": got.ToHexString()}, "error")
		}
	} else {
		res = hexErrEnum(err)
		if got != common.ADDRESS_EMPTY {
			c.Fail("hex:error-with-value", "an error is returned together with a non-empty address", in, hx.Hex(got[:]), "ADDRESS_EMPTY")
		}
	}
	c.Count("hexstr-result:" + strings.Fields(strings.TrimPrefix(strings.TrimPrefix(res, "HErr "), "("))[0])
	c.Nontrivial("hex" + in.S)
	if d.wantCase("hexfrom") {
		c.Case(fmt.Sprintf("CHexFrom %s (%s)", hx.CoqBytes([]byte(s)), res), in)
	}
}

func (d *drv) probeParse(f []byte) {
	c := d.c
	in := input{Kind: "parse", S: hx.Hex(f)}
	c.Eval()
	a, err := common.AddressParseFromBytes(f)
	c.Count(fmt.Sprintf("parse:len=%d", len(f)))
	res := ""
	if err == nil {
		res = "AOk " + hx.CoqBytes(a[:])
		if len(f) != common.ADDR_LEN || !bytes.Equal(a[:], f) {
			c.Fail("parse:wrong", "AddressParseFromBytes accepted a buffer that is not the address", in, hx.Hex(a[:]), "error unless 20 bytes")
		}
	} else {
		res = errEnum(err)
		if len(f) == common.ADDR_LEN {
			c.Fail("parse:rejects", "AddressParseFromBytes rejects a 20-byte buffer", in, err.Error(), "the address")
		}
	}
	c.Case(fmt.Sprintf("CParse %s (%s)", hx.CoqBytes(f), res), in)
}

func optBytes(b []byte, err error) string {
	if err != nil {
		return "None"
	}
	return "(Some " + hx.CoqBytes(b) + ")"
}

// the base58 package and math/big directly (model parts below the address functions)
func (d *drv) probeLib(kind string, s []byte) {
	c := d.c
	in := input{Kind: kind, S: hx.Hex(s)}
	c.Eval()
	c.Count("lib:" + kind)
	switch kind {
	case "enc":
		var out []byte
		var err error
		if p, msg := hx.Recover(func() { out, err = base58.BitcoinEncoding.Encode(s) }); p {
			c.Fail("b58:panic", "base58 Encode panicked", in, msg, nil)
			return
		}
		c.Case(fmt.Sprintf("CB58Enc %s %s", hx.CoqBytes(s), optBytes(out, err)), in)
	case "dec":
		var out []byte
		var err error
		if p, msg := hx.Recover(func() { out, err = base58.BitcoinEncoding.Decode(s) }); p {
			c.Fail("b58:panic", "base58 Decode panicked", in, msg, nil)
			return
		}
		c.Case(fmt.Sprintf("CB58Dec %s %s", hx.CoqBytes(s), optBytes(out, err)), in)
	case "big":
		x := new(big.Int).SetBytes(s)
		c.Case(fmt.Sprintf("CBig %s %s %s", hx.CoqBytes(s), hx.CoqBytes([]byte(x.String())), hx.CoqBytes(x.Bytes())), in)
	case "bigstr":
		x, ok := new(big.Int).SetString(string(s), 10)
		r := "None"
		if ok {
			r = "(Some " + hx.CoqBytes([]byte(x.String())) + ")"
		}
		c.Case(fmt.Sprintf("CBigStr %s %s", hx.CoqBytes(s), r), in)
	}
}

// ---------- generators ----------

func (d *drv) randAddr() []byte {
	c := d.c
	a := c.Bytes(20)
	switch c.Intn(8) {
	case 0: // leading zero bytes
		for i := 0; i < 1+c.Intn(19); i++ {
			a[i] = 0
		}
	case 1: // trailing zero bytes
		for i := 0; i < 1+c.Intn(19); i++ {
			a[19-i] = 0
		}
	case 2:
		for i := range a {
			a[i] = 0xff
		}
		a[c.Intn(20)] = byte(c.Intn(256))
	}
	return a
}

func (d *drv) randAlpha(n int) string {
	b := make([]byte, n)
	for i := range b {
		b[i] = alphabet[d.c.Intn(58)]
	}
	return string(b)
}

var foreign = []byte{'0', 'O', 'I', 'l', ' ', '+', '-', '_', '/', 0, 0x7f, 0x80, 0xff, '\n'}

// edits: every single-character substitution, deletion and insertion of enc. The oracle sees
// all of them; a random subset becomes Coq cases.
func (d *drv) edits(enc string, a []byte, perKind int) {
	c := d.c
	var subs, dels, inss []string
	for i := 0; i < len(enc); i++ {
		for k := 0; k < 58; k++ {
			if alphabet[k] != enc[i] {
				subs = append(subs, enc[:i]+string(alphabet[k])+enc[i+1:])
			}
		}
		for _, f := range foreign {
			subs = append(subs, enc[:i]+string([]byte{f})+enc[i+1:])
		}
		dels = append(dels, enc[:i]+enc[i+1:])
	}
	for i := 0; i <= len(enc); i++ {
		for k := 0; k < 58; k++ {
			inss = append(inss, enc[:i]+string(alphabet[k])+enc[i:])
		}
	}
	run := func(kind string, l []string, n int) {
		pick := map[int]bool{}
		for len(pick) < n && len(pick) < len(l) {
			pick[c.Intn(len(l))] = true
		}
		for i, s := range l {
			if s == enc {
				continue
			}
			if pick[i] {
				d.probeStr(s, kind, a, false)
			} else {
				d.oracleOnly(s, kind, a)
			}
		}
	}
	run("edit-subst", subs, perKind)
	run("edit-delete", dels, perKind/2)
	run("edit-insert", inss, perKind/2)
	// transposition of neighbours
	for i := 0; i+1 < len(enc); i++ {
		if enc[i] != enc[i+1] {
			b := []byte(enc)
			b[i], b[i+1] = b[i+1], b[i]
			d.oracleOnly(string(b), "edit-swap", a)
		}
	}
}

// oracleOnly: the property on the implementation, no Coq case.
func (d *drv) oracleOnly(s, kind string, orig []byte) {
	c := d.c
	c.Eval()
	var got common.Address
	var err error
	p, msg := hx.Recover(func() { got, err = common.AddressFromBase58(s) })
	in := input{Kind: "b58", S: hx.Hex([]byte(s)), Note: kind}
	if p {
		c.Fail("b58:panic", "AddressFromBase58 panicked", in, msg, "an address or an error")
		return
	}
	c.Count("oracle-only:" + kind)
	d.specAndReuse(s, in, got, err)
	if err != nil {
		return
	}
	if refEncode(refPayload(23, got[:])) != s {
		c.Fail("b58:accepts-noncanonical", "a string that is not the canonical encoding of any address is accepted", in,
			map[string]interface{}{"decoded": hx.Hex(got[:])}, "error")
	}
	if orig != nil && bytes.Equal(orig, got[:]) {
		c.Fail("b58:accepts-corrupted", "a corrupted encoding decodes to the original address", in,
			map[string]interface{}{"decoded": hx.Hex(got[:])}, "error")
	}
}

// structured corruptions built with the independent encoder
func (d *drv) structured(a []byte) {
	c := d.c
	good := refPayload(23, a)
	// other version bytes, checksum correct for that version
	for _, v := range []byte{0, 1, 22, 24, 255, byte(c.Intn(256))} {
		if v != 23 {
			d.probeStr(refEncode(refPayload(v, a)), "wrong-version", a, false)
		}
	}
	// checksum computed with the right version but the version byte replaced afterwards
	p := append([]byte{}, good...)
	p[0] = 24
	d.probeStr(refEncode(p), "wrong-version", a, false)
	// wrong checksum: each checksum byte changed, random checksum, single sha256 instead of double
	for i := 21; i < 25; i++ {
		p = append([]byte{}, good...)
		p[i] ^= byte(1 << uint(c.Intn(8)))
		d.probeStr(refEncode(p), "wrong-checksum", a, false)
	}
	p = append(append([]byte{23}, a...), c.Bytes(4)...)
	d.probeStr(refEncode(p), "wrong-checksum", a, false)
	p = append(append([]byte{23}, a...), sum(append([]byte{23}, a...))[:4]...)
	d.probeStr(refEncode(p), "wrong-checksum", a, false)
	// address byte changed, checksum kept
	p = append([]byte{}, good...)
	p[1+c.Intn(20)] ^= byte(1 << uint(c.Intn(8)))
	d.probeStr(refEncode(p), "wrong-checksum", a, false)
	// other payload lengths: 19- and 21-byte "addresses", checksum dropped / extended
	d.probeStr(refEncode(refPayload(23, a[:19])), "wrong-length", a, false)
	d.probeStr(refEncode(refPayload(23, append(append([]byte{}, a...), byte(c.Intn(256))))), "wrong-length", a, false)
	d.probeStr(refEncode(good[:21]), "wrong-length", a, false)
	d.probeStr(refEncode(append(append([]byte{}, good...), 0)), "wrong-length", a, false)
	// extra leading '1' characters (the value is unchanged; only the re-encode comparison rejects)
	enc := refEncode(good)
	for _, k := range []int{1, 2, 5, 1 + c.Intn(40)} {
		d.probeStr(strings.Repeat("1", k)+enc, "leading-ones", a, false)
	}
	// surrounding junk
	d.probeStr(enc+" ", "junk", a, false)
	d.probeStr(" "+enc, "junk", a, false)
	d.probeStr(enc+"\n", "junk", a, false)
	d.probeStr(enc+enc, "junk", a, false)
	d.probeStr(strings.ToLower(enc), "junk", a, false)
	d.probeStr(strings.ToUpper(enc), "junk", a, false)
}

func (d *drv) randomStrings(n int) {
	c := d.c
	for i := 0; i < n; i++ {
		switch c.Intn(8) {
		case 0: // any length over the alphabet
			d.probeStr(d.randAlpha(c.Intn(45)), "random-alphabet", nil, false)
		case 1, 2: // right length, right first character: mostly version 23, fails only at the comparison
			d.probeStr("A"+d.randAlpha(33), "random-A34", nil, false)
		case 3: // 33..35 characters
			d.probeStr(d.randAlpha(33+c.Intn(3)), "random-alphabet", nil, false)
		case 4: // one foreign character in an alphabet string
			b := []byte(d.randAlpha(1 + c.Intn(40)))
			b[c.Intn(len(b))] = foreign[c.Intn(len(foreign))]
			d.probeStr(string(b), "random-foreign", nil, false)
		case 5: // arbitrary bytes
			d.probeStr(string(c.Bytes(c.Intn(40))), "random-bytes", nil, false)
		case 6: // a 25-byte number with version 23 and random rest
			d.probeStr(refEncode(append([]byte{23}, c.Bytes(24)...)), "random-v23", nil, false)
		default: // leading '1's then alphabet
			d.probeStr(strings.Repeat("1", 1+c.Intn(4))+d.randAlpha(c.Intn(36)), "random-ones", nil, false)
		}
	}
}

func (d *drv) boundaries(a []byte) {
	enc := refEncode(refPayload(23, a))
	d.probeStr("", "empty", nil, false)
	for _, s := range []string{"1", "11", "111", "1111111111111111111111111111111111", "2", "12", "z", "A"} {
		d.probeStr(s, "tiny", nil, false)
	}
	// around the 2048 guard: valid encoding behind leading '1's, and plain alphabet strings
	for _, n := range []int{2047, 2048, 2049, 3000} {
		d.probeStr(strings.Repeat("1", n-len(enc))+enc, fmt.Sprintf("len-%d", n), a, false)
	}
	// a full-length string of large digits is a 12000-bit number: ~30 s in the Coq model (binary
	// division), so in the quick tier it goes through the oracle only and the model gets
	// medium-length ones
	if d.c.Quick() {
		d.oracleOnly(d.randAlpha(2048), "len-2048", nil)
		d.oracleOnly(strings.Repeat("z", 2048), "len-2048", nil)
	} else {
		d.probeStr(d.randAlpha(2048), "len-2048", nil, false)
		d.oracleOnly(strings.Repeat("z", 2048), "len-2048", nil)
	}
	d.probeStr(d.randAlpha(2049), "len-2049", nil, false)
	d.probeStr(d.randAlpha(200), "len-200", nil, false)
	d.probeStr(strings.Repeat("z", 400), "len-400", nil, false)
	d.probeStr(strings.Repeat("1", 2048), "len-2048", nil, false)
	d.probeStr(strings.Repeat("1", 2049), "len-2049", nil, false)
}

func (d *drv) hexStrings(a []byte, hs string, n int) {
	c := d.c
	d.probeHexStr(strings.ToUpper(hs), "upper")
	mixed := []byte(hs)
	for i := range mixed {
		if c.Intn(2) == 0 {
			mixed[i] = strings.ToUpper(string(mixed[i]))[0]
		}
	}
	d.probeHexStr(string(mixed), "mixed-case")
	d.probeHexStr(hs[:39], "odd")
	d.probeHexStr(hs[:38], "short")
	d.probeHexStr(hs+"00", "long")
	d.probeHexStr("0x"+hs, "prefix")
	d.probeHexStr("", "empty")
	d.probeHexStr(hx.Hex(a), "unreversed")
	for i := 0; i < n; i++ {
		b := []byte(hs)
		switch c.Intn(4) {
		case 0: // a non-hex character somewhere
			b[c.Intn(len(b))] = "gGzZ xX-_:\x00\x80\xff/@`"[c.Intn(16)]
			d.probeHexStr(string(b), "bad-char")
		case 1: // odd length with a bad last character (reported as bad character, not as length)
			b = append(b[:1+2*c.Intn(19)], 'g')
			d.probeHexStr(string(b), "odd-bad-last")
		case 2:
			d.probeHexStr(hx.Hex(c.Bytes(c.Intn(24))), "random-hex")
		default:
			d.probeHexStr(string(c.Bytes(c.Intn(44))), "random-bytes")
		}
	}
}

func (d *drv) libCases(n int) {
	c := d.c
	digits := func(k int) []byte {
		b := make([]byte, k)
		for i := range b {
			b[i] = byte('0' + c.Intn(10))
		}
		return b
	}
	for _, s := range []string{"", "0", "00", "000", "1", "57", "58", "59", "3364", "0058", "9", "12a", "a", " 1", "1 ", "1_0", "0x10", "१"} {
		d.probeLib("enc", []byte(s))
		d.probeLib("bigstr", []byte(s))
	}
	for _, s := range []string{"", "1", "11", "111", "2", "12", "21", "112", "z", "1z", "0", "O", "1O", "I1", "l", "zzzzzzzzzzz"} {
		d.probeLib("dec", []byte(s))
	}
	for i := 0; i < n; i++ {
		s := digits(1 + c.Intn(70))
		for j, z := 0, c.Intn(4); j < z && j < len(s); j++ {
			s[j] = '0'
		}
		if c.Intn(10) == 0 {
			s[c.Intn(len(s))] = "aA_ .:/"[c.Intn(7)]
		}
		d.probeLib("enc", s)
		d.probeLib("bigstr", s)
		t := strings.Repeat("1", c.Intn(4)) + d.randAlpha(c.Intn(40))
		if c.Intn(10) == 0 && len(t) > 0 {
			b := []byte(t)
			b[c.Intn(len(b))] = foreign[c.Intn(len(foreign))]
			t = string(b)
		}
		d.probeLib("dec", []byte(t))
		b := c.Bytes(c.Intn(30))
		for j, z := 0, c.Intn(4); j < z && j < len(b); j++ {
			b[j] = 0
		}
		d.probeLib("big", b)
	}
}

func (d *drv) replayOne(in input) {
	b := hx.UnHex(in.S)
	switch in.Kind {
	case "addr":
		if len(b) == 20 {
			d.probeAddr(b, "replay", false)
			d.probeAddr(b, "replay", true)
		}
	case "b58":
		d.probeStr(string(b), "replay", nil, false)
	case "hexaddr":
		if len(b) == 20 {
			d.probeHexAddr(b)
		}
	case "hex":
		d.probeHexStr(string(b), "replay")
	case "parse":
		d.probeParse(b)
	case "enc", "dec", "big", "bigstr":
		d.probeLib(in.Kind, b)
	case "hist":
		d.history(splitAddrs(b), in.Note)
	case "conc":
		d.replayConc(splitAddrs(b))
	case "dhist", "hhist":
		var strs []string
		for _, h := range in.L {
			strs = append(strs, string(hx.UnHex(h)))
		}
		if in.Kind == "dhist" {
			d.decodeReuse(strs, "decode-reuse")
		} else {
			d.hexDecodeReuse(strs)
		}
	}
}

func Run(c *hx.Ctx) {
	c.CoqModule("Corr.C22")
	d := &drv{c: c, caseCap: map[string]int{}}
	var in input
	if c.ReplayInput(&in) {
		d.replayOne(in)
		return
	}
	for _, raw := range c.CorpusInputs() {
		var ci input
		if json.Unmarshal(raw, &ci) == nil {
			d.replayOne(ci)
		}
	}
	d.caseCap["sha"] = c.N(8, 40)
	d.caseCap["hist"] = c.N(40, 200)

	// fixed and boundary addresses
	fixed := [][]byte{make([]byte, 20), bytes.Repeat([]byte{0xff}, 20)}
	for i := 1; i <= 9; i++ { // native contract addresses 00..01 .. 00..09
		a := make([]byte, 20)
		a[19] = byte(i)
		fixed = append(fixed, a)
	}
	for _, a := range fixed {
		enc := d.probeAddr(a, "fixed", false)
		if enc != "" {
			d.probeStr(enc, "valid", nil, false)
		}
		d.probeHexAddr(a)
	}
	// object histories: reused Address objects / result variables, interleaved with fresh ones
	d.histories(c.N(60, 600))
	d.decodeHistories(c.N(20, 200))
	// concurrent use: 8 goroutines on their own addresses, every result against the pure spec
	d.concurrent(8, c.N(800, 4000))
	// the real SHA-256 of Lib/Sha256.v on a few addresses and strings
	for i := 0; i < c.N(2, 10); i++ {
		a := d.randAddr()
		if enc := d.probeAddr(a, "sha", true); enc != "" {
			d.probeStr(enc, "valid-sha", nil, true)
			b := []byte(enc)
			j := 2 + c.Intn(len(b)-2)
			b[j] = alphabet[(strings.IndexByte(alphabet, b[j])+1+c.Intn(57))%58]
			d.probeStr(string(b), "edit-sha", a, true)
		}
	}
	// random addresses: encode, decode, hex
	nAddr := c.N(120, 1500)
	var last []byte
	var lastHex string
	for i := 0; i < nAddr; i++ {
		a := d.randAddr()
		enc := d.probeAddr(a, "random", false)
		if enc != "" {
			d.probeStr(enc, "valid", nil, false)
		}
		lastHex = d.probeHexAddr(a)
		if lastHex != "" {
			d.probeHexStr(lastHex, "valid")
		}
		last = a
	}
	// every single-character edit of some valid strings
	for i := 0; i < c.N(6, 40); i++ {
		a := d.randAddr()
		if i == 0 {
			a = fixed[2]
		}
		var addr common.Address
		copy(addr[:], a)
		enc := ""
		hx.Recover(func() { enc = addr.ToBase58() })
		if enc == "" {
			continue
		}
		d.edits(enc, a, c.N(24, 120))
		d.structured(a)
	}
	d.randomStrings(c.N(200, 3000))
	d.boundaries(last)
	if lastHex != "" {
		d.hexStrings(last, lastHex, c.N(60, 600))
	}
	for _, n := range []int{0, 1, 19, 20, 21, 25, 32} {
		d.probeParse(c.Bytes(n))
	}
	d.libCases(c.N(60, 600))
}

// specAndReuse: the decoder against the pure spec (both directions), and the same call into the
// run's long-lived result variable (must equal the fresh call: no stale or shared state).
func (d *drv) specAndReuse(s string, in input, got common.Address, err error) {
	c := d.c
	want, ok := specDecode(s)
	if ok && (err != nil || !bytes.Equal(got[:], want)) {
		c.Fail("b58:rejects-canonical", "the canonical encoding of an address is rejected or decoded to another address", in,
			map[string]interface{}{"err": fmt.Sprint(err), "decoded": hx.Hex(got[:])}, hx.Hex(want))
	}
	var err2 error
	if p, _ := hx.Recover(func() { d.res, err2 = common.AddressFromBase58(s) }); p {
		return
	}
	if (err == nil) != (err2 == nil) || d.res != got {
		c.Fail("b58:decode-history-dependent", "decoding the same string twice (fresh and reused result variable) gives different results", in,
			map[string]interface{}{"first": hx.Hex(got[:]), "first_err": fmt.Sprint(err), "second": hx.Hex(d.res[:]), "second_err": fmt.Sprint(err2)}, "equal results")
	}
}
