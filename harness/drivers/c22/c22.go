package c22

import "verif/harness/hx"

func init() { hx.Register("C22", Run) }

func Run(c *hx.Ctx) { c.CoqModule("Corr.C22") }
