package c22

// Bounded concurrent variant of the oracle. The property is about values (20 bytes, strings): a
// call's result must be the pure spec function of its argument also when other goroutines run the
// codec on other addresses at the same time (parallel RPC handlers do). G goroutines each own a
// list of addresses; they are released together and each encodes (ToBase58, ToHexString) and
// decodes (AddressFromBase58 / AddressFromHexString of the spec strings, plus one corrupted
// string) its own addresses only; results go to goroutine-local slices and are compared with
// specEncode / specHex / specDecode after the join. Three rounds: GOMAXPROCS = G; GOMAXPROCS = 1 (time-slice preemption
// only); GOMAXPROCS = 1 with runtime.Gosched() between calls. Each round is bounded by a call count and a deadline.
//
// Classes: b58:concurrent-wrong-encoding, b58:concurrent-valid-rejected,
// b58:concurrent-accepts-noncanonical, hex:concurrent-wrong-encoding, hex:concurrent-valid-rejected.
// The failing input names the address of the failing goroutine and, where the returned string is
// the encoding of (or decodes to) another address, that address; replay (kind "conc") re-runs both
// rounds with the goroutines alternating between exactly these addresses.

import (
	"bytes"
	"fmt"
	"runtime"
	"strings"
	"sync"
	"time"

	"github.com/ontio/ontology/common"

	"verif/harness/hx"
)

type concRes struct {
	a      []byte
	enc    string
	hexs   string
	dec    common.Address
	decErr error
	hdec   common.Address
	hErr   error
	bad    string // corrupted string
	badOk  bool   // ... was accepted
	badGot common.Address
	panic_ string
	want   string // specEncode(a), specHex(a): prepared once per address before the rounds
	wantHx string
}

type concPrep struct{ want, wantHex, bad string }

// prepare: the spec strings and one corrupted string per (goroutine, index)
func prepare(lists [][][]byte) [][]concPrep {
	memo := map[string][2]string{}
	preps := make([][]concPrep, len(lists))
	for g := range lists {
		for i, a := range lists[g] {
			m, ok := memo[string(a)]
			if !ok {
				m = [2]string{specEncode(a), specHex(a)}
				memo[string(a)] = m
			}
			b := []byte(m[0])
			j := 1 + (i+g)%(len(b)-1)
			b[j] = alphabet[(strings.IndexByte(alphabet, b[j])+1+i%57)%58]
			preps[g] = append(preps[g], concPrep{m[0], m[1], string(b)})
		}
	}
	return preps
}

// runConc: lists[g] is goroutine g's own addresses; returns per-goroutine results.
func runConc(lists [][][]byte, preps [][]concPrep, procs int, gosched bool, deadline time.Duration) [][]concRes {
	old := runtime.GOMAXPROCS(procs)
	defer runtime.GOMAXPROCS(old)
	out := make([][]concRes, len(lists))
	// spec strings are prepared before the release so that the goroutines spend their time in the codec
	start := make(chan struct{})
	var wg sync.WaitGroup
	stop := time.Now().Add(deadline)
	for g := range lists {
		wg.Add(1)
		go func(g int) {
			defer wg.Done()
			res := make([]concRes, 0, len(lists[g]))
			defer func() { out[g] = res }()
			<-start
			for i, a := range lists[g] {
				if i%16 == 0 && time.Now().After(stop) {
					return
				}
				r := concRes{a: a}
				var addr common.Address
				copy(addr[:], a)
				pr := preps[g][i%len(preps[g])]
				want, wantHex := pr.want, pr.wantHex
				r.bad, r.want, r.wantHx = pr.bad, want, wantHex
				yield := func() {
					if gosched {
						runtime.Gosched()
					}
				}
				func() {
					defer func() {
						if e := recover(); e != nil {
							r.panic_ = fmt.Sprint(e)
						}
					}()
					r.enc = addr.ToBase58()
					yield()
					r.dec, r.decErr = common.AddressFromBase58(want)
					yield()
					r.hexs = addr.ToHexString()
					yield()
					r.hdec, r.hErr = common.AddressFromHexString(wantHex)
					yield()
					var e error
					r.badGot, e = common.AddressFromBase58(r.bad)
					r.badOk = e == nil
					yield()
				}()
				res = append(res, r)
			}
		}(g)
	}
	close(start)
	wg.Wait()
	return out
}

func (d *drv) checkConc(lists [][][]byte, preps [][]concPrep, round string, procs int, gosched bool) {
	c := d.c
	t0 := time.Now()
	results := runConc(lists, preps, procs, gosched, 450*time.Millisecond)
	before := d.failTotal()
	calls := 0
	owner := map[string]int{}
	for g, l := range lists {
		for _, a := range l {
			owner[string(a)] = g
		}
	}
	note := fmt.Sprintf("%s G=%d GOMAXPROCS=%d gosched=%v", round, len(lists), procs, gosched)
	who := func(a []byte) interface{} {
		if g, ok := owner[string(a)]; ok {
			return map[string]interface{}{"addr": hx.Hex(a), "owned_by_goroutine": g}
		}
		return map[string]interface{}{"addr": hx.Hex(a), "owned_by_goroutine": "none (mixture)"}
	}
	mk := func(a, other []byte) input {
		return input{Kind: "conc", S: hx.Hex(a) + hx.Hex(other), Note: note}
	}
	for g, rs := range results {
		for _, r := range rs {
			calls += 5
			c.Eval()
			if r.panic_ != "" {
				d.nfail++
				c.Fail("b58:panic", "the address codec panicked under concurrent use", mk(r.a, nil), r.panic_, "no panic")
				continue
			}
			if want := r.want; r.enc != want {
				var other []byte
				var came interface{} = "a string that does not decode"
				if o, ok := specDecode(r.enc); ok {
					other, came = o, who(o)
				}
				d.nfail++
				c.Fail("b58:concurrent-wrong-encoding", "ToBase58 returns something else than the encoding of its address while other goroutines encode/decode other addresses", mk(r.a, other),
					map[string]interface{}{"goroutine": g, "address": hx.Hex(r.a), "returned": r.enc, "returned_is_encoding_of": came}, want)
			}
			if r.decErr != nil || !bytes.Equal(r.dec[:], r.a) {
				var other []byte
				if r.decErr == nil {
					other = r.dec[:]
				}
				d.nfail++
				c.Fail("b58:concurrent-valid-rejected", "AddressFromBase58 rejects (or decodes to another address) the canonical encoding of an address while other goroutines use the codec", mk(r.a, other),
					map[string]interface{}{"goroutine": g, "string": r.want, "err": fmt.Sprint(r.decErr), "decoded": hx.Hex(r.dec[:])}, hx.Hex(r.a))
			}
			if r.badOk {
				d.nfail++
				c.Fail("b58:concurrent-accepts-noncanonical", "a corrupted encoding is accepted under concurrent use", mk(r.a, r.badGot[:]),
					map[string]interface{}{"goroutine": g, "string": r.bad, "decoded": hx.Hex(r.badGot[:])}, "error")
			}
			if want := r.wantHx; r.hexs != want {
				d.nfail++
				c.Fail("hex:concurrent-wrong-encoding", "ToHexString returns something else than the hex string of its address under concurrent use", mk(r.a, nil),
					map[string]interface{}{"goroutine": g, "returned": r.hexs}, want)
			}
			if r.hErr != nil || !bytes.Equal(r.hdec[:], r.a) {
				d.nfail++
				c.Fail("hex:concurrent-valid-rejected", "AddressFromHexString rejects or mis-decodes the hex string of an address under concurrent use", mk(r.a, nil),
					map[string]interface{}{"goroutine": g, "err": fmt.Sprint(r.hErr), "decoded": hx.Hex(r.hdec[:])}, hx.Hex(r.a))
			}
		}
	}
	c.Count("concurrent-rounds:" + round)
	if after := d.failTotal(); after > before {
		c.Count("concurrent-rounds-with-failures:" + round)
	}
	c.Note(fmt.Sprintf("concurrent round %s: %d goroutines, %d codec calls compared with the spec, %.2f s", note, len(lists), calls, time.Since(t0).Seconds()))
}

// concurrent: G goroutines with perG random addresses each, both rounds.
func (d *drv) concurrent(G, perG int) {
	lists := make([][][]byte, G)
	for g := range lists {
		for i := 0; i < perG; i++ {
			lists[g] = append(lists[g], d.randAddr())
		}
	}
	preps := prepare(lists)
	d.checkConc(lists, preps, "parallel", G, false)
	// one P: interleaving inside a call happens only at the scheduler's time-slice preemption
	// (~10 ms), so this round runs each list three times to see some tens of preemptions
	long := make([][][]byte, G)
	for g := range lists {
		for k := 0; k < 3; k++ {
			long[g] = append(long[g], lists[g]...)
		}
	}
	d.checkConc(long, preps, "single-P", 1, false) // preps are indexed modulo the list length
	d.checkConc(lists, preps, "gosched", 1, true)
}

// replayConc: the goroutines alternate between the given addresses only.
func (d *drv) replayConc(addrs [][]byte) {
	if len(addrs) == 0 {
		return
	}
	const G = 8
	lists := make([][][]byte, G)
	for g := range lists {
		for i := 0; i < 600; i++ {
			lists[g] = append(lists[g], addrs[g%len(addrs)])
		}
	}
	preps := prepare(lists)
	d.checkConc(lists, preps, "parallel", G, false)
	d.checkConc(lists, preps, "single-P", 1, false)
	d.checkConc(lists, preps, "gosched", 1, true)
}

func (d *drv) failTotal() int { return d.nfail }
