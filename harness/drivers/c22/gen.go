package c22

import (
	"bytes"
	"crypto/sha256"
	"fmt"
	"go/ast"
	"go/parser"
	"go/printer"
	"go/token"
	"path/filepath"
	"strconv"
	"strings"

	base58 "github.com/itchyny/base58-go"
	"github.com/ontio/ontology/common"

	"verif/harness/gen"
)

// produceConsts renders coq/Gen/AddrConsts.v:
//   - the base-58 alphabet and radix of the linked github.com/itchyny/base58-go package, observed
//     through BitcoinEncoding.Encode (the table itself is unexported): Encode("0") is alphabet[0],
//     Encode(k) for k = 1, 2, ... is alphabet[k] until the output gets a second character; that k
//     is the radix;
//   - common.ADDR_LEN, common.MaxBase58AddrLen, sha256.Size by linking the packages;
//   - the literals of common/address.go that are not named constants, located in the current
//     source with go/ast: the version byte of ToBase58 (`[]byte{23}`), the checksum slice bounds
//     (`temps[0:4]`), and in AddressFromBase58 the decoded length (`1+ADDR_LEN+4`), the version test
//     (`buf[0] != byte(23)`) and the address slice (`buf[1:21]`).
//
// Anything missing or of another shape yields `translator_broken_<name>`, so the model and the
// theorems that use the constant no longer compile.
func produceConsts(repo string) ([]byte, []string) {
	var errs []string
	var cs []gen.Const
	bad := func(name, msg string) {
		errs = append(errs, name+": "+msg)
		cs = append(cs, gen.Const{Name: "translator_broken_" + name, Type: "unit", Value: "tt", Comment: msg})
	}
	cs = append(cs,
		gen.Const{Name: "B58_ADDR_LEN", Type: "nat", Value: fmt.Sprint(common.ADDR_LEN), Comment: "common.ADDR_LEN"},
		gen.Const{Name: "MAX_B58_ADDR_LEN", Type: "N", Value: fmt.Sprintf("%d%%N", common.MaxBase58AddrLen), Comment: "common.MaxBase58AddrLen"},
		gen.Const{Name: "HASH_LEN", Type: "nat", Value: fmt.Sprint(sha256.Size), Comment: "crypto/sha256.Size (length of the array returned by sha256.Sum256)"},
	)

	// alphabet and radix of the linked base58 package
	alpha, radix, err := observeAlphabet()
	if err != nil {
		bad("B58_ALPHABET", err.Error())
	} else {
		var items []string
		for _, ch := range alpha {
			items = append(items, fmt.Sprint(ch))
		}
		cs = append(cs,
			gen.Const{Name: "B58_RADIX", Type: "N", Value: fmt.Sprintf("%d%%N", radix), Comment: "base58 radix: least k whose BitcoinEncoding.Encode(k) has two characters"},
			gen.Const{Name: "B58_ALPHABET", Type: "list N", Value: "[" + strings.Join(items, ";") + "]%N", Comment: "base58.BitcoinEncoding alphabet, observed through Encode: " + string(alpha)},
		)
	}

	lits, lerrs := addressLiterals(filepath.Join(repo, "common", "address.go"))
	order := []struct{ name, typ string }{
		{"ADDR_VERSION_ENC", "N"}, {"CHK_LO", "nat"}, {"CHK_HI", "nat"},
		{"DEC_LEN", "nat"}, {"DEC_VER_IDX", "nat"}, {"ADDR_VERSION_DEC", "N"}, {"DEC_LO", "nat"}, {"DEC_HI", "nat"},
	}
	for _, o := range order {
		if l, ok := lits[o.name]; ok {
			v := fmt.Sprint(l.val)
			if o.typ == "N" {
				v += "%N"
			}
			cs = append(cs, gen.Const{Name: o.name, Type: o.typ, Value: v, Comment: "common/address.go " + l.where})
		} else {
			msg := "not found"
			if e, ok := lerrs[o.name]; ok {
				msg = e
			}
			bad(o.name, msg)
		}
	}
	return gen.EmitConsts("", cs), errs
}

func observeAlphabet() ([]byte, int, error) {
	enc := base58.BitcoinEncoding
	z, err := enc.Encode([]byte("0"))
	if err != nil || len(z) != 1 {
		return nil, 0, fmt.Errorf("Encode(\"0\") = %q, %v", z, err)
	}
	alpha := []byte{z[0]}
	for k := 1; k <= 256; k++ {
		e, err := enc.Encode([]byte(strconv.Itoa(k)))
		if err != nil || len(e) == 0 {
			return nil, 0, fmt.Errorf("Encode(%d) = %q, %v", k, e, err)
		}
		if len(e) == 1 {
			alpha = append(alpha, e[0])
			continue
		}
		if len(e) != 2 || e[0] != alpha[1] || e[1] != alpha[0] {
			return nil, 0, fmt.Errorf("Encode(%d) = %q is not \"10\" in the observed alphabet", k, e)
		}
		return alpha, k, nil
	}
	return nil, 0, fmt.Errorf("no radix found below 257")
}

type lit struct {
	val   int64
	where string
}

func printExpr(fset *token.FileSet, n ast.Node) string {
	var b bytes.Buffer
	printer.Fprint(&b, fset, n)
	return strings.Join(strings.Fields(b.String()), " ")
}

// package-level constants and variable initialisers of package common (all non-test files of the
// directory), filled by loadPackageDecls; identifiers are resolved through them, so naming a
// literal (const addrVersion = 23) is a harmless rewrite for the translator.
var (
	pkgConsts = map[string]ast.Expr{}
	pkgVars   = map[string]ast.Expr{}
)

func loadPackageDecls(dir string) {
	pkgConsts = map[string]ast.Expr{}
	pkgVars = map[string]ast.Expr{}
	files, _ := filepath.Glob(filepath.Join(dir, "*.go"))
	for _, fn := range files {
		if strings.HasSuffix(fn, "_test.go") {
			continue
		}
		f, err := parser.ParseFile(token.NewFileSet(), fn, nil, 0)
		if err != nil {
			continue
		}
		for _, d := range f.Decls {
			gd, ok := d.(*ast.GenDecl)
			if !ok || (gd.Tok != token.CONST && gd.Tok != token.VAR) {
				continue
			}
			for _, sp := range gd.Specs {
				vs, ok := sp.(*ast.ValueSpec)
				if !ok {
					continue
				}
				for i, id := range vs.Names {
					if i < len(vs.Values) { // implicit repetition / iota groups are not resolved (fail closed)
						if gd.Tok == token.CONST {
							pkgConsts[id.Name] = vs.Values[i]
						} else {
							pkgVars[id.Name] = vs.Values[i]
						}
					}
				}
			}
		}
	}
}

// constInt evaluates the integer-constant fragment used in address.go: literals, + - *,
// parentheses, the conversions byte(x)/int(x)/uint8(x) and identifiers of package-level constants.
func constInt(e ast.Expr) (int64, bool) { return constIntD(e, 0) }

// prefixBytes evaluates a constant byte-slice expression: []byte{...}, make([]byte, n[, cap]),
// append(<such>, b...), or a package-level variable initialised with one.
func prefixBytes(e ast.Expr, depth int) ([]int64, bool) {
	if depth > 8 {
		return nil, false
	}
	switch x := e.(type) {
	case *ast.ParenExpr:
		return prefixBytes(x.X, depth+1)
	case *ast.Ident:
		if init, ok := pkgVars[x.Name]; ok {
			return prefixBytes(init, depth+1)
		}
	case *ast.CompositeLit:
		at, ok := x.Type.(*ast.ArrayType)
		if !ok || at.Len != nil || !(isIdent(at.Elt, "byte") || isIdent(at.Elt, "uint8")) {
			return nil, false
		}
		var out []int64
		for _, el := range x.Elts {
			v, ok := constInt(el)
			if !ok || v < 0 || v > 255 {
				return nil, false
			}
			out = append(out, v)
		}
		return out, true
	case *ast.CallExpr:
		if isIdent(x.Fun, "make") && (len(x.Args) == 2 || len(x.Args) == 3) {
			n, ok := constInt(x.Args[1])
			if !ok || n < 0 || n > 64 {
				return nil, false
			}
			return make([]int64, n), true
		}
		if isIdent(x.Fun, "append") && len(x.Args) >= 1 && !x.Ellipsis.IsValid() {
			out, ok := prefixBytes(x.Args[0], depth+1)
			if !ok {
				return nil, false
			}
			for _, el := range x.Args[1:] {
				v, ok := constInt(el)
				if !ok || v < 0 || v > 255 {
					return nil, false
				}
				out = append(out, v)
			}
			return out, true
		}
	}
	return nil, false
}

func constIntD(e ast.Expr, depth int) (int64, bool) {
	if depth > 16 {
		return 0, false
	}
	constInt := func(e ast.Expr) (int64, bool) { return constIntD(e, depth+1) }
	switch x := e.(type) {
	case *ast.BasicLit:
		if x.Kind != token.INT {
			return 0, false
		}
		v, err := strconv.ParseInt(x.Value, 0, 64)
		return v, err == nil
	case *ast.ParenExpr:
		return constInt(x.X)
	case *ast.Ident:
		if init, ok := pkgConsts[x.Name]; ok {
			v, ok := constInt(init)
			if ok && x.Name == "ADDR_LEN" && v != int64(common.ADDR_LEN) {
				return 0, false // source and linked package disagree
			}
			return v, ok
		}
		if x.Name == "ADDR_LEN" {
			return int64(common.ADDR_LEN), true
		}
		return 0, false
	case *ast.CallExpr:
		if id, ok := x.Fun.(*ast.Ident); ok && (id.Name == "byte" || id.Name == "uint8") && len(x.Args) == 1 {
			v, ok := constInt(x.Args[0])
			return v, ok && v >= 0 && v < 256
		}
		if id, ok := x.Fun.(*ast.Ident); ok && (id.Name == "int" || id.Name == "uint" || id.Name == "int64" || id.Name == "uint64") && len(x.Args) == 1 {
			v, ok := constInt(x.Args[0])
			return v, ok && v >= 0
		}
		return 0, false
	case *ast.BinaryExpr:
		a, ok1 := constInt(x.X)
		b, ok2 := constInt(x.Y)
		if !ok1 || !ok2 {
			return 0, false
		}
		switch x.Op {
		case token.ADD:
			return a + b, true
		case token.SUB:
			return a - b, true
		case token.MUL:
			return a * b, true
		}
	}
	return 0, false
}

func isIdent(e ast.Expr, name string) bool {
	id, ok := e.(*ast.Ident)
	return ok && id.Name == name
}

// addressLiterals locates the unnamed numeric literals of ToBase58 and AddressFromBase58.
func addressLiterals(path string) (map[string]lit, map[string]string) {
	out := map[string]lit{}
	errs := map[string]string{}
	loadPackageDecls(filepath.Dir(path))
	fset := token.NewFileSet()
	f, err := parser.ParseFile(fset, path, nil, 0)
	if err != nil {
		for _, n := range []string{"ADDR_VERSION_ENC", "CHK_LO", "CHK_HI", "DEC_LEN", "DEC_VER_IDX", "ADDR_VERSION_DEC", "DEC_LO", "DEC_HI"} {
			errs[n] = err.Error()
		}
		return out, errs
	}
	set := func(name string, v int64, ok bool, n ast.Node) {
		where := printExpr(fset, n)
		if !ok || v < 0 {
			errs[name] = "unsupported expression: " + where
			return
		}
		if _, dup := out[name]; dup {
			errs[name] = "more than one candidate (second: " + where + ")"
			delete(out, name)
			out[name+"#dup"] = lit{}
			return
		}
		if _, dup := out[name+"#dup"]; dup {
			return
		}
		out[name] = lit{val: v, where: where}
	}
	// The encoder's literals are looked for in ToBase58 and in the functions of the same file it
	// calls (transitively), so that moving the body into a helper keeps the tie; each function is
	// mapped to the role of the anchor it is reachable from.
	decls := map[string]*ast.FuncDecl{}
	for _, d := range f.Decls {
		if fd, ok := d.(*ast.FuncDecl); ok && fd.Body != nil {
			decls[fd.Name.Name] = fd
		}
	}
	role := map[string]string{}
	var mark func(name, r string, depth int)
	mark = func(name, r string, depth int) {
		fd, ok := decls[name]
		if !ok || depth > 4 {
			return
		}
		if _, seen := role[name]; seen {
			return
		}
		role[name] = r
		ast.Inspect(fd.Body, func(n ast.Node) bool {
			if call, ok := n.(*ast.CallExpr); ok {
				switch fn := call.Fun.(type) {
				case *ast.Ident:
					mark(fn.Name, r, depth+1)
				case *ast.SelectorExpr:
					if id, ok := fn.X.(*ast.Ident); ok && fd.Recv != nil && len(fd.Recv.List) == 1 &&
						len(fd.Recv.List[0].Names) == 1 && id.Name == fd.Recv.List[0].Names[0].Name {
						mark(fn.Sel.Name, r, depth+1) // method call on the receiver
					}
				}
			}
			return true
		})
	}
	role["AddressFromBase58"] = "AddressFromBase58" // the decoder's literals only in the anchor itself
	mark("ToBase58", "ToBase58", 0)
	for _, d := range f.Decls {
		fd, ok := d.(*ast.FuncDecl)
		if !ok || fd.Body == nil {
			continue
		}
		switch role[fd.Name.Name] {
		case "ToBase58":
			ast.Inspect(fd.Body, func(n ast.Node) bool {
				switch x := n.(type) {
				case *ast.CallExpr: // append(<package-level prefix slice>, f[:]...): the prefix is the version byte
					if isIdent(x.Fun, "append") && len(x.Args) == 2 && x.Ellipsis.IsValid() {
						if id, ok := x.Args[0].(*ast.Ident); ok {
							if _, isVar := pkgVars[id.Name]; isVar {
								if se, ok := x.Args[1].(*ast.SliceExpr); ok && se.Low == nil && se.High == nil {
									vals, ok := prefixBytes(id, 0)
									if ok && len(vals) == 1 {
										set("ADDR_VERSION_ENC", vals[0], true, x)
									} else {
										set("ADDR_VERSION_ENC", 0, false, x)
									}
								}
							}
						}
					}
				case *ast.CompositeLit: // []byte{23}
					if at, ok := x.Type.(*ast.ArrayType); ok && at.Len == nil && isIdent(at.Elt, "byte") {
						if len(x.Elts) == 1 {
							v, ok := constInt(x.Elts[0])
							set("ADDR_VERSION_ENC", v, ok && v < 256, x)
						} else {
							set("ADDR_VERSION_ENC", 0, false, x)
						}
					}
				case *ast.SliceExpr: // temps[0:4]; f[:] has neither bound and is skipped
					if x.Low == nil && x.High == nil {
						return true
					}
					if x.Slice3 || x.Low == nil || x.High == nil || !isIdent(x.X, "temps") {
						set("CHK_LO", 0, false, x)
						set("CHK_HI", 0, false, x)
						return true
					}
					lo, ok1 := constInt(x.Low)
					hi, ok2 := constInt(x.High)
					set("CHK_LO", lo, ok1, x)
					set("CHK_HI", hi, ok2, x)
				}
				return true
			})
		case "AddressFromBase58":
			ast.Inspect(fd.Body, func(n ast.Node) bool {
				switch x := n.(type) {
				case *ast.BinaryExpr:
					if x.Op != token.NEQ {
						return true
					}
					if c, ok := x.X.(*ast.CallExpr); ok && isIdent(c.Fun, "len") && len(c.Args) == 1 && isIdent(c.Args[0], "buf") {
						v, ok := constInt(x.Y) // len(buf) != 1+ADDR_LEN+4
						set("DEC_LEN", v, ok, x)
					}
					if ix, ok := x.X.(*ast.IndexExpr); ok && isIdent(ix.X, "buf") { // buf[0] != byte(23)
						i, ok1 := constInt(ix.Index)
						v, ok2 := constInt(x.Y)
						set("DEC_VER_IDX", i, ok1, x)
						set("ADDR_VERSION_DEC", v, ok2 && v < 256, x)
					}
				case *ast.SliceExpr: // buf[1:21]
					if !isIdent(x.X, "buf") {
						return true
					}
					if x.Slice3 || x.Low == nil || x.High == nil {
						set("DEC_LO", 0, false, x)
						set("DEC_HI", 0, false, x)
						return true
					}
					lo, ok1 := constInt(x.Low)
					hi, ok2 := constInt(x.High)
					set("DEC_LO", lo, ok1, x)
					set("DEC_HI", hi, ok2, x)
				}
				return true
			})
		}
	}
	for k := range out {
		if strings.HasSuffix(k, "#dup") {
			delete(out, k)
		}
	}
	return out, errs
}

func init() {
	gen.RegisterFile("AddrConsts.v", produceConsts)
}
