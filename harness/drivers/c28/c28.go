// Package c28: BFT quorum thresholds. The threshold formulas are translated from the source
// (gen sites below) into coq/Gen/Thresholds.v; the driver validates the translation against the
// running code where a formula is observable and searches (N, C) for a failing configuration.
package c28

import (
	"fmt"

	"path/filepath"

	"github.com/ontio/ontology-crypto/keypair"
	"github.com/ontio/ontology/account"
	vbft "github.com/ontio/ontology/consensus/vbft"
	"github.com/ontio/ontology/core/signature"
	"github.com/ontio/ontology/core/types"

	"verif/harness/gen"
	"verif/harness/hx"
	"verif/harness/ledgerkit"
)

// Sites are the quorum-size expressions the property speaks about ("thresholds used to seal,
// commit or verify a block").
var Sites = []gen.Site{
	{Name: "verify_block_m", File: "core/validation/block_validator.go", Func: "VerifyBlock", Loc: "assign:m",
		Subst: map[string]string{"len(header.Bookkeepers)": "n"}, Vars: []string{"n"}},
	{Name: "ledger_header_solo_m", File: "core/store/ledgerstore/ledger_store.go", Func: "verifyHeader", Loc: "assign:m#1",
		Subst: map[string]string{"len(header.Bookkeepers)": "n"}, Vars: []string{"n"}},
	{Name: "ledger_header_vbft_m", File: "core/store/ledgerstore/ledger_store.go", Func: "verifyHeader", Loc: "assign:m#0",
		Subst: map[string]string{"len(vbftPeerInfo)": "n"}, Vars: []string{"n"}},
	{Name: "ledger_header_vbft_distinct", File: "core/store/ledgerstore/ledger_store.go", Func: "verifyHeader", Loc: "cmp:<:rhs#1",
		Subst: map[string]string{"c": "c"}, Vars: []string{"c"}},
	{Name: "crosschain_msg_m", File: "core/store/ledgerstore/ledger_store.go", Func: "verifyCrossChainMsg", Loc: "assign:m",
		Subst: map[string]string{"len(bookkeepers)": "n"}, Vars: []string{"n"}},
	{Name: "addr_bookkeepers_m", File: "core/types/address.go", Func: "AddressFromBookkeepers", Loc: "callarg:AddressFromMultiPubKeys:1",
		Subst: map[string]string{"len(bookkeepers)": "n"}, Vars: []string{"n"}},
	{Name: "commit_consensus_need", File: "consensus/vbft/node_utils.go", Func: "getCommitConsensus", Loc: "cmp:>=:rhs",
		Subst: map[string]string{"N": "n"}, Vars: []string{"n"}},
	{Name: "commit_consensus_have", File: "consensus/vbft/node_utils.go", Func: "getCommitConsensus", Loc: "cmp:>=:lhs",
		Subst: map[string]string{"len(signCount[c.BlockProposer])": "k"}, Vars: []string{"k"}},
	{Name: "commit_done_c", File: "consensus/vbft/block_pool.go", Func: "commitDone", Loc: "assign:C",
		Subst: map[string]string{"N": "n"}, Vars: []string{"n"}},
	{Name: "vbft_cfg_m", File: "consensus/vbft/service.go", Func: "CheckSubmitBlock", Loc: "assign:m",
		Subst: map[string]string{"cfg.N": "n"}, Vars: []string{"n"}},
}

func init() {
	gen.RegisterFile("Thresholds.v", gen.SitesProducer(Sites))
	hx.Register("C28", Run)
}

// quorum sites: name -> how the minimal signer-set size is obtained from the formula value
// (min distinct signers = value + Adj).
type qsite struct {
	name string
	adj  int64
	env  string
}

var quorumSites = []qsite{
	{"verify_block_m", 0, "n"},
	{"ledger_header_solo_m", 0, "n"},
	{"crosschain_msg_m", 0, "n"},
	{"addr_bookkeepers_m", 0, "n"},
	{"commit_consensus_need", 0, "n"}, // counted signers + the proposer itself (commit_consensus_have = k+1)
	{"commit_done_c", 1, "n"},         // endorseCnt > C
	{"vbft_cfg_m", 0, "n"},
	{"ledger_header_vbft_m", 0, "n"}, // the VBFT header-sync branch (also requires > c distinct listed keys)
}

func siteByName(n string) gen.Site {
	for _, s := range Sites {
		if s.Name == n {
			return s
		}
	}
	panic(n)
}

func Run(c *hx.Ctx) {
	c.CoqModule("Corr.C28")
	maxN := int64(c.N(400, 4000))
	// 1. failing-input search on the formulas as the code has them now.
	for _, qs := range quorumSites {
		ev, err := gen.NewEvaluator(c.Repo, siteByName(qs.name))
		if err != nil {
			// a broken translation is reported by the framework as a broken tie, not as a failing input
			c.Note("site " + qs.name + ": " + err.Error())
			continue
		}
		found := false
		for n := int64(1); n <= maxN && !found; n++ {
			q, err := ev.Eval(map[string]int64{qs.env: n})
			c.Eval()
			if err != nil {
				c.Note("site " + qs.name + ": evaluation failed: " + err.Error())
				found = true
				break
			}
			q += qs.adj
			if n >= 4 {
				c.Nontrivial(fmt.Sprintf("%s/%d", qs.name, n))
			}
			if n == 7 {
				c.Sample(map[string]interface{}{"site": qs.name, "go_expr": ev.GoExpr, "N": n, "min_signers": q})
			}
			for cc := int64(0); 3*cc+1 <= n; cc++ {
				// two signer sets of size q among n peers can be arranged to share max(0, 2q-n)
				// peers; the property needs that to exceed C.
				if q > n || 2*q-n < cc+1 {
					a, b := witnessSets(n, q)
					c.Fail("quorum:"+qs.name, "two signer sets meeting the threshold share no peer outside a C-set",
						map[string]interface{}{"site": qs.name, "go_expr": ev.GoExpr, "N": n, "C": cc, "min_signers": q, "set_a": a, "set_b": b},
						fmt.Sprintf("overlap %d", max64(0, 2*q-n)), fmt.Sprintf("overlap >= %d", cc+1))
					found = true
					break
				}
			}
		}
	}
	// 1b. the same search on the RUNNING code where a threshold is observable: getCommitConsensus is
	// driven with commit messages for one proposer from k distinct committers (the first e of them
	// committing for the empty block) and the least accepted signer-set size (committers + proposer)
	// is compared with the intersection requirement. Independent of the translator, so a changed
	// expression the translator cannot read still yields a concrete failing configuration.
	maxRun := c.N(31, 64)
	for n := 4; n <= maxRun; n++ {
		for cc := 1; 3*cc+1 <= n; cc++ {
			for _, e := range []int{0, cc, cc + 1, n} {
				q := -1
				for k := 0; k < n; k++ {
					specs := make([]vbft.VerifC31CommitSpec, 0, k)
					for i := 0; i < k; i++ {
						specs = append(specs, vbft.VerifC31CommitSpec{Committer: uint32(i + 2), Proposer: 1, ForEmpty: i < e})
					}
					prop, _ := vbft.VerifC31GetCommitConsensus(specs, cc, n)
					c.Eval()
					if prop == 1 {
						q = k + 1
						break
					}
				}
				c.Count(fmt.Sprintf("run:commit-consensus:e=%s", map[bool]string{true: "gt-c", false: "le-c"}[e > cc]))
				if q < 0 {
					continue // never accepted with fewer than n signers: no quorum to intersect
				}
				c.Nontrivial(fmt.Sprintf("run/%d/%d/%d", n, cc, e))
				if 2*q-n < cc+1 {
					a, b := witnessSets(int64(n), int64(q))
					c.Fail("quorum:run:getCommitConsensus", "two signer sets accepted by the running getCommitConsensus share no peer outside a C-set",
						map[string]interface{}{"N": n, "C": cc, "empty_commits": e, "min_signers_incl_proposer": q, "set_a": a, "set_b": b},
						fmt.Sprintf("overlap %d", max64(0, int64(2*q-n))), fmt.Sprintf("overlap >= %d", cc+1))
				}
			}
		}
	}
	// 1c. endorsement quorum on the RUNNING block pool: endorseDone(C) may only answer "done" for a
	// proposal (or for the empty block) that more than C DISTINCT endorsers endorsed - that is what
	// makes the C+1 threshold contain an honest peer. Repeated endorsements of one peer, endorsements
	// for several proposers and late empty endorsements are fed in every order.
	checkEndorse := func(cc uint32, es []vbft.VerifC28Endorse, label string) {
		prop, forEmpty, done := vbft.VerifC28EndorseDone(cc, es)
		c.Eval()
		c.Count("run:endorse-done:" + map[bool]string{true: "done", false: "not-done"}[done])
		if !done {
			return
		}
		distinct := map[uint32]bool{}
		for _, e := range es {
			if (forEmpty && e.ForEmpty) || (!forEmpty && !e.ForEmpty && e.Proposer == prop) {
				distinct[e.Endorser] = true
			}
		}
		c.Nontrivial(fmt.Sprintf("endorse/%d/%d/%v", cc, len(es), forEmpty))
		if uint32(len(distinct)) < cc+1 {
			c.Fail("quorum:run:endorseDone", "an endorsement quorum needs more than C distinct endorsers (otherwise it may contain no honest peer)",
				map[string]interface{}{"C": cc, "endorsements": es, "probe": label},
				fmt.Sprintf("done for proposer %d (empty=%v) with %d distinct endorser(s)", prop, forEmpty, len(distinct)), fmt.Sprintf(">= %d distinct endorsers", cc+1))
		}
	}
	for n := 4; n <= 16; n++ {
		for cc := 1; 3*cc+1 <= n; cc++ {
			// one faulty endorser repeating its empty endorsement, C other endorsers each endorsing a
			// different proposal (so the pool holds C+1 endorsers but no proposal has C+1 backers)
			for rep := 2; rep <= cc+2; rep++ {
				var es []vbft.VerifC28Endorse
				for h := 0; h < cc; h++ {
					es = append(es, vbft.VerifC28Endorse{Endorser: uint32(10 + h), Proposer: uint32(100 + h)})
				}
				for r := 0; r < rep; r++ {
					es = append(es, vbft.VerifC28Endorse{Endorser: 1, Proposer: 100, ForEmpty: true})
				}
				checkEndorse(uint32(cc), es, "one-peer-repeats-empty")
				// the same with the repeats first, and with the peer endorsing a proposal first
				rev := append([]vbft.VerifC28Endorse{{Endorser: 1, Proposer: 100}}, es...)
				checkEndorse(uint32(cc), rev, "proposal-then-repeated-empty")
			}
			// C faulty endorsers each repeating an endorsement of the same proposal / of empty
			for _, empty := range []bool{false, true} {
				var es []vbft.VerifC28Endorse
				es = append(es, vbft.VerifC28Endorse{Endorser: 50, Proposer: 200})
				for r := 0; r < 3; r++ {
					for f := 0; f < cc; f++ {
						es = append(es, vbft.VerifC28Endorse{Endorser: uint32(1 + f), Proposer: 100, ForEmpty: empty})
					}
				}
				checkEndorse(uint32(cc), es, "c-faulty-repeat")
			}
			// random sequences with deliberate repeats
			for k := 0; k < c.N(12, 120); k++ {
				var es []vbft.VerifC28Endorse
				ln := 1 + c.Intn(3*n)
				for i := 0; i < ln; i++ {
					es = append(es, vbft.VerifC28Endorse{Endorser: uint32(1 + c.Intn(cc+2)), Proposer: uint32(100 + c.Intn(3)), ForEmpty: c.Intn(3) == 0})
				}
				checkEndorse(uint32(cc), es, "random")
			}
		}
	}
	// 1d. the ledger's own header check on a solo chain (non-VBFT branch of verifyHeader): the first
	// header after genesis lists the one bookkeeper; it must be refused with no signature and with
	// the signature of another key, and accepted with the bookkeeper's signature (n = 1: the
	// threshold n-(n-1)/3 = 1 must be taken from the header being verified, whatever its predecessor lists).
	func() {
		k, err := ledgerkit.New(filepath.Join(c.OutDir, "c28-ledger"))
		if err != nil {
			c.Note("c28 ledger probe: " + err.Error())
			return
		}
		defer k.Close()
		blk, err := k.MakeBlock(nil)
		if err != nil {
			c.Note("c28 ledger probe: " + err.Error())
			return
		}
		offer := func(label string, mutate func(h *types.Header), wantAccept bool) {
			raw := blk.Header.ToArray()
			h, err := types.HeaderFromRawBytes(raw)
			if err != nil {
				c.Note("c28 ledger probe: " + err.Error())
				return
			}
			mutate(h)
			var aerr error
			p, msg := hx.Recover(func() { aerr = k.Ledger.AddHeaders([]*types.Header{h}) })
			c.Eval()
			c.Count("run:ledger-header:" + label)
			if p {
				c.Fail("panic:AddHeaders", "header sync panicked", map[string]interface{}{"probe": label}, msg, nil)
				return
			}
			if (aerr == nil) != wantAccept {
				c.Fail("quorum:run:ledger-header-solo", "a header is accepted by the ledger exactly when n-(n-1)/3 of ITS bookkeepers signed it",
					map[string]interface{}{"probe": label, "height": h.Height, "bookkeepers": len(h.Bookkeepers), "signatures": len(h.SigData)},
					fmt.Sprintf("AddHeaders error: %v", aerr), map[bool]string{true: "accepted", false: "refused"}[wantAccept])
			}
		}
		other := account.NewAccount("")
		offer("no-signature", func(h *types.Header) { h.SigData = nil }, false)
		offer("signature-of-another-key", func(h *types.Header) {
			hash := h.Hash()
			sig, _ := signature.Sign(other, hash[:])
			h.SigData = [][]byte{sig}
		}, false)
		offer("bookkeeper-signature", func(h *types.Header) {}, true)
	}()
	// 2. translation validation where the formula is observable through an exported function:
	// AddressFromBookkeepers(keys) must be the m-of-n address with m = addr_bookkeepers_m n.
	var keys []keypair.PublicKey
	for i := 0; i < 16; i++ {
		_, pub, err := keypair.GenerateKeyPair(keypair.PK_ECDSA, keypair.P256)
		if err != nil {
			panic(err)
		}
		keys = append(keys, pub)
	}
	for n := 1; n <= len(keys); n++ {
		ks := keys[:n]
		addr, err := types.AddressFromBookkeepers(ks)
		c.Eval()
		if err != nil {
			c.Case(fmt.Sprintf("(AddrM %d None)", n), map[string]interface{}{"n": n, "m": nil})
			continue
		}
		obs := -1
		if n == 1 {
			a1 := types.AddressFromPubKey(ks[0])
			if a1 == addr {
				obs = 1
			}
		} else {
			for m := 1; m <= n; m++ {
				a, err := types.AddressFromMultiPubKeys(ks, m)
				if err == nil && a == addr {
					obs = m
					break
				}
			}
		}
		if obs < 0 {
			c.Case(fmt.Sprintf("(AddrM %d None)", n), map[string]interface{}{"n": n, "m": nil})
		} else {
			c.Case(fmt.Sprintf("(AddrM %d (Some %d))", n, obs), map[string]interface{}{"n": n, "m": obs})
		}
	}
}

func witnessSets(n, q int64) (a, b []int64) {
	if q > n {
		return nil, nil
	}
	for i := int64(0); i < q && i < 12; i++ {
		a = append(a, i)
	}
	for i := n - q; i < n && int64(len(b)) < 12; i++ {
		b = append(b, i)
	}
	return
}

func max64(a, b int64) int64 {
	if a > b {
		return a
	}
	return b
}
