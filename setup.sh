#!/bin/sh
# Build the framework from files on disk only (offline): harness binary (drivers of the claimed
# properties), translator output, Coq development of the claimed properties.
set -e
cd "$(dirname "$0")"
export GOFLAGS=-mod=mod GOPROXY=off GOSUMDB=off GOTOOLCHAIN=local
mkdir -p .work/bin coq/Gen evidence
cp /repo/go.sum harness/go.sum
IDS="$(cat checks/CLAIMED)"
TAGS="verif $(echo $IDS | tr 'A-Z' 'a-z' | tr ' ' '\n' | sort | tr '\n' ' ')"
TAGS="$(echo $TAGS)"
(cd harness && go build -tags "$TAGS" -o ../.work/bin/harness .)
./.work/bin/harness gen -repo /repo -out coq/Gen > .work/gen.json
TARGETS=""
for i in $IDS; do TARGETS="$TARGETS Props/$i.vo Corr/$i.vo"; done
(cd coq && timeout 3000 ./build.sh $TARGETS)
echo setup ok
