#!/bin/sh
# Build the framework from files on disk only (offline): harness binary, translator output, Coq development.
set -e
cd "$(dirname "$0")"
export GOFLAGS=-mod=mod GOPROXY=off GOSUMDB=off GOTOOLCHAIN=local
mkdir -p .work/bin coq/Gen evidence
cp /repo/go.sum harness/go.sum
(cd harness && go build -tags "verif all" -o ../.work/bin/harness .)
./.work/bin/harness gen -repo /repo -out coq/Gen > .work/gen.json
(cd coq && timeout 3000 ./build.sh)
echo setup ok
