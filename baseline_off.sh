#!/bin/sh
# Runs the repository's test suite with the verif guard OFF (no build tags) and compares with BASELINE.json:
# every test in stable_pass must pass.
mkdir -p /verif/.work
cd /repo
export GOFLAGS=-mod=mod GOPROXY=off GOSUMDB=off GOTOOLCHAIN=local
go test -json -vet=off -count=1 -timeout 25m ./... > /verif/.work/baseline_off.json 2>/dev/null
# the suite's own merkle tests leave this file behind in the source tree
rm -f /repo/merkle/merkletree.db
python3 - <<'PY'
import json,sys
base=json.load(open('/root/.vp/BASELINE.json'))
want=set(base['stable_pass'])
passed=set()
for l in open('/verif/.work/baseline_off.json',errors='replace'):
    try: e=json.loads(l)
    except Exception: continue
    if e.get('Action')=='pass' and e.get('Test'):
        passed.add(e['Package']+'::'+e['Test'])
missing=sorted(want-passed)
print("stable_pass tests: %d, passing now: %d, missing: %d"%(len(want),len(want&passed),len(missing)))
for m in missing[:50]: print("MISSING",m)
sys.exit(1 if missing else 0)
PY
