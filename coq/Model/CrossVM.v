(** Model of vm/crossvm_codec: codec.go (EncodeValue / EncodeList / Encode* and DecodeValue),
    vmcall_codec.go (DeserializeCallParam) and notify_codec.go (parseNotify, the raw-input fallback
    of DeserializeNotify), on top of the ZeroCopySource/Sink model of Model/Codec.v.
    Executable definitions only; proofs are in Proofs/C25.v. Tags, VERSION and the two prefixes
    (with the slice offsets used after the prefix test) come from Gen/CrossVMConsts.v, which is
    regenerated from the source on every run. *)
From Coq Require Import List Bool Arith NArith ZArith.
Import ListNotations.
From Ont Require Import Lib.Bytes Gen.CodecConsts Gen.CrossVMConsts Model.Codec.
Local Open Scope N_scope.
Open Scope bool_scope.

(** * Values *)

(** What DecodeValue returns: []byte, string, common.Address, bool, *big.Int, common.Uint256,
    []interface{}. Strings are byte strings (Go strings hold arbitrary bytes). *)
Inductive value :=
| XBytes (b : bytes)
| XString (b : bytes)
| XAddress (a : bytes)
| XBool (b : bool)
| XInt (z : Z)
| XH256 (h : bytes)
| XList (l : list value).

(** What the type switches of EncodeValue / EncodeList distinguish (the dynamic type of the
    interface{} argument). [GOther] stands for every other dynamic type. Machine integers carry
    their mathematical value; their ranges are part of [wf_g]. *)
Inductive gvalue :=
| GBytes (b : bytes)
| GString (b : bytes)
| GAddress (a : bytes)
| GBool (b : bool)
| GH256 (h : bytes)
| GBig (z : Z)        (* *big.Int *)
| GInt (z : Z)        (* int (64-bit platforms) *)
| GInt64 (z : Z)
| GInt32 (z : Z)
| GUint32 (n : N)
| GList (l : list gvalue)
| GOther.

(** * common.I128 *)
Definition two128 : N := 256 ^ N.of_nat I128_SIZE.
Definition maxI128 : Z := (Z.of_N (two128 / 2) - 1)%Z.
Definition minI128 : Z := (- Z.of_N (two128 / 2))%Z.

(** I128.ToBigInt: the unsigned little-endian value, minus 2^128 when above maxI128. *)
Definition i128_to_big (b : bytes) : Z :=
  let u := Z.of_N (le_decode b) in
  if (maxI128 <? u)%Z then (u - Z.of_N two128)%Z else u.

(** I128FromBigInt: range check, two's complement, big-endian bytes reversed into the array. *)
Definition i128_from_big (z : Z) : option bytes :=
  if (maxI128 <? z)%Z || (z <? minI128)%Z then None
  else
    let v := if (z <? 0)%Z then (z + Z.of_N two128)%Z else z in
    Some (le_encode I128_SIZE (Z.to_N v)).

(** I128FromInt64: all-ones when negative, then the low 8 bytes overwritten with uint64(val). *)
Definition i128_from_int64 (z : Z) : bytes :=
  le_encode UINT64_SIZE (of_signed UINT64_SIZE z)
  ++ repeat (if (z <? 0)%Z then 255 else 0) (I128_SIZE - UINT64_SIZE).

(** * Encoding *)

(** uint32(len(x)) *)
Definition len32 {A : Type} (l : list A) : N := N.of_nat (length l) mod two32.

Definition enc_bytes (b : bytes) : bytes := write_uint8 ByteArrayType ++ write_uint32 (len32 b) ++ b.
Definition enc_string (b : bytes) : bytes := write_uint8 StringType ++ write_uint32 (len32 b) ++ b.
Definition enc_address (a : bytes) : bytes := write_uint8 AddressType ++ a.
Definition enc_bool (b : bool) : bytes := write_uint8 BooleanType ++ (if b then write_uint8 1 else write_uint8 0).
Definition enc_h256 (h : bytes) : bytes := write_uint8 H256Type ++ h.
Definition enc_int128 (x : bytes) : bytes := write_uint8 IntType ++ x.

(** Encoder results: the bytes, or which error EncodeValue returned (the partially written sink
    is discarded by EncodeValue on error). *)
Inductive eres := EOk (b : bytes) | EErrRange | EErrUnsupported.

Definition enc_bigint (z : Z) : eres :=
  match i128_from_big z with Some x => EOk (enc_int128 x) | None => EErrRange end.

(** Elements are written in order; the first error ends the loop. *)
Section EncSeq.
  Context {A : Type} (f : A -> eres).
  Fixpoint enc_seq (l : list A) : eres :=
    match l with
    | [] => EOk []
    | x :: r =>
      match f x with
      | EOk bx => match enc_seq r with EOk br => EOk (bx ++ br) | e => e end
      | e => e
      end
    end.
End EncSeq.

(** The type switch inside EncodeList's loop (one element). *)
Fixpoint g_encode_elem (g : gvalue) : eres :=
  match g with
  | GBytes b => EOk (enc_bytes b)
  | GString b => EOk (enc_string b)
  | GBool b => EOk (enc_bool b)
  | GInt z => EOk (enc_int128 (i128_from_int64 z))
  | GInt64 z => EOk (enc_int128 (i128_from_int64 z))
  | GInt32 z => EOk (enc_int128 (i128_from_int64 z))
  | GUint32 n => EOk (enc_int128 (i128_from_int64 (Z.of_N n)))
  | GBig z => enc_bigint z
  | GAddress a => EOk (enc_address a)
  | GH256 h => EOk (enc_h256 h)
  | GList l =>
    match enc_seq g_encode_elem l with
    | EOk body => EOk (write_uint8 ListType ++ write_uint32 (len32 l) ++ body)
    | e => e
    end
  | GOther => EErrUnsupported
  end.

(** EncodeList *)
Definition g_encode_list (l : list gvalue) : eres := g_encode_elem (GList l).

(** EncodeValue: its own type switch. int32, uint32 and every other type fall to the default
    branch, which only logs: the result is the empty sink and a nil error. *)
Definition g_encode_value (g : gvalue) : eres :=
  match g with
  | GInt32 _ | GUint32 _ | GOther => EOk []
  | _ => g_encode_elem g
  end.

(** * Decoding *)
Inductive derr := ErrFormat | ErrNotSupported.

(** [DFuel] is the model's own "recursion bound exhausted" value; Proofs/C25.v shows that
    [decode_value] never returns it. *)
Inductive dres (A : Type) := DOk (v : A) (s : source) | DErr (e : derr) | DFuel.
Arguments DOk {A} v s.
Arguments DErr {A} e.
Arguments DFuel {A}.

(** case ByteArrayType / StringType *)
Definition dec_sized (mk : bytes -> value) (s1 : source) : dres value :=
  let '(size, eof, s2) := next_uint32 s1 in
  if eof then DErr ErrFormat else
  let '(b, eof, s3) := next_bytes s2 size in
  if eof then DErr ErrFormat else DOk (mk b) s3.

(** case AddressType / IntType / H256Type *)
Definition dec_fixed (rd : source -> bytes * bool * source) (mk : bytes -> value) (s1 : source) : dres value :=
  let '(x, eof, s2) := rd s1 in
  if eof then DErr ErrFormat else DOk (mk x) s2.

(** case BooleanType *)
Definition dec_bool (s1 : source) : dres value :=
  let '(b, irr, eof, s2) := next_bool s1 in
  if eof then DErr ErrFormat else
  if irr then DErr ErrFormat else DOk (XBool b) s2.

(** The for loop of case ListType: [n] values decoded by [dv], in order. [k] bounds the number
    of iterations (every successful [dv] consumes at least one byte). *)
Fixpoint decode_loop (dv : source -> dres value) (k : nat) (n : N) (s : source) : dres (list value) :=
  if n =? 0 then DOk [] s else
  match k with
  | O => DFuel
  | S k' =>
    match dv s with
    | DOk v s1 =>
      match decode_loop dv k' (n - 1) s1 with
      | DOk l s2 => DOk (v :: l) s2
      | DErr e => DErr e
      | DFuel => DFuel
      end
    | DErr e => DErr e
    | DFuel => DFuel
    end
  end.

(** case ListType, with the recursive decoding of the elements abstracted. *)
Definition dec_list (rec_list : N -> source -> dres (list value)) (s1 : source) : dres value :=
  let '(size, eof, s2) := next_uint32 s1 in
  if eof then DErr ErrFormat else
  match rec_list size s2 with
  | DOk l s3 => DOk (XList l) s3
  | DErr e => DErr e
  | DFuel => DFuel
  end.

(** The body of DecodeValue: the type byte, then the switch. *)
Definition decode_body (rec_list : N -> source -> dres (list value)) (s : source) : dres value :=
  let '(ty, eof, s1) := next_byte s in
  if eof then DErr ErrFormat else
  if ty =? ByteArrayType then dec_sized XBytes s1
  else if ty =? StringType then dec_sized XString s1
  else if ty =? AddressType then dec_fixed next_address XAddress s1
  else if ty =? BooleanType then dec_bool s1
  else if ty =? IntType then dec_fixed next_i128 (fun x => XInt (i128_to_big x)) s1
  else if ty =? H256Type then dec_fixed next_hash XH256 s1
  else if ty =? ListType then dec_list rec_list s1
  else DErr ErrNotSupported.

Fixpoint decode_fuel (fuel : nat) (s : source) : dres value :=
  match fuel with
  | O => DFuel
  | S f => decode_body (decode_loop (decode_fuel f) f) s
  end.

(** Bytes not yet consumed. *)
Definition remaining (s : source) : nat := length (buf s) - off s.

(** DecodeValue. The recursion bound is the number of unread bytes plus one. *)
Definition decode_value (s : source) : dres value := decode_fuel (S (remaining s)) s.

(** * vmcall_codec.go / notify_codec.go *)
Fixpoint has_prefix (p b : bytes) : bool :=
  match p, b with
  | [], _ => true
  | x :: p', y :: b' => (x =? y) && has_prefix p' b'
  | _ :: _, [] => false
  end.

(** A Go slice expression input[k:] panics when k > len(input). *)
Inductive wres := WRes (r : dres value) | WPanic.

Definition after_prefix (prefix : bytes) (k : nat) (input : bytes) : wres :=
  if negb (has_prefix prefix input) then WRes (DErr ErrFormat)
  else if (k <=? length input)%nat then WRes (decode_value (src_new (skipn k input)))
  else WPanic.

Definition deserialize_call_param : bytes -> wres := after_prefix CALL_PREFIX CALL_SKIP.
Definition parse_notify : bytes -> wres := after_prefix NOTIFY_PREFIX NOTIFY_SKIP.

(** DeserializeNotify: the raw input when parseNotify fails, otherwise the parsed value (which the
    code then renders with [stringify]; the rendering is not modelled). *)
Inductive notify_out := NRaw (b : bytes) | NParsed (v : value) | NPanic.
Definition deserialize_notify (input : bytes) : notify_out :=
  match parse_notify input with
  | WRes (DOk v _) => NParsed v
  | WRes _ => NRaw input
  | WPanic => NPanic
  end.

(** * Well-formedness of encoder inputs, and what a Go value decodes back to *)
Definition in_range (lo hi z : Z) : bool := (lo <=? z)%Z && (z <=? hi)%Z.
Definition int64_ok (z : Z) : bool := in_range (-9223372036854775808) 9223372036854775807 z.
Definition int32_ok (z : Z) : bool := in_range (-2147483648) 2147483647 z.

Fixpoint wf_g (g : gvalue) : bool :=
  match g with
  | GBytes b | GString b => wf_bytes b && (N.of_nat (length b) <? two32)
  | GAddress a => wf_bytes a && (length a =? ADDR_LEN)%nat
  | GH256 h => wf_bytes h && (length h =? UINT256_SIZE)%nat
  | GBool _ => true
  | GBig z => in_range minI128 maxI128 z
  | GInt z | GInt64 z => int64_ok z
  | GInt32 z => int32_ok z
  | GUint32 n => n <? two32
  | GList l => (N.of_nat (length l) <? two32) && forallb wf_g l
  | GOther => false
  end.

(** Types EncodeValue's own switch handles. *)
Definition top_supported (g : gvalue) : bool :=
  match g with GInt32 _ | GUint32 _ | GOther => false | _ => true end.

Fixpoint norm (g : gvalue) : value :=
  match g with
  | GBytes b => XBytes b
  | GString b => XString b
  | GAddress a => XAddress a
  | GBool b => XBool b
  | GH256 h => XH256 h
  | GBig z | GInt z | GInt64 z | GInt32 z => XInt z
  | GUint32 n => XInt (Z.of_N n)
  | GList l => XList (map norm l)
  | GOther => XList []
  end.

Fixpoint embed (v : value) : gvalue :=
  match v with
  | XBytes b => GBytes b
  | XString b => GString b
  | XAddress a => GAddress a
  | XBool b => GBool b
  | XInt z => GBig z
  | XH256 h => GH256 h
  | XList l => GList (map embed l)
  end.

Definition wf_value (v : value) : bool := wf_g (embed v).
Definition encode_value (v : value) : option bytes :=
  match g_encode_elem (embed v) with EOk b => Some b | _ => None end.

(** Boolean equality on values (used by the correspondence). *)
Fixpoint value_eqb (a b : value) : bool :=
  match a, b with
  | XBytes x, XBytes y => bytes_eqb x y
  | XString x, XString y => bytes_eqb x y
  | XAddress x, XAddress y => bytes_eqb x y
  | XBool x, XBool y => eqb x y
  | XInt x, XInt y => Z.eqb x y
  | XH256 x, XH256 y => bytes_eqb x y
  | XList x, XList y =>
    (fix go (x y : list value) : bool :=
       match x, y with
       | [], [] => true
       | v :: x', w :: y' => value_eqb v w && go x' y'
       | _, _ => false
       end) x y
  | _, _ => false
  end.
