(** C45 — the rule, stated independently of the contract's code path: who has to witness a
    transaction for a method of the ONT ID contract to change an identity.

    Nothing here refers to indices supplied by the caller, to operator bytes, to signer lists or
    to Gen/OntIdConsts.v: a witness is a signature address of the transaction that belongs to a
    key stored for an identity, not revoked, with authentication rights. *)
From Coq Require Import List Bool NArith.
Import ListNotations.
From Ont Require Import Model.OntId.
Local Open Scope N_scope.
Open Scope bool_scope.

Section Spec.
  Variable id_valid : id -> bool.   (* account.VerifyID *)
  Variable addr_of : key -> addr.   (* types.AddressFromPubKey *)

  (** "the transaction is witnessed by a non-revoked key of identity [i] that has authentication
      rights" *)
  Definition key_witness (s : state) (sg : list addr) (i : id) : Prop :=
    exists n p, nth_error (r_keys (s i)) n = Some p /\
                pk_revoked p = false /\ pk_auth p = true /\ In (addr_of (pk_key p)) sg.

  Definition live_key_signed (sg : list addr) (p : pk) : bool :=
    negb (pk_revoked p) && pk_auth p && existsb (N.eqb (addr_of (pk_key p))) sg.
  (** the same, decided *)
  Definition key_witness_b (s : state) (sg : list addr) (i : id) : bool :=
    existsb (live_key_signed sg) (r_keys (s i)).

  (** A group is satisfied when at least [threshold] of its members are: an identity member by a
      witnessing key of that identity, a sub-group recursively. *)
  Fixpoint group_sat (P : id -> bool) (g : group) : bool :=
    match g with
    | G ms t =>
        t <=? (fix cnt (l : list member) : N :=
                 match l with
                 | [] => 0
                 | m :: r => (if match m with MId i => P i | MGrp g' => group_sat P g' end
                              then 1 else 0) + cnt r
                 end) ms
    end.

  Definition group_witnessed (s : state) (sg : list addr) (g : group) : Prop :=
    group_sat (key_witness_b s sg) g = true.

  (** the identities a group mentions, at any depth *)
  Fixpoint leaves (g : group) : list id :=
    match g with
    | G ms _ =>
        (fix go (l : list member) : list id :=
           match l with
           | [] => []
           | m :: r => match m with MId i => [i] | MGrp g' => leaves g' end ++ go r
           end) ms
    end.

  (** A group that is satisfied by nobody's signature (threshold 0 somewhere it matters). *)
  Definition vacuous (g : group) : bool := group_sat (fun _ => false) g.

  Definition registered (s : state) (i : id) : Prop := r_flag (s i) = FLAG_VALID.
  Definition unregistered (s : state) (i : id) : Prop := r_flag (s i) = FLAG_NOT_EXIST.
  Definition id_revoked (s : state) (i : id) : Prop := r_flag (s i) = FLAG_REVOKE.

  Definition controller_witnessed (s : state) (sg : list addr) (c : controller) : Prop :=
    match c with
    | CSingle j => key_witness s sg j
    | CGroup g => group_witnessed s sg g
    end.

  (** Who must witness. *)
  Inductive authority :=
  | AOwnKey                 (* a live authentication key of the identity *)
  | AOwnKeyOrOldRecovery    (* ... or its (deprecated, single-address) recovery *)
  | AOldRecovery            (* the deprecated recovery address *)
  | AController             (* the identity's controller: single identity or group *)
  | ARecoveryGroup          (* the identity's recovery group *)
  | ANewKey (k : blob)      (* registration: the key being registered *)
  | ANewController (c : ctrlarg). (* registration: the controller being installed *)

  (** The table: method -> required authority. *)
  Definition required (o : op) : authority :=
    match o with
    | RegIdWithPublicKey _ k | RegIdWithAttributes _ k _ => ANewKey k
    | RegIdWithController _ c _ => ANewController c
    | AddKey _ _ _ | RemoveKey _ _ _ => AOwnKeyOrOldRecovery
    | ChangeRecovery _ _ _ => AOldRecovery
    | RevokeIDByController _ _ | AddKeyByController _ _ _ | RemoveKeyByController _ _ _
    | AddAttributesByController _ _ _ | RemoveAttributeByController _ _ _
    | AddNewAuthKeyByController _ _ _ | SetAuthKeyByController _ _ _
    | RemoveAuthKeyByController _ _ _ => AController
    | UpdateRecovery _ _ _ | AddKeyByRecovery _ _ _ | RemoveKeyByRecovery _ _ _
    | AddNewAuthKeyByRecovery _ _ _ | SetAuthKeyByRecovery _ _ _
    | RemoveAuthKeyByRecovery _ _ _ => ARecoveryGroup
    | AddKeyByIndex _ _ _ | RemoveKeyByIndex _ _ _ | AddAttributes _ _ _
    | AddAttributesByIndex _ _ _ | RemoveAttribute _ _ _ | RemoveAttributeByIndex _ _ _
    | RevokeID _ _ | RemoveController _ _ | AddRecovery _ _ _ | SetRecovery _ _ _
    | RemoveRecovery _ _ | AddNewAuthKey _ _ _ | SetAuthKey _ _ _ | RemoveAuthKey _ _ _ => AOwnKey
    end.

  (** [holds s sg i a]: in state [s] the signer set [sg] carries authority [a] over identity [i]. *)
  Definition holds (s : state) (sg : list addr) (i : id) (a : authority) : Prop :=
    match a with
    | AOwnKey => registered s i /\ key_witness s sg i
    | AOwnKeyOrOldRecovery =>
        registered s i /\
        (key_witness s sg i \/ exists a, r_rec (s i) = Some (ROld a) /\ In a sg)
    | AOldRecovery => registered s i /\ exists a, r_rec (s i) = Some (ROld a) /\ In a sg
    | AController =>
        registered s i /\ exists c, r_ctrl (s i) = Some c /\ controller_witnessed s sg c
    | ARecoveryGroup =>
        registered s i /\ exists g, r_rec (s i) = Some (RNew g) /\ group_witnessed s sg g
    | ANewKey b => unregistered s i /\ exists k, b = BKey k /\ In (addr_of k) sg
    | ANewController c =>
        unregistered s i /\
        if id_valid (ca_id c) then key_witness s sg (ca_id c)
        else exists g, ca_group c = Some g /\ group_witnessed s sg g
    end.

  Definition authorized (s : state) (sg : list addr) (o : op) : Prop :=
    holds s sg (target o) (required o).

  (** The literal reading: behind every accepted change stands at least one witnessing key (or
      the recovery address) — for group authorities, a witnessing key of a mentioned identity. *)
  Definition group_has_witness (s : state) (sg : list addr) (g : group) : Prop :=
    exists j, In j (leaves g) /\ key_witness s sg j.

  Definition has_witness (s : state) (sg : list addr) (i : id) (a : authority) : Prop :=
    match a with
    | AOwnKey => key_witness s sg i
    | AOwnKeyOrOldRecovery =>
        key_witness s sg i \/ exists a, r_rec (s i) = Some (ROld a) /\ In a sg
    | AOldRecovery => exists a, r_rec (s i) = Some (ROld a) /\ In a sg
    | AController =>
        match r_ctrl (s i) with
        | Some (CSingle j) => key_witness s sg j
        | Some (CGroup g) => group_has_witness s sg g
        | None => False
        end
    | ARecoveryGroup =>
        match r_rec (s i) with
        | Some (RNew g) => group_has_witness s sg g
        | _ => False
        end
    | ANewKey b => exists k, b = BKey k /\ In (addr_of k) sg
    | ANewController c =>
        if id_valid (ca_id c) then key_witness s sg (ca_id c)
        else match ca_group c with Some g => group_has_witness s sg g | None => False end
    end.

  (** the group (if any) whose satisfaction the authority rests on *)
  Definition authority_group (s : state) (i : id) (a : authority) : option group :=
    match a with
    | AController => match r_ctrl (s i) with Some (CGroup g) => Some g | _ => None end
    | ARecoveryGroup => match r_rec (s i) with Some (RNew g) => Some g | _ => None end
    | ANewController c => if id_valid (ca_id c) then None else ca_group c
    | _ => None
    end.
End Spec.

(** Histories: the list of (state before, event, state after) of a run. *)
Section Trace.
  Variables (id_ok id_valid : id -> bool) (addr_of : key -> addr).
  Fixpoint trace (s : state) (h : list event) : list (state * event * state) :=
    match h with
    | [] => []
    | e :: h' => let s' := step_ev id_ok id_valid addr_of s e in (s, e, s') :: trace s' h'
    end.
  Definition accepted (s : state) (e : event) : Prop :=
    step id_ok id_valid addr_of (e_legacy e) s (e_signers e) (e_op e) <> None.
End Trace.
