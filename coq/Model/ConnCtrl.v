(** Executable model of p2pserver/connect_controller (ConnectController, Conn.Close) under
    concurrent AcceptConnect / Connect / Close.

    Every mutex-protected method is ONE atomic step; a connection attempt is a thread that
    executes the program extracted from the source (Gen/ConnCtrlProg.v: accept_prog,
    connect_prog) one item at a time, so any other thread may run between two sections - exactly
    the freedom the Go scheduler has, since the mutex is released between the sections.

    Addresses are pairs (ip, port) of numbers: [ip] stands for the host text exactly as
    common.ParseIPAddr (net.SplitHostPort) yields it - the key of the per-IP count - and the
    driver maps every number to one host text (IPv4, IPv6, IPv4-mapped IPv6, texts that are
    prefixes of one another). By convention numbers >= 100 are hosts containing ':' (IPv6): their
    "ip:port" text is bracketed ([h]:p), while isHandWithSelf and RemoteListenAddress build
    h + ":" + p WITHOUT brackets, so the own address and the inbound listen addresses of such
    hosts never equal a connection address (host_has_colon below).
    Peer ids are numbers (PeerId.ToUint64). Sets (strset) are duplicate-free lists.
    Not modelled: host names (the address checked before the dial and the address recorded after
    it are the same pair), malformed addresses, data races inside a section.

    Definitions only; proofs are in Proofs/C36.v. *)
From Coq Require Import List Bool NArith Arith.
Import ListNotations.
From Ont Require Export Model.ConnCtrlOps Gen.ConnCtrlProg.
Local Open Scope N_scope.

Definition addr := (N * N)%type.
Definition addr_eqb (a b : addr) : bool := (fst a =? fst b) && (snd a =? snd b).
Definition amem (a : addr) (l : list addr) : bool := existsb (addr_eqb a) l.
(** strset.Add / strset.Remove *)
Definition aset_add (a : addr) (l : list addr) : list addr := if amem a l then l else a :: l.
Definition aset_remove (a : addr) (l : list addr) : list addr := filter (fun b => negb (addr_eqb a b)) l.

Inductive dir := Inbound | Outbound.
Definition dir_eqb (a b : dir) : bool :=
  match a, b with Inbound, Inbound | Outbound, Outbound => true | _, _ => false end.

(** ConnCtrlOption (uint limits) and the node's own id *)
Record cfg := { max_in : N; max_out : N; max_per_ip : N; self_id : N }.

(** ConnectController fields protected by `mutex` (+ nextConnectId, + whether logger.Fatalf fired) *)
Record ctrl := {
  c_in : list addr;                      (* inoutbounds[INBOUND_INDEX] *)
  c_out : list addr;                     (* inoutbounds[OUTBOUND_INDEX] *)
  c_listen : list addr;                  (* inboundListenAddress *)
  c_connecting : list addr;              (* connecting *)
  c_peers : list (N * (N * addr));       (* peers: id -> (connectId, addr) *)
  c_own : option addr;                   (* ownListenAddr, None = "" *)
  c_nextcid : N;                         (* nextConnectId (uint64, atomic add) *)
  c_fatal : bool
}.

Definition ctrl_init : ctrl :=
  {| c_in := []; c_out := []; c_listen := []; c_connecting := []; c_peers := []; c_own := None;
     c_nextcid := 0; c_fatal := false |}.

(** the Conn wrapper returned by savePeer *)
Record conn := { k_cid : N; k_addr : addr; k_listen : addr; k_pid : N; k_dir : dir }.

Definition bound (c : ctrl) (d : dir) : list addr :=
  match d with Inbound => c_in c | Outbound => c_out c end.

Definition set_bound (c : ctrl) (d : dir) (l : list addr) : ctrl :=
  match d with
  | Inbound => {| c_in := l; c_out := c_out c; c_listen := c_listen c; c_connecting := c_connecting c;
                  c_peers := c_peers c; c_own := c_own c; c_nextcid := c_nextcid c; c_fatal := c_fatal c |}
  | Outbound => {| c_in := c_in c; c_out := l; c_listen := c_listen c; c_connecting := c_connecting c;
                  c_peers := c_peers c; c_own := c_own c; c_nextcid := c_nextcid c; c_fatal := c_fatal c |}
  end.
Definition set_listen (c : ctrl) (l : list addr) : ctrl :=
  {| c_in := c_in c; c_out := c_out c; c_listen := l; c_connecting := c_connecting c;
     c_peers := c_peers c; c_own := c_own c; c_nextcid := c_nextcid c; c_fatal := c_fatal c |}.
Definition set_connecting (c : ctrl) (l : list addr) : ctrl :=
  {| c_in := c_in c; c_out := c_out c; c_listen := c_listen c; c_connecting := l;
     c_peers := c_peers c; c_own := c_own c; c_nextcid := c_nextcid c; c_fatal := c_fatal c |}.
Definition set_peers (c : ctrl) (p : list (N * (N * addr))) : ctrl :=
  {| c_in := c_in c; c_out := c_out c; c_listen := c_listen c; c_connecting := c_connecting c;
     c_peers := p; c_own := c_own c; c_nextcid := c_nextcid c; c_fatal := c_fatal c |}.
Definition set_own (c : ctrl) (o : option addr) : ctrl :=
  {| c_in := c_in c; c_out := c_out c; c_listen := c_listen c; c_connecting := c_connecting c;
     c_peers := c_peers c; c_own := o; c_nextcid := c_nextcid c; c_fatal := c_fatal c |}.
Definition set_nextcid (c : ctrl) (n : N) : ctrl :=
  {| c_in := c_in c; c_out := c_out c; c_listen := c_listen c; c_connecting := c_connecting c;
     c_peers := c_peers c; c_own := c_own c; c_nextcid := n; c_fatal := c_fatal c |}.
Definition set_fatal (c : ctrl) : ctrl :=
  {| c_in := c_in c; c_out := c_out c; c_listen := c_listen c; c_connecting := c_connecting c;
     c_peers := c_peers c; c_own := c_own c; c_nextcid := c_nextcid c; c_fatal := true |}.

(** * The sections *)

(** the host text contains ':' (IPv6): net.JoinHostPort / RemoteAddr().String() bracket it *)
Definition host_has_colon (ip : N) : bool := 100 <=? ip.

(** hasBoundAddr. inboundListenAddress holds host + ":" + port (RemoteListenAddress, no
    brackets), so an address with a bracketed host is never found there. *)
Definition has_bound_addr (c : ctrl) (a : addr) : bool :=
  amem a (c_in c) || amem a (c_out c) || (amem a (c_listen c) && negb (host_has_colon (fst a))).

(** boundsCount *)
Definition bounds_count (c : ctrl) (d : dir) : N := N.of_nat (length (bound c d)).

(** isBoundFull: boundsCount under the lock, then the comparison from the source *)
Definition is_bound_full (cf : cfg) (c : ctrl) (d : dir) : bool :=
  match d with
  | Inbound => full_cmp_in (bounds_count c Inbound) (max_in cf)
  | Outbound => full_cmp_out (bounds_count c Outbound) (max_out cf)
  end.

(** getInboundCountWithIp *)
Definition inbound_count_with_ip (c : ctrl) (ip : N) : N :=
  N.of_nat (length (filter (fun a => fst a =? ip) (c_in c))).

Fixpoint peers_get (p : list (N * (N * addr))) (id : N) : option (N * addr) :=
  match p with
  | [] => None
  | (i, v) :: r => if i =? id then Some v else peers_get r id
  end.
Definition peers_del (p : list (N * (N * addr))) (id : N) := filter (fun e => negb (fst e =? id)) p.
Definition peers_set (p : list (N * (N * addr))) (id : N) (v : N * addr) := (id, v) :: peers_del p id.

Definition two64 : N := 18446744073709551616.

(** savePeer (addr = conn.RemoteAddr(), listen = host(addr):p.Port) *)
Definition save_peer (c : ctrl) (d : dir) (a : addr) (pid lport : N) : ctrl * conn :=
  let listen := (fst a, lport) in
  let c1 := set_bound c d (aset_add a (bound c d)) in
  let c2 := match d with Inbound => set_listen c1 (aset_add listen (c_listen c1)) | Outbound => c1 end in
  let cid := (c_nextcid c2 + 1) mod two64 in
  let c3 := set_nextcid c2 cid in
  let c4 := set_peers c3 (peers_set (c_peers c3) pid (cid, a)) in
  (c4, {| k_cid := cid; k_addr := a; k_listen := listen; k_pid := pid; k_dir := d |}).

(** removePeer (from Conn.Close) *)
Definition remove_peer (c : ctrl) (k : conn) : ctrl :=
  let c1 := set_bound c (k_dir k) (aset_remove (k_addr k) (bound c (k_dir k))) in
  let c2 := match k_dir k with Inbound => set_listen c1 (aset_remove (k_listen k) (c_listen c1)) | Outbound => c1 end in
  match peers_get (c_peers c2) (k_pid k) with
  | None => set_fatal c2
  | Some (cid, _) => if cid =? k_cid k then set_peers c2 (peers_del (c_peers c2) (k_pid k)) else c2
  end.

(** * Connection attempts *)

Inductive err :=
| ENotReserved | EAlreadyBound | ESelfAddr | EBoundFull | EIpFull | EConnecting | EDial | EHandshake
| EHandshakeSelf | EPeerIpMismatch.

Inductive outcome := Pending | Done | Failed (e : err).

(** One in-flight AcceptConnect / Connect call. The first block of fields is fixed at the call
    (what the environment will answer: reserve filter, dialer, the remote's handshake); t_pc
    counts the executed items of the program, t_defer is the stack of registered defers. *)
Record thread := {
  t_dir : dir; t_addr : addr; t_pid : N; t_lport : N;
  t_reserved : bool; t_dial_ok : bool; t_hs_ok : bool;
  t_pc : nat; t_defer : list op; t_out : outcome
}.

Definition prog_of (d : dir) : list item :=
  match d with Inbound => accept_prog | Outbound => connect_prog end.

Definition set_thread (t : thread) (pc : nat) (df : list op) (o : outcome) : thread :=
  {| t_dir := t_dir t; t_addr := t_addr t; t_pid := t_pid t; t_lport := t_lport t;
     t_reserved := t_reserved t; t_dial_ok := t_dial_ok t; t_hs_ok := t_hs_ok t;
     t_pc := pc; t_defer := df; t_out := o |}.

(** One atomic section executed by thread [t]: new controller state, the error that ends the
    attempt (if any), the connection recorded (OpSave only). [recheck] is NOT the code: it is the
    proposed repair (savePeer re-validates the three conditions under its own lock). *)
Definition exec_op (recheck : bool) (cf : cfg) (c : ctrl) (t : thread) (o : op)
  : ctrl * option err * option conn :=
  let a := t_addr t in
  match o with
  | OpReserved => (c, if t_reserved t then None else Some ENotReserved, None)
  | OpHasBound => (c, if has_bound_addr c a then Some EAlreadyBound else None, None)
  | OpOwn => (c, match c_own c with
                 | Some o' => if addr_eqb o' a && negb (host_has_colon (fst a)) then Some ESelfAddr else None
                 | None => None end, None)
  | OpFull => (c, if is_bound_full cf c (t_dir t) then Some EBoundFull else None, None)
  | OpIpCount => (c, if ip_full_cmp (inbound_count_with_ip c (fst a)) (max_per_ip cf)
                     then Some EIpFull else None, None)
  | OpTryConnecting =>
      if amem a (c_connecting c) then (c, Some EConnecting, None)
      else (set_connecting c (a :: c_connecting c), None, None)
  | OpDial => (c, if t_dial_ok t then None else Some EDial, None)
  | OpHandshake => (c, if t_hs_ok t then None else Some EHandshake, None)
  | OpSelfCheck =>
      if t_pid t =? self_id cf then (set_own c (Some (fst a, t_lport t)), Some EHandshakeSelf, None)
      else (c, None, None)
  | OpGetPeer =>
      (c, match peers_get (c_peers c) (t_pid t) with
          | Some (_, olda) => if fst olda =? fst a then None else Some EPeerIpMismatch
          | None => None end, None)
  | OpSave =>
      if recheck && (amem a (bound c (t_dir t)) || is_bound_full cf c (t_dir t)
                     || match t_dir t with
                        | Inbound => ip_full_cmp (inbound_count_with_ip c (fst a)) (max_per_ip cf)
                        | Outbound => false end)
      then (c, Some EBoundFull, None)
      else let '(c', k) := save_peer c (t_dir t) a (t_pid t) (t_lport t) in (c', None, Some k)
  | OpRemoveConnecting => (set_connecting c (aset_remove a (c_connecting c)), None, None)
  end.

(** One scheduling step of thread [t]. *)
Definition run_thread (recheck : bool) (cf : cfg) (c : ctrl) (t : thread) : ctrl * thread * option conn :=
  match t_out t with
  | Pending =>
      match nth_error (prog_of (t_dir t)) (t_pc t) with
      | None => (c, set_thread t (t_pc t) (t_defer t) Done, None)
      | Some (IDefer o) =>
          let pc := S (t_pc t) in
          (c, set_thread t pc (o :: t_defer t)
                (if Nat.leb (length (prog_of (t_dir t))) pc then Done else Pending), None)
      | Some (IOp o) =>
          let '(c', e, k) := exec_op recheck cf c t o in
          let pc := S (t_pc t) in
          match e with
          | Some e => (c', set_thread t pc (t_defer t) (Failed e), k)
          | None => (c', set_thread t pc (t_defer t)
                           (if Nat.leb (length (prog_of (t_dir t))) pc then Done else Pending), k)
          end
      end
  | _ =>  (* the function is returning: run the deferred calls, last registered first *)
      match t_defer t with
      | [] => (c, t, None)
      | o :: r => let '(c', _, _) := exec_op recheck cf c t o in (c', set_thread t (t_pc t) r (t_out t), None)
      end
  end.

(** thread has nothing left to do (AcceptConnect / Connect has returned) *)
Definition finished (t : thread) : bool :=
  match t_out t with Pending => false | _ => match t_defer t with [] => true | _ => false end end.

(** * The system: controller + in-flight calls + established connections *)
Record sys := { s_ctrl : ctrl; s_threads : list thread; s_live : list conn }.

Definition sys_init : sys := {| s_ctrl := ctrl_init; s_threads := []; s_live := [] |}.

Inductive ev :=
| Spawn (d : dir) (a : addr) (pid lport : N) (reserved dial_ok hs_ok : bool)   (* a new call *)
| Run (tid : nat)                                                              (* next section of call tid *)
| Close (i : nat).                                                             (* Conn.Close of the i-th live connection *)

Fixpoint upd {A} (l : list A) (i : nat) (x : A) : list A :=
  match l, i with
  | [], _ => []
  | _ :: r, O => x :: r
  | y :: r, S i => y :: upd r i x
  end.

Fixpoint del_nth {A} (l : list A) (i : nat) : list A :=
  match l, i with
  | [], _ => []
  | _ :: r, O => r
  | y :: r, S i => y :: del_nth r i
  end.

Definition new_thread (d : dir) (a : addr) (pid lport : N) (r dl hs : bool) : thread :=
  {| t_dir := d; t_addr := a; t_pid := pid; t_lport := lport; t_reserved := r; t_dial_ok := dl;
     t_hs_ok := hs; t_pc := 0; t_defer := []; t_out := Pending |}.

Definition step (recheck : bool) (cf : cfg) (s : sys) (e : ev) : sys :=
  match e with
  | Spawn d a pid lport r dl hs =>
      {| s_ctrl := s_ctrl s; s_threads := s_threads s ++ [new_thread d a pid lport r dl hs]; s_live := s_live s |}
  | Run i =>
      match nth_error (s_threads s) i with
      | None => s
      | Some t =>
          let '(c', t', k) := run_thread recheck cf (s_ctrl s) t in
          {| s_ctrl := c'; s_threads := upd (s_threads s) i t';
             s_live := match k with Some k => s_live s ++ [k] | None => s_live s end |}
      end
  | Close i =>
      match nth_error (s_live s) i with
      | None => s
      | Some k => {| s_ctrl := remove_peer (s_ctrl s) k; s_threads := s_threads s; s_live := del_nth (s_live s) i |}
      end
  end.

(** states after each event of a schedule (the start state excluded) *)
Fixpoint trace (recheck : bool) (cf : cfg) (s : sys) (sched : list ev) : list sys :=
  match sched with
  | [] => []
  | e :: r => let s' := step recheck cf s e in s' :: trace recheck cf s' r
  end.

Definition run (recheck : bool) (cf : cfg) (sched : list ev) : sys := fold_left (step recheck cf) sched sys_init.

(** * Observables the property speaks about *)

Definition recorded (s : sys) (d : dir) : N := bounds_count (s_ctrl s) d.         (* InboundsCount / OutboundsCount *)
Definition recorded_ip (s : sys) (ip : N) : N := inbound_count_with_ip (s_ctrl s) ip.
Definition live_count (s : sys) (d : dir) : N :=                                   (* successful calls not yet closed *)
  N.of_nat (length (filter (fun k => dir_eqb (k_dir k) d) (s_live s))).
Definition live_count_ip (s : sys) (ip : N) : N :=
  N.of_nat (length (filter (fun k => dir_eqb (k_dir k) Inbound && (fst (k_addr k) =? ip)) (s_live s))).

Definition limit_of (cf : cfg) (d : dir) : N := match d with Inbound => max_in cf | Outbound => max_out cf end.

Definition limits_hold_b (cf : cfg) (ips : list N) (s : sys) : bool :=
  (recorded s Inbound <=? max_in cf) && (recorded s Outbound <=? max_out cf)
  && (live_count s Inbound <=? max_in cf) && (live_count s Outbound <=? max_out cf)
  && forallb (fun ip => (recorded_ip s ip <=? max_per_ip cf) && (live_count_ip s ip <=? max_per_ip cf)) ips.

(** * The window of an attempt: it has executed at least one of the sections that read the
    bound sets (hasBoundAddr, isBoundFull, getInboundCountWithIp) and has neither executed
    savePeer nor failed. *)
Definition is_check (i : item) : bool :=
  item_is OpHasBound i || item_is OpFull i || item_is OpIpCount i.

Definition in_window (t : thread) : bool :=
  match t_out t with
  | Pending => existsb is_check (firstn (t_pc t) (prog_of (t_dir t)))
               && existsb (item_is OpSave) (skipn (t_pc t) (prog_of (t_dir t)))
  | _ => false
  end.

Definition window_count (s : sys) (d : dir) : nat :=
  length (filter (fun t => dir_eqb (t_dir t) d && in_window t) (s_threads s)).
