(** C35 model: txnpool/common/transaction_pool.go (TXPool), txnpool/common/tx_list.go
    (txSortedMap), validator/increment/increment.go (IncrementValidator) and the proposer
    sequence of consensus (vbft validHeight/makeProposal, solo makeBlock), over an abstract
    ledger (chain of blocks + EVM account nonces).

    Definitions only.  Go maps are association lists kept sorted by key (Go map iteration order
    is unspecified: the two places where the code's output depends on it take an ordering oracle,
    see [get_tx_pool]).  The nonce heap of txSortedMap is the key list of the sorted item list
    (its minimum is the first key).  Integer expressions and constants come from
    Gen/TxPoolGen.v (regenerated from the source on every run). *)
From Coq Require Import List Bool NArith.
Import ListNotations.
From Ont Require Export Gen.TxPoolGen.
Local Open Scope N_scope.
Open Scope bool_scope.

Definition U32 : N := 4294967296.
Definition U64 : N := 18446744073709551616.

(** * Association lists with N keys (sorted insert) *)
Section AL.
  Context {V : Type}.
  Fixpoint aget (k : N) (l : list (N * V)) : option V :=
    match l with
    | [] => None
    | (k', v) :: r => if k =? k' then Some v else aget k r
    end.
  Fixpoint aput (k : N) (v : V) (l : list (N * V)) : list (N * V) :=
    match l with
    | [] => [(k, v)]
    | (k', v') :: r =>
        if k <? k' then (k, v) :: l
        else if k =? k' then (k, v) :: r
        else (k', v') :: aput k v r
    end.
  Definition adel (k : N) (l : list (N * V)) : list (N * V) :=
    filter (fun kv => negb (fst kv =? k)) l.
  Definition ahas (k : N) (l : list (N * V)) : bool :=
    match aget k l with Some _ => true | None => false end.
End AL.

(** * Transactions *)
(** [tx_hash] stands for the 32-byte hash (the driver numbers the hashes it sees);
    [tx_nonce] is types.Transaction.Nonce (uint32), [tx_price] is GasPrice (uint64). *)
Record tx := mkTx { tx_hash : N; tx_eip : bool; tx_payer : N; tx_nonce : N; tx_price : N }.

(** VerifiedTx *)
Record vtx := mkV { v_tx : tx; v_height : N; v_nonce : N }.

Definition tx_eqb (a b : tx) : bool :=
  (tx_hash a =? tx_hash b) && Bool.eqb (tx_eip a) (tx_eip b) && (tx_payer a =? tx_payer b)
  && (tx_nonce a =? tx_nonce b) && (tx_price a =? tx_price b).

Inductive errcode := ENoError | ENonceTooBig | ESameNonce | EDuplicated.

(** * txSortedMap (tx_list.go) : nonce -> tx, sorted by nonce *)
Definition smap := list (N * tx).

(** Forward(threshold): pops the heap while its minimum is below the threshold. *)
Definition sm_forward (thr : N) (m : smap) : list tx * smap :=
  (map snd (filter (fun kv => fst kv <? thr) m), filter (fun kv => negb (fst kv <? thr)) m).

(** Remove(nonce) *)
Definition sm_remove (n : N) (m : smap) : bool * smap := (ahas n m, adel n m).

(** Heading(): from the smallest nonce upwards while the next nonce is present.  At most
    [length m] items can be found, so that is the fuel (the Go loop has none). *)
Fixpoint heading_from (m : smap) (n : N) (fuel : nat) : list tx :=
  match fuel with
  | O => []
  | S f => match aget n m with
           | Some t => t :: heading_from m ((n + 1) mod U64) f
           | None => []
           end
  end.
Definition heading (m : smap) : list tx :=
  match m with
  | [] => []
  | (n, _) :: _ => heading_from m n (length m)
  end.

(** * TXPool *)
Record pool := mkPool {
  p_valid : list (N * vtx);          (* validTxMap, keyed by hash *)
  p_eips : list (N * smap);          (* eipTxPool, keyed by payer *)
  p_latest : list (N * (N * N))      (* userLatestEiptxHeight: payer -> (Height, Nonce) *)
}.
Definition pool_empty : pool := mkPool [] [] [].

(** addEIPTxPool *)
Definition add_eip_tx_pool (p : pool) (t : tx) : pool * option tx * errcode :=
  let items := match aget (tx_payer t) (p_eips p) with Some m => m | None => [] end in
  let put := mkPool (p_valid p) (aput (tx_payer t) (aput (tx_nonce t) t items) (p_eips p)) (p_latest p) in
  match aget (tx_nonce t) items with
  | None => (put, None, ENoError)
  | Some old =>
      if repl_rhs (tx_price old) <? tx_price t then (put, Some old, ENoError)
      else (p, None, ESameNonce)   (* the list exists already: getTxListByAddr creates nothing *)
  end.

(** AddTxList *)
Definition add_tx_list (p : pool) (e : vtx) : pool * errcode :=
  let t := v_tx e in
  let fin (p : pool) :=
    if ahas (tx_hash t) (p_valid p) then (p, EDuplicated)
    else (mkPool (aput (tx_hash t) e (p_valid p)) (p_eips p) (p_latest p), ENoError) in
  if tx_eip t then
    if gap_rhs (v_nonce e) <=? tx_nonce t then (p, ENonceTooBig)
    else
      match add_eip_tx_pool p t with
      | (p1, replaced, code) =>
          let p2 := match replaced with
                    | Some o => mkPool (adel (tx_hash o) (p_valid p1)) (p_eips p1) (p_latest p1)
                    | None => p1
                    end in
          match code with
          | ENoError =>
              let p3 := if ahas (tx_payer t) (p_latest p2) then p2
                        else mkPool (p_valid p2) (p_eips p2)
                               (aput (tx_payer t) (v_height e, v_nonce e) (p_latest p2)) in
              fin p3
          | _ => (p2, code)
          end
      end
  else fin p.

(** cleanCompletedEipTxPool *)
Fixpoint clean_completed_eip (txs : list tx) (height : N) (p : pool) : list tx * pool :=
  match txs with
  | [] => ([], p)
  | t :: r =>
      let '(c1, p1) :=
        if tx_eip t then
          match aget (tx_payer t) (p_eips p) with
          | Some m =>
              let '(removed, m') := sm_forward (forward_threshold (tx_nonce t)) m in
              match m' with
              | [] => (removed, mkPool (p_valid p) (adel (tx_payer t) (p_eips p)) (adel (tx_payer t) (p_latest p)))
              | _ => (removed, mkPool (p_valid p) (aput (tx_payer t) m' (p_eips p))
                                  (aput (tx_payer t) (height, latest_nonce (tx_nonce t)) (p_latest p)))
              end
          | None => ([], p)
          end
        else ([], p) in
      let '(c2, p2) := clean_completed_eip r height p1 in
      (c1 ++ c2, p2)
  end.

Definition del_hashes (txs : list tx) (v : list (N * vtx)) : list (N * vtx) :=
  fold_left (fun v t => adel (tx_hash t) v) txs v.

(** CleanCompletedTransactionList *)
Definition clean_completed (txs : list tx) (height : N) (p : pool) : pool :=
  let '(cleaned, p1) := clean_completed_eip txs height p in
  mkPool (del_hashes (txs ++ cleaned) (p_valid p1)) (p_eips p1) (p_latest p1).

(** CleanStaledEIPTx *)
Definition clean_staled (height : N) (p : pool) : pool :=
  if MAX_LIMITATION <? N.of_nat (length (p_valid p)) then
    fold_left (fun p (kv : N * (N * N)) =>
      let '(addr, (h, _)) := kv in
      if (h + EIPTX_EXPIRATION_BLOCKS) mod U32 <=? height then
        let p1 := match aget addr (p_eips p) with
                  | Some m => mkPool (del_hashes (map snd m) (p_valid p)) (adel addr (p_eips p)) (p_latest p)
                  | None => p
                  end in
        mkPool (p_valid p1) (p_eips p1) (adel addr (p_latest p1))
      else p) (p_latest p) p
  else p.

(** eipTxPool[payer].Remove(nonce) on a possibly missing list: a nil *txSortedMap would be
    dereferenced (panic); [false] in the second component records that. *)
Definition eips_remove (payer nonce : N) (eips : list (N * smap)) : list (N * smap) * bool :=
  match aget payer eips with
  | Some m => (aput payer (snd (sm_remove nonce m)) eips, true)
  | None => (eips, false)
  end.

(** RemoveTxsBelowGasPrice *)
Definition remove_below_price (g : N) (p : pool) : pool * bool :=
  fold_left (fun (acc : pool * bool) (kv : N * vtx) =>
    let '(p, ok) := acc in
    let t := v_tx (snd kv) in
    if tx_price t <? g then
      let v' := adel (tx_hash t) (p_valid p) in
      if tx_eip t then
        let '(e', ok') := eips_remove (tx_payer t) (tx_nonce t) (p_eips p) in
        (mkPool v' e' (p_latest p), ok && ok')
      else (mkPool v' (p_eips p) (p_latest p), ok)
    else (p, ok)) (p_valid p) (p, true).

(** Remain *)
Definition remain (p : pool) : list tx * pool :=
  (map (fun kv => v_tx (snd kv)) (p_valid p), mkPool [] [] (p_latest p)).

(** selectSortEIP155WithLock.  [pick]: index of the list whose current head has the highest gas
    price, the last one among equals ([>=] in the code); 0 when all are exhausted. *)
Fixpoint pick (ls : list (list tx)) (i best : nat) (bestp : N) : nat :=
  match ls with
  | [] => best
  | [] :: r => pick r (S i) best bestp
  | (t :: _) :: r => if bestp <=? tx_price t then pick r (S i) i (tx_price t) else pick r (S i) best bestp
  end.

Fixpoint set_nth {A} (i : nat) (x : A) (l : list A) : list A :=
  match l, i with
  | [], _ => []
  | _ :: r, O => x :: r
  | y :: r, S j => y :: set_nth j x r
  end.

Fixpoint select_sort (fuel : nat) (ls : list (list tx)) (valid : list (N * vtx)) : list vtx :=
  match fuel with
  | O => []
  | S f =>
      let i := pick ls 0 0 0 in
      match nth i ls [] with
      | [] => []   (* not reachable while fuel counts the remaining transactions *)
      | t :: rest =>
          (match aget (tx_hash t) valid with Some e => [e] | None => [] end)
          ++ select_sort f (set_nth i rest ls) valid
      end
  end.

(** sort.Sort(OrderByNetWorkFee): descending gas price.  Canonical instance of the ordering
    oracle: stable insertion sort of the hash-ordered entries. *)
Fixpoint ins_price (e : vtx) (l : list vtx) : list vtx :=
  match l with
  | [] => [e]
  | x :: r => if tx_price (v_tx x) <? tx_price (v_tx e) then e :: l else x :: ins_price e r
  end.
Definition sort_price (l : list vtx) : list vtx := fold_right ins_price [] l.

Record order_oracle := mkOracle {
  oe : list (list tx) -> list (list tx);   (* iteration order of eipTxPool *)
  oo : list vtx -> list vtx                (* iteration order of validTxMap + sort.Sort *)
}.
Definition canonical_oracle : order_oracle := mkOracle (fun l => l) sort_price.

Record gtp_result := mkG { g_valid : list vtx; g_old : list tx; g_pool : pool; g_ok : bool }.

Fixpoint gtp_loop (l : list vtx) (height : N) (count : nat) (valid : list vtx) (old : list tx)
  : list vtx * list tx :=
  match l with
  | [] => (rev valid, rev old)
  | e :: r =>
      if v_height e <? height then gtp_loop r height count valid (v_tx e :: old)
      else if Nat.ltb (length valid) count then gtp_loop r height count (e :: valid) old
      else gtp_loop r height count valid old
  end.

(** GetTxPool(byCount, height) with config.DefConfig.Consensus.MaxTxInBlock = [maxtx] *)
Definition get_tx_pool (o : order_oracle) (byCount : bool) (height maxtx : N) (p : pool) : gtp_result :=
  let eiplst := oe o (map (fun kv => heading (snd kv)) (p_eips p)) in
  let total := length (concat eiplst) in
  let eiptxs := select_sort total eiplst (p_valid p) in
  let ord := oo o (filter (fun e => negb (tx_eip (v_tx e))) (map snd (p_valid p))) in
  let all := eiptxs ++ ord in
  (* count := int(MaxTxInBlock) (a uint): not positive when 0 or >= 2^63 *)
  let byCount := if (maxtx =? 0) || (9223372036854775808 <=? maxtx) then false else byCount in
  let count := if (N.of_nat (length all) <? maxtx) || negb byCount then length all else N.to_nat maxtx in
  let '(valid, old) := gtp_loop all height count [] [] in
  let '(p', ok) :=
    fold_left (fun (acc : pool * bool) (t : tx) =>
      let '(p, ok) := acc in
      let v' := adel (tx_hash t) (p_valid p) in
      if tx_eip t then
        let '(e', ok') := eips_remove (tx_payer t) (tx_nonce t) (p_eips p) in
        (mkPool v' e' (p_latest p), ok && ok')
      else (mkPool v' (p_eips p) (p_latest p), ok)) old (p, true) in
  mkG valid old p' ok.

(** * IncrementValidator (validator/increment/increment.go) *)
Record ival := mkIv {
  iv_blocks : list (list N);          (* per block: the transaction hashes *)
  iv_base : N;                        (* baseHeight (uint32) *)
  iv_max : nat;                       (* maxBlocks *)
  iv_nonces : list (list (N * N))     (* per block: payer -> nonce after the block's last tx of that payer *)
}.

(** NewIncrementValidator(maxBlocks) ([maxBlocks <= 0] falls back to the default) *)
Definition iv_new (maxBlocks : N) : ival :=
  mkIv [] 0 (N.to_nat (if maxBlocks =? 0 then IV_DEFAULT_WINDOW else maxBlocks)) [].

Definition iv_clean (v : ival) : ival := mkIv [] 0 (iv_max v) [].

Definition iv_end (v : ival) : N := (iv_base v + N.of_nat (length (iv_blocks v))) mod U32.
Definition iv_range (v : ival) : N * N := (iv_base v, iv_end v).

Definition block_nonces (b : list tx) : list (N * N) :=
  fold_left (fun m t => if tx_eip t then aput (tx_payer t) (iv_block_nonce (tx_nonce t)) m else m) b [].

(** AddBlock(block) with block.Header.Height = [height] *)
Definition iv_add_block (height : N) (b : list tx) (v : ival) : ival :=
  let base := match iv_blocks v with [] => height | _ => iv_base v end in
  if negb ((base + N.of_nat (length (iv_blocks v))) mod U32 =? height) then
    mkIv (iv_blocks v) base (iv_max v) (iv_nonces v)
  else
    let '(blocks, base', nonces) :=
      if Nat.leb (iv_max v) (length (iv_blocks v))
      then (tl (iv_blocks v), (base + 1) mod U32, tl (iv_nonces v))
      else (iv_blocks v, base, iv_nonces v) in
    mkIv (blocks ++ [map tx_hash b]) base' (iv_max v) (nonces ++ [block_nonces b]).

Inductive verr := VOk | VBelowBase | VDuplicated | VWrongNonce.

Definition nget (k : N) (m : list (N * N)) : N := match aget k m with Some x => x | None => 0 end.

(** the latest non-zero nonce recorded for [payer] in the window *)
Definition window_nonce (payer : N) (nonces : list (list (N * N))) : N :=
  fold_left (fun acc m => let x := nget payer m in if x =? 0 then acc else x) nonces 0.

(** Verify(tx, startHeight, nonceCtx); [ledger_nonce] is ledger.DefLedger.GetEthAccount(payer).Nonce.
    The context is updated in place, also on the wrong-nonce error path. *)
Definition iv_verify (v : ival) (ledger_nonce : N -> N) (t : tx) (startHeight : N) (ctx : list (N * N))
  : verr * list (N * N) :=
  if startHeight <? iv_base v then (VBelowBase, ctx)
  else if existsb (fun blk => existsb (N.eqb (tx_hash t)) blk)
            (skipn (N.to_nat (startHeight - iv_base v)) (iv_blocks v)) then (VDuplicated, ctx)
  else if tx_eip t then
    let ctx1 :=
      if nget (tx_payer t) ctx =? 0 then
        let w := window_nonce (tx_payer t) (iv_nonces v) in
        let ctxw := if w =? 0 then ctx else aput (tx_payer t) w ctx in
        if nget (tx_payer t) ctxw =? 0 then aput (tx_payer t) (ledger_nonce (tx_payer t)) ctxw else ctxw
      else ctx in
    if negb (tx_nonce t =? nget (tx_payer t) ctx1) then (VWrongNonce, ctx1)
    else (VOk, aput (tx_payer t) (iv_next_nonce (tx_nonce t)) ctx1)
  else (VOk, ctx).

(** the proposer's loop: keep what Verify accepts, threading one context *)
Fixpoint verify_filter (v : ival) (ln : N -> N) (startHeight : N) (l : list tx) (ctx : list (N * N)) : list tx :=
  match l with
  | [] => []
  | t :: r =>
      let '(res, ctx') := iv_verify v ln t startHeight ctx in
      match res with
      | VOk => t :: verify_filter v ln startHeight r ctx'
      | _ => verify_filter v ln startHeight r ctx'
      end
  end.

(** * The node: ledger, pool, validator *)
(** [w_chain]: blocks by height (index 0 = genesis).  [w_nonce]: EVM account nonces in the
    ledger's state.  The ledger executes an EIP-155 transaction only when its nonce equals the
    account nonce and then increments it (evm state_transition preCheck; a mismatch fails the
    whole block: core/store/ledgerstore handleTransaction -> overlay error). *)
Record world := mkW {
  w_chain : list (list tx);
  w_nonce : N -> N;
  w_pool : pool;
  w_iv : ival;
  w_maxtx : N
}.

Definition w_height (w : world) : N := N.of_nat (length (w_chain w)) - 1.

Fixpoint ledger_exec (b : list tx) (nonce : N -> N) : option (N -> N) :=
  match b with
  | [] => Some nonce
  | t :: r =>
      if tx_eip t then
        if tx_nonce t =? nonce (tx_payer t)
        then ledger_exec r (fun q => if q =? tx_payer t then nonce q + 1 else nonce q)
        else None
      else ledger_exec r nonce
  end.

Definition chain_hashes_upto (chain : list (list tx)) (h : N) : list N :=
  map tx_hash (concat (firstn (S (N.to_nat h)) chain)).

Definition on_chain_upto (chain : list (list tx)) (h : N) (hash : N) : bool :=
  existsb (N.eqb hash) (chain_hashes_upto chain h).

(** validHeight (vbft) / the head of makeBlock (solo) *)
Definition valid_height (height : N) (v : ival) : N * ival :=
  let '(start, end_) := iv_range v in
  if (height + 1) mod U32 =? end_ then (start, v) else (height, iv_clean v).

Record proposal := mkP { pr_txs : list tx; pr_world : world; pr_ok : bool }.

(** makeProposal / makeBlock: the user transactions put into the next block *)
Definition propose (o : order_oracle) (w : world) : proposal :=
  let height := w_height w in
  let '(vh, v') := valid_height height (w_iv w) in
  let g := get_tx_pool o true vh (w_maxtx w) (w_pool w) in
  let txs := verify_filter v' (w_nonce w) vh (map v_tx (g_valid g)) [] in
  mkP txs (mkW (w_chain w) (w_nonce w) (g_pool g) v' (w_maxtx w)) (g_ok g).

(** Histories.  Every asynchronous event of the node is one operation; any interleaving is a history. *)
Inductive op :=
| OSubmit (t : tx) (vh vn : N)    (* stateless+stateful validation finished: the stateful validator ran when the
                                      ledger height was [vh] (IsContainTransaction false there) and reported account
                                      nonce [vn]; AddTxList follows (movePendingTxToPool).  Replacement is the case
                                      of an occupied (payer, nonce) slot. *)
| OGetTxPool (byCount : bool) (height : N)   (* any GetTxPool call: expiry of entries verified below [height] *)
| OCommit (b : list tx)           (* the ledger executes and persists the next block *)
| OIvAdd (k : N)                  (* consensus receives the persisted block of height k: AddBlock *)
| OIvClean
| OPoolClean (k : N)              (* txpool receives the persisted block of height k: CleanCompletedTransactionList; CleanStaledEIPTx *)
| ORemoveBelow (g : N)            (* RemoveTxsBelowGasPrice *)
| ORemain                         (* Remain (entries are re-submitted by later OSubmit) *)
| OPropose.                       (* a proposal is made (its expiry and Clean side effects stay) *)

Definition step (o : order_oracle) (w : world) (x : op) : world :=
  match x with
  | OSubmit t vh vn =>
      if (vh <=? w_height w) && negb (on_chain_upto (w_chain w) vh (tx_hash t)) then
        mkW (w_chain w) (w_nonce w) (fst (add_tx_list (w_pool w) (mkV t vh vn))) (w_iv w) (w_maxtx w)
      else w
  | OGetTxPool bc h =>
      mkW (w_chain w) (w_nonce w) (g_pool (get_tx_pool o bc h (w_maxtx w) (w_pool w))) (w_iv w) (w_maxtx w)
  | OCommit b =>
      match ledger_exec b (w_nonce w) with
      | Some n' => mkW (w_chain w ++ [b]) n' (w_pool w) (w_iv w) (w_maxtx w)
      | None => w
      end
  | OIvAdd k =>
      match nth_error (w_chain w) (N.to_nat k) with
      | Some b => mkW (w_chain w) (w_nonce w) (w_pool w) (iv_add_block k b (w_iv w)) (w_maxtx w)
      | None => w
      end
  | OIvClean => mkW (w_chain w) (w_nonce w) (w_pool w) (iv_clean (w_iv w)) (w_maxtx w)
  | OPoolClean k =>
      match nth_error (w_chain w) (N.to_nat k) with
      | Some b => mkW (w_chain w) (w_nonce w) (clean_staled k (clean_completed b k (w_pool w))) (w_iv w) (w_maxtx w)
      | None => w
      end
  | ORemoveBelow g => mkW (w_chain w) (w_nonce w) (fst (remove_below_price g (w_pool w))) (w_iv w) (w_maxtx w)
  | ORemain => mkW (w_chain w) (w_nonce w) (snd (remain (w_pool w))) (w_iv w) (w_maxtx w)
  | OPropose => pr_world (propose o w)
  end.

Definition world_init (maxBlocks maxtx : N) : world :=
  mkW [[]] (fun _ => 0) pool_empty (iv_new maxBlocks) maxtx.

Definition run (o : order_oracle) (w : world) (h : list op) : world := fold_left (step o) h w.

Definition op_txs (x : op) : list tx :=
  match x with OSubmit t _ _ => [t] | _ => [] end.
Definition hist_txs (h : list op) : list tx := flat_map op_txs h.
