(** Specification side of C13: what each NeoVM integer opcode must compute, written with
    mathematical integers only (no int64, no fast path, no representation).  Definitions only.

    "The VM's integer size bound" is the rule of IntValFromBigInt: a value is admissible iff its
    magnitude fits MAX_INT_SIZE bytes, i.e. |z| < 2^(8*MAX_INT_SIZE) ([in_bound]).  Two further
    bounds of the VM are part of the specification and are written out below: a shift count must be
    a uint64 (else fault) and SHL additionally faults for a count above 8*MAX_INT_SIZE, whatever the
    shifted value is.  The comparison opcodes NUMEQUAL NUMNOTEQUAL LT GT LTE GTE deliberately accept
    integers of any size (executor.go: "pop as bytes to avoid hard-fork", neovm_value.go AsBigInt:
    "lift the 32byte limit"); their result is a bool and always exact. *)
From Coq Require Import List Bool ZArith.
Import ListNotations.
From Ont Require Import Gen.IntConsts Model.IntValue.
Local Open Scope Z_scope.
Open Scope bool_scope.

Definition int_bound : Z := 2 ^ (8 * MAX_INT_SIZE).
Definition in_bound (z : Z) : bool := Z.abs z <? int_bound.

(** How an exact integer result is stored: machine-size when it is an int64, big otherwise. *)
Definition norm_item (z : Z) : item := if is_int64 z then IInt z else IBigInt z.

(** The integer an arithmetic/bitwise/shift opcode (and WITHIN) reads from a stack item. *)
Definition operand (it : item) : result Z :=
  match it with
  | IInt i => Ok i
  | IBool b => Ok (bool_int b)
  | IBigInt z | IBytes z => if in_bound z then Ok z else Fault ErrOverMaxBigIntegerSize
  | IOther => Fault ErrBadType
  end.

(** The integer a comparison opcode reads: any size. *)
Definition cmp_operand (it : item) : result Z :=
  match it with
  | IInt i => Ok i
  | IBool b => Ok (bool_int b)
  | IBigInt z | IBytes z => Ok z
  | IOther => Fault ErrBadType
  end.

Definition ret_int (z : Z) (rest : stack) : result stack :=
  if in_bound z then Ok (norm_item z :: rest) else Fault ErrOverMaxBigIntegerSize.
Definition ret_bool (b : bool) (rest : stack) : result stack := Ok (IBool b :: rest).

(** Exact unary results. *)
Definition exact_un (op : opcode) (x : Z) : Z :=
  match op with
  | INVERT => - x - 1          (* two's-complement NOT *)
  | INC => x + 1
  | DEC => x - 1
  | SIGN => Z.sgn x
  | NEGATE => - x
  | ABS => Z.abs x
  | _ => x
  end.

Definition shift_count_ok (n : Z) : bool := (0 <=? n) && (n <? 2^64).

(** Exact binary results (x = left/deeper operand, y = right/top operand).  Division truncates
    toward zero, the remainder takes the dividend's sign ([Z.quot]/[Z.rem]); bitwise operations are
    the two's-complement ones on integers of unbounded width; SHR is the arithmetic shift. *)
Definition exact_bin (op : opcode) (x y : Z) : result Z :=
  match op with
  | ADD => Ok (x + y)
  | SUB => Ok (x - y)
  | MUL => Ok (x * y)
  | DIV => if y =? 0 then Fault ErrDivModByZero else Ok (Z.quot x y)
  | MOD => if y =? 0 then Fault ErrDivModByZero else Ok (Z.rem x y)
  | MAX => Ok (Z.max x y)
  | MIN => Ok (Z.min x y)
  | AND => Ok (Z.land x y)
  | OR => Ok (Z.lor x y)
  | XOR => Ok (Z.lxor x y)
  | SHL => if negb (shift_count_ok y) then Fault ErrShiftByNeg
           else if y >? 8 * MAX_INT_SIZE then Fault ErrOverMaxBigIntegerSize
           else Ok (x * 2 ^ y)
  | SHR => if negb (shift_count_ok y) then Fault ErrShiftByNeg
           else Ok (x / 2 ^ y)          (* floor *)
  | _ => Ok 0
  end.

Definition exact_cmp (op : opcode) (x y : Z) : bool :=
  match op with
  | NUMEQUAL => x =? y
  | NUMNOTEQUAL => negb (x =? y)
  | LT => x <? y
  | GT => y <? x
  | LTE => x <=? y
  | GTE => y <=? x
  | _ => false
  end.

(** The specified effect of one opcode on the evaluation stack.  Operands are read (and checked)
    in the order the VM reads them, so that also the kind of fault is specified. *)
Definition spec_exec (op : opcode) (st : stack) : result stack :=
  match op with
  | INVERT | INC | DEC | SIGN | NEGATE | ABS =>
      '(a, rest) <- pop st ;; x <- operand a ;; ret_int (exact_un op x) rest
  | NZ =>
      '(a, rest) <- pop st ;; x <- operand a ;; ret_bool (negb (x =? 0)) rest
  | ADD | SUB | MUL | DIV | MOD | MAX | MIN | AND | OR | XOR | SHL | SHR =>
      '(b, st1) <- pop st ;; y <- operand b ;;
      '(a, rest) <- pop st1 ;; x <- operand a ;;
      r <- exact_bin op x y ;; ret_int r rest
  | NUMEQUAL | NUMNOTEQUAL =>
      '(b, st1) <- pop st ;; y <- cmp_operand b ;;
      '(a, rest) <- pop st1 ;; x <- cmp_operand a ;;
      ret_bool (exact_cmp op x y) rest
  | LT | GT | LTE | GTE =>
      '(b, st1) <- pop st ;; '(a, rest) <- pop st1 ;;
      x <- cmp_operand a ;; y <- cmp_operand b ;;
      ret_bool (exact_cmp op x y) rest
  | WITHIN =>
      '(c, st1) <- pop st ;; hi <- operand c ;;
      '(b, st2) <- pop st1 ;; lo <- operand b ;;
      '(a, rest) <- pop st2 ;; x <- operand a ;;
      ret_bool ((lo <=? x) && (x <? hi)) rest
  end.

Definition stack_wf (st : stack) : bool := forallb item_wf st.
Definition stack_within_limit (st : stack) : bool := Z.of_nat (length st) <=? STACK_LIMIT.

(** The one input class on which the current code departs from the specification (finding
    "invert:result-exceeds-size-bound"): INVERT applied to 2^(8*MAX_INT_SIZE) - 1, whose exact
    result -2^(8*MAX_INT_SIZE) does not fit the bound but is pushed without a fault. *)
Definition in_finding_class (op : opcode) (st : stack) : bool :=
  match op, st with
  | INVERT, (IBigInt z | IBytes z) :: _ => z =? int_bound - 1
  | _, _ => false
  end.

(** Method-level specification: every binary IntValue method is "exact result, then the size rule". *)
Definition spec_from_big (z : Z) : result IntValue :=
  if in_bound z then Ok (norm z) else Fault ErrOverMaxBigIntegerSize.
