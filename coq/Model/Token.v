(** Executable model of the native ONT / ONG token contracts:
      smartcontract/service/native/ont/ont.go   : OntTransfer(V2), OntApprove(V2), OntTransferFrom(V2),
                                                   doTransfer, grantOng, getApproveArgs, getTransferFromArgs
      smartcontract/service/native/ont/utils.go : Transfer, TransferedFrom, fromApprove,
                                                   reduceFromBalance, increaseToBalance, getUnboundOffset
      smartcontract/service/native/ong/ong.go   : OngTransfer(V2), OngApprove(V2), OngTransferFrom(V2),
                                                   doTransfer, doApprove, doTransferFrom
      core/states/native_token_balance.go       : Add, Sub (underflow check), IsFloat, MustToInteger64,
                                                   MustToStorageItem (its panic condition)
      smartcontract/smart_contract.go           : CheckWitness (signature addresses or calling contract)
      smartcontract/service/native/native_service.go : NativeCall (method table, calling context)
      core/store/ledgerstore/tx_handler.go      : a call runs on a scratch cache, committed on success only

    Amounts are [Z] in the unit the V2 storage uses (ONT: 10^-9, ONG: 10^-18); a V1 amount is the
    integer that the V1 methods decode, scaled by [tk_scale] where the code calls ToV2 /
    NativeTokenBalanceFromInteger.  Storage is one association list per key family (the byte keys
    contract||addr (40 bytes), contract||from||to (60), contract||"unboundTimeOffset"||addr (57)
    have pairwise different lengths, so the families cannot collide); [aput] / [adel] are CacheDB.Put /
    CacheDB.Delete, a missing key reads as 0 (GetNativeTokenBalance / GetStorageUInt32 on nil).
    Addresses are [N] (the 20 bytes read big-endian); only equality is used.

    Execution is a state-and-error monad over the scratch cache: a failing call returns the
    error together with the dirty scratch state it left behind; [step] discards that state and
    keeps the committed one — the discipline of HandleInvokeTransaction (`sc.CacheDB.Commit()` is
    reached only when `engine.Invoke()` returned no error).

    Not modelled: byte-level argument decoding (ops are the decoded structures; a V1 amount that is
    not a uint64 and a negative V2 amount are the two decode errors that are mirrored), the
    uint64-wrapping decode mode of heights <= GetUint64WrappingHeight, notifications, gas.
    Definitions only; proofs are in Proofs/Token*.v. *)
From Coq Require Import List ZArith NArith Bool.
Import ListNotations.
From Ont Require Export Gen.TokenConsts.
Local Open Scope Z_scope.

Inductive token := ONT | ONG.
Definition token_eqb (a b : token) : bool :=
  match a, b with ONT, ONT => true | ONG, ONG => true | _, _ => false end.

Definition addr := N.
Definition addr_eqb : addr -> addr -> bool := N.eqb.
Definition pair_eqb (a b : addr * addr) : bool := N.eqb (fst a) (fst b) && N.eqb (snd a) (snd b).

(** * Association lists (one per storage key family) *)
Section AMap.
  Context {K : Type}.
  Variable keqb : K -> K -> bool.
  Definition amap := list (K * Z).

  Fixpoint aget (l : amap) (k : K) : option Z :=
    match l with
    | [] => None
    | (k', v) :: r => if keqb k k' then Some v else aget r k
    end.
  Definition getd (l : amap) (k : K) : Z := match aget l k with Some v => v | None => 0 end.
  Fixpoint aput (k : K) (v : Z) (l : amap) : amap :=
    match l with
    | [] => [(k, v)]
    | (k', v') :: r => if keqb k k' then (k, v) :: r else (k', v') :: aput k v r
    end.
  Fixpoint adel (k : K) (l : amap) : amap :=
    match l with
    | [] => []
    | (k', v') :: r => if keqb k k' then adel k r else (k', v') :: adel k r
    end.
  Fixpoint asum (l : amap) : Z := match l with [] => 0 | (_, v) :: r => v + asum r end.
  (** Every key is stored once (what a key/value store guarantees). *)
  Definition wf (l : amap) : Prop := NoDup (map fst l).
End AMap.
Arguments amap K : clear implicits.
Arguments wf {K} l.

(** * Storage *)
Record state := mkState {
  ont_bal : amap addr;            (* ONT contract || holder *)
  ong_bal : amap addr;            (* ONG contract || holder *)
  ont_allow : amap (addr * addr); (* ONT contract || owner || spender *)
  ong_allow : amap (addr * addr); (* ONG contract || owner || spender *)
  offs : amap addr                (* ONT contract || "unboundTimeOffset" || holder (uint32) *)
}.

Definition bmap (s : state) (t : token) : amap addr := match t with ONT => ont_bal s | ONG => ong_bal s end.
Definition almap (s : state) (t : token) : amap (addr * addr) := match t with ONT => ont_allow s | ONG => ong_allow s end.
Definition with_bmap (t : token) (m : amap addr) (s : state) : state :=
  match t with
  | ONT => mkState m (ong_bal s) (ont_allow s) (ong_allow s) (offs s)
  | ONG => mkState (ont_bal s) m (ont_allow s) (ong_allow s) (offs s)
  end.
Definition with_almap (t : token) (m : amap (addr * addr)) (s : state) : state :=
  match t with
  | ONT => mkState (ont_bal s) (ong_bal s) m (ong_allow s) (offs s)
  | ONG => mkState (ont_bal s) (ong_bal s) (ont_allow s) m (offs s)
  end.
Definition with_offs (m : amap addr) (s : state) : state :=
  mkState (ont_bal s) (ong_bal s) (ont_allow s) (ong_allow s) m.

(** What balanceOfV2 / allowanceV2 / getUnboundOffset return. *)
Definition balf (s : state) (t : token) (a : addr) : Z := getd addr_eqb (bmap s t) a.
Definition allowf (s : state) (t : token) (o sp : addr) : Z := getd pair_eqb (almap s t) (o, sp).
Definition offf (s : state) (a : addr) : Z := getd addr_eqb (offs s) a.
(** Sum of all stored balances of a token. *)
Definition sumb (s : state) (t : token) : Z := asum (bmap s t).

(** * The scratch-cache monad *)
Inductive err :=
| EDecode      (* argument deserialization failed *)
| ENoMethod    (* "doesn't support this function" (V2 method below GetAddDecimalsHeight) *)
| EBound       (* amount over total supply *)
| EAuth        (* "authentication failed!" *)
| EAllowance   (* "approve balance insufficient" *)
| EBalance     (* "balance insufficient" *)
| ETimestamp   (* grantOng: "wrong timestamp" *)
| EPanic.      (* MustToInteger64: "too large token balance" *)

Inductive res (A : Type) := Ok (a : A) | Err (e : err).
Arguments Ok {A} a.
Arguments Err {A} e.

Definition M (A : Type) := state -> state * res A.
Definition ret {A} (a : A) : M A := fun s => (s, Ok a).
Definition fail {A} (e : err) : M A := fun s => (s, Err e).
Definition bind {A B} (m : M A) (k : A -> M B) : M B :=
  fun s => match m s with
           | (s1, Ok a) => k a s1
           | (s1, Err e) => (s1, Err e)
           end.
Definition gets {A} (f : state -> A) : M A := fun s => (s, Ok (f s)).
Definition modify (f : state -> state) : M unit := fun s => (f s, Ok tt).
Definition guard (b : bool) (e : err) : M unit := if b then ret tt else fail e.

Notation "x <- m ;; k" := (bind m (fun x => k)) (at level 61, m at next level, right associativity).
Notation "m ;;; k" := (bind m (fun _ => k)) (at level 61, right associativity).

(** * NativeTokenBalance helpers *)
Definition two64 : Z := 18446744073709551616.
Definition two32 : Z := 4294967296.

(** IsFloat: !Balance.Mod(ScaleFactor).IsZero() *)
Definition is_float (v : Z) : bool := negb (v mod tk_scale =? 0).
(** MustToInteger64: Balance.Div(ScaleFactor), panics unless IsUint64 *)
Definition must_integer64 (v : Z) : M Z :=
  let q := v / tk_scale in
  if (0 <=? q) && (q <? two64) then ret q else fail EPanic.
(** MustToStorageItem panics exactly when the value is not float and MustToInteger64 panics. *)
Definition storable (v : Z) : bool :=
  is_float v || ((0 <=? v / tk_scale) && (v / tk_scale <? two64)).

(** CacheDB.Put(GenBalanceKey(contract, a), v.MustToStorageItemBytes()) *)
Definition put_bal (t : token) (a : addr) (v : Z) : M unit :=
  guard (storable v) EPanic ;;; modify (fun s => with_bmap t (aput addr_eqb a v (bmap s t)) s).
Definition del_bal (t : token) (a : addr) : M unit :=
  modify (fun s => with_bmap t (adel addr_eqb a (bmap s t)) s).
(** CacheDB.Put(GenApproveKey(contract, o, sp), v.MustToStorageItemBytes()) *)
Definition put_allow (t : token) (o sp : addr) (v : Z) : M unit :=
  guard (storable v) EPanic ;;; modify (fun s => with_almap t (aput pair_eqb (o, sp) v (almap s t)) s).
Definition del_allow (t : token) (o sp : addr) : M unit :=
  modify (fun s => with_almap t (adel pair_eqb (o, sp) (almap s t)) s).
(** CacheDB.Put(genAddressUnboundOffsetKey(contract, a), GenUInt32StorageItem(v)) *)
Definition put_off (a : addr) (v : Z) : M unit :=
  modify (fun s => with_offs (aput addr_eqb a v (offs s)) s).

(** * Invocation context *)
Record callctx := mkCtx {
  signers : list addr;     (* Tx.GetSignatureAddresses() *)
  stack : list addr;       (* ContextRef contexts below the running token contract, entry first
                              (entry script, contracts calling one another, ...) *)
  now : Z;                 (* native.Time (uint32) *)
  preexec : bool;          (* native.PreExec *)
  v2on : bool;             (* native.Height >= config.GetAddDecimalsHeight() *)
  wrap64 : bool            (* native.Height <= config.GetUint64WrappingHeight(): OntTransfer decodes
                              amounts with DecodeVarUintWrapping (low 64 bits of any value >= 0) *)
}.

(** SmartContract.CallingContext(): Contexts[len-2], i.e. the context directly below the
    running contract - the immediate caller only, never a context further down the stack. *)
Fixpoint last_opt (l : list addr) : option addr :=
  match l with
  | [] => None
  | [x] => Some x
  | _ :: r => last_opt r
  end.
Definition caller (c : callctx) : option addr := last_opt (stack c).

(** SmartContract.CheckWitness: checkAccountAddress || checkContractAddress *)
Definition check_witness (c : callctx) (a : addr) : bool :=
  existsb (addr_eqb a) (signers c)
  || match caller c with Some x => addr_eqb x a | None => false end.

(** Decoded call arguments. [v2 = false]: TransferState(s) / TransferFrom (uint64 amount in
    units of 1); [v2 = true]: the ...V2 structures (big-integer amount in storage units). *)
Inductive tstate := TS (from to : addr) (value : Z).
Inductive op :=
| Transfer (v2 : bool) (l : list tstate)
| Approve (v2 : bool) (from to : addr) (value : Z)
| TransferFrom (v2 : bool) (sender from to : addr) (value : Z).

(** utils.DecodeVarUint ("value not uint64") resp. TransferStateV2.Deserialization ("nagative value") *)
Definition decode_ok (v2 : bool) (value : Z) : bool :=
  if v2 then 0 <=? value else (0 <=? value) && (value <? two64).
(** TransferState.ToV2 / NativeTokenBalanceFromInteger *)
Definition to_v2 (v2 : bool) (value : Z) : Z := if v2 then value else value * tk_scale.

Section Token.
  (** utils.CalcUnbindOng(balance, startOffset, endOffset) (uint64 result) *)
  Variable unbind : Z -> Z -> Z -> Z.
  (** config.GetOntHolderUnboundDeadline() (uint32) *)
  Variable deadline : Z.

  (** ont/utils.go: reduceFromBalance — returns the old balance *)
  Definition reduce_from_balance (t : token) (a : addr) (value : Z) : M Z :=
    b <- gets (fun s => balf s t a) ;;
    guard (negb (b <? value)) EBalance ;;;          (* fromBalance.Sub(value): LessThan check *)
    (if b - value =? 0 then del_bal t a else put_bal t a (b - value)) ;;;
    ret b.

  (** ont/utils.go: increaseToBalance — returns the old balance *)
  Definition increase_to_balance (t : token) (a : addr) (value : Z) : M Z :=
    b <- gets (fun s => balf s t a) ;;
    put_bal t a (b + value) ;;;
    ret b.

  (** ont/utils.go: fromApprove *)
  Definition from_approve (t : token) (o sp : addr) (value : Z) : M unit :=
    a <- gets (fun s => allowf s t o sp) ;;
    guard (negb (a <? value)) EAllowance ;;;
    if a - value =? 0 then del_allow t o sp else put_allow t o sp (a - value).

  (** ont/utils.go: Transfer *)
  Definition transfer (c : callctx) (t : token) (from to : addr) (value : Z) : M (Z * Z) :=
    guard (check_witness c from) EAuth ;;;
    oldFrom <- reduce_from_balance t from value ;;
    oldTo <- increase_to_balance t to value ;;
    ret (oldFrom, oldTo).

  (** ont/utils.go: TransferedFrom *)
  Definition transfered_from (c : callctx) (t : token) (sender from to : addr) (value : Z) : M (Z * Z) :=
    (if now c <=? (deadline + tk_genesis_ts) mod two32 then
       guard (check_witness c sender) EAuth
     else
       let allowOntTransferOng :=
         check_witness c tk_ont_addr && addr_eqb sender to && addr_eqb from tk_ont_addr in
       guard (negb (negb allowOntTransferOng && negb (check_witness c sender))) EAuth) ;;;
    from_approve t from sender value ;;;
    oldFrom <- reduce_from_balance t from value ;;
    oldTo <- increase_to_balance t to value ;;
    ret (oldFrom, oldTo).

  (** ** ONG contract (ong/ong.go) *)

  Fixpoint ong_do_transfer (c : callctx) (l : list (addr * addr * Z)) : M bool :=
    match l with
    | [] => ret true
    | (from, to, value) :: r =>
        if value =? 0 then ong_do_transfer c r else
        guard (negb (tk_ong_supply_v2 <? value)) EBound ;;;
        transfer c ONG from to value ;;;
        ong_do_transfer c r
    end.

  Definition ong_do_approve (c : callctx) (from to : addr) (value : Z) : M bool :=
    guard (negb (tk_ong_supply_v2 <? value)) EBound ;;;
    guard (check_witness c from) EAuth ;;;
    put_allow ONG from to value ;;;
    ret true.

  Definition ong_do_transfer_from (c : callctx) (sender from to : addr) (value : Z) : M bool :=
    if value =? 0 then ret false else
    guard (negb (tk_ong_supply_v2 <? value)) EBound ;;;
    transfered_from c ONG sender from to value ;;;
    ret true.

  (** [wrap]: TransferStates.uint64Wrapping (only OntTransfer sets it, V1 only) *)
  Definition decode_states (v2 wrap : bool) (l : list tstate) : M (list (addr * addr * Z)) :=
    if negb v2 && wrap then
      guard (forallb (fun x => match x with TS _ _ v => 0 <=? v end) l) EDecode ;;;
      ret (map (fun x => match x with TS f t v => (f, t, (v mod two64) * tk_scale) end) l)
    else
      guard (forallb (fun x => match x with TS _ _ v => decode_ok v2 v end) l) EDecode ;;;
      ret (map (fun x => match x with TS f t v => (f, t, to_v2 v2 v) end) l).

  (** NativeService.Invoke on the ONG contract: method lookup (the V2 methods are registered only
      when Height >= GetAddDecimalsHeight), argument decoding, handler. *)
  Definition ong_invoke (c : callctx) (o : op) : M bool :=
    match o with
    | Transfer v2 l =>
        guard (negb v2 || v2on c) ENoMethod ;;;
        sts <- decode_states v2 false l ;;
        ong_do_transfer c sts
    | Approve v2 from to value =>
        guard (negb v2 || v2on c) ENoMethod ;;;
        guard (decode_ok v2 value) EDecode ;;;
        ong_do_approve c from to (to_v2 v2 value)
    | TransferFrom v2 sender from to value =>
        guard (negb v2 || v2on c) ENoMethod ;;;
        guard (decode_ok v2 value) EDecode ;;;
        ong_do_transfer_from c sender from to (to_v2 v2 value)
    end.

  (** ** ONT contract (ont/ont.go) *)

  (** The context of a NativeCall made by the ONT contract: same transaction, the ONT contract's
      context is pushed, so it is the calling context of the ONG contract. *)
  Definition from_ont (c : callctx) : callctx :=
    mkCtx (signers c) (stack c ++ [tk_ont_addr]) (now c) (preexec c) (v2on c) (wrap64 c).

  (** grantOng(native, contract, address, balance) *)
  Definition grant_ong (c : callctx) (a : addr) (balance : Z) : M unit :=
    startOffset <- gets (fun s => offf s a) ;;
    if now c <=? tk_genesis_ts then ret tt else
    let endOffset := now c - tk_genesis_ts in
    if endOffset <? startOffset then
      (if preexec c then ret tt else fail ETimestamp)
    else if endOffset =? startOffset then ret tt
    else
      (if negb (balance =? 0) then
         let value := unbind balance startOffset endOffset in
         (* getApproveArgs *)
         stateValue <- gets (fun s => allowf s ONG tk_ont_addr a) ;;
         let total := value * tk_scale + stateValue in
         (if is_float total then
            ong_invoke (from_ont c) (Approve true tk_ont_addr a total)
          else
            v <- must_integer64 total ;;
            ong_invoke (from_ont c) (Approve false tk_ont_addr a v)) ;;;
         if (deadline <? endOffset) && negb (addr_eqb a tk_gov_addr) then
           (* getTransferFromArgs(address, contract, address, amount) *)
           (if is_float total then
              ong_invoke (from_ont c) (TransferFrom true a tk_ont_addr a total)
            else
              v <- must_integer64 total ;;
              ong_invoke (from_ont c) (TransferFrom false a tk_ont_addr a v)) ;;;
           ret tt
         else ret tt
       else ret tt) ;;;
      put_off a endOffset.

  (** grantOng for both ends of a movement, with the balances Transfer / TransferedFrom returned *)
  Definition grant_both (c : callctx) (from to : addr) (old : Z * Z) : M unit :=
    bf <- must_integer64 (fst old) ;;
    grant_ong c from bf ;;;
    bt <- must_integer64 (snd old) ;;
    grant_ong c to bt.

  Fixpoint ont_do_transfer (c : callctx) (l : list (addr * addr * Z)) : M bool :=
    match l with
    | [] => ret true
    | (from, to, value) :: r =>
        if value =? 0 then ont_do_transfer c r else
        guard (negb (tk_ont_supply_v2 <? value)) EBound ;;;
        old <- transfer c ONT from to value ;;
        grant_both c from to old ;;;
        ont_do_transfer c r
    end.

  Definition ont_invoke (c : callctx) (o : op) : M bool :=
    match o with
    | Transfer v2 l =>
        guard (negb v2 || v2on c) ENoMethod ;;;
        sts <- decode_states v2 (wrap64 c) l ;;
        ont_do_transfer c sts
    | Approve false from to value =>
        guard (decode_ok false value) EDecode ;;;
        guard (negb (tk_ont_supply <? value)) EBound ;;;
        guard (check_witness c from) EAuth ;;;
        (* Put(.., GenUInt64StorageItem(state.Value)): read back as value * ScaleFactor *)
        modify (fun s => with_almap ONT (aput pair_eqb (from, to) (value * tk_scale) (almap s ONT)) s) ;;;
        ret true
    | Approve true from to value =>
        guard (v2on c) ENoMethod ;;;
        guard (decode_ok true value) EDecode ;;;
        guard (negb (tk_ont_supply_v2 <? value)) EBound ;;;
        guard (check_witness c from) EAuth ;;;
        put_allow ONT from to value ;;;
        ret true
    | TransferFrom false sender from to value =>
        guard (decode_ok false value) EDecode ;;;
        if value =? 0 then ret false else
        guard (negb (tk_ont_supply <? value)) EBound ;;;
        old <- transfered_from c ONT sender from to (value * tk_scale) ;;
        grant_both c from to old ;;;
        ret true
    | TransferFrom true sender from to value =>
        guard (v2on c) ENoMethod ;;;
        guard (decode_ok true value) EDecode ;;;
        if value =? 0 then ret false else
        guard (negb (tk_ont_supply_v2 <? value)) EBound ;;;
        old <- transfered_from c ONT sender from to value ;;
        grant_both c from to old ;;;
        ret true
    end.

  (** * Transactions *)
  Record call := mkCall { c_tok : token; c_ctx : callctx; c_op : op }.

  (** One native call executed on a scratch cache over [s]. *)
  Definition exec (k : call) : M bool :=
    match c_tok k with
    | ONT => ont_invoke (c_ctx k) (c_op k)
    | ONG => ong_invoke (c_ctx k) (c_op k)
    end.

  (** The call as its own transaction: commit the scratch cache on success, drop it on failure. *)
  Definition step (s : state) (k : call) : state * res bool :=
    match exec k s with
    | (scratch, Ok b) => (scratch, Ok b)
    | (_, Err e) => (s, Err e)
    end.

  Definition run (s : state) (l : list call) : state := fold_left (fun s k => fst (step s k)) l s.
End Token.

(** * Specification side (used by Props/C06.v) *)

(** State invariant: every balance key is stored once; every balance and allowance reads >= 0. *)
Record inv (s : state) : Prop := {
  inv_wf : forall t, wf (bmap s t);
  inv_bal : forall t a, 0 <= balf s t a;
  inv_allow : forall t o sp, 0 <= allowf s t o sp
}.

(** Decidable version of [inv] on a stored state (used on every state the harness dumps). *)
Fixpoint nodupb (l : list N) : bool :=
  match l with [] => true | x :: r => negb (existsb (N.eqb x) r) && nodupb r end.
Definition nonnegb {K} (l : amap K) : bool := forallb (fun p => 0 <=? snd p) l.
Definition inv_check (s : state) : bool :=
  nodupb (map fst (ont_bal s)) && nodupb (map fst (ong_bal s))
  && nonnegb (ont_bal s) && nonnegb (ong_bal s) && nonnegb (ont_allow s) && nonnegb (ong_allow s).

(** [a] witnessed the call, in the sense of SmartContract.CheckWitness (it signed the
    transaction or it is the calling contract). *)
Definition witnessed_by (k : call) (a : addr) : Prop := check_witness (c_ctx k) a = true.

(** While the ONT contract executes, it is the calling contract of the ONG calls grantOng makes
    (CheckWitness(OntContractAddress) holds there): its own ONG balance - the pool unbound ONG is
    paid from - and the ONG allowances it grants are under its own witness. *)
Definition ont_pool (k : call) (t : token) (a : addr) : Prop :=
  c_tok k = ONT /\ t = ONG /\ a = tk_ont_addr.

(** A balance decreased in the step only if its owner witnessed the call, or it is the ONT
    contract's ONG pool during an ONT call, or the call is a transferFrom of the owner's tokens by
    an authorised spender and the owner's allowance to that spender decreased by the same amount
    without going below 0. *)
Definition debit_authorized (k : call) (s s' : state) : Prop :=
  forall t a, balf s' t a < balf s t a ->
    witnessed_by k a \/ ont_pool k t a \/
    exists v2 sender to value,
      c_op k = TransferFrom v2 sender a to value /\ t = c_tok k /\
      (witnessed_by k sender \/ (witnessed_by k tk_ont_addr /\ sender = to /\ a = tk_ont_addr)) /\
      0 <= allowf s' t a sender /\
      allowf s t a sender - allowf s' t a sender = balf s t a - balf s' t a.

(** An allowance increased in the step only if its owner witnessed the call (or it is an ONG
    allowance granted by the ONT contract during an ONT call). *)
Definition allowance_authorized (k : call) (s s' : state) : Prop :=
  forall t o sp, allowf s t o sp < allowf s' t o sp -> witnessed_by k o \/ ont_pool k t o.
