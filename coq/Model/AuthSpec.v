(** C41 — specification vocabulary over Model/Auth.v (definitions only).

    Observers read the four stored families as sets; event predicates say, for one event of a
    history executed in a given state, that it is an accepted admin change / function assignment /
    role assignment / delegation / withdrawal, with the authorisation conditions spelled out. *)
From Coq Require Import List Bool NArith.
Import ListNotations.
From Ont Require Import Lib.Bytes Gen.AuthConsts Model.Auth.
Local Open Scope N_scope.
Open Scope bool_scope.

(** Observers. *)
Definition admin_of (s : state) (c : addr) : option ontid := get_admin s c.
Definition fn_assigned (s : state) (c : addr) (r : role) (f : fname) : bool :=
  match get_role_func s c r with Some fs => contains_func fs f | None => false end.
Definition holds_direct (s : state) (c : addr) (id : ontid) (r : role) : bool :=
  existsb (tok_has_role r) (opt_list (s_tokens s (c, id))).
Definition has_token_record (s : state) (c : addr) (id : ontid) : bool :=
  match s_tokens s (c, id) with Some _ => true | None => false end.
Definition deleg_of (s : state) (c : addr) (id : ontid) (r : role) : option dstat :=
  find (fun d => bytes_eqb (d_role d) r) (opt_list (s_deleg s (c, id))).

(** The delegation of role [r] to [id] is running at [now] in getAuthToken's sense (strict). *)
Definition deleg_running (s : state) (now : N) (c : addr) (id : ontid) (r : role) : Prop :=
  exists d, deleg_of s c id r = Some d /\ now < d_expire d.

(** assignToRole skips a person who has a token record, no token for the role, and a running
    delegation of the role (hasRole answers true) — while the call still returns true. *)
Definition blocked (s : state) (now : N) (c : addr) (id : ontid) (r : role) : Prop :=
  has_token_record s c id = true /\ holds_direct s c id r = false /\ deleg_running s now c id r.

(** Stored-state invariant of every reachable state. *)
Definition tokens_ok (ts : list token) : Prop :=
  Forall (fun t => t_expire t = AUTH_FUTURE /\ t_level t = ADMIN_TOKEN_LEVEL) ts.
Definition delegs_ok (s : state) (c : addr) (ds : list dstat) : Prop :=
  NoDup (map d_role ds) /\
  Forall (fun d => 0 < d_level d /\ d_level d < DELEGATOR_LEVEL /\ d_expire d < AUTH_FUTURE /\
                   holds_direct s c (d_root d) (d_role d) = true) ds.
Definition Inv (s : state) : Prop :=
  (forall c id ts, s_tokens s (c, id) = Some ts -> tokens_ok ts) /\
  (forall c id ds, s_deleg s (c, id) = Some ds -> delegs_ok s c ds).

Section WithValid.
Variable valid_id : ontid -> bool.

Definition ev_now (e : event) : N := e_now (ev_env e).
Definition ev_sig (e : event) : ontid -> N -> sigres := e_sig (ev_env e).

(** [a] is the admin of [c] in state [s] and proved its identity with key [k] in event [e]. *)
Definition admin_proved (s : state) (e : event) (c : addr) (a : ontid) (k : N) : Prop :=
  admin_of s c = Some a /\ ev_sig e a k = SigOk.

(** [e] sets the admin of [c] to [a]: first initialisation by the contract itself, or a transfer
    proved by the current admin. *)
Definition ev_sets_admin (s : state) (e : event) (c : addr) (a : ontid) : Prop :=
  valid_id a = true /\
  ((ev_op e = OInit c a /\ admin_of s c = None) \/
   (exists k a0, ev_op e = OTransfer c a k /\ admin_of s c = Some a0 /\ ev_sig e a0 k = SigOk)).

(** [e] is an accepted assignFuncsToRole that gives function [f] to role [r] of contract [c]. *)
Definition ev_assign_fn (s : state) (e : event) (c : addr) (r : role) (f : fname) : Prop :=
  exists a fns k, ev_op e = OAssignFuncs c a r fns k /\ r <> [] /\ admin_proved s e c a k /\
                  In f fns /\ f <> [].

(** [e] is an accepted assignOntIDsToRole naming [id] for role [r] (the property text's reading:
    the admin assigned the role). *)
Definition ev_names_id (s : state) (e : event) (c : addr) (id : ontid) (r : role) : Prop :=
  exists a ps k, ev_op e = OAssignIds c a r ps k /\ r <> [] /\
                 (forall p, In p ps -> valid_id p = true) /\ admin_proved s e c a k /\ In id ps.

(** ... and the contract really stored the token (what the code does: not [blocked]). *)
Definition ev_assign_id (s : state) (e : event) (c : addr) (id : ontid) (r : role) : Prop :=
  ev_names_id s e c id r /\ ~ blocked s (ev_now e) c id r.

(** [e] is an accepted delegation of role [r] of contract [c] from [from] to [to], creating the
    record [mkDel from (mkTok r exp lvl)]: the delegator proved its identity, holds the role by
    admin assignment (level DELEGATOR_LEVEL, expiry AUTH_FUTURE), the level handed on is lower and
    positive, the expiry is strictly earlier than the delegator's, and [to] does not hold the role
    (getAuthToken's view at that time). *)
Definition ev_delegate (s : state) (e : event) (c : addr) (from to : ontid) (r : role) (exp lvl : N) : Prop :=
  exists period k,
    ev_op e = ODelegate c from to r period lvl k /\
    lvl <= 127 /\ period <= 4294967295 /\ ev_now e + period < 4294967296 /\
    ev_sig e from k = SigOk /\ valid_id to = true /\
    holds_direct s c from r = true /\
    holds_direct s c to r = false /\ ~ deleg_running s (ev_now e) c to r /\
    0 < lvl /\ lvl < DELEGATOR_LEVEL /\
    exp = ev_now e + period /\ exp < AUTH_FUTURE.

Definition ev_delegate_to (s : state) (e : event) (c : addr) (to : ontid) (r : role) : Prop :=
  exists from exp lvl, ev_delegate s e c from to r exp lvl.

(** [e] is a withdrawal of role [r] from [id] asked by [init] with a valid identity proof. *)
Definition ev_withdraw_by (e : event) (c : addr) (init id : ontid) (r : role) : Prop :=
  exists k, ev_op e = OWithdraw c init id r k /\ ev_sig e init k = SigOk.

(** ... accepted in state [s]: [init] is the delegator of the stored record. *)
Definition ev_withdraw (s : state) (e : event) (c : addr) (id : ontid) (r : role) : Prop :=
  exists init d, ev_withdraw_by e c init id r /\ deleg_of s c id r = Some d /\ d_root d = init.

(** * History-level vocabulary ([run h1] is the state in which event [e] of [h1 ++ e :: h2] executes) *)
Notation runv := (run valid_id).

Definition times_u32 (h : list event) : Prop := Forall (fun e => ev_now e < 4294967296) h.

(** function [f] was given to role [r] of contract [c] by an accepted assignFuncsToRole *)
Definition fn_given (h : list event) (c r f : bytes) : Prop :=
  exists h1 e h2, h = h1 ++ e :: h2 /\ ev_assign_fn (runv h1) e c r f.

(** [id] was named for role [r] in an accepted assignOntIDsToRole (the property text's reading) *)
Definition role_named (h : list event) (c id r : bytes) : Prop :=
  exists h1 e h2, h = h1 ++ e :: h2 /\ ev_names_id (runv h1) e c id r.

(** ... in one that also stored the token (the code's behaviour) *)
Definition role_assigned (h : list event) (c id r : bytes) : Prop :=
  exists h1 e h2, h = h1 ++ e :: h2 /\ ev_assign_id (runv h1) e c id r.

(** The delegation of role [r] to [id] in force after [h]: the last accepted delegation to
    (c, id, r), made by [from] with expiry [exp] and level [lvl], provided [from] has not
    withdrawn it since (with a valid identity proof). *)
Definition deleg_in_force (h : list event) (c id r from : bytes) (exp lvl : N) : Prop :=
  exists h1 e h2,
    h = h1 ++ e :: h2 /\ ev_delegate (runv h1) e c from id r exp lvl /\
    (forall h2a e' h2b, h2 = h2a ++ e' :: h2b -> ~ ev_delegate_to (runv (h1 ++ e :: h2a)) e' c id r) /\
    (forall e', In e' h2 -> ~ ev_withdraw_by e' c from id r).

(** "[id] holds, directly or through an unexpired delegation, a role to which [f] is assigned",
    at time [now] after history [h]; the code's reading and the property text's reading. *)
Definition may_call (h : list event) (now : N) (c id f : bytes) : Prop :=
  exists r, fn_given h c r f /\
    ((role_assigned h c id r /\ now <= AUTH_FUTURE) \/
     (exists from exp lvl, deleg_in_force h c id r from exp lvl /\ now <= exp)).
Definition may_call_text (h : list event) (now : N) (c id f : bytes) : Prop :=
  exists r, fn_given h c r f /\
    ((role_named h c id r /\ now <= AUTH_FUTURE) \/
     (exists from exp lvl, deleg_in_force h c id r from exp lvl /\ now <= exp)).

(** no accepted role assignment of [h] was silently skipped *)
Definition no_skipped_assignment (h : list event) : Prop :=
  forall h1 e h2 c id r, h = h1 ++ e :: h2 -> ev_names_id (runv h1) e c id r ->
                         ~ blocked (runv h1) (ev_now e) c id r.

End WithValid.
