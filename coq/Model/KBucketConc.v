(** Concurrent callers of the routing table (p2pserver/dht/kbucket/table.go): what the one table
    lock [rt.tabLock] buys.  Definitions only.

    The lock discipline is not assumed: [kb_locks_update], [kb_locks_remove], [kb_locks_nearest]
    (Gen/KBucketGen.v) are the lock / unlock / table-access events of the three methods as they
    stand in the source now, and [lock_discipline_ok] computes whether Update and Remove are one
    exclusive critical section each ([Lock(); defer Unlock()] before the first access to
    rt.Buckets and no other lock event) and NearestPeers one shared section.

    The system: any number of threads, each with a list of calls to make.  A call is not atomic:
    a writer (Update, Remove) takes the lock, reads the table, makes it inconsistent while it
    rewrites it ([None]: what a concurrent reader of the linked lists would see), writes the result
    of the sequential model ([Model.KBucket.step]) and releases; a reader (NearestPeers) takes the
    lock shared, reads, releases.  Any thread may move at any time, except that taking the lock
    waits for it when the discipline holds.  [c_bad] records that somebody read an inconsistent
    table; [c_log] the order in which the writes happened; [c_obs] what the readers saw. *)
From Coq Require Import List Bool Arith NArith ZArith.
Import ListNotations.
From Ont Require Import Lib.Bytes Gen.KBucketGen Model.KBucket.
Open Scope bool_scope.

(** ** the lock shapes *)

Definition is_touch (e : kb_lock_ev) : bool := match e with KTouch => true | _ => false end.

(** [Lock(); defer Unlock()], then only table accesses *)
Definition exclusive_shape (evs : list kb_lock_ev) : bool :=
  match evs with
  | KLock :: KDeferUnlock :: rest => forallb is_touch rest
  | _ => false
  end.

(** [RLock()], table accesses, [RUnlock()] (or [RLock(); defer RUnlock()], then accesses) *)
Fixpoint touches_then_runlock (evs : list kb_lock_ev) : bool :=
  match evs with
  | [KRUnlock] => true
  | KTouch :: r => touches_then_runlock r
  | _ => false
  end.

Definition shared_shape (evs : list kb_lock_ev) : bool :=
  match evs with
  | KRLock :: KDeferRUnlock :: rest => forallb is_touch rest
  | KRLock :: rest => touches_then_runlock rest
  | _ => false
  end.

Definition lock_discipline_ok : bool :=
  exclusive_shape kb_locks_update && exclusive_shape kb_locks_remove && shared_shape kb_locks_nearest.

(** ** threads *)

Definition is_writer (o : op) : bool :=
  match o with ONearest _ _ => false | _ => true end.

Inductive pc :=
| Idle
| WHeld (o : op)                  (* exclusive lock taken *)
| WLoaded (o : op) (loc : table)  (* table read *)
| WTorn (o : op) (loc : table)    (* table half rewritten *)
| WStored                         (* result written, lock still held *)
| RHeld (o : op)                  (* shared lock taken *)
| RSeen.                          (* table read, lock still held *)

Definition thread := (pc * list op)%type.

Inductive lockst := LFree | LW | LR (readers : nat).

Record conf := mkConf {
  c_thr : list thread;
  c_sh : option table;
  c_lk : lockst;
  c_log : list op;
  c_obs : list (table * op);
  c_bad : bool
}.

Definition init_conf (t0 : table) (progs : list (list op)) : conf :=
  mkConf (map (fun ops => (Idle, ops)) progs) (Some t0) LFree [] [] false.

Definition set_thr (c : conf) (i : nat) (th : thread) : list thread := upd i th (c_thr c).

Definition r_acquire (l : lockst) : lockst :=
  match l with LR n => LR (S n) | _ => LR 1 end.
Definition r_release (l : lockst) : lockst :=
  match l with LR (S (S n)) => LR (S n) | _ => LFree end.

(** one move of thread [i]; [disc]: does taking the lock wait for it *)
Inductive cstep (disc : bool) (c : conf) : conf -> Prop :=
| s_wacq i o r :
    nth_error (c_thr c) i = Some (Idle, o :: r) -> is_writer o = true ->
    (disc = true -> c_lk c = LFree) ->
    cstep disc c (mkConf (set_thr c i (WHeld o, r)) (c_sh c) LW (c_log c) (c_obs c) (c_bad c))
| s_wload i o r t :
    nth_error (c_thr c) i = Some (WHeld o, r) -> c_sh c = Some t ->
    cstep disc c (mkConf (set_thr c i (WLoaded o t, r)) (c_sh c) (c_lk c) (c_log c) (c_obs c) (c_bad c))
| s_wload_torn i o r :
    nth_error (c_thr c) i = Some (WHeld o, r) -> c_sh c = None ->
    cstep disc c (mkConf (set_thr c i (WStored, r)) (c_sh c) (c_lk c) (c_log c) (c_obs c) true)
| s_wbegin i o t r :
    nth_error (c_thr c) i = Some (WLoaded o t, r) ->
    cstep disc c (mkConf (set_thr c i (WTorn o t, r)) None (c_lk c) (c_log c) (c_obs c) (c_bad c))
| s_wstore i o t r :
    nth_error (c_thr c) i = Some (WTorn o t, r) ->
    cstep disc c (mkConf (set_thr c i (WStored, r)) (Some (fst (step t o))) (c_lk c)
                         (c_log c ++ [o]) (c_obs c) (c_bad c))
| s_wrel i r :
    nth_error (c_thr c) i = Some (WStored, r) ->
    cstep disc c (mkConf (set_thr c i (Idle, r)) (c_sh c) LFree (c_log c) (c_obs c) (c_bad c))
| s_racq i o r :
    nth_error (c_thr c) i = Some (Idle, o :: r) -> is_writer o = false ->
    (disc = true -> c_lk c <> LW) ->
    cstep disc c (mkConf (set_thr c i (RHeld o, r)) (c_sh c) (r_acquire (c_lk c)) (c_log c) (c_obs c) (c_bad c))
| s_rload i o r t :
    nth_error (c_thr c) i = Some (RHeld o, r) -> c_sh c = Some t ->
    cstep disc c (mkConf (set_thr c i (RSeen, r)) (c_sh c) (c_lk c) (c_log c) ((t, o) :: c_obs c) (c_bad c))
| s_rload_torn i o r :
    nth_error (c_thr c) i = Some (RHeld o, r) -> c_sh c = None ->
    cstep disc c (mkConf (set_thr c i (RSeen, r)) (c_sh c) (c_lk c) (c_log c) (c_obs c) true)
| s_rrel i r :
    nth_error (c_thr c) i = Some (RSeen, r) ->
    cstep disc c (mkConf (set_thr c i (Idle, r)) (c_sh c) (r_release (c_lk c)) (c_log c) (c_obs c) (c_bad c)).

Inductive creach (disc : bool) (c0 : conf) : conf -> Prop :=
| cr_refl : creach disc c0 c0
| cr_step c c' : creach disc c0 c -> cstep disc c c' -> creach disc c0 c'.

(** the sequential run the writes amount to *)
Definition apply_ops (t : table) (l : list op) : table :=
  fold_left (fun t o => fst (step t o)) l t.
