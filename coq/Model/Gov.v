(** Executable model of the governance native contract
    (smartcontract/service/native/governance/{governance,method,utils}.go): peer pool,
    authorize infos, total stakes, penalty stakes, views, and the ONT ledger entries the
    contract moves.  uint64 arithmetic wraps explicitly ([w64], [wsub]); a failing operation
    leaves the state unchanged (the transaction's cache is dropped).  ONG movements (candidate
    fee, unbound ONG, fee split) are outside this model (the split is Model/GovSplit.v).
    Definitions only. *)
From Coq Require Import List NArith Bool.
Import ListNotations.
From Ont Require Import Lib.AList Gen.GovConsts.
Local Open Scope N_scope.

Definition W64 : N := 2 ^ 64.
Definition W32 : N := 2 ^ 32.
Definition w64 (x : N) : N := x mod W64.
(** Go's uint64 a - b *)
Definition wsub (a b : N) : N := if b <=? a then a - b else a + W64 - b.
(** Go's uint32 a - b *)
Definition wsub32 (a b : N) : N := if b <=? a then a - b else a + W32 - b.

(** Address 0 is the governance contract itself. *)
Definition GOV : N := 0.

Definition pair_eqb (a b : N * N) : bool := (fst a =? fst b) && (snd a =? snd b).

Record peerv := mkPV { p_owner : N; p_status : N; p_init : N; p_total : N }.
Record infov := mkIV { i_cons : N; i_cand : N; i_new : N; i_wcons : N; i_wcand : N; i_wunf : N }.

Definition mkPeer (id owner st init total : N) : N * peerv := (id, mkPV owner st init total).
Definition mkInfo (p a c cd n wc wcd wu : N) : (N * N) * infov := ((p, a), mkIV c cd n wc wcd wu).

Record params := mkParams {
  g_admin : N;             (* operator of the param contract *)
  g_K : N;                 (* config.K *)
  g_maxBlockChangeView : N;
  g_candidateNum : N;
  g_minInitStake : N;
  g_posLimit : N;
  g_penalty : N;
  g_minAuthPos : N;
  g_selfgov : N            (* config.GetSelfGovRegisterHeight() *)
}.

Record state := mkState {
  s_view : N;
  s_vheight : N;
  s_pool : list (N * peerv);
  s_infos : list ((N * N) * infov);
  s_stakes : list (N * N);
  s_pens : list (N * (N * N));          (* peer -> (initPos, authorizePos) *)
  s_ont : list (N * N);                 (* whole ONT per address *)
  s_black : list N;
  s_maxauth : list (N * N);
  s_promise : list (N * N);
  s_par : params;
  s_prev : list (N * peerv)             (* the peer pool stored under view-1 (read by the fee split) *)
}.

Definition set_view v h s := mkState v h (s_pool s) (s_infos s) (s_stakes s) (s_pens s) (s_ont s) (s_black s) (s_maxauth s) (s_promise s) (s_par s) (s_prev s).
Definition set_pool x s := mkState (s_view s) (s_vheight s) x (s_infos s) (s_stakes s) (s_pens s) (s_ont s) (s_black s) (s_maxauth s) (s_promise s) (s_par s) (s_prev s).
Definition set_infos x s := mkState (s_view s) (s_vheight s) (s_pool s) x (s_stakes s) (s_pens s) (s_ont s) (s_black s) (s_maxauth s) (s_promise s) (s_par s) (s_prev s).
Definition set_stakes x s := mkState (s_view s) (s_vheight s) (s_pool s) (s_infos s) x (s_pens s) (s_ont s) (s_black s) (s_maxauth s) (s_promise s) (s_par s) (s_prev s).
Definition set_pens x s := mkState (s_view s) (s_vheight s) (s_pool s) (s_infos s) (s_stakes s) x (s_ont s) (s_black s) (s_maxauth s) (s_promise s) (s_par s) (s_prev s).
Definition set_ont x s := mkState (s_view s) (s_vheight s) (s_pool s) (s_infos s) (s_stakes s) (s_pens s) x (s_black s) (s_maxauth s) (s_promise s) (s_par s) (s_prev s).
Definition set_black x s := mkState (s_view s) (s_vheight s) (s_pool s) (s_infos s) (s_stakes s) (s_pens s) (s_ont s) x (s_maxauth s) (s_promise s) (s_par s) (s_prev s).
Definition set_maxauth x s := mkState (s_view s) (s_vheight s) (s_pool s) (s_infos s) (s_stakes s) (s_pens s) (s_ont s) (s_black s) x (s_promise s) (s_par s) (s_prev s).
Definition set_prev x s := mkState (s_view s) (s_vheight s) (s_pool s) (s_infos s) (s_stakes s) (s_pens s) (s_ont s) (s_black s) (s_maxauth s) (s_promise s) (s_par s) x.
Definition set_promise x s := mkState (s_view s) (s_vheight s) (s_pool s) (s_infos s) (s_stakes s) (s_pens s) (s_ont s) (s_black s) (s_maxauth s) x (s_par s) (s_prev s).

(** Result classes (the driver maps the implementation's error texts to these). *)
Inductive res :=
| ROk | EDecode | EHeight | EWitness | EToken | EPubkey | EBlack | ENotBlack | EDup | EFull | EInit
| EPos | ENoPeer | EOwner | ENotOwner | EStatus | EPosLimit | EMaxAuth | ENotEnough | EStake
| EOntBound | EOntBalance | ELessK | ETwice | EBucket | EReduce | EPromise.

Inductive outcome (A : Type) := Ok (x : A) | Fail (e : res).
Arguments Ok {A} x.
Arguments Fail {A} e.

Definition bind {A B} (o : outcome A) (f : A -> outcome B) : outcome B :=
  match o with Ok x => f x | Fail e => Fail e end.
Notation "'do' x <- o ; f" := (bind o (fun x => f)) (at level 200, x pattern, o at level 100, f at level 200).
Definition guard (b : bool) (e : res) : outcome unit := if b then Fail e else Ok tt.

(** ** lookups *)
Definition nget (k : N) (l : list (N * N)) : N :=
  match aget N.eqb k l with Some v => v | None => 0 end.
Definition zero_info : infov := mkIV 0 0 0 0 0 0.
Definition iget (p a : N) (l : list ((N * N) * infov)) : infov :=
  match aget pair_eqb (p, a) l with Some v => v | None => zero_info end.
Definition iset (p a : N) (v : infov) l := aset pair_eqb (p, a) v l.
Definition pget (k : N) (l : list (N * peerv)) : option peerv := aget N.eqb k l.
Definition pset (k : N) (v : peerv) l := aset N.eqb k v l.
Definition penget (k : N) (l : list (N * (N * N))) : N * N :=
  match aget N.eqb k l with Some v => v | None => (0, 0) end.

Definition is_active (st : N) : bool := (st =? CandidateStatus) || (st =? ConsensusStatus).

Definition with_status (p : peerv) (st : N) := mkPV (p_owner p) st (p_init p) (p_total p).
Definition with_total (p : peerv) (t : N) := mkPV (p_owner p) (p_status p) (p_init p) t.
Definition with_init (p : peerv) (i : N) := mkPV (p_owner p) (p_status p) i (p_total p).

(** number of Candidate/Consensus peers *)
Definition active_num (l : list (N * peerv)) : N :=
  N.of_nat (length (filter (fun kv => is_active (p_status (snd kv))) l)).

(** ** ONT ledger: ont.doTransfer for one TransferState with a uint64 value
    (zero values are skipped; value above the total supply is rejected; balances are
    big integers and do not wrap). *)
Definition ont_transfer (ont : list (N * N)) (from to v : N) : outcome (list (N * N)) :=
  if v =? 0 then Ok ont
  else if ONT_TOTAL_SUPPLY <? v then Fail EOntBound
  else let fb := nget from ont in
       if fb <? v then Fail EOntBalance
       else let ont1 := aset N.eqb from (fb - v) ont in
            Ok (aset N.eqb to (nget to ont1 + v) ont1).

(** depositTotalStake / withdrawTotalStake (the ONG part is not modelled) *)
Definition deposit_stake (stakes : list (N * N)) (a amt : N) : list (N * N) :=
  aset N.eqb a (w64 (nget a stakes + amt)) stakes.
Definition withdraw_stake (stakes : list (N * N)) (a amt : N) : outcome (list (N * N)) :=
  let st := nget a stakes in
  if st <? amt then Fail EStake else Ok (aset N.eqb a (st - amt) stakes).

(** ** operations *)
Inductive op :=
| ORegister (signer peer addr initPos : N) (pk_ok : bool) (token_ok : bool)
| OUnRegister (signer peer addr : N)
| OApprove (signer peer : N)
| OReject (signer peer : N)
| OAuthorize (signer addr : N) (l : list (N * N)) (wf : bool)
| OUnAuthorize (signer addr : N) (l : list (N * N)) (wf : bool)
| OWithdraw (signer addr : N) (l : list (N * N)) (wf : bool)
| OQuit (signer peer addr : N)
| OBlack (signer : N) (l : list N)
| OWhite (signer peer : N)
| OCommit (signer : N)
| OMaxAuth (signer peer addr max : N)
| OAddInit (signer peer addr pos : N)
| OReduceInit (signer peer addr pos : N)
| OPenalty (signer peer addr : N).

Definition len_ok {A} (l : list A) (bound : N) : bool := N.of_nat (length l) <=? bound.

(** registerCandidate (flag "transfer") *)
Definition exec_register (h : N) (s : state) (signer k addr initPos : N) (pk_ok token_ok : bool) : outcome state :=
  let par := s_par s in
  let selfgov := g_selfgov par <=? h in
  do _ <- guard (initPos <? 1) EInit;
  do _ <- guard (negb selfgov && negb token_ok) EToken;
  do _ <- guard (negb (addr =? signer)) EWitness;
  do _ <- guard (negb pk_ok) EPubkey;
  do _ <- guard (existsb (N.eqb k) (s_black s)) EBlack;
  do _ <- guard (match pget k (s_pool s) with Some _ => true | None => false end) EDup;
  do _ <- guard (selfgov && (g_candidateNum par <=? active_num (s_pool s))) EFull;
  do _ <- guard (selfgov && (initPos <? g_minInitStake par)) EInit;
  let st := if selfgov then CandidateStatus else RegisterCandidateStatus in
  let s1 := set_pool (pset k (mkPV addr st initPos 0) (s_pool s)) s in
  let s2 := if selfgov then set_promise (aset N.eqb k initPos (s_promise s1)) s1 else s1 in
  do ont' <- ont_transfer (s_ont s2) addr GOV initPos;
  Ok (set_stakes (deposit_stake (s_stakes s2) addr initPos) (set_ont ont' s2)).

(** UnRegisterCandidate / RejectCandidate: initPos becomes withdrawable, peer leaves the pool *)
Definition release_init (s : state) (k : N) (p : peerv) : state :=
  let i := iget k (p_owner p) (s_infos s) in
  let i' := mkIV (i_cons i) (i_cand i) (i_new i) (i_wcons i) (i_wcand i) (w64 (i_wunf i + p_init p)) in
  set_pool (adel N.eqb k (s_pool s)) (set_infos (iset k (p_owner p) i' (s_infos s)) s).

Definition exec_unregister (s : state) (signer k addr : N) : outcome state :=
  do _ <- guard (negb (addr =? signer)) EWitness;
  match pget k (s_pool s) with
  | None => Fail ENoPeer
  | Some p =>
      do _ <- guard (negb (p_status p =? RegisterCandidateStatus)) EStatus;
      do _ <- guard (negb (p_owner p =? addr)) ENotOwner;
      Ok (release_init s k p)
  end.

Definition exec_reject (s : state) (signer k : N) : outcome state :=
  do _ <- guard (negb (g_admin (s_par s) =? signer)) EWitness;
  match pget k (s_pool s) with
  | None => Fail ENoPeer
  | Some p =>
      do _ <- guard (negb (p_status p =? RegisterCandidateStatus)) EStatus;
      Ok (release_init s k p)
  end.

Definition exec_approve (h : N) (s : state) (signer k : N) : outcome state :=
  let par := s_par s in
  do _ <- guard (negb (g_admin par =? signer)) EWitness;
  do _ <- guard (g_candidateNum par <=? active_num (s_pool s)) EFull;
  match pget k (s_pool s) with
  | None => Fail ENoPeer
  | Some p =>
      do _ <- guard (p_init p <? g_minInitStake par) EInit;
      do _ <- guard (negb (p_status p =? RegisterCandidateStatus)) EStatus;
      let s1 := if NEW_VERSION_BLOCK <=? h then set_promise (aset N.eqb k (p_init p) (s_promise s)) s else s in
      Ok (set_pool (pset k (mkPV (p_owner p) CandidateStatus (p_init p) 0) (s_pool s1)) s1)
  end.

(** one iteration of the authorizeForPeer loop *)
Definition auth_item (s : state) (addr : N) (kp : N * N) (total : N) : outcome (state * N) :=
  let '(k, pos) := kp in
  let par := s_par s in
  do _ <- guard (pos <? 1) EPos;
  do _ <- guard ((pos <? g_minAuthPos par) || negb (pos mod g_minAuthPos par =? 0)) EPos;
  match pget k (s_pool s) with
  | None => Fail ENoPeer
  | Some p =>
      do _ <- guard (negb (is_active (p_status p))) EStatus;
      do _ <- guard (addr =? p_owner p) EOwner;
      let i := iget k addr (s_infos s) in
      let i' := mkIV (i_cons i) (i_cand i) (w64 (i_new i + pos)) (i_wcons i) (i_wcand i) (i_wunf i) in
      let t' := w64 (p_total p + pos) in
      do _ <- guard (w64 (g_posLimit par * p_init p) <? t') EPosLimit;
      do _ <- guard (nget k (s_maxauth s) <? t') EMaxAuth;
      Ok (set_infos (iset k addr i' (s_infos s)) (set_pool (pset k (with_total p t') (s_pool s)) s),
          w64 (total + pos))
  end.

Fixpoint auth_loop (s : state) (addr : N) (l : list (N * N)) (total : N) : outcome (state * N) :=
  match l with
  | [] => Ok (s, total)
  | kp :: r => do st <- auth_item s addr kp total; auth_loop (fst st) addr r (snd st)
  end.

Definition exec_authorize (s : state) (signer addr : N) (l : list (N * N)) (wf : bool) : outcome state :=
  do _ <- guard (negb wf || negb (len_ok l MAX_LIST_AuthorizeForPeerParam)) EDecode;
  do _ <- guard (negb (addr =? signer)) EWitness;
  do st <- auth_loop s addr l 0;
  let '(s1, total) := st in
  do ont' <- ont_transfer (s_ont s1) addr GOV total;
  Ok (set_stakes (deposit_stake (s_stakes s1) addr total) (set_ont ont' s1)).

(** the bucket arithmetic of one UnAuthorizeForPeer iteration, for the effective amount [pos] *)
Definition unauth_apply (s : state) (addr k : N) (p : peerv) (i : infov) (pos : N) : outcome state :=
  if i_new i <? pos then
    let rest := pos - i_new i in
    if p_status p =? ConsensusStatus then
      do _ <- guard (i_cons i <? rest) ENotEnough;
      let i' := mkIV (wsub (w64 (i_cons i + i_new i)) pos) (i_cand i) 0
                     (wsub (w64 (i_wcons i + pos)) (i_new i)) (i_wcand i) (w64 (i_wunf i + i_new i)) in
      Ok (set_infos (iset k addr i' (s_infos s)) (set_pool (pset k (with_total p (wsub (p_total p) pos)) (s_pool s)) s))
    else
      do _ <- guard (i_cand i <? rest) ENotEnough;
      let i' := mkIV (i_cons i) (wsub (w64 (i_cand i + i_new i)) pos) 0
                     (i_wcons i) (wsub (w64 (i_wcand i + pos)) (i_new i)) (w64 (i_wunf i + i_new i)) in
      Ok (set_infos (iset k addr i' (s_infos s)) (set_pool (pset k (with_total p (wsub (p_total p) pos)) (s_pool s)) s))
  else
    let i' := mkIV (i_cons i) (i_cand i) (i_new i - pos) (i_wcons i) (i_wcand i) (w64 (i_wunf i + pos)) in
    Ok (set_infos (iset k addr i' (s_infos s)) (set_pool (pset k (with_total p (wsub (p_total p) pos)) (s_pool s)) s)).

(** one iteration of the UnAuthorizeForPeer loop *)
Definition unauth_item (s : state) (addr : N) (kp : N * N) : outcome state :=
  let '(k, pos0) := kp in
  let par := s_par s in
  let i := iget k addr (s_infos s) in
  do _ <- guard (pos0 <? 1) EPos;
  let act := w64 (w64 (i_cons i + i_cand i) + i_new i) in
  let small := act <? g_minAuthPos par in
  do _ <- guard (negb small && ((pos0 <? g_minAuthPos par) || negb (pos0 mod g_minAuthPos par =? 0))) EPos;
  let pos := if small then act else pos0 in
  match pget k (s_pool s) with
  | None => Fail ENoPeer
  | Some p =>
      do _ <- guard (negb (is_active (p_status p))) EStatus;
      unauth_apply s addr k p i pos
  end.

Fixpoint unauth_loop (s : state) (addr : N) (l : list (N * N)) : outcome state :=
  match l with
  | [] => Ok s
  | kp :: r => do s1 <- unauth_item s addr kp; unauth_loop s1 addr r
  end.

Definition exec_unauthorize (s : state) (signer addr : N) (l : list (N * N)) (wf : bool) : outcome state :=
  do _ <- guard (negb wf || negb (len_ok l MAX_LIST_AuthorizeForPeerParam)) EDecode;
  do _ <- guard (negb (addr =? signer)) EWitness;
  unauth_loop s addr l.

(** one iteration of the Withdraw loop *)
Definition withdraw_item (h : N) (s : state) (addr : N) (kp : N * N) (total : N) : outcome (state * N) :=
  let '(k, pos) := kp in
  do _ <- guard ((NEW_WITHDRAW_BLOCK <? h) && (pos <? 1)) EPos;
  let i := iget k addr (s_infos s) in
  do _ <- guard (i_wunf i <? pos) ENotEnough;
  let i' := mkIV (i_cons i) (i_cand i) (i_new i) (i_wcons i) (i_wcand i) (i_wunf i - pos) in
  Ok (set_infos (iset k addr i' (s_infos s)) s, w64 (total + pos)).

Fixpoint withdraw_loop (h : N) (s : state) (addr : N) (l : list (N * N)) (total : N) : outcome (state * N) :=
  match l with
  | [] => Ok (s, total)
  | kp :: r => do st <- withdraw_item h s addr kp total; withdraw_loop h (fst st) addr r (snd st)
  end.

Definition exec_withdraw (h : N) (s : state) (signer addr : N) (l : list (N * N)) (wf : bool) : outcome state :=
  do _ <- guard (negb wf || negb (len_ok l MAX_LIST_WithdrawParam)) EDecode;
  do _ <- guard (negb (addr =? signer)) EWitness;
  do st <- withdraw_loop h s addr l 0;
  let '(s1, total) := st in
  do ont' <- ont_transfer (s_ont s1) GOV addr total;
  do stakes' <- withdraw_stake (s_stakes s1) addr total;
  Ok (set_stakes stakes' (set_ont ont' s1)).

Definition exec_quit (s : state) (signer k addr : N) : outcome state :=
  do _ <- guard (negb (addr =? signer)) EWitness;
  match pget k (s_pool s) with
  | None => Fail ENoPeer
  | Some p =>
      do _ <- guard (negb (addr =? p_owner p)) ENotOwner;
      do _ <- guard (negb (is_active (p_status p))) EStatus;
      do _ <- guard (active_num (s_pool s) <=? g_K (s_par s)) ELessK;
      let st := if p_status p =? ConsensusStatus then QuitConsensusStatus else QuitingStatus in
      Ok (set_pool (pset k (with_status p st) (s_pool s)) s)
  end.

(** ** commitDpos *)

(** normalQuit: every authorize info of the peer is unfrozen; the owner's record of this peer
    additionally receives initPos (the code updates it inside the iteration when it exists and
    creates it with WithdrawUnfreezePos = initPos otherwise - the same values either way, written
    here as one update after the iteration). *)
Definition quit_info (_ : N * N) (i : infov) : infov :=
  mkIV 0 0 0 0 0 (w64 (i_cons i + i_cand i + i_new i + i_wcons i + i_wcand i + i_wunf i)).

Definition on_peer (k : N) (f : N * N -> infov -> infov) (key : N * N) (i : infov) : infov :=
  if fst key =? k then f key i else i.

Definition normal_quit (s : state) (k : N) (p : peerv) : state :=
  let infos1 := amap (on_peer k quit_info) (s_infos s) in
  let i := iget k (p_owner p) infos1 in
  let i' := mkIV (i_cons i) (i_cand i) (i_new i) (i_wcons i) (i_wcand i) (w64 (i_wunf i + p_init p)) in
  set_infos (iset k (p_owner p) i' infos1) s.

(** blackQuit *)
Definition black_total (i : infov) : N := w64 (i_cons i + i_cand i + i_new i + i_wcons i + i_wcand i).
Definition black_penalty (pen : N) (i : infov) : N := w64 (w64 (pen * black_total i) + 99) / 100.
Definition black_info (pen : N) (key : N * N) (i : infov) : infov :=
  mkIV 0 0 0 0 0 (w64 (wsub (black_total i) (black_penalty pen i) + i_wunf i)).

(** penalties of the infos of peer [k], in storage order: (address, penalty) *)
Definition pen_list (pen k : N) (infos : list ((N * N) * infov)) : list (N * N) :=
  map (fun kv => (snd (fst kv), black_penalty pen (snd kv)))
      (filter (fun kv => fst (fst kv) =? k) infos).

Fixpoint withdraw_many (stakes : list (N * N)) (l : list (N * N)) (acc : N) : outcome (list (N * N) * N) :=
  match l with
  | [] => Ok (stakes, acc)
  | (a, amt) :: r => do st' <- withdraw_stake stakes a amt; withdraw_many st' r (w64 (acc + amt))
  end.

Definition black_quit (s : state) (k : N) (p : peerv) : outcome state :=
  do ont' <- ont_transfer (s_ont s) GOV GOV (p_init p);
  do st1 <- withdraw_stake (s_stakes s) (p_owner p) (p_init p);
  let pen := g_penalty (s_par s) in
  do r <- withdraw_many st1 (pen_list pen k (s_infos s)) 0;
  let '(st2, authorizePos) := r in
  let infos' := amap (on_peer k (black_info pen)) (s_infos s) in
  let '(pi, pa) := penget k (s_pens s) in
  Ok (set_pens (aset N.eqb k (w64 (pi + p_init p), w64 (pa + authorizePos)) (s_pens s))
        (set_stakes st2 (set_infos infos' (set_ont ont' s)))).

(** first loop of executeCommitDpos1/2 over the pool of the current view *)
Fixpoint commit_pass (l : list (N * peerv)) (s : state) : outcome state :=
  match l with
  | [] => Ok s
  | (k, p) :: r =>
      if p_status p =? QuitingStatus then
        commit_pass r (set_pool (adel N.eqb k (s_pool s)) (normal_quit s k p))
      else if p_status p =? BlackStatus then
        do s1 <- black_quit s k p; commit_pass r (set_pool (adel N.eqb k (s_pool s1)) s1)
      else if p_status p =? QuitConsensusStatus then
        commit_pass r (set_pool (pset k (with_status p QuitingStatus) (s_pool s)) s)
      else commit_pass r s
  end.

(** the rotation of the withdraw buckets common to the four transitions *)
Definition rotate (c cd : N) (i : infov) : infov :=
  mkIV c cd 0 0 (i_wcons i) (w64 (i_wunf i + i_wcand i)).

Definition c2c (_ : N * N) (i : infov) := rotate (w64 (i_cons i + i_new i)) (i_cand i) i.
Definition u2c (_ : N * N) (i : infov) := rotate (w64 (w64 (i_cons i + i_cand i) + i_new i)) 0 i.
Definition c2u (_ : N * N) (i : infov) := rotate 0 (w64 (i_cons i + i_new i)) i.
Definition u2u (_ : N * N) (i : infov) := rotate (i_cons i) (w64 (i_new i + i_cand i)) i.

(** some info of peer [k] has a non-zero Candidate (resp. Consensus) bucket *)
Definition bad_bucket (k : N) (proj : infov -> N) (infos : list ((N * N) * infov)) : bool :=
  existsb (fun kv => (fst (fst kv) =? k) && negb (proj (snd kv) =? 0)) infos.

Definition transition (s : state) (k : N) (to_consensus : bool) : outcome state :=
  match pget k (s_pool s) with
  | None => Fail ENoPeer
  | Some p =>
      let from_consensus := p_status p =? ConsensusStatus in
      do _ <- guard (bad_bucket k (if from_consensus then i_cand else i_cons) (s_infos s)) EBucket;
      let f := match from_consensus, to_consensus with
               | true, true => c2c | false, true => u2c | true, false => c2u | false, false => u2u end in
      let st := if to_consensus then ConsensusStatus else CandidateStatus in
      Ok (set_pool (pset k (with_status p st) (s_pool s)) (set_infos (amap (on_peer k f) (s_infos s)) s))
  end.

Fixpoint transitions (s : state) (ks : list N) (to_consensus : bool) : outcome state :=
  match ks with
  | [] => Ok s
  | k :: r => do s1 <- transition s k to_consensus; transitions s1 r to_consensus
  end.

(** sort.SliceStable with "stake greater, or equal stake and pubkey greater": descending *)
Definition stake_gt (a b : N * N) : bool := (fst b <? fst a) || ((fst a =? fst b) && (snd b <? snd a)).
Fixpoint insert_desc (x : N * N) (l : list (N * N)) : list (N * N) :=
  match l with
  | [] => [x]
  | y :: r => if stake_gt x y then x :: l else y :: insert_desc x r
  end.
Definition sort_desc (l : list (N * N)) : list (N * N) := fold_right insert_desc [] l.

Definition candidates (pool : list (N * peerv)) : list (N * N) :=
  map (fun kv => (w64 (p_total (snd kv) + p_init (snd kv)), fst kv))
      (filter (fun kv => is_active (p_status (snd kv))) pool).

(** executeCommitDpos without the fee split *)
Definition commit_core (h : N) (s : state) : outcome state :=
  do _ <- guard (h =? s_vheight s) ETwice;
  do s1 <- commit_pass (s_pool s) s;
  let peers := candidates (s_pool s1) in
  let K := N.to_nat (g_K (s_par s1)) in
  do _ <- guard (N.of_nat (length peers) <? g_K (s_par s1)) ELessK;
  let sorted := map snd (sort_desc peers) in
  do s2 <- transitions s1 (firstn K sorted) true;
  do s3 <- transitions s2 (skipn K sorted) false;
  (* putPeerPoolMap(newView): the map stored under the old view index stays as it was when the
     commit started and becomes the previous view's pool; the one under view-1 is deleted *)
  Ok (set_prev (s_pool s) (set_view (s_view s + 1) h s3)).

Definition exec_commit (h : N) (s : state) (signer : N) : outcome state :=
  let par := s_par s in
  do _ <- guard (negb (g_admin par =? signer) && (wsub32 h (s_vheight s) <? g_maxBlockChangeView par)) EWitness;
  commit_core h s.

(** BlackNode *)
Fixpoint black_loop (s : state) (l : list N) (commit : bool) : outcome (state * bool) :=
  match l with
  | [] => Ok (s, commit)
  | k :: r =>
      match pget k (s_pool s) with
      | None => Fail ENoPeer
      | Some p =>
          let black' := if existsb (N.eqb k) (s_black s) then s_black s else k :: s_black s in
          black_loop (set_black black' (set_pool (pset k (with_status p BlackStatus) (s_pool s)) s)) r
                     (commit || (p_status p =? ConsensusStatus))
      end
  end.

Definition exec_black (h : N) (s : state) (signer : N) (l : list N) : outcome state :=
  do _ <- guard (negb (g_admin (s_par s) =? signer)) EWitness;
  do st <- black_loop s l false;
  if snd st then commit_core h (fst st) else Ok (fst st).

Definition exec_white (s : state) (signer k : N) : outcome state :=
  do _ <- guard (negb (g_admin (s_par s) =? signer)) EWitness;
  do _ <- guard (negb (existsb (N.eqb k) (s_black s))) ENotBlack;
  Ok (set_black (filter (fun x => negb (x =? k)) (s_black s)) s).

Definition exec_maxauth (h : N) (s : state) (signer k addr max : N) : outcome state :=
  do _ <- guard (h <? NEW_VERSION_BLOCK) EHeight;
  do _ <- guard (negb (addr =? signer)) EWitness;
  match pget k (s_pool s) with
  | None => Fail ENoPeer
  | Some p =>
      do _ <- guard (negb (p_owner p =? addr)) ENotOwner;
      do _ <- guard (w64 (g_posLimit (s_par s) * p_init p) <? max) EMaxAuth;
      Ok (set_maxauth (aset N.eqb k max (s_maxauth s)) s)
  end.

Definition exec_addinit (h : N) (s : state) (signer k addr pos : N) : outcome state :=
  do _ <- guard (h <? NEW_VERSION_BLOCK) EHeight;
  do _ <- guard (negb (addr =? signer)) EWitness;
  do _ <- guard (pos <? 1) EPos;
  match pget k (s_pool s) with
  | None => Fail ENoPeer
  | Some p =>
      do _ <- guard (negb (p_owner p =? addr)) ENotOwner;
      do _ <- guard (negb (is_active (p_status p) || (p_status p =? RegisterCandidateStatus))) EStatus;
      let s1 := set_pool (pset k (with_init p (w64 (p_init p + pos))) (s_pool s)) s in
      do ont' <- ont_transfer (s_ont s1) addr GOV pos;
      Ok (set_stakes (deposit_stake (s_stakes s1) addr pos) (set_ont ont' s1))
  end.

Definition exec_reduceinit (h : N) (s : state) (signer k addr pos : N) : outcome state :=
  do _ <- guard (h <? NEW_VERSION_BLOCK) EHeight;
  do _ <- guard (negb (addr =? signer)) EWitness;
  do _ <- guard (pos <? 1) EPos;
  match pget k (s_pool s) with
  | None => Fail ENoPeer
  | Some p =>
      do _ <- guard (negb (p_owner p =? addr)) ENotOwner;
      do _ <- guard (p_init p <? pos) EReduce;
      let newInit := p_init p - pos in
      let lim := g_posLimit (s_par s) in
      do _ <- guard (newInit <? wsub (w64 (p_total p + lim)) 1 / lim) EReduce;
      match aget N.eqb k (s_promise s) with
      | None => Fail EPromise
      | Some pr =>
          do _ <- guard (newInit <? pr) EReduce;
          let i := iget k addr (s_infos s) in
          do i' <- (if p_status p =? ConsensusStatus then
                      Ok (mkIV (i_cons i) (i_cand i) (i_new i) (w64 (i_wcons i + pos)) (i_wcand i) (i_wunf i))
                    else if p_status p =? CandidateStatus then
                      Ok (mkIV (i_cons i) (i_cand i) (i_new i) (i_wcons i) (w64 (i_wcand i + pos)) (i_wunf i))
                    else if p_status p =? RegisterCandidateStatus then
                      Ok (mkIV (i_cons i) (i_cand i) (i_new i) (i_wcons i) (i_wcand i) (w64 (i_wunf i + pos)))
                    else Fail EStatus);
          Ok (set_infos (iset k addr i' (s_infos s)) (set_pool (pset k (with_init p newInit) (s_pool s)) s))
      end
  end.

(** TransferPenalty *)
Definition exec_penalty (s : state) (signer k addr : N) : outcome state :=
  do _ <- guard (negb (g_admin (s_par s) =? signer)) EWitness;
  let '(pi, pa) := penget k (s_pens s) in
  do ont' <- ont_transfer (s_ont s) GOV addr (w64 (pi + pa));
  Ok (set_pens (adel N.eqb k (s_pens s)) (set_ont ont' s)).

Definition exec (h : N) (s : state) (o : op) : outcome state :=
  match o with
  | ORegister sg k a ip pk tk => exec_register h s sg k a ip pk tk
  | OUnRegister sg k a => exec_unregister s sg k a
  | OApprove sg k => exec_approve h s sg k
  | OReject sg k => exec_reject s sg k
  | OAuthorize sg a l wf => exec_authorize s sg a l wf
  | OUnAuthorize sg a l wf => exec_unauthorize s sg a l wf
  | OWithdraw sg a l wf => exec_withdraw h s sg a l wf
  | OQuit sg k a => exec_quit s sg k a
  | OBlack sg l => exec_black h s sg l
  | OWhite sg k => exec_white s sg k
  | OCommit sg => exec_commit h s sg
  | OMaxAuth sg k a m => exec_maxauth h s sg k a m
  | OAddInit sg k a p => exec_addinit h s sg k a p
  | OReduceInit sg k a p => exec_reduceinit h s sg k a p
  | OPenalty sg k a => exec_penalty s sg k a
  end.

(** One transaction at height [h]: a failing call changes nothing. *)
Definition step (s : state) (ho : N * op) : state * res :=
  match exec (fst ho) s (snd ho) with
  | Ok s' => (s', ROk)
  | Fail e => (s, e)
  end.

Definition run (s : state) (l : list (N * op)) : state := fold_left (fun s ho => fst (step s ho)) l s.

(** ** InitConfig: the state after genesis (governance part) with the ONT ledger [ont]. *)
Fixpoint genesis_stakes (peers : list (N * N * N)) (stakes : list (N * N)) : list (N * N) :=
  match peers with
  | [] => stakes
  | (k, owner, init) :: r => genesis_stakes r (deposit_stake stakes owner init)
  end.

Definition genesis_pool (peers : list (N * N * N)) : list (N * peerv) :=
  fold_left (fun acc x => let '(k, owner, init) := x in pset k (mkPV owner ConsensusStatus init 0) acc) peers [].

Definition genesis (par : params) (h : N) (peers : list (N * N * N)) (ont : list (N * N)) : state :=
  (* InitConfig stores the same map under view 0 and view 1 *)
  mkState 1 h (genesis_pool peers) [] (genesis_stakes peers []) [] ont [] [] [] par (genesis_pool peers).
